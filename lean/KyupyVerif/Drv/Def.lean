import KyupyVerif.Model.Def
import KyupyVerif.Model.DefText
/-! Driver extension for C20: evaluates the routing model `Model/Def.lean` on an encoded `DefNet` / `DefWire`.

Request  `def <cmd> <payload>`
* wire   `layer:width:start;item;…`  layer percent-encoded; width `-` (None) or `t<pct-encoded RAW token>` (`DefWire.width` is the
         unconverted NUMBER token; the model decides where `int()` is applied and raises);
         start/point item `p,x,y[,ext]` with `*` for None; via `v,name[,orient]`; array `a,name,nx,ny,dx,dy`
* net    wires joined by `|`; `.` = routed but no wire; `~` = no `routed` attribute
* cmds   `wires` (demanded listing) · `wiresasis` (code as it is) · `wiresraw` (as it is, without the `int(None)` error) · `vias` · `wpoints` (`DefWire.wire_points`) ·
         `wvias` (`DefWire.vias`) · `resolve` (resolved wire points)
Answer: dictionary `key=val&val|key=…` in insertion order (`.` when empty), `!attr` / `!type` / `!value` for a raised exception
(`!value`: `int(width)` of a LISTED wire raises ValueError), `!start`: outside the domain "first point of the wire explicit" — the real
property returns a listing with `None` in it or raises TypeError (`Wire.wirePoints?` / `Wire.vias?` / `netVias?` / `netWiresR`);
wire value `width@pt;pt`, via value `x,y,orient`. -/
namespace KV.Drv.Def
open KV.Def

def hexVal (c : Char) : Nat :=
  if c.isDigit then c.toNat - '0'.toNat else if 'a' ≤ c ∧ c ≤ 'f' then c.toNat - 'a'.toNat + 10
  else if 'A' ≤ c ∧ c ≤ 'F' then c.toNat - 'A'.toNat + 10 else 0
def pctDecode : List Char → List Char
  | '%' :: a :: b :: r => Char.ofNat (16 * hexVal a + hexVal b) :: pctDecode r
  | '%' :: _ => []
  | c :: r => c :: pctDecode r
  | [] => []
def unpct (s : String) : String := String.ofList (pctDecode s.toList)
def hexDigit (n : Nat) : Char := if n < 10 then Char.ofNat ('0'.toNat + n) else Char.ofNat ('a'.toNat + n - 10)
def pctChar (c : Char) : List Char :=
  if c.isAlphanum || c == '_' || c == '[' || c == ']' || c == '~' || c == '/' || c == '.' || c == '-' then [c]
  else ['%', hexDigit (c.toNat / 16 % 16), hexDigit (c.toNat % 16)]
def pct (s : String) : String := if s.isEmpty then "%" else String.ofList (s.toList.flatMap pctChar)

def parseCoord (s : String) : Option Int := if s == "*" then none else s.toInt?

def parsePt : List String → RPt
  | [x, y] => ⟨parseCoord x, parseCoord y, none⟩
  | [x, y, e] => ⟨parseCoord x, parseCoord y, parseCoord e⟩
  | _ => default

def parseItem (s : String) : Item :=
  match s.splitOn "," with
  | "p" :: r => .pt (parsePt r)
  | ["v", n] => .via (unpct n) none
  | ["v", n, o] => .via (unpct n) (some (unpct o))
  | ["a", n, nx, ny, dx, dy] => .arr (unpct n) nx.toNat! ny.toNat! dx.toInt! dy.toInt!
  | _ => default

def parseWire (s : String) : DWire :=
  match s.splitOn ":" with
  | [l, w, its] =>
    match (its.splitOn ";").filter (· ≠ "") with
    | st :: rest =>
      { layer := unpct l, width := if w == "-" then none else some (unpct (w.drop 1).toString),
        start := match parseItem st with | .pt p => p | _ => default,
        rest := rest.map parseItem }
    | [] => default
  | _ => default

def parseNet (s : String) : Option (List DWire) :=
  if s == "~" then none else if s == "." then some []
  else some (((s.splitOn "|").filter (· ≠ "")).map parseWire)

def showCoord : Option Int → String
  | some v => toString v
  | none => "*"
def showRPt (p : RPt) : String :=
  match p.ext with
  | none => s!"{showCoord p.x},{showCoord p.y}"
  | some e => s!"{showCoord p.x},{showCoord p.y},{e}"
def showPt3 (p : Pt3) : String :=
  match p.ext with
  | none => s!"{p.x},{p.y}"
  | some e => s!"{p.x},{p.y},{e}"
def showWidth : Option Nat → String
  | some w => toString w
  | none => "-"
def showDict {α : Type} (f : α → String) (d : Dict α) : String :=
  if d.isEmpty then "." else
  "|".intercalate (d.map fun kv => s!"{pct kv.1}={"&".intercalate (kv.2.map f)}")
def showVia (v : ViaLoc) : String := s!"{v.1},{v.2.1},{pct v.2.2}"
def showList (l : List String) : String := if l.isEmpty then "." else ";".intercalate l

/-- a net's `routed` list in the request format above (`~` no ROUTED statement, `.` empty) -/
def showItem : Item → String
  | .pt p => "p," ++ showRPt p
  | .via n none => "v," ++ pct n
  | .via n (some o) => "v," ++ pct n ++ "," ++ pct o
  | .arr n nx ny dx dy => s!"a,{pct n},{nx},{ny},{dx},{dy}"
def showTok : Option String → String
  | some t => "t" ++ pct t
  | none => "-"
def showWire (w : DWire) : String :=
  s!"{pct w.layer}:{showTok w.width}:{";".intercalate (("p," ++ showRPt w.start) :: w.rest.map showItem)}"
def showNet : Option (List DWire) → String
  | none => "~"
  | some [] => "."
  | some ws => "|".intercalate (ws.map showWire)

/-- `DefNet.wires` of the raw records as the model sees it -/
def ansWires (ws : List DWire) : String :=
  match netWiresR ws with
  | .error e => s!"!{e}"
  | .ok d => showDict (fun e => s!"{showWidth e.1}@{";".intercalate (e.2.map showPt3)}") d
/-- `DefNet.vias` of the raw records as the model sees it -/
def ansVias (ws : List DWire) : String :=
  match netViasR ws with
  | none => "!start"
  | some d => showDict showVia d

/-! ### text level: `defparse <pct-encoded text>` → `syntax` | `<ok|raise> <tree> <nets>`; nets = `S:name=<net>` / `N:name=<net>` per special / regular net in file order,
`!`-separated (`-` for none), `<net>` = the wires of all its wiring statements in the request format above (raw width tokens), followed by
`>` and the model's `DefNet.wires` outcome and `>` and its `DefNet.vias` outcome (answer format of `def wires` / `def vias`); the tree is lark's parse tree with all
tokens kept (`keep_all_tokens=True`): `rule[child,child,..]`, leaves percent-encoded token texts -/
namespace Text
open KV.DefText
def enc (cs : List Char) : String :=
  if cs.isEmpty then "%" else
  String.ofList (cs.flatMap fun c =>
    if c.isAlphanum || c == '_' then [c] else ['%', hexDigit (c.toNat / 16 % 16), hexDigit (c.toNat % 16)])
def node (name : String) (ch : List String) : String := name ++ "[" ++ ",".intercalate ch ++ "]"
def kw (k : Kw) : String := enc k.chars
def coord : Option Txt → String
  | some v => enc v
  | none => enc ['*']
def point (p : TPoint) : String :=
  node "point" ([kw .Lpar, coord p.x, coord p.y] ++ (match p.ext with | some e => [enc e] | none => []) ++ [kw .Rpar])
def dostep (d : TDoStep) : String := node "do_step" [kw .Do, enc d.nx, kw .By, enc d.ny, kw .Step, enc d.dx, enc d.dy]
def item (sp : Bool) : TItem → String
  | .pt p => point p
  | .via n o => node (if sp then "sppoints_via" else "points_via") (enc n :: (match o with | some o => [enc o] | none => []))
  | .arr n d => node "sppoints_via" [enc n, dostep d]
def wire (sp : Bool) (w : TWire) : String :=
  if sp then
    node "spwire" ([enc w.layer, enc (w.width.getD [])]
      ++ w.spopts.map (fun o => node "spwire_opt" [kw .Plus, kw (if o.1 then .Shape else .Style), enc o.2])
      ++ [node "sppoints" (point w.start :: w.rest.map (item sp))])
  else
    node "wire" [enc w.layer,
      node "wire_opt" ((match w.taper with | .none => [] | .taper => [kw .Taper] | .rule r => [kw .Taperrule, enc r])
        ++ (match w.style with | some s => [kw .Style, enc s] | none => [])),
      node "points" (point w.start :: w.rest.map (item sp))]
def wires (sp : Bool) : List TWire → List String
  | [] => []
  | [w] => [wire sp w]
  | w :: ws => wire sp w :: kw .New :: wires sp ws
def netpart (sp : Bool) : NetPart → String
  | .pin a b => node "net_pin" [kw .Lpar, enc a, enc b, kw .Rpar]
  | .opt k v => node "net_opt" [kw .Plus, kw k, enc v]
  | .wiring k ws => node (if sp then "spnet_wires" else "net_wires") ([kw .Plus, kw k] ++ wires sp ws)
def net (sp : Bool) (n : TNet) : String :=
  node (if sp then "spnets_stmt" else "nets_stmt") ([kw .Minus, enc n.name] ++ n.parts.map (netpart sp) ++ [kw .Semi])
def viaopt (o : TViaOpt) : String := node "vias_opt" ([kw .Plus, kw o.k] ++ o.args.map enc)
def pinopt : PinOpt → String
  | .word k v => node "pins_opt" [kw .Plus, kw k, enc v]
  | .flag k => node "pins_opt" [kw .Plus, kw k]
  | .layer l p q => node "pins_opt" [kw .Plus, kw .Layer, enc l, point p, point q]
  | .placed p o => node "pins_opt" [kw .Plus, kw .Placed, point p, enc o]
def ndopt : NdOpt → List String
  | .hard => [kw .Plus, kw .Hardspacing]
  | .layer l w s => [kw .Plus, kw .Layer, enc l, kw .Width, enc w, kw .Spacing, enc s]
  | .via v => [kw .Plus, kw .Via, enc v]
def sect (name : String) (k : Kw) (n : Txt) (items : List String) : String :=
  node name ([kw k, enc n, kw .Semi] ++ items ++ [kw .End, kw k])
def dstmt : DStmt → String
  | .units a b n => node "design_stmt" [kw .Units, enc a, enc b, enc n, kw .Semi]
  | .diearea ps => node "design_stmt" ([kw .Diearea] ++ ps.map point ++ [kw .Semi])
  | .row a b x y o d => node "design_stmt" [kw .Row, enc a, enc b, enc x, enc y, enc o, dostep d, kw .Semi]
  | .tracks d s n st l => node "design_stmt" [kw .Tracks, enc d, enc s, kw .Do, enc n, kw .Step, enc st, kw .Layer, enc l, kw .Semi]
  | .propdef ps => node "propdef" ([kw .Propertydefinitions]
      ++ ps.map (fun p => node "propdef_stmt" [kw .Componentpin, enc p.1, enc p.2, kw .Semi]) ++ [kw .End, kw .Propertydefinitions])
  | .vias n vs => sect "vias" .Vias n (vs.map fun v => node "vias_stmt" ([kw .Minus, enc v.name] ++ v.opts.map viaopt ++ [kw .Semi]))
  | .nondef n ds => sect "nondef" .Nondefaultrules n
      (ds.map fun d => node "nondef_stmt" ([kw .Minus, enc d.1] ++ d.2.flatMap ndopt ++ [kw .Semi]))
  | .comps n cs => sect "comp" .Components n
      (cs.map fun c => node "comp_stmt" [kw .Minus, enc c.name, enc c.kind, kw .Plus, kw .Placed, point c.at_, enc c.orient, kw .Semi])
  | .pins n ps => sect "pins" .Pins n (ps.map fun p => node "pins_stmt" ([kw .Minus, enc p.name] ++ p.opts.map pinopt ++ [kw .Semi]))
  | .pinprop n ps => sect "pinprop" .Pinproperties n
      (ps.map fun p => node "pinprop_stmt" [kw .Minus, kw .Pin, enc p.1, kw .Plus, kw .Property, enc p.2.1, enc p.2.2, kw .Semi])
  | .spnets n ns => sect "spnets" .Specialnets n (ns.map (net true))
  | .nets n ns => sect "nets" .Nets n (ns.map (net false))
def fstmt : FStmt → String
  | .version v => node "file_stmt" [kw .Version, enc v, kw .Semi]
  | .dividerchar v => node "file_stmt" [kw .Dividerchar, enc v, kw .Semi]
  | .busbitchars v => node "file_stmt" [kw .Busbitchars, enc v, kw .Semi]
  | .design n ss => node "design" ([kw .Design, enc n, kw .Semi] ++ ss.map dstmt ++ [kw .End, kw .Design])
def file (f : DefFile) : String :=
  node "start" ((match f.head with | some h => [enc h] | none => []) ++ f.stmts.map fstmt)
def handle (args : List String) : String :=
  match args with
  | [t] =>
    match parseTree (pctDecode t.toList) with
    | none => "syntax"
    | some f =>
      let nets := f.netsRouted.map fun (sp, name, r) =>
        (if sp then "S:" else "N:") ++ Def.pct (String.ofList name) ++ "=" ++ Def.showNet (some r) ++ ">" ++ Def.ansWires r ++ ">" ++ Def.ansVias r
      s!"{if f.ok then "ok" else "raise"} {file f} {if nets.isEmpty then "-" else "!".intercalate nets}"
  | _ => "bad-args"
end Text

/-- the legacy readings (`netWiresAsIs`, `netWiresRaw`: trees before the wildcard / regular-net repairs) converted the width of
the listed wires in the same place -/
def legacy (ws : List DWire) : Option (List Wire) :=
  if ws.any (fun w => w.listed && w.widthVal.isNone) then none else some (ws.filterMap DWire.conv)

def handle (cmd : String) (args : List String) : Option String :=
  if cmd == "defparse" then some (Text.handle args) else
  if cmd != "def" then none else
  match args with
  | ["wires", n] =>
    match parseNet n with
    | none => some "."      -- demanded: a net without routing lists nothing
    | some ws => some (ansWires ws)
  | ["wiresasis", n] =>
    match parseNet n with
    | none => some "!attr"
    | some ws =>
      match legacy ws with
      | none => some "!value"
      | some ws =>
        match netWiresAsIs (some ws) with
        | .error e => some s!"!{e}"
        | .ok d => some (showDict (fun e => s!"{showWidth e.1}@{";".intercalate (e.2.map showRPt)}") d)
  | ["wiresraw", n] =>
    match parseNet n with
    | none => some "."
    | some ws =>
      match legacy ws with
      | none => some "!value"
      | some ws => some (showDict (fun e => s!"{showWidth e.1}@{";".intercalate (e.2.map showRPt)}") (netWiresRaw ws))
  | ["vias", n] =>
    match parseNet n with
    | none => some "."
    | some ws => some (ansVias ws)
  | ["viasasis", n] =>
    match parseNet n with
    | none => some "!attr"
    | some ws => some (ansVias ws)
  | ["wpoints", w] => some (showList ((parseWire w).geom.wirePointsRaw.map showRPt))
  | ["resolve", w] =>
    match (parseWire w).geom.wirePoints? with
    | some ps => some (showList (ps.map showPt3))
    | none => some "!start"
  | ["wvias", w] =>
    match (parseWire w).geom.vias? with
    | some d => some (showDict showVia d)
    | none => some "!start"
  | _ => some "bad-def-op"

end KV.Drv.Def
