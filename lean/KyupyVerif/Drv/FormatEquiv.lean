import KyupyVerif.Drv.CircNet
import KyupyVerif.Proofs.FormatEquiv4
/-! Driver extension for C11 "either format" (Props/C11Library.lean, section `FormatEquiv`).

`nlequiv <cfg> <ports> <gates> <rows>`
    ports: `,`-separated `i<name>` / `o<name>` in port-list order (`~` = none); gates: `;`-separated `name:kind:inst:d0,d1,…`
    (`~` = none; every field percent-encoded); rows: `/`-separated strings of 0/1 over the `nl.nPos` interface positions (`~` = none).
    answer `common=<0|1> closed=<0|1> closedbf=<0|1> benchok=<0|1> vok=<0|1> npos=<n> <row answers joined by />` — `commonNlB nl`, `closedNlB nl`, `closedBfNlB nl`, `benchOKB (benchOf nl)`,
    `verilogOKB cfg primTL nl.portNames (verilogOf nl)`; a row answer is the string of captured values per interface position of the
    environment `benchEval` computes for `benchOf nl` (`0`/`1`/`-`), followed by `!` when `benchModelB` rejects it, by `?` when the
    Verilog side (`vEval` / `vModelB` / `vCaptures` on `verilogOf nl`, evaluated only inside `verilogOKB`) gives a different string. -/
namespace KV.Drv.FormatEquiv
open KV KV.Netlist KV.Drv.Netlist KV.Drv.CircNet

def parsePort (t : String) : Bool × String := (t.toList.head? == some 'o', unpct (String.ofList (t.toList.drop 1)))

def parseGate (t : String) : Option NlGate :=
  match t.splitOn ":" with
  | [n, k, i, d] => some ⟨unpct n, unpct k, unpct i, if d == "" then [] else (d.splitOn ",").map unpct⟩
  | _ => none

def parseNl (ports gates : String) : Option Nl :=
  let ps := if ports == "~" then [] else (ports.splitOn ",").map parsePort
  let gs := if gates == "~" then [] else (gates.splitOn ";").map parseGate
  if gs.all Option.isSome then some ⟨ps, gs.filterMap id⟩ else none

def handle (cmd : String) (args : List String) : Option String :=
  if cmd == "nlequiv" then
    match args with
    | [cfg, ports, gates, rows] =>
      match parseNl ports gates with
      | none => some "bad-gates"
      | some nl =>
        let c : Cfg := { bf := bit cfg 0, assignFix := bit cfg 1, onebitDecl := bit cfg 2 }
        let bs := benchOf nl
        let vs := verilogOf nl
        let vok := verilogOKB c primTL nl.portNames vs
        let rws := if rows == "~" then [] else rows.splitOn "/"
        let ans := rws.map fun r =>
          let b := semRow bs r
          if vok && b.replace "!" "" != vsemRow primTL nl.portNames vs r then b ++ "?" else b
        some s!"common={b01 (commonNlB nl)} closed={b01 (closedNlB nl)} closedbf={b01 (closedBfNlB nl)} benchok={b01 (benchOKB bs)} vok={b01 vok} npos={nl.nPos} {joinOr "/" ans}"
    | _ => some "bad-args"
  else none

end KV.Drv.FormatEquiv
