import KyupyVerif.Model.Sdf
import KyupyVerif.Model.SdfText
import KyupyVerif.Model.SdfCirc
import KyupyVerif.Drv.Transform
/-! Driver extension for C14: evaluates the SDF model on one request line.

`sdf <mode> <which> <nlines> <cells> <pins> <ics>`
* mode  = `last` | `merge`;  which = `io` | `ic`;  nlines = number of circuit lines
* cells = `~` | block (`;` block)*, block = insts `|` sections, insts = `~` | name (`,` name)*,
  sections = `~` | section (`+` section)*, section = `~` | entry (`&` entry)*, entry = a `:` b `:` vals,
  vals = `~` | triple (`/` triple)*, triple = `E` (for `()`) | f `,` f `,` f, f = `x` (empty field) | integer
* pins  = `~` | cell `:` pin `:` line (`;` ..)*          (names percent-encoded; `%` alone = empty string)
* ics   = `~` | c1 `:` p1 `:` c2 `:` p2 `:` line (`;` ..)*  with p = `~` for "no pin"
Answer: `raise` when a guard of the model fails (the real code raises there), else the non-zero coordinates
`d.l.ip.op=v` sorted, `,`-separated (`~` when the array is all zero).

`sdfparse <pct-encoded text>` (text level, Model/SdfText.lean): answer `syntax` when the grammar model rejects, else
`<status> <tree> <raw>`: status = `ok` | `raise` (`SdfFile.ok`: what the transformer raises on); tree = designs `|` cells
with designs = `~` | name (`,` name)*, cells in the block format above but entry = kind `:` a `:` b `:` vals (kind `I` =
IOPATH, `C` = INTERCONNECT) and number fields as percent-encoded text (`%` = empty field); raw = the block list of
`SdfFile.toRaw` in the format of the `sdf` command, or `-` when a number is not a whole number of thousandths. -/
namespace KV.Drv.Sdf
open KV.Sdf

def hexVal (c : Char) : Nat :=
  if c.isDigit then c.toNat - '0'.toNat else if 'a' ≤ c ∧ c ≤ 'f' then c.toNat - 'a'.toNat + 10
  else if 'A' ≤ c ∧ c ≤ 'F' then c.toNat - 'A'.toNat + 10 else 0
def pctDecode : List Char → List Char
  | '%' :: a :: b :: r => Char.ofNat (16 * hexVal a + hexVal b) :: pctDecode r
  | '%' :: _ => []
  | c :: r => c :: pctDecode r
  | [] => []
def unpct (s : String) : String := String.ofList (pctDecode s.toList)

def splitList (s : String) (sep : String) : List String := if s == "~" then [] else s.splitOn sep

def parseField (s : String) : Option Val := if s == "x" then none else some (s.toInt?.getD 0)
def parseTriple (s : String) : RawTriple := if s == "E" then [] else (s.splitOn ",").map parseField
def parseEntry (s : String) : RawEntry :=
  match s.splitOn ":" with
  | [a, b, v] => ⟨unpct a, unpct b, (splitList v "/").map parseTriple⟩
  | _ => default
def parseBlock (s : String) : RawCell :=
  match s.splitOn "|" with
  | [i, d] => ⟨(splitList i ",").map unpct, (splitList d "+").map fun sec => (splitList sec "&").map parseEntry⟩
  | _ => default
def parseCells (s : String) : List RawCell := (splitList s ";").map parseBlock

def parsePins (s : String) : PinTable :=
  let rows := (splitList s ";").filterMap fun r => match r.splitOn ":" with
    | [c, p, l] => some ((unpct c, unpct p), l.toNat!)
    | _ => none
  fun c p => (rows.find? (·.1 == (c, p))).map (·.2)

def parseOptName (s : String) : Option String := if s == "~" then none else some (unpct s)
def parseIcs (s : String) : IcTable :=
  let rows := (splitList s ";").filterMap fun r => match r.splitOn ":" with
    | [c1, p1, c2, p2, l] => some ((unpct c1, parseOptName p1, unpct c2, parseOptName p2), l.toNat!)
    | _ => none
  fun c1 p1 c2 p2 => (rows.find? (·.1 == (c1, p1, c2, p2))).map (·.2)

def showArr (A : Arr) (nlines : Nat) : String :=
  let coords := (List.range 3).flatMap fun d => (List.range nlines).flatMap fun l =>
    [false, true].flatMap fun ip => [false, true].filterMap fun op =>
      let v := A d l ip op
      if v == 0 then none else some s!"{d}.{l}.{if ip then 1 else 0}.{if op then 1 else 0}={v}"
  if coords.isEmpty then "~" else ",".intercalate coords

/-! ### text level -/
def pctEnc (cs : List Char) : String :=
  if cs.isEmpty then "%" else
  String.ofList (cs.flatMap fun c =>
    if c.isAlphanum || c == '_' then [c] else
      let n := c.toNat
      if n < 256 then ['%', (Nat.toDigits 16 (n / 16)).headD '0', (Nat.toDigits 16 (n % 16)).headD '0']
      else '%' :: 'u' :: (Nat.toDigits 16 n ++ [';']))

def joinOr (sep : String) (l : List String) : String := if l.isEmpty then "~" else sep.intercalate l

def showTTriple : KV.SdfText.TTriple → String
  | none => "E"
  | some (a, b, c) => s!"{pctEnc a},{pctEnc b},{pctEnc c}"
def showTEntry (e : KV.SdfText.TEntry) : String :=
  s!"{if e.io then "I" else "C"}:{pctEnc e.a}:{pctEnc e.b}:{joinOr "/" (e.vals.map showTTriple)}"
def showTCell (c : KV.SdfText.TCell) : String :=
  joinOr "," (c.insts.map pctEnc) ++ "|" ++ joinOr "+" (c.delays.map fun es => joinOr "&" (es.map showTEntry))
def showTree (f : KV.SdfText.SdfFile) : String :=
  joinOr "," (f.designs.map pctEnc) ++ "|" ++ joinOr ";" (f.cells.map showTCell)

def showRawTriple (t : RawTriple) : String :=
  if t.isEmpty then "E" else ",".intercalate (t.map fun | none => "x" | some v => toString v)
def showRawEntry (e : RawEntry) : String :=
  s!"{pctEnc e.a.toList}:{pctEnc e.b.toList}:{joinOr "/" (e.vals.map showRawTriple)}"
def showRawCell (c : RawCell) : String :=
  joinOr "," (c.insts.map fun n => pctEnc n.toList) ++ "|" ++ joinOr "+" (c.delays.map fun es => joinOr "&" (es.map showRawEntry))

def handleText (args : List String) : String :=
  match args with
  | [t] =>
    match KV.SdfText.parseTree (pctDecode t.toList) with
    | none => "syntax"
    | some f =>
      let raw := match f.toRaw with | none => "-" | some B => joinOr ";" (B.map showRawCell)
      s!"{if f.ok then "ok" else "raise"} {showTree f} {raw}"
  | _ => "bad-args"

/-! ### `sdfc <mode> <which> <cells> <tl> <names> <dump...>`: the annotation with the CONCRETE look-ups of Model/SdfCirc.lean
over the circuit dump (`harness/circ.py: dump_net` / `dump_names`); tl = `~` | kind `:` pin `:` index (`;` ..)* (percent-encoded)
= `tlib.pin_index` restricted to the kinds of the circuit.  Answer: `<array | raise> <look-ups> wf:<0|1>` (`wf` = `NNet.wf` of the dump,
the hypothesis of every look-up specification of Props/C14.lean, second audit item C14); look-ups = one item per entry
in loop order (`,`-separated, `~` when there is none, `-` when there is no top-level block): `r` raise, `s` warn-and-skip, or the
line index — for the INTERCONNECT loop of EVERY entry, all-zero ones included (the look-up itself, before the skip test).
which = `icx` (hypotheses and exits of `C14.interconnect_lookup_exits`): answer `wf:<0|1>,icStruct:<0|1> <exits>`, exits = one item per
INTERCONNECT entry: `r` raise, `wp` warn "No line to annotate pin", `wn` warn "No branchfork", or the line index (`icLookX`). -/
def parseTl (s : String) : PinIdx :=
  let rows := (splitList s ";").filterMap fun r => match r.splitOn ":" with
    | [k, p, i] => some ((unpct k, unpct p), i.toNat!)
    | _ => none
  fun k p => (rows.find? (·.1 == (k, p))).map (·.2)

def showLook : Look → String
  | .raise => "r"
  | .skip => "s"
  | .line l => toString l

/-- the exits of `icLookX`: `r` raise, `wp` warn "No line to annotate pin", `wn` warn "No branchfork", or the line index -/
def showExit : IcExit → String
  | .raise => "r"
  | .warnPin => "wp"
  | .warnNoBranch => "wn"
  | .line l => toString l

def handleC (args : List String) : String :=
  match args with
  | mode :: which :: cells :: tl :: names :: dump =>
    let m := if mode == "merge" then Mode.merge else Mode.lastWins
    let B := parseCells cells
    if !(B.all RawCell.ok) then "raise ~" else
    let df := parse m B
    let C : KV.Transform.NNet := { net := KV.Drv.Transform.parseNet (" ".intercalate dump), names := KV.Drv.Transform.parseNames names }
    let T := parseTl tl
    if which == "icx" then
      let exits := match icEntries df with
        | none => "-"
        | some es => joinOr "," (es.map fun (e : Entry) => if slashOK e.a && slashOK e.b then showExit (icLookXE C T e) else "r")
      s!"wf:{if C.wf then 1 else 0},icStruct:{if icStructOKB C then 1 else 0} {exits}"
    else if which == "io" then
      let looks := (namedEntries df).map fun p => showLook (ioLook C T p.1 p.2)
      let arr := match iopathsC C T df with | some A => showArr A C.net.lines.size | none => "raise"
      s!"{arr} {joinOr "," looks} wf:{if C.wf then 1 else 0}"
    else
      let looks := match icEntries df with
        | none => "-"
        | some es => joinOr "," (es.map fun (e : Entry) => if slashOK e.a && slashOK e.b then showLook (icLookE C T e) else "r")
      let arr := match interconnectsC C T df with | some A => showArr A C.net.lines.size | none => "raise"
      s!"{arr} {looks} wf:{if C.wf then 1 else 0}"
  | _ => "bad-args"

def handle (cmd : String) (args : List String) : Option String :=
  if cmd == "sdfparse" then some (handleText args) else
  if cmd == "sdfc" then some (handleC args) else
  if cmd != "sdf" then none else
  match args with
  | [mode, which, nlines, cells, pins, ics] =>
    let m := if mode == "merge" then Mode.merge else Mode.lastWins
    let B := parseCells cells
    if !(B.all RawCell.ok) then some "raise" else
    let df := parse m B
    if which == "io" then some (showArr (iopaths (parsePins pins) df) nlines.toNat!)
    else
      match icEntries df with
      | none => some "raise"
      | some es =>
        let live := es.filter fun e => !(icSkip (norm e.r) (norm e.f))
        if !(live.all fun e => slashOK e.a && slashOK e.b) then some "raise" else
        match interconnects (parseIcs ics) df with
        | some A => some (showArr A nlines.toNat!)
        | none => some "raise"
  | _ => some "bad-args"

end KV.Drv.Sdf
