import KyupyVerif.Model.Sdf
/-! Driver extension for C14: evaluates the SDF model on one request line.

`sdf <mode> <which> <nlines> <cells> <pins> <ics>`
* mode  = `last` | `merge`;  which = `io` | `ic`;  nlines = number of circuit lines
* cells = `~` | block (`;` block)*, block = insts `|` sections, insts = `~` | name (`,` name)*,
  sections = `~` | section (`+` section)*, section = `~` | entry (`&` entry)*, entry = a `:` b `:` vals,
  vals = `~` | triple (`/` triple)*, triple = `E` (for `()`) | f `,` f `,` f, f = `x` (empty field) | integer
* pins  = `~` | cell `:` pin `:` line (`;` ..)*          (names percent-encoded; `%` alone = empty string)
* ics   = `~` | c1 `:` p1 `:` c2 `:` p2 `:` line (`;` ..)*  with p = `~` for "no pin"
Answer: `raise` when a guard of the model fails (the real code raises there), else the non-zero coordinates
`d.l.ip.op=v` sorted, `,`-separated (`~` when the array is all zero). -/
namespace KV.Drv.Sdf
open KV.Sdf

def hexVal (c : Char) : Nat :=
  if c.isDigit then c.toNat - '0'.toNat else if 'a' ≤ c ∧ c ≤ 'f' then c.toNat - 'a'.toNat + 10
  else if 'A' ≤ c ∧ c ≤ 'F' then c.toNat - 'A'.toNat + 10 else 0
def pctDecode : List Char → List Char
  | '%' :: a :: b :: r => Char.ofNat (16 * hexVal a + hexVal b) :: pctDecode r
  | '%' :: _ => []
  | c :: r => c :: pctDecode r
  | [] => []
def unpct (s : String) : String := String.ofList (pctDecode s.toList)

def splitList (s : String) (sep : String) : List String := if s == "~" then [] else s.splitOn sep

def parseField (s : String) : Option Val := if s == "x" then none else some (s.toInt?.getD 0)
def parseTriple (s : String) : RawTriple := if s == "E" then [] else (s.splitOn ",").map parseField
def parseEntry (s : String) : RawEntry :=
  match s.splitOn ":" with
  | [a, b, v] => ⟨unpct a, unpct b, (splitList v "/").map parseTriple⟩
  | _ => default
def parseBlock (s : String) : RawCell :=
  match s.splitOn "|" with
  | [i, d] => ⟨(splitList i ",").map unpct, (splitList d "+").map fun sec => (splitList sec "&").map parseEntry⟩
  | _ => default
def parseCells (s : String) : List RawCell := (splitList s ";").map parseBlock

def parsePins (s : String) : PinTable :=
  let rows := (splitList s ";").filterMap fun r => match r.splitOn ":" with
    | [c, p, l] => some ((unpct c, unpct p), l.toNat!)
    | _ => none
  fun c p => (rows.find? (·.1 == (c, p))).map (·.2)

def parseOptName (s : String) : Option String := if s == "~" then none else some (unpct s)
def parseIcs (s : String) : IcTable :=
  let rows := (splitList s ";").filterMap fun r => match r.splitOn ":" with
    | [c1, p1, c2, p2, l] => some ((unpct c1, parseOptName p1, unpct c2, parseOptName p2), l.toNat!)
    | _ => none
  fun c1 p1 c2 p2 => (rows.find? (·.1 == (c1, p1, c2, p2))).map (·.2)

def showArr (A : Arr) (nlines : Nat) : String :=
  let coords := (List.range 3).flatMap fun d => (List.range nlines).flatMap fun l =>
    [false, true].flatMap fun ip => [false, true].filterMap fun op =>
      let v := A d l ip op
      if v == 0 then none else some s!"{d}.{l}.{if ip then 1 else 0}.{if op then 1 else 0}={v}"
  if coords.isEmpty then "~" else ",".intercalate coords

def handle (cmd : String) (args : List String) : Option String :=
  if cmd != "sdf" then none else
  match args with
  | [mode, which, nlines, cells, pins, ics] =>
    let m := if mode == "merge" then Mode.merge else Mode.lastWins
    let B := parseCells cells
    if !(B.all RawCell.ok) then some "raise" else
    let df := parse m B
    if which == "io" then some (showArr (iopaths (parsePins pins) df) nlines.toNat!)
    else
      if df.interconnects.isNone then some "raise" else
      let live := (icEntries df).filter fun e => !(icSkip (norm e.r) (norm e.f))
      if !(live.all fun e => slashOK e.a && slashOK e.b) then some "raise" else
      some (showArr (interconnects (parseIcs ics) df) nlines.toNat!)
  | _ => some "bad-args"

end KV.Drv.Sdf
