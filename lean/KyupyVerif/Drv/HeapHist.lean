import KyupyVerif.Proofs.HeapHist
/-! Driver extension for C08 (allocator domain): `heaphist <ops>` with `<ops>` = `,`-separated `a<n>` (alloc n) / `f<loc>`
(free loc), applied to the empty heap. Answer: `ok=<histOkB> strict=<runStrict succeeds> peak=<peak> max=<maxSz> size=<total>`
— `ok=true` says the history is inside the domain of `C08.allocator_invariant` / `hist_hwm` (every release is of the start
of a chunk live at that moment). -/
namespace KV.Drv.HeapHist
open KV KV.Heap

def parseOp (t : String) : Option HOp :=
  match t.toList with
  | 'a' :: r => some (.alloc (String.ofList r).toNat!)
  | 'f' :: r => some (.free (String.ofList r).toNat!)
  | _ => none

def handle (cmd : String) (args : List String) : Option String :=
  match cmd, args with
  | "heaphist", [opsS] =>
    let ops := ((opsS.splitOn ",").filter (· ≠ "")).filterMap parseOp
    let e : Heap := { cs := [], maxSz := 0 }
    let fin := ops.foldl runOp e
    some s!"ok={histOkB e ops} strict={(runStrict e ops).isSome} peak={peak e 0 ops} max={fin.maxSz} size={total fin.cs}"
  | "heaphist", _ => some "bad-args"
  | _, _ => none

end KV.Drv.HeapHist
