import KyupyVerif.Model.WaveIO
import KyupyVerif.Proofs.WaveIOCheck
/-! Driver extension for C06 (CPU vs GPU-kernel code path of `wave_sim.py`): runs the models of `Model/WaveIO.lean` on the
arrays of a real simulator object.

Tokens: a time / memory cell is `m` (TMIN), `M` (TMAX), `O` (TMAX_OVL) or an integer (grid units); a logic value of `s` is the
integer numerator over the denominator `den`. Lanes are separated by `;`, rows by `/`, fields by `,`.

* `wio-stoc <cpu|gpu> <den> <sims> <bx> <by> <sLen> <nIo> <cLen> <ppiLocs> <S> <C>` — `S` rows `ini,time,fin`; `C` = the `cLen`
  cells of every lane before the call. Answer: the cells of every lane after `s_to_c`.
* `wio-ppi <cpu|gpu> <sims> <bx> <by> <sLen> <nIo> <ppiLocs> <ppoLocs> <time> <S>` — `S` rows `ini,time,fin,cap`.
  Answer: `S` after `s_ppo_to_ppi(time)`.
* `wio-cap <cpu|gpu> <time> <cells>` — capture record of a region holding these cells: `init eat lst final val ovl`.
* `wio-read <cells>` — the waveform the cells encode, `ents:term`.
* `wio-dataset <nsets> <seed> <modes csv> <simctl0 csv>` — `selectDataset` per lane: the data-set index, `-` for `none`.
* `wio-hyp <den> <sims> <sLen> <nIo> <ppiLocs> <ppoLocs> <ppoCaps> <S>` — the table hypotheses of the whole-array theorems of
  C06 evaluated on these tables: `disj=<regionsDisjointB> rows=<stateRowsCapturedB> caps=<capsPositiveB> flags=<flagsOKB> transfer=<transferRowsB>`.
* `wio-ctos <cpu|gpu> <time> <sims> <bx> <by> <sLen> <nIo> <ppoLocs> <ppoCaps> <C>` — `c_to_s(time, sd=0)` on the raw cells `C` of every
  lane: per lane (`;`) per row (`/`) the capture record `init eat lst final val ovl` (fields joined by `,`), `-` for a row that is
  not captured (keeps its old record).
* `wio-cprop <cpu|gpu> <sims> <bx> <by> <nAcc> <nsets> <seed> <modes csv> <simctl0 csv> <ops> <levels> <c_locs> <c_caps> <delays> <C>` — a whole
  `c_prop`: `ops` rows `lut,out,a,b,c,d,a_loc,a_wr,a_wf` (`/`), `levels` rows `start,stop`, `delays` = data sets (`;`) of rows
  `d00,d01,d10,d11` per index (`/`), `C` = raw cells of every lane before the call. Runs `cpuCProp` / `gpuCProp (evWave cfgSel loc)` — the
  functions of the theorems C03 `cprop_*`, C06 `c_prop_paths_agree`, `dataset_lane*`, C13 `activity_*`. Answer per lane (`;`): for every index
  with memory `i=ents:term` (`/`-separated; the waveform its region READS AS — cells behind the terminator are not compared: the real
  evaluator leaves popped entries there), `#`, the `nAcc` accumulators. -/
namespace KV.Drv.WaveIO
open KV.Wave KV.WaveIO

def parseT (s : String) : T :=
  if s == "m" then .tmin else if s == "M" then .tmax else if s == "O" then .tovl else .fin (s.toInt?.getD 0)
def showT : T → String
  | .tmin => "m" | .tmax => "M" | .tovl => "O" | .fin t => toString t
def fields (sep : String) (s : String) : List String := (s.splitOn sep).filter (· ≠ "")
def parseInts (s : String) : List Int := (fields "," s).map fun t => t.toInt?.getD 0
def parseCells (s : String) : List T := if s == "-" then [] else (fields "," s).map parseT
def showCells (l : List T) : String := if l.isEmpty then "-" else ",".intercalate (l.map showT)

def parseRow (s : String) : SRow :=
  match s.splitOn "," with
  | [i, t, f] => ⟨i.toInt?.getD 0, parseT t, f.toInt?.getD 0, 0⟩
  | [i, t, f, c] => ⟨i.toInt?.getD 0, parseT t, f.toInt?.getD 0, c.toInt?.getD 0⟩
  | _ => default
def showRow (r : SRow) : String := s!"{r.ini},{showT r.time},{r.fin},{r.cap}"

/-- lanes of `s`: lane ↦ row ↦ record. (The arrays are built by the caller with `let`, so that the closures handed to the
    models do not re-parse the request on every access.) -/
def parseS (s : String) : Array (Array SRow) :=
  ((s.splitOn ";").map fun l => ((fields "/" l).map parseRow).toArray).toArray
def sOf (lanes : Array (Array SRow)) : Nat → Nat → SRow := fun x y => (lanes.getD x #[]).getD y default

def colOf (cells : Array T) : Col := fun a => if 0 ≤ a then cells.getD a.toNat T.tmax else T.tmax
def parseC (s : String) : Array (Array T) := ((s.splitOn ";").map fun l => (parseCells l).toArray).toArray
def cOf (lanes : Array (Array T)) : Nat → Col := fun x => colOf (lanes.getD x #[])
def showC (sims cLen : Nat) (c : Nat → Col) : String :=
  ";".intercalate ((List.range sims).map fun x => showCells ((List.range cLen).map fun (a : Nat) => c x (a : Int)))

def locFn (a : Array Int) : Nat → Int := fun y => a.getD y (-1)

def showCap (r : Cap) : String :=
  s!"{if r.init then 1 else 0} {showT r.eat} {showT r.lst} {if r.final then 1 else 0} {if r.val then 1 else 0} {if r.ovl then 1 else 0}"

def handle (cmd : String) (args : List String) : Option String :=
  match cmd, args with
  | "wio-stoc", [path, den, sims, bx, by_, sLen, nIo, cLen, ppiS, sS, cS] =>
    let sims := sims.toNat!; let cLen := cLen.toNat!
    let ppiA := (parseInts ppiS).toArray
    let tb : Tab := { sLen := sLen.toNat!, nIo := nIo.toNat!, cLen := cLen, ppiLoc := locFn ppiA, ppoLoc := fun _ => -1, ppoCap := fun _ => 0 }
    let sA := parseS sS
    let cA := parseC cS
    let s := sOf sA
    let c := cOf cA
    if bx.toNat! == 0 || by_.toNat! == 0 then some "bad-args" else
    let r := if path == "cpu" then cpuSToCAll tb sims s c else gpuSToC tb den.toNat! sims bx.toNat! by_.toNat! s c
    some (showC sims cLen r)
  | "wio-ppi", [path, sims, bx, by_, sLen, nIo, ppiS, ppoS, time, sS] =>
    let sims := sims.toNat!; let sLen := sLen.toNat!
    let ppiA := (parseInts ppiS).toArray
    let ppoA := (parseInts ppoS).toArray
    let tb : Tab := { sLen := sLen, nIo := nIo.toNat!, cLen := 0, ppiLoc := locFn ppiA, ppoLoc := locFn ppoA, ppoCap := fun _ => 0 }
    let sA := parseS sS
    let s := sOf sA
    if bx.toNat! == 0 || by_.toNat! == 0 then some "bad-args" else
    let r := if path == "cpu" then cpuPpoToPpiAll tb (parseT time) sims s else gpuPpoToPpi tb (parseT time) sims bx.toNat! by_.toNat! s
    some (";".intercalate ((List.range sims).map fun x => "/".intercalate ((List.range sLen).map fun y => showRow (r x y))))
  | "wio-cap", [path, time, cellsS] =>
    let cells := (parseCells cellsS).toArray
    let c := colOf cells
    some (showCap (if path == "cpu" then cpuCapture c 0 cells.size (parseT time) else gpuCapture c 0 cells.size (parseT time)))
  | "wio-read", [cellsS] =>
    let w := readWave (parseCells cellsS)
    some s!"{showCells w.ents}:{showT w.term}"
  | "wio-dataset", [nsets, seed, modes, s0] =>
    let ms := parseInts modes; let ss := parseInts s0
    let n := Nat.max ms.length ss.length
    some (",".intercalate ((List.range n).map fun k =>
      match selectDataset nsets.toNat! (ms.getD k 0).toNat seed.toNat! (ss.getD k 0).toNat with
      | some d => toString d
      | none => "-"))
  | "wio-hyp", [den, sims, sLen, nIo, ppiS, ppoS, capS, sS] =>
    let ppiA := (parseInts ppiS).toArray; let ppoA := (parseInts ppoS).toArray; let capA := (parseInts capS).toArray
    let tb : Tab := { sLen := sLen.toNat!, nIo := nIo.toNat!, cLen := 0, ppiLoc := locFn ppiA, ppoLoc := locFn ppoA,
                      ppoCap := fun y => (capA.getD y 0).toNat }
    let sA := parseS sS
    let s := sOf sA
    some s!"disj={regionsDisjointB tb} rows={stateRowsCapturedB tb} caps={capsPositiveB tb} flags={flagsOKB tb den.toNat! sims.toNat! s} transfer={transferRowsB tb}"
  | "wio-ctos", [path, time, sims, bx, by_, sLen, nIo, ppoS, capS, cS] =>
    let sims := sims.toNat!; let sLen := sLen.toNat!
    let ppoA := (parseInts ppoS).toArray; let capA := (parseInts capS).toArray
    let tb : Tab := { sLen := sLen, nIo := nIo.toNat!, cLen := 0, ppiLoc := fun _ => -1, ppoLoc := locFn ppoA,
                      ppoCap := fun y => (capA.getD y 0).toNat }
    let cA := parseC cS
    let c := cOf cA
    if bx.toNat! == 0 || by_.toNat! == 0 then some "bad-args" else
    let r : Nat → Nat → Option Cap :=
      if path == "cpu" then fun x => if x < sims then cpuCToS tb (parseT time) (c x) (fun _ => none) else fun _ => none
      else gpuCToS tb (parseT time) sims bx.toNat! by_.toNat! c (fun _ _ => none)
    some (";".intercalate ((List.range sims).map fun x => "/".intercalate ((List.range sLen).map fun y =>
      match r x y with
      | some cp => (showCap cp).replace " " ","
      | none => "-")))
  | "wio-cprop", [path, sims, bx, by_, nAcc, nsets, seed, modesS, ctl0S, opsS, levelsS, locsS, capsS, delaysS, cS] =>
    -- `WaveSim.c_prop` / `WaveSimCuda.c_prop` on the raw memory of a real object: `cpuCProp` / `gpuCProp` with the waveform
    -- evaluator `evWave`, per-lane data set `selectDataset` (= `C06.cfgSel`), accumulation `accAdd` from the zero accumulators
    let sims := sims.toNat!; let nAcc := nAcc.toNat!; let nsets := nsets.toNat!; let seed := seed.toNat!
    let opsL : List AOp := (fields "/" opsS).map fun r =>
      match parseInts r with
      | [lut, out, a, b, c, d, al, wr, wf] => ⟨⟨lut.toNat, out.toNat, a.toNat, b.toNat, c.toNat, d.toNat⟩, al, wr, wf⟩
      | _ => default
    let levels : List (Nat × Nat) := (fields "/" levelsS).map fun r =>
      match parseInts r with
      | [a, b] => (a.toNat, b.toNat)
      | _ => (0, 0)
    let locA := (parseInts locsS).toArray; let capA := (parseInts capsS).toArray
    let modeA := (parseInts modesS).toArray; let ctlA := (parseInts ctl0S).toArray
    let sets : Array (Array (List Int)) := ((delaysS.splitOn ";").map fun ds => ((fields "/" ds).map parseInts).toArray).toArray
    let delayOf : Nat → Nat → Bool → Bool → Int := fun d l p q =>
      ((sets.getD d #[]).getD l []).getD ((if p then 2 else 0) + (if q then 1 else 0)) 0
    let cfg : Nat → WCfg := fun sim =>
      ⟨delayOf ((selectDataset nsets (modeA.getD sim 0).toNat seed (ctlA.getD sim 0).toNat).getD 0), fun i => (capA.getD i 0).toNat⟩
    let loc : Nat → Int := fun i => locA.getD i (-1)
    let cA := parseC cS
    let S0 : Nat → LaneSt := fun x => ⟨colOf (cA.getD x #[]), fun _ => 0⟩
    if bx.toNat! == 0 || by_.toNat! == 0 then some "bad-args" else
    let R := if path == "cpu" then cpuCProp (evWave cfg loc) opsL levels sims S0
             else gpuCProp (evWave cfg loc) opsL levels sims bx.toNat! by_.toNat! S0
    let lanes := (List.range sims).map fun x =>
      let st := R x
      let waves := (List.range locA.size).filterMap fun i =>
        if loc i < 0 || capA.getD i 0 ≤ 0 then none else
          let w := readWave (rdCells st.c (loc i) (capA.getD i 0).toNat)
          some s!"{i}={showCells w.ents}:{showT w.term}"
      let acc := (List.range nAcc).map fun (a : Nat) => toString (st.ab (a : Int))
      "/".intercalate waves ++ "#" ++ ",".intercalate acc
    some (";".intercalate lanes)
  | "wio-cprop", _ => some "bad-args"
  | "wio-stoc", _ => some "bad-args"
  | "wio-ppi", _ => some "bad-args"
  | "wio-cap", _ => some "bad-args"
  | "wio-read", _ => some "bad-args"
  | _, _ => none

end KV.Drv.WaveIO
