import KyupyVerif.Model.Datasheet
/-! Driver extension for C19: the hand-written datasheet specification on names given by the harness.

* `ds.spec <cell> <in1,in2,…|-> <out1,…|->` → `outside <base>` (family not listed), `bad <base> <family>` (listed
  family, but the pins do not fit it) or `ok <base> <family> <tt1>,<tt2>…`: one truth table per output pin, a string
  of 2^n characters `0`/`1`; row `r` assigns bit `k` of `r` to input pin `k`.
* `ds.expand <template>` → the names the template stands for, comma separated.
* `ds.outside <base>` → the reason a family is outside (`-` if it is not in the list). -/
namespace KV.Drv.Datasheet
open KV.TL KV.DS

def toks (s : String) : List Str := if s == "-" then [] else (s.splitOn ",").map String.toList

def famTag : Fam → String
  | .gate g n => s!"{reprStr g}{n}".replace "KV.DS.Gate." ""
  | .buf => "buf"
  | .inv => "inv"
  | .aoi o i gs => (if o then "ao" else "oa") ++ (if i then "i" else "") ++ "".intercalate (gs.map toString)
  | .mux n => s!"mux{n}"
  | .halfAdder => "halfadder"
  | .fullAdder => "fulladder"

def rowOf (n r : Nat) : List Bool := (List.range n).map fun k => (r >>> k) % 2 == 1

def table (n : Nat) (f : List Bool → Bool) : String :=
  String.ofList ((List.range (2 ^ n)).map fun r => if f (rowOf n r) then '1' else '0')

def handle (cmd : String) (args : List String) : Option String :=
  match cmd, args with
  | "ds.spec", [cell, ins, outs] =>
    let base := baseName cell.toList
    some (match classify base with
      | none => s!"outside {String.ofList base}"
      | some fam =>
        let i := toks ins
        match datasheet fam i (toks outs) with
        | none => s!"bad {String.ofList base} {famTag fam}"
        | some fs => s!"ok {String.ofList base} {famTag fam} {",".intercalate (fs.map (table i.length))}")
  | "ds.expand", [tmpl] => some (",".intercalate ((expand tmpl.toList).map String.ofList))
  | "ds.outside", [base] =>
    some (match outside.find? (·.2.contains base.toList) with
      | some (why, _) => why.replace " " "_"
      | none => "-")
  | _, _ => none

end KV.Drv.Datasheet
