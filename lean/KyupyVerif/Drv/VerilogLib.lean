import KyupyVerif.Drv.CircNet
import KyupyVerif.Drv.ImplCert
import KyupyVerif.Model.VerilogLib
import KyupyVerif.Model.VerilogLibFit
import KyupyVerif.Proofs.GenOpsWO
import KyupyVerif.Proofs.StripLink
import KyupyVerif.Proofs.LinesDriven
/-! Driver extension for the capstone `C11.verilog_library_end_to_end` (Props/C11Library.lean).

`verilogsemlib <cfg> <pintable> <tokens> <lib index> <order> <rows> @@ <kind> <impl names> <impl net> <impl order> @@ …`
* `cfg`, `pintable`, `tokens`, `rows` as for `verilogsem` (Drv/CircNet.lean); `lib index` = position of the library in
  `Gen.libNames` (row lookup in the generated C19 tables); `order` = the real `topological_order()` of the REAL resolved circuit
  (`~` when there is none); one block per library cell type the module instantiates: its key, the node names and the canonical dump
  (without blanks) of its implementation circuit and the implementation's real topological order.
* answer: `hyp=<12 flags + 1> names=<c:name,…> dump=<resolved dump with names, blanks removed | raise> <row answers | ~>`;
  flags (0/1) = `verilogOKB`, `libCleanB`, `NNet.wf` of the parsed dump, `resolveOKB`, the model of `resolve_tlib_cells` answers,
  `instCertB` for every library-cell node, `h'.sNodes = sNodes`, and `orderOKB` / `forksOKB` / `linesDrivenB` of the resolved
  circuit with `order`, `tlFitsB` (the pin table SENT — the real `TechLib.cells[kind][1]` — numbers the pins of every library
  instance as its generated table row lists them, and the instance connects only pins of the row) and `vArityLibB` (every instance
  that stays a simulation primitive has its input pins at indices 0..3) — the hypotheses of `verilog_library_end_to_end`; a 13th
  character that is NO hypothesis: `tlExactB`, the table sent has exactly as many entries for the cell type of every library
  instance as its row has pins (with `tlFitsB`: the entry lists EXACTLY the row's pin names); a row answer = the values the datasheet model computed by
  `vEvalLib` shows at the `s_nodes` positions (`vCaptures`; `0`/`1`/`-`), followed by `!` when `vModelLibB` rejects the table. -/
namespace KV.Drv.VerilogLib
open KV KV.Netlist KV.Transform KV.TL KV.DS KV.Drv.Netlist KV.Drv.CircNet

/-- the decidable form of `Transform.InstCert` (Proofs/ImplDatasheet2.lean) with the table row looked up by `row` (`none`: no row) -/
def instCertB (lib : Lib) (row : String → Option Cell) (ord : String → List Nat) (h : NNet) (c : Nat) : Bool :=
  let kind := (h.net.node c).kind
  match lib.find kind, row kind with
  | some impl, some cr =>
    match implShape impl with
    | some sh =>
      impl.net.wfB && orderOKB impl.net (ord kind) && forksOKB impl.net (ord kind) &&
      linesDrivenB Gen.kindPrefixes impl.net (ord kind) && describesB Gen.kindPrefixes cr impl (ord kind) &&
      pinsFitB h c sh && cr.names.contains kind.toList && (classify (baseName kind.toList)).isSome
    | none => false
  | _, _ => false

def certsB (lib : Lib) (row : String → Option Cell) (ord : String → List Nat) (h : NNet) : Bool :=
  (List.range h.net.nodes.size).all fun c => !((lib.find (h.net.node c).kind).isSome) || instCertB lib row ord h c

/-- the table row of a cell type in library `libIdx` of the generated tables (an empty row when there is none) -/
def emptyCell : Cell := ⟨0, [], [], [], [], 0, []⟩
def rowOf (libIdx : Nat) (kind : String) : Option Cell := KV.Drv.ImplCert.findRow libIdx kind.toList

/-- the finite pin table sent has, for the cell type of every library instance, as many entries as the row has pins -/
def tlExactB (rows : List PinRow) (isLib : String → Bool) (row : String → Cell) (stmts : List Stmt) : Bool :=
  (vInsts stmts).all fun i => !(isLib i.ty) ||
    (rows.filter fun r => r.kind == i.ty).length == (row i.ty).inNames.length + (row i.ty).outNames.length

def semRowLib (isLib : String → Bool) (row : String → Cell) (tl : TL) (ports : List String) (stmts : List Stmt) (r : String) : String :=
  let a := bitsRow r
  let tab := vEvalLib isLib row tl ports stmts a
  let caps := (vCaptures tl ports stmts false prim2 (vEnvOf false tab)).map fun o => match o with
    | some true => "1" | some false => "0" | none => "-"
  s!"{"".intercalate caps}{if vModelLibB isLib row tl ports stmts a tab then "" else "!"}"

def noBlanks (s : String) : String := String.ofList (s.toList.filter (· != ' '))

def handle (cmd : String) (args : List String) : Option String :=
  if cmd != "verilogsemlib" then none else
  match KV.Drv.Transform.splitBlocks args with
  | [cfg, table, toks, libIdx, order, rows] :: libBlocks =>
    let ts := if toks == "~" then [] else toks.splitOn ","
    match ts with
    | np :: rest =>
      match takeNames np.toNat! rest with
      | none => some "bad-ports"
      | some (ports, rest') =>
        match parseStmts (rest'.length + 1) rest' with
        | none => some "bad-statements"
        | some rs =>
          let tl := tlOf (parseTable table)
          let c : Cfg := { bf := bit cfg 0, assignFix := bit cfg 1, onebitDecl := bit cfg 2 }
          let stmts := rs.map transform
          let blocks := libBlocks.filterMap fun b => match b with
            | [kind, mn, md, mo] => some (KV.Drv.Transform.unpct kind, KV.Drv.ImplCert.mkNN mn md, KV.Drv.Transform.parseNats mo)
            | _ => none
          let lib : Lib := blocks.map fun b => (b.1, b.2.1)
          let ord : String → List Nat := fun k => ((blocks.find? fun b => b.1 == k).map (·.2.2)).getD []
          let row := rowOf libIdx.toNat!
          let rowC : String → Cell := fun k => (row k).getD emptyCell
          let okv := verilogOKB c tl ports stmts && rs.all RStmt.ok
          let nn := verilogNNet c tl ports stmts
          let res := resolveCells lib nn
          let o := if order == "~" then [] else KV.Drv.Transform.parseNats order
          let flags := [okv, libCleanB lib stmts, nn.wf, resolveOKB lib nn.keys nn, res.isSome, certsB lib row ord nn,
            (match res with | some h' => decide (h'.net.sNodes = nn.net.sNodes) | none => false),
            (match res with | some h' => orderOKB h'.net o | none => false),
            (match res with | some h' => forksOKB h'.net o | none => false),
            (match res with | some h' => linesDrivenB Gen.kindPrefixes h'.net o | none => false),
            tlFitsB (libHas lib) rowC tl stmts, vArityLibB (libHas lib) tl stmts,
            tlExactB (parseTable table) (libHas lib) rowC stmts]
          let names := joinOr "," ((vSNames ports stmts).map showEp)
          let rws := if rows == "~" then [] else rows.splitOn "/"
          let dump := match res with | some h' => noBlanks (KV.Drv.Transform.showNN h') | none => "raise"
          some s!"hyp={"".intercalate (flags.map b01)} names={names} dump={dump} {if okv then joinOr "/" (rws.map (semRowLib (libHas lib) rowC tl ports stmts)) else "~"}"
    | [] => some "bad-ports"
  | _ => some "bad-args"

end KV.Drv.VerilogLib
