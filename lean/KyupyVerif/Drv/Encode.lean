import KyupyVerif.Model.Encode
import KyupyVerif.Gen.MvTables
import KyupyVerif.Gen.EncTables
/-! Driver extension for C15: the model functions of `Model/Encode.lean` on encoded inputs.
Tokens: a shape is `d0,d1,…` (`-` for 0-d); data is `x0,x1,…` in C order (`-` for empty); a list of strings is
`s<codes>|s<codes>|…` with comma-separated code points (`-` for no string).  Answers: `<shape> <data>`, `s<codes>`,
a number, or `err` where the real function raises.  `interpret`/`mv_str` use the GENERATED tables. -/
namespace KV.Drv.Encode
open KV.Enc

def toks (s : String) : List String := if s == "-" then [] else (s.splitOn ",").filter (· ≠ "")
def nats (s : String) : List Nat := (toks s).map String.toNat!
def ints (s : String) : List Int := (toks s).map String.toInt!
def showL {α} [ToString α] (l : List α) : String := if l.isEmpty then "-" else ",".intercalate (l.map toString)
def showFlat {α} [ToString α] (f : Flat α) : String := s!"{showL f.shape} {showL f.data}"
def showArr {α} [ToString α] (a : Arr α) : String := showFlat a.toFlat
def strs (s : String) : List (List Nat) :=
  if s == "-" then [] else (s.splitOn "|").map fun t => nats (t.drop 1).toString

def handle (cmd : String) (args : List String) : Option String :=
  match cmd, args with
  | "enc.interp", [c] => some (toString (interpretWith Gen.interpretAscii c.toNat!))
  | "enc.mvarray", [ss] =>
      some (match mvarray Gen.interpretAscii (strs ss) with | some a => showArr a | none => "err")
  | "enc.mvarrayn", [depth, ss] =>     -- nested arguments: groups separated by `/`, groups of groups by `//` (`_` / `__` / `___` = the empty list at depth 1 / 2 / 3)
      let grp (t : String) : List (List Nat) := if t == "_" then [] else strs t
      let grp2 (t : String) : List (List (List Nat)) := if t == "__" then [] else (t.splitOn "/").map grp
      let r := match depth with
        | "1" => mvarrayN1 Gen.interpretAscii (grp ss)
        | "2" => mvarray2 Gen.interpretAscii (grp2 ss)
        | _ => mvarray3 Gen.interpretAscii (if ss == "___" then [] else (ss.splitOn "//").map grp2)
      some (match r with | some f => showFlat f | none => "err")
  | "enc.popcountint", [da] =>
      some (match popcountInt Gen.popCountLut (ints da) with | some n => toString n | none => "err")
  | "enc.mvstr", [d, sh, da] =>
      some (match (Flat.toArr ⟨nats sh, nats da⟩).bind (mvStr Gen.renderChars (nats d)) with
        | some l => "s" ++ ",".intercalate (l.map toString) | none => "err")
  | "enc.mv2bp", [sh, da] =>
      some (match Flat.toArr ⟨nats sh, nats da⟩ with | some a => showArr (mvToBp a) | none => "err")
  | "enc.bp2mv", [sh, da] =>
      some (match (Flat.toArr ⟨nats sh, nats da⟩).bind bpToMv with | some a => showArr a | none => "err")
  | "enc.unpack", [w, sh, da] => some (showArr (unpackbits w.toNat! ⟨nats sh, ints da⟩))
  | "enc.pack", [w, sg, sh, da] =>
      some (match (Flat.toArr ⟨nats sh, ints da⟩).bind (packbits w.toNat! (sg == "s")) with
        | some f => showFlat f | none => "err")
  | "enc.popcount", [da] => some (toString (onesOf (nats da)))
  | "enc.bitin", [da, pos] => some (toString (bitInWith [128, 64, 32, 16, 8, 4, 2, 1] (nats da) pos.toNat!))
  | "enc.cdiv", [x, y] => some (toString (cdiv x.toNat! y.toNat!))
  | _, _ => none

end KV.Drv.Encode
