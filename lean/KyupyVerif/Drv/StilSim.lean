import KyupyVerif.Model.StilSim
import KyupyVerif.Drv.Stil
import KyupyVerif.Gen.Sem8
import KyupyVerif.Gen.Tables
/-! Driver extension for C18 (composition with C02): the 8-valued simulation inside `tests_loc` from the MODEL.

request : `stilsim <fn> <mode> <circ> <groups> <chains> <calls> <net> <names> <order>`
* fn     : `nxt` (the matrix `launch` as read back from the simulator, `StilSim.nxtOfG`) | `loc` (`tests_loc` with its own
           simulation, `StilSim.testsLocFull`)
* mode, circ, groups, chains, calls : as for `stil` (Drv/Stil.lean)
* net    : canonical netlist dump `nodes;lines;io` of harness/circ.py `dump_net` without blanks
* names  : `,`-separated percent-encoded node names in `circuit.nodes` order;  order : node indices of the real
           `topological_order()`
answer  : `compat=<true|false> ok <column>|<column>|...` or `compat=… err key|shape|index`
`compat` is `StilSim.compatB` (hypothesis of `C18.tests_loc_end_to_end`); `wfB`, `orderOKB`, `forksOKB` are answered by the
stateful commands `net` / `netcert` / `netspeccert` of Driver.lean. -/
namespace KV.Drv.StilSim
open KV KV.Stil KV.StilSim KV.Drv.Stil

/-- the real 8-valued dispatch on list arguments — definitionally `KV.semL8` (Proofs/SemL.lean; `C18.driver_sem`) -/
def sem8L (code : Nat) (xs : List V3) : V3 :=
  (Gen.sem8 code (.ofV3 (xs.getD 0 default)) (.ofV3 (xs.getD 1 default)) (.ofV3 (xs.getD 2 default))
    (.ofV3 (xs.getD 3 default))).toV3

def parsePins (s : String) : List (Option Nat) :=
  (s.splitOn ",").filter (· ≠ "") |>.map fun t => if t == "-" then none else some t.toNat!
def parseNode (s : String) : NodeD :=
  match s.splitOn ":" with
  | [k, i, o] => { kind := unpct k, ins := parsePins i, outs := parsePins o }
  | _ => default
def parseLine (s : String) : LineD :=
  match (s.splitOn ".").map String.toNat! with
  | [a, b, c, d] => ⟨a, b, c, d⟩
  | _ => default
def parseNats (s : String) : List Nat := (s.splitOn ",").filter (fun t => t ≠ "" && t ≠ "-") |>.map String.toNat!
def parseNet (s : String) : Net :=
  match s.splitOn ";" with
  | [ns, ls, io] =>
    { nodes := ((ns.splitOn "|").filter (· ≠ "") |>.map parseNode).toArray,
      lines := ((ls.splitOn "|").filter (· ≠ "") |>.map parseLine).toArray,
      io := parseNats io }
  | _ => default

/-- the matrix `launch` of the model for a file, circuit and netlist, through the array executor: equal to `C18.nxtOf` in
    property mode on every well-formed netlist and topological order (`C18.driver_evaluates_nxtOf`) -/
def nxtCols (mode : Mode) (c : Circ) (f : File) (net : Net) (order : List Nat) : List (List V3) :=
  nxtOfA sem8L (opsOf Gen.kindPrefixes net order) mode c f net

def handle (cmd : String) (args : List String) : Option String :=
  if cmd != "stilsim" then none else
  match args with
  | [fn, mode, circ, groups, chains, calls, netS, namesS, orderS] =>
    let c := parseCirc circ
    let f : File := { groups := parseGroups groups, chains := parseChains chains, calls := parseCalls calls }
    let m := parseMode mode
    let net := parseNet netS
    let names := (items "," namesS).map unpct
    let order := parseNats orderS
    let pre := s!"compat={compatB c net names} "
    some <| pre ++
      (if fn == "nxt" then
        (match mapsErr m c f with
         | some e => showCols (.error e)
         | none => showCols (.ok (nxtCols m c f net order)))
      else if fn == "loc" then showCols (testsLoc m c f (nxtCols m c f net order))
      else "bad-fn")
  | _ => some "bad-args"

end KV.Drv.StilSim
