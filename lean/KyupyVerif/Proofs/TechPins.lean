import KyupyVerif.Proofs.TechCells
import KyupyVerif.Proofs.SemL
/-! kernel evaluation of the pin-table, partition and known-op-code checkers on every chunk of the generated
library tables (separate theorems: they are checked in parallel), assembled over `Gen.techChunks` -/
namespace KV.Tech
open KV.TL KV.DS KV.Sig

theorem pins0 : Gen.techChunk0.all Cell.pinsOK = true := by decide +kernel
theorem pins1 : Gen.techChunk1.all Cell.pinsOK = true := by decide +kernel
theorem pins2 : Gen.techChunk2.all Cell.pinsOK = true := by decide +kernel
theorem pins3 : Gen.techChunk3.all Cell.pinsOK = true := by decide +kernel
theorem pins4 : Gen.techChunk4.all Cell.pinsOK = true := by decide +kernel
theorem pins5 : Gen.techChunk5.all Cell.pinsOK = true := by decide +kernel
theorem pins6 : Gen.techChunk6.all Cell.pinsOK = true := by decide +kernel
theorem pins7 : Gen.techChunk7.all Cell.pinsOK = true := by decide +kernel

theorem part0 : Gen.techChunk0.all partOK = true := by decide +kernel
theorem part1 : Gen.techChunk1.all partOK = true := by decide +kernel
theorem part2 : Gen.techChunk2.all partOK = true := by decide +kernel
theorem part3 : Gen.techChunk3.all partOK = true := by decide +kernel
theorem part4 : Gen.techChunk4.all partOK = true := by decide +kernel
theorem part5 : Gen.techChunk5.all partOK = true := by decide +kernel
theorem part6 : Gen.techChunk6.all partOK = true := by decide +kernel
theorem part7 : Gen.techChunk7.all partOK = true := by decide +kernel

theorem pins_all : ∀ ch ∈ Gen.techChunks, ch.all Cell.pinsOK = true :=
  forall_chunks (p := fun ch => ch.all Cell.pinsOK = true) pins0 pins1 pins2 pins3 pins4 pins5 pins6 pins7
theorem part_all : ∀ ch ∈ Gen.techChunks, ch.all partOK = true :=
  forall_chunks (p := fun ch => ch.all partOK = true) part0 part1 part2 part3 part4 part5 part6 part7

/-- every op code that occurs in a library cell's program is one of `sim.names` -/
def codesKnown (c : Cell) : Bool := c.ops.all fun r => (Gen.prims.map (·.2)).contains (r.getD 0 0)

theorem codes_known : ∀ ch ∈ Gen.techChunks, ch.all codesKnown = true := by decide +kernel

theorem knownProg {c : Cell} (hc : c ∈ cells) : KnownProg c.prog := by
  have h := all_chunks codes_known hc
  simp only [codesKnown, List.all_eq_true] at h
  intro op hop
  obtain ⟨r, hr, rfl⟩ := List.mem_map.mp hop
  have := h r hr
  simp only [List.contains_iff_mem, List.mem_map] at this
  obtain ⟨⟨name, code⟩, hm, hcode⟩ := this
  refine ⟨name, ?_⟩
  have e : (rowOp r).code = code := by simp only [rowOp]; exact hcode.symm
  rw [e]; exact hm

theorem lutSem_eq_specL2 : lutSem = specL2 := rfl

/-- what the three real 2-valued code paths compute on a cell's program is the LUT semantics -/
theorem paths_eq_lut {c : Cell} (hc : c ∈ cells) (sem : Nat → List Bool → Bool)
    (hs : ∀ code, KnownCode code → ∀ xs, sem code xs = specL2 code xs) (env : Nat → Bool) (l : Nat) :
    exec sem c.prog env l = exec lutSem c.prog env l := by
  rw [lutSem_eq_specL2]
  apply exec_rel_on (fun a b => a = b) sem specL2 c.prog _ env env (fun _ => rfl)
  intro op hop xs ys hxy
  have : xs = ys := by
    induction hxy with
    | nil => rfl
    | cons h _ ih => rw [h, ih]
  rw [this]; exact hs _ (knownProg hc op hop) ys

end KV.Tech
