import KyupyVerif.Proofs.Transform
/-! Helper lemmas for C10: what `eliminate_1to1_forks` (model `elimOne` / `elimForksIn`) keeps —
port names and order, the nodes of every non-fork class up to order — and the local semantic fact behind the splice. -/
namespace KV.Transform
open KV
variable {skip : Bool}

def kindAt (ns : Array NodeD) (j : Nat) : String := (ns.getD j default).kind

theorem kindAt_modify (ns : Array NodeD) (k j : Nat) (f : NodeD → NodeD) (hf : ∀ n, (f n).kind = n.kind) :
    kindAt (ns.modify k f) j = kindAt ns j := by
  simp only [kindAt, Array.getD_eq_getD_getElem?, Array.getElem?_modify]
  by_cases e : k = j
  · simp only [e, if_true]; cases ns[j]? <;> simp [hf]
  · simp [e]

theorem kindAt_map (ns : Array NodeD) (j : Nat) (f : NodeD → NodeD) (hf : ∀ n, (f n).kind = n.kind) :
    kindAt (ns.map f) j = kindAt ns j := by
  simp only [kindAt, Array.getD_eq_getD_getElem?, Array.getElem?_map]
  cases ns[j]? <;> simp [hf]

theorem kindAt_modify' (ns : Array NodeD) (k j : Nat) (gi go : NodeD → List (Option Nat)) :
    kindAt (ns.modify k fun n => { kind := n.kind, ins := gi n, outs := go n }) j = kindAt ns j :=
  kindAt_modify ns k j _ (fun _ => rfl)
theorem kindAt_map' (ns : Array NodeD) (j : Nat) (gi go : NodeD → List (Option Nat)) :
    kindAt (ns.map fun n => { kind := n.kind, ins := gi n, outs := go n }) j = kindAt ns j :=
  kindAt_map ns j _ (fun _ => rfl)

/-- what one loop iteration does to names, io list, node count and kinds: nothing, or a pin re-wiring that keeps
    all of them followed by the swap-with-last deletion of node `i` -/
theorem elimOne_shape (nn nn' : NNet) (i : Nat) (h : elimOne skip nn i = some nn') :
    nn' = nn ∨ (nn.net.io.contains i = false ∧ ∃ mid : NNet, nn' = delNode mid i ∧ mid.names = nn.names ∧ mid.net.io = nn.net.io ∧
      mid.net.nodes.size = nn.net.nodes.size ∧ ∀ j, kindAt mid.net.nodes j = kindAt nn.net.nodes j) := by
  unfold elimOne at h
  dsimp only at h
  split at h
  · left; exact (Option.some.inj h).symm
  · rename_i hio
    split at h
    · left; exact (Option.some.inj h).symm
    · split at h
      · split at h
        · exact absurd h (by simp)
        · right
          refine ⟨by simpa using hio, _, (Option.some.inj h).symm, rfl, rfl, ?_, ?_⟩
          · simp [delLine]
          · intro j
            simp only [delLine]
            rw [kindAt_modify', kindAt_map', kindAt_modify', kindAt_modify']
      · exact absurd h (by simp)
      · left
        cases skip
        · exact absurd h (by simp)
        · exact (Option.some.inj h).symm

/-- light invariant used for the observables: names parallel to nodes, ports are nodes of the circuit -/
def LI (nn : NNet) : Prop := nn.names.size = nn.net.nodes.size ∧ ∀ j ∈ nn.net.io, j < nn.net.nodes.size

theorem delNode_names_getD (nn : NNet) (i x : Nat) (h : LI nn) (hi : i < nn.net.nodes.size) (hx : x < nn.net.nodes.size - 1) :
    (delNode nn i).names.getD x "" = if x = i then nn.names.getD (nn.net.nodes.size - 1) "" else nn.names.getD x "" := by
  simp only [delNode, Array.getD_eq_getD_getElem?, Array.getElem?_pop, Array.getElem?_setIfInBounds, Array.size_setIfInBounds]
  have h1 : x < nn.names.size - 1 := by rw [h.1]; exact hx
  have h2 : i < nn.names.size := by rw [h.1]; exact hi
  simp only [h1, if_true, h2]
  by_cases e : i = x
  · subst e; simp
  · have : ¬ x = i := fun c => e c.symm
    simp [e, this]

theorem delNode_io (nn : NNet) (i : Nat) (h : LI nn) (hi : i < nn.net.nodes.size) (hio : nn.net.io.contains i = false) :
    (delNode nn i).ioNames = nn.ioNames ∧ LI (delNode nn i) := by
  have hne : ∀ j ∈ nn.net.io, j ≠ i := by
    intro j hj e; subst e
    have : nn.net.io.contains j = true := by simpa using hj
    rw [hio] at this; exact absurd this (by simp)
  have hmv : ∀ j ∈ nn.net.io, (if (j == nn.net.nodes.size - 1) = true then i else j) < nn.net.nodes.size - 1 := by
    intro j hj
    have := h.2 j hj; have := hne j hj
    by_cases e : j = nn.net.nodes.size - 1
    · simp [e]; omega
    · simp [e]; omega
  constructor
  · simp only [NNet.ioNames]
    show List.map _ (List.map _ nn.net.io) = _
    rw [List.map_map]
    apply List.map_congr_left
    intro j hj
    simp only [Function.comp]
    rw [delNode_names_getD nn i _ h hi (hmv j hj)]
    by_cases e : j = nn.net.nodes.size - 1
    · simp [e]
    · have := hne j hj
      simp [e, this]
  · constructor
    · simp [delNode, h.1]
    · intro j hj
      simp only [delNode, List.mem_map] at hj
      obtain ⟨j0, hj0, e⟩ := hj
      have := hmv j0 hj0
      simp only [delNode, Array.size_pop, Array.size_setIfInBounds]
      rw [← e]; exact this

/-- replacing an element that `p` rejects by the (moved) last element: same `p`-selection up to order -/
theorem filter_set_perm {α} (p : α → Bool) (X : List α) (i : Nat) (hi : i < X.length) (a : α) (hp : p X[i] = false) :
    ((X.set i a).filter p).Perm ((X ++ [a]).filter p) := by
  rw [List.set_eq_take_append_cons_drop]
  simp only [hi, if_true]
  have hX : X = X.take i ++ X[i] :: X.drop (i + 1) := by
    rw [List.getElem_cons_drop hi, List.take_append_drop]
  conv => rhs; rw [hX]
  simp only [List.filter_append, List.filter_cons, hp, List.append_assoc]
  apply List.Perm.append_left
  simp only [List.filter_nil, Bool.false_eq_true, if_false]
  by_cases ha : p a = true
  · simp only [ha, if_true]
    exact (List.perm_append_comm (l₁ := [a]) (l₂ := List.filter p (List.drop (i + 1) X)))
  · simp [ha]

theorem swapPop_filter_perm {α} (p : α → Bool) (g : Nat → α) (M i : Nat) (hi : i ≤ M) (hp : p (g i) = false) :
    (((List.range M).map fun j => if j = i then g M else g j).filter p).Perm (((List.range (M + 1)).map g).filter p) := by
  rw [List.range_succ, List.map_append, List.map_singleton]
  by_cases e : i = M
  · subst e
    have : ((List.range i).map fun j => if j = i then g i else g j) = (List.range i).map g := by
      apply List.map_congr_left; intro j hj
      have : j ≠ i := by have := List.mem_range.mp hj; omega
      simp [this]
    rw [this, List.filter_append]
    simp [hp]
  · have hlt : i < M := by omega
    have : ((List.range M).map fun j => if j = i then g M else g j) = ((List.range M).map g).set i (g M) := by
      apply List.ext_getElem?
      intro x
      rw [List.getElem?_set]
      simp only [List.getElem?_map, List.length_map, List.length_range, hlt, if_true]
      by_cases hx : x < M
      · rw [List.getElem?_range hx]
        by_cases ex : i = x
        · subst ex; simp
        · have : ¬ x = i := fun c => ex c.symm
          simp [ex, this]
      · rw [List.getElem?_eq_none (by simp; omega)]
        have : ¬ i = x := by omega
        simp [this]
    rw [this]
    apply filter_set_perm p _ i (by simp [hlt])
    simpa using hp

theorem delNode_kindAt (nn : NNet) (i x : Nat) (hi : i < nn.net.nodes.size) (hx : x < nn.net.nodes.size - 1) :
    kindAt (delNode nn i).net.nodes x = if x = i then kindAt nn.net.nodes (nn.net.nodes.size - 1) else kindAt nn.net.nodes x := by
  simp only [delNode, kindAt, Net.node, Array.getD_eq_getD_getElem?, Array.getElem?_pop, Array.getElem?_setIfInBounds,
    Array.size_setIfInBounds, hx, if_true, hi]
  by_cases e : i = x
  · subst e; simp
  · have : ¬ x = i := fun c => e c.symm
    simp [e, this]

theorem kindNames_eq (nn : NNet) : nn.kindNames =
    (List.range nn.net.nodes.size).map fun j => (kindAt nn.net.nodes j, nn.names.getD j "") := rfl

theorem delNode_kindNames (nn : NNet) (i : Nat) (h : LI nn) (hi : i < nn.net.nodes.size) :
    (delNode nn i).kindNames = (List.range (nn.net.nodes.size - 1)).map fun j =>
      if j = i then (kindAt nn.net.nodes (nn.net.nodes.size - 1), nn.names.getD (nn.net.nodes.size - 1) "")
      else (kindAt nn.net.nodes j, nn.names.getD j "") := by
  rw [kindNames_eq]
  have hs : (delNode nn i).net.nodes.size = nn.net.nodes.size - 1 := by simp [delNode]
  rw [hs]
  apply List.map_congr_left
  intro x hx
  have hx' := List.mem_range.mp hx
  rw [delNode_kindAt nn i x hi hx', delNode_names_getD nn i x h hi hx']
  by_cases e : x = i <;> simp [e]

/-- one loop iteration: ports (names, order) kept; nodes selected by any predicate that rejects forks kept up to order -/
theorem elimOne_obs (nn nn' : NNet) (i : Nat) (h : LI nn) (hi : i < nn.net.nodes.size)
    (hf : (nn.net.node i).isFork = true) (he : elimOne skip nn i = some nn') :
    LI nn' ∧ nn'.ioNames = nn.ioNames ∧
    ∀ p : String × String → Bool, (∀ name, p ("__fork__", name) = false) →
      (nn'.kindNames.filter p).Perm (nn.kindNames.filter p) := by
  rcases elimOne_shape nn nn' i he with e | ⟨hio, mid, e, hn, hio2, hsz, hk⟩
  · subst e; exact ⟨h, rfl, fun _ _ => List.Perm.refl _⟩
  · have hmid : LI mid := ⟨by rw [hn, hsz]; exact h.1, by rw [hio2, hsz]; exact h.2⟩
    have hi' : i < mid.net.nodes.size := by rw [hsz]; exact hi
    have hio' : mid.net.io.contains i = false := by rw [hio2]; exact hio
    have hd := delNode_io mid i hmid hi' hio'
    have hion : mid.ioNames = nn.ioNames := by simp [NNet.ioNames, hn, hio2]
    have hkn : mid.kindNames = nn.kindNames := by
      rw [kindNames_eq, kindNames_eq, hsz, hn]
      apply List.map_congr_left; intro j _; rw [hk j]
    subst e
    refine ⟨hd.2, hd.1.trans hion, fun p hp => ?_⟩
    rw [← hkn, delNode_kindNames mid i hmid hi', kindNames_eq mid]
    have hM : mid.net.nodes.size = (mid.net.nodes.size - 1) + 1 := by omega
    conv => rhs; rw [hM]
    apply swapPop_filter_perm p (fun j => (kindAt mid.net.nodes j, mid.names.getD j "")) (mid.net.nodes.size - 1) i (by omega)
    have : kindAt mid.net.nodes i = "__fork__" := by
      rw [hk i]
      simpa [NodeD.isFork, kindAt, Net.node] using hf
    simp only [this]; exact hp _

theorem lookup_isFork (nn : NNet) (name : String) (h : nn.lookup (name, true) < nn.net.nodes.size) :
    (nn.net.node (nn.lookup (name, true))).isFork = true := by
  have hl : nn.keys.idxOf (name, true) < nn.keys.length := by simpa [NNet.keys, NNet.lookup] using h
  have := List.getElem_idxOf hl
  simp only [NNet.keys, List.getElem_map, List.getElem_range, NNet.key] at this
  exact (Prod.mk.inj this).2

theorem elimForksIn_obs : ∀ (order : List String) (nn nn' : NNet), LI nn → elimForksIn skip order nn = some nn' →
    LI nn' ∧ nn'.ioNames = nn.ioNames ∧
    ∀ p : String × String → Bool, (∀ name, p ("__fork__", name) = false) →
      (nn'.kindNames.filter p).Perm (nn.kindNames.filter p)
  | [], nn, nn', h, he => by
    simp only [elimForksIn, List.foldlM_nil] at he
    cases (Option.some.inj he)
    exact ⟨h, rfl, fun _ _ => List.Perm.refl _⟩
  | name :: order, nn, nn', h, he => by
    simp only [elimForksIn, List.foldlM_cons] at he
    simp only [Option.bind_eq_bind, Option.bind_eq_some_iff] at he
    obtain ⟨s, hs, hrest⟩ := he
    have hstep : LI s ∧ s.ioNames = nn.ioNames ∧ ∀ p : String × String → Bool, (∀ name, p ("__fork__", name) = false) →
        (s.kindNames.filter p).Perm (nn.kindNames.filter p) := by
      by_cases hlt : nn.lookup (name, true) < nn.net.nodes.size
      · simp only [hlt, if_true] at hs
        exact elimOne_obs nn s _ h hlt (lookup_isFork nn name hlt) hs
      · simp only [hlt, if_false] at hs
        cases (Option.some.inj hs)
        exact ⟨h, rfl, fun _ _ => List.Perm.refl _⟩
    have ih := elimForksIn_obs order s nn' hstep.1 hrest
    exact ⟨ih.1, ih.2.1.trans hstep.2.1, fun p hp => (ih.2.2 p hp).trans (hstep.2.2 p hp)⟩

/-! ### the splice: a non-port fork passes its input on -/
theorem lineEq_fork {α} (net : Net) (sp : Nat → Option Nat) (z : α) (neg : α → α) (prim : String → α → α → α → α → α)
    (a : Nat → α) (v : Nat → α) (b i a0 : Nat) (hb : (net.line b).driver = i) (hf : (net.node i).isFork = true)
    (hs : sp i = none) (hin : (net.node i).inPin 0 = some a0) : lineEq net sp z neg prim a v b = v a0 := by
  simp [lineEq, hb, hs, hf, hin]

theorem fork_not_seq (n : NodeD) (h : n.isFork = true) : n.isDff = false ∧ n.isLatch = false := by
  have hk : n.kind = "__fork__" := by simpa [NodeD.isFork] using h
  simp only [NodeD.isDff, NodeD.isLatch, NodeD.lkind, hk]
  constructor <;> decide +kernel

theorem sPosTable_none (net : Net) (i : Nat) (hi : i < net.nodes.size) (hio : net.io.contains i = false)
    (hf : (net.node i).isFork = true) : net.sPosTable.getD i none = none := by
  have hns : i ∉ net.sNodes := by
    have := fork_not_seq _ hf
    simp only [Net.sNodes, List.mem_append, List.mem_filter, List.mem_range, not_or]
    refine ⟨⟨?_, ?_⟩, ?_⟩
    · intro hc
      have : net.io.contains i = true := by simpa using hc
      rw [hio] at this; exact absurd this (by simp)
    · simp [this.1]
    · simp [this.2]
  simp only [Net.sPosTable, Array.getD_eq_getD_getElem?]
  simp only [List.getElem?_toArray, List.getElem?_map, List.getElem?_range hi, Option.map_some, Option.getD_some, sPosIn]
  have : ¬ List.idxOf i net.sNodes < net.sNodes.length := by
    rw [List.idxOf_eq_length hns]; omega
  simp [this]

theorem head?_getD {l : List (Option Nat)} {x : Nat} (h : l.head? = some (some x)) : l.getD 0 none = some x := by
  cases l with
  | nil => simp at h
  | cons a r => simp at h; simp [h]

/-- in every consistent labelling the out-line of a non-port fork carries the value of its in-line -/
theorem fork_passes {α} [BEq α] [LawfulBEq α] (nn : NNet) (w : WF nn) (z : α) (neg : α → α) (prim : String → α → α → α → α → α)
    (asg : Nat → α) (v : Array α) (hc : consistentB nn.net z neg prim asg v = true)
    (i a0 b : Nat) (hi : i < nn.net.nodes.size) (hf : (nn.net.node i).isFork = true) (hio : nn.net.io.contains i = false)
    (hin : (nn.net.node i).ins.head? = some (some a0)) (hout : (nn.net.node i).outs.head? = some (some b)) :
    v.getD b z = v.getD a0 z := by
  obtain ⟨hbL, hdrv, _⟩ := w.fwdOut i hi 0 b (head?_getD hout)
  simp only [consistentB, List.all_eq_true, List.mem_range, beq_iff_eq] at hc
  rw [hc b hbL]
  exact lineEq_fork nn.net _ z neg prim asg _ b i a0 hdrv hf (sPosTable_none nn.net i hi hio hf)
    (by simpa [NodeD.inPin] using head?_getD hin)
end KV.Transform
