import KyupyVerif.Proofs.TransformSem3
/-! Helper lemmas for C10 (`elim_sem`), part 4: one splice keeps the invariant `SI`, relates the `s_nodes`, and maps
every consistent labelling to a consistent labelling of the result (node-indexed form). -/
namespace KV.Transform
open KV

theorem mem_sNodes (net : Net) (n : Nat) : n ∈ net.sNodes ↔
    n ∈ net.io ∨ (n < net.nodes.size ∧ (net.node n).isDff = true) ∨ (n < net.nodes.size ∧ (net.node n).isLatch = true) := by
  simp only [Net.sNodes, List.mem_append, List.mem_filter, List.mem_range, or_assoc]

theorem isDff_of_kind {n m : NodeD} (h : n.kind = m.kind) : n.isDff = m.isDff ∧ n.isLatch = m.isLatch ∧ n.isFork = m.isFork := by
  simp [NodeD.isDff, NodeD.isLatch, NodeD.isFork, NodeD.lkind, h]

theorem fork_not_sNode (net : Net) (i : Nat) (hio : net.io.contains i = false) (hf : (net.node i).isFork = true) :
    i ∉ net.sNodes := by
  have := fork_not_seq _ hf
  rw [mem_sNodes]
  simp only [not_or]
  refine ⟨?_, ?_, ?_⟩
  · intro hc
    have : net.io.contains i = true := by simpa using hc
    rw [hio] at this; exact absurd this (by simp)
  · simp [this.1]
  · simp [this.2]

theorem spN_none (net : Net) (i : Nat) (hio : net.io.contains i = false) (hf : (net.node i).isFork = true) :
    spN net i = none := by
  have := fork_not_sNode net i hio hf
  simp [spN, this]

section step
variable {nn : NNet} {i a b : Nat} (c : SC nn i a b)
include c

theorem splice_names_size : (splice nn i a b).names.size = (splice nn i a b).net.nodes.size := by
  have m := spliceMid_sizes nn i a b
  have h : (splice nn i a b).names.size = nn.names.size - 1 := by
    unfold splice; simp [delNode, m.2.2.1]
  rw [h, (splice_sizes (nn := nn) (i := i) (a := a) (b := b)).1, c.si.names]

theorem splice_SI : SI (splice nn i a b) := by
  have hsz := splice_sizes (nn := nn) (i := i) (a := a) (b := b)
  have hb := c.b_facts
  have ha := c.a_facts
  have hR := c.R_facts
  have hab := c.hab
  have hi := c.hi
  have nio : ∀ j ∈ nn.net.io, j ≠ i := by
    intro j hj e; subst e
    have : nn.net.io.contains j = true := by simpa using hj
    rw [c.nio] at this; exact absurd this (by simp)
  refine ⟨splice_names_size c, ?_, ?_, ?_, ?_, ?_⟩
  · -- io
    intro j hj
    rw [splice_io, List.mem_map] at hj
    obtain ⟨j0, hj0, e⟩ := hj
    rw [hsz.1, ← e]
    exact (mv_facts hi (c.si.io j0 hj0) (nio j0 hj0)).1
  · -- back
    intro l' hl'
    rw [hsz.2] at hl'
    rw [hsz.1]
    obtain ⟨hl, hlb, hml⟩ := nm_facts hb.1 hl'
    have bk := c.si.back _ hl
    have hdr : (nn.net.line (nmN nn.net.lines.size b l')).driver ≠ i := fun e => hlb (c.drv_i _ hl e)
    have hrd : (if nmN nn.net.lines.size b l' = a then (nn.net.line b).reader
        else (nn.net.line (nmN nn.net.lines.size b l')).reader) < nn.net.nodes.size ∧
        (if nmN nn.net.lines.size b l' = a then (nn.net.line b).reader
        else (nn.net.line (nmN nn.net.lines.size b l')).reader) ≠ i := by
      split
      · exact ⟨hR.1, hR.2.2⟩
      · rename_i hne
        exact ⟨bk.2.1, fun e => hne (c.rdr_i _ hl e)⟩
    have md := mv_facts hi bk.1 hdr
    have mr := mv_facts hi hrd.1 hrd.2
    rw [splice_line c l' hl']
    dsimp only
    refine ⟨md.1, mr.1, ?_, ?_⟩
    · rw [splice_outPin c _ _ md.1, md.2, bk.2.2.1, mvL_some]
      have : nn.net.lines.size - 1 + 1 = nn.net.lines.size := by omega
      rw [this, hml]
    · rw [splice_inPin c _ _ mr.1, mr.2]
      by_cases e : nmN nn.net.lines.size b l' = a
      · simp only [if_pos e, and_self, if_true]
        rw [← e, hml]
      · simp only [if_neg e]
        have hcond : ¬ ((nn.net.line (nmN nn.net.lines.size b l')).reader = (nn.net.line b).reader ∧
            (nn.net.line (nmN nn.net.lines.size b l')).rpin = (nn.net.line b).rpin) := by
          intro hc
          have h1 := bk.2.2.2
          rw [hc.1, hc.2, hR.2.1] at h1
          exact hlb (Option.some.inj h1).symm
        rw [if_neg hcond, bk.2.2.2, mvL_some]
        have : nn.net.lines.size - 1 + 1 = nn.net.lines.size := by omega
        rw [this, hml]
  · -- fwdIn
    intro j' hj' p x' hx
    rw [hsz.1] at hj'
    rw [hsz.2]
    obtain ⟨hd, hdi, hmd⟩ := nm_facts hi hj'
    rw [splice_inPin c j' p hj'] at hx
    by_cases hc : nmN nn.net.nodes.size i j' = (nn.net.line b).reader ∧ p = (nn.net.line b).rpin
    · rw [if_pos hc] at hx
      have ma := mv_facts hb.1 ha.1 hab
      have : x' = mvN nn.net.lines.size b a := (Option.some.inj hx).symm
      subst this
      refine ⟨ma.1, ?_⟩
      rw [splice_line c _ ma.1, ma.2]
      simp only [if_true]
      exact ⟨by rw [← hc.1, hmd], hc.2.symm⟩
    · rw [if_neg hc] at hx
      cases ho : (nn.net.node (nmN nn.net.nodes.size i j')).ins.getD p none with
      | none => rw [ho] at hx; exact absurd hx (by simp [mvL_none])
      | some x =>
        rw [ho, mvL_some] at hx
        have : nn.net.lines.size - 1 + 1 = nn.net.lines.size := by omega
        rw [this] at hx
        have fw := c.si.fwdIn _ hd p x ho
        have hxb : x ≠ b := by
          intro e; subst e
          exact hc ⟨fw.2.1.symm, fw.2.2.symm⟩
        have hxa : x ≠ a := by
          intro e; subst e
          exact hdi (fw.2.1.symm.trans ha.2.1)
        have mx := mv_facts hb.1 fw.1 hxb
        have : x' = mvN nn.net.lines.size b x := (Option.some.inj hx).symm
        subst this
        refine ⟨mx.1, ?_⟩
        rw [splice_line c _ mx.1, mx.2]
        simp only [if_neg hxa]
        exact ⟨by rw [fw.2.1, hmd], fw.2.2⟩
  · -- fwdOut
    intro j' hj' p x' hx
    rw [hsz.1] at hj'
    rw [hsz.2]
    obtain ⟨hd, hdi, hmd⟩ := nm_facts hi hj'
    rw [splice_outPin c j' p hj'] at hx
    cases ho : (nn.net.node (nmN nn.net.nodes.size i j')).outs.getD p none with
    | none => rw [ho] at hx; exact absurd hx (by simp [mvL_none])
    | some x =>
      rw [ho, mvL_some] at hx
      have : nn.net.lines.size - 1 + 1 = nn.net.lines.size := by omega
      rw [this] at hx
      have fw := c.si.fwdOut _ hd p x ho
      have hxb : x ≠ b := by
        intro e; subst e
        exact hdi (fw.2.1.symm.trans hb.2.1)
      have mx := mv_facts hb.1 fw.1 hxb
      have : x' = mvN nn.net.lines.size b x := (Option.some.inj hx).symm
      subst this
      refine ⟨mx.1, ?_⟩
      rw [splice_line c _ mx.1, mx.2]
      exact ⟨by dsimp only; rw [fw.2.1, hmd], fw.2.2⟩
  · -- fork1
    intro j' hj' hf
    rw [hsz.1] at hj'
    obtain ⟨hd, _, _⟩ := nm_facts hi hj'
    rw [splice_insLen c j' hj']
    apply c.si.fork1 _ hd
    rw [← (isDff_of_kind (splice_kind c j' hj')).2.2]; exact hf

/-- `j'` is an `s_node` of the result iff the node it was before is one of the original -/
theorem splice_mem_sNodes (j' : Nat) (hj : j' < nn.net.nodes.size - 1) :
    j' ∈ (splice nn i a b).net.sNodes ↔ nmN nn.net.nodes.size i j' ∈ nn.net.sNodes := by
  have hsz := splice_sizes (nn := nn) (i := i) (a := a) (b := b)
  have hi := c.hi
  obtain ⟨hd, hdi, hmd⟩ := nm_facts hi hj
  have nio : ∀ j ∈ nn.net.io, j ≠ i := by
    intro j hj e; subst e
    have : nn.net.io.contains j = true := by simpa using hj
    rw [c.nio] at this; exact absurd this (by simp)
  have hk := isDff_of_kind (splice_kind c j' hj)
  rw [mem_sNodes, mem_sNodes, hsz.1, hk.1, hk.2.1, splice_io]
  have hio : j' ∈ nn.net.io.map (mvN nn.net.nodes.size i) ↔ nmN nn.net.nodes.size i j' ∈ nn.net.io := by
    rw [List.mem_map]
    constructor
    · rintro ⟨j0, hj0, e⟩
      have := (mv_facts hi (c.si.io j0 hj0) (nio j0 hj0)).2
      rw [e] at this; rw [this]; exact hj0
    · intro h; exact ⟨_, h, hmd⟩
  rw [hio]
  simp only [hj, hd, true_and]

/-- what every node reads is unchanged (the reader of the deleted line now reads the fork's in-line, which carries
    the same value) -/
theorem splice_pins {α : Type _} (v : Nat → α) (hv : v b = v a) (j' k : Nat) (hj : j' < nn.net.nodes.size - 1) :
    (((splice nn i a b).net.node j').inPin k).map (fun l => v (nmN nn.net.lines.size b l)) =
      ((nn.net.node (nmN nn.net.nodes.size i j')).inPin k).map v := by
  have hb := c.b_facts
  have ha := c.a_facts
  have hR := c.R_facts
  obtain ⟨hd, hdi, hmd⟩ := nm_facts c.hi hj
  simp only [NodeD.inPin]
  rw [splice_inPin c j' k hj]
  by_cases hc : nmN nn.net.nodes.size i j' = (nn.net.line b).reader ∧ k = (nn.net.line b).rpin
  · rw [if_pos hc, hc.1, hc.2, hR.2.1]
    simp only [Option.map_some]
    rw [(mv_facts hb.1 ha.1 c.hab).2, hv]
  · rw [if_neg hc]
    cases ho : (nn.net.node (nmN nn.net.nodes.size i j')).ins.getD k none with
    | none => simp [mvL_none]
    | some x =>
      have fw := c.si.fwdIn _ hd k x ho
      have hxb : x ≠ b := by
        intro e; subst e
        exact hc ⟨fw.2.1.symm, fw.2.2.symm⟩
      have : nn.net.lines.size - 1 + 1 = nn.net.lines.size := by omega
      rw [mvL_some, this]
      simp only [Option.map_some]
      rw [(mv_facts hb.1 fw.1 hxb).2]

/-- in every consistent labelling the fork's out-line carries the value of its in-line -/
theorem consN_fork {α : Type _} (z : α) (neg : α → α) (prim : String → α → α → α → α → α) (an : Nat → α) (v : Nat → α)
    (hc : ConsN nn z neg prim an v) : v b = v a := by
  rw [hc b c.b_facts.1]
  exact lineEq_fork nn.net _ z neg prim an _ b i a c.b_facts.2.1 c.fork (spN_none nn.net i c.nio c.fork)
    (by simp [NodeD.inPin, c.ins_eq])

/-- the semantic step: a consistent labelling of the circuit, renamed, is a consistent labelling of the result -/
theorem splice_consN {α : Type _} (z : α) (neg : α → α) (prim : String → α → α → α → α → α) (an : Nat → α) (v : Nat → α)
    (hc : ConsN nn z neg prim an v) :
    ConsN (splice nn i a b) z neg prim (fun j => an (nmN nn.net.nodes.size i j)) (fun l => v (nmN nn.net.lines.size b l)) := by
  have hsz := splice_sizes (nn := nn) (i := i) (a := a) (b := b)
  have hb := c.b_facts
  have hv := consN_fork c z neg prim an v hc
  intro l' hl'
  rw [hsz.2] at hl'
  obtain ⟨hl, hlb, hml⟩ := nm_facts hb.1 hl'
  have bk := c.si.back _ hl
  have hdr : (nn.net.line (nmN nn.net.lines.size b l')).driver ≠ i := fun e => hlb (c.drv_i _ hl e)
  have md := mv_facts c.hi bk.1 hdr
  have hdrv : ((splice nn i a b).net.line l').driver = mvN nn.net.nodes.size i (nn.net.line (nmN nn.net.lines.size b l')).driver := by
    rw [splice_line c l' hl']
  have hdpin : ((splice nn i a b).net.line l').dpin = (nn.net.line (nmN nn.net.lines.size b l')).dpin := by
    rw [splice_line c l' hl']
  show v (nmN nn.net.lines.size b l') = _
  rw [hc _ hl]
  symm
  apply lineEq_congr
  · rw [hdrv, splice_kind c _ md.1, md.2]
  · exact hdpin
  · rw [hdrv]
    have hm := splice_mem_sNodes c _ md.1
    rw [md.2] at hm
    simp only [spN, List.contains_iff_mem]
    by_cases e : (nn.net.line (nmN nn.net.lines.size b l')).driver ∈ nn.net.sNodes
    · simp [e, hm.mpr e, md.2]
    · have : ¬ mvN nn.net.nodes.size i (nn.net.line (nmN nn.net.lines.size b l')).driver ∈ (splice nn i a b).net.sNodes :=
        fun x => e (hm.mp x)
      simp [e, this]
  · intro k
    rw [hdrv]
    have := splice_pins c v hv _ k md.1
    rw [md.2] at this
    exact this
end step
end KV.Transform
