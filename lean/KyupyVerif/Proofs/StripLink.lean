import KyupyVerif.Model.WaveStrip
import KyupyVerif.Proofs.GenOpsWO
/-! Link between the scheduler model and the program transformation of fork stripping, for every well-formed
netlist and every topological order:

* `stemsOf net true` (the `stems` array of `SimOps.__init__`) characterised: an index carries a stem iff it is an
  output line of a driven `__fork__` node, and the stem is `stemWalk` of the line that fork reads;
* `stemWalk` along a topological order: terminates within the fuel `SimOps` gives it, ends at a line that is not
  driven by a driven fork, and the driver of the result stands before the fork in the order;
* `genOps … true` = `genOps … false` without the rows that write a branch (`genOps_strip_filter`).

Only core Lean and `Model/` files are imported (the definitions are used by the driver). -/
namespace KV
open KV.Sig

/-- node scheduled as a fork that copies a line: kind `__fork__` with connected input pin 0 -/
def drivenFork (net : Net) (n : Nat) : Bool := (net.node n).isFork && ((net.node n).inPin 0).isSome

/-- conditions on the fork nodes of an order under which `strip_forks` is a pure program transformation:
    a node that `SimOps` schedules as a fork (lower-cased kind `__fork__`) is a fork for `Circuit.forks` too (kind exactly
    `__fork__`), has no connection on input pins 1–3, and either reads a line that is listed on the output pin of that
    line's driver, or — undriven — is an interface node (its branches are fed from its (P)PI slot). -/
def forksOKB (net : Net) (order : List Nat) : Bool :=
  order.all fun n =>
    let nd := net.node n
    !(nd.lkind == "__fork__") ||
      (nd.isFork && (nd.inPin 1).isNone && (nd.inPin 2).isNone && (nd.inPin 3).isNone &&
       (match nd.inPin 0 with
        | some l0 => (net.node (net.line l0).driver).outs.getD (net.line l0).dpin none == some l0
        | none => (sPosIn net.sNodes n).isSome))

/-- the branch ↦ stem association list read off the `stems` array of `SimOps` (`strip_forks=True`) -/
def stemList (net : Net) : List (Nat × Nat) :=
  (List.range net.idx.len).filterMap fun b => ((stemsOf net true).getD b none).map fun s => (b, s)

/-! ### `stemsOf` as a fold over assignments -/

theorem forIn_id_yield {α β} (l : List α) (init : β) (f : α → β → Id (ForInStep β)) (g : α → β → β)
    (h : ∀ x s, f x s = pure (ForInStep.yield (g x s))) :
    forIn l init f = (pure (l.foldl (fun s x => g x s) init) : Id β) := by
  induction l generalizing init with
  | nil => rfl
  | cons x r ih =>
    rw [List.forIn_cons, h]
    simp only [pure_bind, List.foldl_cons]
    exact ih _

def applyAssigns (a : Array (Option Nat)) (as : List (Nat × Nat)) : Array (Option Nat) :=
  as.foldl (fun a p => a.setIfInBounds p.1 (some p.2)) a

/-- the assignments `stems[ol] = stem` one fork node contributes -/
def forkAssigns (net : Net) (n : Nat) : List (Nat × Nat) :=
  let nd := net.node n
  if nd.isFork then
    match nd.inPin 0 with
    | some l0 => nd.outs.filterMap fun o => o.map fun ol => (ol, stemWalk net net.nodes.size l0)
    | none => []
  else []

theorem applyAssigns_append (a : Array (Option Nat)) (x y : List (Nat × Nat)) :
    applyAssigns a (x ++ y) = applyAssigns (applyAssigns a x) y := by
  simp [applyAssigns, List.foldl_append]

theorem stemsOf_true (net : Net) : stemsOf net true =
    applyAssigns (Array.replicate net.idx.len none) ((List.range net.nodes.size).flatMap (forkAssigns net)) := by
  unfold stemsOf
  simp only [Id.run, if_true]
  rw [forIn_id_yield _ _ _ (fun n s => applyAssigns s (forkAssigns net n))]
  · simp only [pure_bind]
    generalize Array.replicate net.idx.len none = a
    show List.foldl _ a _ = _
    induction (List.range net.nodes.size) generalizing a with
    | nil => rfl
    | cons x r ih => rw [List.foldl_cons, ih, List.flatMap_cons, applyAssigns_append]
  · intro n s
    unfold forkAssigns
    simp only
    by_cases hf : (net.node n).isFork = true
    · cases hp : (net.node n).inPin 0 with
      | none => simp only [hf, if_true]; rfl
      | some l0 =>
        simp only [hf, if_true]
        rw [forIn_id_yield _ _ _ (fun o s => match o with | some ol => s.setIfInBounds ol (some (stemWalk net net.nodes.size l0)) | none => s)]
        · simp only [pure_bind]
          congr 2
          generalize (net.node n).outs = os
          induction os generalizing s with
          | nil => rfl
          | cons o r ih =>
            cases o with
            | none => simp only [List.foldl_cons, List.filterMap_cons, Option.map_none]; exact ih s
            | some ol => simp only [List.foldl_cons, List.filterMap_cons, Option.map_some, applyAssigns]; exact ih _
        · intro o s'; cases o <;> rfl
    · simp only [hf]; rfl

theorem applyAssigns_size (a : Array (Option Nat)) (as : List (Nat × Nat)) : (applyAssigns a as).size = a.size := by
  induction as generalizing a with
  | nil => rfl
  | cons p r ih => simp only [applyAssigns, List.foldl_cons] at ih ⊢; rw [ih]; simp

theorem getD_setIfInBounds (a : Array (Option Nat)) (i x : Nat) (v : Option Nat) :
    (a.setIfInBounds i v).getD x none = if i = x ∧ i < a.size then v else a.getD x none := by
  simp only [Array.getD_eq_getD_getElem?, Array.getElem?_setIfInBounds]
  by_cases h : i = x
  · subst h
    by_cases h2 : i < a.size
    · simp [h2]
    · simp [h2]
  · simp [h]

/-- assignments to other indices leave an index alone -/
theorem applyAssigns_keep (b : Array (Option Nat)) (r : List (Nat × Nat)) (x : Nat) (hr : ¬ ∃ v, (x, v) ∈ r) :
    (applyAssigns b r).getD x none = b.getD x none := by
  induction r generalizing b with
  | nil => rfl
  | cons q r ih =>
    simp only [applyAssigns, List.foldl_cons]
    have hq : ¬ ∃ v, (x, v) ∈ r := fun ⟨v, hv⟩ => hr ⟨v, List.mem_cons_of_mem _ hv⟩
    have := ih (b.setIfInBounds q.1 (some q.2)) hq
    simp only [applyAssigns] at this
    rw [this, getD_setIfInBounds]
    split
    · rename_i hc
      exfalso
      apply hr
      refine ⟨q.2, ?_⟩
      rw [← hc.1]
      exact List.mem_cons_self
    · rfl

/-- a stem found in the array was assigned -/
theorem applyAssigns_some (a : Array (Option Nat)) (as : List (Nat × Nat)) (x s : Nat)
    (h : (applyAssigns a as).getD x none = some s) : (x, s) ∈ as ∨ a.getD x none = some s := by
  induction as generalizing a with
  | nil => exact Or.inr h
  | cons p r ih =>
    simp only [applyAssigns, List.foldl_cons] at h
    rcases ih _ h with h1 | h1
    · exact Or.inl (List.mem_cons_of_mem _ h1)
    · rw [getD_setIfInBounds] at h1
      split at h1
      · rename_i hc
        left
        obtain ⟨px, pv⟩ := p
        simp only at hc h1
        cases h1
        rw [hc.1]
        exact List.mem_cons_self
      · exact Or.inr h1

/-- an index that is assigned (and in bounds) carries one of the values assigned to it -/
theorem applyAssigns_mem (a : Array (Option Nat)) (as : List (Nat × Nat)) (x : Nat) (hx : x < a.size)
    (h : ∃ v, (x, v) ∈ as) : ∃ v, (x, v) ∈ as ∧ (applyAssigns a as).getD x none = some v := by
  induction as generalizing a with
  | nil => obtain ⟨v, hv⟩ := h; cases hv
  | cons p r ih =>
    simp only [applyAssigns, List.foldl_cons]
    by_cases hr : ∃ v, (x, v) ∈ r
    · obtain ⟨v, hv, hg⟩ := ih (a.setIfInBounds p.1 (some p.2)) (by simpa using hx) hr
      exact ⟨v, List.mem_cons_of_mem _ hv, hg⟩
    · obtain ⟨v, hv⟩ := h
      rcases List.mem_cons.mp hv with rfl | hv
      · refine ⟨v, List.mem_cons_self, ?_⟩
        have := applyAssigns_keep (a.setIfInBounds x (some v)) r x hr
        simp only [applyAssigns] at this
        rw [this, getD_setIfInBounds]
        simp [hx]
      · exact absurd ⟨v, hv⟩ hr

theorem mem_forkAssigns {net : Net} {x s : Nat} (h : (x, s) ∈ (List.range net.nodes.size).flatMap (forkAssigns net)) :
    ∃ n l0, n < net.nodes.size ∧ (net.node n).isFork = true ∧ (net.node n).inPin 0 = some l0 ∧
      some x ∈ (net.node n).outs ∧ s = stemWalk net net.nodes.size l0 := by
  simp only [List.mem_flatMap, List.mem_range] at h
  obtain ⟨n, hn, hm⟩ := h
  unfold forkAssigns at hm
  simp only at hm
  split at hm
  · rename_i hf
    split at hm
    · rename_i l0 hp
      simp only [List.mem_filterMap] at hm
      obtain ⟨o, ho, hg⟩ := hm
      cases o with
      | none => simp at hg
      | some ol =>
        simp only [Option.map_some, Option.some.injEq, Prod.mk.injEq] at hg
        obtain ⟨rfl, rfl⟩ := hg
        exact ⟨n, l0, hn, hf, hp, ho, rfl⟩
    · cases hm
  · cases hm

theorem forkAssigns_mem {net : Net} {n l0 x : Nat} (hn : n < net.nodes.size) (hf : (net.node n).isFork = true)
    (hp : (net.node n).inPin 0 = some l0) (hx : some x ∈ (net.node n).outs) :
    (x, stemWalk net net.nodes.size l0) ∈ (List.range net.nodes.size).flatMap (forkAssigns net) := by
  simp only [List.mem_flatMap, List.mem_range]
  refine ⟨n, hn, ?_⟩
  unfold forkAssigns
  simp only [hf, if_true, hp, List.mem_filterMap]
  exact ⟨some x, hx, rfl⟩

theorem mem_outs_getElem? {nd : NodeD} {x : Nat} (h : some x ∈ nd.outs) : ∃ pin : Nat, nd.outs[pin]? = some (some x) := by
  obtain ⟨i, hi, he⟩ := List.getElem_of_mem h
  exact ⟨i, by rw [List.getElem?_eq_getElem hi, he]⟩

/-- `stems[x] = s`: `x` is an output line of a driven fork `n` (its driver), `s` the walk from the line `n` reads -/
theorem stems_some {net : Net} (hwf : net.wfB = true) {x s : Nat} (h : (stemsOf net true).getD x none = some s) :
    ∃ l0, (net.line x).driver < net.nodes.size ∧ (net.node (net.line x).driver).isFork = true ∧
      (net.node (net.line x).driver).inPin 0 = some l0 ∧ some x ∈ (net.node (net.line x).driver).outs ∧
      s = stemWalk net net.nodes.size l0 ∧ x < net.lines.size := by
  rw [stemsOf_true] at h
  rcases applyAssigns_some _ _ _ _ h with h1 | h1
  · obtain ⟨n, l0, hn, hf, hp, hx, hs⟩ := mem_forkAssigns h1
    obtain ⟨pin, hpin⟩ := mem_outs_getElem? hx
    obtain ⟨hl, hd, _⟩ := wf_out hwf hn hpin
    rw [hd]
    exact ⟨l0, hn, hf, hp, hx, hs, hl⟩
  · rw [Array.getD_eq_getD_getElem?, Array.getElem?_replicate] at h1
    split at h1 <;> simp at h1

theorem stems_of_fork {net : Net} (hwf : net.wfB = true) {n l0 x : Nat} (hn : n < net.nodes.size)
    (hf : (net.node n).isFork = true) (hp : (net.node n).inPin 0 = some l0) (hx : some x ∈ (net.node n).outs) :
    (stemsOf net true).getD x none = some (stemWalk net net.nodes.size l0) := by
  obtain ⟨pin, hpin⟩ := mem_outs_getElem? hx
  obtain ⟨hl, hd, _⟩ := wf_out hwf hn hpin
  have hsz : x < (Array.replicate net.idx.len (none : Option Nat)).size := by
    simp [Net.idx]; omega
  obtain ⟨v, hv, hg⟩ := applyAssigns_mem _ _ x hsz ⟨_, forkAssigns_mem hn hf hp hx⟩
  rw [stemsOf_true, hg]
  obtain ⟨n', l0', hn', hf', hp', hx', hs'⟩ := mem_forkAssigns hv
  obtain ⟨pin', hpin'⟩ := mem_outs_getElem? hx'
  obtain ⟨_, hd', _⟩ := wf_out hwf hn' hpin'
  have : n' = n := hd'.symm.trans hd
  subst this
  rw [hp] at hp'
  cases hp'
  rw [hs']

theorem stems_none_ge {net : Net} (hwf : net.wfB = true) {x : Nat} (h : net.lines.size ≤ x) :
    (stemsOf net true).getD x none = none := by
  cases hs : (stemsOf net true).getD x none with
  | none => rfl
  | some s => obtain ⟨_, _, _, _, _, _, hl⟩ := stems_some hwf hs; omega

/-- an output line of a node that is not a driven fork is not a branch -/
theorem stems_none_of_out {net : Net} (hwf : net.wfB = true) {n pin x : Nat} (hn : n < net.nodes.size)
    (hdf : drivenFork net n = false) (hpin : (net.node n).outs[pin]? = some (some x)) :
    (stemsOf net true).getD x none = none := by
  cases hs : (stemsOf net true).getD x none with
  | none => rfl
  | some s =>
    obtain ⟨l0, _, hf, hp, _, _, _⟩ := stems_some hwf hs
    rw [(wf_out hwf hn hpin).2.1] at hf hp
    simp [drivenFork, hf, hp] at hdf

/-! ### the association list -/

theorem lookup_filterMap_self (g : Nat → Option Nat) (l : List Nat) (b : Nat) :
    (l.filterMap fun k => (g k).map fun s => (k, s)).lookup b = if b ∈ l then g b else none := by
  induction l with
  | nil => rfl
  | cons k r ih =>
    cases hg : g k with
    | none =>
      simp only [List.filterMap_cons, hg, Option.map_none, ih, List.mem_cons]
      by_cases hb : b = k
      · subst hb; simp [hg]
      · simp [hb]
    | some v =>
      simp only [List.filterMap_cons, hg, Option.map_some, List.lookup_cons, ih, List.mem_cons]
      by_cases hb : b = k
      · subst hb; simp [hg]
      · have : (b == k) = false := by simpa using hb
        simp [this, hb]

theorem stemsOf_size (net : Net) : (stemsOf net true).size = net.idx.len := by
  rw [stemsOf_true, applyAssigns_size]; simp

theorem stemList_lookup (net : Net) (b : Nat) : (stemList net).lookup b = (stemsOf net true).getD b none := by
  unfold stemList
  rw [lookup_filterMap_self (fun b => (stemsOf net true).getD b none)]
  split
  · rfl
  · rename_i h
    simp only [List.mem_range, Nat.not_lt] at h
    rw [Array.getD_eq_getD_getElem?, Array.getElem?_eq_none (by rw [stemsOf_size]; exact h)]
    rfl

theorem src_stemList (net : Net) (x : Nat) : Wave.src (stemList net) x = viaStem (stemsOf net true) x := by
  unfold Wave.src viaStem
  rw [stemList_lookup]

/-! ### facts extracted from the order certificate -/

theorem orderOK_spec {net : Net} {order : List Nat} (ho : orderOKB net order = true) :
    order.Nodup ∧ (∀ n ∈ order, n < net.nodes.size) ∧
    (∀ n ∈ order, isSrcNode net net.sNodes n = false → ∀ (pin l : Nat),
      (net.node n).ins[pin]? = some (some l) → order.idxOf (net.line l).driver < order.idxOf n) := by
  unfold orderOKB at ho
  simp only [Bool.and_eq_true, List.all_eq_true, decide_eq_true_eq, Bool.or_eq_true] at ho
  obtain ⟨⟨hnd, hlt⟩, hord⟩ := ho
  refine ⟨C07_nodup hnd, hlt, ?_⟩
  intro n hn hns pin l hpin
  rcases hord n hn with h | h
  · rw [hns] at h; cases h
  · have hm : some l ∈ (net.node n).ins := List.mem_of_getElem? hpin
    have := h (some l) hm
    simpa using this

theorem order_length_le {net : Net} {order : List Nat} (ho : orderOKB net order = true) :
    order.length ≤ net.nodes.size := by
  obtain ⟨hnd, hlt, _⟩ := orderOK_spec ho
  have := List.Nodup.length_le_of_subset hnd (l₂ := List.range net.nodes.size)
    (fun n hn => List.mem_range.mpr (hlt n hn))
  simpa using this

theorem drivenFork_not_src {net : Net} {sn : List Nat} {n : Nat} (h : drivenFork net n = true) : isSrcNode net sn n = false := by
  unfold drivenFork at h
  unfold isSrcNode
  rw [h]; rfl

theorem drivenFork_spec {net : Net} {n : Nat} (h : drivenFork net n = true) :
    (net.node n).isFork = true ∧ ∃ l0, (net.node n).inPin 0 = some l0 := by
  unfold drivenFork at h
  simp only [Bool.and_eq_true] at h
  exact ⟨h.1, Option.isSome_iff_exists.mp h.2⟩

theorem mem_of_idxOf_lt {order : List Nat} {a b : Nat} (h : order.idxOf a < order.idxOf b) : a ∈ order := by
  have : order.idxOf b ≤ order.length := List.idxOf_le_length
  exact List.idxOf_lt_length_iff.mp (by omega)

/-! ### `stemWalk` along a topological order -/

theorem stemWalk_succ (net : Net) (fuel l : Nat) : stemWalk net (fuel + 1) l =
    if drivenFork net (net.line l).driver = true then
      stemWalk net fuel (((net.node (net.line l).driver).inPin 0).getD l)
    else l := by
  unfold drivenFork
  rw [stemWalk]
  cases hf : (net.node (net.line l).driver).isFork with
  | false => simp
  | true =>
    cases hp : (net.node (net.line l).driver).inPin 0 with
    | none => simp
    | some l' => simp

/-- with enough fuel the walk ends at a line whose driver is not a driven fork and stands no later than the driver of
    the start line; it stays inside the lines; the fuel does not matter -/
theorem stemWalk_spec {net : Net} {order : List Nat} (hwf : net.wfB = true) (ho : orderOKB net order = true) :
    ∀ (fuel l : Nat), (net.line l).driver ∈ order → order.idxOf (net.line l).driver < fuel →
      drivenFork net (net.line (stemWalk net fuel l)).driver = false ∧
      order.idxOf (net.line (stemWalk net fuel l)).driver ≤ order.idxOf (net.line l).driver ∧
      (l < net.lines.size → stemWalk net fuel l < net.lines.size) ∧
      (∀ fuel', order.idxOf (net.line l).driver < fuel' → stemWalk net fuel' l = stemWalk net fuel l) := by
  obtain ⟨_, hlt, hdrv⟩ := orderOK_spec ho
  intro fuel
  induction fuel with
  | zero => intro l _ h; omega
  | succ fuel ih =>
    intro l hmem hfuel
    rw [stemWalk_succ]
    cases hdf : drivenFork net (net.line l).driver with
    | false =>
      simp only [Bool.false_eq_true, if_false]
      refine ⟨hdf, Nat.le_refl _, fun h => h, ?_⟩
      intro fuel' hf'
      cases fuel' with
      | zero => omega
      | succ f => rw [stemWalk_succ, hdf]; rfl
    | true =>
      rw [if_pos rfl]
      obtain ⟨_, l', hp⟩ := drivenFork_spec hdf
      rw [hp, Option.getD_some]
      have hlt' := hdrv _ hmem (drivenFork_not_src hdf) 0 l' (inPin_some hp)
      have hmem' := mem_of_idxOf_lt hlt'
      have hl' := (wf_in hwf (hlt _ hmem) (inPin_some hp)).1
      obtain ⟨h1, h2, h3, h4⟩ := ih l' hmem' (by omega)
      refine ⟨h1, by omega, fun _ => h3 hl', ?_⟩
      intro fuel' hf'
      cases fuel' with
      | zero => omega
      | succ f =>
        rw [stemWalk_succ, hdf, if_pos rfl, hp, Option.getD_some]
        exact h4 f (by omega)

end KV
