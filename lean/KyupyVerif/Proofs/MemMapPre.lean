import KyupyVerif.Proofs.MemMapAlloc
/-! The pre-loop of `memMap` (special slots, input slots, pins) as a run of allocations plus a run of reference-count
increments; it establishes the allocation invariant at row 0. -/
namespace KV
open KV.Heap KV.MapIn

/-! ### the pre-loop -/
def withRefc (s : MapSt) (r : Array Int) : MapSt := { s with refc := r }
def allocL (s : MapSt) (xs : List Nat) (c : Nat) : MapSt := xs.foldl (fun s x => allocAt s x c) s

theorem allocL_withRefc (s : MapSt) (r : Array Int) (xs : List Nat) (c : Nat) :
    allocL (withRefc s r) xs c = withRefc (allocL s xs c) r := by
  induction xs generalizing s with
  | nil => rfl
  | cons x xs ih =>
    simp only [allocL, List.foldl_cons] at ih ⊢
    exact ih (allocAt s x c)

theorem allocL_refc (s : MapSt) (xs : List Nat) (c : Nat) : (allocL s xs c).refc = s.refc := by
  induction xs generalizing s with
  | nil => rfl
  | cons x xs ih =>
    simp only [allocL, List.foldl_cons] at ih ⊢
    rw [ih]; rfl

theorem allocL_append (s : MapSt) (xs ys : List Nat) (c : Nat) : allocL s (xs ++ ys) c = allocL (allocL s xs c) ys c := by
  simp [allocL, List.foldl_append]

/-- the input slot an interface node gets -/
def snA (net : Net) (ni : Nat × Nat) : List Nat := if (net.node ni.1).outs.length > 0 then [net.idx.ppi + ni.2] else []
/-- the captured signal an interface node pins -/
def snC (net : Net) (st : Array (Option Nat)) (ni : Nat × Nat) : List Nat :=
  if (net.node ni.1).ins.length > 0 then
    match (net.node ni.1).inPin 0 with
    | some l => [viaStem st l]
    | none => []
  else []

theorem withRefc_withRefc (s : MapSt) (r r' : Array Int) : withRefc (withRefc s r) r' = withRefc s r' := rfl
theorem withRefc_self (s : MapSt) : withRefc s s.refc = s := rfl
theorem withRefc_refc (s : MapSt) (r : Array Int) : (withRefc s r).refc = r := rfl
theorem incRef_eq (s : MapSt) (x : Nat) : incRef s x = withRefc s (incs s.refc [x]) := rfl

theorem mapSnStep_eq (net : Net) (st : Array (Option Nat)) (c : Nat) (s : MapSt) (ni : Nat × Nat) :
    mapSnStep net st c s ni = withRefc (allocL s (snA net ni) c) (incs s.refc (snA net ni ++ snC net st ni)) := by
  unfold mapSnStep snA snC
  simp only
  by_cases h1 : (net.node ni.1).outs.length > 0 <;> by_cases h2 : (net.node ni.1).ins.length > 0 <;>
    cases h3 : (net.node ni.1).inPin 0 <;> simp only [h1, h2, if_true, if_false] <;> rfl

theorem foldl_mapSnStep (net : Net) (st : Array (Option Nat)) (c : Nat) (l : List (Nat × Nat)) (s : MapSt) :
    l.foldl (mapSnStep net st c) s =
      withRefc (allocL s (l.flatMap (snA net)) c) (incs s.refc (l.flatMap fun ni => snA net ni ++ snC net st ni)) := by
  induction l generalizing s with
  | nil => rfl
  | cons ni r ih =>
    rw [List.foldl_cons, ih, mapSnStep_eq, allocL_withRefc, withRefc_withRefc]
    simp only [withRefc_refc, List.flatMap_cons, allocL_append, incs_append]

theorem foldl_incRef (xs : List Nat) (s : MapSt) : xs.foldl incRef s = withRefc s (incs s.refc xs) := by
  induction xs generalizing s with
  | nil => rfl
  | cons x r ih =>
    rw [List.foldl_cons, ih, incRef_eq, withRefc_withRefc, withRefc_refc]
    rfl

/-- signals that own memory before the first level, in allocation order -/
def preAlloc (net : Net) : List Nat :=
  [net.idx.zero, net.idx.tmp, net.idx.tmp2] ++ net.sNodes.zipIdx.flatMap (snA net)
/-- the pins: one `ref_count += 1` each -/
def prePins (net : Net) (st : Array (Option Nat)) : List Nat :=
  [net.idx.zero, net.idx.tmp, net.idx.tmp2] ++ net.sNodes.zipIdx.flatMap fun ni => snA net ni ++ snC net st ni

theorem mapPre_eq (net : Net) (st : Array (Option Nat)) (lev : LevSt) (c : Nat) :
    mapPre net st lev c = withRefc (allocL (mapInit net lev) (preAlloc net) c) (incs lev.refc (prePins net st)) := by
  unfold mapPre preAlloc prePins
  simp only
  rw [foldl_mapSnStep, foldl_incRef, allocL_withRefc, withRefc_withRefc, withRefc_refc, allocL_append, incs_append]
  have : List.foldl (fun s x => allocAt s x c) (mapInit net lev) [net.idx.zero, net.idx.tmp, net.idx.tmp2] =
      allocL (mapInit net lev) [net.idx.zero, net.idx.tmp, net.idx.tmp2] c := rfl
  rw [this, allocL_refc]
  rfl


/-- a run of allocations before the first level (nothing is dead at row 0) -/
theorem AInv.allocL {p : MapIn} {reuse : Bool} (hpos : 0 < p.capsMin) (xs : List Nat) :
    ∀ {A : Nat → Prop} {s : MapSt}, AInv p reuse 0 A s → xs.Nodup → (∀ x ∈ xs, ¬ A x ∧ x < p.ix.len) →
      AInv p reuse 0 (fun x => A x ∨ x ∈ xs) (allocL s xs p.capsMin) := by
  induction xs with
  | nil => intro A s h _ _; exact h.congr (fun x hx => by simpa using hx)
  | cons y r ih =>
    intro A s h hnd hx
    obtain ⟨hy, hnd'⟩ := List.nodup_cons.mp hnd
    have h1 := h.alloc y p.capsMin (hx y List.mem_cons_self).1 (hx y List.mem_cons_self).2 (Nat.le_refl _) hpos hpos
      (fun x _ hd => absurd hd (not_dead_zero p reuse x))
    have h2 := ih h1 hnd' (by
      intro x hxr
      have := hx x (List.mem_cons_of_mem _ hxr)
      refine ⟨?_, this.2⟩
      rintro (ha | rfl)
      · exact this.1 ha
      · exact hy hxr)
    refine h2.congr ?_
    intro x hx'
    rcases hx' with ha | hm
    · exact .inl (.inl ha)
    · rcases List.mem_cons.mp hm with rfl | hm
      · exact .inl (.inr rfl)
      · exact .inr hm

theorem AInv.init (p : MapIn) (reuse : Bool) (lev : LevSt) : AInv p reuse 0 (fun _ => False) (mapInit p.net lev) := by
  refine ⟨?_, ?_, empty_inv, ?_, ?_, ?_, ?_⟩
  · simp [mapInit, MapIn.ix]
  · simp [mapInit, MapIn.ix]
  all_goals (intro x; intros; contradiction)

theorem mem_snA {net : Net} {x : Nat} {l : List (Nat × Nat)} (h : x ∈ l.flatMap (snA net)) :
    ∃ ni ∈ l, (net.node ni.1).outs.length > 0 ∧ x = net.idx.ppi + ni.2 := by
  simp only [List.mem_flatMap] at h
  obtain ⟨ni, hm, hx⟩ := h
  unfold snA at hx
  split at hx
  · rename_i ho
    simp only [List.mem_singleton] at hx
    exact ⟨ni, hm, ho, hx⟩
  · cases hx

theorem ppiSlots_sub (p : MapIn) {x : Nat} (h : x ∈ p.ppiSlots) : x ∈ p.net.sNodes.zipIdx.flatMap (snA p.net) := by
  unfold MapIn.ppiSlots at h
  simp only [List.mem_map, List.mem_filter] at h
  obtain ⟨⟨n, i⟩, ⟨hm, ho⟩, rfl⟩ := h
  simp only [List.mem_flatMap]
  refine ⟨(n, i), hm, ?_⟩
  simp only [decide_eq_true_eq] at ho
  simp [snA, ho, MapIn.ix]

theorem snA_nodup (net : Net) : ∀ (l : List (Nat × Nat)), l.Pairwise (fun a b => a.2 < b.2) → (l.flatMap (snA net)).Nodup := by
  intro l
  induction l with
  | nil => intro _; simp
  | cons a r ih =>
    intro hpw
    obtain ⟨h1, h2⟩ := List.pairwise_cons.mp hpw
    rw [List.flatMap_cons, List.nodup_append]
    refine ⟨?_, ih h2, ?_⟩
    · unfold snA; split <;> simp
    · intro x hx y hy
      obtain ⟨ni, hm, _, rfl⟩ := mem_snA hy
      unfold snA at hx
      split at hx
      · simp only [List.mem_singleton] at hx
        have := h1 ni hm
        omega
      · cases hx

theorem preAlloc_ok (p : MapIn) : (preAlloc p.net).Nodup ∧ ∀ x ∈ preAlloc p.net, x < p.ix.len := by
  obtain ⟨i1, i2, i3, i4, i5, i6⟩ := ix_vals p
  simp only [MapIn.ix] at i1 i2 i3 i4 i5 i6 ⊢
  have hr : ∀ x ∈ p.net.sNodes.zipIdx.flatMap (snA p.net), p.net.idx.ppi ≤ x ∧ x < p.net.idx.ppo := by
    intro x hx
    obtain ⟨⟨n, i⟩, hm, _, rfl⟩ := mem_snA hx
    have := (List.getElem?_eq_some_iff.mp (mem_zipIdx_getElem? hm)).1
    simp only
    omega
  unfold preAlloc
  constructor
  · rw [List.nodup_append]
    refine ⟨?_, snA_nodup p.net _ (zipIdx_pairwise_lt _ 0), ?_⟩
    · simp [i1, i2, i3]
    · intro x hx y hy
      have := hr y hy
      simp only [List.mem_cons, List.mem_nil_iff, or_false] at hx
      rcases hx with rfl | rfl | rfl <;> omega
  · intro x hx
    rcases List.mem_append.mp hx with h | h
    · simp only [List.mem_cons, List.mem_nil_iff, or_false] at h
      rcases h with rfl | rfl | rfl <;> omega
    · have := hr x h; omega

theorem inPin_ins_pos {nd : NodeD} {l : Nat} (h : nd.inPin 0 = some l) : nd.ins.length > 0 := by
  unfold NodeD.inPin at h
  cases hi : nd.ins with
  | nil => rw [hi] at h; simp at h
  | cons a r => simp

/-- every pinned signal gets at least one pin -/
theorem pinned_mem_prePins (p : MapIn) {x : Nat} (h : pinnedM p x = true) : x ∈ prePins p.net p.stems := by
  unfold prePins
  simp only [pinnedM, MapIn.pinned, MapIn.pinnedW, Bool.or_eq_true, beq_iff_eq, List.contains_iff_mem] at h
  rcases h with ((((h | h) | h) | h) | h)
  · simp [h, MapIn.ix]
  · apply List.mem_append_right
    have := ppiSlots_sub p h
    simp only [List.mem_flatMap] at this ⊢
    obtain ⟨ni, hm, hx⟩ := this
    exact ⟨ni, hm, List.mem_append_left _ hx⟩
  · apply List.mem_append_right
    simp only [List.mem_map] at h
    obtain ⟨⟨j, s⟩, hjs, rfl⟩ := h
    unfold MapIn.ppoSrcs MapIn.ppoSrcsW at hjs
    simp only [List.mem_filterMap] at hjs
    obtain ⟨⟨n, i⟩, hm, hg⟩ := hjs
    cases hp0 : (p.net.node n).inPin 0 with
    | none => rw [hp0] at hg; simp at hg
    | some l =>
      rw [hp0] at hg
      simp only [Option.map_some, Option.some.injEq, Prod.mk.injEq] at hg
      simp only [List.mem_flatMap]
      refine ⟨(n, i), hm, List.mem_append_right _ ?_⟩
      simp only [snC, inPin_ins_pos hp0, if_true, hp0, List.mem_singleton]
      exact hg.2.symm
  · simp [h, MapIn.ix]
  · simp [h, MapIn.ix]

/-- **the state before the first level satisfies the invariant** -/
theorem mapPre_inv {p : MapIn} (hpos : 0 < p.capsMin) (reuse : Bool) (lev : LevSt)
    (hsz : lev.refc.size = p.ix.len) (hrc : ∀ x, x < p.ix.len → lev.refc.getD x 0 = (occ p.stems x p.ops : Int)) :
    MInv p reuse 0 (mapPre p.net p.stems lev p.capsMin) := by
  rw [mapPre_eq]
  obtain ⟨hnd, hlt⟩ := preAlloc_ok p
  have hA := (AInv.init p reuse lev).allocL hpos (preAlloc p.net) hnd (fun x hx => ⟨fun f => f, hlt x hx⟩)
  constructor
  · refine (hA.of_eq (s' := withRefc (allocL (mapInit p.net lev) (preAlloc p.net) p.capsMin) (incs lev.refc (prePins p.net p.stems))) rfl rfl rfl).congr ?_
    intro x hx
    right
    unfold preAlloc
    rcases hx with h | h | h | h | ⟨k', _, hk', _⟩
    · simp [h, MapIn.ix]
    · simp [h, MapIn.ix]
    · simp [h, MapIn.ix]
    · exact List.mem_append_right _ (ppiSlots_sub p h)
    · omega
  · refine ⟨by rw [withRefc_refc, incs_size]; exact hsz, ?_⟩
    intro x hx
    rw [withRefc_refc, incs_getD _ _ _ (by rw [hsz]; exact hx), hrc x hx, List.drop_zero]
    cases hpx : pinnedM p x with
    | false => simp only [Bool.false_eq_true, if_false]; omega
    | true =>
      have := List.count_pos_iff.mpr (pinned_mem_prePins p hpx)
      simp only [if_true]
      omega

end KV
