import KyupyVerif.Proofs.Substitute3
/-! Helper lemmas for C10 (`resolve_tlib_cells`): the kinds of the port nodes are kept by `substitute` (so a port never
becomes a library cell), ports through the whole loop. -/
namespace KV.Transform
open KV

/-- kinds of the port nodes, in port order -/
def ioKinds (nn : NNet) : List String := nn.net.io.map (kindAt nn.net.nodes)

theorem ik_pinsOnly (a b : NNet) (hp : PinsOnly a.net b.net) : ioKinds b = ioKinds a := by
  simp only [ioKinds, hp.2]
  apply List.map_congr_left; intro j _; exact hp.1.2 j

theorem ik_addNode (h h' : NNet) (name kind : String) (he : addNode h name kind = some h') (li : LI h) : ioKinds h' = ioKinds h := by
  unfold addNode at he
  split at he
  · exact absurd he (by simp)
  · cases he
    simp only [ioKinds]
    apply List.map_congr_left
    intro j hj
    rw [kindAt_push]
    simp [li.2 j hj]

theorem ik_delNode (nn : NNet) (i : Nat) (li : LI nn) (hi : i < nn.net.nodes.size) (hio : nn.net.io.contains i = false) :
    ioKinds (delNode nn i) = ioKinds nn := by
  have hne : ∀ j ∈ nn.net.io, j ≠ i := by
    intro j hj e; subst e
    have : nn.net.io.contains j = true := by simpa using hj
    rw [hio] at this; exact absurd this (by simp)
  simp only [ioKinds]
  have hioeq : (delNode nn i).net.io = nn.net.io.map fun j => if j == nn.net.nodes.size - 1 then i else j := rfl
  rw [hioeq, List.map_map]
  apply List.map_congr_left
  intro j hj
  have hj' := li.2 j hj
  have hn := hne j hj
  simp only [Function.comp]
  have hlt : (if (j == nn.net.nodes.size - 1) = true then i else j) < nn.net.nodes.size - 1 := by
    by_cases e : j = nn.net.nodes.size - 1
    · simp [e]; omega
    · simp [e]; omega
  rw [delNode_kindAt nn i _ hi hlt]
  by_cases e : j = nn.net.nodes.size - 1
  · simp [e]
  · simp [e, hn]

theorem ik_removeDangling : ∀ (fuel : Nat) (nn : NNet) (own : List Nat) (stack : List (Option Nat)) (nn' : NNet),
    LI nn → (∀ x ∈ own, x < nn.net.nodes.size) → removeDangling fuel nn own stack = some nn' → ioKinds nn' = ioKinds nn
  | 0, _, _, _, _, _, _, h => by simp [removeDangling] at h
  | fuel + 1, nn, own, [], nn', _, _, h => by
    simp only [removeDangling] at h
    cases h; rfl
  | fuel + 1, nn, own, none :: rest, nn', li, ho, h => by
    simp only [removeDangling] at h
    exact ik_removeDangling fuel nn own rest nn' li ho h
  | fuel + 1, nn, own, some root :: rest, nn', li, ho, h => by
    simp only [removeDangling] at h
    split at h
    · exact ik_removeDangling fuel nn own rest nn' li ho h
    · split at h
      · exact ik_removeDangling fuel nn own rest nn' li ho h
      · rename_i hio
        split at h
        · exact ik_removeDangling fuel nn own rest nn' li ho h
        · split at h
          · exact ik_removeDangling fuel nn own rest nn' li ho h
          · rename_i hown
            split at h
            · exact absurd h (by simp)
            · rename_i net1 h1
              have hown' : root ∈ own := by simpa using hown
              have hr : root < nn.net.nodes.size := ho root hown'
              have hio' : nn.net.io.contains root = false := by simpa using hio
              have po := pinsOnly_removeLines _ _ _ _ h1
              have ob := obs_of_pinsOnly nn { nn with net := net1 } po rfl
              have li1 := ob.2.2 li
              have hr1 : root < ({ nn with net := net1 } : NNet).net.nodes.size := by rw [po.1.1]; exact hr
              have hio1 : ({ nn with net := net1 } : NNet).net.io.contains root = false := by rw [po.2]; exact hio'
              have dl := delNode_obs { nn with net := net1 } root li1 hr1 hio1
              have ho2 : ∀ x ∈ own.filterMap (fun x => mvNode nn.net.nodes.size root (some x)),
                  x < (delNode { nn with net := net1 } root).net.nodes.size := by
                intro x hx
                rw [List.mem_filterMap] at hx
                obtain ⟨y, hy, e⟩ := hx
                have hy' := ho y hy
                have hs : (delNode { nn with net := net1 } root).net.nodes.size = nn.net.nodes.size - 1 := by
                  simp [delNode, po.1.1]
                rw [hs]
                simp only [mvNode, beq_iff_eq, Option.some.injEq] at e
                split at e
                · exact absurd e (by simp)
                · split at e
                  · cases e; omega
                  · cases e; omega
              have ih := ik_removeDangling fuel _ _ _ nn' dl.1 ho2 h
              rw [ih, ik_delNode _ root li1 hr1 hio1]
              exact ik_pinsOnly nn { nn with net := net1 } po

theorem ik_addImplNode (m : NNet) (hn : String) (des : Option Nat) (st st' : NNet × Array (Option Nat)) (j : Nat)
    (he : addImplNode m hn des st j = some st') (li : LI st.1) : ioKinds st'.1 = ioKinds st.1 := by
  have hadd : ∀ kind, (addNode st.1 (hn ++ "~" ++ m.names.getD j "") kind).map
        (fun h' => (h', st.2.setIfInBounds j (some st.1.net.nodes.size))) = some st' → ioKinds st'.1 = ioKinds st.1 := by
    intro kind h
    simp only [Option.map_eq_some_iff] at h
    obtain ⟨h', h1, e⟩ := h
    subst e
    exact ik_addNode st.1 h' _ kind h1 li
  have hsame : some st = some st' → ioKinds st'.1 = ioKinds st.1 := by intro h; cases h; rfl
  unfold addImplNode at he
  dsimp only at he
  split at he
  · split at he
    · exact hadd _ he
    · exact hsame he
  · split at he
    · exact hadd _ he
    · split at he
      · exact hadd _ he
      · exact hsame he

theorem ik_foldlM (m : NNet) (hn : String) (des : Option Nat) :
    ∀ (js : List Nat) (st st' : NNet × Array (Option Nat)), js.foldlM (addImplNode m hn des) st = some st' →
    LI st.1 → MapLt st.2 st.1.net.nodes.size → ioKinds st'.1 = ioKinds st.1
  | [], st, st', h, _, _ => by
    simp only [List.foldlM_nil] at h
    cases (Option.some.inj h); rfl
  | j :: js, st, st', h, li, hm => by
    simp only [List.foldlM_cons, Option.bind_eq_bind, Option.bind_eq_some_iff] at h
    obtain ⟨s1, h1, h2⟩ := h
    have o1 := addImplNode_obs m hn des st s1 j h1 li hm
    rw [ik_foldlM m hn des js s1 st' h2 o1.2.2.1 o1.2.2.2.2.2, ik_addImplNode m hn des st s1 j h1 li]

theorem ik_phase1 (h : NNet) (c : Nat) (m : NNet) (des : Option Nat) (li : LI h) (hc : c < h.net.nodes.size)
    (hio : h.net.io.contains c = false) : ioKinds (phase1 h c m des).1 = ioKinds h := by
  cases des with
  | none => exact ik_delNode h c li hc hio
  | some dn =>
    simp only [phase1, ioKinds]
    apply List.map_congr_left
    intro j hj
    rw [kindAt_modify_const]
    have : j ≠ c := by
      intro e; subst e
      have : h.net.io.contains j = true := by simpa using hj
      rw [hio] at this; exact absurd this (by simp)
    simp [this]

/-- `substitute` keeps the kinds of the port nodes -/
theorem ik_substitute (h : NNet) (c : Nat) (m h' : NNet) (li : LI h) (hc : c < h.net.nodes.size)
    (hio : h.net.io.contains c = false) (he : substitute h c m = some h') : ioKinds h' = ioKinds h := by
  obtain ⟨sh, h5, map, dang, hs, hcore, _, _, li5, _, _, _, _⟩ := substitute_obs h c m h' li hc hio he
  have p1 : LI (phase1 h c m sh.des).1 ∧ MapLt (phase1 h c m sh.des).2 (phase1 h c m sh.des).1.net.nodes.size := by
    cases hd : sh.des with
    | none => have := phase1_none_obs h c m li hc hio; exact ⟨this.2.2.1, this.2.2.2⟩
    | some dn => have := phase1_some_obs h c m dn li hc; exact ⟨this.2.2.1, this.2.2.2⟩
  obtain ⟨h2, net4, ren, net5, _, _, hfold, hci, hco, e⟩ := substituteCore_inv h c m sh hs h5 map dang hcore
  have o := foldlM_addImplNode_obs m _ sh.des _ _ _ hfold p1.1 p1.2
  have p3 := pinsOnly_phase3 m map h2
  have p4 := pinsOnly_connectIns m map _ _ _ hci
  have p5 := pinsOnly_connectOuts m map _ _ _ hco
  have po : PinsOnly h2.net h5.net := by subst e; exact p3.trans (p4.trans p5)
  have ho : ∀ x ∈ map.toList.filterMap id, x < h5.net.nodes.size := by
    intro x hx
    obtain ⟨k, hk⟩ := mem_map_values map x hx
    rw [po.1.1]; exact o.2.2.2.2.2 k x hk
  have he' : removeDangling (dang.length + h5.net.lines.size + 1) { h5 with net := densify h5.net map }
      (map.toList.filterMap id) dang = some h' := by
    unfold substitute at he
    rw [hcore] at he
    exact he
  have pd := pinsOnly_densify h5.net map
  have od := obs_of_pinsOnly h5 { h5 with net := densify h5.net map } pd rfl
  have hod : ∀ x ∈ map.toList.filterMap id, x < ({ h5 with net := densify h5.net map } : NNet).net.nodes.size := by
    intro x hx
    show x < (densify h5.net map).nodes.size
    rw [pd.1.1]; exact ho x hx
  rw [ik_removeDangling _ { h5 with net := densify h5.net map } _ dang h' (od.2.2 li5) hod he',
    ik_pinsOnly h5 { h5 with net := densify h5.net map } pd, ik_pinsOnly h2 h5 po, ik_foldlM m _ sh.des _ _ _ hfold p1.1 p1.2,
    ik_phase1 h c m sh.des li hc hio]

/-- the loop of `resolve_tlib_cells`: ports keep names, order and kinds when no port is itself a library cell -/
theorem resolve_fold (lib : Lib) : ∀ (keys : List (String × Bool)) (h h' : NNet), keys.foldlM (resolveStep lib) h = some h' →
    LI h → (∀ k ∈ ioKinds h, lib.find k = none) → h'.ioNames = h.ioNames ∧ ioKinds h' = ioKinds h ∧ LI h'
  | [], h, h', he, li, _ => by
    simp only [List.foldlM_nil] at he
    cases (Option.some.inj he); exact ⟨rfl, rfl, li⟩
  | key :: keys, h, h', he, li, hk => by
    simp only [List.foldlM_cons, Option.bind_eq_bind, Option.bind_eq_some_iff] at he
    obtain ⟨s1, h1, h2⟩ := he
    have step : s1.ioNames = h.ioNames ∧ ioKinds s1 = ioKinds h ∧ LI s1 := by
      unfold resolveStep at h1
      dsimp only at h1
      split at h1
      · rename_i hlt
        split at h1
        · rename_i impl hf
          have hio : h.net.io.contains (h.lookup key) = false := by
            cases hc : h.net.io.contains (h.lookup key) with
            | false => rfl
            | true =>
              have hmem : h.lookup key ∈ h.net.io := by simpa using hc
              have : kindAt h.net.nodes (h.lookup key) ∈ ioKinds h := List.mem_map.mpr ⟨_, hmem, rfl⟩
              have hn := hk _ this
              simp only [kindAt] at hn
              simp only [Net.node] at hf
              rw [hn] at hf; exact absurd hf (by simp)
          obtain ⟨_, _, _, _, _, _, r, liS, _⟩ := substitute_obs h _ impl s1 li hlt hio h1
          exact ⟨r, ik_substitute h _ impl s1 li hlt hio h1, liS⟩
        · cases h1; exact ⟨rfl, rfl, li⟩
      · cases h1; exact ⟨rfl, rfl, li⟩
    have ih := resolve_fold lib keys s1 h' h2 step.2.2 (by rw [step.2.1]; exact hk)
    exact ⟨ih.1.trans step.1, ih.2.1.trans step.2.1, ih.2.2⟩

end KV.Transform
