import KyupyVerif.Model.CircObj
/-! Helper lemmas for C09 (object-level circuit model): pin lists, IndexList deletion, dictionaries. -/
namespace KV.CircObj

/-! ## pin lists -/

theorem pin_eq_some_lt {l : Pins} {j x : Nat} (h : pin l j = some x) : j < l.length := by
  unfold pin at h
  by_cases hj : j < l.length
  · exact hj
  · simp [List.getD_eq_getElem?_getD, List.getElem?_eq_none (by omega : l.length ≤ j)] at h

theorem pin_growSet (l : Pins) (i : Nat) (v : Option Nat) (j : Nat) :
    pin (growSet l i v) j = if j = i then v else pin l j := by
  unfold pin growSet
  simp only [List.getD_eq_getElem?_getD]
  split
  · grind
  · grind

theorem length_growSet (l : Pins) (i : Nat) (v : Option Nat) :
    (growSet l i v).length = max l.length (i + 1) := by
  unfold growSet; split <;> simp <;> omega

theorem freeIndex_le (l : Pins) : freeIndex l ≤ l.length := by
  unfold freeIndex; exact List.findIdx_le_length

theorem pin_freeIndex (l : Pins) : pin l (freeIndex l) = none := by
  unfold pin freeIndex
  simp only [List.getD_eq_getElem?_getD]
  by_cases h : l.findIdx (·.isNone) < l.length
  · have := List.findIdx_getElem (w := h)
    rw [List.getElem?_eq_getElem h]
    cases hx : l[l.findIdx (·.isNone)] <;> simp_all
  · rw [List.getElem?_eq_none (by omega)]; rfl


/-! ## IndexList.__delitem__: swap-with-last deletion keeps "index = position" -/

theorem idx_inj {l : List Nat} {idx : Nat → Nat} (hidx : ∀ p (h : p < l.length), idx l[p] = p)
    {p q : Nat} (hp : p < l.length) (hq : q < l.length) (h : l[p] = l[q]) : p = q := by
  have h1 := hidx p hp; have h2 := hidx q hq; rw [h] at h1; omega

theorem idxDel_spec (l : List Nat) (idx : Nat → Nat) (hidx : ∀ p (h : p < l.length), idx l[p] = p)
    (k : Nat) (hk : k < l.length) :
    (∀ p (h : p < (idxDel l k).1.length),
        (if (idxDel l k).2 = some (idxDel l k).1[p] then k else idx (idxDel l k).1[p]) = p) ∧
    (∀ j, j ∈ (idxDel l k).1 ↔ j ∈ l ∧ j ≠ l[k]) ∧
    (∀ m, (idxDel l k).2 = some m → m ∈ l ∧ m ≠ l[k]) := by
  have inj := @idx_inj l idx hidx
  unfold idxDel
  by_cases hlast : k + 1 = l.length
  · simp only [hlast, if_true]
    refine ⟨?_, ?_, ?_⟩
    · intro p hp
      simp at hp
      simp [List.getElem_dropLast]
      exact hidx p (by omega)
    · intro j
      simp only [List.mem_iff_getElem, List.length_dropLast, List.getElem_dropLast]
      constructor
      · rintro ⟨p, hp, rfl⟩
        exact ⟨⟨p, by omega, rfl⟩, fun h => by have := inj (by omega) hk h; omega⟩
      · rintro ⟨⟨p, hp, rfl⟩, hne⟩
        refine ⟨p, ?_, rfl⟩
        by_cases hpk : p = k
        · subst hpk; exact absurd rfl hne
        · omega
    · simp
  · simp only [hlast, if_false]
    have hne : l ≠ [] := by intro h; simp [h] at hk
    have hl : l.getLast? = some (l[l.length - 1]'(by omega)) := by
      rw [List.getLast?_eq_getElem?]; exact List.getElem?_eq_getElem (by omega)
    simp only [hl]
    have hget : ∀ p (h : p < (l.dropLast.set k (l[l.length - 1]'(by omega))).length),
        (l.dropLast.set k (l[l.length - 1]'(by omega)))[p] = if p = k then l[l.length - 1]'(by omega) else l[p]'(by simp at h; omega) := by
      intro p h
      simp [List.getElem_set, List.getElem_dropLast]
      grind
    refine ⟨?_, ?_, ?_⟩
    · intro p hp
      rw [hget p hp]
      simp at hp
      by_cases hpk : p = k
      · simp [hpk]
      · simp only [hpk, if_false]
        have : l[l.length - 1]'(by omega) ≠ l[p]'(by omega) := fun h => by
          have := inj (by omega) (by omega) h; omega
        simp [this]
        exact hidx p (by omega)
    · intro j
      constructor
      · intro hj
        obtain ⟨p, hp, rfl⟩ := List.mem_iff_getElem.1 hj
        rw [hget p hp]
        simp at hp
        by_cases hpk : p = k
        · simp only [hpk, if_true]
          exact ⟨List.getElem_mem _, fun h => by have := inj (by omega) hk h; omega⟩
        · simp only [hpk, if_false]
          exact ⟨List.getElem_mem _, fun h => hpk (inj (by omega) hk h)⟩
      · rintro ⟨hj, hne'⟩
        obtain ⟨q, hq, rfl⟩ := List.mem_iff_getElem.1 hj
        have hqk : q ≠ k := fun h => by subst h; exact hne' rfl
        apply List.mem_iff_getElem.2
        by_cases hql : q = l.length - 1
        · refine ⟨k, by simp; omega, ?_⟩
          rw [hget]; simp [hql]
        · refine ⟨q, by simp; omega, ?_⟩
          rw [hget]; simp [hqk]
    · intro m hm
      simp at hm
      subst hm
      exact ⟨List.getElem_mem _, fun h => by have := inj (by omega) hk h; omega⟩

theorem idxDel_length (l : List Nat) (k : Nat) (hk : k < l.length) : (idxDel l k).1.length = l.length - 1 := by
  unfold idxDel
  split
  · simp
  · cases h : l.getLast? with
    | none => simp [List.getLast?_eq_none_iff] at h; simp [h] at hk
    | some x => simp


/-! ## dictionaries -/

theorem mem_eraseKey {d : Dict} {k : String} {e : String × Nat} : e ∈ eraseKey d k ↔ e ∈ d ∧ e.1 ≠ k := by
  unfold eraseKey; simp

theorem keysNodup_eraseKey {d : Dict} (k : String) (h : keysNodup d) : keysNodup (eraseKey d k) := by
  unfold keysNodup eraseKey at *
  exact h.sublist (List.Sublist.map _ List.filter_sublist)

theorem hasKey_iff {d : Dict} {k : String} : hasKey d k = true ↔ ∃ v, (k, v) ∈ d := by
  unfold hasKey
  simp only [List.any_eq_true, beq_iff_eq]
  constructor
  · rintro ⟨⟨a, b⟩, h, rfl⟩; exact ⟨b, h⟩
  · rintro ⟨v, h⟩; exact ⟨(k, v), h, rfl⟩

theorem keysNodup_append {d : Dict} {k : String} {v : Nat} (h : keysNodup d) (hk : hasKey d k = false) :
    keysNodup (d ++ [(k, v)]) := by
  unfold keysNodup at *
  rw [List.map_append, List.nodup_append]
  refine ⟨h, by simp, ?_⟩
  intro a ha b hb
  simp at hb; subst hb
  intro hab; subst hab
  have : hasKey d a = true := by
    obtain ⟨e, he, rfl⟩ := List.mem_map.1 ha
    exact hasKey_iff.2 ⟨e.2, he⟩
  simp [this] at hk

theorem keys_unique {d : Dict} (h : keysNodup d) {k : String} {a b : Nat} (ha : (k, a) ∈ d) (hb : (k, b) ∈ d) : a = b := by
  unfold keysNodup at h
  induction d with
  | nil => simp at ha
  | cons e d ih =>
    simp only [List.map_cons, List.nodup_cons] at h
    simp only [List.mem_cons] at ha hb
    rcases ha with ha | ha <;> rcases hb with hb | hb
    · rw [← ha] at hb; exact (Prod.mk.inj hb).2.symm ▸ rfl
    · exfalso; apply h.1; rw [← ha]; exact List.mem_map.2 ⟨_, hb, rfl⟩
    · exfalso; apply h.1; rw [← hb]; exact List.mem_map.2 ⟨_, ha, rfl⟩
    · exact ih h.2 ha hb

theorem lookup_eq_some {d : Dict} (h : keysNodup d) {k : String} {v : Nat} : lookup d k = some v ↔ (k, v) ∈ d := by
  unfold lookup
  constructor
  · intro hl
    simp only [Option.map_eq_some_iff] at hl
    obtain ⟨e, he, rfl⟩ := hl
    have h1 := List.find?_some he
    have h2 := List.mem_of_find?_eq_some he
    simp at h1; subst h1; exact h2
  · intro hm
    cases hf : d.find? (·.1 == k) with
    | none =>
      have := List.find?_eq_none.1 hf _ hm
      simp at this
    | some e =>
      have h1 := List.find?_some hf
      have h2 := List.mem_of_find?_eq_some hf
      simp at h1
      have : (k, e.2) ∈ d := by rw [← h1]; exact h2
      simp [keys_unique h this hm]


end KV.CircObj
