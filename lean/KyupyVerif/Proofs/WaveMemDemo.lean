import KyupyVerif.Proofs.WaveMemCirc
import KyupyVerif.Gen.Tables
/-! A concrete instance for the non-vacuity examples of the memory-level theorems (C03, C04, C05, C13):
`o = INV1(AND2(a, b))` with a fork behind each input (the netlist of `C01.demoNet` / `C08.demoNet`), laid out as
`WaveSim(c_caps=4, c_reuse=True, strip_forks=True)` does: zero slot at 0, scratch slots at 4 and 8, input slots at 12 and
16, line 0 (and its stripped branch 2) at 20, line 1 (and branch 3) at 24, line 4 at 28, line 5 — re-using the region of
line 0 — and the output slot at 20. -/
namespace KV.Wave
open KV KV.Sig KV.MapSound

def memDemoNet : Net :=
  { nodes := #[⟨"input", [], [some 0]⟩, ⟨"__fork__", [some 0], [some 2]⟩, ⟨"input", [], [some 1]⟩, ⟨"__fork__", [some 1], [some 3]⟩,
               ⟨"AND2", [some 2, some 3], [some 4]⟩, ⟨"INV1", [some 4], [some 5]⟩, ⟨"output", [some 5], []⟩],
    lines := #[⟨0, 0, 1, 0⟩, ⟨2, 0, 3, 0⟩, ⟨1, 0, 4, 0⟩, ⟨3, 0, 4, 1⟩, ⟨4, 0, 5, 0⟩, ⟨5, 0, 6, 0⟩],
    io := [0, 2, 6] }
def memDemoOrder : List Nat := [0, 2, 1, 3, 4, 5, 6]

theorem memDemo_hyps : memDemoNet.wfB = true ∧ orderOKB memDemoNet memDemoOrder = true ∧
    forksOKB memDemoNet memDemoOrder = true ∧ readsDrivenB Gen.kindPrefixes memDemoNet memDemoOrder = true := by
  decide +kernel

def memDemo : MapIn := simopsMap Gen.kindPrefixes memDemoNet memDemoOrder true (fun _ => 4) 4 true

theorem memDemo_tables : memDemo.locs = #[20, 24, 20, 24, 28, 20, 0, 4, 8, 12, 16, -1, -1, -1, 20] ∧
    memDemo.caps = #[4, 4, 4, 4, 4, 4, 4, 4, 4, 4, 4, 0, 0, 0, 4] ∧ memDemo.ppiSlots = [9, 10] ∧
    memDemo.ppoSrcs = [(14, 5)] ∧ memDemo.starts = [0, 2, 3] ∧ memDemo.schedOKB [1, 0, 2, 3] = true := by decide +kernel

theorem memDemo_check : memDemo.check = none :=
  simopsMap_accepted Gen.kindPrefixes memDemoNet memDemoOrder true (fun _ => 4) 4 true memDemo_hyps.1
    memDemo_hyps.2.1 (fun _ => memDemo_hyps.2.2.1) memDemo_hyps.2.2.2 (by decide)

/-- initial memory: `a` rises at 5 (cell 12), `b` is constant 1 (`TMIN` in cell 16), everything else is `TMAX` -/
def memDemoM0 : Int → T := fun a => if a = 12 then T.fin 5 else if a = 16 then T.tmin else T.tmax
def memDemoDelay : Nat → Bool → Bool → Int := fun _ _ _ => 1
theorem memDemoDelay_nonneg : ∀ l a b, 0 ≤ memDemoDelay l a b := fun _ _ _ => (by decide : (0 : Int) ≤ 1)

theorem memDemo_inputs : ∀ x, x ∈ memDemo.ppiSlots ∨ x = memDemo.ix.zero →
    (rdWave (memDemo.loc x) (memDemo.cap x) memDemoM0).ok := by
  have h1 : memDemo.ppiSlots = [9, 10] := memDemo_tables.2.2.1
  have h2 : memDemo.ix.zero = 6 := rfl
  intro x hx
  rw [h1, h2] at hx
  simp only [List.mem_cons, List.not_mem_nil, or_false] at hx
  rcases hx with (rfl | rfl) | rfl <;> (simp only [Wv.ok, WfRem]; decide +kernel)

/-- the stimulus read off the initial memory: input slot 9 rises at 5, input slot 10 is constant 1 -/
theorem memDemo_env : inputEnv memDemo memDemoM0 9 = ⟨[T.fin 5], T.tmax⟩ ∧ inputEnv memDemo memDemoM0 10 = ⟨[T.tmin], T.tmax⟩ ∧
    inputEnv memDemo memDemoM0 6 = Wv.empty := by decide +kernel

/-- case analysis over the stimulus of the demo -/
theorem memDemo_env_cases (P : Nat → Wv → Prop) (h9 : P 9 ⟨[T.fin 5], T.tmax⟩) (h10 : P 10 ⟨[T.tmin], T.tmax⟩)
    (hrest : ∀ l, l ≠ 9 → l ≠ 10 → P l Wv.empty) : ∀ l, P l (inputEnv memDemo memDemoM0 l) := by
  intro l
  by_cases e9 : l = 9
  · subst e9; rw [memDemo_env.1]; exact h9
  · by_cases e10 : l = 10
    · subst e10; rw [memDemo_env.2.1]; exact h10
    · by_cases e6 : l = 6
      · subst e6; rw [memDemo_env.2.2]; exact hrest 6 (by decide) (by decide)
      · have : inputEnv memDemo memDemoM0 l = Wv.empty := by
          unfold inputEnv
          rw [memDemo_tables.2.2.1, if_neg]
          simp only [List.mem_cons, List.not_mem_nil, or_false]
          rintro ((h | h) | h)
          · exact e9 h
          · exact e10 h
          · exact e6 h
        rw [this]; exact hrest l e9 e10

/-- a propagation of the demo: the deterministic evaluator with arbitrary left-overs, the two input rows swapped -/
theorem memDemo_run (junk : Int → Nat → Wv → (Int → T) → Int → T) :
    WaveRun memDemo (wcfg memDemo memDemoDelay) (schedOps memDemo [1, 0, 2, 3]) memDemoM0
      (memRun memDemo (waveRW junk) (waveRow (wcfg memDemo memDemoDelay) memDemo) (schedOps memDemo [1, 0, 2, 3]) memDemoM0) :=
  wave_memRun_ok memDemo memDemo_check (by decide) memDemoDelay memDemoDelay_nonneg junk [1, 0, 2, 3]
    (schedOKB_sound _ _ memDemo_tables.2.2.2.2.2).1 memDemoM0 (inputEnv memDemo memDemoM0)
    (inputEnv_ok memDemo memDemoM0 memDemo_inputs) (inputEnv_h0 memDemo memDemoM0)

theorem memDemo_propagated (junk : Int → Nat → Wv → (Int → T) → Int → T) :
    Propagated memDemo memDemoDelay memDemoM0
      (memRun memDemo (waveRW junk) (waveRow (wcfg memDemo memDemoDelay) memDemo) (schedOps memDemo [1, 0, 2, 3]) memDemoM0) :=
  ⟨[1, 0, 2, 3], memDemo_tables.2.2.2.2.2, memDemo_run junk⟩

/-- the signal-level result for the captured line 5: initially 1, falls at 5 + 3 gate delays -/
theorem memDemo_sim : simWave (wcfg memDemo memDemoDelay) (waveProg memDemo) (inputEnv memDemo memDemoM0) 5 =
    ⟨[T.tmin, T.fin 8], T.tmax⟩ := by decide +kernel

end KV.Wave
