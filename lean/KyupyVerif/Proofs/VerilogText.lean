import KyupyVerif.Proofs.VerilogTextParse
/-! Round trip print → parse for the Verilog text model: the tokens of valid trees have texts (`modulesT_ok`), the canonical
layout is a layout (`layout_ok`), and the two halves (`lexes_render`, `parseChars_of_lexes`) combined (`parse_layout`,
`parse_print`). -/
namespace KV.VerilogText

/-! ## the tokens of valid trees have texts -/

def AllOK (l : List CT) : Prop := ∀ ct ∈ l, tokOK ct = true

theorem allOK_nil : AllOK [] := fun _ h => by cases h
theorem allOK_cons {ct : CT} {l : List CT} (h1 : tokOK ct = true) (h2 : AllOK l) : AllOK (ct :: l) := by
  intro x hx
  rcases List.mem_cons.mp hx with rfl | hx
  · exact h1
  · exact h2 x hx
theorem allOK_append {a b : List CT} (h1 : AllOK a) (h2 : AllOK b) : AllOK (a ++ b) := by
  intro x hx
  rcases List.mem_append.mp hx with hx | hx
  · exact h1 x hx
  · exact h2 x hx

theorem tokOK_nameTok (n : String) (hv : validName n = true) : tokOK (gt (nameTok n)) = true := by
  unfold nameTok
  split
  · next hp =>
    simp only [isPlainWord, Bool.or_eq_true, Bool.and_eq_true] at hp
    simp only [gt, tokOK, Bool.or_eq_true]
    rcases hp with hp | hp
    · exact Or.inl hp.1
    · exact Or.inr hp
  · exact hv

theorem tokOK_natT (k : Nat) : tokOK (natT k) = true := by
  simp only [natT, tokOK, Bool.and_eq_true, Bool.not_eq_true', List.isEmpty_eq_false_iff, List.all_eq_true]
  exact ⟨Nat.toDigits_ne_nil, fun c hc => Nat.isDigit_of_mem_toDigits (by decide) (by decide) hc⟩

theorem tokOK_gs (c : Char) (hc : isSym c = true) : tokOK (gs c) = true := hc

theorem rangeT_ok (rg : Range) : AllOK (rangeT rg) := by
  obtain ⟨l, r⟩ := rg
  cases r with
  | none => exact allOK_cons (by decide) (allOK_cons (tokOK_natT l) (allOK_cons (by decide) allOK_nil))
  | some r =>
    exact allOK_cons (by decide) (allOK_cons (tokOK_natT l) (allOK_cons (by decide) (allOK_cons (tokOK_natT r)
      (allOK_cons (by decide) allOK_nil))))

theorem rangeOptT_ok (rg : Option Range) : AllOK (rangeOptT rg) := by
  cases rg with
  | none => exact allOK_nil
  | some rg => exact rangeT_ok rg

theorem namesTailT_ok (e : Char) (he : isSym e = true) (ns : List String) (hv : ns.all validName = true) :
    AllOK (namesTailT e ns) := by
  induction ns with
  | nil => exact allOK_cons he allOK_nil
  | cons n ns ih =>
    simp only [List.all_cons, Bool.and_eq_true] at hv
    exact allOK_cons (by decide) (allOK_cons (tokOK_nameTok n hv.1) (ih hv.2))

theorem namesT_ok (e : Char) (he : isSym e = true) (ns : List String) (hv : ns.all validName = true) :
    AllOK (namesT e ns) := by
  cases ns with
  | nil => exact allOK_cons he allOK_nil
  | cons n ns =>
    simp only [List.all_cons, Bool.and_eq_true] at hv
    exact allOK_cons (tokOK_nameTok n hv.1) (namesTailT_ok e he ns hv.2)

mutual
theorem selT_ok : ∀ (x : VSel), validSel x = true → AllOK (selT x)
  | .sig n r, hv => by
    simp only [selT]
    exact allOK_cons (tokOK_nameTok n hv) (rangeOptT_ok r)
  | .cat items, hv => by
    simp only [validSel, Bool.and_eq_true] at hv
    simp only [selT]
    exact allOK_cons (by decide) (selsT_ok items hv.1)
theorem selsT_ok : ∀ (xs : List VSel), validSels xs = true → AllOK (selsT xs)
  | [], _ => by simp only [selsT]; exact allOK_cons (by decide) allOK_nil
  | x :: r, hv => by
    simp only [validSels, Bool.and_eq_true] at hv
    simp only [selsT]
    exact allOK_append (selT_ok x hv.1) (selsTailT_ok r hv.2)
theorem selsTailT_ok : ∀ (xs : List VSel), validSels xs = true → AllOK (selsTailT xs)
  | [], _ => by simp only [selsTailT]; exact allOK_cons (by decide) allOK_nil
  | x :: r, hv => by
    simp only [validSels, Bool.and_eq_true] at hv
    simp only [selsTailT]
    exact allOK_cons (by decide) (allOK_append (selT_ok x hv.1) (selsTailT_ok r hv.2))
end

theorem pinT_ok (p : VPin) (hv : validPin p = true) : AllOK (pinT p) := by
  cases p with
  | named n o =>
    cases o with
    | none =>
      exact allOK_cons (by decide) (allOK_cons (tokOK_nameTok n hv) (allOK_cons (by decide) (allOK_cons (by decide) allOK_nil)))
    | some x =>
      simp only [validPin, Bool.and_eq_true] at hv
      exact allOK_cons (by decide) (allOK_cons (tokOK_nameTok n hv.1) (allOK_cons (by decide)
        (allOK_append (selT_ok x hv.2) (allOK_cons (by decide) allOK_nil))))
  | pos x => exact selT_ok x hv

theorem pinsTailT_ok (ps : List VPin) (hv : ps.all validPin = true) : AllOK (pinsTailT ps) := by
  induction ps with
  | nil => exact allOK_cons (by decide) allOK_nil
  | cons p ps ih =>
    simp only [List.all_cons, Bool.and_eq_true] at hv
    exact allOK_cons (by decide) (allOK_append (pinT_ok p hv.1) (ih hv.2))

theorem pinsT_ok (ps : List VPin) (hv : ps.all validPin = true) : AllOK (pinsT ps) := by
  cases ps with
  | nil => exact allOK_cons (by decide) allOK_nil
  | cons p ps =>
    simp only [List.all_cons, Bool.and_eq_true] at hv
    exact allOK_append (pinT_ok p hv.1) (pinsTailT_ok ps hv.2)

theorem stmtT_ok (st : VStmt) (hv : validStmt st = true) : AllOK (stmtT st) := by
  cases st with
  | decl k rg ns =>
    simp only [validStmt, Bool.and_eq_true] at hv
    exact allOK_cons (by cases k <;> decide) (allOK_append (rangeOptT_ok rg) (namesT_ok ';' (by decide) ns hv.1))
  | assign t x =>
    simp only [validStmt, Bool.and_eq_true] at hv
    exact allOK_cons (by decide) (allOK_append (selT_ok t hv.1) (allOK_cons (by decide)
      (allOK_append (selT_ok x hv.2) (allOK_cons (by decide) allOK_nil))))
  | inst ty nm pins =>
    simp only [validStmt, Bool.and_eq_true] at hv
    exact allOK_cons (tokOK_nameTok ty hv.1.1) (allOK_cons (tokOK_nameTok nm hv.1.2) (allOK_cons (by decide)
      (allOK_append (pinsT_ok pins hv.2) (allOK_cons (by decide) allOK_nil))))

theorem stmtsT_ok (sts : List VStmt) (hv : sts.all validStmt = true) : AllOK (stmtsT sts) := by
  induction sts with
  | nil => exact allOK_cons (by decide) allOK_nil
  | cons st sts ih =>
    simp only [List.all_cons, Bool.and_eq_true] at hv
    exact allOK_append (stmtT_ok st hv.1) (ih hv.2)

theorem moduleT_ok (m : VModule) (hv : validModule m = true) : AllOK (moduleT m) := by
  simp only [validModule, Bool.and_eq_true] at hv
  exact allOK_cons (by decide) (allOK_cons (tokOK_nameTok m.name hv.1.1) (allOK_cons (by decide)
    (allOK_append (namesT_ok ')' (by decide) m.ports hv.1.2) (allOK_cons (by decide) (stmtsT_ok m.stmts hv.2)))))

theorem modulesT_ok (ms : List VModule) (hv : ms.all validModule = true) : AllOK (modulesT ms) := by
  induction ms with
  | nil => exact allOK_nil
  | cons m ms ih =>
    simp only [List.all_cons, Bool.and_eq_true] at hv
    exact allOK_append (moduleT_ok m hv.1) (ih hv.2)

/-! ## the canonical layout is a layout -/

theorem not_idChar_of_sym (c : Char) (hs : isSym c = true) : isIdChar c = false := by
  simp only [isSym, Bool.or_eq_true, beq_iff_eq] at hs
  rcases hs with (((((((((h | h) | h) | h) | h) | h) | h) | h) | h) | h) | h <;> subst h <;> decide

/-- no token starts with `*` -/
theorem tokText_head_ne_star (ct : CT) (y : List Char) (hok : tokOK ct = true) :
    headNot (· == '*') (tokText ct.2 ++ y) = true := by
  obtain ⟨c, t⟩ := ct
  cases t with
  | word w =>
    cases c <;> first | (exfalso; simp [tokOK] at hok; done) | skip
    simp only [tokOK, Bool.or_eq_true] at hok
    rcases hok with hw | hw
    · cases w with
      | nil => simp [isIdentWord] at hw
      | cons d r =>
        simp only [isIdentWord, Bool.and_eq_true] at hw
        simp only [tokText, List.cons_append, headNot, beq_false_of_pred isIdStart hw.1 (d := '*') (by decide), Bool.not_false]
    · obtain ⟨d, ds, b, h, hs, rfl, hd, -⟩ := constWord_parts w hw
      simp only [tokText, List.cons_append, headNot, beq_false_of_pred Char.isDigit hd (d := '*') (by decide), Bool.not_false]
  | esc s => rfl
  | num ds =>
    cases c <;> first | (exfalso; simp [tokOK] at hok; done) | skip
    simp only [tokOK, Bool.and_eq_true, Bool.not_eq_true'] at hok
    cases ds with
    | nil => simp at hok
    | cons d r =>
      simp only [List.all_cons, Bool.and_eq_true] at hok
      simp only [tokText, List.cons_append, headNot, beq_false_of_pred Char.isDigit hok.2.1 (d := '*') (by decide), Bool.not_false]
  | sym d =>
    cases c <;> first | (exfalso; simp [tokOK] at hok; done) | skip
    simp only [tokText, List.cons_append, List.nil_append, headNot, beq_false_of_pred isSym hok (d := '*') (by decide), Bool.not_false]
  | modkw => rfl
  | eof => cases c <;> simp [tokOK] at hok

theorem tightAfter_sym (t : Tok) (h : tightAfter t = true) : ∃ c, t = .sym c := by
  cases t with
  | sym c => exact ⟨c, rfl⟩
  | _ => simp [tightAfter] at h

theorem tightBefore_sym (t : Tok) (h : tightBefore t = true) : ∃ c, t = .sym c := by
  cases t with
  | sym c => exact ⟨c, rfl⟩
  | _ => simp [tightBefore] at h

/-- the canonical gap is empty, one blank or one line break; empty only next to a one-character literal -/
theorem gapAfter_cases (t t' : Tok) :
    gapAfter t (some t') = [' '] ∨ gapAfter t (some t') = ['\n'] ∨
    (gapAfter t (some t') = [] ∧ (∀ s, t ≠ .esc s) ∧ ((∃ c, t = .sym c) ∨ (∃ c, t' = .sym c))) := by
  cases t with
  | esc s => exact Or.inl rfl
  | word w =>
    simp only [gapAfter]
    split
    · exact Or.inr (Or.inl rfl)
    · split
      · next h => exact absurd h (by simp [tightAfter])
      · split
        · next h =>
          simp only [beq_iff_eq] at h
          split
          · exact Or.inl rfl
          · exact Or.inr (Or.inr ⟨rfl, (fun _ hh => nomatch hh), Or.inr ⟨'[', h⟩⟩)
        · split
          · next h => exact Or.inr (Or.inr ⟨rfl, (fun _ hh => nomatch hh), Or.inr (tightBefore_sym t' h)⟩)
          · exact Or.inl rfl
  | num w =>
    simp only [gapAfter]
    split
    · exact Or.inr (Or.inl rfl)
    · split
      · next h => exact absurd h (by simp [tightAfter])
      · split
        · next h =>
          simp only [beq_iff_eq] at h
          exact Or.inr (Or.inr ⟨rfl, (fun _ hh => nomatch hh), Or.inr ⟨'[', h⟩⟩)
        · split
          · next h => exact Or.inr (Or.inr ⟨rfl, (fun _ hh => nomatch hh), Or.inr (tightBefore_sym t' h)⟩)
          · exact Or.inl rfl
  | sym c =>
    simp only [gapAfter]
    split
    · exact Or.inr (Or.inl rfl)
    · split
      · exact Or.inr (Or.inr ⟨rfl, (fun _ hh => nomatch hh), Or.inl ⟨c, rfl⟩⟩)
      · split
        · exact Or.inr (Or.inr ⟨rfl, (fun _ hh => nomatch hh), Or.inl ⟨c, rfl⟩⟩)
        · split
          · exact Or.inr (Or.inr ⟨rfl, (fun _ hh => nomatch hh), Or.inl ⟨c, rfl⟩⟩)
          · exact Or.inl rfl
  | modkw =>
    simp only [gapAfter]
    split
    · exact Or.inr (Or.inl rfl)
    · split
      · next h => exact absurd h (by simp [tightAfter])
      · split
        · next h =>
          simp only [beq_iff_eq] at h
          exact Or.inr (Or.inr ⟨rfl, (fun _ hh => nomatch hh), Or.inr ⟨'[', h⟩⟩)
        · split
          · next h => exact Or.inr (Or.inr ⟨rfl, (fun _ hh => nomatch hh), Or.inr (tightBefore_sym t' h)⟩)
          · exact Or.inl rfl
  | eof =>
    simp only [gapAfter]
    split
    · exact Or.inr (Or.inl rfl)
    · split
      · next h => exact absurd h (by simp [tightAfter])
      · split
        · next h =>
          simp only [beq_iff_eq] at h
          exact Or.inr (Or.inr ⟨rfl, (fun _ hh => nomatch hh), Or.inr ⟨'[', h⟩⟩)
        · split
          · next h => exact Or.inr (Or.inr ⟨rfl, (fun _ hh => nomatch hh), Or.inr (tightBefore_sym t' h)⟩)
          · exact Or.inl rfl

theorem headNot_of_blank (p : Char → Bool) (y : List Char) (hp : p ' ' = false) : headNot p (' ' :: y) = true := by
  simp [headNot, hp]

/-- the canonical gap between two tokens is a valid gap -/
theorem gapOK_canon (ct ct' : CT) (y : List Char) (hok : tokOK ct = true) (hok' : tokOK ct' = true) :
    gapOK ct.2 (gapAfter ct.2 (some ct'.2)) (tokText ct'.2 ++ y) = true := by
  obtain ⟨c, t⟩ := ct
  obtain ⟨c', t'⟩ := ct'
  simp only
  have hstar := tokText_head_ne_star (c', t') y hok'
  simp only at hstar
  rcases gapAfter_cases t t' with hg | hg | ⟨hg, hne, hsym⟩
  · rw [hg]
    cases t with
    | esc s => rfl
    | word w => simp [gapOK, gapV, headNot]; decide
    | num w => simp [gapOK, gapV, headNot]; decide
    | sym d => simp [gapOK, gapV, headNot]
    | modkw => rfl
    | eof => cases c <;> simp [tokOK] at hok
  · rw [hg]
    cases t with
    | esc s => exact absurd hg (by simp [gapAfter])
    | word w => simp [gapOK, gapV, headNot]; decide
    | num w => simp [gapOK, gapV, headNot]; decide
    | sym d => simp [gapOK, gapV, headNot]
    | modkw => rfl
    | eof => cases c <;> simp [tokOK] at hok
  · rw [hg]
    cases t with
    | esc s => exact absurd rfl (hne s)
    | eof => cases c <;> simp [tokOK] at hok
    | modkw => rfl
    | sym d =>
      simp only [gapOK, gapV, List.nil_append, Bool.true_and, Bool.or_eq_true, bne_iff_ne, ne_eq]
      exact Or.inr hstar
    | word w =>
      rcases hsym with ⟨d, hd⟩ | ⟨d, hd⟩
      · cases hd
      · subst hd
        have hs : isSym d = true := by cases c' <;> first | (exfalso; simp [tokOK] at hok'; done) | exact hok'
        simp only [gapOK, gapV, List.nil_append, Bool.true_and, tokText, List.cons_append, headNot, not_idChar_of_sym d hs,
          Bool.not_false]
    | num w =>
      rcases hsym with ⟨d, hd⟩ | ⟨d, hd⟩
      · cases hd
      · subst hd
        have hs : isSym d = true := by cases c' <;> first | (exfalso; simp [tokOK] at hok'; done) | exact hok'
        simp only [gapOK, gapV, List.nil_append, Bool.true_and, tokText, List.cons_append, headNot, not_idChar_of_sym d hs,
          Bool.not_false]

/-- the canonical gap behind the last token -/
theorem gapOK_last (ct : CT) (hok : tokOK ct = true) : gapOK ct.2 (gapAfter ct.2 none) [] = true := by
  obtain ⟨c, t⟩ := ct
  cases t with
  | esc s => rfl
  | word w => simp [gapOK, gapAfter, gapV, headNot]; decide
  | num w => simp [gapOK, gapAfter, gapV, headNot]; decide
  | sym d => simp [gapOK, gapAfter, gapV, headNot]
  | modkw => rfl
  | eof => cases c <;> simp [tokOK] at hok

theorem renderL_layout_cons (ct : CT) (r : List CT) : ∃ y, renderL (layout (ct :: r)) = tokText ct.2 ++ y := by
  cases r with
  | nil => exact ⟨gapAfter ct.2 none ++ [], by simp only [layout, renderL]⟩
  | cons ct' r' => exact ⟨gapAfter ct.2 (some ct'.2) ++ renderL (layout (ct' :: r')), by simp only [layout, renderL]⟩

theorem layout_ok (l : List CT) (hok : AllOK l) : layoutOK (layout l) = true := by
  fun_induction layout l with
  | case1 => rfl
  | case2 ct =>
    simp only [layoutOK, renderL, Bool.and_true]
    exact gapOK_last ct (hok ct List.mem_cons_self)
  | case3 ct ct' r ih =>
    have h1 := hok ct List.mem_cons_self
    have h2 := hok ct' (List.mem_cons_of_mem _ List.mem_cons_self)
    obtain ⟨y, hy⟩ := renderL_layout_cons ct' r
    simp only [layoutOK, Bool.and_eq_true]
    refine ⟨?_, ih (fun x hx => hok x (List.mem_cons_of_mem _ hx))⟩
    rw [hy]
    exact gapOK_canon ct ct' y h1 h2

theorem layout_map_fst (l : List CT) : (layout l).map (·.1) = l := by
  fun_induction layout l with
  | case1 => rfl
  | case2 ct => rfl
  | case3 ct ct' r ih => simp only [List.map_cons, ih]

/-! ## the round trip -/

/-- every layout of the token stream of a valid module list parses to that module list -/
theorem parse_layout (ms : List VModule) (hv : ms.all validModule = true) (g0 : List Char)
    (l : List (CT × List Char)) (hl : l.map (·.1) = modulesT ms) (hg0 : gapV .ws g0 = true)
    (hlay : layoutOK l = true) : parseChars (g0 ++ renderL l) = some ms := by
  apply parseChars_of_lexes ms _ hv
  rw [← hl]
  refine lexes_render l g0 hg0 (fun p hp => modulesT_ok ms hv p.1 ?_) hlay
  rw [← hl]; exact List.mem_map_of_mem hp

theorem parse_print (ms : List VModule) (hv : ms.all validModule = true) : parseVerilog (printVerilog ms) = some ms := by
  simp only [parseVerilog, printVerilog, String.toList_ofList]
  exact parse_layout ms hv [] (layout (modulesT ms)) (layout_map_fst _) rfl (layout_ok _ (modulesT_ok ms hv))

/-! ## token classes: every spelling of every token (audit finding 10(a)) -/

theorem notEscTerm_of_pred (p : Char → Bool) (c : Char) (hc : p c = true) (h1 : p '\t' = false) (h2 : p ' ' = false)
    (h3 : p '\r' = false) (h4 : p '\n' = false) : notEscTerm c = true := by
  simp only [notEscTerm, isEscTerm, beq_false_of_pred p hc h1, beq_false_of_pred p hc h2, beq_false_of_pred p hc h3,
    beq_false_of_pred p hc h4, Bool.or_self, Bool.not_false]

theorem notEscTerm_idChar (c : Char) (hc : isIdChar c = true) : notEscTerm c = true :=
  notEscTerm_of_pred isIdChar c hc (by decide) (by decide) (by decide) (by decide)

theorem isIdChar_of_idStart (c : Char) (h : isIdStart c = true) : isIdChar c = true := by
  simp only [isIdStart, Bool.or_eq_true] at h
  simp only [isIdChar, Bool.or_eq_true]
  rcases h with h | h
  · exact Or.inl (Or.inl h)
  · exact Or.inr h

theorem isIdChar_of_base (c : Char) (h : isBase c = true) : isIdChar c = true := by
  simp only [isBase, Bool.or_eq_true, beq_iff_eq] at h
  rcases h with ((((h | h) | h) | h) | h) | h <;> subst h <;> decide

/-- a word that can be lexed can be written as escaped identifier -/
theorem tokOK_esc_of_word (w : List Char) (h : tokOK (.gen, .word w) = true) : tokOK (.gen, .esc w) = true := by
  simp only [tokOK, Bool.or_eq_true] at h
  simp only [tokOK, Bool.and_eq_true, Bool.not_eq_true', List.all_eq_true]
  rcases h with h | h
  · cases w with
    | nil => simp [isIdentWord] at h
    | cons c r =>
      simp only [isIdentWord, Bool.and_eq_true, List.all_eq_true] at h
      refine ⟨rfl, fun x hx => ?_⟩
      rcases List.mem_cons.mp hx with rfl | hx
      · exact notEscTerm_idChar _ (isIdChar_of_idStart _ h.1)
      · exact notEscTerm_idChar _ (h.2 x hx)
  · obtain ⟨c, ds, b, hh, hs, rfl, hc, hds, hb, hhx, hhs⟩ := constWord_parts w h
    simp only [List.all_eq_true] at hds hhs
    refine ⟨rfl, fun x hx => ?_⟩
    simp only [List.cons_append, List.mem_cons, List.mem_append] at hx
    rcases hx with rfl | hx | rfl | rfl | rfl | hx
    · exact notEscTerm_idChar _ (isIdChar_of_digit _ hc)
    · exact notEscTerm_idChar _ (isIdChar_of_digit _ (hds x hx))
    · decide
    · exact notEscTerm_idChar _ (isIdChar_of_base _ hb)
    · exact notEscTerm_idChar _ (isIdChar_of_hex _ hhx)
    · exact notEscTerm_idChar _ (isIdChar_of_hex _ (hhs x hx))

/-- a spelling of a token that has a text has a text -/
theorem tokOK_of_sameTok (c : Ctx) (a t : Tok) (hs : sameTok a t = true) (hok : tokOK (c, t) = true) : tokOK (c, a) = true := by
  simp only [sameTok, Bool.or_eq_true, beq_iff_eq] at hs
  rcases hs with hs | hs
  · rw [hs]; exact hok
  · cases a with
    | esc x =>
      cases t with
      | word w =>
        simp only [Bool.and_eq_true, beq_iff_eq] at hs
        rw [hs.1]
        cases c <;> first | (exfalso; simp [tokOK] at hok; done) | skip
        exact tokOK_esc_of_word w hok
      | _ => simp at hs
    | num ds =>
      cases t with
      | num ds' =>
        simp only [Bool.and_eq_true] at hs
        cases c <;> first | (exfalso; simp [tokOK] at hok; done) | skip
        simp only [tokOK, Bool.and_eq_true]
        exact hs.1
      | _ => simp at hs
    | _ => simp at hs

theorem allOK_of_spells : ∀ (as ts : List CT), spellsB as ts = true → AllOK ts → AllOK as
  | [], [], _, _ => allOK_nil
  | [], _ :: _, h, _ => by simp [spellsB] at h
  | _ :: _, [], h, _ => by simp [spellsB] at h
  | (c, a) :: r, (c', t) :: r', h, hok => by
    simp only [spellsB, Bool.and_eq_true, beq_iff_eq] at h
    obtain ⟨⟨hc, hs⟩, hr⟩ := h
    subst hc
    exact allOK_cons (tokOK_of_sameTok c a t hs (hok _ List.mem_cons_self))
      (allOK_of_spells r r' hr (fun x hx => hok x (List.mem_cons_of_mem _ hx)))

/-- every layout of every SPELLING of the token stream of a valid module list parses to that module list: each name that is
no statement keyword plain or escaped, each range number in any digit string of its value -/
theorem parse_layout_cls (ms : List VModule) (hv : ms.all validModule = true) (g0 : List Char)
    (l : List (CT × List Char)) (hl : spellsB (l.map (·.1)) (modulesT ms) = true) (hg0 : gapV .ws g0 = true)
    (hlay : layoutOK l = true) : parseChars (g0 ++ renderL l) = some ms := by
  apply parseChars_of_lexesC ms _ hv
  have hall := allOK_of_spells _ _ hl (modulesT_ok ms hv)
  exact lexesC_of_spells (lexes_render l g0 hg0 (fun p hp => hall p.1 (List.mem_map_of_mem hp)) hlay) _ hl

end KV.VerilogText
