import KyupyVerif.Proofs.FormatEquiv
/-! "The same netlist written in either format" at NETLIST level (C11, audit-2 B-C11-4).

One netlist description `Nl` (ports in port-list order with a direction each; gates `name = kind(drv…)` with an instance name each),
its two renderings `benchOf nl : List BStmt` and `verilogOf nl : List Stmt` (single-bit declarations, one `instOfGate` per gate over
the pin table `primTL`), the decidable common fragment `commonNlB`, and

* `bench_verilog_models_equiv` — `BenchModel (benchOf nl) z prim a σ ↔ VModel primTL nl.portNames (verilogOf nl) z neg prim a σ`
  for every value domain, assignment `a` and environment `σ` (combinational AND sequential kinds);
* `nl_spos_port`, `nl_spos_gate` — the interface positions (`s_nodes` order) of a port and of a state element are the same in both;
* `bench_verilog_captures_equiv` — what is observed per interface position is the same list.

Core Lean only (the driver evaluates `commonNlB`). -/
namespace KV.Netlist
open KV

/-- one gate of the description: `name = kind(drv…)`, Verilog instance name `inst` -/
structure NlGate where
  name : String
  kind : String
  inst : String
  drv : List String
deriving DecidableEq, Repr, Inhabited

/-- a netlist description: ports `(is output, name)` in port-list order, gates in statement order -/
structure Nl where
  ports : List (Bool × String)
  gates : List NlGate
deriving Repr, Inhabited

def Nl.portNames (nl : Nl) : List String := nl.ports.map (·.2)
def Nl.pis (nl : Nl) : List String := (nl.ports.filter fun p => !p.1).map (·.2)
def Nl.pos (nl : Nl) : List String := (nl.ports.filter fun p => p.1).map (·.2)
def Nl.gateNames (nl : Nl) : List String := nl.gates.map (·.name)
def Nl.instNames (nl : Nl) : List String := nl.gates.map (·.inst)

def nlDecl (p : Bool × String) : Decl := ⟨if p.1 then .output else .input, p.2, none⟩
def nlInst (g : NlGate) : VInst := instOfGate g.kind g.inst g.name g.drv
def nlBGate (g : NlGate) : BGate := ⟨g.name, g.kind, g.drv⟩

/-- the bench rendering: one `INPUT(n)` / `OUTPUT(n)` per port in port-list order, then one statement per gate -/
def benchOf (nl : Nl) : List BStmt :=
  nl.ports.map (fun p => BStmt.intf [p.2]) ++ nl.gates.map fun g => BStmt.gate g.name g.kind g.drv

/-- the Verilog rendering (module body; port list `nl.portNames`): one single-bit `input n;` / `output n;` declaration per port, then
`kind inst(.o(name), .i0(d0), …)` per gate -/
def verilogOf (nl : Nl) : List Stmt :=
  (nl.ports.map fun p => Stmt.decls [nlDecl p]) ++ nl.gates.map fun g => Stmt.inst g.kind g.inst (nlInst g).pins

/-- **the common fragment** (decidable): port names pairwise different; gate names pairwise different; instance names pairwise
different and no port name; no input port is a gate name; every output port is a gate name; every gate has at most four operands
and no operand is a constant literal -/
def commonNlB (nl : Nl) : Bool :=
  nodupS nl.portNames && nodupS nl.gateNames && nodupS (nl.instNames ++ nl.portNames) &&
  (nl.pis.all fun n => !nl.gateNames.contains n) && (nl.pos.all fun n => nl.gateNames.contains n) &&
  (nl.gates.all fun g => decide (g.drv.length ≤ 4) && g.drv.all fun d => !isConstLit d)

structure CommonNl (nl : Nl) : Prop where
  ports : nl.portNames.Nodup
  gnames : nl.gateNames.Nodup
  inames : nl.instNames.Nodup
  idisj : ∀ g ∈ nl.gates, g.inst ∉ nl.portNames
  pis : ∀ n ∈ nl.pis, n ∉ nl.gateNames
  pos : ∀ n ∈ nl.pos, n ∈ nl.gateNames
  len : ∀ g ∈ nl.gates, g.drv.length ≤ 4
  nc : ∀ g ∈ nl.gates, ∀ d ∈ g.drv, isConstLit d = false

theorem fe_nodupS_nodup : ∀ (l : List String), nodupS l = true → l.Nodup
  | [], _ => List.nodup_nil
  | x :: r, h => by
    simp only [nodupS, Bool.and_eq_true, Bool.not_eq_true', List.contains_eq_mem, decide_eq_false_iff_not] at h
    exact List.nodup_cons.mpr ⟨h.1, fe_nodupS_nodup r h.2⟩

theorem commonNl_of (nl : Nl) (h : commonNlB nl = true) : CommonNl nl := by
  simp only [commonNlB, Bool.and_eq_true, List.all_eq_true, Bool.not_eq_true', List.contains_eq_mem, decide_eq_false_iff_not,
    decide_eq_true_eq] at h
  obtain ⟨⟨⟨⟨⟨h1, h2⟩, h3⟩, h4⟩, h5⟩, h6⟩ := h
  have h3' := fe_nodupS_nodup _ h3
  rw [List.nodup_append] at h3'
  exact ⟨fe_nodupS_nodup _ h1, fe_nodupS_nodup _ h2, h3'.1, fun g hg hp => h3'.2.2 g.inst (List.mem_map_of_mem hg) g.inst hp rfl,
    h4, h5, fun g hg => (h6 g hg).1, fun g hg d hd => (h6 g hg).2 d hd⟩

theorem mem_portNames (nl : Nl) (n : String) : n ∈ nl.portNames ↔ n ∈ nl.pis ∨ n ∈ nl.pos := by
  simp only [Nl.portNames, Nl.pis, Nl.pos, List.mem_map, List.mem_filter, Bool.not_eq_true']
  constructor
  · rintro ⟨p, hp, rfl⟩
    cases hb : p.1
    · exact Or.inl ⟨p, ⟨hp, hb⟩, rfl⟩
    · exact Or.inr ⟨p, ⟨hp, hb⟩, rfl⟩
  · rintro (⟨p, ⟨hp, _⟩, rfl⟩ | ⟨p, ⟨hp, _⟩, rfl⟩) <;> exact ⟨p, hp, rfl⟩

/-! ## bookkeeping of the bench rendering -/

theorem benchGates_benchOf (nl : Nl) : benchGates (benchOf nl) = nl.gates.map nlBGate := by
  simp only [benchGates, benchOf, List.filterMap_append, List.filterMap_map]
  have h1 : List.filterMap (gateOf ∘ fun p : Bool × String => BStmt.intf [p.2]) nl.ports = [] := by
    rw [List.filterMap_eq_nil_iff]; intro p _; rfl
  have h2 : List.filterMap (gateOf ∘ fun g : NlGate => BStmt.gate g.name g.kind g.drv) nl.gates = nl.gates.map nlBGate := by
    induction nl.gates with
    | nil => rfl
    | cons g r ih => simp only [List.filterMap_cons, Function.comp, gateOf, List.map_cons, ih, nlBGate]
  rw [h1, h2, List.nil_append]

theorem benchPorts_benchOf (nl : Nl) : benchPorts (benchOf nl) = nl.portNames := by
  simp only [benchPorts, benchOf, List.flatMap_append, Nl.portNames]
  have h1 : ∀ l : List (Bool × String), List.flatMap portsOf (l.map fun p => BStmt.intf [p.2]) = l.map (·.2) := by
    intro l
    induction l with
    | nil => rfl
    | cons p r ih => simp only [List.map_cons, List.flatMap_cons, portsOf, ih, List.singleton_append]
  have h2 : ∀ l : List NlGate, List.flatMap portsOf (l.map fun g => BStmt.gate g.name g.kind g.drv) = [] := by
    intro l
    induction l with
    | nil => rfl
    | cons p r ih => simp only [List.map_cons, List.flatMap_cons, portsOf, ih, List.nil_append]
  rw [h1, h2, List.append_nil]

theorem isGateName_benchOf (nl : Nl) (s : String) : isGateName (benchOf nl) s = nl.gateNames.contains s := by
  rw [isGateName, benchGates_benchOf, Nl.gateNames]
  induction nl.gates with
  | nil => rfl
  | cons g r ih =>
    simp only [List.map_cons, List.any_cons, ih, List.contains_cons, nlBGate]
    rw [show (g.name == s) = (s == g.name) from BEq.comm]

/-! ## bookkeeping of the Verilog rendering -/

theorem declsOf_insts (l : List NlGate) : (l.map fun g => Stmt.inst g.kind g.inst (nlInst g).pins).flatMap declsOf = [] := by
  induction l with
  | nil => rfl
  | cons g r ih => simp only [List.map_cons, List.flatMap_cons, declsOf, ih, List.append_nil]

theorem fe_lookup_none_of (ds : List Decl) (n : String) (h : ∀ d ∈ ds, d.base ≠ n) : lookup ds n = none := by
  rw [lookup, List.find?_eq_none]
  intro d hd
  simpa using h d hd

theorem fe_foldl_declPut_nodup (ds acc : List Decl) (hn : (ds.map (·.base)).Nodup) (hd : ∀ d ∈ ds, ∀ e ∈ acc, e.base ≠ d.base) :
    ds.foldl declPut acc = acc ++ ds := by
  induction ds generalizing acc with
  | nil => simp
  | cons d r ih =>
    rw [List.map_cons, List.nodup_cons] at hn
    have h1 : declPut acc d = acc ++ [d] := by
      rw [declPut, fe_lookup_none_of acc d.base (hd d List.mem_cons_self)]
    rw [List.foldl_cons, h1, ih _ hn.2, List.append_assoc, List.singleton_append]
    intro x hx e he
    rcases List.mem_append.mp he with he | he
    · exact hd x (List.mem_cons_of_mem _ hx) e he
    · rw [List.mem_singleton.mp he]
      intro e2
      exact hn.1 (e2 ▸ List.mem_map_of_mem hx)

theorem declsOf_ports (l : List (Bool × String)) : (l.map fun p => Stmt.decls [nlDecl p]).flatMap declsOf = l.map nlDecl := by
  induction l with
  | nil => rfl
  | cons p r ih => simp only [List.map_cons, List.flatMap_cons, declsOf, ih, List.singleton_append]

theorem sigDecls_verilogOf (nl : Nl) (hn : nl.portNames.Nodup) : sigDecls (verilogOf nl) = nl.ports.map nlDecl := by
  rw [sigDecls, verilogOf, List.flatMap_append, declsOf_insts, List.append_nil, declsOf_ports]
  rw [fe_foldl_declPut_nodup _ [] (by rw [List.map_map]; exact hn) (by intro _ _ e he; cases he), List.nil_append]

theorem vInsts_verilogOf (nl : Nl) : vInsts (verilogOf nl) = nl.gates.map nlInst := by
  rw [vInsts, verilogOf, List.filterMap_append]
  have h1 : ∀ l : List (Bool × String), (l.map fun p => Stmt.decls [nlDecl p]).filterMap instOf = [] := by
    intro l
    induction l with
    | nil => rfl
    | cons p r ih => simp only [List.map_cons, List.filterMap_cons, instOf, ih]
  rw [h1, List.nil_append]
  induction nl.gates with
  | nil => rfl
  | cons g r ih => simp only [List.map_cons, List.filterMap_cons, instOf, ih]; rfl

theorem pairsOf_insts (ds : List Decl) (l : List NlGate) :
    (l.map fun g => Stmt.inst g.kind g.inst (nlInst g).pins).flatMap (pairsOf ds) = [] := by
  induction l with
  | nil => rfl
  | cons g r ih => simp only [List.map_cons, List.flatMap_cons, pairsOf, ih, List.append_nil]

theorem pairsOf_ports (ds : List Decl) (l : List (Bool × String)) :
    (l.map fun p => Stmt.decls [nlDecl p]).flatMap (pairsOf ds) = [] := by
  induction l with
  | nil => rfl
  | cons p r ih => simp only [List.map_cons, List.flatMap_cons, pairsOf, ih, List.append_nil]

theorem vPairs_verilogOf (nl : Nl) : vPairs (verilogOf nl) = [] := by
  rw [vPairs, assignPairs]
  generalize sigDecls (verilogOf nl) = ds
  rw [verilogOf, List.flatMap_append, pairsOf_insts, pairsOf_ports]
  rfl

theorem lookup_nlDecl (ports : List (Bool × String)) (n : String) (d : Decl) (h : lookup (ports.map nlDecl) n = some d) :
    d.names = [n] := by
  rw [lookup] at h
  have hb := List.find?_some h
  have hm := List.mem_of_find?_eq_some h
  obtain ⟨p, _, rfl⟩ := List.mem_map.mp hm
  simp only [nlDecl, beq_iff_eq] at hb
  simp only [Decl.names, nlDecl, hb]

theorem lookup_nlDecl_mem (ports : List (Bool × String)) (n : String) (hn : n ∈ ports.map (·.2)) :
    ∃ d, lookup (ports.map nlDecl) n = some d := by
  cases h : lookup (ports.map nlDecl) n with
  | some d => exact ⟨d, rfl⟩
  | none =>
    exfalso
    rw [lookup, List.find?_eq_none] at h
    obtain ⟨p, hp, rfl⟩ := List.mem_map.mp hn
    exact h (nlDecl p) (List.mem_map_of_mem hp) (by simp [nlDecl])

theorem outSig_nlDecl (ports : List (Bool × String)) (s : String) : outSig (ports.map nlDecl) s = (s, false) := by
  rw [outSig]
  cases h : lookup (ports.map nlDecl) s with
  | none => rfl
  | some d => simp only [lookup_nlDecl ports s d h]

theorem fe_flatMap_single {α} (l : List α) (f : α → List α) (h : ∀ x ∈ l, f x = [x]) : l.flatMap f = l := by
  induction l with
  | nil => rfl
  | cons x r ih =>
    rw [List.flatMap_cons, h x List.mem_cons_self, ih (fun y hy => h y (List.mem_cons_of_mem _ hy))]; rfl

theorem posNames_nlDecl (ports : List (Bool × String)) : posNames (ports.map nlDecl) (ports.map (·.2)) = ports.map (·.2) := by
  rw [posNames]
  apply fe_flatMap_single
  intro n hn
  obtain ⟨d, hd⟩ := lookup_nlDecl_mem ports n hn
  simp only [hd, lookup_nlDecl ports n d hd]

theorem inputNames_nlDecl (ports : List (Bool × String)) :
    inputNames (ports.map nlDecl) = (ports.filter fun p => !p.1).map (·.2) := by
  rw [inputNames]
  induction ports with
  | nil => rfl
  | cons p r ih =>
    obtain ⟨b, n⟩ := p
    cases b
    · simp only [List.map_cons, nlDecl, Bool.false_eq_true, if_false, List.filter_cons, beq_self_eq_true, if_true, List.flatMap_cons,
        Decl.names, Bool.not_false, List.singleton_append] at ih ⊢
      rw [ih]
    · have : (DKind.output == DKind.input) = false := by decide
      simp only [List.map_cons, nlDecl, if_true, List.filter_cons, this, Bool.false_eq_true, if_false, Bool.not_true] at ih ⊢
      exact ih

theorem outputNames_nlDecl (ports : List (Bool × String)) :
    outputNames (ports.map nlDecl) = (ports.filter fun p => p.1).map (·.2) := by
  rw [outputNames]
  induction ports with
  | nil => rfl
  | cons p r ih =>
    obtain ⟨b, n⟩ := p
    cases b
    · have : (DKind.input == DKind.output) = false := by decide
      simp only [List.map_cons, nlDecl, Bool.false_eq_true, if_false, List.filter_cons, this] at ih ⊢
      exact ih
    · simp only [List.map_cons, nlDecl, if_true, List.filter_cons, beq_self_eq_true, List.flatMap_cons,
        Decl.names, List.singleton_append] at ih ⊢
      rw [ih]

theorem outConn_nlInst (ds : List Decl) (g : NlGate) : outConn primTL ds (nlInst g) = [(0, (outSig ds g.name).1)] := by
  rw [nlInst]
  match g.drv with
  | [] => rfl
  | [_] => rfl
  | [_, _] => rfl
  | [_, _, _] => rfl
  | _ :: _ :: _ :: _ :: _ => rfl

theorem drivenSigs_verilogOf (nl : Nl) (hn : nl.portNames.Nodup) :
    drivenSigs primTL (sigDecls (verilogOf nl)) (verilogOf nl) = nl.gateNames ++ nl.pis := by
  have hp : assignPairs (sigDecls (verilogOf nl)) (verilogOf nl) = [] := vPairs_verilogOf nl
  rw [drivenSigs, hp, List.map_nil, List.append_nil, vInsts_verilogOf, sigDecls_verilogOf nl hn, inputNames_nlDecl]
  congr 1
  rw [Nl.gateNames]
  induction nl.gates with
  | nil => rfl
  | cons g r ih =>
    rw [List.map_cons, List.flatMap_cons, ih, outConn_nlInst, outSig_nlDecl]; rfl

/-! ## interface positions -/

theorem fe_idxOf_map_inj {β γ} [BEq β] [LawfulBEq β] [BEq γ] [LawfulBEq γ] (f : β → γ) (l : List β) (x : β)
    (hinj : ∀ y ∈ l, f y = f x → y = x) : (l.map f).idxOf (f x) = l.idxOf x := by
  induction l with
  | nil => rfl
  | cons a r ih =>
    simp only [List.map_cons, List.idxOf_cons]
    by_cases h : a = x
    · subst h; simp
    · have h2 : f a ≠ f x := fun e => h (hinj a List.mem_cons_self e)
      have h3 : (a == x) = false := by simp [h]
      have h4 : (f a == f x) = false := by simp [h2]
      rw [h3, h4]
      simp only [cond_false]
      rw [ih (fun y hy => hinj y (List.mem_cons_of_mem _ hy))]

/-- the state elements of the description in `s_nodes` order: flip-flops, then latches -/
def Nl.seqGates (nl : Nl) : List NlGate :=
  (nl.gates.filter fun g => isDffKind g.kind) ++ (nl.gates.filter fun g => isLatchKind g.kind)

theorem benchSNames_benchOf (nl : Nl) :
    benchSNames (benchOf nl) = nl.portNames.map Ep.fork ++ nl.seqGates.map fun g => Ep.cell g.name 0 := by
  rw [benchSNames, benchPorts_benchOf, benchGates_benchOf, Nl.seqGates, List.map_append, List.append_assoc]
  simp only [List.filter_map, List.map_map]
  rfl

theorem vSNames_verilogOf (nl : Nl) (hn : nl.portNames.Nodup) :
    vSNames nl.portNames (verilogOf nl) = nl.portNames.map (fun n => Ep.cell n 0) ++ nl.seqGates.map fun g => Ep.cell g.inst 0 := by
  rw [vSNames, sigDecls_verilogOf nl hn, Nl.portNames, posNames_nlDecl, vInsts_verilogOf, Nl.seqGates, List.map_append,
    List.append_assoc]
  simp only [List.filter_map, List.map_map]
  rfl

/-- **interface position of a port**: the same in both renderings — its index in the port list -/
theorem nl_spos_port (nl : Nl) (hn : nl.portNames.Nodup) (n : String) (h : n ∈ nl.portNames) :
    benchSPos (benchOf nl) (.fork n) = nl.portNames.idxOf n ∧
    vSPos nl.portNames (verilogOf nl) (.cell n 0) = nl.portNames.idxOf n := by
  rw [benchSPos, vSPos, benchSNames_benchOf, vSNames_verilogOf nl hn, List.idxOf_append, List.idxOf_append,
    if_pos (List.mem_map_of_mem h), if_pos (List.mem_map_of_mem (f := fun n => Ep.cell n 0) h)]
  exact ⟨fe_idxOf_map_inj Ep.fork _ n (fun y _ e => Ep.fork.inj e),
    fe_idxOf_map_inj (fun n => Ep.cell n 0) _ n (fun y _ e => (Ep.cell.inj e).1)⟩

theorem fe_nodup_map_inj {β γ} (f : β → γ) (l : List β) (h : (l.map f).Nodup) : ∀ x ∈ l, ∀ y ∈ l, f y = f x → y = x := by
  induction l with
  | nil => intro x hx; cases hx
  | cons a r ih =>
    rw [List.map_cons, List.nodup_cons] at h
    intro x hx y hy e
    rcases List.mem_cons.mp hx with hx | hx <;> rcases List.mem_cons.mp hy with hy | hy
    · rw [hx, hy]
    · have : f a ∈ r.map f := by rw [← hx, ← e]; exact List.mem_map_of_mem hy
      exact absurd this h.1
    · have : f a ∈ r.map f := by rw [← hy, e]; exact List.mem_map_of_mem hx
      exact absurd this h.1
    · exact ih h.2 x hx y hy e

theorem mem_seqGates (nl : Nl) (y : NlGate) (h : y ∈ nl.seqGates) : y ∈ nl.gates := by
  rcases List.mem_append.mp h with h | h <;> exact (List.mem_filter.mp h).1

/-- **interface position of a gate** (meaningful for state elements): the same in both renderings — after the ports, its
index among flip-flops then latches -/
theorem nl_spos_gate (nl : Nl) (hc : CommonNl nl) (g : NlGate) (hg : g ∈ nl.gates) :
    benchSPos (benchOf nl) (.cell g.name 0) = nl.ports.length + nl.seqGates.idxOf g ∧
    vSPos nl.portNames (verilogOf nl) (.cell g.inst 0) = nl.ports.length + nl.seqGates.idxOf g := by
  have h1 : Ep.cell g.name 0 ∉ nl.portNames.map Ep.fork := by
    intro h; obtain ⟨_, _, e⟩ := List.mem_map.mp h; cases e
  have h2 : Ep.cell g.inst 0 ∉ nl.portNames.map (fun n => Ep.cell n 0) := by
    intro h; obtain ⟨n, hn, e⟩ := List.mem_map.mp h
    exact hc.idisj g hg ((Ep.cell.inj e).1 ▸ hn)
  rw [benchSPos, vSPos, benchSNames_benchOf, vSNames_verilogOf nl hc.ports, List.idxOf_append, List.idxOf_append, if_neg h1, if_neg h2,
    List.length_map, List.length_map, Nl.portNames, List.length_map]
  constructor
  · rw [fe_idxOf_map_inj (fun g : NlGate => Ep.cell g.name 0) _ g (fun y hy e =>
      fe_nodup_map_inj (fun g : NlGate => g.name) nl.gates hc.gnames g hg y (mem_seqGates nl y hy) (Ep.cell.inj e).1)]
    omega
  · rw [fe_idxOf_map_inj (fun g : NlGate => Ep.cell g.inst 0) _ g (fun y hy e =>
      fe_nodup_map_inj (fun g : NlGate => g.inst) nl.gates hc.inames g hg y (mem_seqGates nl y hy) (Ep.cell.inj e).1)]
    omega

/-! ## the statement-level denotations agree -/

theorem instVal_nlInst {α} (z : α) (neg : α → α) (prim : String → α → α → α → α → α) (a : Nat → α) (pos : Nat) (g : NlGate)
    (hlen : g.drv.length ≤ 4) (hnc : ∀ d ∈ g.drv, isConstLit d = false) (σ : String → α) :
    instVal primTL z neg prim a pos (nlInst g) 0 σ = if isSeqKind g.kind then a pos else gateVal z prim g.kind g.drv σ := by
  cases hs : isSeqKind g.kind with
  | false =>
    simp only [Bool.false_eq_true, if_false]
    exact gate_format_equiv z neg prim a pos g.kind g.inst g.name g.drv hlen hs hnc σ
  | true =>
    have hty : (nlInst g).ty = g.kind := rfl
    simp only [instVal, hty, hs, if_true]
    simp

/-- `BenchModel` of the bench rendering, spelled out over the description -/
theorem benchModel_benchOf {α} (nl : Nl) (z : α) (prim : String → α → α → α → α → α) (a : Nat → α) (σ : String → α) :
    BenchModel (benchOf nl) z prim a σ ↔
      (∀ g ∈ nl.gates, σ g.name = if isSeqKind g.kind then a (benchSPos (benchOf nl) (.cell g.name 0)) else gateVal z prim g.kind g.drv σ) ∧
      (∀ s, s ∉ nl.gateNames → σ s = if s ∈ nl.portNames then a (benchSPos (benchOf nl) (.fork s)) else z) := by
  unfold BenchModel
  rw [benchGates_benchOf]
  simp only [List.mem_map, forall_exists_index, and_imp, forall_apply_eq_imp_iff₂, isGateName_benchOf, freeVal, benchPorts_benchOf,
    List.contains_eq_mem, decide_eq_false_iff_not, decide_eq_true_eq]
  rfl

/-- `VModel` of the Verilog rendering, spelled out over the description -/
theorem vModel_verilogOf {α} (nl : Nl) (hn : nl.portNames.Nodup) (z : α) (neg : α → α) (prim : String → α → α → α → α → α)
    (a : Nat → α) (σ : String → α) :
    VModel primTL nl.portNames (verilogOf nl) z neg prim a σ ↔
      (∀ g ∈ nl.gates, σ g.name = instVal primTL z neg prim a (vSPos nl.portNames (verilogOf nl) (.cell g.inst 0)) (nlInst g) 0 σ) ∧
      (∀ n ∈ nl.pis, σ n = a (vSPos nl.portNames (verilogOf nl) (.cell n 0))) ∧
      (∀ s, s ∉ nl.gateNames → s ∉ nl.pis → σ s = z) := by
  unfold VModel
  rw [drivenSigs_verilogOf nl hn, vPairs_verilogOf, vInsts_verilogOf]
  have hin : inputNames (sigDecls (verilogOf nl)) = nl.pis := by rw [sigDecls_verilogOf nl hn, inputNames_nlDecl]; rfl
  rw [hin]
  simp only [List.mem_map, forall_exists_index, and_imp, forall_apply_eq_imp_iff₂, outConn_nlInst, List.mem_singleton, forall_eq,
    sigDecls_verilogOf nl hn, outSig_nlDecl, List.not_mem_nil, false_imp_iff, implies_true, true_and, List.contains_eq_mem,
    List.mem_append, decide_eq_false_iff_not, not_or]
  rfl

/-- **the two renderings denote the same function** (any value domain; combinational and sequential kinds) -/
theorem bench_verilog_models_equiv {α} (nl : Nl) (hc : CommonNl nl) (z : α) (neg : α → α) (prim : String → α → α → α → α → α)
    (a : Nat → α) (σ : String → α) :
    BenchModel (benchOf nl) z prim a σ ↔ VModel primTL nl.portNames (verilogOf nl) z neg prim a σ := by
  rw [benchModel_benchOf, vModel_verilogOf nl hc.ports]
  have hg : ∀ g ∈ nl.gates,
      instVal primTL z neg prim a (vSPos nl.portNames (verilogOf nl) (.cell g.inst 0)) (nlInst g) 0 σ =
        if isSeqKind g.kind then a (benchSPos (benchOf nl) (.cell g.name 0)) else gateVal z prim g.kind g.drv σ := by
    intro g hg
    rw [instVal_nlInst z neg prim a _ g (hc.len g hg) (hc.nc g hg) σ, (nl_spos_gate nl hc g hg).1, (nl_spos_gate nl hc g hg).2]
  have hp : ∀ n ∈ nl.portNames, benchSPos (benchOf nl) (.fork n) = vSPos nl.portNames (verilogOf nl) (.cell n 0) := by
    intro n hn
    rw [(nl_spos_port nl hc.ports n hn).1, (nl_spos_port nl hc.ports n hn).2]
  constructor
  · rintro ⟨h1, h2⟩
    refine ⟨fun g hgm => by rw [hg g hgm]; exact h1 g hgm, fun n hn => ?_, fun s hs hpi => ?_⟩
    · have hpn : n ∈ nl.portNames := (mem_portNames nl n).mpr (Or.inl hn)
      rw [h2 n (hc.pis n hn), if_pos hpn, hp n hpn]
    · have hpn : s ∉ nl.portNames := by
        intro h
        rcases (mem_portNames nl s).mp h with h | h
        · exact hpi h
        · exact hs (hc.pos s h)
      rw [h2 s hs, if_neg hpn]
  · rintro ⟨h1, h2, h3⟩
    refine ⟨fun g hgm => by rw [← hg g hgm]; exact h1 g hgm, fun s hs => ?_⟩
    by_cases hpn : s ∈ nl.portNames
    · rw [if_pos hpn, hp s hpn]
      rcases (mem_portNames nl s).mp hpn with h | h
      · exact h2 s h
      · exact absurd (hc.pos s h) hs
    · rw [if_neg hpn]
      exact h3 s hs (fun h => hpn ((mem_portNames nl s).mpr (Or.inl h)))

/-! ## what is observed at the interface positions -/

theorem fe_find_map_key {β} (F : NlGate → β) (k : NlGate → String) (k' : β → String) (hk : ∀ y, k' (F y) = k y) (l : List NlGate)
    (g : NlGate) (hg : g ∈ l) (hinj : ∀ y ∈ l, k y = k g → y = g) :
    (l.map F).find? (fun x => k' x == k g) = some (F g) := by
  induction l with
  | nil => cases hg
  | cons a r ih =>
    rw [List.map_cons, List.find?_cons]
    by_cases h : a = g
    · subst h; simp [hk]
    · have h2 : k a ≠ k g := fun e => h (hinj a List.mem_cons_self e)
      have h3 : (k' (F a) == k g) = false := by rw [hk]; simpa using h2
      rw [h3]
      rcases List.mem_cons.mp hg with rfl | hg
      · exact absurd rfl h
      · exact ih hg (fun y hy => hinj y (List.mem_cons_of_mem _ hy))

theorem fe_find_map_key_none {β} (F : NlGate → β) (k : NlGate → String) (k' : β → String) (hk : ∀ y, k' (F y) = k y) (l : List NlGate)
    (n : String) (hn : ∀ y ∈ l, k y ≠ n) : (l.map F).find? (fun x => k' x == n) = none := by
  rw [List.find?_eq_none]
  intro x hx
  obtain ⟨y, hy, rfl⟩ := List.mem_map.mp hx
  rw [hk]
  simpa using hn y hy

/-- **what is observed is the same list**: per interface position (ports in port-list order, flip-flops, latches) an output port
shows its signal, a state element its first operand, nothing at input ports -/
theorem bench_verilog_captures_equiv {α} (nl : Nl) (hc : CommonNl nl) (z : α) (prim : String → α → α → α → α → α) (σ : String → α) :
    benchCaptures (benchOf nl) σ = vCaptures primTL nl.portNames (verilogOf nl) z prim σ := by
  rw [benchCaptures, vCaptures, benchSNames_benchOf, vSNames_verilogOf nl hc.ports, List.map_append, List.map_append, List.map_map,
    List.map_map, List.map_map, List.map_map, sigDecls_verilogOf nl hc.ports, outputNames_nlDecl, vInsts_verilogOf, benchGates_benchOf]
  congr 1
  · apply List.map_congr_left
    intro n hn
    simp only [Function.comp, isGateName_benchOf, List.contains_eq_mem]
    rcases (mem_portNames nl n).mp hn with h | h
    · have h1 : n ∉ nl.gateNames := hc.pis n h
      have h2 : n ∉ nl.pos := fun h' => h1 (hc.pos n h')
      have h3 : (nl.gates.map nlInst).find? (fun x => x.name == n) = none :=
        fe_find_map_key_none nlInst (·.inst) (·.name) (fun _ => rfl) nl.gates n (fun y hy e => hc.idisj y hy (e ▸ hn))
      have h2' : n ∉ (nl.ports.filter fun p => p.1).map (·.2) := h2
      simp only [h1, h2', decide_false, Bool.false_eq_true, if_false, h3]
    · have h1 : n ∈ nl.gateNames := hc.pos n h
      have h' : n ∈ (nl.ports.filter fun p => p.1).map (·.2) := h
      simp only [h1, h', decide_true, if_true]
  · apply List.map_congr_left
    intro g hgs
    have hg := mem_seqGates nl g hgs
    have h1 : (nl.gates.map nlBGate).find? (fun x => x.name == g.name) = some (nlBGate g) :=
      fe_find_map_key nlBGate (·.name) (·.name) (fun _ => rfl) nl.gates g hg
        (fun y hy e => fe_nodup_map_inj (fun g : NlGate => g.name) nl.gates hc.gnames g hg y hy e)
    have h2 : (nl.gates.map nlInst).find? (fun x => x.name == g.inst) = some (nlInst g) :=
      fe_find_map_key nlInst (·.inst) (·.name) (fun _ => rfl) nl.gates g hg
        (fun y hy e => fe_nodup_map_inj (fun g : NlGate => g.inst) nl.gates hc.inames g hg y hy e)
    have h3 : g.inst ∉ (nl.ports.filter fun p => p.1).map (·.2) :=
      fun h => hc.idisj g hg ((mem_portNames nl g.inst).mpr (Or.inr h))
    have h4 : inSig primTL (nlInst g) 0 = g.drv[0]? := inSig_instOfGate g.kind g.inst g.name g.drv (hc.len g hg) 0 (by omega)
    simp only [Function.comp, h1, h2, List.contains_eq_mem, h3, decide_false, Bool.false_eq_true, if_false, h4, nlBGate]
    cases hd : g.drv with
    | nil => rfl
    | cons d r =>
      have := hc.nc g hg d (by rw [hd]; exact List.mem_cons_self)
      simp only [List.head?_cons, Option.map_some, List.getElem?_cons_zero, sigVal, this, Bool.false_eq_true, if_false]

/-- the arity domain of the Verilog rendering holds for every description: `primTL` numbers input pins 0..3 only -/
theorem vArity_verilogOf (nl : Nl) : vArityB primTL (verilogOf nl) = true := by
  rw [vArityB, List.all_eq_true]
  intro i _
  rw [Bool.or_eq_true, List.all_eq_true]
  right
  intro c hc
  rw [inConn, List.mem_filterMap] at hc
  obtain ⟨ps, _, hps⟩ := hc
  rw [p2In] at hps
  have key : ∀ idx, primTL i.ty ps.1 = some (idx, false) → idx < 4 := by
    intro idx h
    unfold primTL at h
    split at h
    · cases h
    · split at h
      · cases h; omega
      · split at h
        · cases h; omega
        · split at h
          · cases h; omega
          · split at h
            · cases h; omega
            · cases h
  split at hps
  · rename_i idx s h1 _
    cases hps
    exact decide_eq_true (key idx h1)
  · cases hps

/-! ## only the assignment at the interface positions matters -/

/-- number of interface positions of the description: ports, flip-flops, latches -/
def Nl.nPos (nl : Nl) : Nat := nl.ports.length + nl.seqGates.length

theorem mem_seqGates_of_seq (nl : Nl) (g : NlGate) (hg : g ∈ nl.gates) (hs : isSeqKind g.kind = true) : g ∈ nl.seqGates := by
  rw [isSeqKind, Bool.or_eq_true] at hs
  rw [Nl.seqGates, List.mem_append, List.mem_filter, List.mem_filter]
  rcases hs with h | h
  · exact Or.inl ⟨hg, h⟩
  · exact Or.inr ⟨hg, h⟩

theorem benchModel_benchOf_congr {α} (nl : Nl) (hc : CommonNl nl) (z : α) (prim : String → α → α → α → α → α) (a a' : Nat → α)
    (ha : ∀ p, p < nl.nPos → a p = a' p) (σ : String → α) :
    BenchModel (benchOf nl) z prim a σ → BenchModel (benchOf nl) z prim a' σ := by
  rw [benchModel_benchOf, benchModel_benchOf]
  rintro ⟨h1, h2⟩
  refine ⟨fun g hg => ?_, fun s hs => ?_⟩
  · rw [h1 g hg]
    cases hs : isSeqKind g.kind with
    | false => rfl
    | true =>
      simp only [if_true]
      rw [(nl_spos_gate nl hc g hg).1]
      apply ha
      have := List.idxOf_lt_length_of_mem (mem_seqGates_of_seq nl g hg hs)
      rw [Nl.nPos]; omega
  · rw [h2 s hs]
    by_cases hp : s ∈ nl.portNames
    · rw [if_pos hp, if_pos hp, (nl_spos_port nl hc.ports s hp).1]
      apply ha
      have := List.idxOf_lt_length_of_mem hp
      have hl : nl.portNames.length = nl.ports.length := by rw [Nl.portNames, List.length_map]
      rw [Nl.nPos]; omega
    · rw [if_neg hp, if_neg hp]

theorem benchOK_benchOf (nl : Nl) (hc : CommonNl nl) (hk : ∀ g ∈ nl.gates, g.kind ≠ forkKind) : benchOKB (benchOf nl) = true := by
  rw [benchOKB, benchGates_benchOf, Bool.and_eq_true, List.all_eq_true]
  refine ⟨?_, ?_⟩
  · rw [List.map_map]
    have : ∀ l : List String, l.Nodup → nodupS l = true := by
      intro l
      induction l with
      | nil => intro _; rfl
      | cons x r ih =>
        intro h
        rw [List.nodup_cons] at h
        simp only [nodupS, Bool.and_eq_true, Bool.not_eq_true', List.contains_eq_mem, decide_eq_false_iff_not]
        exact ⟨h.1, ih h.2⟩
    exact this _ hc.gnames
  · intro b hb
    obtain ⟨g, hg, rfl⟩ := List.mem_map.mp hb
    simpa [nlBGate] using hk g hg

/-! ## statement order and grouping are irrelevant at the level of the denotations -/

/-- `BenchModel`, the interface positions and the observations depend on a description only through `benchGates` (gate statements
in text order) and `benchPorts` (interface names in text order): interleaving, grouping of interface statements do not matter -/
theorem benchModel_congr_stmts {α} (bs bs' : List BStmt) (hg : benchGates bs' = benchGates bs) (hp : benchPorts bs' = benchPorts bs)
    (z : α) (prim : String → α → α → α → α → α) (a : Nat → α) (σ : String → α) :
    (BenchModel bs' z prim a σ ↔ BenchModel bs z prim a σ) ∧ benchSNames bs' = benchSNames bs ∧
    benchCaptures bs' σ = benchCaptures bs σ := by
  have hs : benchSNames bs' = benchSNames bs := by simp only [benchSNames, hg, hp]
  refine ⟨?_, hs, ?_⟩
  · simp only [BenchModel, stmtVal, freeVal, isGateName, benchSPos, hs, hg, hp]
  · simp only [benchCaptures, isGateName, hs, hg]
    rfl

/-- `VModel`, the interface positions and the observations depend on a module body only through its declarations table `sigDecls`,
its instances in text order and its assign pairs -/
theorem vModel_congr_stmts {α} (tl : TL) (ports : List String) (vs vs' : List Stmt) (hd : sigDecls vs' = sigDecls vs)
    (hi : vInsts vs' = vInsts vs) (ha : ∀ ds, assignPairs ds vs' = assignPairs ds vs)
    (z : α) (neg : α → α) (prim : String → α → α → α → α → α) (a : Nat → α) (σ : String → α) :
    (VModel tl ports vs' z neg prim a σ ↔ VModel tl ports vs z neg prim a σ) ∧ vSNames ports vs' = vSNames ports vs ∧
    vCaptures tl ports vs' z prim σ = vCaptures tl ports vs z prim σ := by
  have hs : vSNames ports vs' = vSNames ports vs := by simp only [vSNames, hd, hi]
  refine ⟨?_, hs, ?_⟩
  · simp only [VModel, vSPos, vPairs, drivenSigs, hs, hd, hi, ha]
  · simp only [vCaptures, hs, hd, hi]

end KV.Netlist
