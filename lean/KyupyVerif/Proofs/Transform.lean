import KyupyVerif.Model.Transform
/-! Helper lemmas for C10: the rebuild performed by `Circuit.copy` / `__setstate__` reproduces a well-formed dump. -/
namespace KV.Transform
open KV

/-! ### lists of optional pins, `GrowingList.__setitem__` -/
theorem idxOf_getElem_nodup {α} [BEq α] [LawfulBEq α] : ∀ (l : List α) (i : Nat) (h : i < l.length), l.Nodup → l.idxOf l[i] = i
  | [], i, h, _ => by simp at h
  | a :: l, 0, _, _ => by simp
  | a :: l, i + 1, h, hn => by
    have hn' := List.nodup_cons.mp hn
    have hi : i < l.length := by simpa using h
    have hne : (a == l[i]) = false := by
      apply beq_false_of_ne
      intro e; exact hn'.1 (e ▸ List.getElem_mem hi)
    simp only [List.getElem_cons_succ, List.idxOf_cons, hne, cond_false]
    rw [idxOf_getElem_nodup l i hi hn'.2]

theorem getD_growSet (l : List (Option Nat)) (i p : Nat) (v : Option Nat) :
    (growSet l i v).getD p none = if p = i then v else l.getD p none := by
  unfold growSet
  simp only [List.getD_eq_getElem?_getD]
  split
  · rename_i h
    rw [List.getElem?_set]
    by_cases e : i = p
    · subst e; simp [h]
    · have : ¬ p = i := fun x => e x.symm
      simp [e, this]
  · rename_i h
    simp only [List.getElem?_append, List.getElem?_replicate, List.length_append, List.length_replicate]
    by_cases e : p = i
    · subst e
      have h1 : ¬ p < l.length + (p - l.length) := by omega
      have h2 : p - (l.length + (p - l.length)) = 0 := by omega
      simp [h1, h2]
    · simp only [e, if_false]
      by_cases hp : p < l.length
      · have : p < l.length + (i - l.length) := by omega
        simp [this, hp]
      · rw [List.getElem?_eq_none (by omega : l.length ≤ p)]
        by_cases hq : p < i
        · have h1 : p < l.length + (i - l.length) := by omega
          have h2 : p - l.length < i - l.length := by omega
          simp [h1, hp, h2]
        · have h1 : ¬ p < l.length + (i - l.length) := by omega
          simp only [h1, if_false]
          rw [List.getElem?_eq_none]; simp; omega

theorem length_growSet (l : List (Option Nat)) (i : Nat) (v : Option Nat) :
    (growSet l i v).length = if i < l.length then l.length else i + 1 := by
  unfold growSet; split <;> simp <;> omega

theorem noTrail_iff (l : List (Option Nat)) : noTrail l = true ↔ l[l.length - 1]? ≠ some none := by
  simp [noTrail, List.getLast?_eq_getElem?]

theorem noTrail_growSet_some (l : List (Option Nat)) (i x : Nat) (h : noTrail l = true) :
    noTrail (growSet l i (some x)) = true := by
  rw [noTrail_iff] at h ⊢
  intro hc
  have hg := getD_growSet l i ((growSet l i (some x)).length - 1) (some x)
  rw [List.getD_eq_getElem?_getD, hc] at hg
  rw [length_growSet] at hg
  by_cases hi : i < l.length
  · simp only [hi, if_true] at hg
    by_cases e : l.length - 1 = i
    · simp [e] at hg
    · simp only [e, if_false, List.getD_eq_getElem?_getD] at hg
      have hlt : l.length - 1 < l.length := by omega
      rw [List.getElem?_eq_getElem hlt] at hg h
      simp at hg
      exact h (by rw [← hg])
  · simp [hi] at hg

/-- two pin lists without trailing `None` that agree at every position are equal -/
theorem ext_noTrail (a b : List (Option Nat)) (ha : noTrail a = true) (hb : noTrail b = true)
    (h : ∀ p, a.getD p none = b.getD p none) : a = b := by
  rw [noTrail_iff] at ha hb
  have key : ∀ (a b : List (Option Nat)), b[b.length - 1]? ≠ some none → (∀ p, a.getD p none = b.getD p none) →
      b.length ≤ a.length := by
    intro a b hb h
    apply Classical.byContradiction; intro hlt
    have hlt : a.length < b.length := Nat.lt_of_not_le hlt
    have h1 := h (b.length - 1)
    simp only [List.getD_eq_getElem?_getD] at h1
    rw [List.getElem?_eq_none (by omega : a.length ≤ b.length - 1)] at h1
    have hlt2 : b.length - 1 < b.length := by omega
    rw [List.getElem?_eq_getElem hlt2] at h1 hb
    simp at h1
    exact hb (by rw [← h1])
  have hlen : a.length = b.length := Nat.le_antisymm (key b a ha (fun p => (h p).symm)) (key a b hb h)
  apply List.ext_getElem hlen
  intro i h1 h2
  have := h i
  simp only [List.getD_eq_getElem?_getD, List.getElem?_eq_getElem h1, List.getElem?_eq_getElem h2, Option.getD_some] at this
  exact this


/-! ### well-formedness as propositions -/
structure WF (nn : NNet) : Prop where
  names : nn.names.size = nn.net.nodes.size
  nodup : nn.keys.Nodup
  io : ∀ i ∈ nn.net.io, i < nn.net.nodes.size
  back : ∀ l, l < nn.net.lines.size →
    (nn.net.line l).driver < nn.net.nodes.size ∧ (nn.net.line l).reader < nn.net.nodes.size ∧
    (nn.net.node (nn.net.line l).driver).outs.getD (nn.net.line l).dpin none = some l ∧
    (nn.net.node (nn.net.line l).reader).ins.getD (nn.net.line l).rpin none = some l
  fwdIn : ∀ i, i < nn.net.nodes.size → ∀ p l, (nn.net.node i).ins.getD p none = some l →
    l < nn.net.lines.size ∧ (nn.net.line l).reader = i ∧ (nn.net.line l).rpin = p
  fwdOut : ∀ i, i < nn.net.nodes.size → ∀ p l, (nn.net.node i).outs.getD p none = some l →
    l < nn.net.lines.size ∧ (nn.net.line l).driver = i ∧ (nn.net.line l).dpin = p
  trail : ∀ i, i < nn.net.nodes.size → noTrail (nn.net.node i).ins = true ∧ noTrail (nn.net.node i).outs = true

theorem getD_some_lt {l : List (Option Nat)} {p x : Nat} (h : l.getD p none = some x) : p < l.length := by
  apply Classical.byContradiction; intro hn
  rw [List.getD_eq_getElem?_getD, List.getElem?_eq_none (by omega)] at h
  simp at h

theorem WF.of_wf {nn : NNet} (h : nn.wf = true) : WF nn := by
  simp only [NNet.wf, Bool.and_eq_true, beq_iff_eq, decide_eq_true_eq, List.all_eq_true, List.mem_range] at h
  obtain ⟨⟨⟨⟨⟨h1, h2⟩, h3⟩, h4⟩, h5⟩, h6⟩ := h
  refine ⟨h1, h2, h3, ?_, ?_, ?_, fun i hi => h6 i hi⟩
  · intro l hl
    simp only [NNet.pinsBack, List.all_eq_true, List.mem_range, Bool.and_eq_true, decide_eq_true_eq, beq_iff_eq] at h4
    have := h4 l hl
    exact ⟨this.1.1.1, this.1.1.2, this.1.2, this.2⟩
  · intro i hi p l hp
    simp only [NNet.pinsFwd, List.all_eq_true, List.mem_range, Bool.and_eq_true] at h5
    have := (h5 i hi).1 p (getD_some_lt hp)
    simp only [NodeD.inPin, hp, Bool.and_eq_true, decide_eq_true_eq, beq_iff_eq] at this
    exact ⟨this.1.1, this.1.2, this.2⟩
  · intro i hi p l hp
    simp only [NNet.pinsFwd, List.all_eq_true, List.mem_range, Bool.and_eq_true] at h5
    have := (h5 i hi).2 p (getD_some_lt hp)
    simp only [NodeD.outPin, hp, Bool.and_eq_true, decide_eq_true_eq, beq_iff_eq] at this
    exact ⟨this.1.1, this.1.2, this.2⟩

/-! ### the rebuild invariant: after `k` lines every pin list holds exactly the entries `< k` -/
def pinsOK (k : Nat) (orig rebuilt : List (Option Nat)) : Prop :=
  noTrail rebuilt = true ∧ ∀ p, rebuilt.getD p none = (orig.getD p none).filter (· < k)

theorem filter_succ_ne {k : Nat} {o : Option Nat} (h : o ≠ some k) :
    o.filter (· < k + 1) = o.filter (· < k) := by
  cases o with
  | none => rfl
  | some l =>
    have : l ≠ k := fun e => h (by rw [e])
    simp only [Option.filter]
    by_cases hl : l < k
    · have : l < k + 1 := by omega
      simp [hl, this]
    · have : ¬ l < k + 1 := by omega
      simp [hl, this]

theorem pinsOK_hit {k p0 : Nat} {orig reb : List (Option Nat)} (h : pinsOK k orig reb)
    (ho : orig.getD p0 none = some k) (hu : ∀ p, orig.getD p none = some k → p = p0) :
    pinsOK (k + 1) orig (growSet reb p0 (some k)) := by
  refine ⟨noTrail_growSet_some _ _ _ h.1, fun p => ?_⟩
  rw [getD_growSet]
  by_cases e : p = p0
  · subst e; rw [ho]; simp [Option.filter]
  · simp only [e, if_false]
    rw [h.2 p, filter_succ_ne]
    intro hc; exact e (hu p hc)

theorem pinsOK_miss {k : Nat} {orig reb : List (Option Nat)} (h : pinsOK k orig reb)
    (hu : ∀ p, orig.getD p none ≠ some k) : pinsOK (k + 1) orig reb :=
  ⟨h.1, fun p => by rw [h.2 p, filter_succ_ne (hu p)]⟩

theorem pinsOK_zero (orig : List (Option Nat)) : pinsOK 0 orig [] := by
  refine ⟨by simp [noTrail], fun p => ?_⟩
  cases h : orig.getD p none <;> simp [Option.filter]

def Inv (nn : NNet) (k : Nat) (st : Array NodeD × Array LineD) : Prop :=
  st.2.size = k ∧ st.1.size = nn.net.nodes.size ∧ ∀ i, i < nn.net.nodes.size →
    ∃ n, st.1[i]? = some n ∧ n.kind = (nn.net.node i).kind ∧
      pinsOK k (nn.net.node i).ins n.ins ∧ pinsOK k (nn.net.node i).outs n.outs

theorem node_getElem? (net : Net) (i : Nat) (h : i < net.nodes.size) : net.nodes[i]? = some (net.node i) := by
  simp [Net.node, Array.getD_eq_getD_getElem?, Array.getElem?_eq_getElem h]

theorem inv_zero (nn : NNet) : Inv nn 0 (blank nn.net.nodes, #[]) := by
  refine ⟨rfl, by simp [blank], fun i hi => ?_⟩
  refine ⟨{ nn.net.node i with ins := [], outs := [] }, ?_, rfl, pinsOK_zero _, pinsOK_zero _⟩
  simp [blank, Array.getElem?_map, node_getElem? nn.net i hi]

theorem inv_step (nn : NNet) (w : WF nn) (k : Nat) (hk : k < nn.net.lines.size) (st : Array NodeD × Array LineD)
    (h : Inv nn k st) :
    Inv nn (k + 1) (addLine st (nn.net.line k).driver (nn.net.line k).dpin (nn.net.line k).reader (nn.net.line k).rpin) := by
  obtain ⟨h1, h2, h3⟩ := h
  obtain ⟨bd, br, bo, bi⟩ := w.back k hk
  refine ⟨by simp [addLine, h1], by simp [addLine, Array.size_modify, h2], fun i hi => ?_⟩
  obtain ⟨n, hn, hkind, hins, houts⟩ := h3 i hi
  refine ⟨{ kind := n.kind,
            ins := if (nn.net.line k).reader = i then growSet n.ins (nn.net.line k).rpin (some k) else n.ins,
            outs := if (nn.net.line k).driver = i then growSet n.outs (nn.net.line k).dpin (some k) else n.outs }, ?_, hkind, ?_, ?_⟩
  · simp only [addLine, Array.getElem?_modify, hn, h1]
    by_cases e1 : (nn.net.line k).reader = i <;> by_cases e2 : (nn.net.line k).driver = i <;> simp [e1, e2]
  · by_cases e : (nn.net.line k).reader = i
    · simp only [e, if_true]
      apply pinsOK_hit hins (e ▸ bi)
      intro p hp
      exact ((w.fwdIn i hi p k hp).2.2).symm
    · simp only [e, if_false]
      apply pinsOK_miss hins
      intro p hp
      exact e (w.fwdIn i hi p k hp).2.1
  · by_cases e : (nn.net.line k).driver = i
    · simp only [e, if_true]
      apply pinsOK_hit houts (e ▸ bo)
      intro p hp
      exact ((w.fwdOut i hi p k hp).2.2).symm
    · simp only [e, if_false]
      apply pinsOK_miss houts
      intro p hp
      exact e (w.fwdOut i hi p k hp).2.1

theorem inv_foldl (nn : NNet) (w : WF nn) : ∀ (suf pre : List LineD) (st : Array NodeD × Array LineD),
    pre ++ suf = nn.net.lines.toList → Inv nn pre.length st →
    Inv nn nn.net.lines.size
      (suf.foldl (fun st ln => addLine st ln.driver ln.dpin ln.reader ln.rpin) st)
  | [], pre, st, hp, h => by
    simp only [List.foldl_nil]
    have : pre.length = nn.net.lines.size := by
      rw [← Array.length_toList, ← hp]; simp
    rw [← this]; exact h
  | ln :: suf, pre, st, hp, h => by
    simp only [List.foldl_cons]
    have hlen : pre.length < nn.net.lines.size := by
      rw [← Array.length_toList, ← hp]; simp
    have hln : nn.net.line pre.length = ln := by
      have : nn.net.lines.toList[pre.length]? = some ln := by rw [← hp]; simp
      simp [Net.line, Array.getD_eq_getD_getElem?, ← Array.getElem?_toList, this]
    have hs := inv_step nn w pre.length hlen st h
    rw [hln] at hs
    have := inv_foldl nn w suf (pre ++ [ln]) _ (by simp [hp]) (by simpa using hs)
    exact this

theorem filter_lt_of_lt {k : Nat} {o : Option Nat} (h : ∀ l, o = some l → l < k) : o.filter (· < k) = o := by
  cases o with
  | none => rfl
  | some l => simp [Option.filter, h l rfl]

theorem inv_final (nn : NNet) (w : WF nn) (st : Array NodeD × Array LineD) (h : Inv nn nn.net.lines.size st) :
    st.1 = nn.net.nodes := by
  obtain ⟨_, h2, h3⟩ := h
  apply Array.ext_getElem?
  intro i
  by_cases hi : i < nn.net.nodes.size
  · obtain ⟨n, hn, hkind, hins, houts⟩ := h3 i hi
    rw [hn, node_getElem? nn.net i hi]
    have e1 : n.ins = (nn.net.node i).ins := by
      apply ext_noTrail _ _ hins.1 (w.trail i hi).1
      intro p; rw [hins.2 p]
      exact filter_lt_of_lt (fun l hl => (w.fwdIn i hi p l hl).1)
    have e2 : n.outs = (nn.net.node i).outs := by
      apply ext_noTrail _ _ houts.1 (w.trail i hi).2
      intro p; rw [houts.2 p]
      exact filter_lt_of_lt (fun l hl => (w.fwdOut i hi p l hl).1)
    cases n; cases hnode : nn.net.node i
    simp_all
  · rw [Array.getElem?_eq_none (by omega), Array.getElem?_eq_none (by omega)]

theorem foldl_lines (f : Array NodeD × Array LineD → LineD → Array NodeD × Array LineD)
    (hf : ∀ st ln, (f st ln).2 = st.2.push ln) : ∀ (l : List LineD) st, (l.foldl f st).2 = st.2 ++ l.toArray
  | [], st => by simp
  | ln :: l, st => by
    simp only [List.foldl_cons]
    rw [foldl_lines f hf l, hf]; simp

theorem foldl_congr_mem {α β} (f g : β → α → β) : ∀ (l : List α) (s : β), (∀ x ∈ l, ∀ s, f s x = g s x) →
    l.foldl f s = l.foldl g s
  | [], _, _ => rfl
  | x :: l, s, h => by
    simp only [List.foldl_cons]
    rw [h x (List.mem_cons_self) s]
    exact foldl_congr_mem f g l _ (fun y hy => h y (List.mem_cons_of_mem _ hy))

theorem NNet.ext' {a b : NNet} (h1 : a.net.nodes = b.net.nodes) (h2 : a.net.lines = b.net.lines)
    (h3 : a.net.io = b.net.io) (h4 : a.names = b.names) : a = b := by
  cases a with | mk na sa => cases b with | mk nb sb => cases na; cases nb; simp_all

theorem rebuild_eq (nn : NNet) (w : WF nn) (ix : Nat → Nat) (hix : ∀ i, i < nn.net.nodes.size → ix i = i) :
    rebuild nn ix = nn := by
  have hinv := inv_foldl nn w nn.net.lines.toList [] (blank nn.net.nodes, #[]) (by simp) (inv_zero nn)
  have hnodes := inv_final nn w _ hinv
  have hlines := foldl_lines (fun st ln => addLine st ln.driver ln.dpin ln.reader ln.rpin) (fun st ln => rfl)
    nn.net.lines.toList (blank nn.net.nodes, #[])
  have hfold : nn.net.lines.toList.foldl (fun st ln => addLine st (ix ln.driver) ln.dpin (ix ln.reader) ln.rpin)
        (blank nn.net.nodes, #[]) =
      nn.net.lines.toList.foldl (fun st ln => addLine st ln.driver ln.dpin ln.reader ln.rpin) (blank nn.net.nodes, #[]) := by
    apply foldl_congr_mem
    intro ln hln s
    obtain ⟨k, hk, e⟩ := List.getElem_of_mem hln
    have hk' : k < nn.net.lines.size := by simpa using hk
    have hl : nn.net.line k = ln := by
      simp [Net.line, Array.getD_eq_getD_getElem?, Array.getElem?_eq_getElem hk', ← e]
    have b := w.back k hk'
    rw [hl] at b
    simp only [hix _ b.1, hix _ b.2.1]
  have hio : nn.net.io.map ix = nn.net.io :=
    (List.map_congr_left (fun i hi => hix i (w.io i hi))).trans (List.map_id' _)
  apply NNet.ext'
  · simp only [rebuild]
    rw [hfold]; exact hnodes
  · simp only [rebuild]
    rw [hfold, hlines]; simp
  · exact hio
  · rfl

theorem lookup_key (nn : NNet) (w : WF nn) (i : Nat) (hi : i < nn.net.nodes.size) : nn.lookup (nn.key i) = i := by
  have hlen : i < nn.keys.length := by simp [NNet.keys, hi]
  have hk : nn.keys[i] = nn.key i := by simp [NNet.keys]
  rw [NNet.lookup, ← hk]
  exact idxOf_getElem_nodup nn.keys i hlen w.nodup

end KV.Transform
