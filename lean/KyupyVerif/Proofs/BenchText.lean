import KyupyVerif.Model.BenchText
/-! Round trip print → parse for the bench text model (`Model/BenchText.lean`).

Two halves that meet in the relation `Lexes s ts` ("pulling tokens from `s` yields `ts`, then the end of the text"):
* lexer side (`lexes_render`): a token list printed with ANY layout (`layoutOK`: ignorable gaps, a NAME not directly followed
  by a name character) lexes back to itself;
* parser side (`pStmts_ok`): a text that lexes to the token stream of a statement list parses to that statement list. -/
namespace KV.BenchText
open KV.Netlist

/-! ## the interface between the two halves -/

inductive Lexes : List Char → List Tok → Prop
  | nil {s : List Char} : next s = some (.eof, []) → Lexes s []
  | cons {s r : List Char} {t : Tok} {ts : List Tok} :
      t ≠ .eof → next s = some (t, r) → r.length < s.length → Lexes r ts → Lexes s (t :: ts)

theorem Lexes.length_le {s : List Char} {ts : List Tok} (h : Lexes s ts) : ts.length ≤ s.length := by
  induction h with
  | nil _ => simp
  | cons _ _ hl _ ih => simp only [List.length_cons]; omega

theorem Lexes.cons_inv {s : List Char} {t : Tok} {ts : List Tok} (h : Lexes s (t :: ts)) :
    ∃ r, next s = some (t, r) ∧ Lexes r ts := by
  cases h with
  | cons _ hn _ hr => exact ⟨_, hn, hr⟩

theorem Lexes.nil_inv {s : List Char} (h : Lexes s []) : next s = some (.eof, []) := by
  cases h with
  | nil hn => exact hn

/-! ## parser side -/

/-- `, a , b )` -/
def tailT : List String → List Tok
  | [] => [.rpar]
  | n :: r => .comma :: .name n.toList :: tailT r

/-- `( a , b )` -/
def paramT : List String → List Tok
  | [] => [.lpar, .rpar]
  | n :: r => .lpar :: .name n.toList :: tailT r

def stmtT : BStmt → List Tok
  | .intf ns => .name kwInput :: paramT ns
  | .gate n k d => .name n.toList :: .eq :: .name k.toList :: paramT d

theorem tailT_length (ns : List String) : (tailT ns).length = 2 * ns.length + 1 := by
  induction ns with
  | nil => rfl
  | cons n r ih => simp only [tailT, List.length_cons, ih]; omega

theorem paramT_length (ns : List String) : (paramT ns).length = 2 * ns.length + 2 - (if ns.isEmpty then 0 else 1) := by
  cases ns with
  | nil => rfl
  | cons n r => simp [paramT, tailT_length]; omega

theorem namesTG_map_tail (a : String) (r : List String) (g : List Char) :
    (namesTG (a :: r) ++ [(Tok.rpar, g)]).map (·.1) = .name a.toList :: tailT r := by
  induction r generalizing a with
  | nil => rfl
  | cons b r ih =>
    simp only [namesTG, List.cons_append, List.map_cons, tailT]
    rw [ih b]

theorem paramsTG_map (ns : List String) (e : List Char) : (paramsTG ns e).map (·.1) = paramT ns := by
  cases ns with
  | nil => rfl
  | cons a r =>
    simp only [paramsTG, List.map_cons, paramT]
    rw [namesTG_map_tail]

theorem stmtTG_map (e : List Char) (st : BStmt) : (stmtTG e st).map (·.1) = stmtT st := by
  cases st with
  | intf ns => simp only [stmtTG, List.map_cons, stmtT, paramsTG_map]
  | gate n k d => simp only [stmtTG, List.map_cons, stmtT, paramsTG_map]

theorem benchToks_nil : benchToks [] = [] := rfl

theorem benchToks_cons (st : BStmt) (rest : List BStmt) : benchToks (st :: rest) = stmtT st ++ benchToks rest := by
  simp only [benchToks, benchTG, List.flatMap_cons, List.map_append, stmtTG_map]

theorem pParamsTail_ok (ns : List String) : ∀ (f : Nat) (s : List Char) (ts : List Tok),
    Lexes s (tailT ns ++ ts) → ns.length < f → ∃ r, pParamsTail f s = some (ns, r) ∧ Lexes r ts := by
  induction ns with
  | nil =>
    intro f s ts h hf
    obtain ⟨r, hn, hr⟩ := Lexes.cons_inv h
    cases f with
    | zero => omega
    | succ f => exact ⟨r, by simp only [pParamsTail, hn], hr⟩
  | cons n ns ih =>
    intro f s ts h hf
    obtain ⟨r1, hn1, h1⟩ := Lexes.cons_inv h
    obtain ⟨r2, hn2, h2⟩ := Lexes.cons_inv h1
    cases f with
    | zero => omega
    | succ f =>
      obtain ⟨r3, hp, h3⟩ := ih f r2 ts h2 (by simp only [List.length_cons] at hf; omega)
      exact ⟨r3, by simp only [pParamsTail, hn1, hn2, hp, String.ofList_toList], h3⟩

theorem pParams_ok (ns : List String) (f : Nat) (s : List Char) (ts : List Tok)
    (h : Lexes s (paramT ns ++ ts)) (hf : ns.length ≤ f) : ∃ r, pParams f s = some (ns, r) ∧ Lexes r ts := by
  cases ns with
  | nil =>
    obtain ⟨r1, hn1, h1⟩ := Lexes.cons_inv h
    obtain ⟨r2, hn2, h2⟩ := Lexes.cons_inv h1
    exact ⟨r2, by simp only [pParams, hn1, hn2], h2⟩
  | cons n ns =>
    obtain ⟨r1, hn1, h1⟩ := Lexes.cons_inv h
    obtain ⟨r2, hn2, h2⟩ := Lexes.cons_inv h1
    obtain ⟨r3, hp, h3⟩ := pParamsTail_ok ns f r2 ts h2 (by simp only [List.length_cons] at hf; omega)
    exact ⟨r3, by simp only [pParams, hn1, hn2, hp, String.ofList_toList], h3⟩

theorem isKw_kwInput : isKw kwInput = true := by decide

theorem stmtT_length_gt (st : BStmt) : (match st with | .intf ns => ns.length | .gate _ _ d => d.length) < (stmtT st).length := by
  cases st with
  | intf ns => simp only [stmtT, List.length_cons, paramT_length]; split <;> omega
  | gate n k d => simp only [stmtT, List.length_cons, paramT_length]; split <;> omega

/-- a text that lexes to the token stream of `stmts` parses to `stmts` -/
theorem pStmts_ok (stmts : List BStmt) : ∀ (f : Nat) (s : List Char),
    (∀ st ∈ stmts, validStmt st = true) → Lexes s (benchToks stmts) → (benchToks stmts).length < f →
    pStmts f s = some stmts := by
  induction stmts with
  | nil =>
    intro f s _ h hf
    cases f with
    | zero => omega
    | succ f => simp only [pStmts, Lexes.nil_inv h]
  | cons st rest ih =>
    intro f s hv h hf
    rw [benchToks_cons] at h hf
    have hlen := stmtT_length_gt st
    cases f with
    | zero => omega
    | succ f =>
      have hrest : ∀ st ∈ rest, validStmt st = true := fun x hx => hv x (List.mem_cons_of_mem _ hx)
      have hst := hv st List.mem_cons_self
      cases st with
      | intf ns =>
        simp only [stmtT, List.cons_append] at h
        obtain ⟨r1, hn1, h1⟩ := Lexes.cons_inv h
        obtain ⟨r2, hp, h2⟩ := pParams_ok ns f r1 _ h1 (by simp only [List.length_append] at hf hlen ⊢; omega)
        have := ih f r2 hrest h2 (by simp only [List.length_append] at hf; omega)
        simp only [pStmts, hn1, isKw_kwInput, if_true, hp, this]
      | gate n k d =>
        simp only [stmtT, List.cons_append] at h
        obtain ⟨r1, hn1, h1⟩ := Lexes.cons_inv h
        obtain ⟨r2, hn2, h2⟩ := Lexes.cons_inv h1
        obtain ⟨r3, hn3, h3⟩ := Lexes.cons_inv h2
        obtain ⟨r4, hp, h4⟩ := pParams_ok d f r3 _ h3 (by simp only [List.length_append] at hf hlen ⊢; omega)
        have := ih f r4 hrest h4 (by simp only [List.length_append] at hf; omega)
        have hk : isKw n.toList = false := by
          simp only [validStmt, Bool.and_eq_true, Bool.not_eq_true'] at hst
          exact hst.1.1.2
        simp only [pStmts, hn1, hk, hn2, hn3, hp, this, String.ofList_toList]
        simp

/-- from the token stream to the statement list, with the fuel `parseChars` uses -/
theorem parseChars_of_lexes (stmts : List BStmt) (s : List Char) (hv : ∀ st ∈ stmts, validStmt st = true)
    (h : Lexes s (benchToks stmts)) : parseChars s = some stmts :=
  pStmts_ok stmts _ s hv h (by have := h.length_le; omega)

/-! ## lexer side -/

theorem beq_false_of_name {c d : Char} (hc : isNameChar c = true) (hd : isNameChar d = false) : (c == d) = false := by
  cases hb : (c == d) with
  | false => rfl
  | true => simp only [beq_iff_eq] at hb; subst hb; rw [hc] at hd; cases hd

theorem notName_of_blank (c : Char) (h : (c == ' ' || c == '\t' || c == '\x0c' || c == '\n') = true) : isNameChar c = false := by
  simp only [Bool.or_eq_true, beq_iff_eq] at h
  rcases h with ((h | h) | h) | h <;> subst h <;> decide

theorem skipC_gap (m : Mode) (g : List Char) : gapB m g = true → ∀ x, skipC m (g ++ x) = skipC .ws x := by
  fun_induction gapB m g with
  | case1 => intro _ x; rfl
  | case2 => intro h; simp at h
  | case3 => intro h; simp at h
  | case4 c r hc ih => intro h x; simp only [List.cons_append, skipC, hc, if_true]; exact ih h x
  | case5 c r hc ih => intro h x; simp only [List.cons_append, skipC, hc]; exact ih h x
  | case6 c r hc ih => intro h x; simp only [List.cons_append, skipC, hc, if_true]; exact ih h x
  | case7 c r hc => intro h; simp at h
  | case8 c r hc ih => intro h x; simp only [List.cons_append, skipC, hc, if_true]; exact ih h x
  | case9 c r h1 h2 ih => intro h x; simp only [List.cons_append, skipC, h1, h2, if_true]; exact ih h x
  | case10 c r h1 h2 h3 ih => intro h x; simp only [List.cons_append, skipC, h1, h2, h3, if_true]; exact ih h x
  | case11 c r h1 h2 h3 => intro h; simp at h

theorem gap_headNotName (g x : List Char) (h : gapB .ws g = true) (hg : g ≠ []) : headNotName (g ++ x) = true := by
  cases g with
  | nil => exact absurd rfl hg
  | cons c r =>
    simp only [List.cons_append, headNotName, Bool.not_eq_true']
    simp only [gapB] at h
    split at h
    · next hb => exact notName_of_blank c hb
    · split at h
      · next hb => simp only [beq_iff_eq] at hb; subst hb; decide
      · split at h
        · next hb => simp only [beq_iff_eq] at hb; subst hb; decide
        · simp at h

/-- a token that has a text -/
def tokOK : Tok → Bool
  | .name n => !n.isEmpty && n.all isNameChar
  | .eof => false
  | _ => true

theorem tokText_length_pos (t : Tok) (ht : tokOK t = true) : 0 < (tokText t).length := by
  cases t with
  | name n => cases n with
    | nil => simp [tokOK] at ht
    | cons c r => simp [tokText]
  | eof => simp [tokOK] at ht
  | lpar => simp [tokText]
  | rpar => simp [tokText]
  | comma => simp [tokText]
  | eq => simp [tokText]

theorem tokOK_ne_eof (t : Tok) (ht : tokOK t = true) : t ≠ .eof := by
  intro h; subst h; simp [tokOK] at ht

theorem skipC_tok (t : Tok) (y : List Char) (ht : tokOK t = true) : skipC .ws (tokText t ++ y) = tokText t ++ y := by
  cases t with
  | name n =>
    cases n with
    | nil => simp [tokOK] at ht
    | cons c r =>
      simp only [tokOK, List.all_cons, Bool.and_eq_true] at ht
      have hc := ht.2.1
      have h1 : (c == ' ' || c == '\t' || c == '\x0c' || c == '\n') = false := by
        simp only [beq_false_of_name hc (d := ' ') (by decide), beq_false_of_name hc (d := '\t') (by decide),
          beq_false_of_name hc (d := '\x0c') (by decide), beq_false_of_name hc (d := '\n') (by decide), Bool.or_self]
      simp only [tokText, List.cons_append, skipC, h1, beq_false_of_name hc (d := '#') (by decide),
        beq_false_of_name hc (d := '\r') (by decide), Bool.false_eq_true, if_false]
  | eof => simp [tokOK] at ht
  | lpar => rfl
  | rpar => rfl
  | comma => rfl
  | eq => rfl

theorem nextRaw_tok (t : Tok) (y : List Char) (ht : tokOK t = true) (hy : t.isName = true → headNotName y = true) :
    nextRaw (tokText t ++ y) = some (t, y) := by
  cases t with
  | name n =>
    cases n with
    | nil => simp [tokOK] at ht
    | cons c r =>
      simp only [tokOK, List.all_cons, Bool.and_eq_true] at ht
      have hc := ht.2.1
      have hall : ∀ a ∈ r, isNameChar a = true := by simpa using ht.2.2
      have hy' := hy rfl
      have htw : (r ++ y).takeWhile isNameChar = r ∧ (r ++ y).dropWhile isNameChar = y := by
        rw [List.takeWhile_append_of_pos hall, List.dropWhile_append_of_pos hall]
        cases y with
        | nil => simp
        | cons d y' =>
          simp only [headNotName, Bool.not_eq_true'] at hy'
          simp [hy']
      simp only [tokText, List.cons_append, nextRaw, beq_false_of_name hc (d := '(') (by decide),
        beq_false_of_name hc (d := ')') (by decide), beq_false_of_name hc (d := ',') (by decide),
        beq_false_of_name hc (d := '=') (by decide), hc, if_true, htw.1, htw.2, Bool.false_eq_true, if_false]
  | eof => simp [tokOK] at ht
  | lpar => rfl
  | rpar => rfl
  | comma => rfl
  | eq => rfl

/-- one pull: gap, token, rest -/
theorem next_gap_tok (g0 : List Char) (t : Tok) (y : List Char) (hg : gapB .ws g0 = true) (ht : tokOK t = true)
    (hy : t.isName = true → headNotName y = true) : next (g0 ++ (tokText t ++ y)) = some (t, y) := by
  rw [next, skipC_gap .ws g0 hg, skipC_tok t y ht, nextRaw_tok t y ht hy]

theorem next_gap_end (g0 : List Char) (hg : gapB .ws g0 = true) : next g0 = some (.eof, []) := by
  have := skipC_gap .ws g0 hg []
  rw [List.append_nil] at this
  rw [next, this]; rfl

/-- any layout of a token list lexes back to the token list -/
theorem lexes_render (l : List (Tok × List Char)) : ∀ (g0 : List Char), gapB .ws g0 = true →
    (∀ p ∈ l, tokOK p.1 = true) → layoutOK l = true → Lexes (g0 ++ renderTG l) (l.map (·.1)) := by
  induction l with
  | nil => intro g0 hg _ _; simp only [renderTG, List.append_nil, List.map_nil]; exact .nil (next_gap_end g0 hg)
  | cons p r ih =>
    intro g0 hg hok hl
    obtain ⟨t, g⟩ := p
    simp only [layoutOK, Bool.and_eq_true, Bool.or_eq_true, Bool.not_eq_true'] at hl
    have ht : tokOK t = true := hok (t, g) List.mem_cons_self
    simp only [renderTG, List.map_cons]
    refine .cons (tokOK_ne_eof t ht) (next_gap_tok g0 t _ hg ht ?_) ?_ (ih g hl.1.1 (fun p hp => hok p (List.mem_cons_of_mem _ hp)) hl.2)
    · intro hn
      rcases hl.1.2 with h | h
      · rw [hn] at h; cases h
      · exact h
    · have := tokText_length_pos t ht
      simp only [List.length_append]; omega

/-! ## the token stream of valid statements; the canonical layout -/

theorem tokOK_name (s : String) : tokOK (.name s.toList) = validName s := rfl

theorem tailT_ok (ns : List String) (h : ns.all validName = true) : ∀ t ∈ tailT ns, tokOK t = true := by
  induction ns with
  | nil => intro t ht; simp only [tailT, List.mem_singleton] at ht; subst ht; rfl
  | cons n r ih =>
    simp only [List.all_cons, Bool.and_eq_true] at h
    intro t ht
    simp only [tailT, List.mem_cons] at ht
    rcases ht with ht | ht | ht
    · subst ht; rfl
    · subst ht; exact h.1
    · exact ih h.2 t ht

theorem paramT_ok (ns : List String) (h : ns.all validName = true) : ∀ t ∈ paramT ns, tokOK t = true := by
  cases ns with
  | nil => intro t ht; simp only [paramT, List.mem_cons, List.not_mem_nil, or_false] at ht; rcases ht with ht | ht <;> subst ht <;> rfl
  | cons n r =>
    simp only [List.all_cons, Bool.and_eq_true] at h
    intro t ht
    simp only [paramT, List.mem_cons] at ht
    rcases ht with ht | ht | ht
    · subst ht; rfl
    · subst ht; exact h.1
    · exact tailT_ok r h.2 t ht

theorem stmtT_ok (st : BStmt) (h : validStmt st = true) : ∀ t ∈ stmtT st, tokOK t = true := by
  cases st with
  | intf ns =>
    intro t ht
    simp only [stmtT, List.mem_cons] at ht
    rcases ht with ht | ht
    · subst ht; decide
    · exact paramT_ok ns h t ht
  | gate n k d =>
    simp only [validStmt, Bool.and_eq_true] at h
    intro t ht
    simp only [stmtT, List.mem_cons] at ht
    rcases ht with ht | ht | ht | ht
    · subst ht; exact h.1.1.1
    · subst ht; rfl
    · subst ht; exact h.1.2
    · exact paramT_ok d h.2 t ht

theorem benchToks_ok (stmts : List BStmt) (hv : ∀ st ∈ stmts, validStmt st = true) : ∀ t ∈ benchToks stmts, tokOK t = true := by
  induction stmts with
  | nil => intro t ht; simp [benchToks_nil] at ht
  | cons st rest ih =>
    intro t ht
    rw [benchToks_cons, List.mem_append] at ht
    rcases ht with ht | ht
    · exact stmtT_ok st (hv st List.mem_cons_self) t ht
    · exact ih (fun x hx => hv x (List.mem_cons_of_mem _ hx)) t ht

/-- layout steps -/
theorem layoutOK_punct (t : Tok) (g : List Char) (rest : List (Tok × List Char)) (ht : t.isName = false)
    (hg : gapB .ws g = true) : layoutOK ((t, g) :: rest) = layoutOK rest := by
  simp only [layoutOK, hg, ht, Bool.not_false, Bool.true_or, Bool.and_self, Bool.true_and]

theorem layoutOK_name_gap (n g : List Char) (rest : List (Tok × List Char)) (hg : gapB .ws g = true) (hne : g ≠ []) :
    layoutOK ((.name n, g) :: rest) = layoutOK rest := by
  simp only [layoutOK, hg, gap_headNotName g _ hg hne, Bool.or_true, Bool.and_self, Bool.true_and]

theorem layoutOK_name_punct (n : List Char) (t : Tok) (g : List Char) (rest : List (Tok × List Char))
    (ht : headNotName (tokText t) = true) (hte : tokText t ≠ []) :
    layoutOK ((.name n, []) :: (t, g) :: rest) = layoutOK ((t, g) :: rest) := by
  have : headNotName ([] ++ renderTG ((t, g) :: rest)) = true := by
    simp only [List.nil_append, renderTG]
    cases htt : tokText t with
    | nil => exact absurd htt hte
    | cons c r => rw [htt] at ht; exact ht
  simp only [layoutOK, this, gapB, Bool.or_true, Bool.and_self, Bool.true_and]

theorem layout_names (ns : List String) (e : List Char) (he : gapB .ws e = true) (rest : List (Tok × List Char)) :
    layoutOK (namesTG ns ++ (.rpar, e) :: rest) = layoutOK rest := by
  fun_induction namesTG ns with
  | case1 => exact layoutOK_punct _ _ _ rfl he
  | case2 a =>
    simp only [List.cons_append, List.nil_append]
    rw [layoutOK_name_punct _ _ _ _ (by decide) (by decide)]
    exact layoutOK_punct _ _ _ rfl he
  | case3 a b r ih =>
    simp only [List.cons_append]
    rw [layoutOK_name_punct _ _ _ _ (by decide) (by decide), layoutOK_punct _ _ _ rfl (by decide)]
    exact ih

theorem layout_params (ns : List String) (e : List Char) (he : gapB .ws e = true) (rest : List (Tok × List Char)) :
    layoutOK (paramsTG ns e ++ rest) = layoutOK rest := by
  simp only [paramsTG, List.cons_append, List.append_assoc, List.nil_append]
  rw [layoutOK_punct _ _ _ rfl (by decide)]
  exact layout_names ns e he rest

theorem layout_stmt (e : List Char) (he : gapB .ws e = true) (st : BStmt) (rest : List (Tok × List Char)) :
    layoutOK (stmtTG e st ++ rest) = layoutOK rest := by
  cases st with
  | intf ns =>
    simp only [stmtTG, List.cons_append]
    simp only [paramsTG, List.cons_append]
    rw [layoutOK_name_punct _ _ _ _ (by decide) (by decide)]
    have := layout_params ns e he rest
    simp only [paramsTG, List.cons_append] at this
    exact this
  | gate n k d =>
    simp only [stmtTG, List.cons_append]
    rw [layoutOK_name_gap _ _ _ (by decide) (by decide), layoutOK_punct _ _ _ rfl (by decide)]
    simp only [paramsTG, List.cons_append]
    rw [layoutOK_name_punct _ _ _ _ (by decide) (by decide)]
    have := layout_params d e he rest
    simp only [paramsTG, List.cons_append] at this
    exact this

theorem layout_bench (stmts : List BStmt) : layoutOK (benchTG stmts) = true := by
  induction stmts with
  | nil => rfl
  | cons st rest ih => simp only [benchTG, List.flatMap_cons] at ih ⊢; rw [layout_stmt _ (by decide)]; exact ih

theorem layout_benchWith (sg : List (BStmt × List Char)) (hg : ∀ p ∈ sg, gapB .ws p.2 = true) : layoutOK (benchTGWith sg) = true := by
  induction sg with
  | nil => rfl
  | cons p rest ih =>
    simp only [benchTGWith, List.flatMap_cons] at ih ⊢
    rw [layout_stmt _ (hg p List.mem_cons_self)]
    exact ih (fun q hq => hg q (List.mem_cons_of_mem _ hq))

theorem benchTGWith_toks (sg : List (BStmt × List Char)) : (benchTGWith sg).map (·.1) = benchToks (sg.map (·.1)) := by
  induction sg with
  | nil => rfl
  | cons p rest ih =>
    simp only [List.map_cons, benchToks_cons, ← ih]
    simp only [benchTGWith, List.flatMap_cons, List.map_append, stmtTG_map]

/-! ## the round trip -/

/-- every layout of the token stream of a valid statement list parses to that statement list -/
theorem parse_layout (stmts : List BStmt) (hv : ∀ st ∈ stmts, validStmt st = true) (g0 : List Char)
    (l : List (Tok × List Char)) (hl : l.map (·.1) = benchToks stmts) (hg0 : gapB .ws g0 = true)
    (hlay : layoutOK l = true) : parseChars (g0 ++ renderTG l) = some stmts := by
  apply parseChars_of_lexes stmts _ hv
  rw [← hl]
  refine lexes_render l g0 hg0 (fun p hp => benchToks_ok stmts hv p.1 ?_) hlay
  rw [← hl]; exact List.mem_map_of_mem hp

theorem parse_print (stmts : List BStmt) (hv : ∀ st ∈ stmts, validStmt st = true) :
    parseBench (printBench stmts) = some stmts := by
  simp only [parseBench, printBench, String.toList_ofList]
  exact parse_layout stmts hv [] (benchTG stmts) rfl rfl (layout_bench stmts)

/-! ## an unclosed comment at the very end -/

theorem headNotName_tail (tail : List Char) (h : tailOK tail = true) : headNotName tail = true := by
  cases tail with
  | nil => rfl
  | cons c body =>
    simp only [tailOK, Bool.and_eq_true, beq_iff_eq] at h
    rw [h.1]; simp [headNotName]; decide

theorem headNotName_append (x tail : List Char) (hx : headNotName x = true) (ht : headNotName tail = true) :
    headNotName (x ++ tail) = true := by
  cases x with
  | nil => exact ht
  | cons c r => exact hx

theorem next_gap_tail (g0 tail : List Char) (hg : gapB .ws g0 = true) (ht : tailOK tail = true) :
    next (g0 ++ tail) = some (.eof, []) := by
  rw [next, skipC_gap .ws g0 hg]
  cases tail with
  | nil => rfl
  | cons c body =>
    simp only [tailOK, Bool.and_eq_true, beq_iff_eq, List.isEmpty_iff] at ht
    rw [ht.1]
    simp only [skipC]
    simp [ht.2, nextRaw]

/-- any layout of a token list, followed by an unclosed `#` comment, lexes back to the token list -/
theorem lexes_render_tail (tail : List Char) (ht : tailOK tail = true) (l : List (Tok × List Char)) :
    ∀ (g0 : List Char), gapB .ws g0 = true → (∀ p ∈ l, tokOK p.1 = true) → layoutOK l = true →
    Lexes (g0 ++ (renderTG l ++ tail)) (l.map (·.1)) := by
  induction l with
  | nil => intro g0 hg _ _; simp only [renderTG, List.nil_append, List.map_nil]; exact .nil (next_gap_tail g0 tail hg ht)
  | cons p r ih =>
    intro g0 hg hok hl
    obtain ⟨t, g⟩ := p
    simp only [layoutOK, Bool.and_eq_true, Bool.or_eq_true, Bool.not_eq_true'] at hl
    have htk : tokOK t = true := hok (t, g) List.mem_cons_self
    simp only [renderTG, List.map_cons, List.append_assoc]
    refine .cons (tokOK_ne_eof t htk) (next_gap_tok g0 t _ hg htk ?_) ?_
      (ih g hl.1.1 (fun p hp => hok p (List.mem_cons_of_mem _ hp)) hl.2)
    · intro hn
      rcases hl.1.2 with h | h
      · rw [hn] at h; cases h
      · rw [← List.append_assoc]
        exact headNotName_append _ tail h (headNotName_tail tail ht)
    · have := tokText_length_pos t htk
      simp only [List.length_append]; omega

theorem parse_layout_tail (stmts : List BStmt) (hv : ∀ st ∈ stmts, validStmt st = true) (g0 tail : List Char)
    (l : List (Tok × List Char)) (hl : l.map (·.1) = benchToks stmts) (hg0 : gapB .ws g0 = true)
    (hlay : layoutOK l = true) (ht : tailOK tail = true) : parseChars (g0 ++ (renderTG l ++ tail)) = some stmts := by
  apply parseChars_of_lexes stmts _ hv
  rw [← hl]
  refine lexes_render_tail tail ht l g0 hg0 (fun p hp => benchToks_ok stmts hv p.1 ?_) hlay
  rw [← hl]; exact List.mem_map_of_mem hp

/-! ## token classes: every spelling of the interface keyword (audit finding 10(a)) -/

def stmtTK (kw : List Char) : BStmt → List Tok
  | .intf ns => .name kw :: paramT ns
  | .gate n k d => stmtT (.gate n k d)

theorem stmtTGK_map (kw e : List Char) (st : BStmt) : (stmtTGK kw e st).map (·.1) = stmtTK kw st := by
  cases st with
  | intf ns => simp only [stmtTGK, List.map_cons, stmtTK, paramsTG_map]
  | gate n k d => simp only [stmtTGK, stmtTK, stmtTG_map]

theorem benchToksK_nil : benchToksK [] = [] := rfl

theorem benchToksK_cons (p : List Char × BStmt) (rest : List (List Char × BStmt)) :
    benchToksK (p :: rest) = stmtTK p.1 p.2 ++ benchToksK rest := by
  simp only [benchToksK, List.flatMap_cons, stmtTGK_map]

/-- the canonical stream is the one with every keyword spelled `INPUT` -/
theorem benchToksK_canon (stmts : List BStmt) : benchToksK (stmts.map fun st => (kwInput, st)) = benchToks stmts := by
  induction stmts with
  | nil => rfl
  | cons st rest ih =>
    rw [List.map_cons, benchToksK_cons, benchToks_cons, ih]
    cases st <;> rfl

/-- `isKw` is exactly the four literals of the grammar -/
theorem isKw_iff (n : List Char) :
    isKw n = true ↔ n = "INPUT".toList ∨ n = "input".toList ∨ n = "OUTPUT".toList ∨ n = "output".toList := by
  simp only [isKw, Bool.or_eq_true, beq_iff_eq, or_assoc]
  rfl

theorem tokOK_kw (kw : List Char) (h : isKw kw = true) : tokOK (.name kw) = true := by
  rcases (isKw_iff kw).mp h with h | h | h | h <;> subst h <;> decide

theorem stmtTK_length_gt (kw : List Char) (st : BStmt) :
    (match st with | .intf ns => ns.length | .gate _ _ d => d.length) < (stmtTK kw st).length := by
  cases st with
  | intf ns => simp only [stmtTK, List.length_cons, paramT_length]; split <;> omega
  | gate n k d => exact stmtT_length_gt (.gate n k d)

/-- a text that lexes to the token stream of `ks` — every interface keyword in its own spelling — parses to the statements -/
theorem pStmts_okK (ks : List (List Char × BStmt)) : ∀ (f : Nat) (s : List Char),
    kwsOK ks = true → (∀ p ∈ ks, validStmt p.2 = true) → Lexes s (benchToksK ks) → (benchToksK ks).length < f →
    pStmts f s = some (ks.map (·.2)) := by
  induction ks with
  | nil =>
    intro f s _ _ h hf
    cases f with
    | zero => omega
    | succ f => simp only [pStmts, Lexes.nil_inv h, List.map_nil]
  | cons p rest ih =>
    intro f s hk hv h hf
    rw [benchToksK_cons] at h hf
    obtain ⟨kw, st⟩ := p
    have hlen := stmtTK_length_gt kw st
    simp only [kwsOK, List.all_cons, Bool.and_eq_true] at hk
    cases f with
    | zero => omega
    | succ f =>
      have hrest : ∀ q ∈ rest, validStmt q.2 = true := fun x hx => hv x (List.mem_cons_of_mem _ hx)
      have hst := hv (kw, st) List.mem_cons_self
      cases st with
      | intf ns =>
        simp only [stmtTK, List.cons_append] at h
        obtain ⟨r1, hn1, h1⟩ := Lexes.cons_inv h
        obtain ⟨r2, hp, h2⟩ := pParams_ok ns f r1 _ h1 (by simp only [List.length_append] at hf hlen ⊢; omega)
        have := ih f r2 hk.2 hrest h2 (by simp only [List.length_append] at hf; omega)
        have hkw : isKw kw = true := hk.1
        simp only [pStmts, hn1, hkw, if_true, hp, this, List.map_cons]
      | gate n k d =>
        simp only [stmtTK, stmtT, List.cons_append] at h
        obtain ⟨r1, hn1, h1⟩ := Lexes.cons_inv h
        obtain ⟨r2, hn2, h2⟩ := Lexes.cons_inv h1
        obtain ⟨r3, hn3, h3⟩ := Lexes.cons_inv h2
        obtain ⟨r4, hp, h4⟩ := pParams_ok d f r3 _ h3 (by simp only [List.length_append] at hf hlen ⊢; omega)
        have := ih f r4 hk.2 hrest h4 (by simp only [List.length_append] at hf; omega)
        have hkn : isKw n.toList = false := by
          simp only [validStmt, Bool.and_eq_true, Bool.not_eq_true'] at hst
          exact hst.1.1.2
        simp only [pStmts, hn1, hkn, hn2, hn3, hp, this, String.ofList_toList, List.map_cons]
        simp

theorem stmtTK_ok (kw : List Char) (st : BStmt) (hk : kwOK (kw, st) = true) (h : validStmt st = true) :
    ∀ t ∈ stmtTK kw st, tokOK t = true := by
  cases st with
  | intf ns =>
    have hk : isKw kw = true := hk
    intro t ht
    simp only [stmtTK, List.mem_cons] at ht
    rcases ht with ht | ht
    · subst ht; exact tokOK_kw kw hk
    · exact paramT_ok ns h t ht
  | gate n k d => exact stmtT_ok (.gate n k d) h

theorem benchToksK_ok (ks : List (List Char × BStmt)) (hk : kwsOK ks = true) (hv : ∀ p ∈ ks, validStmt p.2 = true) :
    ∀ t ∈ benchToksK ks, tokOK t = true := by
  induction ks with
  | nil => intro t ht; simp [benchToksK_nil] at ht
  | cons p rest ih =>
    simp only [kwsOK, List.all_cons, Bool.and_eq_true] at hk
    intro t ht
    rw [benchToksK_cons, List.mem_append] at ht
    rcases ht with ht | ht
    · exact stmtTK_ok p.1 p.2 hk.1 (hv p List.mem_cons_self) t ht
    · exact ih hk.2 (fun x hx => hv x (List.mem_cons_of_mem _ hx)) t ht

/-- every layout of a token stream in which each interface statement is spelled with ANY of the four keyword literals parses to
the statement list; an unclosed `#` comment may follow -/
theorem parse_layout_kw (ks : List (List Char × BStmt)) (hk : kwsOK ks = true) (hv : ∀ p ∈ ks, validStmt p.2 = true)
    (g0 tail : List Char) (l : List (Tok × List Char)) (hl : l.map (·.1) = benchToksK ks) (hg0 : gapB .ws g0 = true)
    (hlay : layoutOK l = true) (ht : tailOK tail = true) :
    parseChars (g0 ++ (renderTG l ++ tail)) = some (ks.map (·.2)) := by
  have hlex : Lexes (g0 ++ (renderTG l ++ tail)) (benchToksK ks) := by
    rw [← hl]
    refine lexes_render_tail tail ht l g0 hg0 (fun p hp => benchToksK_ok ks hk hv p.1 ?_) hlay
    rw [← hl]; exact List.mem_map_of_mem hp
  exact pStmts_okK ks _ _ hk hv hlex (by have := hlex.length_le; omega)

/-- the class is exact: a statement-leading NAME that is NOT one of the four literals followed by `(` is a syntax error
(`Input(a)`, `OutPut(z)`: the name is read as an assignment target and `=` must follow) -/
theorem not_kw_not_interface (n : List Char) (hn : isKw n = false) (s : List Char) (ts : List Tok)
    (h : Lexes s (.name n :: .lpar :: ts)) : parseChars s = none := by
  obtain ⟨r1, hn1, h1⟩ := Lexes.cons_inv h
  obtain ⟨r2, hn2, _⟩ := Lexes.cons_inv h1
  simp only [parseChars, pStmts, hn1, hn, hn2, Bool.false_eq_true, if_false]

end KV.BenchText
