import KyupyVerif.Model.SdfText
import KyupyVerif.Proofs.TextLex
/-! Round trip of the SDF text model: `parseSdfL (printSdfL f) = some f` for every valid tree `f`.

Structure: (1) scanner facts — how each state's scanner reads the pieces the printer emits (one blank in front of a
token, keywords, names, number fields); (2) one lemma per reader function, by induction over the printed list;
(3) the file-level theorem; (4) the hand-over `toRaw` on printed thousandths. -/
namespace KV.SdfText
open KV.TextLex

/-! ## scanner facts -/
theorem skip0_other (c : Char) (r : List Char) (h1 : c ≠ '\n') (h2 : c ≠ '/') (h3 : c ≠ '\r') :
    skip0 false (c :: r) = c :: r := by
  cases r <;> simp [skip0, h1, h2, h3]

theorem ign0M_none (c : Char) (r : List Char) (h1 : c ≠ '\n') (h2 : c ≠ '/') (h3 : c ≠ '\r') :
    ign0M (c :: r) = none := by
  simp [ign0M, skip0_other c r h1 h2 h3]

theorem ign0M_nil : ign0M [] = none := by simp [ign0M, skip0]

theorem blankM_one (c : Char) (R : List Char) (hc : isBlank c = false) :
    blankM (' ' :: c :: R) = some ([' '], c :: R) := by
  simp [blankM, plus, spanP, isBlank] at hc ⊢
  simp [hc]

theorem blankM_none (c : Char) (R : List Char) (hc : isBlank c = false) : blankM (c :: R) = none := by
  simp [blankM, plus, spanP, hc]

/-- one blank in front of a non-blank character is skipped in the states that scan the ignored terminals first -/
theorem next_blank (ts : List Tm) (c : Char) (R : List Char) (hc : isBlank c = false) :
    next L (.ign0 :: .ign1 :: ts) (' ' :: c :: R) = next L (.ign0 :: .ign1 :: ts) (c :: R) := by
  apply next_ign L _ _ .ign1 [' '] (c :: R)
  · simp [first, L, Tm.run, ign0M_none, blankM_one c R hc]
  · rfl
  · simp

theorem idM_blank (R : List Char) : idM (' ' :: R) = none := by
  simp [idM, orElse, delimited, plus, spanP, isIdCh]
theorem ioeM_blank (R : List Char) : ioeM (' ' :: R) = none := by
  simp [ioeM, orElse, delimited, plus, spanP, isIoeCh]

/-- … and in the states that try a name terminal first (a blank is not a name character) -/
theorem next_blank_id (ts : List Tm) (c : Char) (R : List Char) (hc : isBlank c = false) :
    next L (.id :: .ign0 :: .ign1 :: ts) (' ' :: c :: R) = next L (.id :: .ign0 :: .ign1 :: ts) (c :: R) := by
  apply next_ign L _ _ .ign1 [' '] (c :: R)
  · simp [first, L, idM_blank, Tm.run, ign0M_none, blankM_one c R hc]
  · rfl
  · simp

theorem next_blank_ioe (ts : List Tm) (c : Char) (R : List Char) (hc : isBlank c = false) :
    next L (.idOrEdge :: .ign0 :: .ign1 :: ts) (' ' :: c :: R) = next L (.idOrEdge :: .ign0 :: .ign1 :: ts) (c :: R) := by
  apply next_ign L _ _ .ign1 [' '] (c :: R)
  · simp [first, L, ioeM_blank, Tm.run, ign0M_none, blankM_one c R hc]
  · rfl
  · simp

/-! ### keywords and punctuation, state by state -/
macro "lex_first" : tactic =>
  `(tactic| simp [first, L, Tm.run, ign0M_none, blankM_none, isBlank, lit, stripPrefix, Kw.chars, chr])

macro "lex_kw" : tactic =>
  `(tactic| (simp only [Kw.chars, List.cons_append, List.nil_append, sTop, sHdr, sDq, sRpar, sCell, sAbs, sEnt, sTr]
             first
               | (rw [next_blank _ _ _ (by simp [isBlank])]
                  exact next_tok L _ _ _ _ _ (by lex_first) rfl (by simp))
               | exact next_tok L _ _ _ _ _ (by lex_first) rfl (by simp)))

theorem sTop_kw (R : List Char) :
    next L sTop (Kw.delayfile.chars ++ R) = some (.tok (.kw .delayfile) Kw.delayfile.chars, R) := by lex_kw
theorem sHdr_design (R : List Char) :
    next L sHdr (' ' :: (Kw.design.chars ++ R)) = some (.tok (.kw .design) Kw.design.chars, R) := by lex_kw
theorem sHdr_cell (R : List Char) :
    next L sHdr (' ' :: (Kw.cell.chars ++ R)) = some (.tok (.kw .cell) Kw.cell.chars, R) := by lex_kw
theorem sHdr_rpar (R : List Char) : next L sHdr (')' :: R) = some (.tok .rpar [')'], R) := by lex_kw
theorem sDq_blank (R : List Char) : next L sDq (' ' :: '"' :: R) = some (.tok .dq ['"'], R) := by lex_kw
theorem sDq_dq (R : List Char) : next L sDq ('"' :: R) = some (.tok .dq ['"'], R) := by lex_kw
theorem sRpar_rpar (R : List Char) : next L sRpar (')' :: R) = some (.tok .rpar [')'], R) := by lex_kw
theorem sCell_instance (R : List Char) :
    next L sCell (' ' :: (Kw.instance.chars ++ R)) = some (.tok (.kw .instance) Kw.instance.chars, R) := by lex_kw
theorem sCell_delay (R : List Char) :
    next L sCell (' ' :: (Kw.delay.chars ++ R)) = some (.tok (.kw .delay) Kw.delay.chars, R) := by lex_kw
theorem sCell_rpar (R : List Char) : next L sCell (')' :: R) = some (.tok .rpar [')'], R) := by lex_kw
theorem sAbs_kw (R : List Char) :
    next L sAbs (' ' :: (Kw.absolute.chars ++ R)) = some (.tok (.kw .absolute) Kw.absolute.chars, R) := by lex_kw
theorem sEnt_iopath (R : List Char) :
    next L sEnt (' ' :: (Kw.iopath.chars ++ R)) = some (.tok (.kw .iopath) Kw.iopath.chars, R) := by lex_kw
theorem sEnt_interconnect (R : List Char) :
    next L sEnt (' ' :: (Kw.interconnect.chars ++ R)) = some (.tok (.kw .interconnect) Kw.interconnect.chars, R) := by
  lex_kw
theorem sEnt_rpar (R : List Char) : next L sEnt (')' :: R) = some (.tok .rpar [')'], R) := by lex_kw
theorem sTr_lpar (R : List Char) : next L sTr (' ' :: '(' :: R) = some (.tok .lpar ['('], R) := by lex_kw
theorem sTr_rpar (R : List Char) : next L sTr (')' :: R) = some (.tok .rpar [')'], R) := by lex_kw

/-! ### names -/
theorem validPlain_spec (p : Char → Bool) (n : List Char) (h : validPlain p n = true) :
    ∃ c n', n = c :: n' ∧ isBlank c = false ∧ p c = true ∧ ∀ x ∈ n, p x = true := by
  cases n with
  | nil => simp [validPlain] at h
  | cons c n' =>
    simp only [validPlain, Bool.and_eq_true, Bool.not_eq_true', List.all_eq_true] at h
    exact ⟨c, n', rfl, h.1, h.2 c (by simp), h.2⟩

theorem validDelim_spec (o c : Char) (n : List Char) (h : validDelim o c n = true) :
    ∃ t, n = o :: (t ++ [c]) ∧ t ≠ [] ∧ ∀ x ∈ t, x ≠ c := by
  cases n with
  | nil => simp [validDelim] at h
  | cons x r =>
    simp only [validDelim, Bool.and_eq_true, beq_iff_eq, Bool.not_eq_true', List.isEmpty_eq_false_iff,
      List.all_eq_true, decide_eq_true_eq] at h
    obtain ⟨⟨⟨rfl, h2⟩, h3⟩, h4⟩ := h
    refine ⟨r.dropLast, ?_, h3, h4⟩
    have hne : r ≠ [] := by intro e; subst e; simp at h2
    have hl : r.getLast hne = c := by
      rw [List.getLast?_eq_some_getLast hne] at h2; exact Option.some.inj h2
    rw [← hl, List.dropLast_concat_getLast hne]

theorem matcher_plain (p : Char → Bool) (o cl : Char) (n : List Char) (h : validPlain p n = true) (ho : p o = false)
    (c : Char) (R : List Char) (hc : p c = false) :
    orElse (delimited o cl) (plus p) (n ++ c :: R) = some (n, c :: R) := by
  obtain ⟨x, n', rfl, _, hx, hall⟩ := validPlain_spec p n h
  have hxo : x ≠ o := by intro e; rw [e, ho] at hx; cases hx
  simp only [orElse, List.cons_append, delimited_cons_ne o cl x _ hxo]
  have := plus_append p (x :: n') (c :: R) (by simp) hall (by intro y r' e; cases e; exact hc)
  simpa using this

theorem matcher_delim (p : Char → Bool) (o cl : Char) (n : List Char) (h : validDelim o cl n = true) (R : List Char) :
    orElse (delimited o cl) (plus p) (n ++ R) = some (n, R) := by
  obtain ⟨t, rfl, hne, ht⟩ := validDelim_spec o cl n h
  have := delimited_append o cl t R hne ht
  simp only [orElse, List.cons_append, List.append_assoc, List.nil_append, this]

theorem idM_valid (n : List Char) (h : validId n = true) (c : Char) (R : List Char) (hc : isIdCh c = false) :
    idM (n ++ c :: R) = some (n, c :: R) := by
  simp only [validId, Bool.or_eq_true] at h
  rcases h with h | h
  · exact matcher_plain isIdCh '"' '"' n h (by simp [isIdCh]) c R hc
  · exact matcher_delim isIdCh '"' '"' n h (c :: R)

theorem ioeM_valid (n : List Char) (h : validIoe n = true) (c : Char) (R : List Char) (hc : isIoeCh c = false) :
    ioeM (n ++ c :: R) = some (n, c :: R) := by
  simp only [validIoe, Bool.or_eq_true] at h
  rcases h with h | h
  · exact matcher_plain isIoeCh '(' ')' n h (by simp [isIoeCh]) c R hc
  · exact matcher_delim isIoeCh '(' ')' n h (c :: R)

theorem validId_head (n : List Char) (h : validId n = true) : ∃ c n', n = c :: n' ∧ isBlank c = false := by
  simp only [validId, Bool.or_eq_true] at h
  rcases h with h | h
  · obtain ⟨c, n', e, hb, _⟩ := validPlain_spec _ n h; exact ⟨c, n', e, hb⟩
  · obtain ⟨t, e, _⟩ := validDelim_spec _ _ n h; exact ⟨'"', _, e, by simp [isBlank]⟩

theorem validIoe_head (n : List Char) (h : validIoe n = true) : ∃ c n', n = c :: n' ∧ isBlank c = false := by
  simp only [validIoe, Bool.or_eq_true] at h
  rcases h with h | h
  · obtain ⟨c, n', e, hb, _⟩ := validPlain_spec _ n h; exact ⟨c, n', e, hb⟩
  · obtain ⟨t, e, _⟩ := validDelim_spec _ _ n h; exact ⟨'(', _, e, by simp [isBlank]⟩

/-- a blank, then an `ID`, then a character that ends it (`sInst`, `sId`) -/
theorem next_id (ts : List Tm) (n : List Char) (h : validId n = true) (c : Char) (R : List Char)
    (hc : isIdCh c = false) :
    next L (.id :: .ign0 :: .ign1 :: ts) (' ' :: (n ++ c :: R)) = some (.tok .id n, c :: R) := by
  obtain ⟨x, n', e, hb⟩ := validId_head n h
  have h1 := idM_valid n h c R hc
  subst e
  simp only [List.cons_append] at h1 ⊢
  rw [next_blank_id _ _ _ hb]
  exact next_tok L _ _ _ _ _ (by simp [first, L, Tm.run, h1]) rfl (by simp)

theorem next_ioe (ts : List Tm) (n : List Char) (h : validIoe n = true) (c : Char) (R : List Char)
    (hc : isIoeCh c = false) :
    next L (.idOrEdge :: .ign0 :: .ign1 :: ts) (' ' :: (n ++ c :: R)) = some (.tok .idOrEdge n, c :: R) := by
  obtain ⟨x, n', e, hb⟩ := validIoe_head n h
  have h1 := ioeM_valid n h c R hc
  subst e
  simp only [List.cons_append] at h1 ⊢
  rw [next_blank_ioe _ _ _ hb]
  exact next_tok L _ _ _ _ _ (by simp [first, L, Tm.run, h1]) rfl (by simp)

theorem sName_name (n : List Char) (h : validDesign n = true) (R : List Char) :
    next L sName (n ++ '"' :: R) = some (.tok .name n, '"' :: R) := by
  cases n with
  | nil => simp [validDesign] at h
  | cons c n' =>
    simp only [validDesign, ne_eq, decide_not, Bool.and_eq_true, Bool.not_eq_true', decide_eq_false_iff_not,
      List.all_eq_true] at h
    obtain ⟨⟨⟨⟨hb, h1⟩, h2⟩, h3⟩, hall⟩ := h
    have hp := plus_append isNameCh (c :: n') ('"' :: R) (by simp)
      hall (by intro y r' e; cases e; simp [isNameCh])
    simp only [List.cons_append] at hp ⊢
    exact next_tok L _ _ _ _ _
      (by simp [sName, first, L, Tm.run, ign0M_none _ _ h1 h3 h2, blankM_none _ _ hb, hp]) rfl (by simp)

/-! ### number fields -/
theorem numCh_ne (x : Char) (hx : isNumCh x = true) : x ≠ '\n' ∧ x ≠ '/' ∧ x ≠ '\r' ∧ x ≠ ':' ∧ x ≠ ')' := by
  refine ⟨?_, ?_, ?_, ?_, ?_⟩ <;> (intro e; subst e; revert hx; decide)

theorem numM_valid (term : Char) (hterm : isNumCh term = false) (a R : List Char)
    (ha : ∀ x ∈ a, isNumCh x = true) : numM term (a ++ term :: R) = some (a, R) := by
  unfold numM
  rw [spanP_append isNumCh a (term :: R) ha (by intro y r' e; cases e; exact hterm)]
  simp

theorem ign0M_num (term : Char) (h1 : term ≠ '\n') (h2 : term ≠ '/') (h3 : term ≠ '\r') (a R : List Char)
    (ha : ∀ x ∈ a, isNumCh x = true) : ign0M (a ++ term :: R) = none := by
  cases a with
  | nil => exact ign0M_none _ _ h1 h2 h3
  | cons x a =>
    have := numCh_ne x (ha x (by simp))
    exact ign0M_none _ _ this.1 this.2.1 this.2.2.1

theorem validField_chars (s : List Char) (h : validField s = true) : ∀ x ∈ s, isNumCh x = true := by
  simp only [validField, Bool.and_eq_true, List.all_eq_true] at h
  exact h.1

theorem sT1_rpar (R : List Char) : next L sT1 (')' :: R) = some (.tok .rpar [')'], R) := by
  exact next_tok L _ _ _ _ _
    (by simp [sT1, first, L, Tm.run, ign0M_none, blankM_none, isBlank, chr, numM, spanP, isNumCh]) rfl (by simp)

theorem sT1_num (a R : List Char) (ha : ∀ x ∈ a, isNumCh x = true) :
    next L sT1 (a ++ ':' :: R) = some (.tok .numC a, R) := by
  exact next_tok L _ _ _ _ _
    (by simp [sT1, first, L, Tm.run, ign0M_num ':' (by decide) (by decide) (by decide) a R ha,
          numM_valid ':' (by decide) a R ha]) rfl (by simp)

theorem sT2_num (a R : List Char) (ha : ∀ x ∈ a, isNumCh x = true) :
    expect sT2 .numC (a ++ ':' :: R) = some (a, R) := by
  unfold expect
  rw [next_tok L _ _ .numC a R
    (by simp [sT2, first, L, Tm.run, ign0M_num ':' (by decide) (by decide) (by decide) a R ha,
          numM_valid ':' (by decide) a R ha]) rfl (by simp)]
  simp

theorem sT3_num (a R : List Char) (ha : ∀ x ∈ a, isNumCh x = true) :
    expect sT3 .numR (a ++ ')' :: R) = some (a, R) := by
  unfold expect
  rw [next_tok L _ _ .numR a R
    (by simp [sT3, first, L, Tm.run, ign0M_num ')' (by decide) (by decide) (by decide) a R ha,
          numM_valid ')' (by decide) a R ha]) rfl (by simp)]
  simp

/-! ## the reader on printed pieces -/
/-- the text of a value list without its opening parenthesis -/
def tripleBody : TTriple → List Char
  | none => [')']
  | some (a, b, c) => a ++ ':' :: (b ++ ':' :: (c ++ [')']))

theorem pTripleTxt_eq (t : TTriple) : pTripleTxt t = '(' :: tripleBody t := by
  cases t with
  | none => rfl
  | some x => obtain ⟨a, b, c⟩ := x; rfl

theorem pTriple_print (t : TTriple) (h : t.valid = true) (R : List Char) :
    pTriple (tripleBody t ++ R) = some (t, R) := by
  cases t with
  | none => simp [tripleBody, pTriple, sT1_rpar]
  | some x =>
    obtain ⟨a, b, c⟩ := x
    simp only [TTriple.valid, Bool.and_eq_true] at h
    have ha := validField_chars a h.1.1
    have hb := validField_chars b h.1.2
    have hc := validField_chars c h.2
    simp only [tripleBody, List.append_assoc, List.cons_append, List.nil_append, pTriple]
    rw [sT1_num a _ ha]
    simp only [sT2_num b _ hb, sT3_num c _ hc]

theorem pTriples_print (vs : List TTriple) (h : vs.all TTriple.valid = true) (R : List Char) :
    ∀ n, vs.length < n → pTriples n (pTriplesTxt vs ++ ')' :: R) = some (vs, R) := by
  induction vs with
  | nil =>
    intro n hn
    cases n with
    | zero => cases hn
    | succ n => simp [pTriplesTxt, pTriples, sTr_rpar]
  | cons t vs ih =>
    intro n hn
    cases n with
    | zero => cases hn
    | succ n =>
      simp only [List.all_cons, Bool.and_eq_true] at h
      simp only [pTriplesTxt, List.flatMap_cons]
      rw [pTripleTxt_eq t]
      simp only [List.cons_append, List.append_assoc, pTriples, sTr_lpar]
      rw [pTriple_print t h.1]
      have := ih h.2 n (by simp only [List.length_cons] at hn; omega)
      simp only [pTriplesTxt] at this
      simp only [this]

/-- what follows the second name of an entry ends the name -/
theorem triples_head (vs : List TTriple) (R : List Char) :
    ∃ c R', pTriplesTxt vs ++ ')' :: R = c :: R' ∧ isIoeCh c = false ∧ isIdCh c = false := by
  cases vs with
  | nil => exact ⟨')', R, rfl, by simp [isIoeCh], by simp [isIdCh]⟩
  | cons t vs => exact ⟨' ', _, rfl, by simp [isIoeCh], by simp [isIdCh]⟩

/-- the text of an entry after its keyword -/
def entryBody (e : TEntry) : List Char := ' ' :: (e.a ++ ' ' :: (e.b ++ (pTriplesTxt e.vals ++ [')'])))

theorem pEntry_print (N : Nat) (hN : 3 ≤ N) (e : TEntry) (h : e.valid = true) (R : List Char) :
    pEntry N e.io (entryBody e ++ R) = some (e, R) := by
  obtain ⟨io, a, b, vs⟩ := e
  simp only [TEntry.valid, Bool.and_eq_true, Bool.or_eq_true, beq_iff_eq] at h
  obtain ⟨⟨hn, hv⟩, hl⟩ := h
  obtain ⟨c, R', hc, hc1, hc2⟩ := triples_head vs R
  have hlen : vs.length < N := by omega
  have hT := pTriples_print vs hv R N hlen
  simp only [entryBody, List.cons_append, List.append_assoc, List.nil_append]
  cases io with
  | true =>
    simp only [↓reduceIte, Bool.and_eq_true] at hn
    simp only [pEntry, ↓reduceIte, expect, sIoe]
    rw [next_ioe _ a hn.1 ' ' _ (by simp [isIoeCh])]
    simp only [↓reduceIte]
    rw [hc, next_ioe _ b hn.2 c R' hc1, ← hc]
    simp only [↓reduceIte, hT]
  | false =>
    simp only [Bool.false_eq_true, ↓reduceIte, Bool.and_eq_true] at hn
    simp only [pEntry, Bool.false_eq_true, ↓reduceIte, expect, sId]
    rw [next_id _ a hn.1 ' ' _ (by simp [isIdCh])]
    simp only [↓reduceIte]
    rw [hc, next_id _ b hn.2 c R' hc2, ← hc]
    simp only [↓reduceIte, hT]

theorem pEntryTxt_eq (e : TEntry) :
    pEntryTxt e = (if e.io then Kw.iopath.chars else Kw.interconnect.chars) ++ entryBody e := rfl

theorem pEntries_print (N : Nat) (hN : 3 ≤ N) (es : List TEntry) (h : es.all TEntry.valid = true) (R : List Char) :
    ∀ n, es.length < n → pEntries N n (pEntriesTxt es ++ ')' :: R) = some (es, R) := by
  induction es with
  | nil =>
    intro n hn
    cases n with
    | zero => cases hn
    | succ n => simp [pEntriesTxt, pEntries, sEnt_rpar]
  | cons e es ih =>
    intro n hn
    cases n with
    | zero => cases hn
    | succ n =>
      simp only [List.all_cons, Bool.and_eq_true] at h
      have hrec := ih h.2 n (by simp only [List.length_cons] at hn; omega)
      have he := pEntry_print N hN e h.1 (pEntriesTxt es ++ ')' :: R)
      simp only [pEntriesTxt] at hrec
      simp only [pEntriesTxt, List.flatMap_cons]
      rw [pEntryTxt_eq e]
      cases hio : e.io with
      | true =>
        rw [hio] at he
        simp only [↓reduceIte, List.cons_append, List.append_assoc, pEntries, sEnt_iopath, beq_self_eq_true]
        simp only [pEntriesTxt] at he
        rw [he]
        simp only [hrec]
      | false =>
        rw [hio] at he
        simp only [Bool.false_eq_true, ↓reduceIte, List.cons_append, List.append_assoc, pEntries, sEnt_interconnect]
        have : (Kw.interconnect == Kw.iopath) = false := by decide
        simp only [this]
        simp only [pEntriesTxt] at he
        rw [he]
        simp only [hrec]

theorem pDelay_print (N : Nat) (hN : 3 ≤ N) (es : List TEntry) (h : es.all TEntry.valid = true) (hlen : es.length < N)
    (R : List Char) :
    pDelay N (' ' :: (Kw.absolute.chars ++ (pEntriesTxt es ++ ')' :: ')' :: R))) = some (es, R) := by
  simp only [pDelay, expect, sAbs_kw, ↓reduceIte]
  rw [pEntries_print N hN es h (')' :: R) N hlen]
  simp only [sRpar_rpar, ↓reduceIte]

/-! ### cells -/
def delaysTxt (ds : List (List TEntry)) : List Char := ds.flatMap fun es => ' ' :: pDelayTxt es
def instsTxt (ns : List (List Char)) : List Char := ns.flatMap fun n => ' ' :: pInstTxt n

theorem delaysTxt_cons (es : List TEntry) (ds : List (List TEntry)) (R : List Char) :
    delaysTxt (es :: ds) ++ R = ' ' :: (Kw.delay.chars ++
      ' ' :: (Kw.absolute.chars ++ (pEntriesTxt es ++ ')' :: ')' :: (delaysTxt ds ++ R)))) := by
  simp [delaysTxt, pDelayTxt]

theorem instsTxt_cons (x : List Char) (ns : List (List Char)) (R : List Char) :
    instsTxt (x :: ns) ++ R = ' ' :: (Kw.instance.chars ++ ' ' :: (x ++ ')' :: (instsTxt ns ++ R))) := by
  simp [instsTxt, pInstTxt]

theorem pCellItems_delays (N : Nat) (hN : 3 ≤ N) (ds : List (List TEntry))
    (h : ds.all (fun es => es.all TEntry.valid) = true) (hlen : ∀ es ∈ ds, es.length < N) (R : List Char) :
    ∀ n, ds.length < n → pCellItems N n (delaysTxt ds ++ ')' :: R) = some (ds.map .delay, R) := by
  induction ds with
  | nil =>
    intro n hn
    cases n with
    | zero => cases hn
    | succ n => simp [delaysTxt, pCellItems, sCell_rpar]
  | cons es ds ih =>
    intro n hn
    cases n with
    | zero => cases hn
    | succ n =>
      simp only [List.all_cons, Bool.and_eq_true] at h
      have hrec := ih h.2 (fun x hx => hlen x (by simp [hx])) n (by simp only [List.length_cons] at hn; omega)
      have hd := pDelay_print N hN es h.1 (hlen es (by simp)) (delaysTxt ds ++ ')' :: R)
      rw [delaysTxt_cons]
      simp only [pCellItems, sCell_delay, hd, hrec, List.map_cons]

theorem pCellItems_insts (N : Nat) (ns : List (List Char)) (h : ns.all validId = true) (X : List Char)
    (its : List CItem) (R : List Char) :
    ∀ n, pCellItems N n X = some (its, R) →
      pCellItems N (n + ns.length) (instsTxt ns ++ X) = some (ns.map (fun x => .inst (some x)) ++ its, R) := by
  induction ns with
  | nil =>
    intro n hX
    simpa [instsTxt] using hX
  | cons x ns ih =>
    intro n hX
    simp only [List.all_cons, Bool.and_eq_true] at h
    have hrec := ih h.2 n hX
    rw [instsTxt_cons]
    simp only [List.length_cons, ← Nat.add_assoc, pCellItems, sCell_instance, sInst]
    rw [next_id _ x h.1 ')' _ (by simp [isIdCh])]
    simp only [expect, sRpar_rpar, ↓reduceIte, hrec, List.map_cons, List.cons_append]

theorem filterMap_map_some {α β : Type} (f : β → Option α) (g : α → β) (l : List α) (h : ∀ x, f (g x) = some x) :
    (l.map g).filterMap f = l := by
  induction l with
  | nil => rfl
  | cons a l ih => simp [List.filterMap_cons, h, ih]

theorem filterMap_map_none {α β γ : Type} (f : β → Option γ) (g : α → β) (l : List α) (h : ∀ x, f (g x) = none) :
    (l.map g).filterMap f = [] := by
  induction l with
  | nil => rfl
  | cons a l ih => simp [List.filterMap_cons, h, ih]

theorem cellOf_items (ns : List (List Char)) (ds : List (List TEntry)) :
    cellOf (ns.map (fun x => .inst (some x)) ++ ds.map .delay) = ⟨ns, ds⟩ := by
  simp only [cellOf, List.filterMap_append]
  rw [filterMap_map_some CItem.instName _ ns (fun _ => rfl), filterMap_map_none CItem.instName _ ds (fun _ => rfl),
    filterMap_map_none CItem.delayEs _ ns (fun _ => rfl), filterMap_map_some CItem.delayEs _ ds (fun _ => rfl)]
  simp

/-- the text of a cell after its keyword -/
def cellBody (c : TCell) : List Char := instsTxt c.insts ++ (delaysTxt c.delays ++ [')'])

theorem pCellTxt_eq (c : TCell) : pCellTxt c = Kw.cell.chars ++ cellBody c := rfl

theorem pCell_print (N : Nat) (hN : 3 ≤ N) (c : TCell) (h : c.valid = true) (hlen : ∀ es ∈ c.delays, es.length < N)
    (R : List Char) (n : Nat) (hn : c.insts.length + c.delays.length < n) :
    pCellItems N n (cellBody c ++ R) = some (c.insts.map (fun x => .inst (some x)) ++ c.delays.map .delay, R) := by
  simp only [TCell.valid, Bool.and_eq_true] at h
  have h1 := pCellItems_delays N hN c.delays h.2 hlen R (n - c.insts.length) (by omega)
  have h2 := pCellItems_insts N c.insts h.1 _ _ R _ h1
  have e : n - c.insts.length + c.insts.length = n := by omega
  rw [e] at h2
  simpa [cellBody] using h2

/-! ### the file -/
def cellsTxt (cs : List TCell) : List Char := cs.flatMap fun c => ' ' :: pCellTxt c
def designsTxt (ns : List (List Char)) : List Char := ns.flatMap fun n => ' ' :: pDesignTxt n

theorem cellsTxt_cons (c : TCell) (cs : List TCell) (R : List Char) :
    cellsTxt (c :: cs) ++ R = ' ' :: (Kw.cell.chars ++ (cellBody c ++ (cellsTxt cs ++ R))) := by
  simp [cellsTxt, pCellTxt_eq]

theorem designsTxt_cons (x : List Char) (ns : List (List Char)) (R : List Char) :
    designsTxt (x :: ns) ++ R = ' ' :: (Kw.design.chars ++ ' ' :: '"' :: (x ++ '"' :: ')' :: (designsTxt ns ++ R))) := by
  simp [designsTxt, pDesignTxt]

theorem pHdr_cells (N : Nat) (hN : 3 ≤ N) (cs : List TCell) (h : cs.all TCell.valid = true)
    (hlen : ∀ c ∈ cs, c.insts.length + c.delays.length < N ∧ ∀ es ∈ c.delays, es.length < N) (R : List Char) :
    ∀ n, cs.length < n → pHdr N n (cellsTxt cs ++ ')' :: R) = some (cs.map .cell, R) := by
  induction cs with
  | nil =>
    intro n hn
    cases n with
    | zero => cases hn
    | succ n => simp [cellsTxt, pHdr, sHdr_rpar]
  | cons c cs ih =>
    intro n hn
    cases n with
    | zero => cases hn
    | succ n =>
      simp only [List.all_cons, Bool.and_eq_true] at h
      have hrec := ih h.2 (fun x hx => hlen x (by simp [hx])) n (by simp only [List.length_cons] at hn; omega)
      have hc := pCell_print N hN c h.1 (hlen c (by simp)).2 (cellsTxt cs ++ ')' :: R) N (hlen c (by simp)).1
      rw [cellsTxt_cons]
      simp only [pHdr, sHdr_cell, hc, hrec, List.map_cons, cellOf_items]

theorem pHdr_designs (N : Nat) (ns : List (List Char)) (h : ns.all validDesign = true) (X : List Char)
    (its : List HItem) (R : List Char) :
    ∀ n, pHdr N n X = some (its, R) →
      pHdr N (n + ns.length) (designsTxt ns ++ X) = some (ns.map .design ++ its, R) := by
  induction ns with
  | nil =>
    intro n hX
    simpa [designsTxt] using hX
  | cons x ns ih =>
    intro n hX
    simp only [List.all_cons, Bool.and_eq_true] at h
    have hrec := ih h.2 n hX
    rw [designsTxt_cons]
    simp only [List.length_cons, ← Nat.add_assoc, pHdr, sHdr_design, expect, sDq_blank, ↓reduceIte,
      sName_name x h.1, sDq_dq, sRpar_rpar, hrec, List.map_cons, List.cons_append]

theorem fileOf_items (ns : List (List Char)) (cs : List TCell) :
    fileOf (ns.map .design ++ cs.map .cell) = ⟨ns, cs⟩ := by
  simp only [fileOf, List.filterMap_append]
  rw [filterMap_map_some HItem.designName _ ns (fun _ => rfl), filterMap_map_none HItem.designName _ cs (fun _ => rfl),
    filterMap_map_none HItem.cellOf _ ns (fun _ => rfl), filterMap_map_some HItem.cellOf _ cs (fun _ => rfl)]
  simp

theorem printSdfL_eq (f : SdfFile) :
    printSdfL f = Kw.delayfile.chars ++ (designsTxt f.designs ++ (cellsTxt f.cells ++ [')', '\n'])) := rfl

theorem sEnd_newline : next L sEnd ['\n'] = some (.eof, []) := by
  rw [next_ign L sEnd ['\n'] .ign0 [] [] (by simp [sEnd, first, L, Tm.run, ign0M, skip0]) rfl (by simp)]
  rfl

/-! ### fuel: the text is longer than any of its lists -/
theorem entries_len (es : List TEntry) : es.length ≤ (pEntriesTxt es).length :=
  length_le_flatMap _ es (by intro x _; simp)
theorem delays_len (ds : List (List TEntry)) : ds.length ≤ (delaysTxt ds).length :=
  length_le_flatMap _ ds (by intro x _; simp)
theorem insts_len (ns : List (List Char)) : ns.length ≤ (instsTxt ns).length :=
  length_le_flatMap _ ns (by intro x _; simp)
theorem cells_len (cs : List TCell) : cs.length ≤ (cellsTxt cs).length :=
  length_le_flatMap _ cs (by intro x _; simp)
theorem designs_len (ns : List (List Char)) : ns.length ≤ (designsTxt ns).length :=
  length_le_flatMap _ ns (by intro x _; simp)

theorem delay_mem_len (ds : List (List TEntry)) (es : List TEntry) (h : es ∈ ds) :
    es.length < (delaysTxt ds).length := by
  have h1 : (' ' :: pDelayTxt es).length ≤ (delaysTxt ds).length :=
    length_le_of_mem_flatMap (fun es => ' ' :: pDelayTxt es) ds es h
  have h2 := entries_len es
  have h3 : (pEntriesTxt es).length ≤ (pDelayTxt es).length := by
    simp only [pDelayTxt, List.length_append, List.length_cons]; omega
  simp only [List.length_cons] at h1
  omega

theorem cell_mem_len (cs : List TCell) (c : TCell) (h : c ∈ cs) :
    c.insts.length + c.delays.length < (cellsTxt cs).length ∧ ∀ es ∈ c.delays, es.length < (cellsTxt cs).length := by
  have h1 : (' ' :: pCellTxt c).length ≤ (cellsTxt cs).length :=
    length_le_of_mem_flatMap (fun c => ' ' :: pCellTxt c) cs c h
  have h4 : (instsTxt c.insts).length + (delaysTxt c.delays).length ≤ (pCellTxt c).length := by
    simp only [pCellTxt_eq, cellBody, List.length_append, List.length_cons]; omega
  have h2 := insts_len c.insts
  have h3 := delays_len c.delays
  simp only [List.length_cons] at h1
  refine ⟨by omega, fun es hes => ?_⟩
  have := delay_mem_len c.delays es hes
  omega

theorem parseTree_print (f : SdfFile) (h : f.valid = true) : parseTree (printSdfL f) = some f := by
  simp only [SdfFile.valid, Bool.and_eq_true] at h
  have hlenF : (printSdfL f).length =
      Kw.delayfile.chars.length + ((designsTxt f.designs).length + ((cellsTxt f.cells).length + 2)) := by
    simp [printSdfL_eq]
  have hd := designs_len f.designs
  have hc := cells_len f.cells
  have hN : 3 ≤ (printSdfL f).length + 1 := by rw [hlenF]; omega
  have hcells := pHdr_cells ((printSdfL f).length + 1) hN f.cells h.2
    (fun c hcm => by
      have := cell_mem_len f.cells c hcm
      rw [hlenF]
      exact ⟨by omega, fun es hes => by have := this.2 es hes; omega⟩)
    ['\n'] ((printSdfL f).length + 1 - f.designs.length) (by rw [hlenF]; omega)
  have hall := pHdr_designs ((printSdfL f).length + 1) f.designs h.1 _ _ _ _ hcells
  have e : (printSdfL f).length + 1 - f.designs.length + f.designs.length = (printSdfL f).length + 1 := by
    rw [hlenF]; omega
  rw [e] at hall
  unfold parseTree
  simp only [expect]
  rw [printSdfL_eq] at hall ⊢
  rw [sTop_kw]
  simp only [↓reduceIte, List.append_assoc, List.cons_append, List.nil_append] at hall ⊢
  rw [hall]
  simp only [sEnd_newline, fileOf_items]

/-! ### valid trees pass the transformer -/
theorem TTriple.ok_of_valid (t : TTriple) (h : t.valid = true) : t.ok = true := by
  cases t with
  | none => rfl
  | some x =>
    obtain ⟨a, b, c⟩ := x
    simp only [TTriple.valid, validField, Bool.and_eq_true] at h
    simp only [TTriple.ok, Bool.and_eq_true]
    exact ⟨⟨h.1.1.2, h.1.2.2⟩, h.2.2⟩

theorem TEntry.ok_of_valid (e : TEntry) (h : e.valid = true) : e.ok = true := by
  simp only [TEntry.valid, Bool.and_eq_true] at h
  simp only [TEntry.ok, Bool.and_eq_true]
  refine ⟨?_, h.2⟩
  rw [List.all_eq_true] at h ⊢
  exact fun t ht => TTriple.ok_of_valid t (h.1.2 t ht)

theorem SdfFile.ok_of_valid (f : SdfFile) (h : f.valid = true) : f.ok = true := by
  simp only [SdfFile.valid, TCell.valid, Bool.and_eq_true, List.all_eq_true] at h
  simp only [SdfFile.ok, List.all_eq_true]
  exact fun c hc es hes e he => TEntry.ok_of_valid e (h.2 c hc |>.2 es hes e he)

theorem parseSdfL_print (f : SdfFile) (h : f.valid = true) : parseSdfL (printSdfL f) = some f := by
  simp [parseSdfL, parseTree_print f h, SdfFile.ok_of_valid f h]

theorem parseSdf_print (f : SdfFile) (h : f.valid = true) : parseSdf (printSdf f) = some f := by
  simp [parseSdf, printSdf, String.toList_ofList, parseSdfL_print f h]

end KV.SdfText
