import KyupyVerif.Proofs.DefTextLex
/-! The reader of the DEF text model on printed token lists: one lemma per reader function. -/
namespace KV.DefText
open KV.TextLex

theorem nextD_enc (s : St) (t : Tm) (x : Txt) (h : Lx s t x) (ts : List Txt) (R : List Char) (hR : WsHead R) :
    nextD s (enc (x :: ts) ++ R) = some (.tok t x, enc ts ++ R) := by
  rw [enc_cons]
  exact h _ (wsHead_enc ts R hR)

theorem expect_enc (s : St) (t : Tm) (x : Txt) (h : Lx s t x) (ts : List Txt) (R : List Char) (hR : WsHead R) :
    expect s t (enc (x :: ts) ++ R) = some (x, enc ts ++ R) := by
  simp [expect, nextD_enc s t x h ts R hR]

/-- every token of the list is read as the terminal the sequence asks for -/
def LxAll : List (St × Tm) → List Txt → Prop
  | [], [] => True
  | p :: sp, x :: xs => Lx p.1 p.2 x ∧ LxAll sp xs
  | _, _ => False

theorem pSeq_enc (specs : List (St × Tm)) (xs : List Txt) (h : LxAll specs xs) (ts : List Txt) (R : List Char)
    (hR : WsHead R) : pSeq specs (enc (xs ++ ts) ++ R) = some (xs, enc ts ++ R) := by
  induction specs generalizing xs with
  | nil =>
    cases xs with
    | nil => rfl
    | cons x xs => cases h
  | cons p specs ih =>
    cases xs with
    | nil => cases h
    | cons x xs =>
      obtain ⟨s, t⟩ := p
      simp only [LxAll] at h
      simp only [List.cons_append, pSeq, expect_enc s t x h.1 _ R hR, ih xs h.2]

theorem Lx_star : Lx sCoord (.lit .Star) star := Lx_lit sCoord .Star (by decide)
theorem Lx_coord3_rpar : Lx sCoord3 (.lit .Rpar) (K .Rpar) := Lx_lit sCoord3 .Rpar (by decide)

theorem pCoord_enc (c : Option Txt) (h : vCoord c = true) (ts : List Txt) (R : List Char) (hR : WsHead R) :
    pCoord (enc (c.getD star :: ts) ++ R) = some (c, enc ts ++ R) := by
  cases c with
  | none => simp [pCoord, nextD_enc sCoord _ _ Lx_star ts R hR]
  | some v =>
    have hv : vNum v = true := h
    simp [pCoord, nextD_enc sCoord _ _ (Lx_coord_num v hv) ts R hR]

theorem pPoint_enc (p : TPoint) (h : p.valid = true) (ts : List Txt) (R : List Char) (hR : WsHead R) :
    pPoint (enc (p.body ++ ts) ++ R) = some (p, enc ts ++ R) := by
  obtain ⟨x, y, e⟩ := p
  simp only [TPoint.valid, Bool.and_eq_true] at h
  simp only [pPoint, TPoint.body, List.cons_append]
  rw [pCoord_enc x h.1.1 _ R hR]
  simp only
  rw [pCoord_enc y h.1.2 _ R hR]
  cases e with
  | none => simp [nextD_enc sCoord3 _ _ Lx_coord3_rpar ts R hR]
  | some v =>
    have hv : vNum v = true := h.2
    simp only [List.cons_append, List.nil_append, nextD_enc sCoord3 _ _ (Lx_coord3_num v hv) _ R hR]
    simp [expect_enc (one .Rpar) _ _ (Lx_one .Rpar) ts R hR, K]

theorem pLparPoint_enc (p : TPoint) (h : p.valid = true) (ts : List Txt) (R : List Char) (hR : WsHead R) :
    pLparPoint (enc (p.toks ++ ts) ++ R) = some (p, enc ts ++ R) := by
  simp only [pLparPoint, TPoint.toks, List.cons_append, K, expect_enc (one .Lpar) _ _ (Lx_one .Lpar) _ R hR]
  exact pPoint_enc p h ts R hR

theorem pDoStep_enc (d : TDoStep) (h : d.valid = true) (ts : List Txt) (R : List Char) (hR : WsHead R) :
    pDoStep (enc (d.body ++ ts) ++ R) = some (d, enc ts ++ R) := by
  obtain ⟨nx, ny, dx, dy⟩ := d
  simp only [TDoStep.valid, Bool.and_eq_true] at h
  have := pSeq_enc [(sNum, .number), (one .By, .lit .By), (sNum, .number), (one .Step, .lit .Step),
      (sStepNum, .signed), (sStepNum, .signed)] [nx, K .By, ny, K .Step, dx, dy]
    ⟨Lx_num nx h.1.1.1, Lx_one .By, Lx_num ny h.1.1.2, Lx_one .Step, Lx_snum dx h.1.2, Lx_snum dy h.2, trivial⟩ ts R hR
  simp only [pDoStep, TDoStep.body, this]

/-! ### the entries of a wire -/
/-- the scanner the entry loop uses -/
def itemSt (sp : Bool) (pend : Option Txt) : St :=
  match pend with
  | some _ => if sp then sAfterSpVia else sAfterVia
  | none => sAfterPt

theorem Lx_item_id (sp : Bool) (pend : Option Txt) (w : Txt) (h : vVia w = true) : Lx (itemSt sp pend) .id w := by
  cases pend with
  | none => exact Lx_pt_id w (vVia_spec w h).1
  | some v =>
    cases sp
    · exact Lx_via_id w h
    · exact Lx_spvia_id w h

theorem Lx_item_lit (sp : Bool) (pend : Option Txt) (k : Kw) (hk : k = .Lpar ∨ k = .New ∨ k = .Semi ∨ k = .Plus) :
    Lx (itemSt sp pend) (.lit k) k.chars := by
  have hplus : ∀ s : St, (s = sAfterPt ∨ s = sAfterVia ∨ s = sAfterSpVia) → Lx s (.lit .Plus) Kw.Plus.chars := by
    intro s hs
    rcases hs with rfl | rfl | rfl <;> exact Lx_lit _ .Plus (by decide)
  cases pend with
  | none =>
    rcases hk with rfl | rfl | rfl | rfl
    · exact Lx_pt_emb _ (Or.inl rfl)
    · exact Lx_pt_emb _ (Or.inr (Or.inl rfl))
    · exact Lx_pt_emb _ (Or.inr (Or.inr rfl))
    · exact hplus _ (Or.inl rfl)
  | some v =>
    cases sp
    · rcases hk with rfl | rfl | rfl | rfl
      · exact Lx_via_emb _ (Or.inl rfl)
      · exact Lx_via_emb _ (Or.inr (Or.inl rfl))
      · exact Lx_via_emb _ (Or.inr (Or.inr rfl))
      · exact hplus _ (Or.inr (Or.inl rfl))
    · rcases hk with rfl | rfl | rfl | rfl
      · exact Lx_spvia_emb _ (Or.inr (Or.inl rfl))
      · exact Lx_spvia_emb _ (Or.inr (Or.inr (Or.inl rfl)))
      · exact Lx_spvia_emb _ (Or.inr (Or.inr (Or.inr rfl)))
      · exact hplus _ (Or.inr (Or.inr rfl))

def flushP (pend : Option Txt) (its : List TItem) : List TItem :=
  match pend with
  | some v => .via v none :: its
  | none => its

theorem pItems_unfold (sp : Bool) (n : Nat) (pend : Option Txt) (cs : List Char) :
    pItems sp (n + 1) pend cs =
      match nextD (itemSt sp pend) cs with
      | some (.tok .orient o, r) =>
        (match pend with
        | some v => match pItems sp n none r with
          | some (its, k, r) => some (.via v (some o) :: its, k, r)
          | none => none
        | none => none)
      | some (.tok (.lit .Do) _, r) =>
        (match pend with
        | some v => match pDoStep r with
          | some (d, r) => match pItems sp n none r with
            | some (its, k, r) => some (.arr v d :: its, k, r)
            | none => none
          | none => none
        | none => none)
      | some (.tok (.lit .Lpar) _, r) =>
        (match pPoint r with
        | some (p, r) => match pItems sp n none r with
          | some (its, k, r) => some (flushP pend (.pt p :: its), k, r)
          | none => none
        | none => none)
      | some (.tok .id x, r) =>
        (match pItems sp n (some x) r with
        | some (its, k, r) => some (flushP pend its, k, r)
        | none => none)
      | some (.tok (.lit k) _, r) => if k = .New || k = .Plus || k = .Semi then some (flushP pend [], k, r) else none
      | _ => none := by
  cases pend <;> rfl

theorem pItems_enc (sp : Bool) (term : Kw) (hterm : term = .New ∨ term = .Plus ∨ term = .Semi) (ts : List Txt)
    (R : List Char) (hR : WsHead R) (its : List TItem) (h : its.all (TItem.valid sp) = true) :
    ∀ (n : Nat) (pend : Option Txt), (its.flatMap TItem.toks).length < n →
      pItems sp n pend (enc (its.flatMap TItem.toks ++ K term :: ts) ++ R) = some (flushP pend its, term, enc ts ++ R) := by
  induction its with
  | nil =>
    intro n pend hn
    cases n with
    | zero => cases hn
    | succ n =>
      have hl := Lx_item_lit sp pend term (by rcases hterm with e | e | e <;> simp [e])
      simp only [List.flatMap_nil, List.nil_append, K, pItems_unfold, nextD_enc _ _ _ hl ts R hR]
      rcases hterm with rfl | rfl | rfl <;> rfl
  | cons it its ih =>
    intro n pend hn
    simp only [List.all_cons, Bool.and_eq_true] at h
    simp only [List.flatMap_cons, List.length_append] at hn
    cases n with
    | zero => cases hn
    | succ n =>
      have ih' := ih h.2
      cases it with
      | pt p =>
        have hp : p.valid = true := h.1
        simp only [TItem.toks, TPoint.toks, List.length_cons] at hn
        have hl := Lx_item_lit sp pend .Lpar (Or.inl rfl)
        simp only [List.flatMap_cons, TItem.toks, TPoint.toks, K, List.cons_append, List.append_assoc, pItems_unfold,
          nextD_enc _ _ _ hl _ R hR]
        simp only [pPoint_enc p hp _ R hR, ih' n none (by omega)]
        rfl
      | via w o =>
        cases o with
        | none =>
          have hw : vVia w = true := h.1
          simp only [TItem.toks, List.length_cons, List.length_nil] at hn
          simp only [List.flatMap_cons, TItem.toks, List.cons_append, List.nil_append, pItems_unfold,
            nextD_enc _ _ _ (Lx_item_id sp pend w hw) _ R hR]
          rw [ih' n (some w) (by omega)]
          cases pend <;> rfl
        | some o =>
          have hv : (!sp && vVia w && isOrient o) = true := h.1
          simp only [Bool.and_eq_true, Bool.not_eq_true'] at hv
          obtain ⟨⟨rfl, hw⟩, ho⟩ := hv
          simp only [TItem.toks, List.length_cons, List.length_nil] at hn
          cases n with
          | zero => omega
          | succ n =>
            simp only [List.flatMap_cons, TItem.toks, List.cons_append, List.nil_append, pItems_unfold,
              nextD_enc _ _ _ (Lx_item_id false pend w hw) _ R hR]
            have : itemSt false (some w) = sAfterVia := rfl
            rw [this, nextD_enc _ _ _ (Lx_via_orient o ho) _ R hR]
            simp only
            rw [ih' n none (by omega)]
            cases pend <;> rfl
      | arr w d =>
        have hv : (sp && vVia w && d.valid) = true := h.1
        simp only [Bool.and_eq_true] at hv
        obtain ⟨⟨rfl, hw⟩, hd⟩ := hv
        simp only [TItem.toks, TDoStep.body, List.length_cons, List.length_nil] at hn
        cases n with
        | zero => omega
        | succ n =>
          simp only [List.flatMap_cons, TItem.toks, List.cons_append, List.append_assoc, pItems_unfold,
            nextD_enc _ _ _ (Lx_item_id true pend w hw) _ R hR]
          have : itemSt true (some w) = sAfterSpVia := rfl
          rw [this, K, nextD_enc _ _ _ (Lx_spvia_emb .Do (Or.inl rfl)) _ R hR]
          simp only [pDoStep_enc d hd _ R hR, ih' n none (by omega)]
          cases pend <;> rfl

/-! ### wires -/
theorem Lx_spwireopt (k : Kw) (hk : k = .Lpar ∨ k = .Plus) : Lx sSpWireOpt (.lit k) k.chars := by
  rcases hk with rfl | rfl <;> exact Lx_lit _ _ (by decide)
theorem Lx_spwirekw (k : Kw) (hk : k = .Shape ∨ k = .Style) : Lx sSpWireKw (.lit k) k.chars := by
  rcases hk with rfl | rfl <;> exact Lx_lit _ _ (by decide)

theorem pSpOpts_enc (ts : List Txt) (R : List Char) (hR : WsHead R) (os : List (Bool × Txt))
    (h : os.all (fun o => vId o.2) = true) :
    ∀ n, os.length < n → pSpOpts n (enc (os.flatMap spoptToks ++ K .Lpar :: ts) ++ R) = some (os, enc ts ++ R) := by
  induction os with
  | nil =>
    intro n hn
    cases n with
    | zero => cases hn
    | succ n => simp [pSpOpts, nextD_enc _ _ _ (Lx_spwireopt .Lpar (Or.inl rfl)) ts R hR]
  | cons o os ih =>
    intro n hn
    simp only [List.all_cons, Bool.and_eq_true] at h
    cases n with
    | zero => cases hn
    | succ n =>
      obtain ⟨b, v⟩ := o
      have ih' := ih h.2 n (by simp only [List.length_cons] at hn; omega)
      have hk : Lx sSpWireKw (.lit (if b then Kw.Shape else Kw.Style)) (K (if b then Kw.Shape else Kw.Style)) := by
        cases b
        · exact Lx_spwirekw .Style (Or.inr rfl)
        · exact Lx_spwirekw .Shape (Or.inl rfl)
      simp only [List.flatMap_cons, spoptToks, List.cons_append, List.nil_append, pSpOpts,
        nextD_enc _ _ _ (Lx_spwireopt .Plus (Or.inr rfl)) _ R hR, nextD_enc _ _ _ hk _ R hR,
        expect_enc _ _ _ (Lx_id v h.1) _ R hR, ih']
      cases b <;> rfl

theorem Lx_wireopt (k : Kw) (hk : k = .Lpar ∨ k = .Style ∨ k = .Taper ∨ k = .Taperrule) : Lx sWireOpt (.lit k) k.chars := by
  rcases hk with rfl | rfl | rfl | rfl <;> exact Lx_lit _ _ (by decide)
theorem Lx_wireopt2 (k : Kw) (hk : k = .Lpar ∨ k = .Style) : Lx sWireOpt2 (.lit k) k.chars := by
  rcases hk with rfl | rfl <;> exact Lx_lit _ _ (by decide)

theorem pStyle_enc (st : Option Txt) (h : (match st with | some x => vId x | none => true) = true) (ts : List Txt)
    (R : List Char) (hR : WsHead R) :
    pStyle (enc (styleToks st ++ K .Lpar :: ts) ++ R) = some (st, enc ts ++ R) := by
  cases st with
  | none => simp [pStyle, styleToks, nextD_enc _ _ _ (Lx_wireopt2 .Lpar (Or.inl rfl)) ts R hR]
  | some x =>
    have := pSeq_enc [(sId, .id), (one .Lpar, .lit .Lpar)] [x, K .Lpar] ⟨Lx_id x h, Lx_one .Lpar, trivial⟩ ts R hR
    simp only [List.cons_append, List.nil_append] at this
    simp [pStyle, styleToks, nextD_enc _ _ _ (Lx_wireopt2 .Style (Or.inr rfl)) _ R hR, this]

theorem pWireOpt_enc (tp : Taper) (st : Option Txt) (h1 : (match tp with | .rule r => vId r | _ => true) = true)
    (h2 : (match st with | some x => vId x | none => true) = true) (ts : List Txt) (R : List Char) (hR : WsHead R) :
    pWireOpt (enc (tp.toks ++ (styleToks st ++ K .Lpar :: ts)) ++ R) = some (tp, st, enc ts ++ R) := by
  cases tp with
  | none =>
    cases st with
    | none => simp [pWireOpt, Taper.toks, styleToks, nextD_enc _ _ _ (Lx_wireopt .Lpar (Or.inl rfl)) ts R hR]
    | some x =>
      have := pSeq_enc [(sId, .id), (one .Lpar, .lit .Lpar)] [x, K .Lpar] ⟨Lx_id x h2, Lx_one .Lpar, trivial⟩ ts R hR
      simp only [List.cons_append, List.nil_append] at this
      simp [pWireOpt, Taper.toks, styleToks, nextD_enc _ _ _ (Lx_wireopt .Style (Or.inr (Or.inl rfl))) _ R hR, this]
  | taper =>
    simp [pWireOpt, Taper.toks, nextD_enc _ _ _ (Lx_wireopt .Taper (Or.inr (Or.inr (Or.inl rfl)))) _ R hR,
      pStyle_enc st h2 ts R hR]
  | rule r =>
    simp [pWireOpt, Taper.toks, nextD_enc _ _ _ (Lx_wireopt .Taperrule (Or.inr (Or.inr (Or.inr rfl)))) _ R hR,
      expect_enc _ _ _ (Lx_id r h1) _ R hR, pStyle_enc st h2 ts R hR]

theorem pWire_enc (sp : Bool) (N : Nat) (w : TWire) (h : w.valid sp = true) (hN : (w.toks sp).length < N)
    (term : Kw) (hterm : term = .New ∨ term = .Plus ∨ term = .Semi) (ts : List Txt) (R : List Char) (hR : WsHead R) :
    pWire sp N (enc (w.toks sp ++ K term :: ts) ++ R) = some (w, term, enc ts ++ R) := by
  obtain ⟨layer, width, spopts, tp, st, start, rest⟩ := w
  simp only [TWire.valid, Bool.and_eq_true, Bool.not_eq_true', List.isEmpty_eq_false_iff] at h
  obtain ⟨⟨⟨⟨hl, hs⟩, hne⟩, hr⟩, hx⟩ := h
  have hemp : rest.isEmpty = false := by simpa using hne
  cases sp with
  | true =>
    simp only [↓reduceIte, Bool.and_eq_true, decide_eq_true_eq] at hx
    obtain ⟨⟨⟨hw, ho⟩, rfl⟩, rfl⟩ := hx
    cases width with
    | none => simp at hw
    | some wd =>
      simp only [TWire.toks, ↓reduceIte, Option.getD_some, TPoint.toks, List.length_cons, List.length_append] at hN
      have hI := pItems_enc true term hterm ts R hR rest hr N none (by omega)
      have hsl := length_le_flatMap spoptToks spopts (by intro x _; simp [spoptToks])
      have hO := pSpOpts_enc (start.body ++ (rest.flatMap TItem.toks ++ K term :: ts)) R hR spopts ho N (by omega)
      simp only [TWire.toks, ↓reduceIte, Option.getD_some, TPoint.toks, List.cons_append, List.append_assoc, pWire,
        expect_enc _ _ _ (Lx_id layer hl) _ R hR, expect_enc _ _ _ (Lx_num wd hw) _ R hR, hO,
        pPoint_enc start hs _ R hR, hI, flushP, hemp, Bool.false_eq_true]
  | false =>
    simp only [Bool.false_eq_true, ↓reduceIte, Bool.and_eq_true, decide_eq_true_eq, List.isEmpty_iff] at hx
    obtain ⟨⟨⟨rfl, rfl⟩, h1⟩, h2⟩ := hx
    simp only [TWire.toks, Bool.false_eq_true, ↓reduceIte, TPoint.toks, List.length_cons, List.length_append] at hN
    have hI := pItems_enc false term hterm ts R hR rest hr N none (by omega)
    have hO := pWireOpt_enc tp st h1 h2 (start.body ++ (rest.flatMap TItem.toks ++ K term :: ts)) R hR
    simp only [TWire.toks, Bool.false_eq_true, ↓reduceIte, TPoint.toks, List.cons_append, List.append_assoc, pWire,
      expect_enc _ _ _ (Lx_id layer hl) _ R hR, hO, pPoint_enc start hs _ R hR, hI, flushP, hemp]

theorem pWires_enc (sp : Bool) (N : Nat) (term : Kw) (hterm : term = .Plus ∨ term = .Semi) (ts : List Txt)
    (R : List Char) (hR : WsHead R) (ws : List TWire) (hne : ws ≠ []) (h : ws.all (TWire.valid sp) = true)
    (hN : ∀ w ∈ ws, (w.toks sp).length < N) :
    ∀ n, ws.length < n → pWires sp N n (enc (wiresToks sp ws ++ K term :: ts) ++ R) = some (ws, term, enc ts ++ R) := by
  have hnew : term ≠ .New := by rcases hterm with rfl | rfl <;> decide
  induction ws with
  | nil => exact absurd rfl hne
  | cons w ws ih =>
    intro n hn
    simp only [List.all_cons, Bool.and_eq_true] at h
    cases n with
    | zero => cases hn
    | succ n =>
      cases ws with
      | nil =>
        have := pWire_enc sp N w h.1 (hN w (by simp)) term (Or.inr hterm) ts R hR
        simp [wiresToks, pWires, this, hnew]
      | cons w2 rest =>
        have hw := pWire_enc sp N w h.1 (hN w (by simp)) .New (Or.inl rfl) (wiresToks sp (w2 :: rest) ++ K term :: ts) R hR
        have ih' := ih (by simp) h.2 (fun x hx => hN x (by simp [hx])) n (by simp only [List.length_cons] at hn ⊢; omega)
        simp only [wiresToks, List.append_assoc, List.cons_append] at hw ⊢
        simp only [pWires, hw, ↓reduceIte]
        try simp only [List.append_assoc] at ih'
        simp only [ih']

/-! ### nets -/
def headKw (sp : Bool) (ps : List NetPart) : Kw :=
  match ps with
  | [] => .Semi
  | .pin _ _ :: _ => .Lpar
  | _ :: _ => .Plus

/-- the tokens of the parts and the closing `;` without the first token -/
def tailToks (sp : Bool) (ps : List NetPart) : List Txt := ((ps.flatMap (NetPart.toks sp)) ++ [K .Semi]).drop 1

theorem partsToks_eq (sp : Bool) (ps : List NetPart) :
    ps.flatMap (NetPart.toks sp) ++ [K .Semi] = K (headKw sp ps) :: tailToks sp ps := by
  cases ps with
  | nil => rfl
  | cons p ps => cases p <;> simp [headKw, tailToks, NetPart.toks]

theorem tailToks_cons (sp : Bool) (p : NetPart) (ps : List NetPart) (ts : List Txt) :
    tailToks sp (p :: ps) ++ ts = (p.toks sp).drop 1 ++ (K (headKw sp ps) :: (tailToks sp ps ++ ts)) := by
  have hp : ∃ t0 rest, p.toks sp = t0 :: rest := by cases p <;> simp [NetPart.toks]
  obtain ⟨t0, rest, e⟩ := hp
  have h := partsToks_eq sp ps
  unfold tailToks at h ⊢
  rw [List.flatMap_cons, e, List.append_assoc]
  generalize ps.flatMap (NetPart.toks sp) ++ [K .Semi] = X at h ⊢
  simp only [List.cons_append, List.drop_succ_cons, List.drop_zero, List.append_assoc]
  congr 1
  calc X ++ ts = (K (headKw sp ps) :: List.drop 1 X) ++ ts := by rw [← h]
    _ = K (headKw sp ps) :: (List.drop 1 X ++ ts) := rfl

theorem Lx_netpart (k : Kw) (hk : k = .Lpar ∨ k = .Plus ∨ k = .Semi) : Lx sNetPart (.lit k) k.chars := by
  rcases hk with rfl | rfl | rfl <;> exact Lx_lit _ _ (by decide)

theorem headKw_cases (sp : Bool) (ps : List NetPart) : headKw sp ps = .Lpar ∨ headKw sp ps = .Plus ∨ headKw sp ps = .Semi := by
  cases ps with
  | nil => exact Or.inr (Or.inr rfl)
  | cons p ps => cases p <;> simp [headKw]

theorem Lx_netkw (sp : Bool) (k : Kw)
    (hk : k = .Use ∨ k = .Nondefaultrule ∨ k = .Cover ∨ k = .Fixed ∨ k = .Routed ∨ (sp = false ∧ k = .Noshield)) :
    Lx (if sp then sSpNetKw else sNetKw) (.lit k) k.chars := by
  cases sp
  · rcases hk with rfl | rfl | rfl | rfl | rfl | ⟨_, rfl⟩ <;> exact Lx_lit _ _ (by decide)
  · rcases hk with rfl | rfl | rfl | rfl | rfl | ⟨h, _⟩
    · exact Lx_lit _ _ (by decide)
    · exact Lx_lit _ _ (by decide)
    · exact Lx_lit _ _ (by decide)
    · exact Lx_lit _ _ (by decide)
    · exact Lx_lit _ _ (by decide)
    · cases h

/-- fuel: every wire of every wiring part fits -/
def partsFit (sp : Bool) (N : Nat) (ps : List NetPart) : Prop :=
  ∀ p ∈ ps, match p with
    | .wiring _ ws => ws.length < N ∧ ∀ w ∈ ws, (w.toks sp).length < N
    | _ => True

theorem pNetParts_enc (sp : Bool) (N : Nat) (ts : List Txt) (R : List Char) (hR : WsHead R) (ps : List NetPart)
    (h : ps.all (NetPart.valid sp) = true) (hpw : pinAfterWiring ps = false) (hfit : partsFit sp N ps) :
    ∀ n, ps.length < n →
      pNetParts sp N n (headKw sp ps) (enc (tailToks sp ps ++ ts) ++ R) = some (ps, enc ts ++ R) := by
  induction ps with
  | nil =>
    intro n hn
    cases n with
    | zero => cases hn
    | succ n => simp [pNetParts, headKw, tailToks]
  | cons p ps ih =>
    intro n hn
    simp only [List.all_cons, Bool.and_eq_true] at h
    cases n with
    | zero => cases hn
    | succ n =>
      have hfit' : partsFit sp N ps := fun q hq => hfit q (by simp [hq])
      have hpw' : pinAfterWiring ps = false := by
        cases p <;> cases ps <;> simp_all [pinAfterWiring]
        all_goals (rename_i q qs; cases q <;> simp_all [pinAfterWiring])
      have ih' := ih h.2 hpw' hfit' n (by simp only [List.length_cons] at hn; omega)
      have hcont : nextD sNetPart (enc ((ps.flatMap (NetPart.toks sp) ++ [K .Semi]) ++ ts) ++ R)
          = some (.tok (.lit (headKw sp ps)) (K (headKw sp ps)), enc (tailToks sp ps ++ ts) ++ R) := by
        rw [partsToks_eq]
        exact nextD_enc _ _ _ (Lx_netpart _ (headKw_cases sp ps)) _ R hR
      cases p with
      | pin a b =>
        have hv : (vId a && vId b) = true := h.1
        simp only [Bool.and_eq_true] at hv
        have hs := pSeq_enc [(sId, .id), (sId, .id), (one .Rpar, .lit .Rpar)] [a, b, K .Rpar]
          ⟨Lx_id a hv.1, Lx_id b hv.2, Lx_one .Rpar, trivial⟩ ((ps.flatMap (NetPart.toks sp) ++ [K .Semi]) ++ ts) R hR
        have e : tailToks sp (.pin a b :: ps) ++ ts = [a, b, K .Rpar] ++ ((ps.flatMap (NetPart.toks sp) ++ [K .Semi]) ++ ts) := by
          simp [tailToks, NetPart.toks]
        have e0 : headKw sp (.pin a b :: ps) = .Lpar := rfl
        rw [e0, e]
        simp only [pNetParts, hs, hcont, ih']
      | opt k v =>
        have hv : ((k = .Use || k = .Nondefaultrule) && vId v) = true := h.1
        simp only [Bool.and_eq_true, Bool.or_eq_true, decide_eq_true_eq] at hv
        have e : tailToks sp (.opt k v :: ps) ++ ts = K k :: v :: ((ps.flatMap (NetPart.toks sp) ++ [K .Semi]) ++ ts) := by
          simp [tailToks, NetPart.toks]
        have hk := Lx_netkw sp k (by rcases hv.1 with e | e <;> simp [e])
        have hif : (k = .Use || k = .Nondefaultrule) = true := by simpa using hv.1
        have e0 : headKw sp (.opt k v :: ps) = .Plus := rfl
        rw [e0, e]
        simp only [pNetParts, nextD_enc _ _ _ hk _ R hR, hif, ↓reduceIte,
          expect_enc _ _ _ (Lx_id v hv.2) _ R hR, hcont, ih']
      | wiring k ws =>
        have hv : ((k = .Cover || k = .Fixed || k = .Routed || (!sp && k = .Noshield)) && !ws.isEmpty && ws.all (TWire.valid sp)) = true := h.1
        simp only [Bool.and_eq_true, Bool.or_eq_true, decide_eq_true_eq, Bool.not_eq_true', List.isEmpty_eq_false_iff] at hv
        obtain ⟨⟨hk0, hne⟩, hws⟩ := hv
        have hf := hfit (.wiring k ws) (by simp)
        simp only at hf
        have hk := Lx_netkw sp k (by
          rcases hk0 with ((e | e) | e) | ⟨e1, e2⟩
          · simp [e]
          · simp [e]
          · simp [e]
          · exact Or.inr (Or.inr (Or.inr (Or.inr (Or.inr ⟨e1, e2⟩)))))
        have hnot : (k = .Use || k = .Nondefaultrule) = false := by
          rcases hk0 with ((e | e) | e) | ⟨_, e⟩ <;> (subst e; decide)
        -- what follows the wiring is `+` or `;`
        have hhead : headKw sp ps = .Plus ∨ headKw sp ps = .Semi := by
          cases ps with
          | nil => exact Or.inr rfl
          | cons q qs => cases q <;> simp_all [headKw, pinAfterWiring]
        have hW := pWires_enc sp N (headKw sp ps) hhead (tailToks sp ps ++ ts) R hR ws hne hws hf.2 N hf.1
        have e : tailToks sp (.wiring k ws :: ps) ++ ts = K k :: (wiresToks sp ws ++ K (headKw sp ps) :: (tailToks sp ps ++ ts)) := by
          rw [tailToks_cons]; simp [NetPart.toks]
        have e0 : headKw sp (.wiring k ws :: ps) = .Plus := rfl
        rw [e0, e]
        simp only [pNetParts, nextD_enc _ _ _ hk _ R hR, hnot, Bool.false_eq_true, ↓reduceIte, hW, ih']

theorem Lx_endminus (k : Kw) (hk : k = .End ∨ k = .Minus) : Lx sEndMinus (.lit k) k.chars := by
  rcases hk with rfl | rfl <;> exact Lx_lit _ _ (by decide)
theorem Lx_plussemi (k : Kw) (hk : k = .Plus ∨ k = .Semi) : Lx sPlusSemi (.lit k) k.chars := by
  rcases hk with rfl | rfl <;> exact Lx_lit _ _ (by decide)

theorem TNet.toks_eq (sp : Bool) (n : TNet) :
    n.toks sp = K .Minus :: n.name :: K (headKw sp n.parts) :: tailToks sp n.parts := by
  simp only [TNet.toks, partsToks_eq]

theorem pNets_enc (sp : Bool) (N : Nat) (ts : List Txt) (R : List Char) (hR : WsHead R) (ns : List TNet)
    (h : ns.all (TNet.valid sp) = true) (hfit : ∀ x ∈ ns, x.parts.length < N ∧ partsFit sp N x.parts) :
    ∀ n, ns.length < n → pNets sp N n (enc (ns.flatMap (TNet.toks sp) ++ K .End :: ts) ++ R) = some (ns, enc ts ++ R) := by
  induction ns with
  | nil =>
    intro n hn
    cases n with
    | zero => cases hn
    | succ n => simp [pNets, nextD_enc _ _ _ (Lx_endminus .End (Or.inl rfl)) ts R hR]
  | cons x ns ih =>
    intro n hn
    simp only [List.all_cons, Bool.and_eq_true] at h
    cases n with
    | zero => cases hn
    | succ n =>
      have ih' := ih h.2 (fun y hy => hfit y (by simp [hy])) n (by simp only [List.length_cons] at hn; omega)
      have hv := h.1
      simp only [TNet.valid, Bool.and_eq_true, Bool.not_eq_true'] at hv
      obtain ⟨⟨hname, hparts⟩, hpw⟩ := hv
      have hf := hfit x (by simp)
      have hP := pNetParts_enc sp N (ns.flatMap (TNet.toks sp) ++ K .End :: ts) R hR x.parts hparts hpw hf.2 N hf.1
      simp only [List.flatMap_cons, TNet.toks_eq, List.cons_append, List.append_assoc, pNets,
        nextD_enc _ _ _ (Lx_endminus .Minus (Or.inr rfl)) _ R hR, expect_enc _ _ _ (Lx_id x.name hname) _ R hR,
        nextD_enc _ _ _ (Lx_netpart _ (headKw_cases sp x.parts)) _ R hR, hP, ih']

/-! ### VIAS, COMPONENTS, PINS, PINPROPERTIES, NONDEFAULTRULES, PROPERTYDEFINITIONS -/
theorem Lx_viaopt (k : Kw)
    (hk : k = .Viarule ∨ k = .Pattern ∨ k = .Layers ∨ k = .Enclosure ∨ k = .Cutsize ∨ k = .Cutspacing ∨ k = .Rowcol) :
    Lx sViaOpt (.lit k) k.chars := by
  rcases hk with rfl | rfl | rfl | rfl | rfl | rfl | rfl <;> exact Lx_lit _ _ (by decide)

theorem list_len1 {α : Type} (l : List α) (h : l.length = 1) : ∃ a, l = [a] := by
  match l, h with
  | [a], _ => exact ⟨a, rfl⟩
theorem list_len2 {α : Type} (l : List α) (h : l.length = 2) : ∃ a b, l = [a, b] := by
  match l, h with
  | [a, b], _ => exact ⟨a, b, rfl⟩
theorem list_len3 {α : Type} (l : List α) (h : l.length = 3) : ∃ a b c, l = [a, b, c] := by
  match l, h with
  | [a, b, c], _ => exact ⟨a, b, c, rfl⟩
theorem list_len4 {α : Type} (l : List α) (h : l.length = 4) : ∃ a b c d, l = [a, b, c, d] := by
  match l, h with
  | [a, b, c, d], _ => exact ⟨a, b, c, d, rfl⟩

theorem viaOpt_spec (o : TViaOpt) (h : o.valid = true) :
    (o.k = .Viarule ∨ o.k = .Pattern ∨ o.k = .Layers ∨ o.k = .Enclosure ∨ o.k = .Cutsize ∨ o.k = .Cutspacing ∨ o.k = .Rowcol)
    ∧ LxAll (viaOptSpec o.k) o.args := by
  obtain ⟨k, args⟩ := o
  have id1 : args.length = 1 → (∀ x ∈ args, vId x = true) → LxAll [(sId, .id)] args := by
    intro h1 h2; obtain ⟨a, rfl⟩ := list_len1 args h1
    exact ⟨Lx_id a (h2 a (by simp)), trivial⟩
  have id3 : args.length = 3 → (∀ x ∈ args, vId x = true) → LxAll [(sId, .id), (sId, .id), (sId, .id)] args := by
    intro h1 h2; obtain ⟨a, b, c, rfl⟩ := list_len3 args h1
    exact ⟨Lx_id a (h2 a (by simp)), Lx_id b (h2 b (by simp)), Lx_id c (h2 c (by simp)), trivial⟩
  have n2 : args.length = 2 → (∀ x ∈ args, vNum x = true) → LxAll [(sNum, .number), (sNum, .number)] args := by
    intro h1 h2; obtain ⟨a, b, rfl⟩ := list_len2 args h1
    exact ⟨Lx_num a (h2 a (by simp)), Lx_num b (h2 b (by simp)), trivial⟩
  have n4 : args.length = 4 → (∀ x ∈ args, vNum x = true) →
      LxAll [(sNum, .number), (sNum, .number), (sNum, .number), (sNum, .number)] args := by
    intro h1 h2; obtain ⟨a, b, c, d, rfl⟩ := list_len4 args h1
    exact ⟨Lx_num a (h2 a (by simp)), Lx_num b (h2 b (by simp)), Lx_num c (h2 c (by simp)), Lx_num d (h2 d (by simp)), trivial⟩
  cases k
  case Viarule =>
    simp only [TViaOpt.valid, Bool.and_eq_true, decide_eq_true_eq, List.all_eq_true] at h
    exact ⟨by simp, id1 h.1 h.2⟩
  case Pattern =>
    simp only [TViaOpt.valid, Bool.and_eq_true, decide_eq_true_eq, List.all_eq_true] at h
    exact ⟨by simp, id1 h.1 h.2⟩
  case Layers =>
    simp only [TViaOpt.valid, Bool.and_eq_true, decide_eq_true_eq, List.all_eq_true] at h
    exact ⟨by simp, id3 h.1 h.2⟩
  case Enclosure =>
    simp only [TViaOpt.valid, Bool.and_eq_true, decide_eq_true_eq, List.all_eq_true] at h
    exact ⟨by simp, n4 h.1 h.2⟩
  case Cutsize =>
    simp only [TViaOpt.valid, Bool.and_eq_true, decide_eq_true_eq, List.all_eq_true] at h
    exact ⟨by simp, n2 h.1 h.2⟩
  case Cutspacing =>
    simp only [TViaOpt.valid, Bool.and_eq_true, decide_eq_true_eq, List.all_eq_true] at h
    exact ⟨by simp, n2 h.1 h.2⟩
  case Rowcol =>
    simp only [TViaOpt.valid, Bool.and_eq_true, decide_eq_true_eq, List.all_eq_true] at h
    exact ⟨by simp, n2 h.1 h.2⟩
  all_goals (simp [TViaOpt.valid] at h)

theorem pViaOpts_enc (ts : List Txt) (R : List Char) (hR : WsHead R) (os : List TViaOpt)
    (h : os.all TViaOpt.valid = true) :
    ∀ n, os.length < n → pViaOpts n (enc (os.flatMap TViaOpt.toks ++ K .Semi :: ts) ++ R) = some (os, enc ts ++ R) := by
  induction os with
  | nil =>
    intro n hn
    cases n with
    | zero => cases hn
    | succ n => simp [pViaOpts, nextD_enc _ _ _ (Lx_plussemi .Semi (Or.inr rfl)) ts R hR]
  | cons o os ih =>
    intro n hn
    simp only [List.all_cons, Bool.and_eq_true] at h
    cases n with
    | zero => cases hn
    | succ n =>
      have ih' := ih h.2 n (by simp only [List.length_cons] at hn; omega)
      obtain ⟨hk, hargs⟩ := viaOpt_spec o h.1
      have hs := pSeq_enc (viaOptSpec o.k) o.args hargs (os.flatMap TViaOpt.toks ++ K .Semi :: ts) R hR
      simp only [List.flatMap_cons, TViaOpt.toks, List.cons_append, List.append_assoc, pViaOpts,
        nextD_enc _ _ _ (Lx_plussemi .Plus (Or.inl rfl)) _ R hR, nextD_enc _ _ _ (Lx_viaopt o.k hk) _ R hR, hs, ih']

theorem pVias_enc (N : Nat) (ts : List Txt) (R : List Char) (hR : WsHead R) (vs : List TVia)
    (h : vs.all TVia.valid = true) (hfit : ∀ v ∈ vs, v.opts.length < N) :
    ∀ n, vs.length < n → pVias N n (enc (vs.flatMap TVia.toks ++ K .End :: ts) ++ R) = some (vs, enc ts ++ R) := by
  induction vs with
  | nil =>
    intro n hn
    cases n with
    | zero => cases hn
    | succ n => simp [pVias, nextD_enc _ _ _ (Lx_endminus .End (Or.inl rfl)) ts R hR]
  | cons v vs ih =>
    intro n hn
    simp only [List.all_cons, Bool.and_eq_true] at h
    cases n with
    | zero => cases hn
    | succ n =>
      have ih' := ih h.2 (fun y hy => hfit y (by simp [hy])) n (by simp only [List.length_cons] at hn; omega)
      have hv := h.1
      simp only [TVia.valid, Bool.and_eq_true] at hv
      have hO := pViaOpts_enc (vs.flatMap TVia.toks ++ K .End :: ts) R hR v.opts hv.2 N (hfit v (by simp))
      simp only [List.flatMap_cons, TVia.toks, List.cons_append, List.append_assoc, List.nil_append, pVias,
        nextD_enc _ _ _ (Lx_endminus .Minus (Or.inr rfl)) _ R hR, expect_enc _ _ _ (Lx_id v.name hv.1) _ R hR, hO, ih']

theorem Lx_semi : Lx sSemi (.lit .Semi) (K .Semi) := Lx_one .Semi

theorem pComps_enc (ts : List Txt) (R : List Char) (hR : WsHead R) (cs : List TComp) (h : cs.all TComp.valid = true) :
    ∀ n, cs.length < n → pComps n (enc (cs.flatMap TComp.toks ++ K .End :: ts) ++ R) = some (cs, enc ts ++ R) := by
  induction cs with
  | nil =>
    intro n hn
    cases n with
    | zero => cases hn
    | succ n => simp [pComps, nextD_enc _ _ _ (Lx_endminus .End (Or.inl rfl)) ts R hR]
  | cons c cs ih =>
    intro n hn
    simp only [List.all_cons, Bool.and_eq_true] at h
    cases n with
    | zero => cases hn
    | succ n =>
      have ih' := ih h.2 n (by simp only [List.length_cons] at hn; omega)
      obtain ⟨name, kind, at_, orient⟩ := c
      have hv := h.1
      simp only [TComp.valid, Bool.and_eq_true] at hv
      obtain ⟨⟨⟨h1, h2⟩, h3⟩, h4⟩ := hv
      have hs1 := pSeq_enc [(sId, .id), (sId, .id), (one .Plus, .lit .Plus), (one .Placed, .lit .Placed), (one .Lpar, .lit .Lpar)]
        [name, kind, K .Plus, K .Placed, K .Lpar] ⟨Lx_id name h1, Lx_id kind h2, Lx_one .Plus, Lx_one .Placed, Lx_one .Lpar, trivial⟩
        (at_.body ++ (orient :: K .Semi :: (cs.flatMap TComp.toks ++ K .End :: ts))) R hR
      have hs2 := pSeq_enc [(sAfterPt, .id), (sSemi, .lit .Semi)] [orient, K .Semi] ⟨Lx_pt_id orient h4, Lx_semi, trivial⟩
        (cs.flatMap TComp.toks ++ K .End :: ts) R hR
      simp only [List.cons_append, List.nil_append] at hs1 hs2
      simp only [List.flatMap_cons, TComp.toks, TPoint.toks, List.cons_append, List.append_assoc, List.nil_append, pComps,
        nextD_enc _ _ _ (Lx_endminus .Minus (Or.inr rfl)) _ R hR, hs1, pPoint_enc at_ h3 _ R hR, hs2, ih']

theorem Lx_pinopt (k : Kw)
    (hk : k = .Direction ∨ k = .Special ∨ k = .Placed ∨ k = .Layer ∨ k = .Port ∨ k = .Net ∨ k = .Use) :
    Lx sPinOpt (.lit k) k.chars := by
  rcases hk with rfl | rfl | rfl | rfl | rfl | rfl | rfl <;> exact Lx_lit _ _ (by decide)

theorem Lx_pinst (st : St) (hst : st = sPlusSemi ∨ st = sAfterPt) (k : Kw) (hk : k = .Plus ∨ k = .Semi) :
    Lx st (.lit k) k.chars := by
  rcases hst with rfl | rfl
  · exact Lx_plussemi k hk
  · rcases hk with rfl | rfl
    · exact Lx_lit _ _ (by decide)
    · exact Lx_pt_emb _ (Or.inr (Or.inr rfl))

theorem pPinOpts_enc (ts : List Txt) (R : List Char) (hR : WsHead R) (os : List PinOpt) (h : os.all PinOpt.valid = true) :
    ∀ n st, (st = sPlusSemi ∨ st = sAfterPt) → os.length < n →
      pPinOpts n st (enc (os.flatMap PinOpt.toks ++ K .Semi :: ts) ++ R) = some (os, enc ts ++ R) := by
  induction os with
  | nil =>
    intro n st hst hn
    cases n with
    | zero => cases hn
    | succ n => simp [pPinOpts, nextD_enc _ _ _ (Lx_pinst st hst .Semi (Or.inr rfl)) ts R hR]
  | cons o os ih =>
    intro n st hst hn
    simp only [List.all_cons, Bool.and_eq_true] at h
    cases n with
    | zero => cases hn
    | succ n =>
      have ih1 := ih h.2 n sPlusSemi (Or.inl rfl) (by simp only [List.length_cons] at hn; omega)
      have ih2 := ih h.2 n sAfterPt (Or.inr rfl) (by simp only [List.length_cons] at hn; omega)
      have hplus := nextD_enc _ _ _ (Lx_pinst st hst .Plus (Or.inl rfl))
      cases o with
      | word k v =>
        have hv : ((k = .Net || k = .Direction || k = .Use) && vId v) = true := h.1
        simp only [Bool.and_eq_true, Bool.or_eq_true, decide_eq_true_eq] at hv
        have hk := Lx_pinopt k (by rcases hv.1 with (e | e) | e <;> simp [e])
        have c1 : (k = .Special || k = .Port) = false := by rcases hv.1 with (e | e) | e <;> (subst e; decide)
        have c2 : decide (k = .Layer) = false := by rcases hv.1 with (e | e) | e <;> (subst e; decide)
        have c3 : decide (k = .Placed) = false := by rcases hv.1 with (e | e) | e <;> (subst e; decide)
        simp only [decide_eq_false_iff_not] at c2 c3
        simp only [List.flatMap_cons, PinOpt.toks, List.cons_append, List.nil_append, pPinOpts, hplus _ R hR,
          nextD_enc _ _ _ hk _ R hR, c1, c2, c3, Bool.false_eq_true, ↓reduceIte,
          expect_enc _ _ _ (Lx_id v hv.2) _ R hR, ih1]
      | flag k =>
        have hv : (k = .Special || k = .Port) = true := h.1
        have hv' := hv
        simp only [Bool.or_eq_true, decide_eq_true_eq] at hv'
        have hk := Lx_pinopt k (by rcases hv' with e | e <;> simp [e])
        simp only [List.flatMap_cons, PinOpt.toks, List.cons_append, List.nil_append, pPinOpts, hplus _ R hR,
          nextD_enc _ _ _ hk _ R hR, hv, ↓reduceIte, ih1]
      | layer l p q =>
        have hv : (vId l && p.valid && q.valid) = true := h.1
        simp only [Bool.and_eq_true] at hv
        have hk := Lx_pinopt .Layer (by simp)
        have hlp := pLparPoint_enc p hv.1.2 (q.toks ++ (os.flatMap PinOpt.toks ++ K .Semi :: ts)) R hR
        simp only [List.flatMap_cons, PinOpt.toks, List.cons_append, List.append_assoc, pPinOpts, hplus _ R hR,
          nextD_enc _ _ _ hk _ R hR, expect_enc _ _ _ (Lx_id l hv.1.1) _ R hR, hlp]
        simp only [TPoint.toks, List.cons_append, expect_enc _ _ _ (Lx_pt_emb .Lpar (Or.inl rfl)) _ R hR,
          pPoint_enc q hv.2 _ R hR, ih2]
        rfl
      | placed p o =>
        have hv : (p.valid && vIdPt o) = true := h.1
        simp only [Bool.and_eq_true] at hv
        have hk := Lx_pinopt .Placed (by simp)
        have hlp := pLparPoint_enc p hv.1 (o :: (os.flatMap PinOpt.toks ++ K .Semi :: ts)) R hR
        simp only [List.flatMap_cons, PinOpt.toks, List.cons_append, List.append_assoc, List.nil_append, pPinOpts, hplus _ R hR,
          nextD_enc _ _ _ hk _ R hR, hlp, expect_enc _ _ _ (Lx_pt_id o hv.2) _ R hR, ih1]
        rfl

theorem pPins_enc (N : Nat) (ts : List Txt) (R : List Char) (hR : WsHead R) (ps : List TPin)
    (h : ps.all TPin.valid = true) (hfit : ∀ p ∈ ps, p.opts.length < N) :
    ∀ n, ps.length < n → pPins N n (enc (ps.flatMap TPin.toks ++ K .End :: ts) ++ R) = some (ps, enc ts ++ R) := by
  induction ps with
  | nil =>
    intro n hn
    cases n with
    | zero => cases hn
    | succ n => simp [pPins, nextD_enc _ _ _ (Lx_endminus .End (Or.inl rfl)) ts R hR]
  | cons p ps ih =>
    intro n hn
    simp only [List.all_cons, Bool.and_eq_true] at h
    cases n with
    | zero => cases hn
    | succ n =>
      have ih' := ih h.2 (fun y hy => hfit y (by simp [hy])) n (by simp only [List.length_cons] at hn; omega)
      obtain ⟨name, opts⟩ := p
      have hv := h.1
      simp only [TPin.valid, Bool.and_eq_true] at hv
      have hO := pPinOpts_enc (ps.flatMap TPin.toks ++ K .End :: ts) R hR opts hv.2 N sPlusSemi (Or.inl rfl) (hfit ⟨name, opts⟩ (by simp))
      simp only [List.flatMap_cons, TPin.toks, List.cons_append, List.append_assoc, List.nil_append, pPins,
        nextD_enc _ _ _ (Lx_endminus .Minus (Or.inr rfl)) _ R hR, expect_enc _ _ _ (Lx_id name hv.1) _ R hR, hO, ih']

theorem pPinProps_enc (ts : List Txt) (R : List Char) (hR : WsHead R) (ps : List (Txt × Txt × Txt))
    (h : ps.all (fun p => vId p.1 && vId p.2.1 && vStr p.2.2) = true) :
    ∀ n, ps.length < n → pPinProps n (enc (ps.flatMap pinpropToks ++ K .End :: ts) ++ R) = some (ps, enc ts ++ R) := by
  induction ps with
  | nil =>
    intro n hn
    cases n with
    | zero => cases hn
    | succ n => simp [pPinProps, nextD_enc _ _ _ (Lx_endminus .End (Or.inl rfl)) ts R hR]
  | cons p ps ih =>
    intro n hn
    simp only [List.all_cons, Bool.and_eq_true] at h
    cases n with
    | zero => cases hn
    | succ n =>
      have ih' := ih h.2 n (by simp only [List.length_cons] at hn; omega)
      obtain ⟨a, b, c⟩ := p
      obtain ⟨⟨h1, h2⟩, h3⟩ := h.1
      have hs := pSeq_enc [(one .Pin, .lit .Pin), (sId, .id), (one .Plus, .lit .Plus), (one .Property, .lit .Property),
          (sId, .id), (sString, .string), (sSemi, .lit .Semi)] [K .Pin, a, K .Plus, K .Property, b, c, K .Semi]
        ⟨Lx_one .Pin, Lx_id a h1, Lx_one .Plus, Lx_one .Property, Lx_id b h2, Lx_str c h3, Lx_semi, trivial⟩
        (ps.flatMap pinpropToks ++ K .End :: ts) R hR
      simp only [List.cons_append, List.nil_append] at hs
      simp only [List.flatMap_cons, pinpropToks, List.cons_append, List.nil_append, pPinProps,
        nextD_enc _ _ _ (Lx_endminus .Minus (Or.inr rfl)) _ R hR, hs, ih']

theorem Lx_ndopt (k : Kw) (hk : k = .Hardspacing ∨ k = .Layer ∨ k = .Via) : Lx sNdOpt (.lit k) k.chars := by
  rcases hk with rfl | rfl | rfl <;> exact Lx_lit _ _ (by decide)

theorem pNdOpts_enc (ts : List Txt) (R : List Char) (hR : WsHead R) (os : List NdOpt) (h : os.all NdOpt.valid = true) :
    ∀ n, os.length < n → pNdOpts n (enc (os.flatMap NdOpt.toks ++ K .Semi :: ts) ++ R) = some (os, enc ts ++ R) := by
  induction os with
  | nil =>
    intro n hn
    cases n with
    | zero => cases hn
    | succ n => simp [pNdOpts, nextD_enc _ _ _ (Lx_plussemi .Semi (Or.inr rfl)) ts R hR]
  | cons o os ih =>
    intro n hn
    simp only [List.all_cons, Bool.and_eq_true] at h
    cases n with
    | zero => cases hn
    | succ n =>
      have ih' := ih h.2 n (by simp only [List.length_cons] at hn; omega)
      have hplus := nextD_enc _ _ _ (Lx_plussemi .Plus (Or.inl rfl))
      cases o with
      | hard =>
        simp only [List.flatMap_cons, NdOpt.toks, List.cons_append, List.nil_append, pNdOpts, hplus _ R hR,
          nextD_enc _ _ _ (Lx_ndopt .Hardspacing (by simp)) _ R hR, ih', Option.map_some]
      | via v =>
        have hv : vId v = true := h.1
        simp only [List.flatMap_cons, NdOpt.toks, List.cons_append, List.nil_append, pNdOpts, hplus _ R hR,
          nextD_enc _ _ _ (Lx_ndopt .Via (by simp)) _ R hR, expect_enc _ _ _ (Lx_id v hv) _ R hR, ih', Option.map_some]
      | layer l w sp =>
        have hv : (vId l && vNum w && vNum sp) = true := h.1
        simp only [Bool.and_eq_true] at hv
        have hs := pSeq_enc [(sId, .id), (one .Width, .lit .Width), (sNum, .number), (one .Spacing, .lit .Spacing), (sNum, .number)]
          [l, K .Width, w, K .Spacing, sp] ⟨Lx_id l hv.1.1, Lx_one .Width, Lx_num w hv.1.2, Lx_one .Spacing, Lx_num sp hv.2, trivial⟩
          (os.flatMap NdOpt.toks ++ K .Semi :: ts) R hR
        simp only [List.cons_append, List.nil_append] at hs
        simp only [List.flatMap_cons, NdOpt.toks, List.cons_append, List.nil_append, pNdOpts, hplus _ R hR,
          nextD_enc _ _ _ (Lx_ndopt .Layer (by simp)) _ R hR, hs, ih', Option.map_some]

theorem pNonDefs_enc (N : Nat) (ts : List Txt) (R : List Char) (hR : WsHead R) (ds : List (Txt × List NdOpt))
    (h : ds.all (fun d => vId d.1 && d.2.all NdOpt.valid) = true) (hfit : ∀ d ∈ ds, d.2.length < N) :
    ∀ n first, (first = true → ds ≠ []) → ds.length < n →
      pNonDefs N n first (enc (ds.flatMap nondefToks ++ K .End :: ts) ++ R) = some (ds, enc ts ++ R) := by
  induction ds with
  | nil =>
    intro n first hf hn
    cases first with
    | true => exact absurd rfl (hf rfl)
    | false =>
      cases n with
      | zero => cases hn
      | succ n => simp [pNonDefs, nextD_enc _ _ _ (Lx_endminus .End (Or.inl rfl)) ts R hR]
  | cons d ds ih =>
    intro n first _ hn
    simp only [List.all_cons, Bool.and_eq_true] at h
    cases n with
    | zero => cases hn
    | succ n =>
      have ih' := ih h.2 (fun y hy => hfit y (by simp [hy])) n false (by intro e; cases e) (by simp only [List.length_cons] at hn; omega)
      obtain ⟨name, opts⟩ := d
      obtain ⟨h1, h2⟩ := h.1
      have hO := pNdOpts_enc (ds.flatMap nondefToks ++ K .End :: ts) R hR opts h2 N (hfit (name, opts) (by simp))
      have hm : Lx (if first then one .Minus else sEndMinus) (.lit .Minus) (K .Minus) := by
        cases first
        · exact Lx_endminus .Minus (Or.inr rfl)
        · exact Lx_one .Minus
      simp only [List.flatMap_cons, nondefToks, List.cons_append, List.append_assoc, List.nil_append, pNonDefs,
        nextD_enc _ _ _ hm _ R hR, expect_enc _ _ _ (Lx_id name h1) _ R hR, hO, ih', Option.map_some]

theorem Lx_propdef (k : Kw) (hk : k = .Componentpin ∨ k = .End) : Lx sPropdef (.lit k) k.chars := by
  rcases hk with rfl | rfl <;> exact Lx_lit _ _ (by decide)

theorem pPropDefs_enc (ts : List Txt) (R : List Char) (hR : WsHead R) (ps : List (Txt × Txt))
    (h : ps.all (fun p => vId p.1 && vId p.2) = true) :
    ∀ n, ps.length < n → pPropDefs n (enc (ps.flatMap propdefToks ++ K .End :: ts) ++ R) = some (ps, enc ts ++ R) := by
  induction ps with
  | nil =>
    intro n hn
    cases n with
    | zero => cases hn
    | succ n => simp [pPropDefs, nextD_enc _ _ _ (Lx_propdef .End (Or.inr rfl)) ts R hR]
  | cons p ps ih =>
    intro n hn
    simp only [List.all_cons, Bool.and_eq_true] at h
    cases n with
    | zero => cases hn
    | succ n =>
      have ih' := ih h.2 n (by simp only [List.length_cons] at hn; omega)
      obtain ⟨a, b⟩ := p
      have hs := pSeq_enc [(sId, .id), (sId, .id), (sSemi, .lit .Semi)] [a, b, K .Semi]
        ⟨Lx_id a h.1.1, Lx_id b h.1.2, Lx_semi, trivial⟩ (ps.flatMap propdefToks ++ K .End :: ts) R hR
      simp only [List.cons_append, List.nil_append] at hs
      simp only [List.flatMap_cons, propdefToks, List.cons_append, List.nil_append, pPropDefs,
        nextD_enc _ _ _ (Lx_propdef .Componentpin (Or.inl rfl)) _ R hR, hs, ih', Option.map_some]

theorem pMorePoints_enc (ts : List Txt) (R : List Char) (hR : WsHead R) (ps : List TPoint) (h : ps.all TPoint.valid = true) :
    ∀ n, ps.length < n → pMorePoints n (enc (ps.flatMap TPoint.toks ++ K .Semi :: ts) ++ R) = some (ps, enc ts ++ R) := by
  induction ps with
  | nil =>
    intro n hn
    cases n with
    | zero => cases hn
    | succ n => simp [pMorePoints, nextD_enc _ _ _ (Lx_pt_emb .Semi (Or.inr (Or.inr rfl))) ts R hR]
  | cons p ps ih =>
    intro n hn
    simp only [List.all_cons, Bool.and_eq_true] at h
    cases n with
    | zero => cases hn
    | succ n =>
      have ih' := ih h.2 n (by simp only [List.length_cons] at hn; omega)
      simp only [List.flatMap_cons, TPoint.toks, List.cons_append, List.append_assoc, pMorePoints,
        nextD_enc _ _ _ (Lx_pt_emb .Lpar (Or.inl rfl)) _ R hR, pPoint_enc p h.1 _ R hR, ih', Option.map_some]

theorem pCount_enc (c : Txt) (h : vNum c = true) (ts : List Txt) (R : List Char) (hR : WsHead R) :
    pCount (enc (c :: K .Semi :: ts) ++ R) = some (c, enc ts ++ R) := by
  have hs := pSeq_enc [(sNum, .number), (sSemi, .lit .Semi)] [c, K .Semi] ⟨Lx_num c h, Lx_semi, trivial⟩ ts R hR
  simp only [List.cons_append, List.nil_append] at hs
  simp only [pCount, hs]

/-! ### DESIGN and the file -/
theorem Lx_design (k : Kw)
    (hk : k ∈ [Kw.Propertydefinitions, .Nondefaultrules, .Pinproperties, .Specialnets, .Components, .Diearea, .Tracks,
      .Units, .Nets, .Pins, .Vias, .End, .Row]) : Lx sDesign (.lit k) k.chars := by
  simp only [List.mem_cons, List.not_mem_nil, or_false] at hk
  rcases hk with rfl | rfl | rfl | rfl | rfl | rfl | rfl | rfl | rfl | rfl | rfl | rfl | rfl <;> exact Lx_lit _ _ (by decide)

/-- fuel: the loops inside one DESIGN statement fit into `N` -/
def DStmt.fit (N : Nat) : DStmt → Prop
  | .diearea ps => ps.length < N + 1
  | .propdef ps => ps.length < N
  | .vias _ vs => vs.length < N ∧ ∀ v ∈ vs, v.opts.length < N
  | .nondef _ ds => ds.length < N ∧ ∀ d ∈ ds, d.2.length < N
  | .comps _ cs => cs.length < N
  | .pins _ ps => ps.length < N ∧ ∀ p ∈ ps, p.opts.length < N
  | .pinprop _ ps => ps.length < N
  | .spnets _ ns => ns.length < N ∧ ∀ x ∈ ns, x.parts.length < N ∧ partsFit true N x.parts
  | .nets _ ns => ns.length < N ∧ ∀ x ∈ ns, x.parts.length < N ∧ partsFit false N x.parts
  | _ => True

theorem pDesign_enc (N : Nat) (ts : List Txt) (R : List Char) (hR : WsHead R) (ss : List DStmt)
    (h : ss.all DStmt.valid = true) (hfit : ∀ s ∈ ss, s.fit N) :
    ∀ n, ss.length < n → pDesign N n (enc (ss.flatMap DStmt.toks ++ K .End :: ts) ++ R) = some (ss, enc ts ++ R) := by
  induction ss with
  | nil =>
    intro n hn
    cases n with
    | zero => cases hn
    | succ n => simp [pDesign, nextD_enc _ _ _ (Lx_design .End (by simp)) ts R hR]
  | cons s ss ih =>
    intro n hn
    simp only [List.all_cons, Bool.and_eq_true] at h
    cases n with
    | zero => cases hn
    | succ n =>
      have ih' := ih h.2 (fun y hy => hfit y (by simp [hy])) n (by simp only [List.length_cons] at hn; omega)
      have hf := hfit s (by simp)
      have hv := h.1
      generalize hT : ss.flatMap DStmt.toks ++ K .End :: ts = T at ih'
      cases s with
      | units a b u =>
        simp only [DStmt.valid, Bool.and_eq_true] at hv
        have hs := pSeq_enc [(sId, .id), (sId, .id), (sNum, .number), (sSemi, .lit .Semi)] [a, b, u, K .Semi]
          ⟨Lx_id a hv.1.1, Lx_id b hv.1.2, Lx_num u hv.2, Lx_semi, trivial⟩ T R hR
        simp only [List.cons_append, List.nil_append] at hs
        simp only [List.flatMap_cons, DStmt.toks, List.cons_append, List.nil_append, hT, pDesign,
          nextD_enc _ _ _ (Lx_design .Units (by simp)) _ R hR, hs, ih', Option.map_some]
      | diearea ps =>
        simp only [DStmt.valid, Bool.and_eq_true, Bool.not_eq_true', List.isEmpty_eq_false_iff] at hv
        cases ps with
        | nil => exact absurd rfl hv.1
        | cons p ps =>
          simp only [List.all_cons, Bool.and_eq_true] at hv
          simp only [DStmt.fit, List.length_cons] at hf
          have hlp := pLparPoint_enc p hv.2.1 (ps.flatMap TPoint.toks ++ K .Semi :: T) R hR
          have hmp := pMorePoints_enc T R hR ps hv.2.2 N (by omega)
          simp only [List.flatMap_cons, DStmt.toks, List.cons_append, List.append_assoc, List.nil_append, hT, pDesign,
            nextD_enc _ _ _ (Lx_design .Diearea (by simp)) _ R hR, hlp, hmp, ih', Option.map_some]
      | row a b x y o d =>
        simp only [DStmt.valid, Bool.and_eq_true] at hv
        obtain ⟨⟨⟨⟨⟨h1, h2⟩, h3⟩, h4⟩, h5⟩, h6⟩ := hv
        have hs := pSeq_enc [(sId, .id), (sId, .id), (sNum, .number), (sNum, .number), (sId, .id), (one .Do, .lit .Do)]
          [a, b, x, y, o, K .Do] ⟨Lx_id a h1, Lx_id b h2, Lx_num x h3, Lx_num y h4, Lx_id o h5, Lx_one .Do, trivial⟩
          (d.body ++ K .Semi :: T) R hR
        simp only [List.cons_append, List.nil_append] at hs
        simp only [List.flatMap_cons, DStmt.toks, List.cons_append, List.append_assoc, List.nil_append, hT, pDesign,
          nextD_enc _ _ _ (Lx_design .Row (by simp)) _ R hR, hs, pDoStep_enc d h6 _ R hR,
          expect_enc _ _ _ (Lx_pt_emb .Semi (Or.inr (Or.inr rfl))) _ R hR, ih', Option.map_some]
      | tracks d st c sp l =>
        simp only [DStmt.valid, Bool.and_eq_true] at hv
        obtain ⟨⟨⟨⟨h1, h2⟩, h3⟩, h4⟩, h5⟩ := hv
        have hs := pSeq_enc [(sXY, .xy), (sNum, .number), (one .Do, .lit .Do), (sNum, .number), (one .Step, .lit .Step),
            (sNum, .number), (one .Layer, .lit .Layer), (sId, .id), (sSemi, .lit .Semi)]
          [d, st, K .Do, c, K .Step, sp, K .Layer, l, K .Semi]
          ⟨Lx_xy d h1, Lx_num st h2, Lx_one .Do, Lx_num c h3, Lx_one .Step, Lx_num sp h4, Lx_one .Layer, Lx_id l h5, Lx_semi, trivial⟩
          T R hR
        simp only [List.cons_append, List.nil_append] at hs
        simp only [List.flatMap_cons, DStmt.toks, List.cons_append, List.nil_append, hT, pDesign,
          nextD_enc _ _ _ (Lx_design .Tracks (by simp)) _ R hR, hs, ih', Option.map_some]
      | propdef ps =>
        have hv' : ps.all (fun p => vId p.1 && vId p.2) = true := hv
        have hp := pPropDefs_enc (K .Propertydefinitions :: T) R hR ps hv' N hf
        simp only [List.flatMap_cons, DStmt.toks, List.cons_append, List.append_assoc, List.nil_append, hT, pDesign,
          nextD_enc _ _ _ (Lx_design .Propertydefinitions (by simp)) _ R hR, hp,
          expect_enc _ _ _ (Lx_one .Propertydefinitions) _ R hR, ih', Option.map_some]
      | vias c vs =>
        simp only [DStmt.valid, Bool.and_eq_true] at hv
        have hp := pVias_enc N (K .Vias :: T) R hR vs hv.2 hf.2 N hf.1
        simp only [List.flatMap_cons, DStmt.toks, sectToks, List.cons_append, List.append_assoc, List.nil_append, hT, pDesign,
          nextD_enc _ _ _ (Lx_design .Vias (by simp)) _ R hR, pCount_enc c hv.1 _ R hR, hp,
          expect_enc _ _ _ (Lx_one .Vias) _ R hR, ih', Option.map_some]
      | nondef c ds =>
        simp only [DStmt.valid, Bool.and_eq_true, Bool.not_eq_true', List.isEmpty_eq_false_iff] at hv
        have hp := pNonDefs_enc N (K .Nondefaultrules :: T) R hR ds hv.2 hf.2 N true (fun _ => hv.1.2) hf.1
        simp only [List.flatMap_cons, DStmt.toks, sectToks, List.cons_append, List.append_assoc, List.nil_append, hT, pDesign,
          nextD_enc _ _ _ (Lx_design .Nondefaultrules (by simp)) _ R hR, pCount_enc c hv.1.1 _ R hR, hp,
          expect_enc _ _ _ (Lx_one .Nondefaultrules) _ R hR, ih', Option.map_some]
      | comps c cs =>
        simp only [DStmt.valid, Bool.and_eq_true] at hv
        have hp := pComps_enc (K .Components :: T) R hR cs hv.2 N hf
        simp only [List.flatMap_cons, DStmt.toks, sectToks, List.cons_append, List.append_assoc, List.nil_append, hT, pDesign,
          nextD_enc _ _ _ (Lx_design .Components (by simp)) _ R hR, pCount_enc c hv.1 _ R hR, hp,
          expect_enc _ _ _ (Lx_one .Components) _ R hR, ih', Option.map_some]
      | pins c ps =>
        simp only [DStmt.valid, Bool.and_eq_true] at hv
        have hp := pPins_enc N (K .Pins :: T) R hR ps hv.2 hf.2 N hf.1
        simp only [List.flatMap_cons, DStmt.toks, sectToks, List.cons_append, List.append_assoc, List.nil_append, hT, pDesign,
          nextD_enc _ _ _ (Lx_design .Pins (by simp)) _ R hR, pCount_enc c hv.1 _ R hR, hp,
          expect_enc _ _ _ (Lx_one .Pins) _ R hR, ih', Option.map_some]
      | pinprop c ps =>
        simp only [DStmt.valid, Bool.and_eq_true] at hv
        have hp := pPinProps_enc (K .Pinproperties :: T) R hR ps hv.2 N hf
        simp only [List.flatMap_cons, DStmt.toks, sectToks, List.cons_append, List.append_assoc, List.nil_append, hT, pDesign,
          nextD_enc _ _ _ (Lx_design .Pinproperties (by simp)) _ R hR, pCount_enc c hv.1 _ R hR, hp,
          expect_enc _ _ _ (Lx_one .Pinproperties) _ R hR, ih', Option.map_some]
      | spnets c ns =>
        simp only [DStmt.valid, Bool.and_eq_true] at hv
        have hp := pNets_enc true N (K .Specialnets :: T) R hR ns hv.2 hf.2 N hf.1
        simp only [List.flatMap_cons, DStmt.toks, sectToks, List.cons_append, List.append_assoc, List.nil_append, hT, pDesign,
          nextD_enc _ _ _ (Lx_design .Specialnets (by simp)) _ R hR, pCount_enc c hv.1 _ R hR, hp,
          expect_enc _ _ _ (Lx_one .Specialnets) _ R hR, ih', Option.map_some]
      | nets c ns =>
        simp only [DStmt.valid, Bool.and_eq_true] at hv
        have hp := pNets_enc false N (K .Nets :: T) R hR ns hv.2 hf.2 N hf.1
        simp only [List.flatMap_cons, DStmt.toks, sectToks, List.cons_append, List.append_assoc, List.nil_append, hT, pDesign,
          nextD_enc _ _ _ (Lx_design .Nets (by simp)) _ R hR, pCount_enc c hv.1 _ R hR, hp,
          expect_enc _ _ _ (Lx_one .Nets) _ R hR, ih', Option.map_some]

end KV.DefText
