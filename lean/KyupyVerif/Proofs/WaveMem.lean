import KyupyVerif.Proofs.MapSound
import KyupyVerif.Proofs.WaveCircuit
import KyupyVerif.Proofs.WaveStrip
/-! How a waveform lives in the signal memory of `WaveSim` (wave_sim.py: `cbuf[z_mem + k, sim]`, one lane).

The region of a signal is `[loc, loc + cap)`. A waveform is stored as its entries (`TMIN` or finite times) followed by
one terminator (`TMAX` or `TMAX_OVL`); whatever lies behind the terminator inside the region is stale. Reading
(`_wave_eval` for its operands, `wave_capture_cpu`, the harness' `read_wave`) scans the region up to the first cell
`≥ TMAX`; writing stores entries and terminator and may leave ANY values in the remaining cells of the region (the real
evaluator pushes and pops entries while it runs, so cells behind the final terminator hold left-overs of the run).

`waveRW junk` is that discipline as an instance of `MapSound.RW` for every choice `junk` of the left-over cells;
`waveRW_fit`: a waveform with at most `cap - 1` entries, none of them a terminator, and a genuine terminator reads back
exactly. -/
namespace KV.Wave
open KV

/-- the cells of region `[l, l + c)` in address order -/
def cells (l : Int) (c : Nat) (m : Int → T) : List T := (List.range c).map fun (i : Nat) => m (l + (i : Int))

/-- scan a cell list: entries before the first terminator, and that terminator (`tmax` if the list has none) -/
def scan : List T → Wv
  | [] => ⟨[], T.tmax⟩
  | x :: r => if x.isTerm then ⟨[], x⟩ else ⟨x :: (scan r).ents, (scan r).term⟩

/-- read the waveform stored in region `[l, l + c)` -/
def rdWave (l : Int) (c : Nat) (m : Int → T) : Wv := scan (cells l c m)

/-- write a waveform into region `[l, l + c)`: entries, terminator, and `junk a` in every later cell `a` of the region;
    nothing outside the region changes (an entry or terminator that would fall outside the region is not written) -/
def wrWave (junk : Int → T) (l : Int) (c : Nat) (w : Wv) (m : Int → T) : Int → T := fun a =>
  if l ≤ a ∧ a < l + (c : Int) then
    if (a - l).toNat < w.ents.length then w.ents.getD (a - l).toNat T.tmax
    else if (a - l).toNat = w.ents.length then w.term
    else junk a
  else m a

/-- a waveform that can be stored in a region of capacity `c` and read back -/
def Fits (c : Nat) (w : Wv) : Prop :=
  w.ents.length < c ∧ (∀ e ∈ w.ents, e.isTerm = false) ∧ w.term.isTerm = true

theorem cells_length (l : Int) (c : Nat) (m : Int → T) : (cells l c m).length = c := by simp [cells]

theorem cells_getElem? (l : Int) (c : Nat) (m : Int → T) (i : Nat) (h : i < c) :
    (cells l c m)[i]? = some (m (l + (i : Int))) := by
  simp [cells, h]

theorem cells_congr (l : Int) (c : Nat) (m m' : Int → T)
    (h : ∀ a, l ≤ a → a < l + (c : Int) → m a = m' a) : cells l c m = cells l c m' := by
  unfold cells
  apply List.map_congr_left
  intro i hi
  have := List.mem_range.mp hi
  exact h _ (by omega) (by omega)

theorem scan_append (es : List T) (t : T) (rest : List T) (he : ∀ e ∈ es, e.isTerm = false) (ht : t.isTerm = true) :
    scan (es ++ t :: rest) = ⟨es, t⟩ := by
  induction es with
  | nil => simp [scan, ht]
  | cons e es ih =>
    have h1 : e.isTerm = false := he e List.mem_cons_self
    have := ih (fun x hx => he x (List.mem_cons_of_mem _ hx))
    simp [scan, h1, this]

/-- what a scan returns: entries are no terminators, the terminator is one -/
theorem scan_ents (cs : List T) : ∀ e ∈ (scan cs).ents, e.isTerm = false := by
  induction cs with
  | nil => intro e he; simp [scan] at he
  | cons x r ih =>
    intro e he
    unfold scan at he
    split at he
    · simp at he
    · rename_i hx
      rcases List.mem_cons.mp he with rfl | h
      · simpa using hx
      · exact ih e h

theorem scan_term (cs : List T) : (scan cs).term.isTerm = true := by
  induction cs with
  | nil => rfl
  | cons x r ih =>
    unfold scan
    split
    · assumption
    · exact ih

theorem scan_len (cs : List T) : (scan cs).ents.length ≤ cs.length := by
  induction cs with
  | nil => simp [scan]
  | cons x r ih =>
    unfold scan
    split
    · simp
    · simp only [List.length_cons]; omega

theorem rdWave_len (l : Int) (c : Nat) (m : Int → T) : (rdWave l c m).ents.length ≤ c := by
  have := scan_len (cells l c m)
  rw [cells_length] at this
  exact this

/-- reading depends on the region only -/
theorem rdWave_dep (l : Int) (c : Nat) (m m' : Int → T)
    (h : ∀ a, l ≤ a → a < l + (c : Int) → m a = m' a) : rdWave l c m = rdWave l c m' := by
  unfold rdWave; rw [cells_congr l c m m' h]

/-- writing changes the region only -/
theorem wrWave_frame (junk : Int → T) (l : Int) (c : Nat) (w : Wv) (m : Int → T) (a : Int)
    (h : ¬ (l ≤ a ∧ a < l + (c : Int))) : wrWave junk l c w m a = m a := by
  simp [wrWave, h]

theorem wrWave_cells (junk : Int → T) (l : Int) (c : Nat) (w : Wv) (m : Int → T) (h : w.ents.length < c) :
    (cells l c (wrWave junk l c w m)).take (w.ents.length + 1) = w.ents ++ [w.term] := by
  apply List.ext_getElem?
  intro i
  by_cases hi : i < w.ents.length + 1
  · rw [List.getElem?_take_of_lt hi, cells_getElem? _ _ _ _ (by omega)]
    have hreg : l ≤ l + (i : Int) ∧ l + (i : Int) < l + (c : Int) := by omega
    have hoff : (l + (i : Int) - l).toNat = i := by omega
    simp only [wrWave, hreg, and_self, if_true, hoff]
    by_cases hi2 : i < w.ents.length
    · simp only [hi2, if_true]
      rw [List.getElem?_append_left hi2, List.getD_eq_getElem?_getD, List.getElem?_eq_getElem hi2]
      rfl
    · have : i = w.ents.length := by omega
      subst this
      simp
  · rw [List.getElem?_eq_none (by simp [cells_length]; omega), List.getElem?_eq_none (by simp; omega)]

/-- **a fitting waveform reads back exactly**, whatever is left behind its terminator -/
theorem rd_wr_fit (junk : Int → T) (l : Int) (c : Nat) (w : Wv) (m : Int → T) (hf : Fits c w) :
    rdWave l c (wrWave junk l c w m) = w := by
  obtain ⟨hlen, hent, hterm⟩ := hf
  unfold rdWave
  have := wrWave_cells junk l c w m hlen
  rw [← List.take_append_drop (w.ents.length + 1) (cells l c (wrWave junk l c w m)), this,
    List.append_assoc, List.singleton_append]
  exact scan_append _ _ _ hent hterm

/-- the storage discipline of `WaveSim` as a `MapSound.RW`, for every way `junk` (a function of the region, the value
    written and the memory before) of filling the cells behind the terminator -/
def waveRW (junk : Int → Nat → Wv → (Int → T) → Int → T) : MapSound.RW Wv T where
  rd := rdWave
  wr l c w m := wrWave (junk l c w m) l c w m
  wr_frame l c w m a h := wrWave_frame _ l c w m a h
  rd_dep := rdWave_dep

/-- the simplest choice: cells behind the terminator keep their old contents -/
def keepJunk : Int → Nat → Wv → (Int → T) → Int → T := fun _ _ _ m a => m a

theorem waveRW_fit (junk : Int → Nat → Wv → (Int → T) → Int → T) (l : Int) (c : Nat) (w : Wv) (m : Int → T)
    (hf : Fits c w) : (waveRW junk).rd l c ((waveRW junk).wr l c w m) = w :=
  rd_wr_fit _ l c w m hf

theorem not_term_of_wf {e : T} (h : e = T.tmin ∨ e.isFin = true) : e.isTerm = false := by
  rcases h with rfl | h
  · rfl
  · cases e <;> simp_all [T.isFin, T.isTerm]

/-- a well-formed waveform with room for its terminator fits -/
theorem fits_of_ok {c : Nat} {w : Wv} (hok : w.ok) (hlen : w.ents.length < c) : Fits c w :=
  ⟨hlen, fun e he => not_term_of_wf (hok.1.2 e he), hok.2⟩

/-- **the evaluator's result fits the region of its output**: at most `cap - 1` entries (the push branch of `_wave_eval`
    requires `z_cur < z_cap - 1`), none of them a terminator, followed by `TMAX`/`TMAX_OVL` -/
theorem waveSem_fits (cfg : WCfg) (op : Sig.Op) (xs : List Wv) (hd : ∀ l p q, 0 ≤ cfg.delay l p q)
    (hc : 4 ≤ cfg.cap op.out) (hx : ∀ x ∈ xs, x.ok) : Fits (cfg.cap op.out) (waveSem cfg op xs) :=
  fits_of_ok (waveSem_ok cfg op xs hd hc hx) (waveSem_len cfg op xs (by omega))

/-! ### the stimulus as `s_to_c` stores it (wave_sim.py:120-128): three cells per input slot -/

/-- the three cells `s_to_c` writes for `(initial, time, final)` -/
def stimCells (i : Bool) (t : Int) (f : Bool) : List T :=
  match i, f with
  | false, false => [T.tmax, T.tmax, T.tmax]
  | false, true => [T.fin t, T.tmax, T.tmax]
  | true, false => [T.tmin, T.fin t, T.tmax]
  | true, true => [T.tmin, T.tmax, T.tmax]

/-- a region that starts with the cells of `s_to_c` reads as the stimulus waveform -/
theorem scan_stim (i f : Bool) (t : Int) (rest : List T) : scan (stimCells i t f ++ rest) = stimWave i t f := by
  cases i <;> cases f <;> simp [stimCells, stimWave, scan, T.isTerm]

theorem rdWave_stim (l : Int) (c : Nat) (m : Int → T) (i f : Bool) (t : Int)
    (h : (cells l c m).take 3 = stimCells i t f) : rdWave l c m = stimWave i t f := by
  unfold rdWave
  rw [← List.take_append_drop 3 (cells l c m), h]
  exact scan_stim i f t _

theorem stimWave_ok (i f : Bool) (t : Int) : (stimWave i t f).ok := by
  cases i <;> cases f <;> simp [stimWave, Wv.ok, WfRem, T.isFin, T.isTerm]

/-- a region whose first cell is `TMAX` reads as the empty waveform (constant 0) -/
theorem rdWave_tmax_head (l : Int) (c : Nat) (m : Int → T) (h : (cells l c m).head? = some T.tmax) :
    rdWave l c m = Wv.empty := by
  unfold rdWave
  cases hc : cells l c m with
  | nil => rw [hc] at h; cases h
  | cons x r =>
    rw [hc] at h
    simp only [List.head?_cons, Option.some.injEq] at h
    subst h
    rfl

/-- freshly initialised memory (`self.c = zeros + TMAX`) reads as the empty waveform everywhere -/
theorem rdWave_fresh (l : Int) (c : Nat) : rdWave l c (fun _ => T.tmax) = Wv.empty := by
  unfold rdWave cells
  cases c with
  | zero => rfl
  | succ n => simp [List.range_succ_eq_map, scan, T.isTerm, Wv.empty]

/-! ### moving all times of a memory rigidly (`t ↦ k·t + s`, sentinels fixed) -/

theorem T.aff_isTerm (k s : Int) (a : T) : (a.aff k s).isTerm = a.isTerm := by cases a <;> rfl
theorem T.aff_isFin (k s : Int) (a : T) : (a.aff k s).isFin = a.isFin := by cases a <;> rfl

theorem scan_aff (k s : Int) (cs : List T) : scan (cs.map (T.aff k s)) = (scan cs).aff k s := by
  induction cs with
  | nil => rfl
  | cons x r ih =>
    simp only [List.map_cons, scan, T.aff_isTerm]
    split
    · rename_i h
      cases x <;> simp_all [Wv.aff, T.aff, T.isTerm]
    · rw [ih]; rfl

/-- reading a rigidly moved memory gives the rigidly moved waveform -/
theorem rdWave_aff (k s : Int) (l : Int) (c : Nat) (m : Int → T) :
    rdWave l c (fun a => (m a).aff k s) = (rdWave l c m).aff k s := by
  unfold rdWave
  rw [← scan_aff]
  congr 1
  simp [cells]

theorem Wv.aff_ok (k s : Int) {w : Wv} (h : w.ok) : (w.aff k s).ok := by
  obtain ⟨⟨h1, h2⟩, h3⟩ := h
  refine ⟨⟨?_, ?_⟩, ?_⟩
  · intro e he
    simp only [Wv.aff, ← List.map_tail, List.mem_map] at he
    obtain ⟨x, hx, rfl⟩ := he
    rw [T.aff_isFin]; exact h1 x hx
  · intro e he
    simp only [Wv.aff, List.mem_map] at he
    obtain ⟨x, hx, rfl⟩ := he
    rcases h2 x hx with rfl | hf
    · exact Or.inl rfl
    · exact Or.inr (by rw [T.aff_isFin]; exact hf)
  · show (w.term.aff k s).isTerm = true
    rw [T.aff_isTerm]; exact h3

/-! ### extremal entries (for the captured earliest arrival / latest stabilisation) -/

theorem foldl_min_mem (l : List T) (a : T) : l.foldl T.min a = a ∨ l.foldl T.min a ∈ l := by
  induction l generalizing a with
  | nil => exact Or.inl rfl
  | cons x r ih =>
    simp only [List.foldl_cons, List.mem_cons]
    rcases ih (T.min a x) with h | h
    · rw [h]
      rcases T.min_cases a x with e | e
      · exact Or.inl e
      · exact Or.inr (Or.inl e)
    · exact Or.inr (Or.inr h)

theorem foldl_max_mem (l : List T) (a : T) : l.foldl T.max a = a ∨ l.foldl T.max a ∈ l := by
  induction l generalizing a with
  | nil => exact Or.inl rfl
  | cons x r ih =>
    simp only [List.foldl_cons, List.mem_cons]
    rcases ih (T.max a x) with h | h
    · rw [h]
      unfold T.max
      split
      · exact Or.inr (Or.inl rfl)
      · exact Or.inl rfl
    · exact Or.inr (Or.inr h)

end KV.Wave
