import KyupyVerif.Proofs.WaveTerm

namespace KV.Wave

/-- an operand without any finite transition -/
def Inactive (w : List T) : Prop := w = [] ∨ w = [T.tmin]

def finalOf (ws : Fin 4 → List T) : Fin 4 → Bool := fun i => (ws i).length % 2 == 1

/-- the hazard hypothesis delivered by the per-op table theorem `op_hazard`:
the LUT is constant `c0` on every vector that agrees with the inactive operands -/
def HazardFree (lut : Nat) (ws : Fin 4 → List T) (c0 : Bool) : Prop :=
  ∀ b : Fin 4 → Bool, (∀ i, Inactive (ws i) → b i = finalOf ws i) → lutBit lut b = c0

structure InvH (ws : Fin 4 → List T) (s : St) : Prop where
  z : s.z = [] ∨ s.z = [T.tmin]
  quiet : ∀ i, Inactive (ws i) → s.r i = [] ∧ s.inp i = finalOf ws i

theorem stepH (E : Env) (ws) (c0 : Bool) (hH : HazardFree E.lut ws c0) (s : St)
    (hP : PInv E.lut s) (hI : InvH ws s) (hlt : T.lt (cur E.D E.terms s) .tmax = true) :
    InvH ws (step E.lut E.D E.terms E.zcap s) := by
  have hne := pick_nonempty E s hlt
  have hact : ¬ Inactive (ws (pick E.D E.terms s)) := fun h => hne (hI.quiet _ h).1
  have hlut0 : lutBit E.lut s.inp = c0 := hH s.inp (fun i hi => (hI.quiet i hi).2)
  have hlut1 : lutBit E.lut (upd s.inp (pick E.D E.terms s) (!s.inp (pick E.D E.terms s))) = c0 := by
    apply hH
    intro i hi
    unfold upd; split
    · rename_i e; subst e; exact absurd hi hact
    · exact (hI.quiet i hi).2
  have hpar : (s.z.length % 2 == 1) = c0 := by rw [hP.1, hP.2, hlut0]
  constructor
  · -- the "differ" branch is impossible, so z is unchanged
    unfold step
    simp only [hlut1, hpar]
    simp [hI.z]
  · intro i hi
    rw [step_r, step_inp]
    unfold upd
    split
    · rename_i e; subst e; exact absurd hi hact
    · exact hI.quiet i hi

/-- from the end of the `tmin` phase on, the quiet-operand facts hold -/
theorem A_to_H (ws) (s : St) (hA : InvA s) (hd : DInv ws s) (hk : KInv s) (hp : anyPend s = false) :
    InvH ws s := by
  have hnp : ∀ i, pendTmin s i = false := by
    unfold anyPend at hp
    simp only [Bool.or_eq_false_iff] at hp
    intro i
    match i with
    | 0 => exact hp.1.1.1
    | 1 => exact hp.1.1.2
    | 2 => exact hp.1.2
    | 3 => exact hp.2
  refine ⟨hA.z, ?_⟩
  intro i hi
  obtain ⟨hr, hkle⟩ := hd i
  have hpi := hnp i
  unfold pendTmin at hpi
  rcases hi with hw | hw
  · -- empty operand
    rw [hw] at hr hkle
    have hk0 : s.k i = 0 := by simpa using hkle
    refine ⟨by simpa using hr, ?_⟩
    rw [hk i, hk0]; simp [finalOf, hw]
  · -- operand [tmin]: not pending any more, hence consumed
    rw [hw] at hr hkle
    have hk1 : s.k i = 1 := by
      rcases Nat.lt_or_ge (s.k i) 1 with h0 | h1
      · have : s.k i = 0 := by omega
        rw [this] at hr; rw [hr] at hpi; simp at hpi
      · simp at hkle; omega
    refine ⟨by rw [hr, hk1]; simp, ?_⟩
    rw [hk i, hk1]; simp [finalOf, hw]

def AllFin (s : St) : Prop := ∀ i, ∀ e ∈ s.r i, e.isFin = true

theorem step_allfin (E : Env) (s : St) (h : AllFin s) : AllFin (step E.lut E.D E.terms E.zcap s) := by
  intro i e he
  rw [step_r] at he
  unfold upd at he
  split at he
  · exact h _ e (List.mem_of_mem_tail he)
  · exact h i e he

/-- combined invariant for the whole run -/
def QH (E : Env) (ws : Fin 4 → List T) (s : St) : Prop :=
  PInv E.lut s ∧ DInv ws s ∧ KInv s ∧ ((InvA s) ∨ (AllFin s ∧ InvH ws s))

theorem step_QH (E : Env) (ws) (c0) (hH : HazardFree E.lut ws c0) (s : St) (hq : QH E ws s)
    (hlt : T.lt (cur E.D E.terms s) .tmax = true) : QH E ws (step E.lut E.D E.terms E.zcap s) := by
  obtain ⟨hP, hd, hk, h⟩ := hq
  have hP' := step_inv E.lut E.D E.terms E.zcap (by have := E.hcap; omega) s hP
  have hd' := step_dinv E ws s hd hlt
  have hk' := step_kinv E.lut E.D E.terms E.zcap s hk
  refine ⟨hP', hd', hk', ?_⟩
  rcases h with hA | ⟨hf, hI⟩
  · cases hp : anyPend s with
    | true => exact Or.inl (stepA E s hA hp).1
    | false =>
      have hB := (A_to_B E s (expected s) hP hA rfl hp).1
      exact Or.inr ⟨step_allfin E s hB.fin, stepH E ws c0 hH s hP (A_to_H ws s hA hd hk hp) hlt⟩
  · exact Or.inr ⟨step_allfin E s hf, stepH E ws c0 hH s hP hI hlt⟩

theorem run_QH (E : Env) (ws) (c0) (hH : HazardFree E.lut ws c0) (fuel : Nat) (s : St) (hq : QH E ws s) :
    QH E ws (run E.lut E.D E.terms E.zcap fuel s) := by
  induction fuel generalizing s with
  | zero => simpa [run]
  | succ n ih =>
    unfold run; split
    · rename_i hlt; exact ih _ (step_QH E ws c0 hH s hq hlt)
    · exact hq

/-- C05, gate level: if the LUT is constant on all vectors that agree with the inactive operands,
the produced waveform has no finite transition at all (it is `[]` or `[tmin]`) -/
theorem gate_hazard_free (E : Env) (ws : Fin 4 → List T) (hwf : ∀ i, WfRem (ws i)) (c0 : Bool)
    (hH : HazardFree E.lut ws c0) :
    (run E.lut E.D E.terms E.zcap (totalLen ws) (init E.lut ws)).z = [] ∨
    (run E.lut E.D E.terms E.zcap (totalLen ws) (init E.lut ws)).z = [T.tmin] := by
  have hq0 : QH E ws (init E.lut ws) := by
    have h := init_Q E ws hwf
    refine ⟨h.1, by intro i; simp [init], by intro i; simp [init], Or.inl ?_⟩
    rcases h.2 with ⟨hA, _⟩ | ⟨hB, _⟩
    · exact hA
    · exact ⟨hwf, by simp only [init]; cases (E.lut % 2 == 1) <;> simp, rfl⟩
  have hq := run_QH E ws c0 hH (totalLen ws) _ hq0
  rcases hq.2.2.2 with hA | ⟨_, hI⟩
  · exact hA.z
  · exact hI.z

end KV.Wave
