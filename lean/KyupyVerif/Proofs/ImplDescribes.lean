import KyupyVerif.Proofs.ImplDatasheet
import KyupyVerif.Model.Techlib
/-! Glue for the composition C19 → C10: what the certificate `describesB` (a row of the generated library tables is the
`dump_techlib.describe` row of an implementation netlist) says in the form the semantic proof uses — where the slot of the
`j`-th port is found among the row's input slots (`Cell.env` looks values up by `idxOf?`), which lines the outputs capture —
derived from the port list alone. -/
namespace KV.Transform
open KV KV.Sig KV.TL

/-- undriven ports with their positions -/
def undr (m : NNet) : List (Nat × Nat) := m.net.io.zipIdx.filter fun nk => (m.net.node nk.1).ins.length == 0

theorem inSlots_eq {cr : Cell} {m : NNet}
    (hp : cr.ports = m.net.io.zipIdx.map fun nk =>
     ((m.names.getD nk.1 "").toList, decide ((m.net.node nk.1).ins.length > 0),
      if (m.net.node nk.1).ins.length > 0 then ((m.net.node nk.1).inPin 0).getD 0 else m.net.idx.ppi + nk.2)) :
    cr.inSlots = (undr m).map fun nk => m.net.idx.ppi + nk.2 := by
  simp only [Cell.inSlots, hp, List.filter_map, List.map_map, undr]
  have e : ((fun (x : Str × Bool × Nat) => !x.2.1) ∘ fun (nk : Nat × Nat) =>
      ((m.names.getD nk.1 "").toList, decide ((m.net.node nk.1).ins.length > 0),
        if (m.net.node nk.1).ins.length > 0 then ((m.net.node nk.1).inPin 0).getD 0 else m.net.idx.ppi + nk.2)) =
      fun nk => (m.net.node nk.1).ins.length == 0 := by
    funext nk
    simp only [Function.comp]
    by_cases h : (m.net.node nk.1).ins.length = 0
    · simp [h]
    · have : 0 < (m.net.node nk.1).ins.length := by omega
      simp [h, this]
  rw [e]
  apply List.map_congr_left
  intro nk hnk
  have := (List.mem_filter.mp hnk).2
  simp only [beq_iff_eq] at this
  simp [this]

theorem inPorts_eq {m : NNet} {sh : Shape} (hsh : implShape m = some sh) : sh.inPorts = (undr m).map (·.1) := by
  rw [(implShape_spec m sh hsh).1, undr]
  have : (fun (nk : Nat × Nat) => (m.net.node nk.1).ins.length == 0) = (fun p => (m.net.node p).ins.length == 0) ∘ Prod.fst := rfl
  rw [this, ← List.filter_map]
  congr 1
  exact (List.zipIdx_map_fst _ _).symm

theorem undr_mem {m : NNet} {nk : Nat × Nat} :
    nk ∈ undr m ↔ m.net.io[nk.2]? = some nk.1 ∧ (m.net.node nk.1).ins.length = 0 := by
  simp only [undr, List.mem_filter, beq_iff_eq]
  rw [List.mem_zipIdx_iff_getElem?]

theorem undr_snd_nodup (m : NNet) : ((undr m).map (·.2)).Nodup := by
  have h1 : ((undr m).map (·.2)).Sublist (m.net.io.zipIdx.map (·.2)) := (List.filter_sublist).map _
  rw [List.zipIdx_map_snd] at h1
  exact h1.nodup List.nodup_range'

theorem undr_fst_nodup {m : NNet} (hn : m.net.io.Nodup) : ((undr m).map (·.1)).Nodup := by
  have h1 : ((undr m).map (·.1)).Sublist (m.net.io.zipIdx.map (·.1)) := (List.filter_sublist).map _
  rw [List.zipIdx_map_fst] at h1
  exact h1.nodup hn

/-- where the slot of the `j`-th port is found among the input slots, from the port list alone -/
theorem slot_of_ports {m : NNet} (hn : m.net.io.Nodup) (j n : Nat) (hj : m.net.io[j]? = some n) :
    ((undr m).map fun nk => m.net.idx.ppi + nk.2).idxOf? (m.net.idx.ppi + j) =
      if (m.net.node n).ins.length = 0 then some (((undr m).map (·.1)).idxOf n) else none := by
  by_cases h0 : (m.net.node n).ins.length = 0
  · simp only [h0, if_true]
    have hm : (n, j) ∈ undr m := undr_mem.mpr ⟨hj, h0⟩
    obtain ⟨t, ht, het⟩ := List.mem_iff_getElem.mp hm
    have e1 : ((undr m).map (·.1)).idxOf n = t := by
      have := (undr_fst_nodup hn).idxOf_getElem t (by simpa using ht)
      simpa [het] using this
    rw [e1, List.idxOf?_eq_some_iff]
    refine ⟨by simpa using ht, by simp [het], ?_⟩
    intro j' hj' he
    have hj'' : j' < (undr m).length := by omega
    simp only [List.getElem_map] at he
    have hs : ((undr m).map (·.2))[j']'(by simpa using hj'') = ((undr m).map (·.2))[t]'(by simpa using ht) := by
      simp only [List.getElem_map, het]; omega
    have := (List.getElem_inj (undr_snd_nodup m)).mp hs
    omega
  · simp only [h0, if_false]
    rw [List.idxOf?_eq_none_iff]
    intro hmem
    obtain ⟨nk, hnk, he⟩ := List.mem_map.mp hmem
    obtain ⟨h1, h2⟩ := undr_mem.mp hnk
    have : nk.2 = j := by omega
    rw [this, hj] at h1
    exact h0 (Option.some.inj h1 ▸ h2)

theorem zero_not_slot (m : NNet) : ((undr m).map fun nk => m.net.idx.ppi + nk.2).idxOf? m.net.idx.zero = none := by
  rw [List.idxOf?_eq_none_iff]
  intro hmem
  obtain ⟨nk, _, he⟩ := List.mem_map.mp hmem
  simp only [Net.idx] at he
  omega

theorem outLines_eq {cr : Cell} {m : NNet} {sh : Shape} (hsh : implShape m = some sh)
    (hp : cr.ports = m.net.io.zipIdx.map fun nk =>
     ((m.names.getD nk.1 "").toList, decide ((m.net.node nk.1).ins.length > 0),
      if (m.net.node nk.1).ins.length > 0 then ((m.net.node nk.1).inPin 0).getD 0 else m.net.idx.ppi + nk.2)) :
    cr.outLines.map (·.2) = sh.outLines := by
  obtain ⟨_, hout, hlines⟩ := implShape_spec m sh hsh
  have h1 : cr.outLines.map (·.2) =
      (m.net.io.filter fun p => (m.net.node p).ins.length != 0).map fun p => ((m.net.node p).inPin 0).getD 0 := by
    simp only [Cell.outLines, hp, List.filter_map, List.map_map]
    have e : ((fun (x : Str × Bool × Nat) => x.2.1) ∘ fun (nk : Nat × Nat) =>
        ((m.names.getD nk.1 "").toList, decide ((m.net.node nk.1).ins.length > 0),
          if (m.net.node nk.1).ins.length > 0 then ((m.net.node nk.1).inPin 0).getD 0 else m.net.idx.ppi + nk.2)) =
        (fun p => (m.net.node p).ins.length != 0) ∘ Prod.fst := by
      funext nk
      simp only [Function.comp]
      by_cases h : (m.net.node nk.1).ins.length = 0
      · simp [h]
      · have : 0 < (m.net.node nk.1).ins.length := by omega
        simp [h, this]
    rw [e]
    have e2 : ∀ nk ∈ m.net.io.zipIdx.filter ((fun p => (m.net.node p).ins.length != 0) ∘ Prod.fst),
        ((fun (x : Str × Nat) => x.2) ∘ (fun (p : Str × Bool × Nat) => (p.1, p.2.2)) ∘ fun (nk : Nat × Nat) =>
          ((m.names.getD nk.1 "").toList, decide ((m.net.node nk.1).ins.length > 0),
            if (m.net.node nk.1).ins.length > 0 then ((m.net.node nk.1).inPin 0).getD 0 else m.net.idx.ppi + nk.2)) nk =
        ((fun p => ((m.net.node p).inPin 0).getD 0) ∘ Prod.fst) nk := by
      intro nk hnk
      have := (List.mem_filter.mp hnk).2
      simp only [Function.comp, bne_iff_ne, ne_eq] at this
      have h0 : 0 < (m.net.node nk.1).ins.length := by omega
      simp [Function.comp, h0]
    rw [List.map_congr_left e2, ← List.map_map, ← List.filter_map, List.zipIdx_map_fst]
  rw [h1, ← hout]
  have := congrArg (List.map fun o : Option Nat => o.getD 0) hlines
  rw [List.map_map, List.map_map] at this
  have e3 : ((fun o : Option Nat => o.getD 0) ∘ some) = id := by funext l; rfl
  rw [e3, List.map_id] at this
  exact this

theorem describes_parts {cr : Cell} {m : NNet} {sh : Shape} {order : List Nat} (hsh : implShape m = some sh)
    (h : describesB Gen.kindPrefixes cr m order = true) :
    cr.prog = (genOps Gen.kindPrefixes m.net order false).map OpRow.toOp ∧ m.net.sNodes = m.net.io ∧
    (∀ j n, m.net.io[j]? = some n → cr.inSlots.idxOf? (m.net.idx.ppi + j) =
      if (m.net.node n).ins.length = 0 then some (sh.inPorts.idxOf n) else none) ∧
    cr.inSlots.idxOf? m.net.idx.zero = none ∧ cr.inNames.length = sh.inPorts.length ∧
    cr.outLines.map (·.2) = sh.outLines := by
  simp only [describesB, Bool.and_eq_true, beq_iff_eq, decide_eq_true_eq] at h
  obtain ⟨⟨⟨⟨h1, h2⟩, _⟩, h4⟩, h5⟩ := h
  have hs := inSlots_eq h2
  have hi := inPorts_eq hsh
  refine ⟨?_, ?_, ?_, ?_, ?_, outLines_eq hsh h2⟩
  · simp only [Cell.prog, h1, List.map_map]
    apply List.map_congr_left
    intro r _; rfl
  · unfold Net.sNodes at h4 ⊢
    simp only [List.length_append] at h4
    have ha : ((List.range m.net.nodes.size).filter fun i => (m.net.node i).isDff) = [] :=
      List.eq_nil_of_length_eq_zero (by omega)
    have hb : ((List.range m.net.nodes.size).filter fun i => (m.net.node i).isLatch) = [] :=
      List.eq_nil_of_length_eq_zero (by omega)
    rw [ha, hb]; simp
  · intro j n hj
    rw [hs, hi]; exact slot_of_ports h5 j n hj
  · rw [hs]; exact zero_not_slot m
  · have : cr.inNames.length = cr.inSlots.length := by simp [Cell.inNames, Cell.inSlots]
    rw [this, hs, hi]; simp

end KV.Transform
