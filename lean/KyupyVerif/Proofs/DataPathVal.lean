import KyupyVerif.Proofs.DataPathArr
import KyupyVerif.Proofs.CycleStrip
/-! The array-level data-path statement against ANY solution of the netlist's gate equations (generic in the arity): given that
the one-lane simulator computes the unique solution (C02 `sim8/4/2_all_circuits`), entry `[q][p]` of the result is the code of
the value the solution for stimulus pattern `p` gives the captured line. -/
namespace KV.DP
open KV KV.Sig KV.Cycle KV.Enc

/-- every solution reads the stimulus' constant slot at the constant slot -/
theorem zero_slot {β} (tbl : List PrefixRow) (net : Net) (order : List Nat) (hwf : net.wfB = true)
    (ho : orderOKB net order = true) (sem : Op → List β → β) (d : β) (a : List β) (env val : Nat → β)
    (hval : SolvesJ (Jt net) sem ((genOps tbl net order false).map OpRow.toOp) (sToC (tabsOf net false) d a env) val) :
    val net.idx.zero = env net.idx.zero := by
  obtain ⟨hz, ht, hp⟩ := idx_vals net
  have hj : Jt net net.idx.zero = false := by simp only [Jt, beq_eq_false_iff_ne]; omega
  have hlt := orderOK_lt ho
  rw [hval.1 _ hj (fun o ho' => genOps_out_ne_zero tbl net order hwf hlt o ho'), sToC_apply, if_neg]
  intro hm
  obtain ⟨px, hpx, he⟩ := List.mem_map.1 hm
  have := pippi_sig net false px hpx
  omega

section
variable {A : Nat → Type} {β : Type} (C : ∀ nb, Codec (A nb)) (ln : ∀ nb, Nat → A nb → β) (ofCode : Nat → β) (code : β → Nat)
  (keep : Nat) (semW : ∀ nb, Nat → List (A nb) → A nb) (semL : Nat → List β → β)

theorem simArr_val (V : ∀ nb, LaneView (C nb) nb (ln nb) ofCode code keep)
    (hl : ∀ nb p, p < 8 * nb → ∀ (ops : List Op) (env : Nat → A nb) (l : Nat),
      ln nb p (exec (semW nb) ops env l) = exec semL ops (fun x => ln nb p (env x)) l)
    (tbl : List PrefixRow) (net : Net) (order : List Nat) (hwf : net.wfB = true) (ho : orderOKB net order = true)
    (spec : Nat → List β → β)
    (huniq : ∀ env val : Nat → β, SolvesJ (Jt net) (fun op => spec op.code) ((genOps tbl net order false).map OpRow.toOp) env val →
      ∀ x, Jt net x = false → val x = exec semL ((genOps tbl net order false).map OpRow.toOp) env x)
    (a : Arr Nat) (ha : a.wf = true) (hS : a.lead = [net.sNodes.length]) :
    ∃ r, simArr C (fun nb op => semW nb op.code) tbl net order false a = some r ∧
      r.lead = [net.sNodes.length] ∧ r.last = a.last ∧ r.wf = true ∧
      ∀ p, p < a.last → ∀ val : Nat → β,
        SolvesJ (Jt net) (fun op => spec op.code) ((genOps tbl net order false).map OpRow.toOp)
          (sToC (tabsOf net false) (ofCode 0) (column ofCode a p) (fun _ => ofCode 0)) val →
        (∀ q l, q < net.sNodes.length → (sNodeAt net q).inPin 0 = some l → (r.rows.getD q []).getD p 0 = code (val l)) ∧
        (∀ q, net.io.length ≤ q → q < net.sNodes.length → (sNodeAt net q).inPin 0 = none →
          (r.rows.getD q []).getD p 0 = code (ofCode 0)) ∧
        (∀ q, q < net.io.length → (sNodeAt net q).inPin 0 = none → (r.rows.getD q []).getD p 0 = 2) := by
  obtain ⟨r, hr, hlead, hlast, hrwf, he⟩ := simArr_entries C ln ofCode code keep semW semL V hl tbl net order false a ha hS
  refine ⟨r, hr, hlead, hlast, hrwf, fun p hp val hval => ?_⟩
  have hrun : ∀ x, Jt net x = false → laneRun ofCode semL tbl net order false (column ofCode a p) x = val x := by
    intro x hx
    unfold laneRun
    rw [sigOps_false]
    exact (huniq _ val hval x hx).symm
  have hio := io_le_sNodes net
  refine ⟨fun q l hq hl' => ?_, fun q hio' hq hn => ?_, fun q hq hn => ?_⟩
  · rw [he q p hq hp, if_pos (isPoppo_of net q hq (Or.inr (by rw [hl']; rfl))), hrun _ (capSig_notJunk net hwf q),
      capSig_false, hl']
  · rw [he q p hq hp, if_pos (isPoppo_of net q hq (Or.inl hio')), hrun _ (capSig_notJunk net hwf q), capSig_false, hn]
    simp only
    rw [zero_slot tbl net order hwf ho _ _ _ _ val hval]
  · have hnp : isPoppo net q = false := by unfold isPoppo; simp [hq, hn]
    rw [he q p (by omega) hp, hnp]
    simp

/-- two well-formed arrays of the same shape with the same entries are equal -/
theorem arr_ext (r r' : Arr Nat) (hw : r.wf = true) (hw' : r'.wf = true) (hl : r.lead = r'.lead) (hn : r.last = r'.last)
    (he : ∀ q p, q < r.lead.prod → p < r.last → (r.rows.getD q []).getD p 0 = (r'.rows.getD q []).getD p 0) : r = r' := by
  obtain ⟨h1, h2⟩ := (wf_iff r).mp hw
  obtain ⟨h1', h2'⟩ := (wf_iff r').mp hw'
  cases r with
  | mk lead last rows =>
    cases r' with
    | mk lead' last' rows' =>
      simp only at hl hn h1 h2 h1' h2' he
      subst hl hn
      simp only [Arr.mk.injEq, true_and]
      apply List.ext_getElem (by rw [h1, h1'])
      intro i hi hi'
      have hri := h2 _ (List.getElem_mem hi)
      have hri' := h2' _ (List.getElem_mem hi')
      apply List.ext_getElem (by rw [hri, hri'])
      intro j hj hj'
      have := he i j (by omega) (by omega)
      simpa [List.getD_eq_getElem?_getD, List.getElem?_eq_getElem hi, List.getElem?_eq_getElem hi',
        List.getElem?_eq_getElem hj, List.getElem?_eq_getElem hj'] using this

/-- **`strip_forks` does not change the result array**: domain hypotheses `forksOKB` (C06) and `capDriversB` (the order contains the
    driver of every captured line), one-lane op semantics in which `BUF1` returns its first operand -/
theorem simArr_strip (V : ∀ nb, LaneView (C nb) nb (ln nb) ofCode code keep)
    (hl : ∀ nb p, p < 8 * nb → ∀ (ops : List Op) (env : Nat → A nb) (l : Nat),
      ln nb p (exec (semW nb) ops env l) = exec semL ops (fun x => ln nb p (env x)) l)
    (tbl : List PrefixRow) (net : Net) (order : List Nat) (hwf : net.wfB = true) (ho : orderOKB net order = true)
    (hf : forksOKB net order = true) (hcov : capDriversB net order = true)
    (dflt : β) (hbuf : ∀ xs, semL BUF1 xs = xs.getD 0 dflt)
    (a : Arr Nat) (ha : a.wf = true) (hS : a.lead = [net.sNodes.length]) :
    simArr C (fun nb op => semW nb op.code) tbl net order true a = simArr C (fun nb op => semW nb op.code) tbl net order false a := by
  obtain ⟨r, hr, hlead, hlast, hrwf, he⟩ := simArr_entries C ln ofCode code keep semW semL V hl tbl net order true a ha hS
  obtain ⟨r', hr', hlead', hlast', hrwf', he'⟩ := simArr_entries C ln ofCode code keep semW semL V hl tbl net order false a ha hS
  rw [hr, hr']
  congr 1
  apply arr_ext r r' hrwf hrwf' (by rw [hlead, hlead']) (by rw [hlast, hlast'])
  intro q p hq hp
  have hq' : q < net.sNodes.length := by rw [hlead] at hq; simpa using hq
  have hp' : p < a.last := by rw [hlast] at hp; exact hp
  rw [he q p hq' hp', he' q p hq' hp']
  by_cases hcap : isPoppo net q = true
  · simp only [hcap, if_true]
    congr 1
    have := captured_strip tbl hwf ho hf hcov semL dflt hbuf (ofCode 0) (column ofCode a p) (fun _ => ofCode 0) (fun _ => ofCode 0)
      (Agree.refl _ _ _) q hq'
    unfold solOf at this
    unfold laneRun
    rw [exec_eq_execG, exec_eq_execG]
    exact this
  · simp [hcap]

end

end KV.DP
