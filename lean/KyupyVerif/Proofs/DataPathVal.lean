import KyupyVerif.Proofs.DataPathArr
/-! The array-level data-path statement against ANY solution of the netlist's gate equations (generic in the arity): given that
the one-lane simulator computes the unique solution (C02 `sim8/4/2_all_circuits`), entry `[q][p]` of the result is the code of
the value the solution for stimulus pattern `p` gives the captured line. -/
namespace KV.DP
open KV KV.Sig KV.Cycle KV.Enc

/-- every solution reads the stimulus' constant slot at the constant slot -/
theorem zero_slot {β} (tbl : List PrefixRow) (net : Net) (order : List Nat) (hwf : net.wfB = true)
    (ho : orderOKB net order = true) (sem : Op → List β → β) (d : β) (a : List β) (env val : Nat → β)
    (hval : SolvesJ (Jt net) sem ((genOps tbl net order false).map OpRow.toOp) (sToC (tabsOf net false) d a env) val) :
    val net.idx.zero = env net.idx.zero := by
  obtain ⟨hz, ht, hp⟩ := idx_vals net
  have hj : Jt net net.idx.zero = false := by simp only [Jt, beq_eq_false_iff_ne]; omega
  have hlt := orderOK_lt ho
  rw [hval.1 _ hj (fun o ho' => genOps_out_ne_zero tbl net order hwf hlt o ho'), sToC_apply, if_neg]
  intro hm
  obtain ⟨px, hpx, he⟩ := List.mem_map.1 hm
  have := pippi_sig net false px hpx
  omega

section
variable {A : Nat → Type} {β : Type} (C : ∀ nb, Codec (A nb)) (ln : ∀ nb, Nat → A nb → β) (ofCode : Nat → β) (code : β → Nat)
  (keep : Nat) (semW : ∀ nb, Nat → List (A nb) → A nb) (semL : Nat → List β → β)

theorem simArr_val (V : ∀ nb, LaneView (C nb) nb (ln nb) ofCode code keep)
    (hl : ∀ nb p, p < 8 * nb → ∀ (ops : List Op) (env : Nat → A nb) (l : Nat),
      ln nb p (exec (semW nb) ops env l) = exec semL ops (fun x => ln nb p (env x)) l)
    (tbl : List PrefixRow) (net : Net) (order : List Nat) (hwf : net.wfB = true) (ho : orderOKB net order = true)
    (spec : Nat → List β → β)
    (huniq : ∀ env val : Nat → β, SolvesJ (Jt net) (fun op => spec op.code) ((genOps tbl net order false).map OpRow.toOp) env val →
      ∀ x, Jt net x = false → val x = exec semL ((genOps tbl net order false).map OpRow.toOp) env x)
    (a : Arr Nat) (ha : a.wf = true) (hS : a.lead = [net.sNodes.length]) :
    ∃ r, simArr C (fun nb op => semW nb op.code) tbl net order false a = some r ∧
      r.lead = [net.sNodes.length] ∧ r.last = a.last ∧ r.wf = true ∧
      ∀ p, p < a.last → ∀ val : Nat → β,
        SolvesJ (Jt net) (fun op => spec op.code) ((genOps tbl net order false).map OpRow.toOp)
          (sToC (tabsOf net false) (ofCode 0) (column ofCode a p) (fun _ => ofCode 0)) val →
        (∀ q l, q < net.sNodes.length → (sNodeAt net q).inPin 0 = some l → (r.rows.getD q []).getD p 0 = code (val l)) ∧
        (∀ q, net.io.length ≤ q → q < net.sNodes.length → (sNodeAt net q).inPin 0 = none →
          (r.rows.getD q []).getD p 0 = code (ofCode 0)) ∧
        (∀ q, q < net.io.length → (sNodeAt net q).inPin 0 = none → (r.rows.getD q []).getD p 0 = 2) := by
  obtain ⟨r, hr, hlead, hlast, hrwf, he⟩ := simArr_entries C ln ofCode code keep semW semL V hl tbl net order false a ha hS
  refine ⟨r, hr, hlead, hlast, hrwf, fun p hp val hval => ?_⟩
  have hrun : ∀ x, Jt net x = false → laneRun ofCode semL tbl net order false (column ofCode a p) x = val x := by
    intro x hx
    unfold laneRun
    rw [sigOps_false]
    exact (huniq _ val hval x hx).symm
  have hio := io_le_sNodes net
  refine ⟨fun q l hq hl' => ?_, fun q hio' hq hn => ?_, fun q hq hn => ?_⟩
  · rw [he q p hq hp, if_pos (isPoppo_of net q hq (Or.inr (by rw [hl']; rfl))), hrun _ (capSig_notJunk net hwf q),
      capSig_false, hl']
  · rw [he q p hq hp, if_pos (isPoppo_of net q hq (Or.inl hio')), hrun _ (capSig_notJunk net hwf q), capSig_false, hn]
    simp only
    rw [zero_slot tbl net order hwf ho _ _ _ _ val hval]
  · have hnp : isPoppo net q = false := by unfold isPoppo; simp [hq, hn]
    rw [he q p (by omega) hp, hnp]
    simp

end

end KV.DP
