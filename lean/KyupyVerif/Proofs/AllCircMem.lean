import KyupyVerif.Proofs.AllCirc
import KyupyVerif.Proofs.MemMapAccept
import KyupyVerif.Proofs.StripLinkMem
/-! Memory level for ALL circuits and BOTH `strip_forks` settings: for the tables the `SimOps` model builds (`simopsMap`),
after the op rows have run on memory the row of the output slot of interface node `n` holds the value that signal-level
execution of the UN-STRIPPED program computes on the line `l` this node captures. Composition of
* `simopsMap_accepted` (the map passes the certificate) and `MapSound.check_sound_rows` (accepted certificate ⇒ memory run
  = signal run of the rows with operands resolved through the stems),
* for `strip_forks`: `genOps_strip_eq_stripOps4` + `strip_logic` (stripped schedule = un-stripped schedule on every signal
  that is not a branch; a written branch carries what the stripped run leaves on its stem) and `readsDrivenB` (a captured
  line is written by a row of the un-stripped program). -/
namespace KV
open KV.Sig KV.Wave

/-- LogicSim fork stripping on signals (the statement of `C06.strip_irrelevant_logic`, kept here for the Proofs layer) -/
theorem strip_sig_logic {α : Type} (tbl : List PrefixRow) (net : Net) (order : List Nat) (hwf : net.wfB = true)
    (ho : orderOKB net order = true) (hf : forksOKB net order = true)
    (f : Nat → List α → α) (dflt : α) (hbuf : ∀ xs, f BUF1 xs = xs.getD 0 dflt) (env : Nat → α) :
    (∀ x, (stemsOf net true).getD x none = none →
      exec f ((genOps tbl net order true).map (fun r => (⟨r.lut, r.out, r.ins.map (viaStem (stemsOf net true))⟩ : Op))) env x =
        exec f ((genOps tbl net order false).map OpRow.toOp) env x) ∧
    (∀ b s, (stemsOf net true).getD b none = some s → (∃ p ∈ (genOps tbl net order false).map OpRow.toOp, p.out = b) →
      exec f ((genOps tbl net order false).map OpRow.toOp) env b =
        exec f ((genOps tbl net order true).map (fun r => (⟨r.lut, r.out, r.ins.map (viaStem (stemsOf net true))⟩ : Op))) env s) := by
  obtain ⟨h1, h2⟩ := strip_logic f dflt hbuf (stemList net) net.idx.zero ((genOps tbl net order false).map OpRow.toOp) env
    (genOps_stripOk tbl hwf ho hf)
  rw [genOps_strip_eq_stripOps4 tbl hwf ho hf]
  refine ⟨fun x hx => h1 x ?_, fun b s hb hw => h2 b s ?_ hw⟩
  · rw [stemList_lookup]; exact hx
  · rw [stemList_lookup]; exact hb

/-- **memory level, all circuits, both `strip_forks` settings, both `c_reuse` settings, every capacity vector**: the memory
    row of the output slot of the `i`-th interface node holds the signal-level value of the captured line `l` in the
    un-stripped program. Any value domain and code-indexed op semantics (with stripping: `BUF1` returns its first operand). -/
theorem simops_mem_value {α : Type} [Inhabited α] (tbl : List PrefixRow) (net : Net) (order : List Nat)
    (strip : Bool) (capsIn : Nat → Nat) (capsMin : Nat) (reuse : Bool) (hwf : net.wfB = true)
    (ho : orderOKB net order = true) (hf : strip = true → forksOKB net order = true)
    (hr : readsDrivenB tbl net order = true) (hpos : 0 < capsMin)
    (f : Nat → List α → α) (dflt : α) (hbuf : strip = true → ∀ xs, f BUF1 xs = xs.getD 0 dflt)
    (m0 : Int → α) (env0 : Nat → α)
    (h0 : ∀ x ∈ (simopsMap tbl net order strip capsIn capsMin reuse).tracked,
      (∀ o ∈ (simopsMap tbl net order strip capsIn capsMin reuse).ops, o.out ≠ x) →
        m0 ((simopsMap tbl net order strip capsIn capsMin reuse).loc x) = env0 x)
    (n i l : Nat) (hn : (n, i) ∈ net.sNodes.zipIdx) (hp : (net.node n).inPin 0 = some l) :
    MapSound.memRun (simopsMap tbl net order strip capsIn capsMin reuse) (MapSound.rowRW α) (fun o => f o.lut)
        (simopsMap tbl net order strip capsIn capsMin reuse).ops m0
        ((simopsMap tbl net order strip capsIn capsMin reuse).loc (net.idx.ppo + i)) =
      exec f ((genOps tbl net order false).map OpRow.toOp) env0 l := by
  have hc := simopsMap_accepted tbl net order strip capsIn capsMin reuse hwf ho hf hr hpos
  have e := MapSound.check_sound_rows (simopsMap tbl net order strip capsIn capsMin reuse) hc hpos f m0 env0 h0 _ _
    (mem_ppoSrcs (simopsMap tbl net order strip capsIn capsMin reuse) hn hp)
  have hix : (simopsMap tbl net order strip capsIn capsMin reuse).ix = net.idx := rfl
  rw [hix] at e
  rw [e]
  cases strip with
  | false =>
    have hsrc : (simopsMap tbl net order false capsIn capsMin reuse).src l = l := viaStem_false _ _
    have hun : (simopsMap tbl net order false capsIn capsMin reuse).ops.map
        (MapSound.sigOp (simopsMap tbl net order false capsIn capsMin reuse)) = (genOps tbl net order false).map OpRow.toOp :=
      List.map_congr_left (fun r _ => sigOp_unstripped _ rfl r)
    rw [hsrc, hun]
  | true =>
    have hsrc : (simopsMap tbl net order true capsIn capsMin reuse).src l = viaStem (stemsOf net true) l := rfl
    have hsp : (simopsMap tbl net order true capsIn capsMin reuse).ops.map
        (MapSound.sigOp (simopsMap tbl net order true capsIn capsMin reuse)) =
        (genOps tbl net order true).map (fun r => (⟨r.lut, r.out, r.ins.map (viaStem (stemsOf net true))⟩ : Op)) := rfl
    rw [hsrc, hsp]
    obtain ⟨g1, g2⟩ := strip_sig_logic tbl net order hwf ho (hf rfl) f dflt (hbuf rfl) env0
    cases hst : (stemsOf net true).getD l none with
    | none =>
      rw [viaStem_none hst]
      exact g1 l hst
    | some s =>
      rw [viaStem_some hst]
      have hsn : n ∈ net.sNodes := List.mem_of_getElem? (mem_zipIdx_getElem? hn)
      have hout := (readsDriven_spec hr).2 n hsn l hp
      obtain ⟨o, ho', hoo⟩ := List.mem_map.mp hout
      exact (g2 l s hst ⟨o.toOp, List.mem_map_of_mem ho', hoo⟩).symm

/-- a captured line is a line of the netlist, hence not the scratch slot -/
theorem captured_not_junk {net : Net} (hwf : net.wfB = true) {n l : Nat} (hp : (net.node n).inPin 0 = some l) :
    Jt net l = false := Jt_line (inPin_lt hwf hp).2

end KV
