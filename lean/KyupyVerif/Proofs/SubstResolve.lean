import KyupyVerif.Proofs.SubstSem9
/-! Helper lemmas for C10 (`resolve_sem`): `resolve_tlib_cells` as a chain of substitutions in which nothing is removed — by induction over
the loop, the labellings of the final circuit correspond to the labellings of the original circuit in which every library
cell has the relational meaning of its implementation. -/
namespace KV.Transform
open KV

theorem consOff_congr {α : Type _} {nn : NNet} {S S' : Nat → Prop} (hSS : ∀ d, S d ↔ S' d) {z : α} {neg : α → α}
    {prim : String → α → α → α → α → α} {an v : Nat → α} (hc : ConsOff nn S z neg prim an v) : ConsOff nn S' z neg prim an v :=
  fun l hl hn => hc l hl (fun hs => hn ((hSS _).mp hs))

/-- `ImplMatches` looks at the host only through the record of the cell … -/
theorem implMatches_node_congr {α : Type _} {h cur : NNet} {c : Nat} (e : cur.net.node c = h.net.node c) (m : NNet) (sh : Shape)
    (z : α) (neg : α → α) (prim : String → α → α → α → α → α) (anm vm v : Nat → α) :
    ImplMatches cur c m sh z neg prim anm vm v ↔ ImplMatches h c m sh z neg prim anm vm v := by
  have h1 : ∀ k, instIn cur c k = instIn h c k := fun k => by simp [instIn, e]
  have h2 : ∀ k, instOut cur c k = instOut h c k := fun k => by simp [instOut, e]
  have h3 : deadLine cur c m sh = deadLine h c m sh := by funext l; simp [deadLine, h1]
  have h4 : ∀ p, portVal cur c sh z v p = portVal h c sh z v p := fun p => by simp [portVal, h1]
  simp only [ImplMatches, h3, h4, h2]

/-- … and at the host labelling only on the lines at the pins of the cell -/
theorem implMatches_v_congr {α : Type _} {h : NNet} {c : Nat} (m : NNet) (sh : Shape)
    (z : α) (neg : α → α) (prim : String → α → α → α → α → α) (anm vm v v1 : Nat → α)
    (hi : ∀ k ll, instIn h c k = some ll → v1 ll = v ll) (ho : ∀ k ll, instOut h c k = some ll → v1 ll = v ll)
    (hM : ImplMatches h c m sh z neg prim anm vm v) : ImplMatches h c m sh z neg prim anm vm v1 := by
  refine ⟨hM.1, fun p hp => ?_, fun k il ll hk hll => ?_⟩
  · rw [hM.2.1 p hp]
    simp only [portVal]
    cases hll : instIn h c (sh.inPorts.idxOf p) with
    | none => rfl
    | some ll => exact (hi _ ll hll).symm
  · rw [hM.2.2 k il ll hk hll, ho k ll hll]

/-- the relational meaning of library cell `c` of `h` under the host labelling `v` -/
def CellSem {α : Type _} (lib : Lib) (h : NNet) (c : Nat) (z : α) (neg : α → α) (prim : String → α → α → α → α → α)
    (v : Nat → α) : Prop :=
  ∃ impl sh anm vm, lib.find (h.net.node c).kind = some impl ∧ implShape impl = some sh ∧
    ImplMatches h c impl sh z neg prim anm vm v

/-- `cur` is the original circuit `h` with the cells in `D` substituted -/
structure ResRel {α : Type _} (lib : Lib) (h : NNet) (z : α) (neg : α → α) (prim : String → α → α → α → α → α)
    (cur : NNet) (D : Nat → Prop) : Prop where
  wf : WF cur
  nsize : h.net.nodes.size ≤ cur.net.nodes.size
  lsize : h.net.lines.size ≤ cur.net.lines.size
  io : cur.net.io = h.net.io
  node : ∀ d, d < h.net.nodes.size → ¬ D d → cur.net.node d = h.net.node d
  key : ∀ d, d < h.net.nodes.size → cur.key d = h.key d
  dlt : ∀ d, D d → d < h.net.nodes.size
  fw : ∀ (S : Nat → Prop), (∀ s, S s → s < h.net.nodes.size ∧ ¬ D s) → ∀ an' v' : Nat → α,
    ConsOff cur S z neg prim an' v' →
    ConsOff h (fun d => S d ∨ D d) z neg prim an' v' ∧ ∀ c, D c → CellSem lib h c z neg prim v'
  bw : ∀ (S : Nat → Prop), (∀ s, S s → s < h.net.nodes.size ∧ ¬ D s) → ∀ an v : Nat → α,
    ConsOff h (fun d => S d ∨ D d) z neg prim an v → (∀ c, D c → CellSem lib h c z neg prim v) →
    ∃ an' v', ConsOff cur S z neg prim an' v' ∧ (∀ l, l < h.net.lines.size → v' l = v l) ∧
      (∀ d, d < h.net.nodes.size → ¬ D d → an' d = an d)

theorem resRel_refl {α : Type _} (lib : Lib) (h : NNet) (w : WF h) (z : α) (neg : α → α) (prim : String → α → α → α → α → α) :
    ResRel lib h z neg prim h (fun _ => False) := by
  refine ⟨w, Nat.le_refl _, Nat.le_refl _, rfl, fun _ _ _ => rfl, fun _ _ => rfl, fun _ hd => absurd hd id, ?_, ?_⟩
  · intro S _ an' v' hc
    exact ⟨consOff_congr (fun d => by simp) hc, fun c hc' => absurd hc' id⟩
  · intro S _ an v hc _
    exact ⟨an, v, consOff_congr (fun d => by simp) hc, fun _ _ => rfl, fun _ _ _ => rfl⟩

/-- one regular substitution -/
theorem resRel_step {α : Type _} {lib : Lib} {h : NNet} {z : α} {neg : α → α} {prim : String → α → α → α → α → α}
    {cur : NNet} {D : Nat → Prop} (r : ResRel lib h z neg prim cur D) (hw : WF h) (d : Nat) (hd : d < h.net.nodes.size) (hnd : ¬ D d)
    (impl : NNet) (hfind : lib.find (h.net.node d).kind = some impl)
    (sh : Shape) (dn : Nat) (map : Array (Option Nat)) (nxt : NNet) (ct : SubstCertD cur d impl sh dn map nxt) :
    ResRel lib h z neg prim nxt (fun x => D x ∨ x = d) := by
  have hnode := r.node d hd hnd
  refine ⟨SubstCertD.wf' ct, Nat.le_trans r.nsize ct.nsize, ?_, ct.io'.trans r.io, ?_, ?_, ?_, ?_, ?_⟩
  · rw [ct.lsize]; have := r.lsize; omega
  · intro d' hd' hn
    have h1 : ¬ D d' := fun x => hn (Or.inl x)
    have h2 : d' ≠ d := fun x => hn (Or.inr x)
    rw [ct.frameNode d' (Nat.lt_of_lt_of_le hd' r.nsize) h2]; exact r.node d' hd' h1
  · intro d' hd'
    rw [ct.keyFrame d' (Nat.lt_of_lt_of_le hd' r.nsize)]; exact r.key d' hd'
  · rintro d' (h1 | h1)
    · exact r.dlt d' h1
    · rw [h1]; exact hd
  · intro S hS an' v' hc
    have hS1 : ∀ s, S s → s < cur.net.nodes.size ∧ s ≠ d := by
      intro s hs
      obtain ⟨a, b⟩ := hS s hs
      exact ⟨Nat.lt_of_lt_of_le a r.nsize, fun e => b (Or.inr e)⟩
    obtain ⟨f1, anm, vm, hM, _⟩ := ct.forward z neg prim S hS1 an' v' hc
    have hS2 : ∀ s, (S s ∨ s = d) → s < h.net.nodes.size ∧ ¬ D s := by
      rintro s (hs | hs)
      · obtain ⟨a, b⟩ := hS s hs
        exact ⟨a, fun x => b (Or.inl x)⟩
      · rw [hs]; exact ⟨hd, hnd⟩
    obtain ⟨g1, g2⟩ := r.fw (fun s => S s ∨ s = d) hS2 an' v' f1
    refine ⟨consOff_congr (fun x => by grind) g1, ?_⟩
    rintro c' (hc' | hc')
    · exact g2 c' hc'
    · subst hc'
      exact ⟨impl, sh, anm, vm, hfind, ct.shape, (implMatches_node_congr hnode impl sh z neg prim anm vm v').mp hM⟩
  · intro S hS an v hc hcells
    have hS2 : ∀ s, (S s ∨ s = d) → s < h.net.nodes.size ∧ ¬ D s := by
      rintro s (hs | hs)
      · obtain ⟨a, b⟩ := hS s hs
        exact ⟨a, fun x => b (Or.inl x)⟩
      · rw [hs]; exact ⟨hd, hnd⟩
    obtain ⟨an1, v1, c1, e1, e2⟩ := r.bw (fun s => S s ∨ s = d) hS2 an v
      (consOff_congr (fun x => by grind) hc)
      (fun c' hc' => hcells c' (Or.inl hc'))
    obtain ⟨impl', sh', anm, vm, hf', hs', hM⟩ := hcells d (Or.inr rfl)
    have : impl' = impl := Option.some.inj (hf'.symm.trans hfind)
    subst this
    have : sh' = sh := Option.some.inj (hs'.symm.trans ct.shape)
    subst this
    -- the cell's meaning under the labelling of `cur`
    have hM1 : ImplMatches cur d impl' sh' z neg prim anm vm v1 := by
      rw [implMatches_node_congr hnode]
      apply implMatches_v_congr impl' sh' z neg prim anm vm v v1 _ _ hM
      · intro k ll hk; exact e1 ll (hw.fwdIn d hd k ll hk).1
      · intro k ll hk; exact e1 ll (hw.fwdOut d hd k ll hk).1
    obtain ⟨an', v', c2, b1, b2, _⟩ := ct.backward z neg prim S an1 v1 anm vm c1 hM1
    refine ⟨an', v', c2, fun l hl => (b1 l (Nat.lt_of_lt_of_le hl r.lsize)).trans (e1 l hl), ?_⟩
    intro d' hd' hn
    have h1 : ¬ D d' := fun x => hn (Or.inl x)
    have h2 : d' ≠ d := fun x => hn (Or.inr x)
    exact (b2 d' (Nat.lt_of_lt_of_le hd' r.nsize) h2).trans (e2 d' hd' h1)

end KV.Transform

namespace KV.Transform
open KV

theorem resRel_congr {α : Type _} {lib : Lib} {h : NNet} {z : α} {neg : α → α} {prim : String → α → α → α → α → α}
    {cur : NNet} {D D' : Nat → Prop} (hDD : ∀ x, D x ↔ D' x) (r : ResRel lib h z neg prim cur D) :
    ResRel lib h z neg prim cur D' := by
  have : D = D' := funext fun x => propext (hDD x)
  subst this; exact r

/-- the loop of `resolve_tlib_cells` over the nodes `ds` of the snapshot -/
theorem resolve_fold_sem {α : Type _} (lib : Lib) (h : NNet) (hw : WF h) (z : α) (neg : α → α)
    (prim : String → α → α → α → α → α) :
    ∀ (ds : List Nat) (cur : NNet) (D : Nat → Prop) (h' : NNet), (∀ d ∈ ds, d < h.net.nodes.size ∧ ¬ D d) → ds.Nodup →
    ResRel lib h z neg prim cur D → resolveOKB lib (ds.map h.key) cur = true →
    (ds.map h.key).foldlM (resolveStep lib) cur = some h' →
    ResRel lib h z neg prim h' (fun x => D x ∨ (x ∈ ds ∧ (lib.find (h.net.node x).kind).isSome = true))
  | [], cur, D, h', _, _, r, _, he => by
    simp only [List.map_nil, List.foldlM_nil] at he
    cases (Option.some.inj he)
    exact resRel_congr (fun x => by simp) r
  | d :: ds, cur, D, h', hds, hnd, r, hok, he => by
    obtain ⟨hd, hnD⟩ := hds d List.mem_cons_self
    have hnd' := List.nodup_cons.mp hnd
    have hrest : ∀ d' ∈ ds, d' < h.net.nodes.size ∧ ¬ D d' := fun d' hd' => hds d' (List.mem_cons_of_mem _ hd')
    simp only [List.map_cons, List.foldlM_cons, Option.bind_eq_bind, Option.bind_eq_some_iff] at he
    obtain ⟨s1, hstep, hfold⟩ := he
    have hdc : d < cur.net.nodes.size := Nat.lt_of_lt_of_le hd r.nsize
    have hlook : cur.lookup (h.key d) = d := by rw [← r.key d hd]; exact lookup_key cur r.wf d hdc
    have hnode := r.node d hd hnD
    simp only [List.map_cons, resolveOKB, hlook, hdc, if_true, hnode] at hok
    simp only [resolveStep, hlook, hdc, if_true, hnode] at hstep
    cases hfind : lib.find (h.net.node d).kind with
    | none =>
      rw [hfind] at hok hstep
      cases (Option.some.inj hstep)
      have ih := resolve_fold_sem lib h hw z neg prim ds cur D h' hrest hnd'.2 r hok hfold
      refine resRel_congr (fun x => ?_) ih
      constructor
      · rintro (a | ⟨a, b⟩)
        · exact Or.inl a
        · exact Or.inr ⟨List.mem_cons_of_mem _ a, b⟩
      · rintro (a | ⟨a, b⟩)
        · exact Or.inl a
        · rcases List.mem_cons.mp a with a | a
          · subst a; rw [hfind] at b; exact absurd b (by simp)
          · exact Or.inr ⟨a, b⟩
    | some impl =>
      rw [hfind] at hok hstep
      simp only [Bool.and_eq_true, Bool.not_eq_true'] at hok
      obtain ⟨⟨⟨⟨⟨k1, k2⟩, k3⟩, k4⟩, k5⟩, k6⟩ := hok
      have hstep : substitute cur d impl = some s1 := hstep
      rw [hstep] at k6
      have k6 : resolveOKB lib (List.map h.key ds) s1 = true := k6
      have hcf : (cur.net.node d).isFork = false := by rw [hnode]; exact k5
      obtain ⟨sh, dn, map, ct⟩ := substitute_cert cur impl s1 d r.wf (WF.of_wf k1) hdc k4 hcf k3 k2 hstep
      have r1 := resRel_step r hw d hd hnD impl hfind sh dn map s1 ct
      have ih := resolve_fold_sem lib h hw z neg prim ds s1 (fun x => D x ∨ x = d) h'
        (fun d' hd' => ⟨(hrest d' hd').1, by
          rintro (a | a)
          · exact (hrest d' hd').2 a
          · subst a; exact hnd'.1 hd'⟩) hnd'.2 r1 k6 hfold
      refine resRel_congr (fun x => ?_) ih
      constructor
      · rintro ((a | a) | ⟨a, b⟩)
        · exact Or.inl a
        · subst a; exact Or.inr ⟨List.mem_cons_self, by rw [hfind]; rfl⟩
        · exact Or.inr ⟨List.mem_cons_of_mem _ a, b⟩
      · rintro (a | ⟨a, b⟩)
        · exact Or.inl (Or.inl a)
        · rcases List.mem_cons.mp a with a | a
          · exact Or.inl (Or.inr a)
          · exact Or.inr ⟨a, b⟩

/-- `resolve_tlib_cells`: the final circuit and the original circuit with every library cell read as its implementation -/
theorem resolve_sem_main {α : Type _} (lib : Lib) (h h' : NNet) (hw : WF h) (z : α) (neg : α → α)
    (prim : String → α → α → α → α → α) (hok : resolveOKB lib h.keys h = true) (he : resolveCells lib h = some h') :
    ResRel lib h z neg prim h' (fun x => x < h.net.nodes.size ∧ (lib.find (h.net.node x).kind).isSome = true) := by
  have := resolve_fold_sem lib h hw z neg prim (List.range h.net.nodes.size) h (fun _ => False) h'
    (fun d hd => ⟨List.mem_range.mp hd, fun x => x⟩) List.nodup_range (resRel_refl lib h hw z neg prim) hok he
  exact resRel_congr (fun x => by simp) this

end KV.Transform
