import KyupyVerif.Model.SimOps
/-! Domain predicate of the netlist-level reading (`C02.oracle_labelling_is_simulation`): every line of the netlist is written
by a row of the un-stripped program. Core-Lean only: the driver evaluates it on every real circuit and order
(`netspeccert`). -/
namespace KV

/-- every line of the netlist is written by a row (no line hangs on a cell of unknown kind, on an output pin `SimOps` does
    not schedule, or on a node outside the order) -/
def linesDrivenB (tbl : List PrefixRow) (net : Net) (order : List Nat) : Bool :=
  (List.range net.lines.size).all fun l => ((genOps tbl net order false).map (·.out)).contains l

end KV
