import KyupyVerif.Proofs.SpecBase
/-! X-soundness at primitive level: the multi-valued composition is refined by the Boolean formula on
every 0/1 completion of its operands (specification-level; independent of the code). -/
namespace KV

def mono8 (name : String) : Bool :=
  match comp8 name, formulaF name with
  | some f, some g =>
    V3.all.all fun a => V3.all.all fun b => V3.all.all fun c => V3.all.all fun d =>
      match (f a b c d).unk, (f a b c d).p0 with    -- forces one evaluation of the composition per row
      | true, _ => true
      | false, true => a.completions.all fun a' => b.completions.all fun b' => c.completions.all fun c' =>
          d.completions.all fun d' => g a' b' c' d' == true
      | false, false => a.completions.all fun a' => b.completions.all fun b' => c.completions.all fun c' =>
          d.completions.all fun d' => g a' b' c' d' == false
  | _, _ => false

def mono4 (name : String) : Bool :=
  match comp4 name, formulaF name with
  | some f, some g =>
    V2.all.all fun a => V2.all.all fun b => V2.all.all fun c => V2.all.all fun d =>
      match (f a b c d).unk, (f a b c d).p0 with
      | true, _ => true
      | false, true => a.completions.all fun a' => b.completions.all fun b' => c.completions.all fun c' =>
          d.completions.all fun d' => g a' b' c' d' == true
      | false, false => a.completions.all fun a' => b.completions.all fun b' => c.completions.all fun c' =>
          d.completions.all fun d' => g a' b' c' d' == false
  | _, _ => false

theorem mono8_all : primNames.all mono8 = true := by decide +kernel
theorem mono4_all : primNames.all mono4 = true := by decide +kernel

theorem comp8_mono {name : String} (hn : name ∈ primNames) :
    ∃ f g, comp8 name = some f ∧ formulaF name = some g ∧
      ∀ (a b c d : V3) (a' b' c' d' : Bool), a.refines a' → b.refines b' → c.refines c' → d.refines d' →
        (f a b c d).refines (g a' b' c' d') := by
  have h := List.all_eq_true.mp mono8_all _ hn
  unfold mono8 at h
  split at h
  · rename_i f g hf hg
    refine ⟨f, g, hf, hg, ?_⟩
    intro a b c d a' b' c' d' ha hb hc hd
    simp only [List.all_eq_true] at h
    have := h a (V3.all_complete a) b (V3.all_complete b) c (V3.all_complete c) d (V3.all_complete d)
    unfold V3.refines
    intro hu
    rw [hu] at this
    cases hp : (f a b c d).p0 <;> rw [hp] at this <;> simp only [List.all_eq_true, beq_iff_eq] at this <;>
      exact (this a' (V3.mem_completions ha) b' (V3.mem_completions hb) c' (V3.mem_completions hc) d' (V3.mem_completions hd)).symm
  · exact absurd h (by simp)

theorem comp4_mono {name : String} (hn : name ∈ primNames) :
    ∃ f g, comp4 name = some f ∧ formulaF name = some g ∧
      ∀ (a b c d : V2) (a' b' c' d' : Bool), a.refines a' → b.refines b' → c.refines c' → d.refines d' →
        (f a b c d).refines (g a' b' c' d') := by
  have h := List.all_eq_true.mp mono4_all _ hn
  unfold mono4 at h
  split at h
  · rename_i f g hf hg
    refine ⟨f, g, hf, hg, ?_⟩
    intro a b c d a' b' c' d' ha hb hc hd
    simp only [List.all_eq_true] at h
    have := h a (V2.all_complete a) b (V2.all_complete b) c (V2.all_complete c) d (V2.all_complete d)
    unfold V2.refines
    intro hu
    rw [hu] at this
    cases hp : (f a b c d).p0 <;> rw [hp] at this <;> simp only [List.all_eq_true, beq_iff_eq] at this <;>
      exact (this a' (V2.mem_completions ha) b' (V2.mem_completions hb) c' (V2.mem_completions hc) d' (V2.mem_completions hd)).symm
  · exact absurd h (by simp)

end KV
