import KyupyVerif.Model.Datasheet
import KyupyVerif.Proofs.PairExec
/-! Decidable checkers over generated library rows (`KV.TL.Cell`) and their soundness lemmas:
`progComputes`/`famOK`/`funOK` (function of the real op program = datasheet function on all rows) and
the lifting of `Cell.pinsOK`. -/
namespace KV.DS
open KV.TL KV.Sig

/-- the implementation's program computes `fs[k]` on the line captured for output `k`, for all input rows -/
def progComputes (c : Cell) (fs : List (List Bool → Bool)) : Bool :=
  fs.length == c.outLines.length &&
  (c.outLines.zip fs).all fun pf =>
    (allRows c.inNames.length).all fun vals =>
      exec lutSem c.prog (c.env vals) pf.1.2 == pf.2 vals

/-- for family `fam`: purely combinational, pins fit the family, function equal on every output and row -/
def famOK (c : Cell) (fam : Fam) : Bool :=
  c.nSeq == 0 &&
  match datasheet fam c.inNames c.outNames with
  | none => false
  | some fs => progComputes c fs

/-- every name of the row whose family is listed (and selected by `sel`) passes `famOK` -/
def funOK (sel : Fam → Bool) (c : Cell) : Bool :=
  (dedup (c.names.map baseName)).all fun b =>
    match classify b with
    | none => true
    | some fam => !sel fam || famOK c fam

/-- every name is in a listed family or in the explicit list of outside families -/
def partOK (c : Cell) : Bool :=
  (dedup (c.names.map baseName)).all fun b => (classify b).isSome != outsideBases.contains b

theorem mem_allRows : ∀ (n : Nat) (vals : List Bool), vals.length = n → vals ∈ allRows n
  | 0, [], _ => by simp [allRows]
  | n + 1, b :: r, h => by
    have hr : r ∈ allRows n := mem_allRows n r (by simpa using h)
    simp only [allRows, List.mem_flatMap]
    exact ⟨r, hr, by cases b <;> simp⟩

theorem mem_dedup {α} [BEq α] [LawfulBEq α] (a : α) : ∀ l : List α, a ∈ l → a ∈ dedup l
  | [], h => by cases h
  | b :: l, h => by
    simp only [dedup]
    by_cases hab : a = b
    · subst hab; exact List.mem_cons_self
    · have : a ∈ l := by
        cases List.mem_cons.mp h with
        | inl e => exact absurd e hab
        | inr m => exact m
      apply List.mem_cons_of_mem
      exact List.mem_filter.mpr ⟨mem_dedup a l this, by simpa using hab⟩

/-- what `progComputes` means -/
def Computes (c : Cell) (fs : List (List Bool → Bool)) : Prop :=
  fs.length = c.outLines.length ∧
  ∀ k (hk : k < c.outLines.length) (hf : k < fs.length) (vals : List Bool), vals.length = c.inNames.length →
    exec lutSem c.prog (c.env vals) (c.outLines[k]).2 = fs[k] vals

theorem progComputes_sound {c : Cell} {fs} (h : progComputes c fs = true) : Computes c fs := by
  simp only [progComputes, Bool.and_eq_true, beq_iff_eq, List.all_eq_true] at h
  refine ⟨h.1, ?_⟩
  intro k hk hf vals hv
  have hz : (c.outLines[k], fs[k]) ∈ c.outLines.zip fs := by
    rw [List.mem_iff_getElem]
    exact ⟨k, by simp [List.length_zip]; omega, by simp⟩
  exact h.2 _ hz vals (mem_allRows _ _ hv)

/-- statement obtained for one cell name of a listed family -/
def FamSpec (c : Cell) (fam : Fam) : Prop :=
  c.nSeq = 0 ∧ ∃ fs, datasheet fam c.inNames c.outNames = some fs ∧ Computes c fs

theorem famOK_sound {c : Cell} {fam : Fam} (h : famOK c fam = true) : FamSpec c fam := by
  simp only [famOK, Bool.and_eq_true, beq_iff_eq] at h
  refine ⟨h.1, ?_⟩
  have h2 := h.2
  split at h2
  · exact absurd h2 (by simp)
  · rename_i fs hfs; exact ⟨fs, hfs, progComputes_sound h2⟩

theorem funOK_sound {sel : Fam → Bool} {c : Cell} (h : funOK sel c = true) {name : Str} (hn : name ∈ c.names)
    {fam : Fam} (hf : classify (baseName name) = some fam) (hs : sel fam = true) : FamSpec c fam := by
  simp only [funOK, List.all_eq_true] at h
  have := h (baseName name) (mem_dedup _ _ (List.mem_map.mpr ⟨name, hn, rfl⟩))
  rw [hf] at this
  simp only [hs, Bool.not_true, Bool.false_or] at this
  exact famOK_sound this

theorem partOK_sound {c : Cell} (h : partOK c = true) {name : Str} (hn : name ∈ c.names) :
    (classify (baseName name)).isSome = !outsideBases.contains (baseName name) := by
  simp only [partOK, List.all_eq_true] at h
  have := h (baseName name) (mem_dedup _ _ (List.mem_map.mpr ⟨name, hn, rfl⟩))
  revert this
  cases (classify (baseName name)).isSome <;> cases outsideBases.contains (baseName name) <;> simp

/-- all chunks checked ⇒ every row of every chunk -/
theorem all_chunks {p : Cell → Bool} {chunks : List (List Cell)} (h : ∀ ch ∈ chunks, ch.all p = true)
    {c : Cell} (hc : c ∈ chunks.flatten) : p c = true := by
  obtain ⟨ch, hch, hcc⟩ := List.mem_flatten.mp hc
  exact List.all_eq_true.mp (h ch hch) c hcc

end KV.DS

namespace KV.TL
/-! ### what `pinsOK` means -/

theorem nodupB_sound {α} [BEq α] [LawfulBEq α] : ∀ {l : List α}, nodupB l = true → l.Nodup
  | [], _ => List.nodup_nil
  | a :: as, h => by
    simp only [nodupB, Bool.and_eq_true, Bool.not_eq_true'] at h
    refine List.nodup_cons.mpr ⟨?_, nodupB_sound h.2⟩
    intro hm
    have : as.contains a = true := List.contains_iff_mem.mpr hm
    rw [h.1] at this; cases this

structure PinsSpec (c : Cell) : Prop where
  /-- each pin is listed once -/
  pins_nodup : (c.pins.map (·.1)).Nodup
  ports_nodup : (c.ports.map (·.1)).Nodup
  /-- the k-th input pin (in declaration order) has position k; same for outputs -/
  inputs_numbered : c.inputs.map (·.2.1) = List.range c.inputs.length
  outputs_numbered : c.outputs.map (·.2.1) = List.range c.outputs.length
  /-- names, order and directions are those of the implementation circuit's ports -/
  ports_agree : c.pins.map (fun p => (p.1, p.2.2)) = c.ports.map (fun p => (p.1, p.2.1))
  /-- every name the template stands for is a key with this definition -/
  names_expand : c.names = expand c.tmpl
  names_nonempty : c.names ≠ []

theorem derivePins_dirs : ∀ (i o : Nat) (ps : List (Str × Bool × Nat)),
    (derivePins i o ps).map (fun p => (p.1, p.2.2)) = ps.map (fun p => (p.1, p.2.1))
  | _, _, [] => rfl
  | i, o, (n, false, s) :: ps => by simp [derivePins, derivePins_dirs (i + 1) o ps]
  | i, o, (n, true, s) :: ps => by simp [derivePins, derivePins_dirs i (o + 1) ps]

theorem pinsOK_sound {c : Cell} (h : c.pinsOK = true) : PinsSpec c := by
  simp only [Cell.pinsOK, Bool.and_eq_true, beq_iff_eq, Bool.not_eq_true'] at h
  obtain ⟨⟨⟨⟨⟨⟨h1, h2⟩, h3⟩, h4⟩, h5⟩, h6⟩, h7⟩ := h
  refine ⟨nodupB_sound h1, nodupB_sound h2, h3, h4, ?_, h7, ?_⟩
  · rw [h5]; exact derivePins_dirs 0 0 c.ports
  · intro e; rw [e] at h6; simp at h6

end KV.TL
