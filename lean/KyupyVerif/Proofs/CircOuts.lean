import KyupyVerif.Proofs.CircSem
/-! Output pin tables of `Circ.toNet`: when no two lines leave the same cell pin, every line is listed on its driver's output pin
(`toNet_outPin_line`) — the fact the scheduler's domain predicates `forksOKB` / `linesDrivenB` need. -/
namespace KV.Netlist
open KV

theorem countP_take_lt {β} (p : β → Bool) (l : List β) (i j : Nat) (hij : i < j) (hj : j ≤ l.length) (x : β) (hx : l[i]? = some x)
    (hp : p x = true) : (l.take i).countP p < (l.take j).countP p := by
  have hi : i < l.length := by omega
  have h1 : l.take j = l.take i ++ (l.drop i).take (j - i) := by
    rw [← List.take_add]
    congr 1
    omega
  rw [h1, List.countP_append]
  have h2 : 0 < ((l.drop i).take (j - i)).countP p := by
    rw [List.countP_pos_iff]
    refine ⟨x, ?_, hp⟩
    rw [List.mem_take_iff_getElem]
    refine ⟨0, by simp; omega, ?_⟩
    simp only [List.getElem_drop, Nat.add_zero]
    have := List.getElem?_eq_getElem hi
    rw [hx] at this
    exact (Option.some.inj this).symm
  omega

def isCellEp : Ep → Bool
  | .cell _ _ => true
  | .fork _ => false

/-- a resolved driver end point is determined by its node index and — for a cell — its pin -/
theorem ep_driver_inj (C : Circ) (d d' : Ep) (hd : C.resolved d) (hi : C.nodeIdx d' = C.nodeIdx d) :
    (∃ f, d = .fork f ∧ d' = .fork f) ∨ (∃ n p p', d = .cell n p ∧ d' = .cell n p') := by
  have hd' : C.resolved d' := by unfold Circ.resolved; rw [hi]; exact hd
  cases d with
  | fork n =>
    cases d' with
    | fork n' =>
      have h1 := (resolved_fork_spec C n hd).2
      have h2 := (resolved_fork_spec C n' hd').2
      simp only [hi] at h2
      exact Or.inl ⟨n, rfl, by rw [h2.symm.trans h1]⟩
    | cell n' p' =>
      have h1 := (resolved_fork_spec C n hd).1
      have h2 := (resolved_cell_spec C n' p' hd').1
      simp only [hi] at h2
      exact absurd h1 h2
  | cell n p =>
    cases d' with
    | fork n' =>
      have h1 := (resolved_cell_spec C n p hd).1
      have h2 := (resolved_fork_spec C n' hd').1
      simp only [hi] at h2
      exact absurd h2 h1
    | cell n' p' =>
      have h1 := (resolved_cell_spec C n p hd).2
      have h2 := (resolved_cell_spec C n' p' hd').2
      simp only [hi] at h2
      exact Or.inr ⟨n, p, p', rfl, by rw [h2.symm.trans h1]⟩

/-- every line is listed on the output pin of its driver -/
theorem toNet_outPin_line (C : Circ) (io : List Nat) (hres : ∀ p ∈ flatLines C, C.resolved p.1)
    (hcells : (((flatLines C).map (·.1)).filter isCellEp).Nodup) (i : Nat) (hi : i < (flatLines C).length) :
    ((C.toNet io).node (C.nodeIdx (flatLines C)[i].1)).outPin (dpinOf ((flatLines C).take i) (flatLines C)[i].1) = some i := by
  have hd := hres _ (List.getElem_mem hi)
  rw [toNet_outPin C io _ _ hd]
  show lastWith (fun ld : LineD => ld.driver == C.nodeIdx (flatLines C)[i].1 &&
    ld.dpin == dpinOf ((flatLines C).take i) (flatLines C)[i].1) C.lineDs 0 = some i
  apply lastWith_unique _ _ i _ (lineDs_getElem? C i hi) (by simp)
  intro i' ld hld hp
  have hi' : i' < (flatLines C).length := by rw [← lineDs_length]; exact (List.getElem?_eq_some_iff.mp hld).1
  rw [lineDs_getElem? C i' hi'] at hld
  simp only [Option.some.injEq] at hld
  subst hld
  simp only [Bool.and_eq_true, beq_iff_eq] at hp
  obtain ⟨hp1, hp2⟩ := hp
  rcases ep_driver_inj C _ _ hd hp1 with ⟨f, h1, h2⟩ | ⟨n, p, p', h1, h2⟩
  · -- a fork: its output pin counts the earlier lines it drives
    rw [h1, h2] at hp2
    simp only [dpinOf] at hp2
    rcases Nat.lt_trichotomy i' i with hlt | heq | hgt
    · have := countP_take_lt (fun x : Ep × Ep => x.1 == Ep.fork f) (flatLines C) i' i hlt (by omega) _
        (List.getElem?_eq_getElem hi') (by simp [h2])
      omega
    · exact heq
    · have := countP_take_lt (fun x : Ep × Ep => x.1 == Ep.fork f) (flatLines C) i i' hgt (by omega) _
        (List.getElem?_eq_getElem hi) (by simp [h1])
      omega
  · -- a cell pin: at most one line
    rw [h1, h2] at hp2
    simp only [dpinOf] at hp2
    subst hp2
    have heq : (flatLines C)[i'].1 = (flatLines C)[i].1 := by rw [h1, h2]
    -- positions in the filtered list of cell drivers
    have key : ∀ (l : List Ep) (a b : Nat) (ha : a < l.length) (hb : b < l.length), a < b → l[a] = l[b] → isCellEp l[a] = true →
        ¬ (l.filter isCellEp).Nodup := by
      intro l
      induction l with
      | nil => intro a b ha; simp at ha
      | cons x xs ih =>
        intro a b ha hb hab he hc hnd
        cases a with
        | zero =>
          cases b with
          | zero => omega
          | succ b =>
            simp only [List.getElem_cons_zero, List.getElem_cons_succ] at he hc
            rw [List.filter_cons, hc] at hnd
            simp only [if_true, List.nodup_cons] at hnd
            exact hnd.1 (List.mem_filter.mpr ⟨he ▸ List.getElem_mem _, hc⟩)
        | succ a =>
          cases b with
          | zero => omega
          | succ b =>
            simp only [List.getElem_cons_succ] at he hc
            have hnd' : (xs.filter isCellEp).Nodup := by
              rw [List.filter_cons] at hnd
              split at hnd
              · exact (List.nodup_cons.mp hnd).2
              · exact hnd
            exact ih a b (by simpa using ha) (by simpa using hb) (by omega) he hc hnd'
    rcases Nat.lt_trichotomy i' i with hlt | heq' | hgt
    · exact absurd hcells (key ((flatLines C).map (·.1)) i' i (by simpa using hi') (by simpa using hi) hlt (by simpa using heq)
        (by simp [h2, isCellEp]))
    · exact heq'
    · exact absurd hcells (key ((flatLines C).map (·.1)) i i' (by simpa using hi) (by simpa using hi') hgt (by simpa using heq.symm)
        (by simp [h1, isCellEp]))

end KV.Netlist
