import KyupyVerif.Proofs.SubstGen11
/-! Helper lemmas for C10 (`substitute_sem_general`), part 12: the general certificate for `substitute` with an implementation
that has a designated cell and may ignore connected input pins (`substitute_general_some`). -/
namespace KV.Transform
open KV

/-- the virtual result for the host, from the certificate of `substituteCore` on the virtual host -/
theorem substV_of_cert {α : Type _} (z : α) (neg : α → α) (prim : String → α → α → α → α → α) (h : NNet) (c : Nat) (m : NNet)
    (sh : Shape) (dn : Nat) (map : Array (Option Nat)) (V : NNet) (w : WFm h) (mw : WF m) (hc : c < h.net.nodes.size)
    (hil : (h.net.node c).ins.length ≤ sh.inPorts.length) (hs : implShape m = some sh)
    (ct : SubstCert (hostClr h c m sh) c m sh dn map V) : SubstV z neg prim h c m sh map V (GhostLine h c m sh) := by
  obtain ⟨s1, s2, s3, s4⟩ := hostClr_sizes h c m sh
  have hgl : ∀ l, GhostLine h c m sh l → l < h.net.lines.size ∧ (h.net.line l).reader = c := by
    rintro l ⟨k, inn, h1, _, _⟩
    exact ⟨(w.fwdIn c hc k l h1).1, (w.fwdIn c hc k l h1).2.1⟩
  refine
    { wfr := ct.wf', ptsBack := ?_, pinNotGh := ?_, ghLt := hgl, lsize := by rw [ct.lsize, s2],
      nsize := by rw [← s1]; exact ct.nsize, io := ct.io'.trans s3, frameNode := ?_, nameFrame := ?_,
      drvFrame := fun l hl hne => ct.drvFrame l (by rw [s2]; exact hl) hne,
      rdrFrame := fun l hl hne => ct.rdrFrame l (by rw [s2]; exact hl) hne, newDrv := ?_, outDrv := ?_,
      mapM := ct.mapM, mapGe := fun j x hx => by rw [← s1]; exact ct.mapGe j x hx, mapLt := ct.mapLt, mapInj := ct.mapInj,
      kind' := ct.kind', forward := ?_, backward := ?_ }
  · intro l hl hng
    apply ct.backR l hl
    by_cases hlt : l < h.net.lines.size
    · exact Or.inr (hostClr_ptsBack h c m sh w hc hil l hlt hng)
    · left; rw [s2]; omega
  · intro x k l hx hp hg
    have hlt := (hgl l hg).1
    by_cases hown : x = c ∨ (hostClr h c m sh).net.nodes.size ≤ x
    · obtain ⟨k0, hk0⟩ := ct.ownIns x k l hown hp (by rw [s2]; exact hlt)
      exact hostClr_pin_notGhost h c m sh w hc hil c k0 l hc hk0 hg
    · have h1 : x < h.net.nodes.size := by
        rw [s1] at hown
        apply Classical.byContradiction; intro hn
        exact hown (Or.inr (by omega))
      have h2 : x ≠ c := fun e => hown (Or.inl e)
      rw [ct.frameNode x (by rw [s1]; exact h1) h2] at hp
      exact hostClr_pin_notGhost h c m sh w hc hil x k l h1 hp hg
  · intro d hd hne
    rw [ct.frameNode d (by rw [s1]; exact hd) hne, hostClr_node_ne h c m sh d hne]
  · intro d hd
    have := ct.keyFrame d (by rw [s1]; exact hd)
    simp only [NNet.key, Prod.mk.injEq] at this
    rw [this.1, s4]
  · intro t ht
    obtain ⟨_, xd, xr, h1, _, hline⟩ := ct.new_fields t ht
    rw [s2] at hline
    rw [hline]
    have := ct.mapGe _ xd h1
    rw [s1] at this; exact this
  · intro l hl hd
    have hout : instOut (hostClr h c m sh) c (h.net.line l).dpin = some l := by
      have := (ct.hwf.back l (by rw [s2]; exact hl)).2.2
      rw [hostClr_line, hd] at this; exact this
    obtain ⟨il, d, dp, _, htg, e1, _⟩ := ct.outWire _ l hout
    obtain ⟨k', hk'⟩ := outTarget_map htg
    rw [e1]
    have := ct.mapGe k' d hk'
    rw [s1] at this; exact this
  · intro S hS an' v' hc'
    obtain ⟨f1, anm, vm, f2, f3, f4, _⟩ := ct.forward z neg prim S (fun s hs' => by rw [s1]; exact hS s hs') an' v' hc'
    refine ⟨(consOff_hostClr h c m sh S z neg prim an' v').mp f1, _, vm,
      implMatches_of_hostClr h c m sh hc hil hs mw z neg prim anm vm v' f2, ?_, fun t ht => by rw [f4 t ht, s2]⟩
    intro j x hj hm
    simp only [hj, if_false]
    exact f3 j x hj hm
  · intro S an v anm vm hH hM
    obtain ⟨an', v', b0, b1, b2, b3, b4, _⟩ := ct.backward z neg prim S an v _ vm
      ((consOff_hostClr h c m sh S z neg prim an v).mpr hH) (implMatches_to_hostClr h c m sh hc hil hs mw z neg prim anm vm v hM)
    refine ⟨an', v', b0, fun l hl => b1 l (by rw [s2]; exact hl), fun d hd hne => b2 d (by rw [s1]; exact hd) hne, ?_,
      fun t ht => by rw [← b4 t ht, s2]⟩
    intro j x hj hm
    rw [b3 j x hj hm]
    simp [hj]

/-- `NoIgnored` for the pins of the virtual host -/
theorem noIgnored_clr (m : NNet) (pins : List (Nat × Option Nat)) : NoIgnored m (pins.map (clrIgn m)) := by
  intro p hp hsome
  obtain ⟨q, _, e⟩ := List.mem_map.mp hp
  subst e
  simp only [clrIgn] at hsome ⊢
  cases hi : ignoredPort m q.1 with
  | true => rw [hi] at hsome; simp at hsome
  | false => exact hi

/-- **`substitute` with a designated cell, ignored input pins allowed**: the general certificate -/
theorem substitute_general_some {α : Type _} (z : α) (neg : α → α) (prim : String → α → α → α → α → α) (h m h' : NNet) (c : Nat)
    (w : WFm h) (mw : WF m) (hc : c < h.net.nodes.size) (hio : c ∉ h.net.io) (hcf : (h.net.node c).isFork = false)
    (sh : Shape) (dn : Nat) (hs : implShape m = some sh) (hd : sh.des = some dn)
    (k2 : m.net.io.Nodup) (k3 : ∀ p ∈ m.net.io, isSeqKind (m.net.node p).kind = false)
    (k4 : ∀ p ∈ m.net.io, 0 < (m.net.node p).ins.length → 0 < (m.net.node p).outs.length → (m.net.node p).isFork = true)
    (hself : ∀ ll, GhostLine h c m sh ll → (h.net.line ll).driver ≠ c) (he : substitute h c m = some h') :
    ∃ map R, SubstG z neg prim h c m sh map h' R := by
  unfold substitute at he
  split at he
  · exact absurd he (by simp)
  · rename_i h5 map dang hcore
    obtain ⟨V, ψ, hcoreV, hnm, lk, hmapLt, hVN⟩ := lockstep_some h c m sh dn w hc hs hd hself h5 map dang hcore
    have k1 := implShape_des_notPort m mw sh dn hs hd k3
    obtain ⟨_, _, _, _, hil, _, _, _, _, _⟩ := substituteCore_inv h c m sh hs h5 map dang hcore
    obtain ⟨s1, s2, s3, s4⟩ := hostClr_sizes h c m sh
    have hcl : (hostClr h c m sh).net.node c = { h.net.node c with ins := clrIns m sh (h.net.node c).ins } := by
      rw [hostClr_node]; simp [hc]
    have hni : NoIgnored m (sh.inPorts.zip (padTo ((hostClr h c m sh).net.node c).ins sh.inPorts.length)) := by
      rw [hcl]
      show NoIgnored m (sh.inPorts.zip (padTo (clrIns m sh (h.net.node c).ins) sh.inPorts.length))
      rw [zip_clrIns m sh _ hil]
      exact noIgnored_clr m _
    obtain ⟨ct, _⟩ := substituteCore_certR (hostClr h c m sh) c m sh dn (hostClr_wfr h c m sh w hc hil) mw (by rw [s1]; exact hc)
      (by rw [s3]; exact hio) (by rw [isFork_of_kind_eq (hostClr_kind h c m sh c)]; exact hcf) hs hd k1 k2 k3 k4 hni V map dang hcoreV
    have sv := substV_of_cert z neg prim h c m sh dn map V w mw hc hil hs ct
    -- the circuit `substituteCore` builds embeds into the virtual result
    have li : LI h := ⟨w.names, w.io⟩
    have p1 := phase1_some_obs h c m dn li hc
    have ob := substituteCore_obs h c m sh hs h5 map dang hcore (by rw [hd]; exact p1.2.2.1) (by rw [hd]; exact p1.2.2.2)
    have hio5 : ∀ i ∈ h5.net.io, i < h5.net.nodes.size := ob.2.2.1.2
    have hnames : ∀ x, x < h5.net.nodes.size → h5.names.getD x "" = V.names.getD (id x) "" := fun x _ => by rw [hnm]; rfl
    have emb0 : Emb V h5 ⟨ψ, id⟩ := lk.emb hnames hio5
    have wfm5 : WFm h5 := lk.wfm hnames hio5 ct.wf' sv.ptsBack ob.2.2.1.1
    have x0 : ExtP z neg prim V h5 ⟨ψ, id⟩ := by
      apply ext_of_embP z neg prim V h5 _ ct.wf' wfm5 emb0
      intro l hl _ k l0 hp
      exact lk.lineSurj l0 (ct.wf'.fwdIn _ (ct.wf'.back l hl).1 k l0 hp).1 (sv.pinNotGh _ k l0 (ct.wf'.back l hl).1 hp)
    -- the copied forks made dense, dangling logic removed
    obtain ⟨dd, wd, _⟩ := densNN_densM (map.toList.filterMap id) h5 wfm5
    have he' : removeDangling (dang.length + h5.net.lines.size + 1) (densNN h5 (map.toList.filterMap id))
        (map.toList.filterMap id) dang = some h' := he
    have ho : ∀ x ∈ map.toList.filterMap id, x < (densNN h5 (map.toList.filterMap id)).net.nodes.size := by
      intro x hx
      obtain ⟨k, hk⟩ := mem_map_values map x hx
      rw [dd.nsize]
      exact (hmapLt k x hk).1
    obtain ⟨w', r, e, t, sq, xr⟩ := removeDangling_extP z neg prim _ _ _ dang h' wd ho he'
    have e5 : Emb h5 h' (Ren.id.comp r) :=
      ((dd.emb wfm5).trans e).weaken (X' := fun _ => False) (fun j _ hx => by rcases hx with hx | hx <;> exact hx)
    have x5 : ExtP z neg prim h5 h' (Ren.id.comp r) := ExtP.trans (dd.emb wfm5) e (dd.extP wfm5 z neg prim) xr
    have eV : Emb V h' ((⟨ψ, id⟩ : Ren).comp (Ren.id.comp r)) :=
      (emb0.trans e5).weaken (X' := fun _ => False) (fun j _ hx => by rcases hx with hx | hx <;> exact hx)
    have xV : ExtP z neg prim V h' ((⟨ψ, id⟩ : Ren).comp (Ren.id.comp r)) := ExtP.trans emb0 e5 x0 x5
    refine ⟨map, _, substG_of sv w eV w' xV ?_ ?_⟩
    · intro d hd' hne
      have hd5 : d < (densNN h5 (map.toList.filterMap id)).net.nodes.size := by
        rw [dd.nsize, ← hVN]; exact Nat.lt_of_lt_of_le hd' sv.nsize
      have hno : d ∉ map.toList.filterMap id := by
        intro hm
        obtain ⟨k, hk⟩ := mem_map_values map d hm
        rcases (hmapLt k d hk).2 with e0 | e0
        · exact hne e0
        · omega
      obtain ⟨j', hj', ej⟩ := t d hd5 hno
      exact ⟨j', hj', ej⟩
    · intro j0 j hm hsq
      have hj5 : j < h5.net.nodes.size := (hmapLt j0 j hm).1
      have hk : (h5.net.node j).kind = (V.net.node j).kind := lk.kind j hj5
      obtain ⟨j', hj', ej⟩ := sq j (by rw [dd.nsize]; exact hj5) (by rw [dd.kind, hk]; exact hsq)
      exact ⟨j', hj', ej⟩

end KV.Transform
