import KyupyVerif.Proofs.SubstGen12
/-! Helper lemmas for C10 (`substitute_sem_general`), part 13: an implementation **without designated cell** (no output; or the first
output fed through from an input port).  The real run deletes the instance first (`node.remove()`: the last node takes its
index); the virtual run keeps it as an isolated node (`phase1 … (some D)` with `D` = the number of nodes of the
implementation, which is no node of it).  `piN` = the node map between the two numberings; the lockstep relation at the
start. -/
namespace KV.Transform
open KV

/-- node index of the real run ↦ node index of the virtual run (`N` = number of host nodes, `c` = the instance): the host
    node that took the index of the instance is the last host node; the nodes appended behind the `N - 1` remaining host
    nodes are one further back in the virtual circuit -/
def piN (N c x : Nat) : Nat := if x < N - 1 then (if x = c then N - 1 else x) else x + 1

theorem piN_inj {N c : Nat} (hc : c < N) (x y : Nat) (e : piN N c x = piN N c y) : x = y := by
  unfold piN at e
  split at e <;> split at e <;> (try split at e) <;> (try split at e) <;> omega

theorem piN_ne {N c : Nat} (hc : c < N) (x : Nat) : piN N c x ≠ c := by
  unfold piN; split <;> (try split) <;> omega

theorem piN_surj {N c : Nat} (hc : c < N) (y : Nat) (hy : y ≠ c) : ∃ x, piN N c x = y ∧ (y < N → x < N - 1) ∧ (N ≤ y → x = y - 1) := by
  by_cases h1 : y < N
  · by_cases h2 : y = N - 1
    · refine ⟨c, ?_, fun _ => by omega, fun h => by omega⟩
      unfold piN; rw [if_pos (by omega), if_pos rfl]; omega
    · refine ⟨y, ?_, fun _ => by omega, fun h => by omega⟩
      unfold piN; rw [if_pos (by omega), if_neg hy]
  · refine ⟨y - 1, ?_, fun h => by omega, fun _ => rfl⟩
    unfold piN; rw [if_neg (by omega)]; omega

theorem piN_ge {N c : Nat} (x : Nat) (hx : N - 1 ≤ x) : piN N c x = x + 1 := by
  unfold piN; rw [if_neg (by omega)]

section init
variable (h : NNet) (c : Nat) (m : NNet) (dn : Nat) (w : WFm h) (hc : c < h.net.nodes.size) (hio : c ∉ h.net.io)
include w hc hio

/-- the state after `node.remove()` (real run) related to the state with the instance blanked (virtual run) -/
theorem lk_init_none :
    Lk (fun x => h.net.nodes.size - 1 ≤ x) (piN h.net.nodes.size c) id (fun _ => False)
      (fun l => l ∈ (h.net.node c).ins.filterMap id) (fun l => l ∈ (h.net.node c).outs.filterMap id)
      (delNode h c).net (phase1 h c m (some dn)).1.net := by
  obtain ⟨e1, e2, e3, _⟩ := phase1_rest h c m dn
  have hlineB : ∀ l, (phase1 h c m (some dn)).1.net.line l = h.net.line l := by
    intro l; show lineA (phase1 h c m (some dn)).1.net.lines l = _; rw [e1]; rfl
  have hnodeB := phase1_node h c m dn hc
  obtain ⟨sA1, sA2⟩ := delNode_sizes h c
  have hnodeA : ∀ x, x < h.net.nodes.size - 1 → (delNode h c).net.node x = h.net.node (piN h.net.nodes.size c x) := by
    intro x hx
    rw [delNode_node h c x hc hx]
    unfold piN; rw [if_pos hx]
  have hnodeA' : ∀ x, h.net.nodes.size - 1 ≤ x → (delNode h c).net.node x = default := by
    intro x hx
    simp only [Net.node, Array.getD_eq_getD_getElem?]
    rw [Array.getElem?_eq_none (by rw [sA1]; exact hx)]; rfl
  have hpiB : ∀ x, (phase1 h c m (some dn)).1.net.node (piN h.net.nodes.size c x) = h.net.node (piN h.net.nodes.size c x) := by
    intro x; rw [hnodeB, if_neg (piN_ne hc x)]
  have hI : ∀ l, l ∈ (h.net.node c).ins.filterMap id → l < h.net.lines.size ∧ (h.net.line l).reader = c := by
    intro l hl
    obtain ⟨k, hk⟩ := (mem_filterMap_id _ l).mp hl
    exact ⟨(w.fwdIn c hc k l hk).1, (w.fwdIn c hc k l hk).2.1⟩
  have hO : ∀ l, l ∈ (h.net.node c).outs.filterMap id → l < h.net.lines.size ∧ (h.net.line l).driver = c := by
    intro l hl
    obtain ⟨k, hk⟩ := (mem_filterMap_id _ l).mp hl
    exact ⟨(w.fwdOut c hc k l hk).1, (w.fwdOut c hc k l hk).2.1⟩
  have hnotO : ∀ l, l < h.net.lines.size → l ∉ (h.net.node c).outs.filterMap id → (h.net.line l).driver ≠ c := by
    intro l hl hno e0
    have := (w.back l hl).2.2.1
    rw [e0] at this
    exact hno ((mem_filterMap_id _ l).mpr ⟨_, this⟩)
  have hnotI : ∀ l, l < h.net.lines.size → l ∉ (h.net.node c).ins.filterMap id → (h.net.line l).reader ≠ c := by
    intro l hl hno e0
    have := (w.back l hl).2.2.2
    rw [e0] at this
    exact hno ((mem_filterMap_id _ l).mpr ⟨_, this⟩)
  -- the renaming of `del nodes[c]` undone by `piN`
  have hmv : ∀ d, d < h.net.nodes.size → d ≠ c →
      (if (d == h.net.nodes.size - 1) = true then c else d) < h.net.nodes.size - 1 ∧
      piN h.net.nodes.size c (if (d == h.net.nodes.size - 1) = true then c else d) = d := by
    intro d hd hne
    by_cases e : d = h.net.nodes.size - 1
    · have : (d == h.net.nodes.size - 1) = true := by simpa using e
      rw [this]
      simp only [if_true]
      refine ⟨by omega, ?_⟩
      unfold piN; rw [if_pos (by omega), if_pos rfl]; omega
    · have : (d == h.net.nodes.size - 1) = false := by simpa using e
      rw [this]
      simp only [Bool.false_eq_true, if_false]
      refine ⟨by omega, ?_⟩
      unfold piN; rw [if_pos (by omega), if_neg hne]
  refine ⟨piN_inj hc, ?_, ?_, ?_, ?_, ?_, ?_, fun _ _ _ _ e => e, ?_, ?_, ?_, ?_, ?_, ?_⟩
  · intro x hx
    rw [sA1] at hx; rw [e3]
    unfold piN; rw [if_pos hx]; split <;> omega
  · intro x hx
    rw [sA1] at hx
    rw [hnodeA x hx, hpiB]
  · rw [delNode_ioEq, e2, List.map_map]
    have : ∀ j ∈ h.net.io, (piN h.net.nodes.size c ∘ fun j => if (j == h.net.nodes.size - 1) = true then c else j) j = j := by
      intro j hj
      exact (hmv j (w.io j hj) (fun e => hio (e ▸ hj))).2
    rw [List.map_congr_left this]; simp
  · intro x k hx
    rw [sA1] at hx
    rw [hnodeA x hx, hpiB]; simp
  · intro x k hx ho
    rw [sA1] at hx; omega
  · intro l hl; rw [sA2] at hl; rw [e1]; exact ⟨hl, fun x => x⟩
  · intro l' hl' _; rw [e1] at hl'; exact ⟨l', by rw [sA2]; exact hl', rfl⟩
  · intro l hl hpo
    rw [sA2] at hl
    rw [delNode_line h c l hl, hlineB, sA1]
    obtain ⟨m1, m2⟩ := hmv _ (w.back l hl).1 (hnotO l hl hpo)
    exact ⟨m1, m2, Or.inl rfl⟩
  · intro l hl hpi
    rw [sA2] at hl
    rw [delNode_line h c l hl, hlineB, sA1]
    obtain ⟨m1, m2⟩ := hmv _ (w.back l hl).2.1 (hnotI l hl hpi)
    exact ⟨m1, m2, rfl⟩
  · intro x k l hp
    by_cases hx : x < h.net.nodes.size - 1
    · rw [hnodeA x hx] at hp
      have hlt : piN h.net.nodes.size c x < h.net.nodes.size := by
        unfold piN; rw [if_pos hx]; split <;> omega
      obtain ⟨a1, a2, _⟩ := w.fwdIn _ hlt k l hp
      rw [sA2]
      exact ⟨a1, fun hm => piN_ne hc x (a2.symm.trans (hI l hm).2)⟩
    · rw [hnodeA' x (by omega)] at hp
      have hd : (default : NodeD).ins = [] := rfl
      rw [hd] at hp; simp at hp
  · intro x k l ho hp
    rw [hnodeA' x ho] at hp
    have hd : (default : NodeD).outs = [] := rfl
    rw [hd] at hp; simp at hp
  · intro d hd hno
    rw [sA1] at hd
    have hlt : piN h.net.nodes.size c d < h.net.nodes.size := by
      unfold piN; rw [if_pos hd]; split <;> omega
    refine ⟨by rw [sA1]; exact hd, ?_, ?_⟩
    · intro p y hp
      rw [hnodeA d hd] at hp
      obtain ⟨a1, a2, a3⟩ := w.fwdOut _ hlt p y hp
      rw [sA2, delNode_line h c y a1]
      have hne : (h.net.line y).driver ≠ c := by rw [a2]; exact piN_ne hc d
      obtain ⟨_, m2⟩ := hmv _ (w.back y a1).1 hne
      refine ⟨a1, ?_, a3, fun hm => hne (hO y hm).2⟩
      apply piN_inj hc
      rw [m2, a2]
    · intro y hy hex hdy
      rw [sA2] at hy
      rw [delNode_line h c y hy] at hdy ⊢
      have hne := hnotO y hy hex
      obtain ⟨_, m2⟩ := hmv _ (w.back y hy).1 hne
      have hdy' : (if ((h.net.line y).driver == h.net.nodes.size - 1) = true then c else (h.net.line y).driver) = d := hdy
      rw [hdy'] at m2
      rw [hnodeA d hd, m2]
      exact (w.back y hy).2.2.1

end init
end KV.Transform
