import KyupyVerif.Model.Locs
/-! Helper lemmas for C17 (name lookups): what the nested dictionary contains after the insertion loop,
what recursive sorting does to it. -/
namespace KV.Locs

/-- keys pairwise different at every level, no empty nested dictionary (what Python dictionaries built by the
loop always satisfy) -/
def D.WF : D → Prop
  | .nil => True
  | .ent k v s r => k ∉ r.keys ∧ (v = none → s ≠ .nil ∧ s.WF) ∧ r.WF

/-- `p` can be stored next to the paths of `E`: no path is a prefix of the other one -/
def Compat (p : List Key) (E : List (List Key × Nat)) : Prop := ∀ e ∈ E, ¬ p <+: e.1 ∧ ¬ e.1 <+: p

theorem entries_ne_nil (d : D) (hw : d.WF) (hn : d ≠ .nil) : d.entries ≠ [] := by
  induction d with
  | nil => exact absurd rfl hn
  | ent k v s r ihs _ =>
    cases v with
    | some i => simp [D.entries]
    | none =>
      have h := hw.2.1 rfl
      have := ihs h.2 h.1
      simp [D.entries, this]

theorem entries_head (d : D) : ∀ e ∈ d.entries, ∃ k ∈ d.keys, ∃ tl, e.1 = k :: tl := by
  induction d with
  | nil => intro e he; simp [D.entries] at he
  | ent k v s r _ ihr =>
    intro e he
    cases v with
    | some i =>
      simp only [D.entries, List.mem_cons] at he
      rcases he with rfl | he
      · exact ⟨k, by simp [D.keys], [], rfl⟩
      · obtain ⟨k', hk', tl, h⟩ := ihr e he
        exact ⟨k', by simp [D.keys, hk'], tl, h⟩
    | none =>
      simp only [D.entries, List.mem_append, List.mem_map] at he
      rcases he with ⟨e', _, rfl⟩ | he
      · exact ⟨k, by simp [D.keys], e'.1, rfl⟩
      · obtain ⟨k', hk', tl, h⟩ := ihr e he
        exact ⟨k', by simp [D.keys, hk'], tl, h⟩

theorem key_has_entry (d : D) (hw : d.WF) (k : Key) (hk : k ∈ d.keys) : ∃ e ∈ d.entries, ∃ tl, e.1 = k :: tl := by
  induction d with
  | nil => simp [D.keys] at hk
  | ent k' v s r _ ihr =>
    simp only [D.keys, List.mem_cons] at hk
    rcases hk with rfl | hk
    · cases v with
      | some i => exact ⟨([k], i), by simp [D.entries], [], rfl⟩
      | none =>
        have h := hw.2.1 rfl
        have hne := entries_ne_nil s h.2 h.1
        obtain ⟨e, he⟩ := List.exists_mem_of_ne_nil _ hne
        exact ⟨(k :: e.1, e.2), by simp only [D.entries, List.mem_append, List.mem_map]; exact Or.inl ⟨e, he, rfl⟩, e.1, rfl⟩
    · obtain ⟨e, he, tl, h⟩ := ihr hw.2.2 hk
      refine ⟨e, ?_, tl, h⟩
      cases v with
      | some i => simp [D.entries, he]
      | none => simp [D.entries, he]

theorem compat_rest (p : List Key) (k : Key) (v : Option Nat) (s r : D) (h : Compat p (D.ent k v s r).entries) :
    Compat p r.entries := by
  intro e he
  apply h
  cases v with
  | some i => simp [D.entries, he]
  | none => simp [D.entries, he]

/-- what a successful insertion step guarantees -/
structure InsOK (p : List Key) (i : Nat) (d d' : D) : Prop where
  wf : d'.WF
  ne : d' ≠ .nil
  perm : d'.entries.Perm ((p, i) :: d.entries)
  keys : ∀ x, x ∈ d'.keys ↔ x ∈ d.keys ∨ [x] <+: p

theorem setLeaf_spec (d : D) (k : Key) (i : Nat) (hw : d.WF) (hc : Compat [k] d.entries) :
    InsOK [k] i d (d.setLeaf k i) := by
  induction d with
  | nil =>
    refine ⟨?_, by simp [D.setLeaf], by simp [D.setLeaf, D.entries], ?_⟩
    · simp [D.setLeaf, D.WF, D.keys]
    · intro x; simp [D.setLeaf, D.keys]
  | ent k' v s r _ ihr =>
    by_cases hk : k' = k
    · exfalso
      subst hk
      obtain ⟨e, he, tl, h⟩ := key_has_entry (D.ent k' v s r) hw k' (by simp [D.keys])
      have := (hc e he).1
      apply this; rw [h]; exact ⟨tl, rfl⟩
    · have ih := ihr hw.2.2 (compat_rest _ _ _ _ _ hc)
      simp only [D.setLeaf, hk, if_false]
      refine ⟨?_, by simp, ?_, ?_⟩
      · refine ⟨?_, hw.2.1, ih.wf⟩
        intro hm
        rcases (ih.keys k').mp hm with h | h
        · exact hw.1 h
        · obtain ⟨t, ht⟩ := h
          simp at ht; exact hk ht.1
      · cases v with
        | some j =>
          simp only [D.entries]
          exact (List.Perm.cons _ ih.perm).trans (List.Perm.swap _ _ _)
        | none =>
          simp only [D.entries]
          exact (List.Perm.append_left _ ih.perm).trans List.perm_middle
      · intro x
        simp only [D.keys, List.mem_cons]
        rw [ih.keys x]
        constructor
        · rintro (h | h | h)
          · exact Or.inl (Or.inl h)
          · exact Or.inl (Or.inr h)
          · exact Or.inr h
        · rintro ((h | h) | h)
          · exact Or.inl h
          · exact Or.inr (Or.inl h)
          · exact Or.inr (Or.inr h)

theorem descend_spec (f : D → Option D) (q : List Key) (i : Nat)
    (hf : ∀ s, s.WF → Compat q s.entries → ∃ s', f s = some s' ∧ InsOK q i s s')
    (d : D) (k : Key) (hw : d.WF) (hc : Compat (k :: q) d.entries) :
    ∃ d', D.descend f d k = some d' ∧ InsOK (k :: q) i d d' := by
  induction d with
  | nil =>
    obtain ⟨s', hs', ok⟩ := hf .nil trivial (by intro e he; simp [D.entries] at he)
    refine ⟨.ent k none s' .nil, by simp [D.descend, hs'], ?_, by simp, ?_, ?_⟩
    · exact ⟨by simp [D.keys], fun _ => ⟨ok.ne, ok.wf⟩, trivial⟩
    · simp only [D.entries, List.append_nil]
      have := ok.perm.map (fun e : List Key × Nat => (k :: e.1, e.2))
      simpa [D.entries] using this
    · intro x; simp [D.keys]
  | ent k' v s r _ ihr =>
    by_cases hk : k' = k
    · subst hk
      cases v with
      | some j =>
        exfalso
        have := (hc ([k'], j) (by simp [D.entries])).2
        exact this ⟨q, rfl⟩
      | none =>
        have hws := hw.2.1 rfl
        have hcs : Compat q s.entries := by
          intro e he
          have := hc (k' :: e.1, e.2) (by simp only [D.entries, List.mem_append, List.mem_map]; exact Or.inl ⟨e, he, rfl⟩)
          constructor
          · intro h; exact this.1 ((List.prefix_cons_inj k').mpr h)
          · intro h; exact this.2 ((List.prefix_cons_inj k').mpr h)
        obtain ⟨s', hs', ok⟩ := hf s hws.2 hcs
        refine ⟨.ent k' none s' r, by simp [D.descend, hs'], ?_, by simp, ?_, ?_⟩
        · exact ⟨hw.1, fun _ => ⟨ok.ne, ok.wf⟩, hw.2.2⟩
        · simp only [D.entries]
          have := ok.perm.map (fun e : List Key × Nat => (k' :: e.1, e.2))
          have h2 := List.Perm.append_right r.entries this
          simpa using h2
        · intro x; simp only [D.keys, List.mem_cons]
          constructor
          · intro h; exact Or.inl h
          · rintro (h | ⟨t, ht⟩)
            · exact h
            · simp at ht; exact Or.inl ht.1
    · obtain ⟨r', hr', ok⟩ := ihr hw.2.2 (compat_rest _ _ _ _ _ hc)
      refine ⟨.ent k' v s r', by simp [D.descend, hk, hr'], ?_, by simp, ?_, ?_⟩
      · refine ⟨?_, hw.2.1, ok.wf⟩
        intro hm
        rcases (ok.keys k').mp hm with h | ⟨t, ht⟩
        · exact hw.1 h
        · simp at ht; exact hk ht.1
      · cases v with
        | some j =>
          simp only [D.entries]
          exact (List.Perm.cons _ ok.perm).trans (List.Perm.swap _ _ _)
        | none =>
          simp only [D.entries]
          exact (List.Perm.append_left _ ok.perm).trans List.perm_middle
      · intro x
        simp only [D.keys, List.mem_cons]
        rw [ok.keys x]
        constructor
        · rintro (h | h | h)
          · exact Or.inl (Or.inl h)
          · exact Or.inl (Or.inr h)
          · exact Or.inr h
        · rintro ((h | h) | h)
          · exact Or.inl h
          · exact Or.inr (Or.inl h)
          · exact Or.inr (Or.inr h)

/-- inserting a path that is compatible with everything stored adds exactly that entry -/
theorem insertPath_spec (p : List Key) (hp : p ≠ []) (i : Nat) :
    ∀ d : D, d.WF → Compat p d.entries → ∃ d', insertPath p i d = some d' ∧ InsOK p i d d' := by
  induction p with
  | nil => exact absurd rfl hp
  | cons k ks ih =>
    intro d hw hc
    cases ks with
    | nil => exact ⟨d.setLeaf k i, rfl, setLeaf_spec d k i hw hc⟩
    | cons k2 ks =>
      simp only [insertPath]
      exact descend_spec _ (k2 :: ks) i (ih (by simp)) d k hw hc

/-! ### the whole insertion loop -/
/-- `(path, position)` of the matching names, positions counted from `i` -/
def matchesFrom (pre : List Char) : List (List Char) → Nat → List (List Key × Nat)
  | [], _ => []
  | nm :: rest, i =>
    match pathOf pre nm with
    | none => matchesFrom pre rest (i + 1)
    | some p => (p, i) :: matchesFrom pre rest (i + 1)

def buildPaths : List (List Key × Nat) → D → Option D
  | [], d => some d
  | e :: es, d => match insertPath e.1 e.2 d with
    | none => none
    | some d' => buildPaths es d'

theorem insertAll_eq (pre : List Char) (names : List (List Char)) (i : Nat) (d : D) :
    insertAll pre names i d = buildPaths (matchesFrom pre names i) d := by
  induction names generalizing i d with
  | nil => rfl
  | cons nm rest ih =>
    simp only [insertAll, matchesFrom]
    cases pathOf pre nm with
    | none => exact ih (i + 1) d
    | some p =>
      simp only [buildPaths]
      cases insertPath p i d with
      | none => rfl
      | some d' => exact ih (i + 1) d'

theorem matchesFrom_ne_nil (pre : List Char) (names : List (List Char)) (i : Nat) :
    ∀ e ∈ matchesFrom pre names i, e.1 ≠ [] := by
  induction names generalizing i with
  | nil => intro e he; simp [matchesFrom] at he
  | cons nm rest ih =>
    intro e he
    simp only [matchesFrom] at he
    cases hp : pathOf pre nm with
    | none => rw [hp] at he; exact ih (i + 1) e he
    | some p =>
      rw [hp] at he
      rcases List.mem_cons.mp he with rfl | he
      · simp only [pathOf, Option.map_eq_some_iff] at hp
        obtain ⟨m, _, hm⟩ := hp
        rw [← hm]; simp
      · exact ih (i + 1) e he

/-- two entries can live in one nested dictionary: neither path is a prefix of the other (in particular they differ) -/
def CompatP (a b : List Key × Nat) : Prop := ¬ a.1 <+: b.1 ∧ ¬ b.1 <+: a.1

instance (a b : List Key × Nat) : Decidable (CompatP a b) := by unfold CompatP; exact inferInstance

theorem buildPaths_spec (E : List (List Key × Nat)) (d : D) (hw : d.WF) (hne : ∀ e ∈ E, e.1 ≠ [])
    (hpw : E.Pairwise CompatP) (hd : ∀ e ∈ E, Compat e.1 d.entries) :
    ∃ d', buildPaths E d = some d' ∧ d'.WF ∧ d'.entries.Perm (d.entries ++ E) := by
  induction E generalizing d with
  | nil => exact ⟨d, rfl, hw, by simp⟩
  | cons e es ih =>
    obtain ⟨d1, h1, ok⟩ := insertPath_spec e.1 (hne e (by simp)) e.2 d hw (hd e (by simp))
    have hpw' := List.pairwise_cons.mp hpw
    have hd1 : ∀ e' ∈ es, Compat e'.1 d1.entries := by
      intro e' he' x hx
      rcases List.mem_cons.mp (ok.perm.subset hx) with rfl | hx
      · have := hpw'.1 e' he'
        exact ⟨this.2, this.1⟩
      · exact hd e' (List.mem_cons_of_mem _ he') x hx
    obtain ⟨d', h2, hw', hp⟩ := ih d1 ok.wf (fun e' he' => hne e' (List.mem_cons_of_mem _ he')) hpw'.2 hd1
    refine ⟨d', by simp [buildPaths, h1, h2], hw', ?_⟩
    exact hp.trans ((List.Perm.append_right es ok.perm).trans (by simpa using List.perm_middle.symm))

/-! ### the repaired insertion agrees with the original one wherever that one is well defined -/
theorem setLeafF_eq (d : D) (k : Key) (i : Nat) (hw : d.WF) (hc : Compat [k] d.entries) :
    d.setLeafF k i = d.setLeaf k i := by
  induction d with
  | nil => rfl
  | ent k' v s r _ ihr =>
    by_cases hk : k' = k
    · exfalso
      subst hk
      obtain ⟨e, he, tl, h⟩ := key_has_entry (D.ent k' v s r) hw k' (by simp [D.keys])
      apply (hc e he).1; rw [h]; exact ⟨tl, rfl⟩
    · simp only [D.setLeafF, D.setLeaf, hk, if_false]
      rw [ihr hw.2.2 (compat_rest _ _ _ _ _ hc)]

theorem descendF_eq (f fF : D → Option D) (q : List Key)
    (hf : ∀ s, s.WF → Compat q s.entries → fF s = f s)
    (d : D) (k : Key) (hw : d.WF) (hc : Compat (k :: q) d.entries) :
    D.descendF fF d k = D.descend f d k := by
  induction d with
  | nil =>
    simp only [D.descendF, D.descend]
    rw [hf .nil trivial (by intro e he; simp [D.entries] at he)]
  | ent k' v s r _ ihr =>
    by_cases hk : k' = k
    · subst hk
      cases v with
      | some j =>
        exfalso
        exact (hc ([k'], j) (by simp [D.entries])).2 ⟨q, rfl⟩
      | none =>
        have hws := hw.2.1 rfl
        have hcs : Compat q s.entries := by
          intro e he
          have := hc (k' :: e.1, e.2) (by simp only [D.entries, List.mem_append, List.mem_map]; exact Or.inl ⟨e, he, rfl⟩)
          constructor
          · intro h; exact this.1 ((List.prefix_cons_inj k').mpr h)
          · intro h; exact this.2 ((List.prefix_cons_inj k').mpr h)
        simp only [D.descendF, D.descend, if_true]
        rw [hf s hws.2 hcs]
    · simp only [D.descendF, D.descend, hk, if_false]
      rw [ihr hw.2.2 (compat_rest _ _ _ _ _ hc)]

theorem insertPathF_eq (p : List Key) (i : Nat) :
    ∀ d : D, d.WF → Compat p d.entries → insertPathF p i d = insertPath p i d := by
  induction p with
  | nil => intro d _ _; rfl
  | cons k ks ih =>
    intro d hw hc
    cases ks with
    | nil => simp only [insertPathF, insertPath]; rw [setLeafF_eq d k i hw hc]
    | cons k2 ks =>
      simp only [insertPathF, insertPath]
      exact descendF_eq _ _ (k2 :: ks) ih d k hw hc

def buildPathsF : List (List Key × Nat) → D → Option D
  | [], d => some d
  | e :: es, d => match insertPathF e.1 e.2 d with
    | none => none
    | some d' => buildPathsF es d'

theorem insertAllF_eq (pre : List Char) (names : List (List Char)) (i : Nat) (d : D) :
    insertAllF pre names i d = buildPathsF (matchesFrom pre names i) d := by
  induction names generalizing i d with
  | nil => rfl
  | cons nm rest ih =>
    simp only [insertAllF, matchesFrom]
    cases pathOf pre nm with
    | none => exact ih (i + 1) d
    | some p =>
      simp only [buildPathsF]
      cases insertPathF p i d with
      | none => rfl
      | some d' => exact ih (i + 1) d'

theorem buildPathsF_eq (E : List (List Key × Nat)) (d : D) (hw : d.WF) (hne : ∀ e ∈ E, e.1 ≠ [])
    (hpw : E.Pairwise CompatP) (hd : ∀ e ∈ E, Compat e.1 d.entries) :
    buildPathsF E d = buildPaths E d := by
  induction E generalizing d with
  | nil => rfl
  | cons e es ih =>
    obtain ⟨d1, h1, ok⟩ := insertPath_spec e.1 (hne e (by simp)) e.2 d hw (hd e (by simp))
    have hpw' := List.pairwise_cons.mp hpw
    have hd1 : ∀ e' ∈ es, Compat e'.1 d1.entries := by
      intro e' he' x hx
      rcases List.mem_cons.mp (ok.perm.subset hx) with rfl | hx
      · have := hpw'.1 e' he'
        exact ⟨this.2, this.1⟩
      · exact hd e' (List.mem_cons_of_mem _ he') x hx
    simp only [buildPathsF, buildPaths, insertPathF_eq e.1 e.2 d hw (hd e (by simp)), h1]
    exact ih d1 ok.wf (fun e' he' => hne e' (List.mem_cons_of_mem _ he')) hpw'.2 hd1

/-! ### the key order -/
theorem lexLe_total (a b : Key) : lexLe a b = true ∨ lexLe b a = true := by
  induction a generalizing b with
  | nil => simp [lexLe]
  | cons x xs ih =>
    cases b with
    | nil => simp [lexLe]
    | cons y ys =>
      simp only [lexLe, Bool.or_eq_true, decide_eq_true_eq, Bool.and_eq_true, beq_iff_eq]
      rcases Nat.lt_trichotomy x y with h | h | h
      · exact Or.inl (Or.inl h)
      · subst h
        rcases ih ys with h | h
        · exact Or.inl (Or.inr ⟨rfl, h⟩)
        · exact Or.inr (Or.inr ⟨rfl, h⟩)
      · exact Or.inr (Or.inl h)

theorem lexLe_antisymm (a b : Key) (h1 : lexLe a b = true) (h2 : lexLe b a = true) : a = b := by
  induction a generalizing b with
  | nil => cases b with
    | nil => rfl
    | cons y ys => simp [lexLe] at h2
  | cons x xs ih =>
    cases b with
    | nil => simp [lexLe] at h1
    | cons y ys =>
      simp only [lexLe, Bool.or_eq_true, decide_eq_true_eq, Bool.and_eq_true, beq_iff_eq] at h1 h2
      rcases h1 with h1 | ⟨rfl, h1⟩
      · rcases h2 with h2 | ⟨h2, _⟩ <;> omega
      · rcases h2 with h2 | ⟨_, h2⟩
        · omega
        · rw [ih ys h1 h2]

theorem lexLe_trans (a b c : Key) (h1 : lexLe a b = true) (h2 : lexLe b c = true) : lexLe a c = true := by
  induction a generalizing b c with
  | nil => simp [lexLe]
  | cons x xs ih =>
    cases b with
    | nil => simp [lexLe] at h1
    | cons y ys =>
      cases c with
      | nil => simp [lexLe] at h2
      | cons z zs =>
        simp only [lexLe, Bool.or_eq_true, decide_eq_true_eq, Bool.and_eq_true, beq_iff_eq] at h1 h2 ⊢
        rcases h1 with h1 | ⟨rfl, h1⟩
        · rcases h2 with h2 | ⟨rfl, _⟩
          · left; omega
          · left; exact h1
        · rcases h2 with h2 | ⟨rfl, h2⟩
          · left; exact h2
          · right; exact ⟨rfl, ih ys zs h1 h2⟩

/-! ### recursive sorting -/
/-- keys strictly ascending at every level -/
def D.Sorted : D → Prop
  | .nil => True
  | .ent k v s r => (∀ k' ∈ r.keys, lexLe k' k = false) ∧ (v = none → s.Sorted) ∧ r.Sorted

theorem insEnt_keys (k : Key) (v : Option Nat) (s r : D) (x : Key) :
    x ∈ (insEnt k v s r).keys ↔ x = k ∨ x ∈ r.keys := by
  induction r with
  | nil => simp [insEnt, D.keys]
  | ent k' v' s' r' _ ih =>
    simp only [insEnt]
    split
    · simp [D.keys]
    · simp only [D.keys, List.mem_cons, ih]
      constructor
      · rintro (h | h | h)
        · exact Or.inr (Or.inl h)
        · exact Or.inl h
        · exact Or.inr (Or.inr h)
      · rintro (h | h | h)
        · exact Or.inr (Or.inl h)
        · exact Or.inl h
        · exact Or.inr (Or.inr h)

theorem sortRec_keys (d : D) (x : Key) : x ∈ (sortRec d).keys ↔ x ∈ d.keys := by
  induction d with
  | nil => simp [sortRec]
  | ent k v s r _ ihr => simp [sortRec, insEnt_keys, D.keys, ihr]

theorem insEnt_sorted (k : Key) (v : Option Nat) (s r : D) (hs : v = none → s.Sorted) (hr : r.Sorted)
    (hk : k ∉ r.keys) : (insEnt k v s r).Sorted := by
  induction r with
  | nil => exact ⟨by simp [D.keys], hs, trivial⟩
  | ent k' v' s' r' _ ih =>
    have hne : k ≠ k' := fun e => hk (by simp [D.keys, e])
    simp only [insEnt]
    cases hle : lexLe k k' with
    | true =>
      simp only [if_true]
      refine ⟨?_, hs, hr⟩
      intro x hx
      simp only [D.keys, List.mem_cons] at hx
      rcases hx with rfl | hx
      · cases h : lexLe x k with
        | false => rfl
        | true => exact absurd (lexLe_antisymm k x hle h) hne
      · cases h : lexLe x k with
        | false => rfl
        | true =>
          have := lexLe_trans x k k' h hle
          rw [hr.1 x hx] at this; exact absurd this (by simp)
    | false =>
      simp only [Bool.false_eq_true, if_false]
      refine ⟨?_, hr.2.1, ih hr.2.2 (fun h => hk (by simp [D.keys, h]))⟩
      intro x hx
      rcases (insEnt_keys k v s r' x).mp hx with rfl | hx
      · exact hle
      · exact hr.1 x hx

theorem sortRec_sorted (d : D) (hw : d.WF) : (sortRec d).Sorted := by
  induction d with
  | nil => trivial
  | ent k v s r ihs ihr =>
    simp only [sortRec]
    apply insEnt_sorted
    · intro hv; exact ihs (hw.2.1 hv).2
    · exact ihr hw.2.2
    · rw [sortRec_keys]; exact hw.1

theorem entries_ent (k : Key) (v : Option Nat) (s r : D) :
    (D.ent k v s r).entries = (D.ent k v s .nil).entries ++ r.entries := by
  cases v <;> simp [D.entries]

theorem entries_insEnt (k : Key) (v : Option Nat) (s r : D) :
    (insEnt k v s r).entries.Perm ((D.ent k v s .nil).entries ++ r.entries) := by
  induction r with
  | nil => simp [insEnt, D.entries]
  | ent k' v' s' r' _ ih =>
    simp only [insEnt]
    split
    · rw [entries_ent]
    · rw [entries_ent k' v' s' (insEnt k v s r'), entries_ent k' v' s' r']
      exact (List.Perm.append_left _ ih).trans (by
        rw [← List.append_assoc, ← List.append_assoc]
        exact List.Perm.append_right _ List.perm_append_comm)

theorem entries_sortRec (d : D) : (sortRec d).entries.Perm d.entries := by
  induction d with
  | nil => simp [sortRec]
  | ent k v s r ihs ihr =>
    simp only [sortRec]
    refine (entries_insEnt k v (sortRec s) (sortRec r)).trans ?_
    rw [entries_ent k v s r]
    refine List.Perm.append ?_ ihr
    cases v with
    | some i => simp [D.entries]
    | none =>
      simp only [D.entries, List.append_nil]
      exact ihs.map _

/-- order of the paths: lexicographic, keys compared by `lexLe` -/
def pathLt : List Key → List Key → Bool
  | [], [] => false
  | [], _ :: _ => true
  | _ :: _, [] => false
  | a :: as, b :: bs => !(lexLe b a) || (a == b && pathLt as bs)

/-- in a recursively sorted dictionary the entries are listed by strictly ascending path -/
theorem sorted_entries_pairwise (d : D) (hs : d.Sorted) :
    d.entries.Pairwise (fun a b => pathLt a.1 b.1 = true) := by
  induction d with
  | nil => simp [D.entries]
  | ent k v s r ihs ihr =>
    rw [entries_ent]
    apply List.pairwise_append.mpr
    refine ⟨?_, ihr hs.2.2, ?_⟩
    · cases v with
      | some i => simp [D.entries]
      | none =>
        simp only [D.entries, List.append_nil]
        apply List.pairwise_map.mpr
        refine (ihs (hs.2.1 rfl)).imp ?_
        intro a b hab
        simp [pathLt, hab]
    · intro a ha b hb
      obtain ⟨k'', hk'', tl, hb1⟩ := entries_head r b hb
      have hlt := hs.1 k'' hk''
      have ha1 : ∃ tl', a.1 = k :: tl' := by
        cases v with
        | some i => simp [D.entries] at ha; exact ⟨[], by rw [ha]⟩
        | none =>
          simp only [D.entries, List.append_nil, List.mem_map] at ha
          obtain ⟨e, _, rfl⟩ := ha
          exact ⟨e.1, rfl⟩
      obtain ⟨tl', ha1⟩ := ha1
      rw [ha1, hb1]
      simp [pathLt, hlt]

/-! ### unwrapping keeps the positions and their order -/
def Res.flat : Res → List Nat
  | .raises => []
  | .none => []
  | .int i => [i]
  | .list d => d.flat

theorem unwrap_flat (d : D) : (unwrap d).flat = d.flat := by
  induction d with
  | nil => rfl
  | ent k v s r ihs _ =>
    cases r with
    | ent k' v' s' r' => cases v <;> rfl
    | nil =>
      cases v with
      | some i => simp [unwrap, Res.flat, D.flat, D.entries]
      | none =>
        simp only [unwrap]
        rw [ihs]
        simp [D.flat, D.entries]

theorem unwrap_ne_raises (d : D) : unwrap d ≠ .raises := by
  induction d with
  | nil => simp [unwrap]
  | ent k v s r ihs _ =>
    cases r with
    | ent k' v' s' r' => cases v <;> simp [unwrap]
    | nil =>
      cases v with
      | some i => simp [unwrap]
      | none => simpa [unwrap] using ihs

/-! ### the regular expression on names `prefix ++ index suffix` -/
theorem dropPrefix_append (p s : List Char) : dropPrefix? p (p ++ s) = some s := by
  induction p with
  | nil => cases s <;> rfl
  | cons c cs ih => simp [dropPrefix?, ih]

theorem lazyExt_all (s : List Char) (h : s.all isIdxChar = true) : lazyExt s = ([], s) := by
  cases s with
  | nil => rfl
  | cons c cs => simp only [lazyExt, h, if_true]

/-- a name that is the prefix followed by index characters only: `m[1]` is the prefix, `m[2]` the rest -/
theorem reMatch_suffix (p sfx : List Char) (h : sfx.all isIdxChar = true) : reMatch p (p ++ sfx) = some (p, sfx) := by
  simp [reMatch, dropPrefix_append, lazyExt_all sfx h]

theorem digitRuns_digits (cur ds rest : List Char) (h : ds.all Char.isDigit = true) :
    digitRuns cur (ds ++ rest) = digitRuns (cur ++ ds) rest := by
  induction ds generalizing cur with
  | nil => simp
  | cons d ds ih =>
    simp only [List.all_cons, Bool.and_eq_true] at h
    simp only [List.cons_append, digitRuns, h.1, if_true]
    rw [ih (cur ++ [d]) h.2]; simp

theorem digitRuns_sep (cur rest : List Char) (c : Char) (h : c.isDigit = false) :
    digitRuns cur (c :: rest) = (if cur.isEmpty then [] else [cur]) ++ digitRuns [] rest := by
  simp only [digitRuns, h, Bool.false_eq_true, if_false]
  split <;> simp

/-- the three index styles `p[i]`, `p_i`, `p_i_` -/
inductive Style where
  | br | us | ust
deriving DecidableEq, Repr

def fmtIdx : Style → List Char → List Char
  | .br, ds => '[' :: ds ++ [']']
  | .us, ds => '_' :: ds
  | .ust, ds => '_' :: ds ++ ['_']

/-- index suffix of a (multi-dimensional) name: one formatted index per dimension -/
def suffixOf : List (Style × List Char) → List Char
  | [] => []
  | it :: its => fmtIdx it.1 it.2 ++ suffixOf its

/-- digit strings: non-empty, ASCII digits -/
def digitsOK (ds : List Char) : Bool := !ds.isEmpty && ds.all Char.isDigit

theorem digitRuns_suffix (items : List (Style × List Char)) (h : ∀ it ∈ items, digitsOK it.2 = true) (cur : List Char) :
    digitRuns cur (suffixOf items) = (if cur.isEmpty then [] else [cur]) ++ items.map Prod.snd := by
  induction items generalizing cur with
  | nil => simp only [suffixOf, digitRuns]; split <;> simp
  | cons it its ih =>
    obtain ⟨st, ds⟩ := it
    have hd := h (st, ds) (by simp)
    simp only [digitsOK, Bool.and_eq_true, Bool.not_eq_true', List.isEmpty_eq_false_iff] at hd
    have hds : (([] : List Char) ++ ds).isEmpty = false := by simpa using hd.1
    have ih' := fun c => ih (fun it hit => h it (List.mem_cons_of_mem _ hit)) c
    cases st with
    | br =>
      simp only [suffixOf, fmtIdx, List.cons_append, List.append_assoc]
      rw [digitRuns_sep cur _ '[' (by decide), digitRuns_digits [] ds _ hd.2,
        digitRuns_sep _ _ ']' (by decide), hds]
      simp [ih']
    | us =>
      simp only [suffixOf, fmtIdx, List.cons_append]
      rw [digitRuns_sep cur _ '_' (by decide), digitRuns_digits [] ds _ hd.2, ih' ([] ++ ds), hds]
      simp
    | ust =>
      simp only [suffixOf, fmtIdx, List.cons_append, List.append_assoc]
      rw [digitRuns_sep cur _ '_' (by decide), digitRuns_digits [] ds _ hd.2,
        digitRuns_sep _ _ '_' (by decide), hds]
      simp [ih']

theorem isIdx_of_digit (c : Char) (h : c.isDigit = true) : isIdxChar c = true := by simp [isIdxChar, h]

theorem suffixOf_idx (items : List (Style × List Char)) (h : ∀ it ∈ items, digitsOK it.2 = true) :
    (suffixOf items).all isIdxChar = true := by
  induction items with
  | nil => rfl
  | cons it its ih =>
    obtain ⟨st, ds⟩ := it
    have hd := h (st, ds) (by simp)
    simp only [digitsOK, Bool.and_eq_true] at hd
    have hall : ds.all isIdxChar = true := by
      apply List.all_eq_true.mpr
      intro c hc
      exact isIdx_of_digit c (List.all_eq_true.mp hd.2 c hc)
    have ih' := ih (fun it hit => h it (List.mem_cons_of_mem _ hit))
    cases st <;> simp [suffixOf, fmtIdx, hall, ih', isIdxChar]

/-- path of `p[i]…`, `p_i…`, `p_i_…` under the prefix `p`: the stem `p`, then the numeric indices -/
theorem pathOf_suffix (p : List Char) (items : List (Style × List Char)) (h : ∀ it ∈ items, digitsOK it.2 = true) :
    pathOf p (p ++ suffixOf items) = some (stemKey p :: items.map (fun it => idxKey (decVal it.2))) := by
  simp only [pathOf, reMatch_suffix p _ (suffixOf_idx items h), Option.map_some]
  rw [digitRuns_suffix items h []]
  simp [List.map_map, Function.comp_def]

/-! ### decimal numerals -/
theorem decVal_repr (i : Nat) : decVal (toString i).toList = i := by
  have : decVal (Nat.toDigits 10 i) = Nat.ofDigitChars 10 (Nat.toDigits 10 i) 0 := rfl
  simp only [Nat.toString_eq_repr, Nat.toList_repr, this]
  exact Nat.ofDigitChars_toDigits (by omega) (by omega)

theorem digitsOK_repr (i : Nat) : digitsOK (toString i).toList = true := by
  simp only [Nat.toString_eq_repr, Nat.toList_repr, digitsOK, Bool.and_eq_true, Bool.not_eq_true',
    List.isEmpty_eq_false_iff, List.all_eq_true]
  exact ⟨Nat.toDigits_ne_nil, fun c hc => Nat.isDigit_of_mem_toDigits (by omega) (by omega) hc⟩

/-! ### bus names: rows of formatted indices under one stem -/
def busName (p : List Char) (row : List (Style × List Char)) : List Char := p ++ suffixOf row
def idxVec (row : List (Style × List Char)) : List Nat := row.map fun it => decVal it.2
def rowPath (p : List Char) (row : List (Style × List Char)) : List Key := stemKey p :: (idxVec row).map idxKey

def rowEntries (p : List Char) : List (List (Style × List Char)) → Nat → List (List Key × Nat)
  | [], _ => []
  | r :: rs, i => (rowPath p r, i) :: rowEntries p rs (i + 1)

theorem matchesFrom_rows (p : List Char) (rows : List (List (Style × List Char)))
    (h : ∀ r ∈ rows, ∀ it ∈ r, digitsOK it.2 = true) (i : Nat) :
    matchesFrom p (rows.map (busName p)) i = rowEntries p rows i := by
  induction rows generalizing i with
  | nil => rfl
  | cons r rs ih =>
    simp only [List.map_cons, matchesFrom, busName, pathOf_suffix p r (h r (by simp)), rowEntries]
    rw [show List.map (fun it : Style × List Char => idxKey (decVal it.2)) r = (idxVec r).map idxKey by
      simp [idxVec, List.map_map, Function.comp_def]]
    congr 1
    exact ih (fun r' hr' => h r' (List.mem_cons_of_mem _ hr')) (i + 1)

theorem prefix_of_map_idxKey (a b : List Nat) (h : a.map idxKey <+: b.map idxKey) : a <+: b := by
  induction a generalizing b with
  | nil => exact List.nil_prefix
  | cons x xs ih =>
    cases b with
    | nil => simp at h
    | cons y ys =>
      simp only [List.map_cons, List.cons_prefix_cons, idxKey] at h
      have hxy : x = y := by simpa using h.1
      rw [hxy]
      exact (List.cons_prefix_cons).mpr ⟨rfl, ih ys h.2⟩

theorem rowEntries_mem (p : List Char) (rows : List (List (Style × List Char))) (i : Nat) :
    ∀ e ∈ rowEntries p rows i, ∃ r ∈ rows, e.1 = rowPath p r := by
  induction rows generalizing i with
  | nil => intro e he; simp [rowEntries] at he
  | cons r rs ih =>
    intro e he
    simp only [rowEntries, List.mem_cons] at he
    rcases he with rfl | he
    · exact ⟨r, by simp, rfl⟩
    · obtain ⟨r', hr', h⟩ := ih (i + 1) e he
      exact ⟨r', by simp [hr'], h⟩

/-- index vectors of which none is a prefix of another one (e.g. pairwise different vectors of one length) -/
def VecCompat (a b : List Nat) : Prop := ¬ a <+: b ∧ ¬ b <+: a

instance (a b : List Nat) : Decidable (VecCompat a b) := by unfold VecCompat; exact inferInstance

theorem rowEntries_compat (p : List Char) (rows : List (List (Style × List Char))) (i : Nat)
    (h : (rows.map idxVec).Pairwise VecCompat) : (rowEntries p rows i).Pairwise CompatP := by
  induction rows generalizing i with
  | nil => simp [rowEntries]
  | cons r rs ih =>
    simp only [List.map_cons, List.pairwise_cons] at h
    simp only [rowEntries, List.pairwise_cons]
    refine ⟨?_, ih (i + 1) h.2⟩
    intro e he
    obtain ⟨r', hr', he1⟩ := rowEntries_mem p rs (i + 1) e he
    have hv := h.1 (idxVec r') (List.mem_map.mpr ⟨r', hr', rfl⟩)
    simp only [CompatP, he1, rowPath]
    constructor
    · intro hp
      exact hv.1 (prefix_of_map_idxKey _ _ ((List.cons_prefix_cons).mp hp).2)
    · intro hp
      exact hv.2 (prefix_of_map_idxKey _ _ ((List.cons_prefix_cons).mp hp).2)

/-! ### rows of numbers -/
/-- one name = one (style, index) per dimension; the index is written as a decimal numeral -/
def numRow (row : List (Style × Nat)) : List (Style × List Char) := row.map fun it => (it.1, (toString it.2).toList)
def vecOf (row : List (Style × Nat)) : List Nat := row.map Prod.snd
def vecEntries : List (List (Style × Nat)) → Nat → List (List Nat × Nat)
  | [], _ => []
  | r :: rs, i => (vecOf r, i) :: vecEntries rs (i + 1)
/-- path of the name with stem `p` and index vector `v` -/
def busPath (p : List Char) (v : List Nat) : List Key := stemKey p :: v.map idxKey
/-- index vector of a path -/
def unkey (path : List Key) : List Nat := path.tail.map fun k => k.headD 0
/-- numeric lexicographic order of index vectors -/
def vecLt (a b : List Nat) : Bool := pathLt (a.map idxKey) (b.map idxKey)

theorem unkey_busPath (p : List Char) (v : List Nat) : unkey (busPath p v) = v := by
  simp [unkey, busPath, idxKey, List.map_map, Function.comp_def]

theorem idxVec_numRow (r : List (Style × Nat)) : idxVec (numRow r) = vecOf r := by
  simp only [idxVec, numRow, vecOf, List.map_map]
  apply List.map_congr_left
  intro it _
  exact decVal_repr it.2

theorem numRow_digits (r : List (Style × Nat)) : ∀ it ∈ numRow r, digitsOK it.2 = true := by
  intro it hit
  simp only [numRow, List.mem_map] at hit
  obtain ⟨x, _, rfl⟩ := hit
  exact digitsOK_repr x.2

theorem rowEntries_num (p : List Char) (rows : List (List (Style × Nat))) (i : Nat) :
    rowEntries p (rows.map numRow) i = (vecEntries rows i).map (fun e => (busPath p e.1, e.2)) := by
  induction rows generalizing i with
  | nil => rfl
  | cons r rs ih =>
    simp only [List.map_cons, rowEntries, vecEntries, rowPath, idxVec_numRow, busPath]
    rw [ih (i + 1)]
    simp [busPath]

/-! ### positions are unique -/
theorem matchesFrom_ge (pre : List Char) (names : List (List Char)) (i : Nat) :
    ∀ e ∈ matchesFrom pre names i, i ≤ e.2 ∧ e.2 < i + names.length := by
  induction names generalizing i with
  | nil => intro e he; simp [matchesFrom] at he
  | cons nm rest ih =>
    intro e he
    simp only [matchesFrom] at he
    cases hp : pathOf pre nm with
    | none =>
      rw [hp] at he
      have := ih (i + 1) e he
      simp only [List.length_cons]; omega
    | some q =>
      rw [hp] at he
      rcases List.mem_cons.mp he with rfl | he
      · simp
      · have := ih (i + 1) e he
        simp only [List.length_cons]; omega

theorem matchesFrom_functional (pre : List Char) (names : List (List Char)) (i : Nat) (a : Nat) (pa pb : List Key)
    (h1 : (pa, a) ∈ matchesFrom pre names i) (h2 : (pb, a) ∈ matchesFrom pre names i) : pa = pb := by
  induction names generalizing i with
  | nil => simp [matchesFrom] at h1
  | cons nm rest ih =>
    simp only [matchesFrom] at h1 h2
    cases hp : pathOf pre nm with
    | none => rw [hp] at h1 h2; exact ih (i + 1) h1 h2
    | some q =>
      rw [hp] at h1 h2
      rcases List.mem_cons.mp h1 with e1 | h1 <;> rcases List.mem_cons.mp h2 with e2 | h2
      · rw [(Prod.mk.inj e1).1, (Prod.mk.inj e2).1]
      · have := (matchesFrom_ge pre rest (i + 1) _ h2).1
        have := (Prod.mk.inj e1).2; simp at *; omega
      · have := (matchesFrom_ge pre rest (i + 1) _ h1).1
        have := (Prod.mk.inj e2).2; simp at *; omega
      · exact ih (i + 1) h1 h2

/-! ### order of paths of one stem -/
theorem lexLe_refl (a : Key) : lexLe a a = true := by
  rcases lexLe_total a a with h | h <;> exact h

theorem pathLt_stem (s : Key) (a b : List Key) : pathLt (s :: a) (s :: b) = pathLt a b := by
  simp [pathLt, lexLe_refl]

theorem pathLt_idx1 (x y : Nat) : pathLt [idxKey x] [idxKey y] = decide (x < y) := by
  simp only [pathLt, idxKey, lexLe, Bool.and_true, Bool.and_false, Bool.or_false]
  by_cases h : x < y
  · simp [h]; omega
  · simp [h]; omega

theorem pathLt_idx2 (x1 x2 y1 y2 : Nat) :
    pathLt [idxKey x1, idxKey x2] [idxKey y1, idxKey y2] = decide (x1 < y1 ∨ (x1 = y1 ∧ x2 < y2)) := by
  simp only [pathLt, idxKey, lexLe, Bool.and_true, Bool.and_false, Bool.or_false]
  by_cases h1 : x1 < y1
  · simp [h1]; omega
  · by_cases h2 : x1 = y1
    · subst h2
      by_cases h3 : x2 < y2
      · simp [h3]; omega
      · simp [h3]; omega
    · simp [h1, h2]; omega

end KV.Locs
