import KyupyVerif.Proofs.SubstGen19
/-! Helper lemmas for C10 (`resolve_sem_general`), part 3: one substitution keeps the loop invariant — the structural part
(`ResStep`: the composed index maps and what they preserve). -/
namespace KV.Transform
open KV

/-- the index maps from the circuit after the substitution of node `j` of `cur` to the original circuit `h` -/
def stepRho (h cur : NNet) (j : Nat) (ρ R : Ren) : Ren :=
  ⟨fun l' => if R.line l' < cur.net.lines.size then ρ.line (R.line l') else h.net.lines.size,
   fun j' => if R.node j' < cur.net.nodes.size ∧ R.node j' ≠ j then ρ.node (R.node j') else h.net.nodes.size⟩

theorem stepRho_node {h cur : NNet} {j : Nat} {ρ R : Ren} {j' : Nat} (hlt : (stepRho h cur j ρ R).node j' < h.net.nodes.size) :
    R.node j' < cur.net.nodes.size ∧ R.node j' ≠ j ∧ (stepRho h cur j ρ R).node j' = ρ.node (R.node j') := by
  simp only [stepRho] at hlt ⊢
  split at hlt
  · rename_i hc; exact ⟨hc.1, hc.2, by rw [if_pos hc]⟩
  · omega

theorem stepRho_line {h cur : NNet} {j : Nat} {ρ R : Ren} {l' : Nat} (hlt : (stepRho h cur j ρ R).line l' < h.net.lines.size) :
    R.line l' < cur.net.lines.size ∧ (stepRho h cur j ρ R).line l' = ρ.line (R.line l') := by
  simp only [stepRho] at hlt ⊢
  split at hlt
  · rename_i hc; exact ⟨hc, by rw [if_pos hc]⟩
  · omega

theorem stepRho_node_eq {h cur : NNet} {j : Nat} {ρ R : Ren} {j' : Nat} (h1 : R.node j' < cur.net.nodes.size) (h2 : R.node j' ≠ j) :
    (stepRho h cur j ρ R).node j' = ρ.node (R.node j') := by simp [stepRho, h1, h2]

theorem stepRho_line_eq {h cur : NNet} {j : Nat} {ρ R : Ren} {l' : Nat} (h1 : R.line l' < cur.net.lines.size) :
    (stepRho h cur j ρ R).line l' = ρ.line (R.line l') := by simp [stepRho, h1]

section step
variable {α : Type _} {lib : Lib} {h : NNet} {z : α} {neg : α → α} {prim : String → α → α → α → α → α}
  {cur : NNet} {D : Nat → Prop} {ρ : Ren} (r : ResRelG lib h z neg prim cur D ρ) (hw : WFm h)
  {j d : Nat} (hj : j < cur.net.nodes.size) (hjd : ρ.node j = d) (hd : d < h.net.nodes.size)
  (hjio : j ∉ cur.net.io) {impl : NNet} {sh : Shape} {map : Array (Option Nat)} {nxt : NNet} {R : Ren}
  (g : SubstG z neg prim cur j impl sh map nxt R)
include r hw hj hjd hd hjio g

/-- a line at an output pin of a surviving original node (not a fork) of the circuit after the substitution -/
theorem resStep_out (j' k l' : Nat) (hj' : j' < nxt.net.nodes.size) (h1 : R.node j' < cur.net.nodes.size) (h2 : R.node j' ≠ j)
    (hnf : (nxt.net.node j').isFork = false) (hp : (nxt.net.node j').outs.getD k none = some l') :
    l' < nxt.net.lines.size ∧ R.line l' < cur.net.lines.size ∧ (cur.net.node (R.node j')).outs.getD k none = some (R.line l') := by
  obtain ⟨a1, a2, a3⟩ := g.wf'.fwdOut j' hj' k l' hp
  obtain ⟨b1, b2⟩ := g.lineDrvHost l' a1 (by rw [a2]; exact h1) (by rw [a2]; exact h2)
  obtain ⟨c1, c2⟩ := g.hostDrv l' a1 b1 b2
  rw [a2] at c1
  have hk := (g.hostNode j' hj' h1 h2).1
  have hnf' : (cur.net.node (R.node j')).isFork = false := by rw [← isFork_of_kind_eq hk]; exact hnf
  have hdp : (cur.net.line (R.line l')).dpin = k := by
    rcases c2 with c2 | c2
    · rw [← c2, a3]
    · rw [← c1, hnf'] at c2; exact absurd c2 (by simp)
  have := (r.wf.back _ b1).2.2.1
  rw [← c1, hdp] at this
  exact ⟨a1, b1, this⟩

theorem resStep_struct :
    WFm nxt ∧ nxt.net.io.map (stepRho h cur j ρ R).node = h.net.io ∧
    (∀ j1 j2, j1 < nxt.net.nodes.size → j2 < nxt.net.nodes.size → (stepRho h cur j ρ R).node j1 < h.net.nodes.size →
      (stepRho h cur j ρ R).node j1 = (stepRho h cur j ρ R).node j2 → j1 = j2) ∧
    (∀ l1 l2, l1 < nxt.net.lines.size → l2 < nxt.net.lines.size → (stepRho h cur j ρ R).line l1 < h.net.lines.size →
      (stepRho h cur j ρ R).line l1 = (stepRho h cur j ρ R).line l2 → l1 = l2) ∧
    (∀ d', d' < h.net.nodes.size → ¬ (D d' ∨ d' = d) → ∃ j', j' < nxt.net.nodes.size ∧ (stepRho h cur j ρ R).node j' = d') ∧
    (∀ j', j' < nxt.net.nodes.size → (stepRho h cur j ρ R).node j' < h.net.nodes.size →
      ¬ (D ((stepRho h cur j ρ R).node j') ∨ (stepRho h cur j ρ R).node j' = d)) ∧
    (∀ j', j' < nxt.net.nodes.size → (stepRho h cur j ρ R).node j' < h.net.nodes.size →
      (nxt.net.node j').kind = (h.net.node ((stepRho h cur j ρ R).node j')).kind ∧
      nxt.names.getD j' "" = h.names.getD ((stepRho h cur j ρ R).node j') "" ∧
      ∀ k, ((nxt.net.node j').inPin k).map (stepRho h cur j ρ R).line = (h.net.node ((stepRho h cur j ρ R).node j')).inPin k) := by
  refine ⟨g.wf', ?_, ?_, ?_, ?_, ?_, ?_⟩
  · rw [← r.io, ← g.io, List.map_map]
    apply List.map_congr_left
    intro i hi
    have hmem : R.node i ∈ cur.net.io := by rw [← g.io]; exact List.mem_map_of_mem hi
    exact stepRho_node_eq (r.wf.io _ hmem) (fun e => hjio (e ▸ hmem))
  · intro j1 j2 h1 h2 hlt e
    obtain ⟨a1, a2, a3⟩ := stepRho_node hlt
    obtain ⟨b1, b2, b3⟩ := stepRho_node (e ▸ hlt)
    rw [a3, b3] at e
    exact g.nodeInj j1 j2 h1 h2 (r.nodeInj _ _ a1 b1 (a3 ▸ hlt) e)
  · intro l1 l2 h1 h2 hlt e
    obtain ⟨a1, a3⟩ := stepRho_line hlt
    obtain ⟨b1, b3⟩ := stepRho_line (e ▸ hlt)
    rw [a3, b3] at e
    exact g.lineInj l1 l2 h1 h2 (r.lineInj _ _ a1 b1 (a3 ▸ hlt) e)
  · intro d' hd' hn
    obtain ⟨x, hx, ex⟩ := r.pos d' hd' (fun hc => hn (Or.inl hc))
    have hne : x ≠ j := fun e => hn (Or.inr (by rw [← ex, e, hjd]))
    obtain ⟨j', hj', ej⟩ := g.hostSurj x hx hne
    exact ⟨j', hj', by rw [stepRho_node_eq (ej ▸ hx) (ej ▸ hne), ej, ex]⟩
  · intro j' _ hlt
    obtain ⟨a1, a2, a3⟩ := stepRho_node hlt
    rw [a3]
    rintro (hc | hc)
    · exact r.orig _ a1 (a3 ▸ hlt) hc
    · exact a2 (r.nodeInj _ _ a1 hj (a3 ▸ hlt) (hc.trans hjd.symm))
  · intro j' hj' hlt
    obtain ⟨a1, a2, a3⟩ := stepRho_node hlt
    obtain ⟨g1, g2, g3⟩ := g.hostNode j' hj' a1 a2
    obtain ⟨r1, r2, r3⟩ := r.node _ a1 (a3 ▸ hlt)
    rw [a3]
    refine ⟨g1.trans r1, g2.trans r2, fun k => ?_⟩
    rw [← r3 k, ← g3 k]
    cases hp : (nxt.net.node j').inPin k with
    | none => rfl
    | some l' =>
      simp only [Option.map_some]
      have hq : (cur.net.node (R.node j')).inPin k = some (R.line l') := by rw [← g3 k, hp]; rfl
      rw [stepRho_line_eq (r.wf.fwdIn _ a1 k _ hq).1]

end step
end KV.Transform
