import KyupyVerif.Model.VerilogLib
import KyupyVerif.Proofs.VerilogEnd
import KyupyVerif.Proofs.SubstSem1
/-! Capstone C11 ∘ C10 ∘ C19, part 1: the parsed Verilog circuit as an `NNet` (`verilogNNet`), position-indexed versus
node-indexed consistency (`NetLabellingOff` of C11 versus `ConsOff` of C10), and which nodes of the net are the library-cell
instances (`libHole_iff`). -/
namespace KV.Netlist
open KV KV.Transform

universe u
variable {cfg : Cfg} {tl : TL} {ports : List String} {stmts : List Stmt}

/-! ## position-indexed and node-indexed assignment -/

theorem pos_node_lineEq {α : Type u} (net : Net) (z : α) (neg : α → α) (prim : String → α → α → α → α → α) (a an : Nat → α)
    (h : ∀ n ∈ net.sNodes, an n = a (net.sNodes.idxOf n)) (v : Nat → α) (l : Nat) :
    lineEq net net.sPos z neg prim a v l = lineEq net (spN net) z neg prim an v l := by
  apply Transform.lineEq_congr
  · rfl
  · rfl
  · simp only [spN, Net.sPos, sPosIn, List.contains_iff_mem]
    by_cases hm : (net.line l).driver ∈ net.sNodes
    · have hlt := List.idxOf_lt_length_iff.mpr hm
      simp only [hm, hlt, if_true, Option.map_some, h _ hm]
    · have : ¬ List.idxOf (net.line l).driver net.sNodes < net.sNodes.length := fun x => hm (List.idxOf_lt_length_iff.mp x)
      simp [hm, this]
  · intro k; rfl

/-- `ConsOff` (C10: assignment per node) and `NetLabellingOff` (C11: assignment per `s_nodes` position) say the same when the
node-indexed assignment is the position-indexed one read at the node's position -/
theorem consOff_iff_labellingOff {α : Type u} (nn : NNet) (S : Nat → Prop) (z : α) (neg : α → α) (prim : String → α → α → α → α → α)
    (a an : Nat → α) (h : ∀ n ∈ nn.net.sNodes, an n = a (nn.net.sNodes.idxOf n)) (v : Nat → α) :
    ConsOff nn S z neg prim an v ↔ NetLabellingOff nn.net S z neg prim a v := by
  constructor
  · intro hc l hl hS
    rw [hc l hl hS, pos_node_lineEq nn.net z neg prim a an h]
  · intro hc l hl hS
    rw [hc l hl hS, pos_node_lineEq nn.net z neg prim a an h]

/-! ## the net with names -/

theorem verilogNNet_net : (verilogNNet cfg tl ports stmts).net = verilogNet cfg tl ports stmts := rfl

/-- the library-cell nodes of a dump: the hole set of `C10.resolve_sem` -/
def libHole (lib : Lib) (nn : NNet) (x : Nat) : Prop := x < nn.net.nodes.size ∧ (lib.find (nn.net.node x).kind).isSome = true

theorem verilogNet_kind (e : Ep) (he : (module cfg tl ports stmts).resolved e) :
    ((verilogNet cfg tl ports stmts).node ((module cfg tl ports stmts).nodeIdx e)).kind = (module cfg tl ports stmts).kindOf e := by
  unfold verilogNet
  rw [toNet_node_kind _ _ _ he]
  unfold Circ.kindOf
  rw [List.getD_eq_getElem?_getD, List.getElem?_eq_getElem he]; rfl

theorem constKind_cases (s : String) (h : isConstLit s = true) : constKind s = "__const0__" ∨ constKind s = "__const1__" := by
  unfold isConstLit at h
  simp only [Bool.or_eq_true, beq_iff_eq] at h
  rcases h with rfl | rfl
  · left; decide +kernel
  · right; decide +kernel

/-- the driver of a line is an instance output, or a node of one of the four structural kinds that is no instance -/
theorem v_driver_cases (hok : VOK cfg tl ports stmts) (t : VLine) (ht : t ∈ vFlat cfg tl (sigDecls stmts) stmts) :
    (∃ i ∈ vInsts stmts, ∃ o ∈ outConn tl (sigDecls stmts) i, t = ⟨.cell i.name o.1, .fork o.2, o.2⟩) ∨
    ((∀ HI, ¬ holeEp stmts HI t.d) ∧
      ((module cfg tl ports stmts).kindOf t.d = "input" ∨ (module cfg tl ports stmts).kindOf t.d = "__const0__" ∨
       (module cfg tl ports stmts).kindOf t.d = "__const1__" ∨ (module cfg tl ports stmts).kindOf t.d = forkKind)) := by
  have hres := v_resolved_driver hok t ht
  rcases mem_vFlat_step hok t ht with ⟨i, hi, o, ho, rfl⟩ | ⟨n, hn, rfl⟩ | ⟨k, ts, hst, htp⟩ | ⟨k, i, c, hst, htc⟩ | ⟨n, hn, rfl⟩
  · exact Or.inl ⟨i, hi, o, ho, rfl⟩
  · exact Or.inr ⟨fun HI => not_hole_input hok HI n hn 0, Or.inl (v_kindOf_input hok n hn 0)⟩
  · unfold pairLines at htp
    by_cases hcl : isConstLit ts.2 = true
    · simp only [hcl, if_true, List.mem_singleton] at htp
      subst htp
      refine Or.inr ⟨fun HI => not_hole_const hok HI _ (hst.cname hcl) 0, ?_⟩
      rw [(v_const_cell hok ts.2 k hcl (hst.nodes _ (by unfold pairNodes; simp [hcl])) 0).2]
      rcases constKind_cases _ hcl with h | h
      · exact Or.inr (Or.inl h)
      · exact Or.inr (Or.inr (Or.inl h))
    · simp only [hcl, Bool.false_eq_true, if_false, List.mem_singleton] at htp
      subst htp
      exact Or.inr ⟨fun HI => not_hole_fork HI _, Or.inr (Or.inr (Or.inr (kindOf_fork _ _ hres)))⟩
  · rcases (mem_connLines cfg.bf k i c t).mp htc with ⟨hl, rfl⟩ | ⟨hb, rfl | rfl⟩ | ⟨_, rfl⟩
    · refine Or.inr ⟨fun HI => not_hole_const hok HI _ (hst.cname hl) 0, ?_⟩
      rw [(v_const_cell hok c.2.2 k hl (hst.nodes _ (by unfold connNodes; simp [hl])) 0).2]
      rcases constKind_cases _ hl with h | h
      · exact Or.inr (Or.inl h)
      · exact Or.inr (Or.inr (Or.inl h))
    · exact Or.inr ⟨fun HI => not_hole_fork HI _, Or.inr (Or.inr (Or.inr (kindOf_fork _ _ hres)))⟩
    · exact Or.inr ⟨fun HI => not_hole_fork HI _, Or.inr (Or.inr (Or.inr (kindOf_fork _ _ hres)))⟩
    · exact Or.inr ⟨fun HI => not_hole_fork HI _, Or.inr (Or.inr (Or.inr (kindOf_fork _ _ hres)))⟩
  · exact Or.inr ⟨fun HI => not_hole_fork HI _, Or.inr (Or.inr (Or.inr (kindOf_fork _ _ hres)))⟩

structure LibClean (lib : Lib) (stmts : List Stmt) : Prop where
  input : lib.find "input" = none
  output : lib.find "output" = none
  fork : lib.find forkKind = none
  c0 : lib.find "__const0__" = none
  c1 : lib.find "__const1__" = none
  noSeq : ∀ i ∈ vInsts stmts, (lib.find i.ty).isSome = true → isSeqKind i.ty = false

theorem libClean_of {lib : Lib} (h : libCleanB lib stmts = true) : LibClean lib stmts := by
  unfold libCleanB at h
  simp only [Bool.and_eq_true, Option.isNone_iff_eq_none, List.all_eq_true, Bool.not_eq_true'] at h
  obtain ⟨⟨⟨⟨⟨h1, h2⟩, h3⟩, h4⟩, h5⟩, h6⟩ := h
  refine ⟨h1, h2, h3, h4, h5, fun i hi hs => ?_⟩
  have := h6 i hi
  rw [hs] at this
  simpa using this

/-- a line of the net is driven by a library-cell node exactly when its driver end point is an output of a library instance -/
theorem libHole_iff (hok : VOK cfg tl ports stmts) (lib : Lib) (hcl : LibClean lib stmts) (t : VLine)
    (ht : t ∈ vFlat cfg tl (sigDecls stmts) stmts) :
    libHole lib (verilogNNet cfg tl ports stmts) ((module cfg tl ports stmts).nodeIdx t.d) ↔
      holeEp stmts (fun i => (lib.find i.ty).isSome = true) t.d := by
  have hres := v_resolved_driver hok t ht
  have hsz : (module cfg tl ports stmts).nodeIdx t.d < (verilogNNet cfg tl ports stmts).net.nodes.size := by
    show _ < (verilogNet cfg tl ports stmts).nodes.size
    unfold verilogNet; rw [toNet_nodes_size]; exact hres
  unfold libHole
  rw [verilogNNet_net, verilogNet_kind _ hres]
  rcases v_driver_cases hok t ht with ⟨i, hi, o, ho, rfl⟩ | ⟨hnh, hk⟩
  · rw [v_kindOf_inst hok i hi, hole_inst_iff hok _ i hi]
    exact ⟨fun h => h.2, fun h => ⟨hsz, h⟩⟩
  · constructor
    · rintro ⟨_, h⟩
      rcases hk with hk | hk | hk | hk <;> rw [hk] at h
      · rw [hcl.input] at h; cases h
      · rw [hcl.c0] at h; cases h
      · rw [hcl.c1] at h; cases h
      · rw [hcl.fork] at h; cases h
    · intro h; exact absurd h (hnh _)

end KV.Netlist
