import KyupyVerif.Model.WaveCirc
import KyupyVerif.Model.Prim
import KyupyVerif.Proofs.WaveWf
/-! Gate-level waveform theorems chained through every op program. -/
namespace KV.Wave
open KV KV.Sig

def Wv.ok (w : Wv) : Prop := WfRem w.ents ∧ w.term.isTerm = true

theorem Wv.empty_ok : Wv.empty.ok := ⟨⟨by simp [Wv.empty], by simp [Wv.empty]⟩, rfl⟩

theorem lutBit_eq (lut : Nat) (v : Fin 4 → Bool) : lutBit lut v = lutBit4 lut (v 0) (v 1) (v 2) (v 3) := rfl

/-- configuration hypotheses of C03: non-negative delays, capacities of at least 4 -/
structure WCfg.Good (cfg : WCfg) (ops : List Op) : Prop where
  delay_nonneg : ∀ l p q, 0 ≤ cfg.delay l p q
  cap_ge : ∀ op ∈ ops, 4 ≤ cfg.cap op.out

def envOf (cfg : WCfg) (op : Op) (xs : List Wv) (hd : ∀ l p q, 0 ≤ cfg.delay l p q) (hc : 4 ≤ cfg.cap op.out)
    (hx : ∀ i, (slot xs i).ok) : Env :=
  { lut := op.code, D := opDelays cfg op, terms := fun i => (slot xs i).term, zcap := cfg.cap op.out,
    hcap := hc, hD := fun i p q => hd _ p q, hterm := fun i => (hx i).2 }

theorem T.max_isTerm {a b : T} (ha : a.isTerm = true) (hb : b.isTerm = true) : (T.max a b).isTerm = true := by
  unfold T.max; split <;> assumption

theorem slot_ok {xs : List Wv} (h : ∀ x ∈ xs, x.ok) (i : Fin 4) : (slot xs i).ok := by
  unfold slot
  rw [List.getD_eq_getElem?_getD]
  cases hx : xs[i.val]? with
  | none => exact Wv.empty_ok
  | some x => exact h x (List.mem_of_getElem? hx)

/-- the waveform a gate produces is a legal operand again -/
theorem waveSem_ok (cfg : WCfg) (op : Op) (xs : List Wv) (hd : ∀ l p q, 0 ≤ cfg.delay l p q)
    (hc : 4 ≤ cfg.cap op.out) (hx : ∀ x ∈ xs, x.ok) : (waveSem cfg op xs).ok := by
  have hs := slot_ok hx
  let E := envOf cfg op xs hd hc hs
  have hwf : ∀ i, WfRem ((fun i => (slot xs i).ents) i) := fun i => (hs i).1
  refine ⟨?_, ?_⟩
  · exact wave_gate_wf E _ hwf
  · show (waveEval op.code _ _ _ _).2.1.isTerm = true
    unfold waveEval
    simp only []
    split
    · rfl
    · -- at loop exit every operand is exhausted, so every pending time is its terminator
      have hdone := run_done E (totalLen fun i => (slot xs i).ents) (init E.lut fun i => (slot xs i).ents)
        (by rw [total_init]; exact Nat.le_refl _)
      have h3 := run_inv3 E (fun i => (slot xs i).ents) (totalLen fun i => (slot xs i).ents)
        (init E.lut fun i => (slot xs i).ents) (by intro i; simp [init]) (by intro i; simp [init])
      have hwf' : ∀ i, ∀ e ∈ (run E.lut E.D E.terms E.zcap (totalLen fun i => (slot xs i).ents)
          (init E.lut fun i => (slot xs i).ents)).r i, e = T.tmin ∨ e.isFin = true := by
        intro i e he
        rw [(h3.1 i).1] at he
        exact (hwf i).2 e (List.mem_of_mem_drop he)
      have hempty := empty_of_done E _ hwf' hdone
      have hp : ∀ i, (pend E.D E.terms (run E.lut E.D E.terms E.zcap (totalLen fun i => (slot xs i).ents)
          (init E.lut fun i => (slot xs i).ents)) i).isTerm = true := by
        intro i
        unfold pend
        rw [hempty i]
        simp only [headT, T.add_isTerm]
        exact (hs i).2
      exact T.max_isTerm (T.max_isTerm (hp 0) (hp 1)) (T.max_isTerm (hp 2) (hp 3))

theorem head_reverse_tmin (z : List T) : (z.reverse.head? == some T.tmin) = bot z := by
  unfold bot; rw [List.head?_reverse]

/-- gate level, in waveform terms: initial and final value of the produced waveform -/
theorem waveSem_init_final (cfg : WCfg) (op : Op) (xs : List Wv) (hd : ∀ l p q, 0 ≤ cfg.delay l p q)
    (hc : 4 ≤ cfg.cap op.out) (hx : ∀ x ∈ xs, x.ok) :
    (waveSem cfg op xs).init = lutBit4 op.code (slot xs 0).init (slot xs 1).init (slot xs 2).init (slot xs 3).init ∧
    (waveSem cfg op xs).final = lutBit4 op.code (slot xs 0).final (slot xs 1).final (slot xs 2).final (slot xs 3).final := by
  have hs := slot_ok hx
  let E := envOf cfg op xs hd hc hs
  have hwf : ∀ i, WfRem ((fun i => (slot xs i).ents) i) := fun i => (hs i).1
  constructor
  · have := wave_gate_init E _ hwf
    show ((waveEval op.code _ _ _ _).1.head? == some T.tmin) = _
    unfold waveEval; simp only []
    rw [head_reverse_tmin]
    exact this
  · have := wave_gate_final E _ hwf
    show ((waveEval op.code _ _ _ _).1.length % 2 == 1) = _
    unfold waveEval; simp only [List.length_reverse]
    exact this

end KV.Wave
