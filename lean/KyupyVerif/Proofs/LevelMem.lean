import KyupyVerif.Proofs.WaveIOOrder
import KyupyVerif.Proofs.MapSound
import KyupyVerif.Model.LevelMem
import KyupyVerif.Proofs.MemMapSpec
/-! A level under an ARBITRARY thread order, on the REAL kind of table: several rows of one level may write the scratch slot
(`tmp_idx`: every gate with an unconnected output, sim.py:198), so the threads of a level do NOT commute on the scratch
regions — but they do everywhere else, and the accumulators agree.

* `foldl_perm_rel`: a fold over a permuted list gives RELATED results when the steps respect the relation and commute up to it;
* `cpuBody_congJ` / `cpuBody_commJ`: the loop body of `level_eval_cpu` respects / commutes up to "equal accumulators, equal
  memory outside `J`" under per-row footprints (`OpLocal`);
* `level_any_order_modJ`: every permutation of the (sim, op) work items of a level vs `level_eval_cpu`;
* `evWave_opLocal`: the footprint of the waveform evaluator (reads: operand regions; writes: output region; the counts depend
  on the operand regions only);
* `levelsIndepB_of_check`: the Boolean conditions of `Model/LevelMem.lean` FOLLOW from the map certificate `MapIn.check = none`
  (C08) — for every table, in particular the real ones. -/
namespace KV.WaveIO
open KV.Wave KV.Grid

/-! ### folds over permuted lists, up to a relation -/
theorem foldl_rel_cong {σ β} (R : σ → σ → Prop) (f : σ → β → σ) (l : List β)
    (cong : ∀ b ∈ l, ∀ s s', R s s' → R (f s b) (f s' b)) (s s' : σ) (h : R s s') :
    R (l.foldl f s) (l.foldl f s') := by
  induction l generalizing s s' with
  | nil => exact h
  | cons x r ih =>
    simp only [List.foldl_cons]
    exact ih (fun b hb => cong b (List.mem_cons_of_mem _ hb)) _ _ (cong x List.mem_cons_self s s' h)

theorem foldl_perm_rel {σ β} (R : σ → σ → Prop) (hrefl : ∀ s, R s s) (htrans : ∀ a b c, R a b → R b c → R a c)
    (f : σ → β → σ) {l l' : List β} (hp : l.Perm l')
    (cong : ∀ b ∈ l, ∀ s s', R s s' → R (f s b) (f s' b))
    (comm : ∀ a ∈ l, ∀ b ∈ l, ∀ s, R (f (f s a) b) (f (f s b) a)) (s s' : σ) (h : R s s') :
    R (l.foldl f s) (l'.foldl f s') := by
  induction hp generalizing s s' with
  | nil => exact h
  | cons x _ ih =>
    simp only [List.foldl_cons]
    exact ih (fun b hb => cong b (List.mem_cons_of_mem _ hb))
      (fun a ha b hb => comm a (List.mem_cons_of_mem _ ha) b (List.mem_cons_of_mem _ hb)) _ _
      (cong x List.mem_cons_self s s' h)
  | swap x y l =>
    simp only [List.foldl_cons]
    apply foldl_rel_cong R f l (fun b hb => cong b (by simp [hb]))
    refine htrans _ _ _ (comm y (by simp) x (by simp) s) ?_
    exact cong y (by simp) _ _ (cong x (by simp) _ _ h)
  | trans h1 _ ih1 ih2 =>
    refine htrans _ _ _ (ih1 cong comm s s' h) ?_
    exact ih2 (fun b hb => cong b (h1.mem_iff.mpr hb))
      (fun a ha b hb => comm a (h1.mem_iff.mpr ha) b (h1.mem_iff.mpr hb)) s' s' (hrefl s')

/-! ### footprints of one row; equality of lane states outside a set of addresses -/
/-- footprint of the evaluation of row `o`: only cells of `wr` change; when the cells of `rd` (the operands) agree in two
    memories, the returned counts agree and every cell that held the same value in both holds the same value afterwards -/
structure OpLocal (ev : Ev) (rd wr : Int → Prop) (o : OpRow) : Prop where
  frame : ∀ sim c a, ¬ wr a → (ev o sim c).1 a = c a
  dep : ∀ sim c c', (∀ a, rd a → c a = c' a) →
    (∀ a, c a = c' a → (ev o sim c).1 a = (ev o sim c').1 a) ∧ (ev o sim c).2 = (ev o sim c').2

/-- two lane states agree on the accumulators and on every memory cell outside `J` -/
def EqJ (J : Int → Prop) (st st' : LaneSt) : Prop := st.ab = st'.ab ∧ ∀ a, ¬ J a → st.c a = st'.c a

theorem EqJ.refl (J : Int → Prop) (st : LaneSt) : EqJ J st st := ⟨rfl, fun _ _ => rfl⟩
theorem EqJ.trans {J : Int → Prop} {a b c : LaneSt} (h1 : EqJ J a b) (h2 : EqJ J b c) : EqJ J a c :=
  ⟨h1.1.trans h2.1, fun x hx => (h1.2 x hx).trans (h2.2 x hx)⟩

/-- the loop body respects `EqJ` when the row reads nothing inside `J` -/
theorem cpuBody_congJ (ev : Ev) (J rd wr : Int → Prop) (o : AOp) (h : OpLocal ev rd wr o.op) (hrd : ∀ a, rd a → ¬ J a)
    (sim : Nat) (st st' : LaneSt) (e : EqJ J st st') : EqJ J (cpuBody ev o sim st) (cpuBody ev o sim st') := by
  obtain ⟨d1, d2⟩ := h.dep sim st.c st'.c (fun a ha => e.2 a (hrd a ha))
  constructor
  · show accAdd o (ev o.op sim st.c).2.1 (ev o.op sim st.c).2.2 st.ab =
      accAdd o (ev o.op sim st'.c).2.1 (ev o.op sim st'.c).2.2 st'.ab
    rw [d2, e.1]
  · intro a ha
    exact d1 a (e.2 a ha)

/-- two loop bodies on one lane commute up to `EqJ` when neither row writes what the other reads and their write sets meet
    inside `J` only -/
theorem cpuBody_commJ (ev : Ev) (J rda wra rdb wrb : Int → Prop) (a b : AOp) (ha : OpLocal ev rda wra a.op)
    (hb : OpLocal ev rdb wrb b.op) (h1 : ∀ x, wra x → ¬ rdb x) (h2 : ∀ x, wrb x → ¬ rda x)
    (h3 : ∀ x, wra x → wrb x → J x) (sim : Nat) (st : LaneSt) :
    EqJ J (cpuBody ev b sim (cpuBody ev a sim st)) (cpuBody ev a sim (cpuBody ev b sim st)) := by
  have ra : ∀ x, rda x → (ev b.op sim st.c).1 x = st.c x := fun x hx => hb.frame sim st.c x (fun hw => h2 x hw hx)
  have rb : ∀ x, rdb x → (ev a.op sim st.c).1 x = st.c x := fun x hx => ha.frame sim st.c x (fun hw => h1 x hw hx)
  obtain ⟨da, ca⟩ := ha.dep sim (ev b.op sim st.c).1 st.c ra
  obtain ⟨db, cb⟩ := hb.dep sim (ev a.op sim st.c).1 st.c rb
  constructor
  · show accAdd b (ev b.op sim (ev a.op sim st.c).1).2.1 (ev b.op sim (ev a.op sim st.c).1).2.2
        (accAdd a (ev a.op sim st.c).2.1 (ev a.op sim st.c).2.2 st.ab) =
      accAdd a (ev a.op sim (ev b.op sim st.c).1).2.1 (ev a.op sim (ev b.op sim st.c).1).2.2
        (accAdd b (ev b.op sim st.c).2.1 (ev b.op sim st.c).2.2 st.ab)
    rw [ca, cb]
    exact accAdd_comm b a _ _ _ _ st.ab
  · intro x hx
    show (ev b.op sim (ev a.op sim st.c).1).1 x = (ev a.op sim (ev b.op sim st.c).1).1 x
    by_cases hwa : wra x
    · have hwb : ¬ wrb x := fun h => hx (h3 x hwa h)
      rw [hb.frame sim _ x hwb]
      exact (da x (hb.frame sim st.c x hwb)).symm
    · rw [ha.frame sim _ x hwa]
      exact db x (ha.frame sim st.c x hwa)

/-- **a level under an arbitrary thread order, modulo `J`.** Rows `y < op_stop - op_start` of the level with footprints
    `rd`/`wr`: no row reads inside `J`; of two different rows neither writes what the other reads, and their write sets meet
    inside `J` only. Then every permutation of the work items `(sim, op)` leaves, on every lane, the same accumulators and the
    same memory outside `J` as `level_eval_cpu`. -/
theorem level_any_order_modJ (ev : Ev) (J : Int → Prop) (rd wr : OpRow → Int → Prop) (ops : List AOp)
    (opStart opStop sims : Nat)
    (hloc : ∀ y, y < opStop - opStart →
      OpLocal ev (rd (ops.getD (opStart + y) default).op) (wr (ops.getD (opStart + y) default).op) (ops.getD (opStart + y) default).op)
    (hrd : ∀ y, y < opStop - opStart → ∀ x, rd (ops.getD (opStart + y) default).op x → ¬ J x)
    (hind : ∀ y y', y < opStop - opStart → y' < opStop - opStart → y ≠ y' →
      (∀ x, wr (ops.getD (opStart + y) default).op x → ¬ rd (ops.getD (opStart + y') default).op x) ∧
      (∀ x, wr (ops.getD (opStart + y) default).op x → wr (ops.getD (opStart + y') default).op x → J x))
    (l : List (Nat × Nat)) (hl : l.Perm (cpuLoop sims (opStop - opStart))) (S : Nat → LaneSt) (k : Nat) :
    EqJ J (runLanes (evalWork ev ops opStart) l S k) (cpuLevel ev ops opStart opStop 0 sims S k) := by
  rw [cpuLevel_eq_runLanes]
  unfold runLanes
  refine foldl_perm_rel (fun S S' : Nat → LaneSt => ∀ k, EqJ J (S k) (S' k)) (fun S k => EqJ.refl J (S k))
    (fun A B C h1 h2 k => (h1 k).trans (h2 k)) _ hl ?_ ?_ S S (fun k => EqJ.refl J (S k)) k
  · intro p hp S S' h i
    have hp' := mem_cpuLoop.mp (hl.mem_iff.mp hp)
    unfold onLane
    by_cases hi : i = p.1
    · simp only [hi, if_true]
      exact cpuBody_congJ ev J _ _ _ (hloc p.2 hp'.2) (hrd p.2 hp'.2) p.1 _ _ (h p.1)
    · simp only [hi, if_false]
      exact h i
  · intro p hp q hq S i
    have hp' := mem_cpuLoop.mp (hl.mem_iff.mp hp)
    have hq' := mem_cpuLoop.mp (hl.mem_iff.mp hq)
    obtain ⟨p1, p2⟩ := p
    obtain ⟨q1, q2⟩ := q
    by_cases hpq : p1 = q1
    · subst hpq
      by_cases hy : p2 = q2
      · subst hy; exact EqJ.refl J _
      · unfold onLane
        by_cases hi : i = p1
        · simp only [hi, if_true]
          obtain ⟨a1, a2⟩ := hind p2 q2 hp'.2 hq'.2 hy
          obtain ⟨b1, _⟩ := hind q2 p2 hq'.2 hp'.2 (fun e => hy e.symm)
          exact cpuBody_commJ ev J _ _ _ _ _ _ (hloc p2 hp'.2) (hloc q2 hq'.2) a1 b1 a2 p1 (S p1)
        · simp only [hi, if_false]
          exact EqJ.refl J _
    · rw [onLane_comm S p1 q1 _ _ hpq]
      exact EqJ.refl J _

/-! ### the footprint of `evWave`, row by row -/
/-- `evWave` with one configuration for all lanes, on a row whose output capacity is ≥ 2: it changes only the region of the
    output index; what it stores and the counts it returns depend on the operand regions only (cells of the output region
    behind the stored waveform keep their content) -/
theorem evWave_opLocal (g : WCfg) (loc : Nat → Int) (o : OpRow) (hcap : 2 ≤ g.cap o.out) :
    OpLocal (evWave (fun _ => g) loc) (fun a => ∃ i ∈ o.ins, inRegion loc g.cap i a) (fun a => inRegion loc g.cap o.out a) o := by
  constructor
  · intro sim c a ha
    have hlen := waveSem_len g ⟨o.lut, o.out, o.ins⟩ (o.ins.map fun i => readWave (rdCells c (loc i) (g.cap i))) hcap
    show wrWave c (loc o.out) (waveSem g ⟨o.lut, o.out, o.ins⟩ (o.ins.map fun i => readWave (rdCells c (loc i) (g.cap i)))) a = c a
    generalize waveSem g ⟨o.lut, o.out, o.ins⟩ (o.ins.map fun i => readWave (rdCells c (loc i) (g.cap i))) = w at hlen
    have hlen' : w.ents.length < g.cap o.out := hlen
    apply wrWave_frame
    intro h
    apply ha
    exact ⟨h.1, by have := h.2; omega⟩
  · intro sim c c' h
    have hxs : (o.ins.map fun i => readWave (rdCells c (loc i) (g.cap i))) =
        (o.ins.map fun i => readWave (rdCells c' (loc i) (g.cap i))) := by
      apply List.map_congr_left
      intro i hi
      rw [rdCells_congr c c' (loc i) (g.cap i) (fun a h1 h2 => h a ⟨i, hi, h1, h2⟩)]
    constructor
    · intro a ha
      show wrWave c (loc o.out) _ a = wrWave c' (loc o.out) _ a
      rw [hxs]
      generalize waveSem g ⟨o.lut, o.out, o.ins⟩ (o.ins.map fun i => readWave (rdCells c' (loc i) (g.cap i))) = w
      by_cases hw : loc o.out ≤ a ∧ a < loc o.out + ((w.ents.length + 1 : Nat) : Int)
      · unfold wrWave
        have : ∀ (l : List T) (c c' : Col) (lo : Int), lo ≤ a → a < lo + (l.length : Int) →
            writeCells c lo l a = writeCells c' lo l a := by
          intro l
          induction l with
          | nil => intro c c' lo h1 h2; simp at h2; omega
          | cons t r ih =>
            intro c c' lo h1 h2
            simp only [writeCells]
            by_cases ha0 : a = lo
            · rw [writeCells_frame _ _ _ _ (by omega), writeCells_frame _ _ _ _ (by omega)]
              simp [updI, ha0]
            · apply ih
              · omega
              · simp only [List.length_cons] at h2; omega
        apply this
        · exact hw.1
        · have := hw.2
          simpa using this
      · rw [wrWave_frame c _ w a hw, wrWave_frame c' _ w a hw]
        exact ha
    · show ((waveCounts g _ _).1, (waveCounts g _ _).2) = ((waveCounts g _ _).1, (waveCounts g _ _).2)
      rw [hxs]

/-! ### the Boolean conditions, soundness -/
/-- the addresses of the two scratch regions -/
def scrAddr (loc : Nat → Int) (cap : Nat → Nat) (t1 t2 : Nat) (x : Int) : Prop :=
  inRegion loc cap t1 x ∨ inRegion loc cap t2 x

theorem isScr_addr {loc : Nat → Int} {cap : Nat → Nat} {t1 t2 i : Nat} (h : isScr t1 t2 i = true) (x : Int)
    (hx : inRegion loc cap i x) : scrAddr loc cap t1 t2 x := by
  simp only [isScr, Bool.or_eq_true, beq_iff_eq] at h
  rcases h with rfl | rfl
  · exact .inl hx
  · exact .inr hx

theorem rowScrFreeB_sound {loc : Nat → Int} {cap : Nat → Nat} {t1 t2 : Nat} {o : OpRow}
    (h : rowScrFreeB loc cap t1 t2 o = true) (x : Int) (hx : ∃ i ∈ o.ins, inRegion loc cap i x) :
    ¬ scrAddr loc cap t1 t2 x := by
  obtain ⟨i, hi, hx⟩ := hx
  simp only [rowScrFreeB, List.all_eq_true, Bool.and_eq_true] at h
  rintro (h' | h')
  · exact disjointB_sound (h i hi).1 x hx h'
  · exact disjointB_sound (h i hi).2 x hx h'

theorem rowAwayB_sound {loc : Nat → Int} {cap : Nat → Nat} {t1 t2 : Nat} {a b : OpRow}
    (h : rowAwayB loc cap t1 t2 a b = true) (hb : rowScrFreeB loc cap t1 t2 b = true) :
    (∀ x, inRegion loc cap a.out x → ¬ ∃ i ∈ b.ins, inRegion loc cap i x) ∧
    (∀ x, inRegion loc cap a.out x → inRegion loc cap b.out x → scrAddr loc cap t1 t2 x) := by
  simp only [rowAwayB, Bool.or_eq_true, Bool.and_eq_true, List.all_eq_true] at h
  rcases h with hs | ⟨h1, h2⟩
  · exact ⟨fun x hx hr => rowScrFreeB_sound hb x hr (isScr_addr hs x hx), fun x hx _ => isScr_addr hs x hx⟩
  · refine ⟨?_, ?_⟩
    · rintro x hx ⟨i, hi, hr⟩
      exact disjointB_sound (h1 i hi) x hx hr
    · intro x hx hbx
      rcases h2 with hs | hd
      · exact isScr_addr hs x hbx
      · exact absurd hbx (disjointB_sound hd x hx)

/-- **a level under an arbitrary thread order, waveform evaluator, modulo the scratch slots** `t1`, `t2`: rows with output
    capacity ≥ 2 that read no scratch memory (`rowScrFreeB`) and are pairwise independent modulo scratch (`pairIndepJB`) -/
theorem level_any_order_wave_modscratch (g : WCfg) (loc : Nat → Int) (t1 t2 : Nat) (ops : List AOp) (opStart opStop sims : Nat)
    (hcap : ∀ y, y < opStop - opStart → 2 ≤ g.cap (ops.getD (opStart + y) default).op.out)
    (hscr : ∀ y, y < opStop - opStart → rowScrFreeB loc g.cap t1 t2 (ops.getD (opStart + y) default).op = true)
    (hind : ∀ y y', y < opStop - opStart → y' < opStop - opStart → y ≠ y' →
      pairIndepJB loc g.cap t1 t2 (ops.getD (opStart + y) default).op (ops.getD (opStart + y') default).op = true)
    (l : List (Nat × Nat)) (hl : l.Perm (cpuLoop sims (opStop - opStart))) (S : Nat → LaneSt) (k : Nat) :
    EqJ (scrAddr loc g.cap t1 t2) (runLanes (evalWork (evWave (fun _ => g) loc) ops opStart) l S k)
      (cpuLevel (evWave (fun _ => g) loc) ops opStart opStop 0 sims S k) := by
  refine level_any_order_modJ (evWave (fun _ => g) loc) (scrAddr loc g.cap t1 t2)
    (fun o a => ∃ i ∈ o.ins, inRegion loc g.cap i a) (fun o a => inRegion loc g.cap o.out a) ops opStart opStop sims
    ?_ ?_ ?_ l hl S k
  · intro y hy
    exact evWave_opLocal g loc _ (hcap y hy)
  · intro y hy x hx
    exact rowScrFreeB_sound (hscr y hy) x hx
  · intro y y' hy hy' hne
    have h := hind y y' hy hy' hne
    simp only [pairIndepJB, Bool.and_eq_true] at h
    exact rowAwayB_sound h.1 (hscr y' hy')

end KV.WaveIO

/-! ### the conditions follow from the map certificate -/
namespace KV.MapSound
open KV KV.MapIn KV.WaveIO

theorem overlap_false_iff (p : MapIn) (x y : Nat) : p.overlap x y = false ↔ disjointB p.loc p.cap x y = true := by
  simp only [overlap, disjointB, Bool.and_eq_false_iff, Bool.or_eq_true, decide_eq_true_eq, decide_eq_false_iff_not]
  omega

theorem disjointB_alias {loc : Nat → Int} {cap : Nat → Nat} {i i' : Nat} (j : Nat) (h1 : loc i = loc i') (h2 : cap i = cap i') :
    disjointB loc cap i j = disjointB loc cap i' j := by
  unfold disjointB; rw [h1, h2]

theorem disjointB_comm (loc : Nat → Int) (cap : Nat → Nat) (i j : Nat) : disjointB loc cap i j = disjointB loc cap j i := by
  unfold disjointB; exact Bool.or_comm _ _

/-- no row reads scratch memory -/
theorem rowScrFree_of_good {p : MapIn} (hg : Good p) {k : Nat} {o : OpRow} (hk : p.ops[k]? = some o) :
    rowScrFreeB p.loc p.cap p.ix.tmp p.ix.tmp2 o = true := by
  simp only [rowScrFreeB, List.all_eq_true, Bool.and_eq_true]
  intro i hi
  obtain ⟨hal, hac⟩ := hg.alias k o hk i hi
  obtain ⟨htr, _⟩ := hg.opnd k o hk i hi
  obtain ⟨j1, j2⟩ := hg.junkSep _ htr
  rw [disjointB_alias _ hal hac, disjointB_alias _ hal hac]
  exact ⟨(overlap_false_iff p _ _).mp j1, (overlap_false_iff p _ _).mp j2⟩

/-- a row that writes a signal does not touch what another row of ITS level reads or (unless that row writes scratch) writes -/
theorem rowAway_of_good {p : MapIn} (hg : Good p) {k1 k2 : Nat} {a b : OpRow} (h1 : p.ops[k1]? = some a)
    (h2 : p.ops[k2]? = some b) (hne : k1 ≠ k2) (hl : p.levelOf k1 = p.levelOf k2) :
    rowAwayB p.loc p.cap p.ix.tmp p.ix.tmp2 a b = true := by
  by_cases hja : p.isJunk a.out = true
  · simp only [rowAwayB, Bool.or_eq_true]
    exact .inl hja
  · have hja : p.isJunk a.out = false := by simpa using hja
    have hx := mem_tracked_of_out p h1 hja
    have hdx := dfn_first hg h1 hja
    have hlx := last_ge_dfn p a.out
    simp only [rowAwayB, Bool.or_eq_true, Bool.and_eq_true, List.all_eq_true]
    refine .inr ⟨?_, ?_⟩
    · intro i hi
      obtain ⟨hal, hac⟩ := hg.alias k2 b h2 i hi
      obtain ⟨htr, hlt⟩ := hg.opnd k2 b h2 i hi
      have hly := last_ge_use p h2 (List.mem_map.2 ⟨i, hi, rfl⟩)
      rw [disjointB_comm, disjointB_alias _ hal hac, disjointB_comm]
      apply (overlap_false_iff p _ _).mp
      rcases hg.sep a.out hx (p.src i) htr with e | e | e | e
      · rw [← e] at hlt; omega
      · exact e
      · omega
      · omega
    · by_cases hjb : p.isJunk b.out = true
      · exact .inl hjb
      · have hjb : p.isJunk b.out = false := by simpa using hjb
        right
        have hy := mem_tracked_of_out p h2 hjb
        have hdy := dfn_first hg h2 hjb
        have hly := last_ge_dfn p b.out
        apply (overlap_false_iff p _ _).mp
        rcases hg.sep a.out hx b.out hy with e | e | e | e
        · exact absurd (writer_unique hg h1 h2 hja e) hne
        · exact e
        · omega
        · omega

/-- **the level conditions are a consequence of the map certificate** (`MapIn.levelsIndepB`, the Boolean the driver
    command `opsindep` evaluates on the real tables): no row reads scratch memory; two different rows of one level are
    footprint-independent modulo the scratch slots -/
theorem levelsIndepB_of_good {p : MapIn} (hg : Good p) : p.levelsIndepB = true := by
  simp only [levelsIndepB, List.all_eq_true, Bool.and_eq_true, Bool.or_eq_true, beq_iff_eq, bne_iff_ne, opsIdx]
  rintro ⟨a, k1⟩ h1
  have h1' := List.mem_zipIdx_iff_getElem?.1 h1
  refine ⟨rowScrFree_of_good hg h1', ?_⟩
  rintro ⟨b, k2⟩ h2
  have h2' := List.mem_zipIdx_iff_getElem?.1 h2
  by_cases hk : k1 = k2
  · exact .inl (.inl hk)
  · by_cases hl : p.levelOf k1 = p.levelOf k2
    · right
      simp only [pairIndepJB, Bool.and_eq_true]
      exact ⟨rowAway_of_good hg h1' h2' hk hl, rowAway_of_good hg h2' h1' (fun e => hk e.symm) hl.symm⟩
    · exact .inl (.inr hl)

theorem levelsIndepB_of_check (p : MapIn) (hc : p.check = none) : p.levelsIndepB = true :=
  levelsIndepB_of_good (good_of_check p hc)

/-- the certificate also bounds the capacities of the two scratch slots from below -/
theorem scratch_caps_of_check (p : MapIn) (h : p.check = none) :
    p.capsMin ≤ p.cap p.ix.tmp ∧ p.capsMin ≤ p.cap p.ix.tmp2 := by
  unfold check checkW at h
  dsimp only at h
  obtain ⟨h1, _⟩ := ite_none h
  rw [Bool.not_eq_false', Bool.and_eq_true] at h1
  have h2 := h1.2
  simp only [List.all_cons, List.all_nil, Bool.and_true, Bool.and_eq_true, inBounds, decide_eq_true_eq] at h2
  exact ⟨h2.1.2, h2.2.2⟩

/-- every row's output capacity is at least `c_caps_min` -/
theorem out_cap_of_check (p : MapIn) (h : p.check = none) {k : Nat} {o : OpRow} (hk : p.ops[k]? = some o) :
    p.capsMin ≤ p.cap o.out := by
  have hg := good_of_check p h
  by_cases hj : p.isJunk o.out = true
  · simp only [isJunk, Bool.or_eq_true, beq_iff_eq] at hj
    rcases hj with e | e <;> rw [e]
    · exact (scratch_caps_of_check p h).1
    · exact (scratch_caps_of_check p h).2
  · exact hg.inb _ (mem_tracked_of_out p hk (by simpa using hj))

/-- the rows between two neighbouring entries of `level_starts` lie in one level -/
theorem oneLevelB_of_gap (p : MapIn) (a b : Nat) (h : ∀ t ∈ p.starts, t ≤ a ∨ b ≤ t) : p.oneLevelB a b = true := by
  simp only [oneLevelB, List.all_eq_true, List.mem_range, beq_iff_eq]
  intro y hy
  unfold levelOf
  congr 1
  apply List.filter_congr
  intro t ht
  rcases h t ht with h' | h'
  · have e1 : t ≤ a + y := by omega
    simp [h', e1]
  · have e1 : ¬ t ≤ a + y := by omega
    have e2 : ¬ t ≤ a := by omega
    simp [e1, e2]

theorem getD_op_of_map {ops : List AOp} {rows : List OpRow} (h : ops.map (·.op) = rows) {i : Nat} (hi : i < rows.length) :
    rows[i]? = some (ops.getD i default).op := by
  subst h
  rw [List.length_map] at hi
  rw [List.getElem?_map, List.getD_eq_getElem?_getD, List.getElem?_eq_getElem hi]
  rfl

/-- for a well-formed `level_starts` (begins with 0, strictly increasing, inside the program) every level
    `(level_starts[i], level_stops[i])` is one level of the table and ends inside the program -/
theorem oneLevel_of_startsOK (p : MapIn) (h : StartsOK p.starts p.ops.length) (i : Nat) (hi : i < p.starts.length) :
    p.oneLevelB (p.starts[i]) (p.starts.getD (i + 1) p.ops.length) = true ∧
    p.starts.getD (i + 1) p.ops.length ≤ p.ops.length := by
  obtain ⟨_, hpw, hle⟩ := h
  have hmono := List.pairwise_iff_getElem.mp hpw
  constructor
  · apply oneLevelB_of_gap
    intro t ht
    obtain ⟨j, hj, rfl⟩ := List.getElem_of_mem ht
    by_cases hji : j ≤ i
    · left
      rcases Nat.lt_or_eq_of_le hji with h' | h'
      · exact Nat.le_of_lt (hmono j i hj hi h')
      · subst h'; exact Nat.le_refl _
    · right
      have h1 : i + 1 < p.starts.length := by omega
      rw [List.getD_eq_getElem?_getD, List.getElem?_eq_getElem h1, Option.getD_some]
      rcases Nat.lt_or_eq_of_le (show i + 1 ≤ j by omega) with h' | h'
      · exact Nat.le_of_lt (hmono (i + 1) j h1 hj h')
      · subst h'; exact Nat.le_refl _
  · rw [List.getD_eq_getElem?_getD]
    by_cases h1 : i + 1 < p.starts.length
    · rw [List.getElem?_eq_getElem h1, Option.getD_some]
      exact hle _ (List.getElem_mem h1)
    · rw [List.getElem?_eq_none (by omega), Option.getD_none]
      exact Nat.le_refl _

/-- **a level of an ACCEPTED table under an arbitrary thread order** (see `C07.level_threads_any_order`) -/
theorem level_any_order_of_check (p : MapIn) (hc : p.check = none) (hmin : 2 ≤ p.capsMin)
    (delay : Nat → Bool → Bool → Int) (ops : List AOp) (hops : ops.map (·.op) = p.ops)
    (opStart opStop sims : Nat) (hstop : opStop ≤ p.ops.length) (hlev : p.oneLevelB opStart opStop = true)
    (l : List (Nat × Nat)) (hl : l.Perm (Grid.cpuLoop sims (opStop - opStart))) (S : Nat → LaneSt) (k : Nat) :
    EqJ (scrAddr p.loc p.cap p.ix.tmp p.ix.tmp2)
      (Grid.runLanes (evalWork (evWave (fun _ => ⟨delay, p.cap⟩) p.loc) ops opStart) l S k)
      (cpuLevel (evWave (fun _ => ⟨delay, p.cap⟩) p.loc) ops opStart opStop 0 sims S k) := by
  have hg := good_of_check p hc
  have hrow : ∀ y, y < opStop - opStart → p.ops[opStart + y]? = some (ops.getD (opStart + y) default).op :=
    fun y hy => getD_op_of_map hops (by omega)
  have hl' : ∀ y, y < opStop - opStart → p.levelOf (opStart + y) = p.levelOf opStart := by
    intro y hy
    simp only [oneLevelB, List.all_eq_true, List.mem_range, beq_iff_eq] at hlev
    exact hlev y hy
  refine level_any_order_wave_modscratch ⟨delay, p.cap⟩ p.loc p.ix.tmp p.ix.tmp2 ops opStart opStop sims ?_ ?_ ?_ l hl S k
  · intro y hy
    have := out_cap_of_check p hc (hrow y hy)
    show 2 ≤ p.cap _
    omega
  · intro y hy
    exact rowScrFree_of_good hg (hrow y hy)
  · intro y y' hy hy' hne
    have e : p.levelOf (opStart + y) = p.levelOf (opStart + y') := (hl' y hy).trans (hl' y' hy').symm
    simp only [pairIndepJB, Bool.and_eq_true]
    exact ⟨rowAway_of_good hg (hrow y hy) (hrow y' hy') (by omega) e,
      rowAway_of_good hg (hrow y' hy') (hrow y hy) (by omega) e.symm⟩

end KV.MapSound
