
namespace KV.MemRef

/-! probe: memory-level level-wise execution refines signal-level execution under a liveness-separated map -/
abbrev Mem (C : Type) := Nat → C

structure Op (α : Type) where
  out : Nat
  ins : List Nat
  sem : List α → α

/-- how signal `x` lives in memory -/
structure Layout (α C : Type) where
  reg : Nat → Nat → Prop                 -- reg x a : address a belongs to signal x
  get : Nat → Mem C → α
  put : Nat → α → Mem C → Mem C
  get_put : ∀ x v m, get x (put x v m) = v
  put_frame : ∀ x v m a, ¬ reg x a → put x v m a = m a
  get_dep : ∀ x m m', (∀ a, reg x a → m a = m' a) → get x m = get x m'

variable {α C : Type}

def overlap (L : Layout α C) (x y : Nat) : Prop := ∃ a, L.reg x a ∧ L.reg y a

def sigStep (env : Nat → α) (o : Op α) : Nat → α :=
  fun j => if j = o.out then o.sem (o.ins.map env) else env j

def memStep (L : Layout α C) (m : Mem C) (o : Op α) : Mem C :=
  L.put o.out (o.sem (o.ins.map fun i => L.get i m)) m

/-- certificate: def/lastUse levels and the separation condition -/
structure Cert (L : Layout α C) where
  dfn : Nat → Nat
  last : Nat → Nat
  dfn_le_last : ∀ x, dfn x ≤ last x
  sep : ∀ x y, x ≠ y → overlap L x y → last x < dfn y ∨ last y < dfn x

/-- ops of level k are well-formed w.r.t. the certificate -/
def LevelOK (L : Layout α C) (c : Cert L) (k : Nat) (ops : List (Op α)) : Prop :=
  (∀ o ∈ ops, c.dfn o.out = k ∧ ∀ i ∈ o.ins, c.dfn i < k ∧ k ≤ c.last i) ∧
  (ops.map (·.out)).Nodup

/-- invariant inside level k after executing a prefix whose outputs are `done` -/
def J (L : Layout α C) (c : Cert L) (k : Nat) (done : List Nat) (m : Mem C) (env : Nat → α) : Prop :=
  (∀ x, c.dfn x < k → k ≤ c.last x → L.get x m = env x) ∧
  (∀ x ∈ done, L.get x m = env x)

theorem disjoint_of_live (L : Layout α C) (c : Cert L) {x y : Nat} (hxy : x ≠ y)
    (h1 : ¬ c.last x < c.dfn y) (h2 : ¬ c.last y < c.dfn x) : ∀ a, L.reg y a → ¬ L.reg x a := by
  intro a hy hx
  rcases c.sep x y hxy ⟨a, hx, hy⟩ with h | h
  · exact h1 h
  · exact h2 h

theorem step_J (L : Layout α C) (c : Cert L) (k : Nat) (done : List Nat) (m : Mem C) (env : Nat → α)
    (o : Op α) (hdfn : c.dfn o.out = k) (hins : ∀ i ∈ o.ins, c.dfn i < k ∧ k ≤ c.last i)
    (hdone : ∀ x ∈ done, c.dfn x = k ∧ x ≠ o.out)
    (h : J L c k done m env) :
    J L c k (o.out :: done) (memStep L m o) (sigStep env o) := by
  obtain ⟨hlive, hd⟩ := h
  have hargs : (o.ins.map fun i => L.get i m) = o.ins.map env := by
    apply List.map_congr_left
    intro i hi
    exact hlive i (hins i hi).1 (hins i hi).2
  have hlast_out : k ≤ c.last o.out := hdfn ▸ c.dfn_le_last o.out
  refine ⟨?_, ?_⟩
  · intro x hx1 hx2
    have hne : x ≠ o.out := by intro e; subst e; omega
    have hdisj := disjoint_of_live L c hne (by omega) (by omega)
    have : L.get x (memStep L m o) = L.get x m := by
      apply L.get_dep
      intro a ha
      exact L.put_frame _ _ _ a (fun hy => hdisj a hy ha)
    simp only [sigStep, hne, if_false, this]
    exact hlive x hx1 hx2
  · intro x hx
    rcases List.mem_cons.mp hx with rfl | hx
    · simp [memStep, sigStep, L.get_put, hargs]
    · obtain ⟨hxk, hne⟩ := hdone x hx
      have hlx : k ≤ c.last x := hxk ▸ c.dfn_le_last x
      have hdisj := disjoint_of_live L c hne (by omega) (by omega)
      have : L.get x (memStep L m o) = L.get x m := by
        apply L.get_dep
        intro a ha
        exact L.put_frame _ _ _ a (fun hy => hdisj a hy ha)
      simp only [sigStep, hne, if_false, this]
      exact hd x hx

def runSig (env : Nat → α) (ops : List (Op α)) : Nat → α := ops.foldl sigStep env
def runMem (L : Layout α C) (m : Mem C) (ops : List (Op α)) : Mem C := ops.foldl (memStep L) m

theorem level_J (L : Layout α C) (c : Cert L) (k : Nat) (ops : List (Op α)) :
    ∀ (done : List Nat) (m : Mem C) (env : Nat → α),
    (∀ o ∈ ops, c.dfn o.out = k ∧ ∀ i ∈ o.ins, c.dfn i < k ∧ k ≤ c.last i) →
    (ops.map (·.out)).Nodup → (∀ x ∈ done, c.dfn x = k ∧ x ∉ ops.map (·.out)) →
    J L c k done m env →
    J L c k ((ops.map (·.out)).reverse ++ done) (runMem L m ops) (runSig env ops) := by
  induction ops with
  | nil => intro done m env _ _ _ h; simpa [runMem, runSig] using h
  | cons o rest ih =>
    intro done m env hops hnd hdone h
    simp only [List.map_cons, List.nodup_cons] at hnd
    have ho := hops o (by simp)
    have hstep := step_J L c k done m env o ho.1 ho.2
      (fun x hx => ⟨(hdone x hx).1, fun e => (hdone x hx).2 (by simp [e])⟩) h
    have := ih (o.out :: done) (memStep L m o) (sigStep env o)
      (fun o' ho' => hops o' (List.mem_cons_of_mem _ ho')) hnd.2
      (by
        intro x hx
        rcases List.mem_cons.mp hx with rfl | hx
        · exact ⟨ho.1, hnd.1⟩
        · exact ⟨(hdone x hx).1, fun hm => (hdone x hx).2 (by simp [hm])⟩)
      hstep
    simpa [runMem, runSig, List.reverse_cons, List.append_assoc] using this

/-- invariant between levels -/
def I (L : Layout α C) (c : Cert L) (k : Nat) (m : Mem C) (env : Nat → α) : Prop :=
  ∀ x, c.dfn x < k → k ≤ c.last x → L.get x m = env x

/-- every signal whose `dfn` is k is written by the ops of level k -/
theorem level_I (L : Layout α C) (c : Cert L) (k : Nat) (ops : List (Op α)) (m : Mem C) (env : Nat → α)
    (hops : ∀ o ∈ ops, c.dfn o.out = k ∧ ∀ i ∈ o.ins, c.dfn i < k ∧ k ≤ c.last i)
    (hnd : (ops.map (·.out)).Nodup)
    (hcover : ∀ x, c.dfn x = k → x ∈ ops.map (·.out))
    (h : I L c k m env) : I L c (k + 1) (runMem L m ops) (runSig env ops) := by
  have hJ := level_J L c k ops [] m env hops hnd (by simp) ⟨h, by simp⟩
  intro x hx1 hx2
  rcases Nat.lt_or_ge (c.dfn x) k with hlt | hge
  · exact hJ.1 x hlt (by omega)
  · have : c.dfn x = k := by omega
    exact hJ.2 x (by simpa using hcover x this)

theorem prog_I (L : Layout α C) (c : Cert L) :
    ∀ (levels : List (List (Op α))) (k : Nat) (m : Mem C) (env : Nat → α),
    (∀ j (hj : j < levels.length), let ops := levels[j]
        (∀ o ∈ ops, c.dfn o.out = k + j ∧ ∀ i ∈ o.ins, c.dfn i < k + j ∧ k + j ≤ c.last i) ∧
        (ops.map (·.out)).Nodup ∧ (∀ x, c.dfn x = k + j → x ∈ ops.map (·.out))) →
    I L c k m env →
    I L c (k + levels.length) (levels.foldl (runMem L) m) (levels.foldl runSig env) := by
  intro levels
  induction levels with
  | nil => intro k m env _ h; simpa using h
  | cons ops rest ih =>
    intro k m env hall h
    have h0 := hall 0 (by simp)
    simp only [List.getElem_cons_zero, Nat.add_zero] at h0
    have h1 := level_I L c k ops m env h0.1 h0.2.1 h0.2.2 h
    have := ih (k + 1) (runMem L m ops) (runSig env ops)
      (by
        intro j hj
        have := hall (j + 1) (by simp; omega)
        simp only [List.getElem_cons_succ] at this
        simpa [Nat.add_assoc, Nat.add_comm 1 j] using this)
      h1
    simpa [List.foldl_cons, Nat.add_assoc, Nat.add_comm 1 rest.length] using this

end KV.MemRef
