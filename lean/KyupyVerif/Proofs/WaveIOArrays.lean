import KyupyVerif.Proofs.WaveIOAssign
/-! Whole arrays: `WaveSimCuda.s_to_c` (kernel launch) vs `WaveSim.s_to_c` (three NumPy statements over `pippi_s_locs`), and
`ppo_to_ppi_gpu` vs `WaveSim.s_ppo_to_ppi`. Each path is first characterised without hypotheses (which rows, which cells),
then the two are compared. -/
namespace KV.WaveIO
open KV.Wave KV.Grid

/-! ### the kernel launch of `s_to_c`, lane by lane -/
/-- the work of thread `(x, y)` of `wave_assign_gpu` on lane `x` once the guards `y < s_len`, `x < sims` are passed -/
def assignWork (tb : Tab) (den : Nat) (s : Nat → Nat → SRow) (x y : Nat) (col : Col) : Col :=
  if 0 ≤ tb.ppiLoc y then
    write3 col (tb.ppiLoc y) (gpuCells (gpuFlag den (s x y).ini) (gpuFlag den (s x y).fin) (s x y).time)
  else col

theorem gpuSToC_eq_runLanes (tb : Tab) (den sims bx by_ : Nat) (s : Nat → Nat → SRow) (c : Nat → Col) :
    gpuSToC tb den sims bx by_ s c = runLanes (assignWork tb den s) (kernelThreads sims tb.sLen bx by_) c := by
  unfold gpuSToC runLanes kernelThreads
  rw [← launch_guarded (fun p c => onLane c p.1 (assignWork tb den s p.1 p.2))]
  congr 1
  funext c p
  unfold gpuAssignThread
  by_cases h1 : p.1 < sims <;> by_cases h2 : p.2 < tb.sLen
  · have g1 : ¬ p.2 ≥ tb.sLen := by omega
    have g2 : ¬ p.1 ≥ sims := by omega
    simp only [h1, h2, g1, g2, and_self, if_true, if_false]
    by_cases h3 : tb.ppiLoc p.2 < 0
    · have : ¬ 0 ≤ tb.ppiLoc p.2 := by omega
      simp only [h3, if_true]
      funext j
      unfold onLane assignWork
      simp [this]
    · have : 0 ≤ tb.ppiLoc p.2 := by omega
      simp only [h3, if_false]
      funext j
      unfold onLane assignWork
      simp [this]
  · have g1 : p.2 ≥ tb.sLen := by omega
    simp only [h1, h2, g1, and_false, if_true, if_false]
  · have g2 : p.1 ≥ sims := by omega
    simp only [h1, h2, g2, false_and, if_true, if_false]
    split <;> (try split) <;> rfl
  · have g1 : p.2 ≥ tb.sLen := by omega
    simp only [h1, h2, g1, false_and, if_true, if_false]

/-- **the kernel launch, lane by lane, no hypotheses**: lane `k < sims` gets the three cells of every row `y < s_len` whose
    (P)PI slot has memory, rows in increasing order; other lanes are untouched — for every block shape -/
theorem gpuSToC_lane (tb : Tab) (den sims bx by_ : Nat) (hbx : 0 < bx) (hby : 0 < by_) (s : Nat → Nat → SRow)
    (c : Nat → Col) (k : Nat) :
    gpuSToC tb den sims bx by_ s c k =
      if k < sims then (List.range tb.sLen).foldl (fun col y => assignWork tb den s k y col) (c k) else c k := by
  rw [gpuSToC_eq_runLanes, runLanes_kernel _ _ _ _ _ hbx hby]

/-! ### the three NumPy statements -/
/-- statement `k` over a row list -/
def passL (n : Nat) (loc : Nat → Int) (cell : Nat → Nat → T) (k : Nat) (R : List Nat) (c : Col) : Col :=
  R.foldl (fun c y => updI c (pyIdx n (loc y + k)) (cell k y)) c

theorem cpuPass_eq (tb : Tab) (s : Nat → SRow) (k : Nat) (c : Col) :
    cpuPass tb s k c = passL tb.cLen tb.ppiLoc (fun k y => cpuCell k (cpuFlag (s y).ini) (cpuFlag (s y).fin) (s y).time) k
      (cpuAssignRows tb) c := rfl

theorem pyIdx_nonneg (n : Nat) (i : Int) (h : 0 ≤ i) : pyIdx n i = i := by
  unfold pyIdx; split
  · omega
  · rfl

theorem passL_updI_comm (n : Nat) (loc : Nat → Int) (cell : Nat → Nat → T) (k : Nat) (R : List Nat) (c : Col) (a : Int) (v : T)
    (hpos : ∀ y ∈ R, 0 ≤ loc y) (h : ∀ y ∈ R, loc y + k ≠ a) :
    passL n loc cell k R (updI c a v) = updI (passL n loc cell k R c) a v := by
  induction R generalizing c with
  | nil => rfl
  | cons y R ih =>
    simp only [passL, List.foldl_cons] at ih ⊢
    have hy := hpos y List.mem_cons_self
    rw [pyIdx_nonneg n _ (by omega), updI_comm c a (loc y + k) v _ (Ne.symm (h y List.mem_cons_self))]
    exact ih _ (fun z hz => hpos z (List.mem_cons_of_mem _ hz)) (fun z hz => h z (List.mem_cons_of_mem _ hz))

/-- with pairwise disjoint three-cell regions the three column-wise statements equal the row-wise stores -/
theorem three_passes (n : Nat) (loc : Nat → Int) (cell : Nat → Nat → T) (R : List Nat) (c : Col)
    (hpos : ∀ y ∈ R, 0 ≤ loc y)
    (hdisj : R.Pairwise (fun y y' => loc y + 3 ≤ loc y' ∨ loc y' + 3 ≤ loc y)) :
    passL n loc cell 2 R (passL n loc cell 1 R (passL n loc cell 0 R c)) =
      R.foldl (fun c y => write3 c (loc y) [cell 0 y, cell 1 y, cell 2 y]) c := by
  induction R generalizing c with
  | nil => rfl
  | cons y R ih =>
    have hy := hpos y List.mem_cons_self
    have hposR : ∀ z ∈ R, 0 ≤ loc z := fun z hz => hpos z (List.mem_cons_of_mem _ hz)
    obtain ⟨hyR, hdR⟩ := List.pairwise_cons.mp hdisj
    have step : ∀ (k : Nat) (c : Col), passL n loc cell k (y :: R) c = passL n loc cell k R (updI c (loc y + k) (cell k y)) := by
      intro k c
      simp only [passL, List.foldl_cons]
      rw [pyIdx_nonneg n _ (by omega)]
    rw [step 0, step 1, step 2]
    rw [← passL_updI_comm n loc cell 0 R _ (loc y + ((1 : Nat) : Int)) _ hposR (fun z hz => by have := hyR z hz; omega)]
    rw [← passL_updI_comm n loc cell 1 R _ (loc y + ((2 : Nat) : Int)) _ hposR (fun z hz => by have := hyR z hz; omega)]
    rw [← passL_updI_comm n loc cell 0 R _ (loc y + ((2 : Nat) : Int)) _ hposR (fun z hz => by have := hyR z hz; omega)]
    rw [ih _ hposR hdR]
    simp only [List.foldl_cons]
    congr 1
    have h0 : loc y + ((0 : Nat) : Int) = loc y := by omega
    rw [h0]
    rfl

/-- the row list of the CPU path: the rows with (P)PI memory, increasing -/
theorem cpuAssignRows_eq (tb : Tab) (hio : tb.nIo ≤ tb.sLen) :
    cpuAssignRows tb = (List.range tb.sLen).filter fun y => decide (0 ≤ tb.ppiLoc y) := by
  unfold cpuAssignRows
  have hsplit : List.range tb.sLen = List.range tb.nIo ++ List.range' tb.nIo (tb.sLen - tb.nIo) := by
    rw [List.range_eq_range', List.range_eq_range']
    have h := @List.range'_append_1 0 tb.nIo (tb.sLen - tb.nIo)
    rw [Nat.zero_add] at h
    rw [h]
    congr 1
    omega
  rw [hsplit, List.filter_append]

/-- pairwise disjoint (P)PI regions of three cells (capacity `c_caps_min = 4` in `WaveSim`) -/
def RegionsDisjoint (tb : Tab) : Prop :=
  ∀ y y', y < tb.sLen → y' < tb.sLen → y ≠ y' → 0 ≤ tb.ppiLoc y → 0 ≤ tb.ppiLoc y' →
    tb.ppiLoc y + 3 ≤ tb.ppiLoc y' ∨ tb.ppiLoc y' + 3 ≤ tb.ppiLoc y

/-- every state element has a (P)PI slot with memory (it has at least one output pin entry) -/
def StateRowsAllocated (tb : Tab) : Prop := ∀ y, tb.nIo ≤ y → y < tb.sLen → 0 ≤ tb.ppiLoc y

theorem cpuSToC_rowwise (tb : Tab) (s : Nat → SRow) (c : Col) (hio : tb.nIo ≤ tb.sLen)
    (hdisj : RegionsDisjoint tb) :
    cpuSToC tb s c = (List.range tb.sLen).foldl (fun col y =>
      if 0 ≤ tb.ppiLoc y then write3 col (tb.ppiLoc y) (cpuCells (cpuFlag (s y).ini) (cpuFlag (s y).fin) (s y).time) else col) c := by
  unfold cpuSToC
  rw [cpuPass_eq, cpuPass_eq, cpuPass_eq, cpuAssignRows_eq tb hio]
  rw [three_passes]
  · rw [List.foldl_filter]
    congr 1
    funext col y
    simp only [decide_eq_true_eq]
    rfl
  · intro y hy
    simpa using (List.mem_filter.mp hy).2
  · have hnd : ((List.range tb.sLen).filter fun y => decide (0 ≤ tb.ppiLoc y)).Pairwise (· ≠ ·) :=
      (List.nodup_range).filter _
    refine List.Pairwise.imp_of_mem ?_ hnd
    intro y y' hy hy' hne
    have h1 := List.mem_filter.mp hy
    have h2 := List.mem_filter.mp hy'
    exact hdisj y y' (List.mem_range.mp h1.1) (List.mem_range.mp h2.1) hne (by simpa using h1.2) (by simpa using h2.2)

/-- **whole arrays.** If every state-element row has (P)PI memory, the (P)PI regions are pairwise disjoint, and on every
    used row and lane both logic values are `0` or at least one half (so that `!= 0` and `>= 0.5` agree), then the kernel
    launch — every block shape — leaves exactly the array `c` the three NumPy statements leave: every cell of every lane. -/
theorem sToC_paths_agree (tb : Tab) (den sims bx by_ : Nat) (hbx : 0 < bx) (hby : 0 < by_) (hden : 0 < den)
    (s : Nat → Nat → SRow) (c : Nat → Col) (hio : tb.nIo ≤ tb.sLen)
    (hdisj : RegionsDisjoint tb)
    (hflags : ∀ x y, x < sims → y < tb.sLen → 0 ≤ tb.ppiLoc y → FlagOK den (s x y).ini ∧ FlagOK den (s x y).fin) :
    gpuSToC tb den sims bx by_ s c = cpuSToCAll tb sims s c := by
  funext k
  rw [gpuSToC_lane tb den sims bx by_ hbx hby]
  unfold cpuSToCAll
  by_cases hk : k < sims
  · rw [if_pos hk, if_pos hk, cpuSToC_rowwise tb (s k) (c k) hio hdisj]
    -- fold over the same rows with the same cells
    have : ∀ (l : List Nat) (col : Col), (∀ y ∈ l, y < tb.sLen) →
        l.foldl (fun col y => assignWork tb den s k y col) col =
        l.foldl (fun col y => if 0 ≤ tb.ppiLoc y then
          write3 col (tb.ppiLoc y) (cpuCells (cpuFlag (s k y).ini) (cpuFlag (s k y).fin) (s k y).time) else col) col := by
      intro l
      induction l with
      | nil => intro _ _; rfl
      | cons y l ih =>
        intro col hl
        simp only [List.foldl_cons]
        have hy := hl y List.mem_cons_self
        have : assignWork tb den s k y col = (if 0 ≤ tb.ppiLoc y then
            write3 col (tb.ppiLoc y) (cpuCells (cpuFlag (s k y).ini) (cpuFlag (s k y).fin) (s k y).time) else col) := by
          unfold assignWork
          by_cases hl0 : 0 ≤ tb.ppiLoc y
          · obtain ⟨f1, f2⟩ := hflags k y hk hy hl0
            rw [if_pos hl0, if_pos hl0, cpuCells_eq_gpuCells, (flags_agree_iff den hden _).mpr f1,
              (flags_agree_iff den hden _).mpr f2]
          · rw [if_neg hl0, if_neg hl0]
        rw [this]
        exact ih _ (fun z hz => hl z (List.mem_cons_of_mem _ hz))
    exact this _ _ (fun y hy => List.mem_range.mp hy)
  · rw [if_neg hk, if_neg hk]

/-! ### state transfer -/
theorem foldl_rows_pointwise {α} (P : Nat → Prop) [DecidablePred P] (g : Nat → α → α) (n : Nat) (r0 : Nat → α) :
    (List.range n).foldl (fun r y => if P y then updN r y (g y (r y)) else r) r0 =
      fun y => if y < n ∧ P y then g y (r0 y) else r0 y := by
  induction n with
  | zero => funext y; simp
  | succ n ih =>
    rw [List.range_succ, List.foldl_append, ih]
    simp only [List.foldl_cons, List.foldl_nil]
    funext y
    by_cases hp : P n
    · simp only [hp, if_true, updN]
      by_cases hy : y = n
      · subst hy; simp [hp]
      · have : (y < n + 1) = (y < n) := by
          apply propext; omega
        simp only [hy, if_false, this]
    · simp only [hp, if_false]
      by_cases hy : y = n
      · subst hy; simp [hp]
      · have : (y < n + 1) = (y < n) := by
          apply propext; omega
        simp only [this]

/-- **the kernel launch of `ppo_to_ppi_gpu`, no hypotheses**: row `y` of lane `x` is transferred iff `x < sims`,
    `y < s_len` and BOTH its (P)PI slot and its (P)PO slot have memory -/
theorem gpuPpoToPpi_spec (tb : Tab) (time : T) (sims bx by_ : Nat) (hbx : 0 < bx) (hby : 0 < by_)
    (s : Nat → Nat → SRow) (x y : Nat) :
    gpuPpoToPpi tb time sims bx by_ s x y =
      if x < sims ∧ y < tb.sLen ∧ 0 ≤ tb.ppiLoc y ∧ 0 ≤ tb.ppoLoc y then ppoToPpiRow time (s x y) else s x y := by
  have hrun : gpuPpoToPpi tb time sims bx by_ s =
      runLanes (fun _ y rows => if 0 ≤ tb.ppiLoc y ∧ 0 ≤ tb.ppoLoc y then updN rows y (ppoToPpiRow time (rows y)) else rows)
        (kernelThreads sims tb.sLen bx by_) s := by
    unfold gpuPpoToPpi runLanes kernelThreads
    rw [← launch_guarded (fun p s => onLane s p.1 (fun rows =>
      if 0 ≤ tb.ppiLoc p.2 ∧ 0 ≤ tb.ppoLoc p.2 then updN rows p.2 (ppoToPpiRow time (rows p.2)) else rows))]
    congr 1
    funext s p
    unfold gpuPpoToPpiThread
    by_cases h1 : p.1 < sims <;> by_cases h2 : p.2 < tb.sLen
    · have g1 : ¬ p.2 ≥ tb.sLen := by omega
      have g2 : ¬ p.1 ≥ sims := by omega
      simp only [h1, h2, g1, g2, and_self, if_true, if_false]
      by_cases h3 : tb.ppiLoc p.2 < 0
      · have : ¬ (0 ≤ tb.ppiLoc p.2 ∧ 0 ≤ tb.ppoLoc p.2) := by omega
        simp only [h3, if_true, this, if_false]
        funext j; unfold onLane; simp
      · by_cases h4 : tb.ppoLoc p.2 < 0
        · have : ¬ (0 ≤ tb.ppiLoc p.2 ∧ 0 ≤ tb.ppoLoc p.2) := by omega
          simp only [h3, h4, if_true, if_false, this]
          funext j; unfold onLane; simp
        · have : 0 ≤ tb.ppiLoc p.2 ∧ 0 ≤ tb.ppoLoc p.2 := by omega
          simp only [h3, h4, if_false, this, and_self, if_true]
    · have g1 : p.2 ≥ tb.sLen := by omega
      simp only [h1, h2, g1, and_false, if_true, if_false]
    · have g2 : p.1 ≥ sims := by omega
      have g1 : ¬ p.2 ≥ tb.sLen := by omega
      simp only [h1, h2, g1, g2, false_and, if_true, if_false]
    · have g1 : p.2 ≥ tb.sLen := by omega
      simp only [h1, h2, g1, false_and, if_true, if_false]
  rw [hrun, runLanes_kernel _ _ _ _ _ hbx hby]
  by_cases hx : x < sims
  · rw [if_pos hx]
    have := foldl_rows_pointwise (fun y => 0 ≤ tb.ppiLoc y ∧ 0 ≤ tb.ppoLoc y) (fun _ r => ppoToPpiRow time r) tb.sLen (s x)
    rw [this]
    simp only [hx, true_and]
  · rw [if_neg hx]
    have : ¬ (x < sims ∧ y < tb.sLen ∧ 0 ≤ tb.ppiLoc y ∧ 0 ≤ tb.ppoLoc y) := fun h => hx h.1
    rw [if_neg this]

theorem cpuPpoToPpi_spec (tb : Tab) (time : T) (sims : Nat) (s : Nat → Nat → SRow) (x y : Nat) :
    cpuPpoToPpiAll tb time sims s x y =
      if x < sims ∧ tb.nIo ≤ y ∧ y < tb.sLen then ppoToPpiRow time (s x y) else s x y := by
  unfold cpuPpoToPpiAll cpuPpoToPpi
  by_cases hx : x < sims
  · simp only [hx, if_true, true_and]
  · simp only [hx, if_false, false_and]

end KV.WaveIO
