import KyupyVerif.Proofs.DefTextRead
/-! Round trip of the DEF text model: `parseDefL (printDefL f) = some f` for every valid tree `f`. -/
namespace KV.DefText
open KV.TextLex

/-! ## fuel: every loop of the reader is shorter than the token list -/
theorem wiresToks_len (sp : Bool) (ws : List TWire) (hw : ∀ w ∈ ws, 1 ≤ (w.toks sp).length) :
    ws.length ≤ (wiresToks sp ws).length ∧ ∀ w ∈ ws, (w.toks sp).length ≤ (wiresToks sp ws).length := by
  induction ws with
  | nil => simp [wiresToks]
  | cons w ws ih =>
    cases ws with
    | nil =>
      have := hw w (by simp)
      simp only [wiresToks, List.length_cons, List.length_nil, List.mem_cons, List.not_mem_nil, or_false, forall_eq]
      omega
    | cons w2 rest =>
      have ih' := ih (fun x hx => hw x (by simp [hx]))
      have h1 := hw w (by simp)
      simp only [wiresToks, List.length_append, List.length_cons] at ih' ⊢
      refine ⟨by omega, ?_⟩
      intro x hx
      rcases List.mem_cons.mp hx with rfl | hx
      · omega
      · have := ih'.2 x hx; omega

theorem wire_toks_pos (sp : Bool) (w : TWire) : 1 ≤ (w.toks sp).length := by
  cases sp <;> simp [TWire.toks]

theorem partsFit_of_len (sp : Bool) (N : Nat) (ps : List NetPart) (h : (ps.flatMap (NetPart.toks sp)).length < N) :
    ps.length < N ∧ partsFit sp N ps := by
  have hl := length_le_flatMap (NetPart.toks sp) ps (by intro p _; cases p <;> simp [NetPart.toks])
  refine ⟨by omega, ?_⟩
  intro p hp
  have hm := length_le_of_mem_flatMap (NetPart.toks sp) ps p hp
  cases p with
  | wiring k ws =>
    simp only [NetPart.toks, List.length_cons] at hm
    have := wiresToks_len sp ws (fun w _ => wire_toks_pos sp w)
    exact ⟨by omega, fun w hw => by have := this.2 w hw; omega⟩
  | pin a b => trivial
  | opt k v => trivial

theorem netsFit_of_len (sp : Bool) (N : Nat) (ns : List TNet) (h : (ns.flatMap (TNet.toks sp)).length < N) :
    ns.length < N ∧ ∀ x ∈ ns, x.parts.length < N ∧ partsFit sp N x.parts := by
  have hl := length_le_flatMap (TNet.toks sp) ns (by intro p _; simp [TNet.toks])
  refine ⟨by omega, ?_⟩
  intro x hx
  have hm := length_le_of_mem_flatMap (TNet.toks sp) ns x hx
  simp only [TNet.toks, List.length_cons, List.length_append] at hm
  exact partsFit_of_len sp N x.parts (by omega)

theorem DStmt.fit_of_len (N : Nat) (s : DStmt) (h : s.toks.length < N) : s.fit N := by
  cases s with
  | units a b u => trivial
  | row a b x y o d => trivial
  | tracks d st c sp l => trivial
  | diearea ps =>
    have hl := length_le_flatMap TPoint.toks ps (by intro p _; simp [TPoint.toks])
    simp only [DStmt.toks, List.length_cons, List.length_append] at h
    simp only [DStmt.fit]; omega
  | propdef ps =>
    have hl := length_le_flatMap propdefToks ps (by intro p _; simp [propdefToks])
    simp only [DStmt.toks, List.length_cons, List.length_append] at h
    simp only [DStmt.fit]; omega
  | vias c vs =>
    have hl := length_le_flatMap TVia.toks vs (by intro p _; simp [TVia.toks])
    simp only [DStmt.toks, sectToks, List.length_cons, List.length_append] at h
    refine ⟨by omega, fun v hv => ?_⟩
    have hm := length_le_of_mem_flatMap TVia.toks vs v hv
    have := length_le_flatMap TViaOpt.toks v.opts (by intro p _; simp [TViaOpt.toks])
    simp only [TVia.toks, List.length_cons, List.length_append] at hm
    omega
  | nondef c ds =>
    have hl := length_le_flatMap nondefToks ds (by intro p _; simp [nondefToks])
    simp only [DStmt.toks, sectToks, List.length_cons, List.length_append] at h
    refine ⟨by omega, fun d hd => ?_⟩
    have hm := length_le_of_mem_flatMap nondefToks ds d hd
    have := length_le_flatMap NdOpt.toks d.2 (by intro p _; cases p <;> simp [NdOpt.toks])
    simp only [nondefToks, List.length_cons, List.length_append] at hm
    omega
  | comps c cs =>
    have hl := length_le_flatMap TComp.toks cs (by intro p _; simp [TComp.toks])
    simp only [DStmt.toks, sectToks, List.length_cons, List.length_append] at h
    simp only [DStmt.fit]; omega
  | pins c ps =>
    have hl := length_le_flatMap TPin.toks ps (by intro p _; simp [TPin.toks])
    simp only [DStmt.toks, sectToks, List.length_cons, List.length_append] at h
    refine ⟨by omega, fun v hv => ?_⟩
    have hm := length_le_of_mem_flatMap TPin.toks ps v hv
    have := length_le_flatMap PinOpt.toks v.opts (by intro p _; cases p <;> simp [PinOpt.toks])
    simp only [TPin.toks, List.length_cons, List.length_append] at hm
    omega
  | pinprop c ps =>
    have hl := length_le_flatMap pinpropToks ps (by intro p _; simp [pinpropToks])
    simp only [DStmt.toks, sectToks, List.length_cons, List.length_append] at h
    simp only [DStmt.fit]; omega
  | spnets c ns =>
    simp only [DStmt.toks, sectToks, List.length_cons, List.length_append] at h
    exact netsFit_of_len true N ns (by omega)
  | nets c ns =>
    simp only [DStmt.toks, sectToks, List.length_cons, List.length_append] at h
    exact netsFit_of_len false N ns (by omega)

/-! ## the file -/
theorem Lx_file (st : St) (hst : st = sStart ∨ st = sFile) (k : Kw)
    (hk : k = .Version ∨ k = .Dividerchar ∨ k = .Busbitchars ∨ k = .Design) : Lx st (.lit k) k.chars := by
  rcases hst with rfl | rfl <;> rcases hk with rfl | rfl | rfl | rfl <;> exact Lx_lit _ _ (by decide)

theorem nextD_end (st : St) (hst : st = sStart ∨ st = sFile) : nextD st ['\n'] = some (.eof, []) := by
  have : next L st.1 ['\n'] = some (.eof, []) := by
    rcases hst with rfl | rfl
    · rw [next_ign L _ ['\n'] .ign [] [] (by simp [sStart, first, L, Tm.run, ignM, isWs]) rfl (by simp)]; rfl
    · rw [next_ign L _ ['\n'] .ign [] [] (by simp [sFile, first, L, Tm.run, ignM, isWs]) rfl (by simp)]; rfl
  simp [nextD, this]

theorem pFile_enc (N : Nat) (fs : List FStmt) (h : fs.all FStmt.valid = true)
    (hfit : ∀ f ∈ fs, f.toks.length < N) :
    ∀ n st, (st = sStart ∨ st = sFile) → fs.length < n →
      pFile N n st (enc (fs.flatMap FStmt.toks) ++ ['\n']) = some (fs, []) := by
  induction fs with
  | nil =>
    intro n st hst hn
    cases n with
    | zero => cases hn
    | succ n => simp [pFile, enc, nextD_end st hst]
  | cons f fs ih =>
    intro n st hst hn
    simp only [List.all_cons, Bool.and_eq_true] at h
    cases n with
    | zero => cases hn
    | succ n =>
      have ih' := ih h.2 (fun y hy => hfit y (by simp [hy])) n sFile (Or.inr rfl) (by simp only [List.length_cons] at hn; omega)
      have hR := wsHead_nl
      have hv := h.1
      have hf := hfit f (by simp)
      generalize hT : fs.flatMap FStmt.toks = T at ih'
      cases f with
      | version v =>
        have hs := pSeq_enc [(sId, .id), (sSemi, .lit .Semi)] [v, K .Semi] ⟨Lx_id v hv, Lx_semi, trivial⟩ T ['\n'] hR
        simp only [List.cons_append, List.nil_append] at hs
        simp only [List.flatMap_cons, FStmt.toks, List.cons_append, List.nil_append, hT, pFile,
          nextD_enc _ _ _ (Lx_file st hst .Version (by simp)) _ _ hR, hs, ih', Option.map_some]
      | dividerchar v =>
        have hs := pSeq_enc [(sString, .string), (sSemi, .lit .Semi)] [v, K .Semi] ⟨Lx_str v hv, Lx_semi, trivial⟩ T ['\n'] hR
        simp only [List.cons_append, List.nil_append] at hs
        simp only [List.flatMap_cons, FStmt.toks, List.cons_append, List.nil_append, hT, pFile,
          nextD_enc _ _ _ (Lx_file st hst .Dividerchar (by simp)) _ _ hR, hs, ih', Option.map_some]
      | busbitchars v =>
        have hs := pSeq_enc [(sString, .string), (sSemi, .lit .Semi)] [v, K .Semi] ⟨Lx_str v hv, Lx_semi, trivial⟩ T ['\n'] hR
        simp only [List.cons_append, List.nil_append] at hs
        simp only [List.flatMap_cons, FStmt.toks, List.cons_append, List.nil_append, hT, pFile,
          nextD_enc _ _ _ (Lx_file st hst .Busbitchars (by simp)) _ _ hR, hs, ih', Option.map_some]
      | design name ss =>
        simp only [FStmt.valid, Bool.and_eq_true] at hv
        simp only [FStmt.toks, List.length_cons, List.length_append] at hf
        have hl := length_le_flatMap DStmt.toks ss (by intro s _; cases s <;> simp [DStmt.toks, sectToks])
        have hD := pDesign_enc N (K .Design :: T) ['\n'] hR ss hv.2
          (fun s hs => DStmt.fit_of_len N s (by have := length_le_of_mem_flatMap DStmt.toks ss s hs; omega)) N (by omega)
        have hs := pSeq_enc [(sId, .id), (sSemi, .lit .Semi)] [name, K .Semi] ⟨Lx_id name hv.1, Lx_semi, trivial⟩
          (ss.flatMap DStmt.toks ++ K .End :: K .Design :: T) ['\n'] hR
        simp only [List.cons_append, List.nil_append] at hs
        simp only [List.flatMap_cons, FStmt.toks, List.cons_append, List.append_assoc, List.nil_append, hT, pFile,
          nextD_enc _ _ _ (Lx_file st hst .Design (by simp)) _ _ hR, hs, hD,
          expect_enc _ _ _ (Lx_one .Design) _ _ hR, ih', Option.map_some]

theorem enc_len (ts : List Txt) : ts.length ≤ (enc ts).length :=
  length_le_flatMap _ ts (by intro t _; simp)

theorem fstmt_toks_pos (f : FStmt) : 1 ≤ f.toks.length := by cases f <;> simp [FStmt.toks]

theorem file_fits (fs : List FStmt) (N : Nat) (hN : (enc (fs.flatMap FStmt.toks)).length < N) :
    fs.length < N ∧ ∀ f ∈ fs, f.toks.length < N := by
  have h1 := enc_len (fs.flatMap FStmt.toks)
  have h2 := length_le_flatMap FStmt.toks fs (fun f _ => fstmt_toks_pos f)
  refine ⟨by omega, fun f hf => ?_⟩
  have := length_le_of_mem_flatMap FStmt.toks fs f hf
  omega

theorem nextD_skip_nl (X : List Char) (hX : WsHead X) : nextD sFile ('\n' :: X) = nextD sFile X := by
  obtain ⟨c, R, rfl, hc⟩ := hX
  have hc' : c ≠ '#' := by intro e; subst e; simp [isWs] at hc
  have : next L sFile.1 ('\n' :: c :: R) = next L sFile.1 (c :: R) :=
    next_ign L _ _ .ign [] (c :: R) (by simp [sFile, first, L, Tm.run, ignM, isWs, hc']) rfl (by simp)
  simp only [nextD, this]

theorem pFile_skip_nl (N n : Nat) (X : List Char) (hX : WsHead X) :
    pFile N (n + 1) sFile ('\n' :: X) = pFile N (n + 1) sFile X := by
  simp only [pFile, nextD_skip_nl X hX]

theorem vHead_spec (h : Txt) (hv : vHead h = true) : ∃ body, h = '#' :: body ∧ ∀ y ∈ body, notNl y = true := by
  cases h with
  | nil => simp [vHead] at hv
  | cons c r =>
    simp only [vHead, Bool.and_eq_true, decide_eq_true_eq, List.all_eq_true] at hv
    exact ⟨r, by rw [hv.1], hv.2⟩

theorem nextD_head (h : Txt) (hv : vHead h = true) (X : List Char) :
    nextD sStart (h ++ '\n' :: X) = some (.tok .headComment h, '\n' :: X) := by
  obtain ⟨body, rfl, hb⟩ := vHead_spec h hv
  have hsp := spanP_append notNl body ('\n' :: X) hb (by intro c r e; cases e; decide)
  have : next L sStart.1 ('#' :: body ++ '\n' :: X) = some (.tok .headComment ('#' :: body), '\n' :: X) :=
    next_tok L _ _ .headComment _ _
      (by simp [sStart, first, L, Tm.run, ignM, isWs, headM, hsp]) rfl (by simp)
  simp only [List.cons_append] at this ⊢
  simp [nextD, this]

theorem parseTree_print (f : DefFile) (h : f.valid = true) : parseTree (printDefL f) = some f := by
  obtain ⟨head, stmts⟩ := f
  simp only [DefFile.valid, Bool.and_eq_true] at h
  obtain ⟨hh, hs⟩ := h
  cases head with
  | none =>
    have hlen : (printDefL ⟨none, stmts⟩).length = (enc (stmts.flatMap FStmt.toks)).length + 1 := by simp [printDefL]
    have hfit := file_fits stmts ((printDefL ⟨none, stmts⟩).length + 1) (by omega)
    have hP := pFile_enc ((printDefL ⟨none, stmts⟩).length + 1) stmts hs hfit.2 _ sStart (Or.inl rfl) hfit.1
    have hnot : ∀ x r, nextD sStart (printDefL ⟨none, stmts⟩) ≠ some (.tok .headComment x, r) := by
      intro x r
      cases stmts with
      | nil => simp [printDefL, enc, nextD_end sStart (Or.inl rfl)]
      | cons s ss =>
        have hk : ∃ k rest, s.toks = K k :: rest ∧ (k = .Version ∨ k = .Dividerchar ∨ k = .Busbitchars ∨ k = .Design) := by
          cases s with
          | version v => exact ⟨.Version, _, rfl, by simp⟩
          | dividerchar v => exact ⟨.Dividerchar, _, rfl, by simp⟩
          | busbitchars v => exact ⟨.Busbitchars, _, rfl, by simp⟩
          | design n ss => exact ⟨.Design, _, rfl, by simp⟩
        obtain ⟨k, rest, e, hk⟩ := hk
        simp only [printDefL, List.nil_append, List.flatMap_cons, e, List.cons_append,
          nextD_enc _ _ _ (Lx_file sStart (Or.inl rfl) k hk) _ _ wsHead_nl]
        simp
    unfold parseTree
    simp only
    generalize (printDefL ⟨none, stmts⟩).length = n at hP ⊢
    simp only [printDefL, List.nil_append] at hP ⊢
    simp only [hP, Option.map_some]
  | some hd =>
    have hlen : (printDefL ⟨some hd, stmts⟩).length = hd.length + 1 + ((enc (stmts.flatMap FStmt.toks)).length + 1) := by
      simp [printDefL]; omega
    have hfit := file_fits stmts ((printDefL ⟨some hd, stmts⟩).length + 1) (by omega)
    have hP := pFile_enc ((printDefL ⟨some hd, stmts⟩).length + 1) stmts hs hfit.2 _ sFile (Or.inr rfl) hfit.1
    have hX : WsHead (enc (stmts.flatMap FStmt.toks) ++ ['\n']) := wsHead_enc _ _ wsHead_nl
    unfold parseTree
    simp only
    generalize (printDefL ⟨some hd, stmts⟩).length = n at hP ⊢
    simp only [printDefL, List.append_assoc, List.cons_append, List.nil_append, nextD_head hd hh,
      pFile_skip_nl _ _ _ hX, hP, Option.map_some]

/-! ## valid trees pass the transformer -/
theorem TPoint.ok_of_valid (p : TPoint) (h : p.valid = true) : p.ok = true := h

theorem TDoStep.ok_of_valid (d : TDoStep) (h : d.valid = true) : d.ok = true := h

theorem TItem.ok_of_valid (sp : Bool) (it : TItem) (h : it.valid sp = true) : it.ok = true := by
  cases it with
  | pt p => exact TPoint.ok_of_valid p h
  | via v o => rfl
  | arr v d =>
    simp only [TItem.valid, Bool.and_eq_true] at h
    exact TDoStep.ok_of_valid d h.2

theorem all_imp {α : Type} (p q : α → Bool) (l : List α) (hpq : ∀ x, p x = true → q x = true) (h : l.all p = true) :
    l.all q = true := by
  rw [List.all_eq_true] at h ⊢
  exact fun x hx => hpq x (h x hx)

theorem TWire.ok_of_valid (sp : Bool) (w : TWire) (h : w.valid sp = true) : w.ok = true := by
  simp only [TWire.valid, Bool.and_eq_true] at h
  simp only [TWire.ok, Bool.and_eq_true]
  exact ⟨TPoint.ok_of_valid _ h.1.1.1.2, all_imp _ _ _ (TItem.ok_of_valid sp) h.1.2⟩

theorem NetPart.ok_of_valid (sp : Bool) (p : NetPart) (h : p.valid sp = true) : p.ok = true := by
  cases p with
  | pin a b => rfl
  | opt k v => rfl
  | wiring k ws =>
    simp only [NetPart.valid, Bool.and_eq_true] at h
    exact all_imp _ _ _ (TWire.ok_of_valid sp) h.2

theorem TNet.ok_of_valid (sp : Bool) (n : TNet) (h : n.valid sp = true) : n.ok = true := by
  simp only [TNet.valid, Bool.and_eq_true] at h
  exact all_imp _ _ _ (NetPart.ok_of_valid sp) h.1.2

theorem TViaOpt.ok_of_valid (o : TViaOpt) (h : o.valid = true) : o.ok = true := by
  obtain ⟨k, args⟩ := o
  cases k
  case Enclosure => simp only [TViaOpt.valid, Bool.and_eq_true] at h; exact h.2
  case Cutsize => simp only [TViaOpt.valid, Bool.and_eq_true] at h; exact h.2
  case Cutspacing => simp only [TViaOpt.valid, Bool.and_eq_true] at h; exact h.2
  case Rowcol => simp only [TViaOpt.valid, Bool.and_eq_true] at h; exact h.2
  case Viarule => rfl
  case Pattern => rfl
  case Layers => rfl
  all_goals (simp [TViaOpt.valid] at h)

theorem PinOpt.ok_of_valid (o : PinOpt) (h : o.valid = true) : o.ok = true := by
  cases o with
  | word k v => rfl
  | flag k => rfl
  | layer l p q =>
    simp only [PinOpt.valid, Bool.and_eq_true] at h
    simp only [PinOpt.ok, Bool.and_eq_true]
    exact ⟨TPoint.ok_of_valid p h.1.2, TPoint.ok_of_valid q h.2⟩
  | placed p o =>
    simp only [PinOpt.valid, Bool.and_eq_true] at h
    exact TPoint.ok_of_valid p h.1

theorem DStmt.ok_of_valid (s : DStmt) (h : s.valid = true) : s.ok = true := by
  cases s with
  | units a b u => simp only [DStmt.valid, Bool.and_eq_true] at h; exact h.2
  | diearea ps => simp only [DStmt.valid, Bool.and_eq_true] at h; exact all_imp _ _ _ TPoint.ok_of_valid h.2
  | row a b x y o d =>
    simp only [DStmt.valid, Bool.and_eq_true] at h
    simp only [DStmt.ok, Bool.and_eq_true]
    exact ⟨⟨h.1.1.1.2, h.1.1.2⟩, TDoStep.ok_of_valid d h.2⟩
  | tracks d st c sp l =>
    simp only [DStmt.valid, Bool.and_eq_true] at h
    simp only [DStmt.ok, Bool.and_eq_true]
    exact ⟨⟨h.1.1.1.2, h.1.1.2⟩, h.1.2⟩
  | propdef ps => rfl
  | vias c vs =>
    simp only [DStmt.valid, Bool.and_eq_true] at h
    exact all_imp _ _ _ (fun v hv => by
      simp only [TVia.valid, Bool.and_eq_true] at hv
      exact all_imp _ _ _ TViaOpt.ok_of_valid hv.2) h.2
  | nondef c ds => rfl
  | comps c cs =>
    simp only [DStmt.valid, Bool.and_eq_true] at h
    exact all_imp _ _ _ (fun v hv => by
      simp only [TComp.valid, Bool.and_eq_true] at hv
      exact TPoint.ok_of_valid _ hv.1.2) h.2
  | pins c ps =>
    simp only [DStmt.valid, Bool.and_eq_true] at h
    exact all_imp _ _ _ (fun v hv => by
      simp only [TPin.valid, Bool.and_eq_true] at hv
      exact all_imp _ _ _ PinOpt.ok_of_valid hv.2) h.2
  | pinprop c ps => rfl
  | spnets c ns => simp only [DStmt.valid, Bool.and_eq_true] at h; exact all_imp _ _ _ (TNet.ok_of_valid true) h.2
  | nets c ns => simp only [DStmt.valid, Bool.and_eq_true] at h; exact all_imp _ _ _ (TNet.ok_of_valid false) h.2

theorem DefFile.ok_of_valid (f : DefFile) (h : f.valid = true) : f.ok = true := by
  simp only [DefFile.valid, Bool.and_eq_true] at h
  refine all_imp _ _ _ (fun s hs => ?_) h.2
  cases s with
  | design n ss =>
    simp only [FStmt.valid, Bool.and_eq_true] at hs
    exact all_imp _ _ _ DStmt.ok_of_valid hs.2
  | version v => rfl
  | dividerchar v => rfl
  | busbitchars v => rfl

theorem parseDefL_print (f : DefFile) (h : f.valid = true) : parseDefL (printDefL f) = some f := by
  simp [parseDefL, parseTree_print f h, DefFile.ok_of_valid f h]

theorem parseDef_print (f : DefFile) (h : f.valid = true) : parseDef (printDef f) = some f := by
  simp [parseDef, printDef, String.toList_ofList, parseDefL_print f h]

/-- `allSome` succeeds exactly on a list without `none`, with the values in order -/
theorem allSome_eq_some {α : Type} (l : List (Option α)) (r : List α) : allSome l = some r ↔ l = r.map some := by
  induction l generalizing r with
  | nil => cases r <;> simp [allSome]
  | cons x xs ih =>
    cases x with
    | none => cases r <;> simp [allSome]
    | some a =>
      cases r with
      | nil => simp [allSome]
      | cons b bs =>
        simp only [allSome, Option.map_eq_some_iff, List.map_cons, List.cons.injEq, Option.some.injEq]
        constructor
        · rintro ⟨r', h1, rfl, rfl⟩; exact ⟨rfl, (ih _).mp h1⟩
        · rintro ⟨rfl, h⟩; exact ⟨bs, (ih _).mpr h, rfl, rfl⟩

/-- `int()` of a width token, on the string the record carries: defined exactly on `intOK` tokens, with the value `natOf` -/
theorem intTok?_ofList (t : Txt) : KV.Def.intTok? (String.ofList t) = if intOK t then some (natOf t) else none := by
  simp only [KV.Def.intTok?, String.toList_ofList, intOK, natOf]
  rfl

theorem toWire_widthVal (sp : Bool) (w : TWire) :
    (w.toWire sp).widthVal =
      match w.width with
      | none => some none
      | some t => if intOK t then some (some (natOf t)) else none := by
  cases hw : w.width with
  | none => simp [TWire.toWire, KV.Def.DWire.widthVal, hw]
  | some t =>
    simp only [TWire.toWire, KV.Def.DWire.widthVal, hw, Option.map_some, intTok?_ofList]
    split <;> rfl

end KV.DefText
