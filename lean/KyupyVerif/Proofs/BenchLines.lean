import KyupyVerif.Proofs.BenchCirc
/-! Which flat lines a bench description has (`mem_benchL`), who reads what (`any_reader_fork`, `any_reader_cell`,
`reader_fork_line`, `reader_cell_line`), and that every reader end point has exactly one line (`benchL_readers_nodup`) — for
descriptions whose gate names are pairwise different. -/
namespace KV.Netlist
open KV

def benchL (stmts : List BStmt) : List (Ep × Ep) := (benchGates stmts).flatMap gateLines

theorem mem_gateLines (g : BGate) (p : Ep × Ep) :
    p ∈ gateLines g ↔ p = (.cell g.name 0, .fork g.name) ∨ ∃ k, ∃ hk : k < g.drv.length, p = (.fork g.drv[k], .cell g.name k) := by
  unfold gateLines
  rw [List.mem_cons, List.mem_map]
  constructor
  · rintro (h | ⟨q, hq, rfl⟩)
    · exact Or.inl h
    · right
      have := List.mem_zipIdx_iff_getElem?.mp hq
      obtain ⟨hk, hv⟩ := List.getElem?_eq_some_iff.mp this
      exact ⟨q.2, hk, by rw [hv]⟩
  · rintro (h | ⟨k, hk, rfl⟩)
    · exact Or.inl h
    · right
      exact ⟨(g.drv[k], k), List.mem_zipIdx_iff_getElem?.mpr (by simp [List.getElem?_eq_getElem hk]), rfl⟩

theorem mem_benchL (stmts : List BStmt) (p : Ep × Ep) :
    p ∈ benchL stmts ↔ ∃ g ∈ benchGates stmts,
      p = (.cell g.name 0, .fork g.name) ∨ ∃ k, ∃ hk : k < g.drv.length, p = (.fork g.drv[k], .cell g.name k) := by
  unfold benchL
  rw [List.mem_flatMap]
  constructor
  · rintro ⟨g, hg, hp⟩; exact ⟨g, hg, (mem_gateLines g p).mp hp⟩
  · rintro ⟨g, hg, hp⟩; exact ⟨g, hg, (mem_gateLines g p).mpr hp⟩

theorem nodupS_nodup : ∀ (l : List String), nodupS l = true → l.Nodup
  | [], _ => List.nodup_nil
  | x :: r, h => by
    simp only [nodupS, Bool.and_eq_true, Bool.not_eq_true', List.contains_eq_mem, decide_eq_false_iff_not] at h
    exact List.nodup_cons.mpr ⟨h.1, nodupS_nodup r h.2⟩

theorem nodup_map_inj {β γ} (f : β → γ) (l : List β) (h : (l.map f).Nodup) (x : β) (hx : x ∈ l) (y : β) (hy : y ∈ l)
    (hf : f x = f y) : x = y := by
  induction l with
  | nil => cases hx
  | cons a r ih =>
    simp only [List.map_cons, List.nodup_cons] at h
    rcases List.mem_cons.mp hx with hxa | hxr
    · rcases List.mem_cons.mp hy with hya | hyr
      · rw [hxa, hya]
      · have hm : f a ∈ r.map f := List.mem_map.mpr ⟨y, hyr, by rw [← hf, hxa]⟩
        exact absurd hm h.1
    · rcases List.mem_cons.mp hy with hya | hyr
      · have hm : f a ∈ r.map f := List.mem_map.mpr ⟨x, hxr, by rw [hf, hya]⟩
        exact absurd hm h.1
      · exact ih h.2 hxr hyr

theorem nodup_map_of_imp {β γ δ} (f : β → γ) (g : β → δ) (hfg : ∀ x y, g x = g y → f x = f y) :
    ∀ (l : List β), (l.map f).Nodup → (l.map g).Nodup
  | [], _ => List.nodup_nil
  | a :: r, h => by
    simp only [List.map_cons, List.nodup_cons] at h ⊢
    refine ⟨?_, nodup_map_of_imp f g hfg r h.2⟩
    intro hm
    obtain ⟨y, hy, hgy⟩ := List.mem_map.mp hm
    exact h.1 (List.mem_map.mpr ⟨y, hy, hfg y a hgy⟩)

/-- the hypotheses `benchOKB` packs -/
structure BenchOK (stmts : List BStmt) : Prop where
  nd : ((benchGates stmts).map (·.name)).Nodup
  kinds : ((benchGates stmts).all fun g => g.kind != forkKind) = true

theorem benchOK_of (stmts : List BStmt) (h : benchOKB stmts = true) : BenchOK stmts := by
  unfold benchOKB at h
  rw [Bool.and_eq_true] at h
  exact ⟨nodupS_nodup _ h.1, h.2⟩

theorem BenchOK.gate_eq {stmts : List BStmt} (h : BenchOK stmts) {g g' : BGate} (hg : g ∈ benchGates stmts)
    (hg' : g' ∈ benchGates stmts) (hn : g.name = g'.name) : g = g' :=
  nodup_map_inj (·.name) _ h.nd g hg g' hg' hn

theorem isGateName_iff (stmts : List BStmt) (s : String) : isGateName stmts s = true ↔ ∃ g ∈ benchGates stmts, g.name = s := by
  unfold isGateName
  rw [List.any_eq_true]
  constructor
  · rintro ⟨g, hg, h⟩; exact ⟨g, hg, by simpa using h⟩
  · rintro ⟨g, hg, h⟩; exact ⟨g, hg, by simpa using h⟩

/-- a line into a fork comes from the same-named cell -/
theorem reader_fork_line (stmts : List BStmt) (p : Ep × Ep) (s : String) (hp : p ∈ benchL stmts) (hr : p.2 = .fork s) :
    p = (.cell s 0, .fork s) ∧ isGateName stmts s = true := by
  obtain ⟨g, hg, h | ⟨k, hk, h⟩⟩ := (mem_benchL stmts p).mp hp
  · subst h
    simp only [Ep.fork.injEq] at hr
    subst hr
    exact ⟨rfl, (isGateName_iff _ _).mpr ⟨g, hg, rfl⟩⟩
  · subst h; cases hr

theorem any_reader_fork (stmts : List BStmt) (s : String) :
    ((benchL stmts).any fun p => p.2 == Ep.fork s) = isGateName stmts s := by
  cases hg : isGateName stmts s with
  | true =>
    obtain ⟨g, hg1, hg2⟩ := (isGateName_iff _ _).mp hg
    rw [List.any_eq_true]
    refine ⟨(.cell g.name 0, .fork g.name), (mem_benchL _ _).mpr ⟨g, hg1, Or.inl rfl⟩, by simp [hg2]⟩
  | false =>
    rw [List.any_eq_false]
    intro p hp hr
    have := (reader_fork_line stmts p s hp (by simpa using hr)).2
    rw [hg] at this; cases this

/-- a line into pin `k` of the cell of gate statement `g` comes from the fork of its `k`-th operand -/
theorem reader_cell_line (stmts : List BStmt) (hok : BenchOK stmts) (g : BGate) (hg : g ∈ benchGates stmts) (p : Ep × Ep) (k : Nat)
    (hp : p ∈ benchL stmts) (hr : p.2 = .cell g.name k) : ∃ hk : k < g.drv.length, p = (.fork g.drv[k], .cell g.name k) := by
  obtain ⟨g', hg', h | ⟨k', hk', h⟩⟩ := (mem_benchL stmts p).mp hp
  · subst h; cases hr
  · subst h
    simp only [Ep.cell.injEq] at hr
    have := hok.gate_eq hg' hg hr.1
    subst this
    obtain ⟨_, rfl⟩ := hr
    exact ⟨hk', rfl⟩

theorem any_reader_cell (stmts : List BStmt) (hok : BenchOK stmts) (g : BGate) (hg : g ∈ benchGates stmts) (k : Nat) :
    ((benchL stmts).any fun p => p.2 == Ep.cell g.name k) = decide (k < g.drv.length) := by
  by_cases hk : k < g.drv.length
  · simp only [hk, decide_true]
    rw [List.any_eq_true]
    exact ⟨(.fork g.drv[k], .cell g.name k), (mem_benchL _ _).mpr ⟨g, hg, Or.inr ⟨k, hk, rfl⟩⟩, by simp⟩
  · simp only [hk, decide_false]
    rw [List.any_eq_false]
    intro p hp hr
    obtain ⟨hk', _⟩ := reader_cell_line stmts hok g hg p k hp (by simpa using hr)
    exact hk hk'

/-! ## one line per reader end point -/

theorem zipIdx_readers_nodup (name : String) (d : List String) (k : Nat) :
    ((d.zipIdx k).map fun p => Ep.cell name p.2).Nodup ∧ ∀ e ∈ (d.zipIdx k).map (fun p => Ep.cell name p.2), ∃ j, k ≤ j ∧ e = .cell name j := by
  induction d generalizing k with
  | nil => exact ⟨List.nodup_nil, fun e he => by cases he⟩
  | cons x xs ih =>
    obtain ⟨h1, h2⟩ := ih (k + 1)
    simp only [List.zipIdx_cons, List.map_cons]
    refine ⟨List.nodup_cons.mpr ⟨?_, h1⟩, ?_⟩
    · intro hm
      obtain ⟨j, hj, he⟩ := h2 _ hm
      simp only [Ep.cell.injEq, true_and] at he
      omega
    · intro e he
      rcases List.mem_cons.mp he with rfl | he
      · exact ⟨k, Nat.le_refl _, rfl⟩
      · obtain ⟨j, hj, rfl⟩ := h2 e he
        exact ⟨j, by omega, rfl⟩

theorem gateLines_readers (g : BGate) :
    ((gateLines g).map (·.2)).Nodup ∧ ∀ e ∈ (gateLines g).map (·.2), e = .fork g.name ∨ ∃ j, e = .cell g.name j := by
  obtain ⟨h1, h2⟩ := zipIdx_readers_nodup g.name g.drv 0
  simp only [gateLines, List.map_cons, List.map_map, Function.comp_def]
  refine ⟨List.nodup_cons.mpr ⟨?_, h1⟩, ?_⟩
  · intro hm
    obtain ⟨j, _, he⟩ := h2 _ hm
    cases he
  · intro e he
    rcases List.mem_cons.mp he with rfl | he
    · exact Or.inl rfl
    · obtain ⟨j, _, rfl⟩ := h2 e he
      exact Or.inr ⟨j, rfl⟩

theorem flatMap_readers_nodup : ∀ (G : List BGate), (G.map (·.name)).Nodup → ((G.flatMap gateLines).map (·.2)).Nodup
  | [], _ => List.nodup_nil
  | g :: r, h => by
    simp only [List.map_cons, List.nodup_cons] at h
    simp only [List.flatMap_cons, List.map_append]
    rw [List.nodup_append]
    refine ⟨(gateLines_readers g).1, flatMap_readers_nodup r h.2, ?_⟩
    intro a ha b hb hab
    subst hab
    obtain ⟨q, hq, hqa⟩ := List.mem_map.mp hb
    obtain ⟨g', hg', hq'⟩ := List.mem_flatMap.mp hq
    have hb' := (gateLines_readers g').2 a (List.mem_map.mpr ⟨q, hq', hqa⟩)
    have ha' := (gateLines_readers g).2 a ha
    have hne : g.name ≠ g'.name := fun e => h.1 (e ▸ List.mem_map.mpr ⟨g', hg', rfl⟩)
    rcases ha' with rfl | ⟨j, rfl⟩
    · rcases hb' with e | ⟨j', e⟩
      · simp only [Ep.fork.injEq] at e; exact hne e
      · cases e
    · rcases hb' with e | ⟨j', e⟩
      · cases e
      · simp only [Ep.cell.injEq] at e; exact hne e.1

theorem benchL_readers_nodup (stmts : List BStmt) (hok : BenchOK stmts) : ((benchL stmts).map (·.2)).Nodup :=
  flatMap_readers_nodup _ hok.nd

/-- with one line per reader end point, the last line into the reader of line `i` is line `i` -/
theorem inLineOf_self (L : List (Ep × Ep)) (hnd : (L.map (·.2)).Nodup) (i : Nat) (hi : i < L.length) :
    inLineOf L L[i].2 = some i := by
  apply lastWith_unique _ L i L[i] (List.getElem?_eq_getElem hi) (by simp)
  intro i' x' hx' hp
  have hi' : i' < L.length := (List.getElem?_eq_some_iff.mp hx').1
  have hx'' : L[i'] = x' := (List.getElem?_eq_some_iff.mp hx').2
  have h1 : (L.map (·.2))[i']'(by simpa using hi') = (L.map (·.2))[i]'(by simpa using hi) := by
    simp only [List.getElem_map, hx'']
    simpa using hp
  exact (List.getElem_inj hnd).mp h1

end KV.Netlist
