import KyupyVerif.Proofs.CircObjBase
/-! C09: the Boolean checker `invOK` decides `WFc`. -/
namespace KV.CircObj

theorem idxChk_iff (l : List Nat) (idx : Nat → Nat) :
    (List.range l.length).all (fun p => idx (l.getD p 0) == p) = true ↔ ∀ p (h : p < l.length), idx l[p] = p := by
  simp only [List.all_eq_true, List.mem_range, beq_iff_eq]
  constructor
  · intro h p hp
    have := h p hp
    rwa [List.getD_eq_getElem?_getD, List.getElem?_eq_getElem hp] at this
  · intro h p hp
    rw [List.getD_eq_getElem?_getD, List.getElem?_eq_getElem hp]; exact h p hp

theorem pinsAll_iff (l : Pins) (f : Nat → Nat → Bool) :
    pinsAll l f = true ↔ ∀ p x, pin l p = some x → f p x = true := by
  unfold pinsAll
  simp only [List.all_eq_true, List.mem_range]
  constructor
  · intro h p x hp
    have := h p (pin_eq_some_lt hp)
    simpa [hp] using this
  · intro h p _
    cases hx : pin l p with
    | none => rfl
    | some x => exact h p x hx

theorem allSome_iff (l : Pins) : l.all (·.isSome) = true ↔ none ∉ l := by
  simp only [List.all_eq_true]
  constructor
  · intro h hn; have := h _ hn; simp at this
  · intro h x hx
    cases x with
    | none => exact absurd hx h
    | some _ => rfl

theorem invOK_iff (c : Circ) : invOK c = true ↔ WFc c := by
  unfold invOK
  simp only [Bool.and_eq_true, idxChk_iff c.nodes (fun i => (c.nobj i).index), idxChk_iff c.lines (fun i => (c.lobj i).index),
    decide_eq_true_eq]
  constructor
  · rintro ⟨⟨⟨⟨⟨⟨⟨⟨⟨⟨⟨⟨⟨⟨⟨h1, h2⟩, h3⟩, h4⟩, h5⟩, h6⟩, h7⟩, h8⟩, h9⟩, h10⟩, h11⟩, h12⟩, h13⟩, h14⟩, h15⟩, h16⟩
    simp only [List.all_eq_true, Bool.and_eq_true, decide_eq_true_eq, List.contains_eq_mem, bne_iff_ne, beq_iff_eq,
      Bool.or_eq_true] at h3 h4 h7 h8 h9 h10 h16
    refine ⟨⟨h1, h2, h3, h4, h5, h6, ?_, ?_, ?_, ?_, ?_, ?_, ?_, ?_, h16⟩, ?_⟩
    · intro e he; have := h7 e he; exact ⟨this.1.1, this.1.2, this.2⟩
    · intro e he; have := h8 e he; exact ⟨this.1.1, this.1.2, this.2⟩
    · intro i hi hk; rcases h9 i hi with h | h
      · exact absurd h hk
      · exact h
    · intro i hi hk; rcases h10 i hi with h | h
      · exact absurd hk h
      · exact h
    · intro l hl
      have := List.all_eq_true.1 h11 l hl
      cases hd : (c.lobj l).driver with
      | none => simp [hd] at this
      | some d => simp [hd] at this; exact ⟨d, rfl, this.1, this.2⟩
    · intro l hl
      have := List.all_eq_true.1 h12 l hl
      cases hd : (c.lobj l).reader with
      | none => simp [hd] at this
      | some d => simp [hd] at this; exact ⟨d, rfl, this.1, this.2⟩
    · intro i hi p l hp
      have := (pinsAll_iff _ _).1 (List.all_eq_true.1 h13 i hi) p l hp
      simpa [and_assoc] using this
    · intro i hi p l hp
      have := (pinsAll_iff _ _).1 (List.all_eq_true.1 h14 i hi) p l hp
      simpa [and_assoc] using this
    · intro i hi hk
      have := List.all_eq_true.1 h15 i hi
      simp only [Bool.or_eq_true, bne_iff_ne] at this
      rcases this with h | h
      · exact absurd hk h
      · exact (allSome_iff _).1 h
  · intro wf
    simp only [List.all_eq_true, Bool.and_eq_true, decide_eq_true_eq, List.contains_eq_mem, bne_iff_ne, beq_iff_eq,
      Bool.or_eq_true]
    refine ⟨⟨⟨⟨⟨⟨⟨⟨⟨⟨⟨⟨⟨⟨⟨wf.nidx, wf.lidx⟩, wf.nfresh⟩, wf.lfresh⟩, wf.ckeys⟩, wf.fkeys⟩, ?_⟩, ?_⟩, ?_⟩, ?_⟩, ?_⟩, ?_⟩, ?_⟩, ?_⟩, ?_⟩, wf.ioIn⟩
    · intro e he; have := wf.cellsSound e he; exact ⟨⟨this.1, this.2.1⟩, this.2.2⟩
    · intro e he; have := wf.forksSound e he; exact ⟨⟨this.1, this.2.1⟩, this.2.2⟩
    · intro i hi
      by_cases hk : (c.nobj i).kind = FORK
      · exact Or.inl hk
      · exact Or.inr (wf.cellsComplete i hi hk)
    · intro i hi
      by_cases hk : (c.nobj i).kind = FORK
      · exact Or.inr (wf.forksComplete i hi hk)
      · exact Or.inl hk
    · intro l hl
      obtain ⟨d, h1, h2, h3⟩ := wf.ldrv l hl
      simp [h1, h2, h3]
    · intro l hl
      obtain ⟨d, h1, h2, h3⟩ := wf.lrdr l hl
      simp [h1, h2, h3]
    · intro i hi
      rw [pinsAll_iff]
      intro p l hp
      obtain ⟨h1, h2, h3⟩ := wf.outsBack i hi p l hp
      simp [h1, h2, h3]
    · intro i hi
      rw [pinsAll_iff]
      intro p l hp
      obtain ⟨h1, h2, h3⟩ := wf.insBack i hi p l hp
      simp [h1, h2, h3]
    · intro i hi
      by_cases hk : (c.nobj i).kind = FORK
      · exact Or.inr (List.all_eq_true.1 ((allSome_iff _).2 (wf.forkFull i hi hk)))
      · exact Or.inl hk

end KV.CircObj
