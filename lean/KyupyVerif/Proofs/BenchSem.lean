import KyupyVerif.Proofs.BenchLines
import KyupyVerif.Proofs.CircLabel
/-! `parsed_sem` for the bench format: the labellings of `benchNet stmts` consistent with the netlist (`NetLabelling`, the
specification evaluator's `lineEq` on every line) are exactly the labellings induced by the models of the description
(`BenchModel`, Model/BenchSem.lean), one model per labelling. -/
namespace KV.Netlist
open KV

universe u
variable {stmts : List BStmt}

/-! ## end points of the bench circuit -/

theorem bench_cells_nodup (hok : BenchOK stmts) : ((cellsOf (bench stmts)).map (·.name)).Nodup := by
  rw [bench_cells stmts hok.kinds, List.map_map]
  exact hok.nd

theorem gateNode_mem (hok : BenchOK stmts) (g : BGate) (hg : g ∈ benchGates stmts) : gateNode g ∈ cellsOf (bench stmts) := by
  rw [bench_cells stmts hok.kinds]
  exact List.mem_map.mpr ⟨g, hg, rfl⟩

theorem bench_resolved_cell (hok : BenchOK stmts) (g : BGate) (hg : g ∈ benchGates stmts) (p : Nat) :
    (bench stmts).resolved (.cell g.name p) :=
  resolved_of_cell _ (gateNode g) (gateNode_mem hok g hg) p

theorem bench_kindOf_cell (hok : BenchOK stmts) (g : BGate) (hg : g ∈ benchGates stmts) (p : Nat) :
    (bench stmts).kindOf (.cell g.name p) = g.kind :=
  kindOf_cell _ (bench_cells_nodup hok) (gateNode g) (gateNode_mem hok g hg) p

theorem bench_resolved_gate_fork (g : BGate) (hg : g ∈ benchGates stmts) : (bench stmts).resolved (.fork g.name) :=
  resolved_of_isFork _ _ (bench_fork_gate stmts g hg).1

theorem bench_resolved_drv (g : BGate) (hg : g ∈ benchGates stmts) (k : Nat) (hk : k < g.drv.length) :
    (bench stmts).resolved (.fork g.drv[k]) :=
  resolved_of_isFork _ _ ((bench_fork_gate stmts g hg).2 _ (List.getElem_mem hk))

theorem bench_resolved_port (s : String) (hs : s ∈ benchPorts stmts) : (bench stmts).resolved (.fork s) :=
  resolved_of_isFork _ _ (bench_fork_port stmts s hs)

/-- every driver end point of a line is a node -/
theorem bench_resolved_driver (hok : BenchOK stmts) (p : Ep × Ep) (hp : p ∈ benchL stmts) : (bench stmts).resolved p.1 := by
  obtain ⟨g, hg, h | ⟨k, hk, h⟩⟩ := (mem_benchL stmts p).mp hp
  · subst h; exact bench_resolved_cell hok g hg 0
  · subst h; exact bench_resolved_drv g hg k hk

/-! ## `s_nodes` -/

theorem benchNet_sNodes (hok : BenchOK stmts) :
    (benchNet stmts).sNodes = (benchSNames stmts).map (bench stmts).nodeIdx := by
  unfold benchNet
  rw [toNet_sNodes _ _ (bench_cells_nodup hok), bench_cells stmts hok.kinds]
  unfold benchSNames Circ.ioBench
  rw [bench_ioB]
  simp only [List.map_append, List.map_map, List.filter_map]
  rfl

theorem mem_sNames_fork (s : String) : Ep.fork s ∈ benchSNames stmts ↔ s ∈ benchPorts stmts := by
  unfold benchSNames
  simp

theorem mem_sNames_cell (hok : BenchOK stmts) (g : BGate) (hg : g ∈ benchGates stmts) :
    Ep.cell g.name 0 ∈ benchSNames stmts ↔ isSeqKind g.kind = true := by
  unfold benchSNames isSeqKind
  simp only [List.mem_append, List.mem_map, List.mem_filter, Bool.or_eq_true]
  constructor
  · rintro ((⟨s, _, h⟩ | ⟨g', ⟨hg', hd⟩, h⟩) | ⟨g', ⟨hg', hd⟩, h⟩)
    · cases h
    · simp only [Ep.cell.injEq, and_true] at h
      rw [← hok.gate_eq hg' hg h]; exact Or.inl hd
    · simp only [Ep.cell.injEq, and_true] at h
      rw [← hok.gate_eq hg' hg h]; exact Or.inr hd
  · rintro (h | h)
    · exact Or.inl (Or.inr ⟨g, ⟨hg, h⟩, rfl⟩)
    · exact Or.inr ⟨g, ⟨hg, h⟩, rfl⟩

theorem sNames_resolved (hok : BenchOK stmts) : ∀ e ∈ benchSNames stmts, (bench stmts).resolved e ∧ e.rpin = 0 := by
  intro e he
  unfold benchSNames at he
  simp only [List.mem_append, List.mem_map, List.mem_filter] at he
  rcases he with (⟨s, hs, rfl⟩ | ⟨g, ⟨hg, _⟩, rfl⟩) | ⟨g, ⟨hg, _⟩, rfl⟩
  · exact ⟨bench_resolved_port s hs, rfl⟩
  · exact ⟨bench_resolved_cell hok g hg 0, rfl⟩
  · exact ⟨bench_resolved_cell hok g hg 0, rfl⟩

theorem benchNet_sPos (hok : BenchOK stmts) (e : Ep) (he : (bench stmts).resolved e) (h0 : e.rpin = 0) :
    (benchNet stmts).sPos ((bench stmts).nodeIdx e) =
      if (benchSNames stmts).contains e then some (benchSPos stmts e) else none := by
  unfold Net.sPos
  rw [benchNet_sNodes hok]
  exact sPosIn_names _ _ (sNames_resolved hok) e he h0

theorem benchNet_sPos_fork (hok : BenchOK stmts) (s : String) (hs : (bench stmts).resolved (.fork s)) :
    (benchNet stmts).sPos ((bench stmts).nodeIdx (.fork s)) =
      if (benchPorts stmts).contains s then some (benchSPos stmts (.fork s)) else none := by
  rw [benchNet_sPos hok _ hs rfl]
  have : (benchSNames stmts).contains (Ep.fork s) = (benchPorts stmts).contains s := by
    rw [Bool.eq_iff_iff]
    simp only [List.contains_eq_mem, decide_eq_true_eq]
    exact mem_sNames_fork s
  rw [this]

theorem benchNet_sPos_cell (hok : BenchOK stmts) (g : BGate) (hg : g ∈ benchGates stmts) (p : Nat) :
    (benchNet stmts).sPos ((bench stmts).nodeIdx (.cell g.name p)) =
      if isSeqKind g.kind then some (benchSPos stmts (.cell g.name 0)) else none := by
  rw [nodeIdx_cell_pin _ g.name p 0, benchNet_sPos hok _ (bench_resolved_cell hok g hg 0) rfl]
  have : (benchSNames stmts).contains (Ep.cell g.name 0) = isSeqKind g.kind := by
    rw [Bool.eq_iff_iff]
    simp only [List.contains_eq_mem, decide_eq_true_eq]
    exact mem_sNames_cell hok g hg
  rw [this]

/-! ## what the two kinds of drivers put on their lines -/

theorem inVal_fork {α : Type u} (w : Ep → α) (s : String) :
    inVal (benchL stmts) w (.fork s) 0 = if isGateName stmts s then some (w (.fork s)) else none := by
  unfold inVal
  simp only [Ep.inEp, any_reader_fork]

theorem inVal_cell {α : Type u} (hok : BenchOK stmts) (g : BGate) (hg : g ∈ benchGates stmts) (w : Ep → α) (p k : Nat) :
    inVal (benchL stmts) w (.cell g.name p) k = if k < g.drv.length then some (w (.cell g.name k)) else none := by
  unfold inVal
  simp only [Ep.inEp, any_reader_cell stmts hok g hg k, decide_eq_true_eq]

/-- a fork passes on what arrives; an undriven fork carries its assigned value when it is a port, `z` otherwise -/
theorem driveVal_fork {α : Type u} (z : α) (neg : α → α) (prim : String → α → α → α → α → α) (a : Nat → α) (w : Ep → α) (s : String) :
    driveVal (benchL stmts) forkKind (if (benchPorts stmts).contains s then some (benchSPos stmts (.fork s)) else none)
      z neg prim a w (.fork s) = if isGateName stmts s then w (.fork s) else freeVal stmts z a s := by
  have h1 : hasSub "dff" forkKind.toLower = false := by decide +kernel
  have h2 : hasSub "latch" forkKind.toLower = false := by decide +kernel
  unfold driveVal freeVal
  simp only [h1, h2, Bool.or_self, Bool.false_eq_true, if_false, beq_self_eq_true, if_true, inVal_fork]
  generalize (benchPorts stmts).contains s = b
  generalize isGateName stmts s = c
  cases b <;> cases c <;> rfl

/-- the cell of a gate statement puts the statement's value on its line, when the values arriving at its pins are the operands -/
theorem driveVal_cell {α : Type u} (hok : BenchOK stmts) (g : BGate) (hg : g ∈ benchGates stmts) (z : α) (neg : α → α)
    (prim : String → α → α → α → α → α) (a : Nat → α) (w : Ep → α) (σ : String → α)
    (hw : ∀ k (hk : k < g.drv.length), w (.cell g.name k) = σ g.drv[k]) :
    driveVal (benchL stmts) g.kind (if isSeqKind g.kind then some (benchSPos stmts (.cell g.name 0)) else none)
      z neg prim a w (.cell g.name 0) = stmtVal stmts z prim a g σ := by
  have hk : g.kind ≠ forkKind := by
    have := List.all_eq_true.mp hok.kinds g hg
    simpa using this
  have harg : ∀ k, (inVal (benchL stmts) w (.cell g.name 0) k).getD z = (match g.drv[k]? with | some d => σ d | none => z) := by
    intro k
    rw [inVal_cell hok g hg]
    by_cases hkl : k < g.drv.length
    · simp only [hkl, if_true, Option.getD_some, List.getElem?_eq_getElem hkl, hw k hkl]
    · simp only [hkl, if_false, Option.getD_none, List.getElem?_eq_none (Nat.le_of_not_lt hkl)]
  have hsome : ∀ k, (inVal (benchL stmts) w (.cell g.name 0) k).isSome = decide (k < g.drv.length) := by
    intro k
    rw [inVal_cell hok g hg]
    by_cases hkl : k < g.drv.length <;> simp [hkl]
  unfold driveVal stmtVal gateVal
  by_cases hs : isSeqKind g.kind = true
  · have hs' : (hasSub "dff" g.kind.toLower || hasSub "latch" g.kind.toLower) = true := hs
    simp only [hs, if_true, hs', Ep.cpin]
    simp
  · have hs' : (hasSub "dff" g.kind.toLower || hasSub "latch" g.kind.toLower) = false := by
      simpa [isSeqKind, isDffKind, isLatchKind] using hs
    have hkb : (g.kind == forkKind) = false := by simp [hk]
    simp only [hs, Bool.false_eq_true, if_false, hkb, harg, hsome]
    generalize specPrimName g.kind.toLower (decide (2 < g.drv.length)) (decide (3 < g.drv.length)) = o
    cases o <;> rfl

/-! ## environments and labellings -/

/-- the labelling of the lines an environment induces: line `i` carries the value of its signal -/
def benchLabel {α : Type u} (stmts : List BStmt) (σ : String → α) : Nat → α := fun i => σ ((benchSigs stmts).getD i "")

theorem benchLabel_eq {α : Type u} (σ : String → α) (i : Nat) (hi : i < (benchL stmts).length) :
    benchLabel stmts σ i = σ (sigOf (benchL stmts)[i]) := by
  unfold benchLabel
  rw [benchSigs_eq]
  show σ ((List.map sigOf (benchL stmts)).getD i "") = _
  rw [List.getD_eq_getElem?_getD, List.getElem?_map, List.getElem?_eq_getElem hi]
  rfl

theorem find_gate (hok : BenchOK stmts) (g : BGate) (hg : g ∈ benchGates stmts) :
    (benchGates stmts).find? (fun x => x.name == g.name) = some g := by
  cases hf : (benchGates stmts).find? (fun x => x.name == g.name) with
  | none =>
    rw [List.find?_eq_none] at hf
    have := hf g hg
    simp at this
  | some g' =>
    have h1 := List.mem_of_find?_eq_some hf
    have h2 := List.find?_some hf
    rw [hok.gate_eq h1 hg (by simpa using h2)]

/-- values at reader end points induced by an environment: a fork sees its own signal, pin `k` of a gate its `k`-th operand -/
def wOf {α : Type u} (stmts : List BStmt) (σ : String → α) : Ep → α
  | .fork s => σ s
  | .cell n k => match (benchGates stmts).find? (fun x => x.name == n) with
    | some g => σ (g.drv.getD k "")
    | none => σ ""

theorem wOf_cell {α : Type u} (hok : BenchOK stmts) (g : BGate) (hg : g ∈ benchGates stmts) (σ : String → α) (k : Nat) (hk : k < g.drv.length) :
    wOf stmts σ (.cell g.name k) = σ g.drv[k] := by
  simp only [wOf, find_gate hok g hg, List.getD_eq_getElem?_getD, List.getElem?_eq_getElem hk, Option.getD_some]

theorem wOf_line {α : Type u} (hok : BenchOK stmts) (σ : String → α) (p : Ep × Ep) (hp : p ∈ benchL stmts) : wOf stmts σ p.2 = σ (sigOf p) := by
  obtain ⟨g, hg, h | ⟨k, hk, h⟩⟩ := (mem_benchL stmts p).mp hp
  · subst h; rfl
  · subst h; exact wOf_cell hok g hg σ k hk

/-- the gate equation of line `i` of `benchNet stmts` under a labelling that agrees with `w` on the lines -/
theorem bench_lineEq {α : Type u} (hok : BenchOK stmts) (z : α) (neg : α → α) (prim : String → α → α → α → α → α) (a : Nat → α)
    (v : Nat → α) (w : Ep → α) (hv : ∀ j (hj : j < (benchL stmts).length), v j = w (benchL stmts)[j].2)
    (i : Nat) (hi : i < (benchL stmts).length) :
    lineEq (benchNet stmts) (benchNet stmts).sPos z neg prim a v i =
      driveVal (benchL stmts) ((bench stmts).kindOf (benchL stmts)[i].1)
        ((benchNet stmts).sPos ((bench stmts).nodeIdx (benchL stmts)[i].1)) z neg prim a w (benchL stmts)[i].1 := by
  have hfl : flatLines (bench stmts) = benchL stmts := bench_flat stmts
  have hd : (bench stmts).resolved (benchL stmts)[i].1 := bench_resolved_driver hok _ (List.getElem_mem hi)
  have := toNet_lineEq_agree (bench stmts) (bench stmts).ioBench (benchNet stmts).sPos z neg prim a v w
    (by simp only [hfl]; exact hv) i (by rw [hfl]; exact hi) (by simp only [hfl]; exact hd)
  simp only [hfl] at this
  exact this

/-- … for a line that leaves a fork -/
theorem bench_lineEq_fork {α : Type u} (hok : BenchOK stmts) (z : α) (neg : α → α) (prim : String → α → α → α → α → α) (a : Nat → α)
    (v : Nat → α) (w : Ep → α) (hv : ∀ j (hj : j < (benchL stmts).length), v j = w (benchL stmts)[j].2)
    (i : Nat) (hi : i < (benchL stmts).length) (s : String) (r : Ep) (hl : (benchL stmts)[i] = (.fork s, r)) :
    lineEq (benchNet stmts) (benchNet stmts).sPos z neg prim a v i =
      if isGateName stmts s then w (.fork s) else freeVal stmts z a s := by
  have hd : (bench stmts).resolved (.fork s) := by
    have := bench_resolved_driver hok _ (List.getElem_mem hi)
    rw [hl] at this; exact this
  rw [bench_lineEq hok z neg prim a v w hv i hi]
  simp only [hl]
  rw [kindOf_fork _ s hd, benchNet_sPos_fork hok s hd]
  exact driveVal_fork z neg prim a w s

/-- … for the line from the cell of a gate statement to its fork -/
theorem bench_lineEq_cell {α : Type u} (hok : BenchOK stmts) (z : α) (neg : α → α) (prim : String → α → α → α → α → α) (a : Nat → α)
    (v : Nat → α) (w : Ep → α) (hv : ∀ j (hj : j < (benchL stmts).length), v j = w (benchL stmts)[j].2)
    (i : Nat) (hi : i < (benchL stmts).length) (g : BGate) (hg : g ∈ benchGates stmts) (r : Ep)
    (hl : (benchL stmts)[i] = (.cell g.name 0, r)) (σ : String → α)
    (hw : ∀ k (hk : k < g.drv.length), w (.cell g.name k) = σ g.drv[k]) :
    lineEq (benchNet stmts) (benchNet stmts).sPos z neg prim a v i = stmtVal stmts z prim a g σ := by
  rw [bench_lineEq hok z neg prim a v w hv i hi]
  simp only [hl]
  rw [bench_kindOf_cell hok g hg 0, benchNet_sPos_cell hok g hg 0]
  exact driveVal_cell hok g hg z neg prim a w σ hw

theorem benchNet_lines_size : (benchNet stmts).lines.size = (benchL stmts).length := by
  unfold benchNet
  rw [toNet_lines_size, bench_flat]
  rfl

theorem benchSigs_length : (benchSigs stmts).length = (benchL stmts).length := by
  rw [benchSigs_eq]; simp [benchL]

/-! ## soundness: a model induces a consistent labelling -/

theorem bench_model_labelling {α : Type u} (hok : BenchOK stmts) (z : α) (neg : α → α) (prim : String → α → α → α → α → α) (a : Nat → α)
    (σ : String → α) (hm : BenchModel stmts z prim a σ) :
    NetLabelling (benchNet stmts) z neg prim a (benchLabel stmts σ) := by
  intro i hi
  rw [benchNet_lines_size] at hi
  have hv : ∀ j (hj : j < (benchL stmts).length), benchLabel stmts σ j = wOf stmts σ (benchL stmts)[j].2 := by
    intro j hj
    rw [benchLabel_eq σ j hj, wOf_line hok σ _ (List.getElem_mem hj)]
  rw [benchLabel_eq σ i hi]
  obtain ⟨g, hg, h | ⟨k, hk, h⟩⟩ := (mem_benchL stmts _).mp (List.getElem_mem hi)
  · rw [bench_lineEq_cell hok z neg prim a _ _ hv i hi g hg _ h σ (fun k hk => wOf_cell hok g hg σ k hk), h]
    exact hm.1 g hg
  · rw [bench_lineEq_fork hok z neg prim a _ _ hv i hi _ _ h, h]
    show σ g.drv[k] = _
    by_cases hgn : isGateName stmts g.drv[k] = true
    · simp only [hgn, if_true]; rfl
    · simp only [hgn, Bool.false_eq_true, if_false]
      exact hm.2 _ (by simpa using hgn)

/-! ## completeness: a consistent labelling comes from a model -/

/-- the environment read off a labelling: a gate name carries what the line into its fork carries, any other name its free value -/
def envOfLabel {α : Type u} (stmts : List BStmt) (z : α) (a : Nat → α) (v : Nat → α) (s : String) : α :=
  if isGateName stmts s then v ((inLineOf (benchL stmts) (.fork s)).getD 0) else freeVal stmts z a s

theorem bench_labelling_model {α : Type u} (hok : BenchOK stmts) (z : α) (neg : α → α) (prim : String → α → α → α → α → α) (a : Nat → α)
    (v : Nat → α) (hc : NetLabelling (benchNet stmts) z neg prim a v) :
    BenchModel stmts z prim a (envOfLabel stmts z a v) ∧
    ∀ i, i < (benchNet stmts).lines.size → v i = benchLabel stmts (envOfLabel stmts z a v) i := by
  have hnd := benchL_readers_nodup stmts hok
  let w : Ep → α := fun e => v ((inLineOf (benchL stmts) e).getD 0)
  have hv : ∀ j (hj : j < (benchL stmts).length), v j = w (benchL stmts)[j].2 := by
    intro j hj
    show v j = v ((inLineOf (benchL stmts) (benchL stmts)[j].2).getD 0)
    rw [inLineOf_self _ hnd j hj]; rfl
  -- (1) every line carries the value of its signal
  have h1 : ∀ i (hi : i < (benchL stmts).length), v i = envOfLabel stmts z a v (sigOf (benchL stmts)[i]) := by
    intro i hi
    obtain ⟨g, hg, h | ⟨k, hk, h⟩⟩ := (mem_benchL stmts _).mp (List.getElem_mem hi)
    · rw [h]
      show v i = envOfLabel stmts z a v g.name
      unfold envOfLabel
      rw [(isGateName_iff _ _).mpr ⟨g, hg, rfl⟩]
      simp only [if_true]
      have : (benchL stmts)[i].2 = .fork g.name := by rw [h]
      rw [← this, inLineOf_self _ hnd i hi]; rfl
    · rw [hc i (by rw [benchNet_lines_size]; exact hi), bench_lineEq_fork hok z neg prim a v w hv i hi _ _ h, h]
      rfl
  have hw : ∀ (g : BGate), g ∈ benchGates stmts → ∀ k (hk : k < g.drv.length),
      w (.cell g.name k) = envOfLabel stmts z a v g.drv[k] := by
    intro g hg k hk
    have hmem : (Ep.fork g.drv[k], Ep.cell g.name k) ∈ benchL stmts := (mem_benchL _ _).mpr ⟨g, hg, Or.inr ⟨k, hk, rfl⟩⟩
    obtain ⟨j, hj, hjl⟩ := List.getElem_of_mem hmem
    have := h1 j hj
    rw [hv j hj, hjl] at this
    exact this
  refine ⟨⟨?_, ?_⟩, ?_⟩
  · intro g hg
    have hmem : (Ep.cell g.name 0, Ep.fork g.name) ∈ benchL stmts := (mem_benchL _ _).mpr ⟨g, hg, Or.inl rfl⟩
    obtain ⟨j, hj, hjl⟩ := List.getElem_of_mem hmem
    have e1 := h1 j hj
    rw [hjl] at e1
    have e1' : v j = envOfLabel stmts z a v g.name := e1
    rw [← e1', hc j (by rw [benchNet_lines_size]; exact hj)]
    exact bench_lineEq_cell hok z neg prim a v w hv j hj g hg _ hjl _ (hw g hg)
  · intro s hs
    unfold envOfLabel
    simp [hs]
  · intro i hi
    rw [benchNet_lines_size] at hi
    rw [benchLabel_eq _ i hi]
    exact h1 i hi

/-! ## one model per labelling -/

theorem bench_model_unique {α : Type u} (_hok : BenchOK stmts) (z : α) (prim : String → α → α → α → α → α) (a : Nat → α)
    (σ σ' : String → α) (hm : BenchModel stmts z prim a σ) (hm' : BenchModel stmts z prim a σ')
    (h : ∀ i, i < (benchNet stmts).lines.size → benchLabel stmts σ i = benchLabel stmts σ' i) : σ = σ' := by
  funext s
  by_cases hg : isGateName stmts s = true
  · obtain ⟨g, hg1, rfl⟩ := (isGateName_iff _ _).mp hg
    have hmem : (Ep.cell g.name 0, Ep.fork g.name) ∈ benchL stmts := (mem_benchL _ _).mpr ⟨g, hg1, Or.inl rfl⟩
    obtain ⟨j, hj, hjl⟩ := List.getElem_of_mem hmem
    have := h j (by rw [benchNet_lines_size]; exact hj)
    rw [benchLabel_eq σ j hj, benchLabel_eq σ' j hj, hjl] at this
    exact this
  · rw [hm.2 s (by simpa using hg), hm'.2 s (by simpa using hg)]

end KV.Netlist
