import KyupyVerif.Proofs.SubstSem7
/-! Helper lemmas for C10 (`substitute_sem`), part 8: direction "host with hole + implementation ⇒ result": a labelling
of the host that is consistent outside the cell and a consistent labelling of the implementation with matching port
values glue to a consistent labelling of the result. -/
namespace KV.Transform
open KV

/-- the implementation node whose copy is host node `x` -/
def mapInv (m : NNet) (map : Array (Option Nat)) (x : Nat) : Nat :=
  ((List.range m.net.nodes.size).find? fun j => map.getD j none == some x).getD 0

/-- the glued labelling: host lines keep their value, the `t`-th copied line carries the value of its original -/
def glueV {α} (h m : NNet) (map : Array (Option Nat)) (v vm : Nat → α) (l : Nat) : α :=
  if l < h.net.lines.size then v l else vm ((copiedLines m map).getD (l - h.net.lines.size) 0)

/-- the glued assignment: host nodes other than the cell keep theirs, the cell and the new nodes take the assignment of
    their originals -/
def glueA {α} (h : NNet) (c : Nat) (m : NNet) (map : Array (Option Nat)) (an anm : Nat → α) (x : Nat) : α :=
  if x < h.net.nodes.size ∧ x ≠ c then an x else anm (mapInv m map x)

section cert
variable {h : NNet} {c : Nat} {m : NNet} {sh : Shape} {dn : Nat} {map : Array (Option Nat)} {h' : NNet}
variable (ct : SubstCert h c m sh dn map h')
include ct

theorem SubstCert.mapInv_eq (j x : Nat) (hm : map.getD j none = some x) : mapInv m map x = j := by
  have hj := ct.mapM j x hm
  simp only [mapInv]
  cases hf : (List.range m.net.nodes.size).find? (fun j => map.getD j none == some x) with
  | none =>
    rw [List.find?_eq_none] at hf
    have := hf j (List.mem_range.mpr hj)
    simp [hm] at this
  | some j' =>
    have := List.find?_some hf
    simp only [beq_iff_eq] at this
    simp only [Option.getD_some]
    exact ct.mapInj _ _ _ this hm

variable {α : Type _} (z : α) (neg : α → α) (prim : String → α → α → α → α → α) (an v anm vm : Nat → α)

theorem SubstCert.bw_host (l : Nat) (hl : l < h.net.lines.size) : glueV h m map v vm l = v l := by
  simp [glueV, hl]

theorem SubstCert.bw_new (t : Nat) (ht : t < (copiedLines m map).length) :
    glueV h m map v vm (h.net.lines.size + t) = vm (copiedLines m map)[t] := by
  have : ¬ h.net.lines.size + t < h.net.lines.size := by omega
  simp [glueV, this, List.getD_eq_getElem?_getD, List.getElem?_eq_getElem ht]

theorem SubstCert.bw_hostA (d : Nat) (hd : d < h.net.nodes.size) (hne : d ≠ c) : glueA h c m map an anm d = an d := by
  simp [glueA, hd, hne]

theorem SubstCert.bw_hA (j x : Nat) (_hj : j ∉ m.net.io) (hm : map.getD j none = some x) :
    anm j = glueA h c m map an anm x := by
  have : ¬ (x < h.net.nodes.size ∧ x ≠ c) := by
    rcases ct.mapGe j x hm with e | e
    · simp [e]
    · omega
  simp only [glueA, this, if_false]
  rw [ct.mapInv_eq j x hm]

theorem SubstCert.bw_portVal (p : Nat) : portVal h c sh z (glueV h m map v vm) p = portVal h c sh z v p := by
  simp only [portVal]
  cases hll : instIn h c (sh.inPorts.idxOf p) with
  | none => rfl
  | some ll =>
    exact ct.bw_host v vm ll (ct.hwf.fwdIn c ct.hc _ ll hll).1

theorem SubstCert.bw_agree (hM : ImplMatches h c m sh z neg prim anm vm v) : Agree ct (glueV h m map v vm) vm := by
  constructor
  · intro t ht; exact ct.bw_new v vm t ht
  · intro k ll inn i0 hll hinn hlen hh
    have hin : inn ∈ sh.inPorts := List.mem_of_getElem? hinn
    obtain ⟨hlt, hdrv, _⟩ := ct.single_not_copied inn i0 hin hlen hh
    have hio := ((mem_inPorts ct.shape inn).mp hin).1
    rw [ct.bw_host v vm ll (ct.hwf.fwdIn c ct.hc _ ll hll).1]
    rw [hM.1 i0 (by rw [cutIns_lsize]; exact hlt), ct.lineEq_inPort z neg prim anm vm i0 (by rw [hdrv]; exact hin), hdrv,
      hM.2.1 inn hio]
    simp [portVal, inPorts_idxOf ct.shape ct.ioNodup k inn hinn, hll]

/-- **gluing**: the glued labelling is consistent for the result -/
theorem SubstCert.bw_cons (S : Nat → Prop) (hH : ConsOff h (fun d => S d ∨ d = c) z neg prim an v)
    (hM : ImplMatches h c m sh z neg prim anm vm v) :
    ConsOff h' S z neg prim (glueA h c m map an anm) (glueV h m map v vm) := by
  have ag := ct.bw_agree z neg prim v anm vm hM
  have hA : ∀ j x, j ∉ m.net.io → map.getD j none = some x → anm j = glueA h c m map an anm x :=
    fun j x hj hm => ct.bw_hA an anm j x hj hm
  have hP : ∀ p ∈ m.net.io, anm p = portVal h c sh z (glueV h m map v vm) p := by
    intro p hp; rw [ct.bw_portVal z v vm p]; exact hM.2.1 p hp
  intro l' hl' hnS
  rcases ct.line_split l' hl' with hlt | ⟨t, ht, e⟩
  · rw [ct.bw_host v vm l' hlt]
    by_cases hd : (h.net.line l').driver = c
    · -- a line at an output pin of the instance
      have hout : instOut h c (h.net.line l').dpin = some l' := by
        have := (ct.hwf.back l' hlt).2.2
        rw [hd] at this; exact this
      obtain ⟨il, _, _, hk, _, _, _⟩ := ct.outWire _ l' hout
      rw [ct.eq_outline z neg prim _ _ anm vm ag hA hP hM.1 _ il l' hk hout]
      exact (hM.2.2 _ il l' hk hout).symm
    · rw [hH l' hlt (by
          rintro (hs | hs)
          · exact hnS (by rw [(ct.drvFrame l' hlt hd).1]; exact hs)
          · exact hd hs)]
      exact (ct.eq_hostline z neg prim an _ v _ (fun l hl => ct.bw_host v vm l hl)
        (fun d hd hne => ct.bw_hostA an anm d hd hne) l' hlt hd).symm
  · subst e
    obtain ⟨hi, xd, xr, h1, h2, hline⟩ := ct.new_fields t ht
    rw [ct.bw_new v vm t ht, hM.1 _ (by rw [cutIns_lsize]; exact hi)]
    exact (ct.eq_line z neg prim _ _ anm vm ag hA hP _ _ xd h1 (by rw [hline]) (by rw [hline])).symm

end cert
end KV.Transform
