import KyupyVerif.Proofs.WaveInit

namespace KV.Wave

theorem pend_pick (D : Delays) (terms : Fin 4 → T) (s : St) : pend D terms s (pick D terms s) = cur D terms s := by
  unfold pick
  simp only []
  split
  · assumption
  · split
    · assumption
    · split
      · assumption
      · rename_i h0 h1 h2
        unfold cur at *
        rcases T.min_cases (T.min (pend D terms s 0) (pend D terms s 1)) (T.min (pend D terms s 2) (pend D terms s 3)) with e | e
        · rcases T.min_cases (pend D terms s 0) (pend D terms s 1) with e' | e'
          · exact absurd (by rw [e, e']) h0
          · exact absurd (by rw [e, e']) h1
        · rcases T.min_cases (pend D terms s 2) (pend D terms s 3) with e' | e'
          · exact absurd (by rw [e, e']) h2
          · rw [e, e']

def total (s : St) : Nat := (s.r 0).length + (s.r 1).length + (s.r 2).length + (s.r 3).length

theorem term_not_lt_tmax (a : T) (h : a.isTerm = true) : T.lt a .tmax = false := by
  cases a <;> simp_all [T.isTerm, T.lt, T.rank]

theorem pick_nonempty (E : Env) (s : St) (hlt : T.lt (cur E.D E.terms s) .tmax = true) :
    s.r (pick E.D E.terms s) ≠ [] := by
  intro hnil
  have hp := pend_pick E.D E.terms s
  unfold pend at hp
  rw [hnil] at hp
  simp only [headT] at hp
  have : (cur E.D E.terms s).isTerm = true := by rw [← hp, T.add_isTerm]; exact E.hterm _
  rw [term_not_lt_tmax _ this] at hlt; exact absurd hlt (by simp)

theorem total_upd (s : St) (i : Fin 4) (l : List T) :
    (upd s.r i l 0).length + (upd s.r i l 1).length + (upd s.r i l 2).length + (upd s.r i l 3).length + (s.r i).length
      = total s + l.length := by
  unfold total upd
  match i with
  | 0 => simp; omega
  | 1 => simp; omega
  | 2 => simp; omega
  | 3 => simp; omega

theorem step_total (E : Env) (s : St) (hlt : T.lt (cur E.D E.terms s) .tmax = true) :
    total (step E.lut E.D E.terms E.zcap s) + 1 = total s := by
  have hne := pick_nonempty E s hlt
  have hlen : (s.r (pick E.D E.terms s)).tail.length + 1 = (s.r (pick E.D E.terms s)).length := by
    cases h : s.r (pick E.D E.terms s) with
    | nil => exact absurd h hne
    | cons x xs => simp
  have := total_upd s (pick E.D E.terms s) (s.r (pick E.D E.terms s)).tail
  show total (step E.lut E.D E.terms E.zcap s) + 1 = total s
  unfold total at *
  rw [step_r]
  omega

theorem min_not_lt (a b c : T) (ha : T.lt a c = false) (hb : T.lt b c = false) : T.lt (T.min a b) c = false := by
  rcases T.min_cases a b with e | e <;> rw [e] <;> assumption

theorem done_of_total_zero (E : Env) (s : St) (h : total s = 0) : T.lt (cur E.D E.terms s) .tmax = false := by
  have hnil : ∀ i, s.r i = [] := by
    intro i
    unfold total at h
    match i with
    | 0 => exact List.eq_nil_of_length_eq_zero (by omega)
    | 1 => exact List.eq_nil_of_length_eq_zero (by omega)
    | 2 => exact List.eq_nil_of_length_eq_zero (by omega)
    | 3 => exact List.eq_nil_of_length_eq_zero (by omega)
  have hp : ∀ i, T.lt (pend E.D E.terms s i) .tmax = false := by
    intro i
    apply term_not_lt_tmax
    unfold pend; rw [hnil i]; simp [headT, T.add_isTerm, E.hterm i]
  unfold cur
  exact min_not_lt _ _ _ (min_not_lt _ _ _ (hp 0) (hp 1)) (min_not_lt _ _ _ (hp 2) (hp 3))

/-- the fuel `total s` always suffices: the loop guard is false at the result -/
theorem run_done (E : Env) (fuel : Nat) (s : St) (h : total s ≤ fuel) :
    T.lt (cur E.D E.terms (run E.lut E.D E.terms E.zcap fuel s)) .tmax = false := by
  induction fuel generalizing s with
  | zero => simp only [run]; exact done_of_total_zero E s (by omega)
  | succ n ih =>
    unfold run; split
    · rename_i hlt
      apply ih
      have := step_total E s hlt; omega
    · rename_i hn; simpa using hn

/-- cursor invariant: the remaining list is the original waveform with the first `k` entries dropped -/
def DInv (ws : Fin 4 → List T) (s : St) : Prop := ∀ i, s.r i = (ws i).drop (s.k i) ∧ s.k i ≤ (ws i).length

theorem step_dinv (E : Env) (ws) (s : St) (h : DInv ws s) (hlt : T.lt (cur E.D E.terms s) .tmax = true) :
    DInv ws (step E.lut E.D E.terms E.zcap s) := by
  intro i
  rw [step_r, step_k]
  unfold upd
  split
  · rename_i hi; subst hi
    have hne := pick_nonempty E s hlt
    obtain ⟨hr, hk⟩ := h (pick E.D E.terms s)
    refine ⟨by rw [hr, List.tail_drop], ?_⟩
    rw [hr] at hne
    have : s.k (pick E.D E.terms s) < (ws (pick E.D E.terms s)).length := by
      rcases Nat.lt_or_ge (s.k (pick E.D E.terms s)) (ws (pick E.D E.terms s)).length with h | h
      · exact h
      · exact absurd (List.drop_eq_nil_iff.mpr h) hne
    omega
  · exact h i

theorem run_inv3 (E : Env) (ws) (fuel : Nat) (s : St) (hd : DInv ws s) (hk : KInv s) :
    DInv ws (run E.lut E.D E.terms E.zcap fuel s) ∧ KInv (run E.lut E.D E.terms E.zcap fuel s) := by
  induction fuel generalizing s with
  | zero => exact ⟨hd, hk⟩
  | succ n ih =>
    unfold run; split
    · rename_i hlt; exact ih _ (step_dinv E ws s hd hlt) (step_kinv _ _ _ _ s hk)
    · exact ⟨hd, hk⟩

theorem lt_tmax_of_wf (e : T) (h : e = T.tmin ∨ e.isFin = true) (d : Int) : T.lt (e.add d) .tmax = true := by
  rcases h with rfl | h
  · simp [T.add, T.lt, T.rank]
  · cases e <;> simp_all [T.isFin, T.add, T.lt, T.rank]

theorem T.lt_trans' (b a c : T) (h1 : T.lt b a = true) (h2 : T.lt a c = true) : T.lt b c = true := by
  cases a <;> cases b <;> cases c <;> simp [T.lt, T.rank] at * <;> try omega
  rename_i x y z
  have := of_decide_eq_true h1; have := of_decide_eq_true h2
  exact decide_eq_true (by omega)
theorem T.lt_of_not_lt (b a c : T) (h1 : T.lt b a = false) (h2 : T.lt b c = true) : T.lt a c = true := by
  cases a <;> cases b <;> cases c <;> simp [T.lt, T.rank] at * <;> try omega
  rename_i x y z
  have := of_decide_eq_false h1; have := of_decide_eq_true h2
  exact decide_eq_true (by omega)
theorem lt_of_min_left (a b c : T) (h : T.lt a c = true) : T.lt (T.min a b) c = true := by
  unfold T.min; split
  · rename_i hba; exact T.lt_trans' b a c hba h
  · exact h
theorem lt_of_min_right (a b c : T) (h : T.lt b c = true) : T.lt (T.min a b) c = true := by
  unfold T.min; split
  · exact h
  · rename_i hba; exact T.lt_of_not_lt b a c (by simpa using hba) h

/-- when the guard is false every operand has been consumed completely -/
theorem empty_of_done (E : Env) (s : St) (hwf : ∀ i, ∀ e ∈ s.r i, e = T.tmin ∨ e.isFin = true)
    (hdone : T.lt (cur E.D E.terms s) .tmax = false) : ∀ i, s.r i = [] := by
  intro i
  cases hr : s.r i with
  | nil => rfl
  | cons x xs =>
    exfalso
    have hp : T.lt (pend E.D E.terms s i) .tmax = true := by
      unfold pend; rw [hr]; simp only [headT]
      exact lt_tmax_of_wf x (hwf i x (by simp [hr])) _
    have : T.lt (cur E.D E.terms s) .tmax = true := by
      unfold cur
      match i with
      | 0 => exact lt_of_min_left _ _ _ (lt_of_min_left _ _ _ hp)
      | 1 => exact lt_of_min_left _ _ _ (lt_of_min_right _ _ _ hp)
      | 2 => exact lt_of_min_right _ _ _ (lt_of_min_left _ _ _ hp)
      | 3 => exact lt_of_min_right _ _ _ (lt_of_min_right _ _ _ hp)
    rw [this] at hdone; exact absurd hdone (by simp)

theorem total_init (lut : Nat) (ws : Fin 4 → List T) : total (init lut ws) = totalLen ws := rfl

/-- C03 (final value), gate level: the number of entries of the produced waveform is odd iff the LUT of the
operands' final values (parities of their lengths) is 1 — for every LUT, delays, capacity ≥ 4, overflow or not -/
theorem wave_gate_final (E : Env) (ws : Fin 4 → List T) (hwf : ∀ i, WfRem (ws i)) :
    ((run E.lut E.D E.terms E.zcap (totalLen ws) (init E.lut ws)).z.length % 2 == 1)
      = lutBit E.lut (fun i => (ws i).length % 2 == 1) := by
  have hq := run_Q E (initMask ws) (totalLen ws) _ (init_Q E ws hwf)
  have hdone := run_done E (totalLen ws) (init E.lut ws) (by rw [total_init]; exact Nat.le_refl _)
  have h3 := run_inv3 E ws (totalLen ws) (init E.lut ws) (by intro i; simp [init]) (by intro i; simp [init])
  generalize run E.lut E.D E.terms E.zcap (totalLen ws) (init E.lut ws) = s at *
  have hwf' : ∀ i, ∀ e ∈ s.r i, e = T.tmin ∨ e.isFin = true := by
    intro i e he
    rw [(h3.1 i).1] at he
    exact (hwf i).2 e (List.mem_of_mem_drop he)
  have hempty := empty_of_done E s hwf' hdone
  have hinp : s.inp = fun i => (ws i).length % 2 == 1 := by
    funext i
    rw [h3.2 i]
    have hd := (h3.1 i).1
    rw [hempty i] at hd
    have hge : (ws i).length ≤ s.k i := List.drop_eq_nil_iff.mp hd.symm
    have hle := (h3.1 i).2
    have : s.k i = (ws i).length := by omega
    rw [this]
  rw [← hinp]
  exact hq.1.1.trans hq.1.2

/-- C03 (initial value), gate level, with the fuel that `waveEval` actually uses -/
theorem wave_gate_init (E : Env) (ws : Fin 4 → List T) (hwf : ∀ i, WfRem (ws i)) :
    bot (run E.lut E.D E.terms E.zcap (totalLen ws) (init E.lut ws)).z = lutBit E.lut (initMask ws) :=
  run_init E ws hwf _ (run_done E (totalLen ws) (init E.lut ws) (by rw [total_init]; exact Nat.le_refl _))

end KV.Wave
