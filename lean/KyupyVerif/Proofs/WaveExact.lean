import KyupyVerif.Proofs.Capture
/-! Overflow indicator: a waveform whose terminator is not the overflow marker is exactly the waveform
computed with any larger capacities (C13). -/
namespace KV.Wave
open KV KV.Sig

theorem T.max_ne_tovl {a b : T} (h : T.max a b ≠ T.tovl) : a ≠ T.tovl ∧ b ≠ T.tovl := by
  unfold T.max at h
  constructor
  · intro ha; subst ha
    cases b <;> simp [T.lt, T.rank] at h
  · intro hb; subst hb
    cases a <;> simp [T.lt, T.rank] at h

theorem T.add_term {a : T} (h : a.isTerm = true) (d : Int) : a.add d = a := by
  cases a <;> simp [T.isTerm] at h <;> rfl

/-- gate level: a clear terminator means no overflow happened here and no operand carried the marker -/
theorem waveSem_clear (cfg : WCfg) (op : Op) (xs : List Wv) (hd : ∀ l p q, 0 ≤ cfg.delay l p q)
    (hc : 4 ≤ cfg.cap op.out) (hx : ∀ x ∈ xs, x.ok) (hclear : (waveSem cfg op xs).term ≠ T.tovl) :
    (run op.code (opDelays cfg op) (fun i => (slot xs i).term) (cfg.cap op.out)
        (totalLen fun i => (slot xs i).ents) (init op.code fun i => (slot xs i).ents)).ovf = 0 ∧
    ∀ i, (slot xs i).term ≠ T.tovl := by
  have hs := slot_ok hx
  let E := envOf cfg op xs hd hc hs
  have hwf : ∀ i, WfRem ((fun i => (slot xs i).ents) i) := fun i => (hs i).1
  have hterm : (waveSem cfg op xs).term = (waveEval op.code (opDelays cfg op) (fun i => (slot xs i).ents)
      (fun i => (slot xs i).term) (cfg.cap op.out)).2.1 := rfl
  rw [hterm] at hclear
  unfold waveEval at hclear
  simp only [] at hclear
  split at hclear
  · exact absurd rfl hclear
  · rename_i hov
    refine ⟨by omega, ?_⟩
    have hdone := run_done E (totalLen fun i => (slot xs i).ents) (init E.lut fun i => (slot xs i).ents)
      (by rw [total_init]; exact Nat.le_refl _)
    have h3 := run_inv3 E (fun i => (slot xs i).ents) (totalLen fun i => (slot xs i).ents)
      (init E.lut fun i => (slot xs i).ents) (by intro i; simp [init]) (by intro i; simp [init])
    have hwf' : ∀ i, ∀ e ∈ (run E.lut E.D E.terms E.zcap (totalLen fun i => (slot xs i).ents)
        (init E.lut fun i => (slot xs i).ents)).r i, e = T.tmin ∨ e.isFin = true := by
      intro i e he
      rw [(h3.1 i).1] at he
      exact (hwf i).2 e (List.mem_of_mem_drop he)
    have hempty := empty_of_done E _ hwf' hdone
    have hp : ∀ i, pend E.D E.terms (run E.lut E.D E.terms E.zcap (totalLen fun i => (slot xs i).ents)
        (init E.lut fun i => (slot xs i).ents)) i = (slot xs i).term := by
      intro i
      unfold pend
      rw [hempty i]
      simp only [headT]
      exact T.add_term (hs i).2 _
    have h1 := T.max_ne_tovl hclear
    have h2 := T.max_ne_tovl h1.1
    have h3' := T.max_ne_tovl h1.2
    intro i
    have : i = 0 ∨ i = 1 ∨ i = 2 ∨ i = 3 := by omega
    rcases this with rfl | rfl | rfl | rfl
    · rw [← hp 0]; exact h2.1
    · rw [← hp 1]; exact h2.2
    · rw [← hp 2]; exact h3'.1
    · rw [← hp 3]; exact h3'.2

/-- `waveSem` reads its operand list only through the four slots -/
theorem waveSem_slots (cfg : WCfg) (op : Op) (xs ys : List Wv) (h : ∀ i, slot xs i = slot ys i) :
    waveSem cfg op xs = waveSem cfg op ys := by
  unfold waveSem
  have e1 : (fun i => (slot xs i).ents) = (fun i => (slot ys i).ents) := by funext i; rw [h i]
  have e2 : (fun i => (slot xs i).term) = (fun i => (slot ys i).term) := by funext i; rw [h i]
  rw [e1, e2]

def ExactRel (w w' : Wv) : Prop := w.ok ∧ (w.term ≠ T.tovl → w' = w)

/-- **every program**: wherever the overflow marker is absent, the waveform equals the one computed
    with any larger capacity vector (same delays, same inputs) — "clear means exact". -/
theorem clear_means_exact (cfg cfg' : WCfg) (hdel : cfg'.delay = cfg.delay) (hcap : ∀ i, cfg.cap i ≤ cfg'.cap i)
    (ops : List Op) (hg : cfg.Good ops) (env : Nat → Wv) (henv : ∀ l, (env l).ok) (l : Nat)
    (hclear : (simWave cfg ops env l).term ≠ T.tovl) :
    simWave cfg' ops env l = simWave cfg ops env l := by
  have key := execG_rel_on ExactRel (waveSem cfg) (waveSem cfg') ops ?_ env env (fun x => ⟨henv x, fun _ => rfl⟩) l
  · exact key.2 hclear
  · intro op hop xs ys hxy
    have hx : ∀ x ∈ xs, x.ok := by
      intro x hxm
      induction hxy with
      | nil => cases hxm
      | cons h _ ih =>
        rcases List.mem_cons.mp hxm with rfl | hm
        · exact h.1
        · exact ih hm
    refine ⟨waveSem_ok cfg op xs hg.delay_nonneg (hg.cap_ge op hop) hx, ?_⟩
    intro hcl
    obtain ⟨hov, hts⟩ := waveSem_clear cfg op xs hg.delay_nonneg (hg.cap_ge op hop) hx hcl
    have hslots : ∀ i, slot ys i = slot xs i := by
      intro i
      have := hxy.getD i.val Wv.empty Wv.empty ⟨Wv.empty_ok, fun _ => rfl⟩
      exact this.2 (hts i)
    rw [waveSem_slots cfg' op ys xs hslots]
    unfold waveSem waveEval
    have hD : opDelays cfg' op = opDelays cfg op := by unfold opDelays; rw [hdel]
    rw [hD]
    have hrun := run_cap_irrel op.code (opDelays cfg op) (fun i => (slot xs i).term) (cfg.cap op.out) (cfg'.cap op.out)
      (hcap op.out) (totalLen fun i => (slot xs i).ents) (init op.code fun i => (slot xs i).ents)
      (by rw [hov]; simp [init])
    simp only [hrun]

end KV.Wave
