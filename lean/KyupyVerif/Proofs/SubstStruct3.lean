import KyupyVerif.Proofs.SubstStruct2
/-! Helper lemmas for C10 (`substitute_sem`), structural part 3: the pin lists of the cell and of the new nodes.  They
start empty; `Line(...)` (`addLine`), `ll.reader = …` (`setReader`) and `ll.driver = …` (`setDriver`) write one entry
each.  `OwnPins`: the entry at pin `(x, k)` is line `l` iff `l` has been written and its final end point (`tR l` / `tD l`)
is `(x, k)`; kept by every write as long as no two written lines share an end point. -/
namespace KV.Transform
open KV

theorem nodeA_modify (ns : Array NodeD) (k d : Nat) (f : NodeD → NodeD) :
    nodeA (ns.modify k f) d = if d = k ∧ k < ns.size then f (nodeA ns d) else nodeA ns d := by
  simp only [nodeA, Array.getD_eq_getD_getElem?, Array.getElem?_modify]
  by_cases e : k = d
  · subst e
    by_cases hk : k < ns.size
    · simp [hk, Array.getElem?_eq_getElem hk]
    · simp [hk, Array.getElem?_eq_none (by omega : ns.size ≤ k)]
  · have : ¬ d = k := fun x => e x.symm
    simp [e, this]

structure OwnPins (own : Nat → Prop) (ns : Array NodeD) (WR WD : Nat → Prop) (tR tD : Nat → Nat × Nat) : Prop where
  ins : ∀ x k l, own x → ((nodeA ns x).ins.getD k none = some l ↔ WR l ∧ tR l = (x, k))
  outs : ∀ x k l, own x → ((nodeA ns x).outs.getD k none = some l ↔ WD l ∧ tD l = (x, k))
  trail : ∀ x, own x → noTrail (nodeA ns x).ins = true ∧ noTrail (nodeA ns x).outs = true

theorem OwnPins.congr {own : Nat → Prop} {ns : Array NodeD} {WR WD WR' WD' : Nat → Prop} {tR tD : Nat → Nat × Nat}
    (op : OwnPins own ns WR WD tR tD) (h1 : ∀ l, WR l ↔ WR' l) (h2 : ∀ l, WD l ↔ WD' l) : OwnPins own ns WR' WD' tR tD :=
  ⟨fun x k l hx => by rw [← h1 l]; exact op.ins x k l hx, fun x k l hx => by rw [← h2 l]; exact op.outs x k l hx, op.trail⟩

/-- `r.ins[rp] = l` -/
theorem OwnPins.writeIn {own : Nat → Prop} {ns : Array NodeD} {WR WD : Nat → Prop} {tR tD : Nat → Nat × Nat}
    (op : OwnPins own ns WR WD tR tD) (r rp l : Nat) (hr : r < ns.size) (ht : tR l = (r, rp))
    (hU : ∀ l', WR l' → tR l' ≠ (r, rp)) :
    OwnPins own (ns.modify r fun n => { n with ins := growSet n.ins rp (some l) }) (fun l' => WR l' ∨ l' = l) WD tR tD := by
  refine ⟨?_, ?_, ?_⟩
  · intro x k l0 hx
    rw [nodeA_modify]
    by_cases e : x = r
    · subst e
      simp only [hr, and_self, if_true]
      rw [getD_growSet]
      by_cases ek : k = rp
      · subst ek
        simp only [if_true]
        constructor
        · intro hh; have : l0 = l := (Option.some.inj hh).symm
          subst this; exact ⟨Or.inr rfl, ht⟩
        · rintro ⟨hw | hw, h2⟩
          · exact absurd h2 (hU l0 hw)
          · rw [hw]
      · simp only [ek, if_false]
        rw [op.ins x k l0 hx]
        constructor
        · rintro ⟨h1, h2⟩; exact ⟨Or.inl h1, h2⟩
        · rintro ⟨hw | hw, h2⟩
          · exact ⟨hw, h2⟩
          · subst hw; rw [ht] at h2
            exact absurd (Prod.mk.inj h2).2.symm ek
    · simp only [e, false_and, if_false]
      rw [op.ins x k l0 hx]
      constructor
      · rintro ⟨h1, h2⟩; exact ⟨Or.inl h1, h2⟩
      · rintro ⟨hw | hw, h2⟩
        · exact ⟨hw, h2⟩
        · subst hw; rw [ht] at h2
          exact absurd (Prod.mk.inj h2).1.symm e
  · intro x k l0 hx
    rw [nodeA_modify]
    split
    · exact op.outs x k l0 hx
    · exact op.outs x k l0 hx
  · intro x hx
    rw [nodeA_modify]
    split
    · exact ⟨noTrail_growSet_some _ _ _ (op.trail x hx).1, (op.trail x hx).2⟩
    · exact op.trail x hx

/-- `d.outs[dp] = l` -/
theorem OwnPins.writeOut {own : Nat → Prop} {ns : Array NodeD} {WR WD : Nat → Prop} {tR tD : Nat → Nat × Nat}
    (op : OwnPins own ns WR WD tR tD) (d dp l : Nat) (hd : d < ns.size) (ht : tD l = (d, dp))
    (hU : ∀ l', WD l' → tD l' ≠ (d, dp)) :
    OwnPins own (ns.modify d fun n => { n with outs := growSet n.outs dp (some l) }) WR (fun l' => WD l' ∨ l' = l) tR tD := by
  refine ⟨?_, ?_, ?_⟩
  · intro x k l0 hx
    rw [nodeA_modify]
    split
    · exact op.ins x k l0 hx
    · exact op.ins x k l0 hx
  · intro x k l0 hx
    rw [nodeA_modify]
    by_cases e : x = d
    · subst e
      simp only [hd, and_self, if_true]
      rw [getD_growSet]
      by_cases ek : k = dp
      · subst ek
        simp only [if_true]
        constructor
        · intro hh; have : l0 = l := (Option.some.inj hh).symm
          subst this; exact ⟨Or.inr rfl, ht⟩
        · rintro ⟨hw | hw, h2⟩
          · exact absurd h2 (hU l0 hw)
          · rw [hw]
      · simp only [ek, if_false]
        rw [op.outs x k l0 hx]
        constructor
        · rintro ⟨h1, h2⟩; exact ⟨Or.inl h1, h2⟩
        · rintro ⟨hw | hw, h2⟩
          · exact ⟨hw, h2⟩
          · subst hw; rw [ht] at h2
            exact absurd (Prod.mk.inj h2).2.symm ek
    · simp only [e, false_and, if_false]
      rw [op.outs x k l0 hx]
      constructor
      · rintro ⟨h1, h2⟩; exact ⟨Or.inl h1, h2⟩
      · rintro ⟨hw | hw, h2⟩
        · exact ⟨hw, h2⟩
        · subst hw; rw [ht] at h2
          exact absurd (Prod.mk.inj h2).1.symm e
  · intro x hx
    rw [nodeA_modify]
    split
    · exact ⟨(op.trail x hx).1, noTrail_growSet_some _ _ _ (op.trail x hx).2⟩
    · exact op.trail x hx

end KV.Transform

namespace KV.Transform
open KV

/-- final end points of a line, read from the final line table `F` -/
def tRof (F : Array LineD) (l : Nat) : Nat × Nat := ((lineA F l).reader, (lineA F l).rpin)
def tDof (F : Array LineD) (l : Nat) : Nat × Nat := ((lineA F l).driver, (lineA F l).dpin)

theorem lineA_append_left (a b : Array LineD) (l : Nat) (h : l < a.size) : lineA (a ++ b) l = lineA a l := by
  simp [lineA, Array.getD_eq_getD_getElem?, Array.getElem?_append, h]

theorem lineA_push_eq (a : Array LineD) (x : LineD) : lineA (a.push x) a.size = x := by
  simp [lineA, Array.getD_eq_getD_getElem?, Array.getElem?_push]

theorem copL_some {map : Array (Option Nat)} {ln : LineD} (h : copL map ln = true) :
    map.getD ln.driver none = some (mkL map ln).driver ∧ map.getD ln.reader none = some (mkL map ln).reader := by
  simp only [copL, Bool.and_eq_true, Option.isSome_iff_exists] at h
  obtain ⟨⟨a, ha⟩, ⟨b, hb⟩⟩ := h
  simp [mkL, ha, hb]

/-- the loop `for l in impl.lines: Line(...)` on the pin lists of the cell and the new nodes -/
theorem phase3_own (own : Nat → Prop) (map : Array (Option Nat)) (F : Array LineD) (L N Lfin : Nat)
    (hmap : ∀ j x, map.getD j none = some x → x < N)
    (hUR : ∀ l1 l2, L ≤ l1 → L ≤ l2 → l1 < Lfin → l2 < Lfin → tRof F l1 = tRof F l2 → l1 = l2)
    (hUD : ∀ l1 l2, L ≤ l1 → L ≤ l2 → l1 < Lfin → l2 < Lfin → tDof F l1 = tDof F l2 → l1 = l2) :
    ∀ (lns : List LineD) (st fin : Array NodeD × Array LineD), fin = lns.foldl (addImplLine map) st →
    st.1.size = N → L ≤ st.2.size → fin.2.size ≤ Lfin →
    (∀ l, st.2.size ≤ l → l < fin.2.size → lineA F l = lineA fin.2 l) →
    OwnPins own st.1 (fun l => L ≤ l ∧ l < st.2.size) (fun l => L ≤ l ∧ l < st.2.size) (tRof F) (tDof F) →
    OwnPins own fin.1 (fun l => L ≤ l ∧ l < fin.2.size) (fun l => L ≤ l ∧ l < fin.2.size) (tRof F) (tDof F) ∧ fin.1.size = N
  | [], st, fin, hfin, hN, _, _, _, op => by
    subst hfin; exact ⟨op, hN⟩
  | ln :: lns, st, fin, hfin, hN, hL, hLf, hF, op => by
    simp only [List.foldl_cons] at hfin
    rw [addImplLine_eq] at hfin
    by_cases hc : copL map ln = true
    · simp only [hc, if_true] at hfin
      have hlines : fin.2 = (st.2.push ⟨(mkL map ln).driver, ln.dpin, (mkL map ln).reader, ln.rpin⟩) ++
          ((lns.filter (copL map)).map (mkL map)).toArray := by
        rw [hfin, foldl_addImplLine_lines]; rfl
      have hsz : st.2.size < fin.2.size := by rw [hlines]; simp
      have hline : lineA F st.2.size = ⟨(mkL map ln).driver, ln.dpin, (mkL map ln).reader, ln.rpin⟩ := by
        rw [hF st.2.size (Nat.le_refl _) hsz, hlines, lineA_append_left _ _ _ (by simp), lineA_push_eq]
      obtain ⟨hmd, hmr⟩ := copL_some hc
      have hd : (mkL map ln).driver < st.1.size := by rw [hN]; exact hmap _ _ hmd
      have hr : (mkL map ln).reader < st.1.size := by rw [hN]; exact hmap _ _ hmr
      have op1 := op.writeOut (mkL map ln).driver ln.dpin st.2.size hd (by simp [tDof, hline]) (by
        intro l' hl' e
        have : tDof F l' = tDof F st.2.size := by rw [e]; simp [tDof, hline]
        have := hUD l' st.2.size hl'.1 hL (by omega) (by omega) this
        omega)
      have op2 := op1.writeIn (mkL map ln).reader ln.rpin st.2.size (by simpa using hr) (by simp [tRof, hline]) (by
        intro l' hl' e
        have : tRof F l' = tRof F st.2.size := by rw [e]; simp [tRof, hline]
        have := hUR l' st.2.size hl'.1 hL (by omega) (by omega) this
        omega)
      have hW : ∀ l, ((L ≤ l ∧ l < st.2.size) ∨ l = st.2.size) ↔ (L ≤ l ∧ l < st.2.size + 1) := by
        intro l; constructor
        · rintro (h | h) <;> omega
        · intro h; by_cases e : l = st.2.size
          · exact Or.inr e
          · exact Or.inl ⟨h.1, by omega⟩
      have op3 := op2.congr hW hW
      exact phase3_own own map F L N Lfin hmap hUR hUD lns
        (addLine st (mkL map ln).driver ln.dpin (mkL map ln).reader ln.rpin) fin hfin
        (by simp [addLine, hN]) (by simp [addLine]; omega) hLf
        (fun l h1 h2 => hF l (by simp [addLine] at h1; omega) h2)
        (by simpa [addLine] using op3)
    · simp only [hc, Bool.false_eq_true, if_false] at hfin
      exact phase3_own own map F L N Lfin hmap hUR hUD lns st fin hfin hN hL hLf hF op

/-- the loop that connects the instance's input lines, on the pin lists (no ignored input) -/
theorem connectIns_own (own : Nat → Prop) (m : NNet) (map : Array (Option Nat)) (tR tD : Nat → Nat × Nat) (N : Nat) :
    ∀ (l : List (Nat × Option Nat)) (net : Net) (st' : Net × (Option Nat → Option Nat)) (WR WD : Nat → Prop),
    connectIns m map l (net, id) = some st' → NoIgnored m l → net.nodes.size = N →
    (∀ inn ll r rp, (inn, some ll) ∈ l → inTarget m map inn = some (r, rp) → tR ll = (r, rp) ∧ r < N) →
    (∀ l1 l2, (WR l1 ∨ l1 ∈ l.filterMap (·.2)) → (WR l2 ∨ l2 ∈ l.filterMap (·.2)) → tR l1 = tR l2 → l1 = l2) →
    (l.filterMap (·.2)).Nodup → (∀ ll ∈ l.filterMap (·.2), ¬ WR ll) →
    OwnPins own net.nodes WR WD tR tD →
    OwnPins own st'.1.nodes (fun x => WR x ∨ x ∈ l.filterMap (·.2)) WD tR tD ∧ st'.1.nodes.size = N
  | [], net, st', WR, WD, he, _, hN, _, _, _, _, op => by
    simp only [connectIns] at he
    cases he
    exact ⟨op.congr (fun l => by simp) (fun _ => Iff.rfl), hN⟩
  | (inn, none) :: rest, net, st', WR, WD, he, hni, hN, ht, hU, hnd, hnw, op => by
    simp only [connectIns, id] at he
    have := connectIns_own own m map tR tD N rest net st' WR WD he (fun p hp => hni p (List.mem_cons_of_mem _ hp)) hN
      (fun inn ll r rp hm => ht inn ll r rp (List.mem_cons_of_mem _ hm))
      (by simpa [List.filterMap_cons] using hU) (by simpa [List.filterMap_cons] using hnd)
      (by simpa [List.filterMap_cons] using hnw) op
    simpa [List.filterMap_cons] using this
  | (inn, some ll0) :: rest, net, st', WR, WD, he, hni, hN, ht, hU, hnd, hnw, op => by
    have hno : ((m.net.node inn).outs.length == 0) = false := hni (inn, some ll0) List.mem_cons_self rfl
    simp only [connectIns, id] at he
    simp only [hno, Bool.false_eq_true, if_false] at he
    have hnd' : ll0 ∉ rest.filterMap (·.2) ∧ (rest.filterMap (·.2)).Nodup := by
      simpa [List.filterMap_cons] using hnd
    split at he
    · exact absurd he (by simp)
    · rename_i r rp htgt
      obtain ⟨htr, hr⟩ := ht inn ll0 r rp List.mem_cons_self htgt
      have hnw0 : ¬ WR ll0 := hnw ll0 (by simp [List.filterMap_cons])
      have op1 := op.writeIn r rp ll0 (by rw [hN]; exact hr) htr (by
        intro l' hl' e
        have := hU l' ll0 (Or.inl hl') (Or.inr (by simp [List.filterMap_cons])) (e.trans htr.symm)
        subst this; exact hnw0 hl')
      have ih := connectIns_own own m map tR tD N rest (setReader net ll0 r rp) st' (fun x => WR x ∨ x = ll0) WD he
        (fun p hp => hni p (List.mem_cons_of_mem _ hp)) (by simp [setReader, hN])
        (fun inn ll r rp hm => ht inn ll r rp (List.mem_cons_of_mem _ hm))
        (by
          intro l1 l2 h1 h2 e
          apply hU l1 l2 _ _ e
          · rcases h1 with (h1 | h1) | h1
            · exact Or.inl h1
            · exact Or.inr (by simp [List.filterMap_cons, h1])
            · exact Or.inr (by simp [List.filterMap_cons, h1])
          · rcases h2 with (h2 | h2) | h2
            · exact Or.inl h2
            · exact Or.inr (by simp [List.filterMap_cons, h2])
            · exact Or.inr (by simp [List.filterMap_cons, h2]))
        hnd'.2
        (by
          intro ll hll hc
          rcases hc with hc | hc
          · exact hnw ll (by simp [List.filterMap_cons, hll]) hc
          · subst hc; exact hnd'.1 hll)
        (by simpa [setReader] using op1)
      refine ⟨ih.1.congr ?_ (fun _ => Iff.rfl), ih.2⟩
      intro l
      simp only [List.filterMap_cons, List.mem_cons]
      constructor
      · rintro ((h | h) | h)
        · exact Or.inl h
        · exact Or.inr (Or.inl h)
        · exact Or.inr (Or.inr h)
      · rintro (h | h | h)
        · exact Or.inl (Or.inl h)
        · exact Or.inl (Or.inr h)
        · exact Or.inr h

/-- the loop that connects the instance's output lines, on the pin lists -/
theorem connectOuts_own (own : Nat → Prop) (m : NNet) (map : Array (Option Nat)) (tR tD : Nat → Nat × Nat) (N : Nat) :
    ∀ (l : List (Nat × Option Nat)) (st st' : Net × List (Option Nat)) (WR WD : Nat → Prop),
    connectOuts m map l st = some st' → st.1.nodes.size = N →
    (∀ il ll d dp, (il, some ll) ∈ l → outTarget m map il = some (d, dp) → tD ll = (d, dp) ∧ d < N) →
    (∀ l1 l2, (WD l1 ∨ l1 ∈ l.filterMap (·.2)) → (WD l2 ∨ l2 ∈ l.filterMap (·.2)) → tD l1 = tD l2 → l1 = l2) →
    (l.filterMap (·.2)).Nodup → (∀ ll ∈ l.filterMap (·.2), ¬ WD ll) →
    OwnPins own st.1.nodes WR WD tR tD →
    OwnPins own st'.1.nodes WR (fun x => WD x ∨ x ∈ l.filterMap (·.2)) tR tD ∧ st'.1.nodes.size = N
  | [], st, st', WR, WD, he, hN, _, _, _, _, op => by
    simp only [connectOuts] at he
    cases he
    exact ⟨op.congr (fun _ => Iff.rfl) (fun l => by simp), hN⟩
  | (il, none) :: rest, (net, dang), st', WR, WD, he, hN, ht, hU, hnd, hnw, op => by
    simp only [connectOuts] at he
    have := connectOuts_own own m map tR tD N rest _ st' WR WD he hN
      (fun il ll d dp hm => ht il ll d dp (List.mem_cons_of_mem _ hm))
      (by simpa [List.filterMap_cons] using hU) (by simpa [List.filterMap_cons] using hnd)
      (by simpa [List.filterMap_cons] using hnw) op
    simpa [List.filterMap_cons] using this
  | (il, some ll0) :: rest, (net, dang), st', WR, WD, he, hN, ht, hU, hnd, hnw, op => by
    simp only [connectOuts] at he
    have hnd' : ll0 ∉ rest.filterMap (·.2) ∧ (rest.filterMap (·.2)).Nodup := by
      simpa [List.filterMap_cons] using hnd
    split at he
    · exact absurd he (by simp)
    · rename_i d dp htgt
      obtain ⟨htd, hd⟩ := ht il ll0 d dp List.mem_cons_self htgt
      have hnw0 : ¬ WD ll0 := hnw ll0 (by simp [List.filterMap_cons])
      have hN' : net.nodes.size = N := hN
      have op1 := OwnPins.writeOut (ns := net.nodes) op d dp ll0 (by rw [hN']; exact hd) htd (by
        intro l' hl' e
        have := hU l' ll0 (Or.inl hl') (Or.inr (by simp [List.filterMap_cons])) (e.trans htd.symm)
        subst this; exact hnw0 hl')
      have ih := connectOuts_own own m map tR tD N rest (setDriver net ll0 d dp, dang) st' WR (fun x => WD x ∨ x = ll0) he
        (by simp [setDriver, hN'])
        (fun il ll d dp hm => ht il ll d dp (List.mem_cons_of_mem _ hm))
        (by
          intro l1 l2 h1 h2 e
          apply hU l1 l2 _ _ e
          · rcases h1 with (h1 | h1) | h1
            · exact Or.inl h1
            · exact Or.inr (by simp [List.filterMap_cons, h1])
            · exact Or.inr (by simp [List.filterMap_cons, h1])
          · rcases h2 with (h2 | h2) | h2
            · exact Or.inl h2
            · exact Or.inr (by simp [List.filterMap_cons, h2])
            · exact Or.inr (by simp [List.filterMap_cons, h2]))
        hnd'.2
        (by
          intro ll hll hc
          rcases hc with hc | hc
          · exact hnw ll (by simp [List.filterMap_cons, hll]) hc
          · subst hc; exact hnd'.1 hll)
        (by simpa [setDriver] using op1)
      refine ⟨ih.1.congr (fun _ => Iff.rfl) ?_, ih.2⟩
      intro l
      simp only [List.filterMap_cons, List.mem_cons]
      constructor
      · rintro ((h | h) | h)
        · exact Or.inl h
        · exact Or.inr (Or.inl h)
        · exact Or.inr (Or.inr h)
      · rintro (h | h | h)
        · exact Or.inl (Or.inl h)
        · exact Or.inl (Or.inr h)
        · exact Or.inr h

end KV.Transform
