import KyupyVerif.Proofs.CircObjBase
/-! C09: `stats` — the dictionaries are permutations of the node list split by class; the `defaultdict` computation
returns base value + counts. -/
namespace KV.CircObj

/-! ## dictionaries vs. node list -/
theorem nodes_nodup {c : Circ} (wf : WFc0 c) : c.nodes.Nodup := by
  rw [List.nodup_iff_pairwise_ne, List.pairwise_iff_getElem]
  intro p q hp hq hpq h
  have := idx_inj (idx := fun i => (c.nobj i).index) wf.nidx hp hq h
  omega

theorem dictVals_nodup {d : Dict} (name : Nat → String) (hk : keysNodup d) (hs : ∀ e ∈ d, name e.2 = e.1) :
    (d.map (·.2)).Nodup := by
  rw [List.nodup_iff_pairwise_ne, List.pairwise_map, List.pairwise_iff_getElem]
  intro p q hp hq hpq heq
  have h1 := hs _ (List.getElem_mem hp)
  have h2 := hs _ (List.getElem_mem hq)
  rw [heq] at h1
  have hkeq : d[p].1 = d[q].1 := by rw [← h1, ← h2]
  unfold keysNodup at hk
  exact (List.pairwise_iff_getElem.1 (List.pairwise_map.1 (List.nodup_iff_pairwise_ne.1 hk))) p q hp hq hpq hkeq

theorem cells_perm {c : Circ} (wf : WFc c) :
    (c.cells.map (·.2)).Perm (c.nodes.filter fun i => (c.nobj i).kind != FORK) := by
  rw [List.perm_ext_iff_of_nodup (dictVals_nodup (fun i => (c.nobj i).name) wf.ckeys fun e he => (wf.cellsSound e he).2.2)
    ((nodes_nodup wf.toWFc0).sublist List.filter_sublist)]
  intro i
  simp only [List.mem_map, List.mem_filter, bne_iff_ne]
  constructor
  · rintro ⟨e, he, rfl⟩; exact ⟨(wf.cellsSound e he).1, (wf.cellsSound e he).2.1⟩
  · rintro ⟨hi, hk⟩; exact ⟨_, wf.cellsComplete i hi hk, rfl⟩

theorem forks_perm {c : Circ} (wf : WFc c) :
    (c.forks.map (·.2)).Perm (c.nodes.filter fun i => (c.nobj i).kind == FORK) := by
  rw [List.perm_ext_iff_of_nodup (dictVals_nodup (fun i => (c.nobj i).name) wf.fkeys fun e he => (wf.forksSound e he).2.2)
    ((nodes_nodup wf.toWFc0).sublist List.filter_sublist)]
  intro i
  simp only [List.mem_map, List.mem_filter, beq_iff_eq]
  constructor
  · rintro ⟨e, he, rfl⟩; exact ⟨(wf.forksSound e he).1, (wf.forksSound e he).2.1⟩
  · rintro ⟨hi, hk⟩; exact ⟨_, wf.forksComplete i hi hk, rfl⟩

theorem stats_sizes {c : Circ} (wf : WFc c) :
    c.cells.length = c.nodes.countP (fun i => (c.nobj i).kind != FORK) ∧
    c.forks.length = c.nodes.countP (fun i => (c.nobj i).kind == FORK) ∧
    c.cells.length + c.forks.length = c.nodes.length := by
  have h1 := (cells_perm wf).length_eq
  have h2 := (forks_perm wf).length_eq
  simp only [List.length_map, ← List.countP_eq_length_filter] at h1 h2
  refine ⟨h1, h2, ?_⟩
  rw [h1, h2]
  have := List.length_eq_countP_add_countP (fun i => (c.nobj i).kind != FORK) (l := c.nodes)
  rw [this]
  congr 1
  apply List.countP_congr
  intro i _
  simp [bne]

theorem stats_kind_count {c : Circ} (wf : WFc c) (p : String → Bool) :
    c.cells.countP (fun e => p (c.nobj e.2).kind) =
    c.nodes.countP (fun i => (c.nobj i).kind != FORK && p (c.nobj i).kind) := by
  have h := (cells_perm wf).countP_eq (fun i => p (c.nobj i).kind)
  rw [List.countP_map, List.countP_filter] at h
  have h2 : c.nodes.countP (fun i => (c.nobj i).kind != FORK && p (c.nobj i).kind) =
      c.nodes.countP (fun a => p (c.nobj a).kind && (c.nobj a).kind != FORK) := by
    apply List.countP_congr
    intro i _
    simp [Bool.and_comm]
  rw [h2, ← h]; rfl

/-! ## the `defaultdict` -/
/-- `stats.get(k, 0)` -/
def statVal (d : Dict) (k : String) : Nat := (lookup d k).getD 0

/-- the five size entries -/
def statBase (c : Circ) (k : String) : Nat :=
  statVal [("__node__", c.nodes.length), ("__cell__", c.cells.length), ("__fork__", c.forks.length),
           ("__io__", c.io.length), ("__line__", c.lines.length)] k

/-- `stats[n.kind] += 1` contributes to key `k` -/
def countsFor (k kind : String) : Bool := kind == k
/-- the `__dff__` / `__latch__` / `__comb__` classification of a cell kind contributes to key `k` -/
def classFor (k kind : String) : Bool :=
  if hasSub "dff" (lower kind) then "__dff__" == k
  else if hasSub "latch" (lower kind) then "__latch__" == k
  else if !(hasSub "put" (lower kind)) then "__comb__" == k
  else false

theorem lookup_nil (k : String) : lookup [] k = none := rfl
theorem lookup_cons (e : String × Nat) (d : Dict) (k : String) :
    lookup (e :: d) k = if e.1 == k then some e.2 else lookup d k := by
  unfold lookup; rw [List.find?_cons]; split <;> simp_all

theorem statVal_nokey {d : Dict} {k : String} (h : hasKey d k = false) : lookup d k = none := by
  induction d with
  | nil => rfl
  | cons e d ih =>
    simp only [hasKey, List.any_cons, Bool.or_eq_false_iff] at h
    rw [lookup_cons]; simp only [h.1, Bool.false_eq_true, if_false]
    exact ih (by simpa [hasKey] using h.2)

theorem lookup_append_single (d : Dict) (k k' : String) (v : Nat) :
    lookup (d ++ [(k, v)]) k' = (lookup d k').or (if k == k' then some v else none) := by
  induction d with
  | nil => simp [lookup_cons, lookup_nil]
  | cons e d ih =>
    simp only [List.cons_append, lookup_cons]
    split
    · simp
    · exact ih

theorem lookup_mapBump (d : Dict) (k k' : String) (f : Nat → Nat) :
    lookup (d.map fun e => if e.1 == k then (e.1, f e.2) else e) k' =
      (lookup d k').map fun x => if k == k' then f x else x := by
  induction d with
  | nil => rfl
  | cons e d ih =>
    simp only [List.map_cons, lookup_cons]
    by_cases h1 : e.1 == k
    · simp only [h1, if_true]
      by_cases h2 : e.1 == k'
      · have : (k == k') = true := by simp_all
        simp [h2, this]
      · simp only [h2, Bool.false_eq_true, if_false]; exact ih
    · simp only [h1, Bool.false_eq_true, if_false]
      by_cases h2 : e.1 == k'
      · have : (k == k') = false := by
          simp only [beq_iff_eq] at h1 h2 ⊢; simp only [beq_eq_false_iff_ne]; intro h; exact h1 (h ▸ h2)
        simp [h2, this]
      · simp only [h2, Bool.false_eq_true, if_false]; exact ih

theorem statVal_bump (d : Dict) (k k' : String) (v : Nat) :
    statVal (bump d k v) k' = statVal d k' + (if k == k' then v else 0) := by
  unfold statVal bump
  by_cases hk : hasKey d k = true
  · simp only [hk, if_true]
    rw [lookup_mapBump d k k' (· + v)]
    cases hl : lookup d k' with
    | none =>
      by_cases hkk : (k == k') = true
      · have : k = k' := by simpa using hkk
        subst this
        obtain ⟨x, hx⟩ := hasKey_iff.1 hk
        have : hasKey d k = true := hk
        -- the key is present, so the lookup cannot fail
        exfalso
        have hf : d.find? (·.1 == k) = none := by
          unfold lookup at hl; simpa using hl
        have := List.find?_eq_none.1 hf _ hx
        simp at this
      · simp [hkk]
    | some x => by_cases hkk : (k == k') = true <;> simp [hkk]
  · have hk' : hasKey d k = false := by simpa using hk
    simp only [hk', Bool.false_eq_true, if_false]
    rw [lookup_append_single]
    by_cases hkk : (k == k') = true
    · have : k = k' := by simpa using hkk
      subst this
      simp [statVal_nokey hk']
    · simp only [hkk, Bool.false_eq_true, if_false]
      cases lookup d k' <;> simp

theorem statVal_setKey (d : Dict) (k k' : String) (v : Nat) :
    statVal (setKey d k v) k' = if k == k' then v else statVal d k' := by
  unfold statVal setKey
  by_cases hk : hasKey d k = true
  · simp only [hk, if_true]
    rw [lookup_mapBump d k k' (fun _ => v)]
    cases hl : lookup d k' with
    | none =>
      by_cases hkk : (k == k') = true
      · have : k = k' := by simpa using hkk
        subst this
        obtain ⟨x, hx⟩ := hasKey_iff.1 hk
        exfalso
        have hf : d.find? (·.1 == k) = none := by
          unfold lookup at hl; simpa using hl
        have := List.find?_eq_none.1 hf _ hx
        simp at this
      · simp [hkk]
    | some x => by_cases hkk : (k == k') = true <;> simp [hkk]
  · have hk' : hasKey d k = false := by simpa using hk
    simp only [hk', Bool.false_eq_true, if_false]
    rw [lookup_append_single]
    by_cases hkk : (k == k') = true
    · have : k = k' := by simpa using hkk
      subst this
      simp [statVal_nokey hk']
    · simp only [hkk, Bool.false_eq_true, if_false]
      cases lookup d k' <;> simp

theorem statVal_statsCell (d : Dict) (kind k : String) :
    statVal (statsCell d kind) k = statVal d k + (if countsFor k kind then 1 else 0) + (if classFor k kind then 1 else 0) := by
  unfold statsCell classFor countsFor
  simp only []
  split
  · rw [statVal_bump, statVal_bump]
  · split
    · rw [statVal_bump, statVal_bump]
    · split
      · rw [statVal_bump, statVal_bump]
      · rw [statVal_bump]; simp

theorem statVal_fold (c : Circ) (cells : Dict) (d : Dict) (k : String) :
    statVal (cells.foldl (fun d e => statsCell d (c.nobj e.2).kind) d) k =
      statVal d k + cells.countP (fun e => countsFor k (c.nobj e.2).kind) +
      cells.countP (fun e => classFor k (c.nobj e.2).kind) := by
  induction cells generalizing d with
  | nil => simp
  | cons e cells ih =>
    simp only [List.foldl_cons]
    rw [ih, statVal_statsCell, List.countP_cons, List.countP_cons]
    omega

theorem stats_value {c : Circ} (wf : WFc c) (k : String) (hk : k ≠ "__seq__") :
    statVal (stats c) k = statBase c k + c.nodes.countP (fun i => (c.nobj i).kind != FORK && countsFor k (c.nobj i).kind) +
      c.nodes.countP (fun i => (c.nobj i).kind != FORK && classFor k (c.nobj i).kind) := by
  unfold stats
  simp only []
  have hne : ("__seq__" == k) = false := by simp [beq_eq_false_iff_ne, Ne.symm hk]
  rw [statVal_setKey, hne]
  simp only [Bool.false_eq_true, if_false]
  rw [statVal_bump, statVal_bump, statVal_fold]
  rw [stats_kind_count wf (countsFor k), stats_kind_count wf (classFor k)]
  simp [statBase]

theorem stats_seq (c : Circ) :
    statVal (stats c) "__seq__" = statVal (stats c) "__dff__" + statVal (stats c) "__latch__" := by
  unfold stats
  simp only []
  rw [statVal_setKey, statVal_setKey, statVal_setKey]
  have h1 : ("__seq__" == "__dff__") = false := by decide
  have h2 : ("__seq__" == "__latch__") = false := by decide
  simp only [beq_self_eq_true, if_true, h1, h2, Bool.false_eq_true, if_false]
  rfl

end KV.CircObj
