import KyupyVerif.Proofs.CircObjOps
/-! C09: `Line.remove` (None-ing of the two pins, fork output squeeze with renumbering, swap-with-last deletion) preserves `WFc`. -/
namespace KV.CircObj

section removeLine
variable {c : Circ} {l d r : Nat}

/-- the driver's output list after `Line.remove` -/
def outsAfter (c : Circ) (l d : Nat) : Pins :=
  if (c.nobj d).kind = FORK then
    (growSet (c.nobj d).outs (c.lobj l).driverPin none).eraseIdx (c.lobj l).driverPin
  else growSet (c.nobj d).outs (c.lobj l).driverPin none

/-- the line heap after the renumbering loop -/
def lobjAfter (c : Circ) (l d : Nat) : Heap LineObj :=
  if (c.nobj d).kind = FORK then renumber c.lobj (outsAfter c l d) 0 else c.lobj

theorem lobjAfter_fields (c : Circ) (l d x : Nat) :
    ((lobjAfter c l d).get x).index = (c.lobj.get x).index ∧ ((lobjAfter c l d).get x).driver = (c.lobj.get x).driver ∧
    ((lobjAfter c l d).get x).reader = (c.lobj.get x).reader ∧ ((lobjAfter c l d).get x).readerPin = (c.lobj.get x).readerPin ∧
    ((lobjAfter c l d).get x).alive = (c.lobj.get x).alive := by
  unfold lobjAfter; split
  · exact renumber_fields _ _ _ _
  · simp

theorem detachDriver_eq (hdrv : (c.lobj l).driver = some d) :
    detachDriver c l = { c with nobj := upd c.nobj d { c.nobj d with outs := outsAfter c l d }, lobj := lobjAfter c l d } := by
  unfold detachDriver outsAfter lobjAfter
  simp only [hdrv]
  by_cases hk : (c.nobj d).kind = FORK <;> simp [hk, outsAfter]

theorem reindexL_get (h : Heap LineObj) (m : Option Nat) (k x : Nat) :
    ((reindexL h m k).get x).driver = (h.get x).driver ∧ ((reindexL h m k).get x).driverPin = (h.get x).driverPin ∧
    ((reindexL h m k).get x).reader = (h.get x).reader ∧ ((reindexL h m k).get x).readerPin = (h.get x).readerPin ∧
    ((reindexL h m k).get x).alive = (h.get x).alive ∧
    ((reindexL h m k).get x).index = if m = some x then k else (h.get x).index := by
  unfold reindexL
  cases m with
  | none => simp
  | some m => by_cases hj : x = m <;> simp [hj] <;> grind

theorem removeLine_eq (hdrv : (c.lobj l).driver = some d) (hrdr : (c.lobj l).reader = some r)
    (ha : (c.lobj l).alive = true) :
    removeLine c l =
      let h1 := upd c.nobj d { c.nobj d with outs := outsAfter c l d }
      let h2 := upd h1 r { h1 r with ins := growSet (h1 r).ins (c.lobj l).readerPin none }
      let k := (c.lobj l).index
      let L2 := reindexL (lobjAfter c l d) (idxDel c.lines k).2 k
      { c with nobj := h2, lines := (idxDel c.lines k).1,
               lobj := upd L2 l { L2 l with driver := none, reader := none, alive := false } } := by
  have hf := lobjAfter_fields c l d l
  unfold removeLine
  rw [detachDriver_eq hdrv]
  simp only [detachReader, hf.2.2.1, hrdr, hf.2.2.2.1]
  simp only [delLine, hf.2.2.2.2, ha, if_true, hf.1]
  simp only [killLine]

theorem removeLine_nobj (hdrv : (c.lobj l).driver = some d) (hrdr : (c.lobj l).reader = some r)
    (ha : (c.lobj l).alive = true) (j : Nat) :
    ((removeLine c l).nobj j).name = (c.nobj j).name ∧ ((removeLine c l).nobj j).kind = (c.nobj j).kind ∧
    ((removeLine c l).nobj j).index = (c.nobj j).index ∧ ((removeLine c l).nobj j).alive = (c.nobj j).alive ∧
    ((removeLine c l).nobj j).outs = (if j = d then outsAfter c l d else (c.nobj j).outs) ∧
    ((removeLine c l).nobj j).ins =
      (if j = r then growSet (c.nobj j).ins (c.lobj l).readerPin none else (c.nobj j).ins) := by
  rw [removeLine_eq hdrv hrdr ha]
  simp only [upd_get]
  by_cases h1 : j = r <;> by_cases h2 : j = d <;> by_cases h3 : r = d <;> simp_all

theorem removeLine_lobj (hdrv : (c.lobj l).driver = some d) (hrdr : (c.lobj l).reader = some r)
    (ha : (c.lobj l).alive = true) (x : Nat) (hx : x ≠ l) :
    ((removeLine c l).lobj x).driver = (c.lobj x).driver ∧ ((removeLine c l).lobj x).reader = (c.lobj x).reader ∧
    ((removeLine c l).lobj x).readerPin = (c.lobj x).readerPin ∧ ((removeLine c l).lobj x).alive = (c.lobj x).alive ∧
    ((removeLine c l).lobj x).driverPin = ((lobjAfter c l d) x).driverPin ∧
    ((removeLine c l).lobj x).index =
      (if (idxDel c.lines (c.lobj l).index).2 = some x then (c.lobj l).index else (c.lobj x).index) := by
  rw [removeLine_eq hdrv hrdr ha]
  simp only [upd_get, hx, if_false]
  have h1 := reindexL_get (lobjAfter c l d) (idxDel c.lines (c.lobj l).index).2 (c.lobj l).index x
  have h2 := lobjAfter_fields c l d x
  grind

end removeLine

section removeLine2
variable {c : Circ} {l d r : Nat}

/-- new position of output pin `q` of the driver after the removal of pin `dp` -/
def newPos (c : Circ) (d dp q : Nat) : Nat := if (c.nobj d).kind = FORK ∧ dp < q then q - 1 else q

theorem outsAfter_fwd {q x : Nat}
    (hq : q ≠ (c.lobj l).driverPin) (hx : pin (c.nobj d).outs q = some x) :
    pin (outsAfter c l d) (newPos c d (c.lobj l).driverPin q) = some x := by
  unfold outsAfter newPos
  by_cases hk : (c.nobj d).kind = FORK
  · simp only [hk, if_true, true_and, pin_eraseIdx, pin_growSet]
    by_cases hlt : (c.lobj l).driverPin < q
    · have h1 : ¬ (q - 1 < (c.lobj l).driverPin) := by omega
      have h2 : q - 1 + 1 = q := by omega
      simp [hlt, h1, h2, hq, hx]
    · have h1 : q < (c.lobj l).driverPin := by omega
      simp [hlt, h1, hq, hx]
  · simp [hk, pin_growSet, hq, hx]

theorem outsAfter_bwd {p x : Nat} (hp : pin (outsAfter c l d) p = some x) :
    ∃ q, q ≠ (c.lobj l).driverPin ∧ pin (c.nobj d).outs q = some x ∧ p = newPos c d (c.lobj l).driverPin q := by
  unfold outsAfter at hp
  unfold newPos
  by_cases hk : (c.nobj d).kind = FORK
  · simp only [hk, if_true, pin_eraseIdx, pin_growSet] at hp
    by_cases hlt : p < (c.lobj l).driverPin
    · simp only [hlt, if_true] at hp
      have : p ≠ (c.lobj l).driverPin := by omega
      simp only [this, if_false] at hp
      exact ⟨p, this, hp, by simp [hk]; omega⟩
    · simp only [hlt, if_false] at hp
      have : p + 1 ≠ (c.lobj l).driverPin := by omega
      simp only [this, if_false] at hp
      refine ⟨p + 1, this, hp, ?_⟩
      have : (c.lobj l).driverPin < p + 1 := by omega
      simp [hk, this]
  · simp only [hk, if_false, pin_growSet] at hp
    by_cases hpd : p = (c.lobj l).driverPin
    · simp [hpd] at hp
    · simp only [hpd, if_false] at hp
      exact ⟨p, hpd, hp, by simp [hk]⟩

theorem newPos_inj {dp q q' : Nat} (hq : q ≠ dp) (hq' : q' ≠ dp) (h : newPos c d dp q = newPos c d dp q') : q = q' := by
  unfold newPos at h
  by_cases hk : (c.nobj d).kind = FORK
  · simp only [hk, true_and] at h
    split at h <;> split at h <;> omega
  · simpa [hk] using h

theorem removeLine_wf (wf : WFc c) (hl : l ∈ c.lines) : WFc (removeLine c l) := by
  obtain ⟨d, hdrv, hd, hdpin⟩ := wf.ldrv l hl
  obtain ⟨r, hrdr, hr, hrpin⟩ := wf.lrdr l hl
  have ha := (wf.lfresh l hl).2
  obtain ⟨hk, hki⟩ := wf.line_at hl
  have spec := idxDel_spec c.lines (fun j => (c.lobj j).index) wf.lidx (c.lobj l).index hk
  rw [hki] at spec
  obtain ⟨sp1, sp2, sp3⟩ := spec
  have hn := removeLine_nobj hdrv hrdr ha
  have hL := removeLine_lobj hdrv hrdr ha
  have hlines : (removeLine c l).lines = (idxDel c.lines (c.lobj l).index).1 := by rw [removeLine_eq hdrv hrdr ha]
  have hnodes : (removeLine c l).nodes = c.nodes := by rw [removeLine_eq hdrv hrdr ha]
  have hcells : (removeLine c l).cells = c.cells := by rw [removeLine_eq hdrv hrdr ha]
  have hforks : (removeLine c l).forks = c.forks := by rw [removeLine_eq hdrv hrdr ha]
  have hio : (removeLine c l).io = c.io := by rw [removeLine_eq hdrv hrdr ha]
  have hnext : (removeLine c l).nextN = c.nextN ∧ (removeLine c l).nextL = c.nextL := by
    rw [removeLine_eq hdrv hrdr ha]; exact ⟨rfl, rfl⟩
  have hmem : ∀ x, x ∈ (removeLine c l).lines ↔ x ∈ c.lines ∧ x ≠ l := by rw [hlines]; exact sp2
  -- injectivity of the driver's pins
  have oinj : ∀ p q y, pin (c.nobj d).outs p = some y → pin (c.nobj d).outs q = some y → p = q := by
    intro p q y h1 h2
    have a := (wf.outsBack d hd p y h1).2.2
    have b := (wf.outsBack d hd q y h2).2.2
    omega
  have ainj : ∀ p q y, pin (outsAfter c l d) p = some y → pin (outsAfter c l d) q = some y → p = q := by
    intro p q y h1 h2
    obtain ⟨p', hp1, hp2, hp3⟩ := outsAfter_bwd h1
    obtain ⟨q', hq1, hq2, hq3⟩ := outsAfter_bwd h2
    rw [hp3, hq3, oinj p' q' y hp2 hq2]
  -- driver pins after renumbering
  have hdpin_in : ∀ x q, q ≠ (c.lobj l).driverPin → pin (c.nobj d).outs q = some x →
      ((lobjAfter c l d) x).driverPin = newPos c d (c.lobj l).driverPin q := by
    intro x q hq hx
    unfold lobjAfter
    by_cases hkf : (c.nobj d).kind = FORK
    · simp only [hkf, if_true]
      rw [renumber_in _ _ 0 x _ ainj (outsAfter_fwd hq hx)]; omega
    · simp only [hkf, if_false]
      rw [(wf.outsBack d hd q x hx).2.2]; simp [newPos, hkf]
  have hdpin_out : ∀ x, (c.lobj x).driver ≠ some d → ((lobjAfter c l d) x).driverPin = (c.lobj x).driverPin := by
    intro x hx
    unfold lobjAfter
    split
    · rw [renumber_notin]
      intro p hp
      obtain ⟨q, _, hq2, _⟩ := outsAfter_bwd hp
      exact hx (wf.outsBack d hd q x hq2).2.1
    · rfl
  refine ⟨⟨?_, ?_, ?_, ?_, ?_, ?_, ?_, ?_, ?_, ?_, ?_, ?_, ?_, ?_, ?_⟩, ?_⟩
  · intro p hp; rw [(hn _).2.2.1]; simp only [hnodes] at hp ⊢; exact wf.nidx p hp
  · -- lidx
    intro p hp
    have hp' : p < (idxDel c.lines (c.lobj l).index).1.length := by rw [← hlines]; exact hp
    have hx : (removeLine c l).lines[p] ∈ (removeLine c l).lines := List.getElem_mem _
    rw [(hL _ ((hmem _).1 hx).2).2.2.2.2.2]
    simp only [hlines]
    exact sp1 p hp'
  · intro j hj; rw [hnodes] at hj; rw [(hn j).2.2.2.1, hnext.1]; exact wf.nfresh j hj
  · intro x hx
    obtain ⟨h1, h2⟩ := (hmem x).1 hx
    rw [(hL x h2).2.2.2.1, hnext.2]; exact wf.lfresh x h1
  · rw [hcells]; exact wf.ckeys
  · rw [hforks]; exact wf.fkeys
  · intro e he; rw [hcells] at he; rw [(hn _).1, (hn _).2.1, hnodes]; exact wf.cellsSound e he
  · intro e he; rw [hforks] at he; rw [(hn _).1, (hn _).2.1, hnodes]; exact wf.forksSound e he
  · intro j hj hk'; rw [hnodes] at hj; rw [(hn _).1, hcells]; rw [(hn _).2.1] at hk'; exact wf.cellsComplete j hj hk'
  · intro j hj hk'; rw [hnodes] at hj; rw [(hn _).1, hforks]; rw [(hn _).2.1] at hk'; exact wf.forksComplete j hj hk'
  · -- ldrv
    intro x hx
    obtain ⟨h1, h2⟩ := (hmem x).1 hx
    obtain ⟨d0, e1, e2, e3⟩ := wf.ldrv x h1
    refine ⟨d0, by rw [(hL x h2).1]; exact e1, by rw [hnodes]; exact e2, ?_⟩
    rw [(hL x h2).2.2.2.2.1, (hn d0).2.2.2.2.1]
    by_cases hd0 : d0 = d
    · subst hd0
      simp only [if_true]
      have hq : (c.lobj x).driverPin ≠ (c.lobj l).driverPin := by
        intro h; rw [h, hdpin] at e3; exact h2 (Option.some.inj e3).symm
      rw [hdpin_in x _ hq e3]
      exact outsAfter_fwd hq e3
    · simp only [hd0, if_false]
      rw [hdpin_out x (by rw [e1]; intro h; exact hd0 (Option.some.inj h))]
      exact e3
  · -- lrdr
    intro x hx
    obtain ⟨h1, h2⟩ := (hmem x).1 hx
    obtain ⟨r0, e1, e2, e3⟩ := wf.lrdr x h1
    refine ⟨r0, by rw [(hL x h2).2.1]; exact e1, by rw [hnodes]; exact e2, ?_⟩
    rw [(hL x h2).2.2.1, (hn r0).2.2.2.2.2]
    split
    · rename_i hr0; subst hr0
      rw [pin_growSet]
      split
      · rename_i hp; rw [hp, hrpin] at e3; exact absurd (Option.some.inj e3).symm h2
      · exact e3
    · exact e3
  · -- outsBack
    intro j hj p x hp
    rw [hnodes] at hj
    rw [(hn j).2.2.2.2.1] at hp
    by_cases hjd : j = d
    · subst hjd
      simp only [if_true] at hp
      obtain ⟨q, hq1, hq2, hq3⟩ := outsAfter_bwd hp
      obtain ⟨b1, b2, b3⟩ := wf.outsBack j hj q x hq2
      have hxl : x ≠ l := by
        intro h; subst h; exact hq1 b3.symm
      rw [(hL x hxl).1, (hL x hxl).2.2.2.2.1, hdpin_in x q hq1 hq2]
      exact ⟨(hmem x).2 ⟨b1, hxl⟩, b2, hq3.symm⟩
    · simp only [hjd, if_false] at hp
      obtain ⟨b1, b2, b3⟩ := wf.outsBack j hj p x hp
      have hxl : x ≠ l := by
        intro h; subst h; rw [hdrv] at b2; exact hjd (Option.some.inj b2).symm
      rw [(hL x hxl).1, (hL x hxl).2.2.2.2.1, hdpin_out x (by rw [b2]; intro h; exact hjd (Option.some.inj h))]
      exact ⟨(hmem x).2 ⟨b1, hxl⟩, b2, b3⟩
  · -- insBack
    intro j hj p x hp
    rw [hnodes] at hj
    rw [(hn j).2.2.2.2.2] at hp
    have key : pin (c.nobj j).ins p = some x ∧ (j = r → p ≠ (c.lobj l).readerPin) := by
      split at hp
      · rw [pin_growSet] at hp
        split at hp
        · cases hp
        · rename_i h1 h2; exact ⟨hp, fun _ => h2⟩
      · rename_i h1; exact ⟨hp, fun h => absurd h h1⟩
    obtain ⟨b1, b2, b3⟩ := wf.insBack j hj p x key.1
    have hxl : x ≠ l := by
      intro h; subst h
      rw [hrdr] at b2
      exact key.2 (Option.some.inj b2).symm b3.symm
    rw [(hL x hxl).2.1, (hL x hxl).2.2.1]
    exact ⟨(hmem x).2 ⟨b1, hxl⟩, b2, b3⟩
  · intro j hj; rw [hio] at hj; rw [hnodes]; exact wf.ioIn j hj
  · -- forkFull
    intro j hj hk'
    rw [hnodes] at hj
    rw [(hn j).2.1] at hk'
    rw [(hn j).2.2.2.2.1]
    split
    · rename_i hjd; subst hjd
      have := wf.forkFull j hj hk'
      have hlt := pin_eq_some_lt hdpin
      unfold outsAfter
      simp only [hk', if_true, pin_set_lt hlt, List.eraseIdx_set_eq]
      exact fun h => this ((List.eraseIdx_sublist _ _).subset h)
    · exact wf.forkFull j hj hk'

end removeLine2
end KV.CircObj
