import KyupyVerif.Proofs.MapSound
/-! Soundness of the map certificate for ANY implementation of the memory steps (relational form of
`MapSound.check_sound_sched`), needed where the stored form of a value is not determined by the value (WaveSim: the
cells behind a waveform's terminator hold left-overs of the evaluation) and where a result fits its region only for the
operands that actually occur (WaveSim: well-formed waveforms).

`StepOK p R sem o m m'` is the contract of executing op row `o` on memory: nothing outside the region of the output
changes, and the region of the output reads back as `sem o` applied to what the operand regions held before.
`RunOK` chains it along a list of rows. `check_sound_rel`: with an accepted certificate, EVERY memory reachable by such a
run along a level-respecting schedule holds, in every observed region, the value of signal-level execution.
`memRun_runOK`: the deterministic run `MapSound.memRun` is such a run whenever results fit under an invariant `Q` of the
signal values (so the relational theorem is not vacuous and `MapSound.check_sound_sched` is recovered with `hfit`
restricted to operands satisfying `Q`). -/
namespace KV.MapSound
open KV KV.MapIn

variable {α C : Type}

/-- contract of one op row executed on memory -/
def StepOK (p : MapIn) (R : RW α C) (sem : OpRow → List α → α) (o : OpRow) (m m' : Int → C) : Prop :=
  (∀ a, ¬ (p.loc o.out ≤ a ∧ a < p.loc o.out + (p.cap o.out : Int)) → m' a = m a) ∧
  rdS p R o.out m' = sem o (o.ins.map fun i => rdS p R i m)

/-- a run of a list of rows, every step honouring the contract -/
inductive RunOK (p : MapIn) (R : RW α C) (sem : OpRow → List α → α) : List OpRow → (Int → C) → (Int → C) → Prop
  | nil (m : Int → C) : RunOK p R sem [] m m
  | cons {o : OpRow} {ops : List OpRow} {m m1 m2 : Int → C} :
      StepOK p R sem o m m1 → RunOK p R sem ops m1 m2 → RunOK p R sem (o :: ops) m m2

theorem rd_frame_rel (R : RW α C) (p : MapIn) (x y : Nat) (h : p.overlap x y = false) (m m' : Int → C)
    (hfr : ∀ a, ¬ (p.loc y ≤ a ∧ a < p.loc y + (p.cap y : Int)) → m' a = m a) :
    rdS p R x m' = rdS p R x m := by
  unfold rdS
  apply R.rd_dep
  intro a h1 h2
  apply hfr
  intro ⟨h3, h4⟩
  simp only [overlap, Bool.and_eq_false_iff, decide_eq_false_iff_not] at h
  omega

/-- under the invariant, the operands an op reads from memory are the signal values -/
theorem args_eq {p : MapIn} (hg : Good p) (R : RW α C) (sched : List Nat) (hs : Sched p sched)
    (t k : Nat) (o : OpRow) (ht : sched[t]? = some k) (hk : p.ops[k]? = some o)
    (m : Int → C) (env : Nat → α) (h : Inv p R sched t m env) :
    (o.ins.map fun i => rdS p R i m) = o.ins.map fun i => env (p.src i) := by
  apply List.map_congr_left
  intro i hi
  obtain ⟨hal, hac⟩ := hg.alias k o hk i hi
  obtain ⟨htr, hlt⟩ := hg.opnd k o hk i hi
  have e1 : rdS p R i m = rdS p R (p.src i) m := by unfold rdS; rw [hal, hac]
  rw [e1]
  apply h (p.src i) htr
  · intro k' o' hk' ho'
    have hnj : p.isJunk o'.out = false := by rw [ho']; exact hg.trNJ _ htr
    have hd := dfn_first hg hk' hnj
    rw [ho'] at hd
    have hk'lt : k' < p.ops.length := (List.getElem?_eq_some_iff.1 hk').1
    obtain ⟨t', ht'⟩ := List.mem_iff_getElem?.1 (hs.cover k' hk'lt)
    rcases Nat.lt_or_ge t' t with h' | h'
    · exact ⟨t', h', ht'⟩
    · have := hs.mono t t' k k' h' ht ht'
      omega
  · exact .inr ⟨t, k, o, Nat.le_refl _, ht, hk, List.mem_map.2 ⟨i, hi, rfl⟩⟩

/-- one step of ANY implementation preserves the invariant -/
theorem step_inv_rel {p : MapIn} (hg : Good p) (R : RW α C) (sem : OpRow → List α → α)
    (sched : List Nat) (hs : Sched p sched)
    (t k : Nat) (o : OpRow) (ht : sched[t]? = some k) (hk : p.ops[k]? = some o)
    (m m' : Int → C) (env : Nat → α) (hstep : StepOK p R sem o m m') (h : Inv p R sched t m env) :
    Inv p R sched (t + 1) m' (sigStep p sem env o) := by
  obtain ⟨hfr, hrb⟩ := hstep
  intro x hx hav hlive
  have hav' : x ≠ o.out → Avail p sched t x := by
    intro hne k' o' hk' ho'
    obtain ⟨t', ht', hst'⟩ := hav k' o' hk' ho'
    rcases Nat.lt_or_ge t' t with h' | h'
    · exact ⟨t', h', hst'⟩
    · have : t' = t := by omega
      subst this
      rw [ht] at hst'; cases hst'
      rw [hk] at hk'; cases hk'; exact absurd ho'.symm hne
  have hlive' : Live p sched t x := by
    rcases hlive with h' | ⟨t', k', o', hj, hs', ho', hm⟩
    · exact .inl h'
    · exact .inr ⟨t', k', o', by omega, hs', ho', hm⟩
  by_cases hj : p.isJunk o.out = true
  · have hne : x ≠ o.out := by
      intro e; have := hg.trNJ x hx; rw [e, hj] at this; cases this
    have hov : p.overlap x o.out = false := by
      simp only [isJunk, Bool.or_eq_true, beq_iff_eq] at hj
      rcases hj with e | e <;> rw [e]
      · exact (hg.junkSep x hx).1
      · exact (hg.junkSep x hx).2
    simp only [sigStep, if_neg hne]
    rw [rd_frame_rel R p x o.out hov m m' hfr]
    exact h x hx (hav' hne) hlive'
  · have hj : p.isJunk o.out = false := by simpa using hj
    have hargs := args_eq hg R sched hs t k o ht hk m env h
    by_cases hxy : x = o.out
    · subst hxy
      simp only [sigStep, if_pos]
      rw [hrb, hargs]
    · have hy := mem_tracked_of_out p hk hj
      have hdy := dfn_first hg hk hj
      have hov : p.overlap x o.out = false := by
        rcases hg.sep x hx o.out hy with e | e | e | e
        · exact absurd e hxy
        · exact e
        · exfalso
          rcases hlive with hp | ⟨t', k', o', hjk, hs', ho', hm⟩
          · rw [last_pinned p hp] at e
            have := levelOf_le p k; omega
          · have h1 := last_ge_use p ho' hm
            have h2 := hs.mono t t' k k' (by omega) ht hs'
            omega
        · exfalso
          have h1 := last_ge_dfn p o.out
          have h2 := dfn_le_of_writer_levels p x (p.levelOf k) (fun k' o' hk' ho' => by
            obtain ⟨t', ht', hst'⟩ := hav k' o' hk' ho'
            exact hs.mono t' t k' k (by omega) hst' ht)
          omega
      simp only [sigStep, if_neg hxy]
      rw [rd_frame_rel R p x o.out hov m m' hfr]
      exact h x hx (hav' hxy) hlive'

theorem run_inv_rel {p : MapIn} (hg : Good p) (R : RW α C) (sem : OpRow → List α → α)
    (sched : List Nat) (hs : Sched p sched) :
    ∀ (suf pre : List Nat) (m m' : Int → C) (env : Nat → α), sched = pre ++ suf →
      RunOK p R sem (schedOps p suf) m m' → Inv p R sched pre.length m env →
      Inv p R sched sched.length m' (sigRun p sem (schedOps p suf) env) := by
  intro suf
  induction suf with
  | nil =>
    intro pre m m' env hp hrun h
    have : sched.length = pre.length := by rw [hp]; simp
    rw [this]
    cases hrun
    simpa [sigRun, schedOps] using h
  | cons k suf ih =>
    intro pre m m' env hp hrun h
    have ht : sched[pre.length]? = some k := by rw [hp]; simp
    have hklt := hs.valid _ _ ht
    have hk : p.ops[k]? = some p.ops[k] := List.getElem?_eq_getElem hklt
    have hso : schedOps p (k :: suf) = p.ops[k] :: schedOps p suf := by simp [schedOps, hk]
    rw [hso] at hrun ⊢
    cases hrun with
    | cons hstep hrest =>
      have hI := step_inv_rel hg R sem sched hs pre.length k p.ops[k] ht hk m _ env hstep h
      have := ih (pre ++ [k]) _ m' (sigStep p sem env p.ops[k]) (by rw [hp]; simp) hrest (by simpa using hI)
      simpa [sigRun] using this

theorem inv0 (p : MapIn) (R : RW α C) (sched : List Nat) (m0 : Int → C) (env0 : Nat → α)
    (h0 : ∀ x ∈ p.tracked, (∀ o ∈ p.ops, o.out ≠ x) → rdS p R x m0 = env0 x) :
    Inv p R sched ([] : List Nat).length m0 env0 := by
  intro x hx hav _
  apply h0 x hx
  intro o ho e
  obtain ⟨k, hk⟩ := List.mem_iff_getElem?.1 ho
  obtain ⟨t', ht', _⟩ := hav k o hk e
  simp at ht'

/-- **soundness of the certificate for any implementation of the steps**: if `MapIn.check` accepts, then in EVERY memory
`m'` reachable from `m0` by running the rows along a level-respecting schedule — each step changing only the region of
its output and making it read back as the op's result on the operand regions — every observed signal reads as the value
signal-level execution computes, and every output slot reads the value of the signal it captures -/
theorem check_sound_rel (p : MapIn) (hc : p.check = none) (R : RW α C) (sem : OpRow → List α → α)
    (sched : List Nat) (hs : Sched p sched) (m0 m' : Int → C) (env0 : Nat → α)
    (h0 : ∀ x ∈ p.tracked, (∀ o ∈ p.ops, o.out ≠ x) → rdS p R x m0 = env0 x)
    (hrun : RunOK p R sem (schedOps p sched) m0 m') :
    (∀ x ∈ p.tracked, p.pinned x = true → rdS p R x m' = sigRun p sem (schedOps p sched) env0 x) ∧
    (∀ j s, (j, s) ∈ p.ppoSrcs → rdS p R j m' = sigRun p sem (schedOps p sched) env0 s) := by
  have hg := good_of_check p hc
  have hI := run_inv_rel hg R sem sched hs sched [] m0 m' env0 (by simp) hrun (inv0 p R sched m0 env0 h0)
  have hpin : ∀ x ∈ p.tracked, p.pinned x = true → rdS p R x m' = sigRun p sem (schedOps p sched) env0 x := by
    intro x hx hp
    apply hI x hx
    · intro k' o hk' _
      obtain ⟨t', ht'⟩ := List.mem_iff_getElem?.1 (hs.cover k' (List.getElem?_eq_some_iff.1 hk').1)
      exact ⟨t', (List.getElem?_eq_some_iff.1 ht').1, ht'⟩
    · exact .inl hp
  refine ⟨hpin, ?_⟩
  intro j s hjs
  obtain ⟨hl, hcp, htr⟩ := hg.ppo j s hjs
  have : rdS p R j m' = rdS p R s m' := by unfold rdS; rw [hl, hcp]
  rw [this]
  apply hpin s htr
  have : (p.ppoSrcs.map (·.2)).contains s = true := by
    rw [List.contains_iff_mem]; exact List.mem_map.2 ⟨(j, s), hjs, rfl⟩
  unfold pinned pinnedW
  rw [this]; simp

/-- the same with the reference value of PROGRAM order: a duplicate-free level-respecting schedule computes, at signal
level, what program order computes (the op equations have one solution) -/
theorem check_sound_rel_prog (p : MapIn) (hc : p.check = none) (R : RW α C) (sem : OpRow → List α → α)
    (sched : List Nat) (hs : Sched p sched) (hnd : sched.Nodup) (m0 m' : Int → C) (env0 : Nat → α)
    (h0 : ∀ x ∈ p.tracked, (∀ o ∈ p.ops, o.out ≠ x) → rdS p R x m0 = env0 x)
    (hrun : RunOK p R sem (schedOps p sched) m0 m') :
    ∀ j s, (j, s) ∈ p.ppoSrcs → rdS p R j m' = sigRun p sem p.ops env0 s := by
  have hg := good_of_check p hc
  intro j s hjs
  rw [(check_sound_rel p hc R sem sched hs m0 m' env0 h0 hrun).2 j s hjs]
  have h2 := sched_solves hg sem (List.range p.ops.length) (sched_range p) List.nodup_range env0
  rw [schedOps_range] at h2
  exact solves_unique hg sem env0 _ _ (sched_solves hg sem sched hs hnd env0) h2 s (hg.trNJ s (hg.ppo j s hjs).2.2)

/-! ### the deterministic run is such a run -/

theorem sigStep_inv (p : MapIn) (sem : OpRow → List α → α) (Q : α → Prop) (o : OpRow) (env : Nat → α)
    (hQ : ∀ x, Q (env x)) (hsem : ∀ args, (∀ a ∈ args, Q a) → Q (sem o args)) : ∀ x, Q (sigStep p sem env o x) := by
  intro x
  unfold sigStep
  split
  · apply hsem
    intro a ha
    obtain ⟨i, _, rfl⟩ := List.mem_map.1 ha
    exact hQ _
  · exact hQ x

theorem memRun_runOK_aux {p : MapIn} (hg : Good p) (R : RW α C) (sem : OpRow → List α → α)
    (sched : List Nat) (hs : Sched p sched) (Q : α → Prop)
    (hQsem : ∀ o ∈ p.ops, ∀ args, (∀ a ∈ args, Q a) → Q (sem o args))
    (hfit : ∀ o ∈ p.ops, ∀ args m, (∀ a ∈ args, Q a) →
      R.rd (p.loc o.out) (p.cap o.out) (R.wr (p.loc o.out) (p.cap o.out) (sem o args) m) = sem o args) :
    ∀ (suf pre : List Nat) (m : Int → C) (env : Nat → α), sched = pre ++ suf → Inv p R sched pre.length m env →
      (∀ x, Q (env x)) → RunOK p R sem (schedOps p suf) m (memRun p R sem (schedOps p suf) m) := by
  intro suf
  induction suf with
  | nil => intro pre m env _ _ _; exact RunOK.nil m
  | cons k suf ih =>
    intro pre m env hp h hQ
    have ht : sched[pre.length]? = some k := by rw [hp]; simp
    have hklt := hs.valid _ _ ht
    have hk : p.ops[k]? = some p.ops[k] := List.getElem?_eq_getElem hklt
    have hmem : p.ops[k] ∈ p.ops := List.getElem_mem hklt
    have hso : schedOps p (k :: suf) = p.ops[k] :: schedOps p suf := by simp [schedOps, hk]
    have hargs := args_eq hg R sched hs pre.length k p.ops[k] ht hk m env h
    have hQargs : ∀ a ∈ (p.ops[k].ins.map fun i => rdS p R i m), Q a := by
      rw [hargs]
      intro a ha
      obtain ⟨i, _, rfl⟩ := List.mem_map.1 ha
      exact hQ _
    have hstep : StepOK p R sem p.ops[k] m (memStep p R sem m p.ops[k]) := by
      refine ⟨fun a ha => R.wr_frame _ _ _ _ a ha, ?_⟩
      exact hfit _ hmem _ m hQargs
    have hI := step_inv_rel hg R sem sched hs pre.length k p.ops[k] ht hk m _ env hstep h
    have hQ' := sigStep_inv p sem Q p.ops[k] env hQ (hQsem _ hmem)
    have := ih (pre ++ [k]) _ _ (by rw [hp]; simp) (by simpa using hI) hQ'
    rw [hso]
    exact RunOK.cons hstep (by simpa [memRun] using this)

/-- the deterministic memory run of `MapSound` honours the contract at every step, provided results fit their regions
for operands satisfying an invariant `Q` that the stimulus satisfies and every op preserves -/
theorem memRun_runOK (p : MapIn) (hc : p.check = none) (R : RW α C) (sem : OpRow → List α → α)
    (sched : List Nat) (hs : Sched p sched) (Q : α → Prop)
    (hQsem : ∀ o ∈ p.ops, ∀ args, (∀ a ∈ args, Q a) → Q (sem o args))
    (hfit : ∀ o ∈ p.ops, ∀ args m, (∀ a ∈ args, Q a) →
      R.rd (p.loc o.out) (p.cap o.out) (R.wr (p.loc o.out) (p.cap o.out) (sem o args) m) = sem o args)
    (m0 : Int → C) (env0 : Nat → α) (hQ0 : ∀ x, Q (env0 x))
    (h0 : ∀ x ∈ p.tracked, (∀ o ∈ p.ops, o.out ≠ x) → rdS p R x m0 = env0 x) :
    RunOK p R sem (schedOps p sched) m0 (memRun p R sem (schedOps p sched) m0) :=
  memRun_runOK_aux (good_of_check p hc) R sem sched hs Q hQsem hfit sched [] m0 env0 (by simp)
    (inv0 p R sched m0 env0 h0) hQ0

/-- `MapSound.check_sound_sched` with `hfit` needed only for operands satisfying an invariant `Q` -/
theorem check_sound_sched_on (p : MapIn) (hc : p.check = none) (R : RW α C) (sem : OpRow → List α → α)
    (sched : List Nat) (hs : Sched p sched) (Q : α → Prop)
    (hQsem : ∀ o ∈ p.ops, ∀ args, (∀ a ∈ args, Q a) → Q (sem o args))
    (hfit : ∀ o ∈ p.ops, ∀ args m, (∀ a ∈ args, Q a) →
      R.rd (p.loc o.out) (p.cap o.out) (R.wr (p.loc o.out) (p.cap o.out) (sem o args) m) = sem o args)
    (m0 : Int → C) (env0 : Nat → α) (hQ0 : ∀ x, Q (env0 x))
    (h0 : ∀ x ∈ p.tracked, (∀ o ∈ p.ops, o.out ≠ x) → rdS p R x m0 = env0 x) :
    (∀ x ∈ p.tracked, p.pinned x = true →
      rdS p R x (memRun p R sem (schedOps p sched) m0) = sigRun p sem (schedOps p sched) env0 x) ∧
    (∀ j s, (j, s) ∈ p.ppoSrcs →
      rdS p R j (memRun p R sem (schedOps p sched) m0) = sigRun p sem (schedOps p sched) env0 s) :=
  check_sound_rel p hc R sem sched hs m0 _ env0 h0
    (memRun_runOK p hc R sem sched hs Q hQsem hfit m0 env0 hQ0 h0)

/-- the region an op writes does not overlap the region of any of its operands (so reading all operands and then writing
the result — the step of this model — is what an evaluator that interleaves operand reads with output writes does) -/
theorem operand_output_disjoint {p : MapIn} (hg : Good p) {k : Nat} {o : OpRow} (hk : p.ops[k]? = some o)
    {i : Nat} (hi : i ∈ o.ins) : p.overlap i o.out = false := by
  obtain ⟨hal, hac⟩ := hg.alias k o hk i hi
  obtain ⟨htr, hlt⟩ := hg.opnd k o hk i hi
  have hov : p.overlap (p.src i) o.out = false := by
    by_cases hj : p.isJunk o.out = true
    · simp only [isJunk, Bool.or_eq_true, beq_iff_eq] at hj
      rcases hj with e | e <;> rw [e]
      · exact (hg.junkSep _ htr).1
      · exact (hg.junkSep _ htr).2
    · have hj : p.isJunk o.out = false := by simpa using hj
      have hy := mem_tracked_of_out p hk hj
      have hdy := dfn_first hg hk hj
      rcases hg.sep _ htr o.out hy with e | e | e | e
      · exfalso; rw [e] at hlt; omega
      · exact e
      · exfalso
        have := last_ge_use p hk (List.mem_map.2 ⟨i, hi, rfl⟩)
        omega
      · exfalso
        have := last_ge_dfn p o.out
        omega
  unfold overlap at hov ⊢
  rw [hal, hac]
  exact hov

end KV.MapSound
