import KyupyVerif.Proofs.SubstGen22
/-! Helper lemmas for C10 (`resolve_sem_general`), part 6: the loop invariant through one substitution (`resRelG_step`) and through
the loop of `resolve_tlib_cells` (`resolve_fold_gen`). -/
namespace KV.Transform
open KV

theorem resRelG_step {α : Type _} {lib : Lib} {h : NNet} {z : α} {neg : α → α} {prim : String → α → α → α → α → α}
    {cur : NNet} {D : Nat → Prop} {ρ : Ren} (r : ResRelG lib h z neg prim cur D ρ) (hw : WFm h)
    {j d : Nat} (hj : j < cur.net.nodes.size) (hjd : ρ.node j = d) (hd : d < h.net.nodes.size) (hnD : ¬ D d)
    (hjio : j ∉ cur.net.io) (hcf : (cur.net.node j).isFork = false)
    {impl : NNet} {sh : Shape} {map : Array (Option Nat)} {nxt : NNet} {R : Ren}
    (g : SubstG z neg prim cur j impl sh map nxt R)
    (hfind : lib.find (h.net.node d).kind = some impl) (hs : implShape impl = some sh) :
    ResRelG lib h z neg prim nxt (fun x => D x ∨ x = d) (stepRho h cur j ρ R) := by
  obtain ⟨s1, s2, s3, s4, s5, s6, s7⟩ := resStep_struct r hw hj hjd hd hjio g
  refine ⟨s1, s2, s3, s4, s5, s6, ?_, s7, ?_, ?_, ?_, ?_, ?_⟩
  · rintro x (hx | hx)
    · exact r.dlt x hx
    · rw [hx]; exact hd
  · intro j' k l' hj' hlt hnf hp
    exact resStep_outsF r hw hj hjd hd hjio g j' k l' hj' hlt hnf hp
  · intro j' k l hj' hlt hnf hp
    exact resStep_outsB r hw hj hjd hd hjio g j' k l hj' hlt hnf hp
  · intro l' hl' hlt hn
    exact resStep_drv r hw hj hjd hd hjio g l' hl' hlt hn
  · intro S hS pre an' v' hc
    exact resStep_fw r hw hj hjd hd hnD hcf g hfind hs S hS pre an' v' hc
  · intro S hS an v hH hcells
    exact resStep_bw r hw hj hjd hd hnD hcf g hfind hs S hS an v hH hcells

theorem resRelG_congr {α : Type _} {lib : Lib} {h : NNet} {z : α} {neg : α → α} {prim : String → α → α → α → α → α}
    {cur : NNet} {D D' : Nat → Prop} {ρ : Ren} (hDD : ∀ x, D x ↔ D' x) (r : ResRelG lib h z neg prim cur D ρ) :
    ResRelG lib h z neg prim cur D' ρ := by
  have : D = D' := funext fun x => propext (hDD x)
  subst this; exact r

/-- the loop of `resolve_tlib_cells` over the nodes `ds` of the snapshot, substitutions that remove lines, instances and
    dangling logic included -/
theorem resolve_fold_gen {α : Type _} (lib : Lib) (h : NNet) (hw : WFm h) (z : α) (neg : α → α)
    (prim : String → α → α → α → α → α) :
    ∀ (ds : List Nat) (cur : NNet) (D : Nat → Prop) (ρ : Ren) (h' : NNet), (∀ d ∈ ds, d < h.net.nodes.size ∧ ¬ D d) → ds.Nodup →
    ResRelG lib h z neg prim cur D ρ → resolveGenOKB lib (ds.map h.key) cur = true →
    (ds.map h.key).foldlM (resolveStep lib) cur = some h' →
    ∃ ρ', ResRelG lib h z neg prim h' (fun x => D x ∨ (x ∈ ds ∧ (lib.find (h.net.node x).kind).isSome = true)) ρ'
  | [], cur, D, ρ, h', _, _, r, _, he => by
    simp only [List.map_nil, List.foldlM_nil] at he
    cases (Option.some.inj he)
    exact ⟨ρ, resRelG_congr (fun x => by simp) r⟩
  | d :: ds, cur, D, ρ, h', hds, hnd, r, hok, he => by
    obtain ⟨hd, hnD⟩ := hds d List.mem_cons_self
    have hnd' := List.nodup_cons.mp hnd
    have hrest : ∀ d' ∈ ds, d' < h.net.nodes.size ∧ ¬ D d' := fun d' hd' => hds d' (List.mem_cons_of_mem _ hd')
    simp only [List.map_cons, List.foldlM_cons, Option.bind_eq_bind, Option.bind_eq_some_iff] at he
    obtain ⟨s1, hstep, hfold⟩ := he
    obtain ⟨j, hj, hjd⟩ := r.pos d hd hnD
    obtain ⟨nk, nn, _⟩ := r.node j hj (hjd ▸ hd)
    rw [hjd] at nk nn
    have hkey : cur.key j = h.key d := by simp only [NNet.key, nn, isFork_of_kind_eq nk]
    have hlook : cur.lookup (h.key d) = j := by rw [← hkey]; exact lookup_key_nodup cur r.wf.nodup j hj
    simp only [List.map_cons, resolveGenOKB, hlook, hj, if_true, nk] at hok
    simp only [resolveStep, hlook, hj, if_true, nk] at hstep
    cases hfind : lib.find (h.net.node d).kind with
    | none =>
      rw [hfind] at hok hstep
      cases (Option.some.inj hstep)
      obtain ⟨ρ', ih⟩ := resolve_fold_gen lib h hw z neg prim ds cur D ρ h' hrest hnd'.2 r hok hfold
      refine ⟨ρ', resRelG_congr (fun x => ?_) ih⟩
      constructor
      · rintro (a | ⟨a, b⟩)
        · exact Or.inl a
        · exact Or.inr ⟨List.mem_cons_of_mem _ a, b⟩
      · rintro (a | ⟨a, b⟩)
        · exact Or.inl a
        · rcases List.mem_cons.mp a with a | a
          · subst a; rw [hfind] at b; exact absurd b (by simp)
          · exact Or.inr ⟨a, b⟩
    | some impl =>
      rw [hfind] at hok hstep
      simp only [Bool.and_eq_true, Bool.not_eq_true'] at hok
      obtain ⟨⟨⟨⟨⟨k1, k2⟩, k3⟩, k4⟩, k5⟩, k6⟩ := hok
      have hstep : substitute cur j impl = some s1 := hstep
      rw [hstep] at k6
      have k6 : resolveGenOKB lib (List.map h.key ds) s1 = true := k6
      obtain ⟨sh, map, R, hs, g⟩ := substitute_general z neg prim cur impl s1 j r.wf (WF.of_wf k1) hj (by simpa using k4) k5 k2 k3 hstep
      have r1 := resRelG_step r hw hj hjd hd hnD (by simpa using k4) k5 g hfind hs
      obtain ⟨ρ', ih⟩ := resolve_fold_gen lib h hw z neg prim ds s1 (fun x => D x ∨ x = d) _ h'
        (fun d' hd' => ⟨(hrest d' hd').1, by
          rintro (a | a)
          · exact (hrest d' hd').2 a
          · subst a; exact hnd'.1 hd'⟩) hnd'.2 r1 k6 hfold
      refine ⟨ρ', resRelG_congr (fun x => ?_) ih⟩
      constructor
      · rintro ((a | a) | ⟨a, b⟩)
        · exact Or.inl a
        · subst a; exact Or.inr ⟨List.mem_cons_self, by rw [hfind]; rfl⟩
        · exact Or.inr ⟨List.mem_cons_of_mem _ a, b⟩
      · rintro (a | ⟨a, b⟩)
        · exact Or.inl (Or.inl a)
        · rcases List.mem_cons.mp a with a | a
          · exact Or.inl (Or.inr a)
          · exact Or.inr ⟨a, b⟩

/-- `resolve_tlib_cells`, general case -/
theorem resolve_general_main {α : Type _} (lib : Lib) (h h' : NNet) (hw : WFm h) (z : α) (neg : α → α)
    (prim : String → α → α → α → α → α) (hok : resolveGenOKB lib h.keys h = true) (he : resolveCells lib h = some h') :
    ∃ ρ, ResRelG lib h z neg prim h' (fun x => x < h.net.nodes.size ∧ (lib.find (h.net.node x).kind).isSome = true) ρ := by
  obtain ⟨ρ, r⟩ := resolve_fold_gen lib h hw z neg prim (List.range h.net.nodes.size) h (fun _ => False) Ren.id h'
    (fun d hd => ⟨List.mem_range.mp hd, fun x => x⟩) List.nodup_range (resRelG_refl lib h hw z neg prim) hok he
  exact ⟨ρ, resRelG_congr (fun x => by simp) r⟩

end KV.Transform
