import KyupyVerif.Proofs.NetlistReach
/-! Helper lemmas for C11 (part 4): bench, the repaired pass 1.5, and the branch-fork simulation. -/
namespace KV.Netlist

/-! ## bench -/
theorem sub_getOrAddFork (C : Circ) (n : String) : Sub C (getOrAddFork C n) := by
  unfold getOrAddFork
  split
  · exact Sub.refl C
  · exact sub_addFork _ _ _

theorem getOrAddFork_isFork (C : Circ) (n : String) : (getOrAddFork C n).isFork n = true := by
  unfold getOrAddFork
  split
  · assumption
  · exact isFork_addFork_self _ _ _

theorem foldl_getOrAddFork_isFork (l : List String) (C : Circ) (d : String) (hd : d ∈ l) :
    (l.foldl getOrAddFork C).isFork d = true := by
  obtain ⟨C', _, h⟩ := foldl_reach getOrAddFork sub_getOrAddFork hd C
  exact h.isFork (getOrAddFork_isFork C' d)

theorem lines_getOrAddFork (C : Circ) (n : String) : (getOrAddFork C n).lines = C.lines := by
  unfold getOrAddFork; split <;> rfl

theorem lines_foldl_getOrAddFork (l : List String) (C : Circ) : (l.foldl getOrAddFork C).lines = C.lines := by
  induction l generalizing C with
  | nil => rfl
  | cons x xs ih => simp only [List.foldl_cons]; rw [ih, lines_getOrAddFork]

theorem ioB_getOrAddFork (C : Circ) (n : String) : (getOrAddFork C n).ioB = C.ioB := by
  unfold getOrAddFork; split <;> rfl

theorem ioB_foldl_getOrAddFork (l : List String) (C : Circ) : (l.foldl getOrAddFork C).ioB = C.ioB := by
  induction l generalizing C with
  | nil => rfl
  | cons x xs ih => simp only [List.foldl_cons]; rw [ih, ioB_getOrAddFork]

/-- the lines one bench statement contributes -/
def benchLinesOf : BStmt → List LineM
  | .intf _ => []
  | .gate name _ drv => ⟨.cell name 0, .fork name, none⟩ :: driverLines name drv 0

def benchPortsOf : BStmt → List String
  | .intf names => names
  | .gate _ _ _ => []

theorem lines_benchStmt (C : Circ) (s : BStmt) : (benchStmt C s).lines = C.lines ++ benchLinesOf s := by
  cases s with
  | intf names => simp [benchStmt, benchLinesOf, lines_foldl_getOrAddFork]
  | gate name kind drv =>
    simp [benchStmt, benchLinesOf, lines_getOrAddFork, lines_foldl_getOrAddFork]

theorem ioB_benchStmt (C : Circ) (s : BStmt) : (benchStmt C s).ioB = C.ioB ++ benchPortsOf s := by
  cases s with
  | intf names => simp [benchStmt, benchPortsOf, ioB_foldl_getOrAddFork]
  | gate name kind drv =>
    simp [benchStmt, benchPortsOf, ioB_getOrAddFork, ioB_foldl_getOrAddFork]

theorem sub_benchStmt (C : Circ) (s : BStmt) : Sub C (benchStmt C s) := by
  cases s with
  | intf names => exact (sub_foldl _ sub_getOrAddFork names C).trans (sub_pushIoB _ _)
  | gate name kind drv =>
    exact (sub_foldl _ sub_getOrAddFork drv C).trans ((sub_addCell _ _ _).trans ((sub_getOrAddFork _ _).trans
      ((sub_addLine _ _ _ _).trans (sub_addLines _ _))))

theorem mem_driverLines (name : String) (drv : List String) (k0 k : Nat) (hk : k < drv.length) :
    (⟨.fork drv[k], .cell name (k0 + k), none⟩ : LineM) ∈ driverLines name drv k0 := by
  induction drv generalizing k0 k with
  | nil => cases hk
  | cons d r ih =>
    cases k with
    | zero => simp [driverLines]
    | succ k =>
      simp only [driverLines, List.getElem_cons_succ, List.mem_cons]
      right
      have := ih (k0 + 1) k (by simpa using hk)
      have e : k0 + 1 + k = k0 + (k + 1) := by omega
      rw [e] at this; exact this

theorem length_driverLines (name : String) (drv : List String) (k0 : Nat) : (driverLines name drv k0).length = drv.length := by
  induction drv generalizing k0 with
  | nil => rfl
  | cons d r ih => simp [driverLines, ih]

/-! ## the repaired pass 1.5 -/
/-- the pair got one of its three possible lines -/
def Linked (ts : String × String) (C : Circ) : Prop :=
  (⟨.fork ts.1, .fork ts.2, none⟩ : LineM) ∈ C.lines ∨ (⟨.fork ts.2, .fork ts.1, none⟩ : LineM) ∈ C.lines ∨
  ∃ k, (⟨.cell (constName ts.2 k) 0, .fork ts.1, none⟩ : LineM) ∈ C.lines

theorem Linked.mono {ts : String × String} {C C' : Circ} (hs : Sub C C') (h : Linked ts C) : Linked ts C' := by
  rcases h with h | h | ⟨k, h⟩
  · exact Or.inl (hs.lines _ h)
  · exact Or.inr (Or.inl (hs.lines _ h))
  · exact Or.inr (Or.inr ⟨k, hs.lines _ h⟩)

theorem assignStep_linked (C : Circ) (ts : String × String) (h : handled C ts = true) : Linked ts (assignStep C ts) := by
  obtain ⟨t, s⟩ := ts
  have sp := assignStep_spec C t s
  by_cases h1 : C.isFork t = true
  · exact Or.inl (sp.1 h1)
  · have h1' : C.isFork t = false := by simpa using h1
    by_cases h2 : C.isFork s = true
    · exact Or.inr (Or.inl (sp.2.1 h1' h2))
    · have h2' : C.isFork s = false := by simpa using h2
      have h3 : isConstBit s = true := by
        unfold handled at h; simp [h1', h2'] at h; exact h
      exact Or.inr (Or.inr ⟨C.cc, (sp.2.2.1 h1' h2' h3).1⟩)

theorem assignStep_unhandled (C : Circ) (ts : String × String) (h : handled C ts = false) : assignStep C ts = C := by
  obtain ⟨t, s⟩ := ts
  unfold handled at h
  simp only [Bool.or_eq_false_iff] at h
  exact (assignStep_spec C t s).2.2.2 h.1.1 h.1.2 h.2

theorem roundFold_spec (pairs : List (String × String)) (acc : Circ × List (String × String)) :
    (∀ ts ∈ acc.2, ts ∈ (pairs.foldl roundStep acc).2) ∧
    (∀ ts ∈ pairs, ts ∈ (pairs.foldl roundStep acc).2 ∨ Linked ts (pairs.foldl roundStep acc).1) ∧
    (pairs.foldl roundStep acc).2.length ≤ acc.2.length + pairs.length ∧
    ((pairs.foldl roundStep acc).2.length = acc.2.length + pairs.length →
      (pairs.foldl roundStep acc).1 = acc.1 ∧ (pairs.foldl roundStep acc).2 = acc.2 ++ pairs ∧
      ∀ ts ∈ pairs, handled acc.1 ts = false) := by
  induction pairs generalizing acc with
  | nil => simp
  | cons x xs ih =>
    simp only [List.foldl_cons]
    obtain ⟨i1, i2, i3, i4⟩ := ih (roundStep acc x)
    by_cases hx : handled acc.1 x = true
    · have hr : roundStep acc x = (assignStep acc.1 x, acc.2) := by unfold roundStep; simp [hx]
      rw [hr] at i1 i2 i3 i4 ⊢
      refine ⟨i1, ?_, ?_, ?_⟩
      · intro ts hts
        rcases List.mem_cons.mp hts with rfl | h
        · right
          exact (assignStep_linked acc.1 ts hx).mono (sub_assignRound_aux xs (assignStep acc.1 ts, acc.2))
        · exact i2 ts h
      · simp only [List.length_cons] at *; omega
      · intro hlen
        simp only [List.length_cons] at *
        omega
    · have hx' : handled acc.1 x = false := by simpa using hx
      have hr : roundStep acc x = (acc.1, acc.2 ++ [x]) := by unfold roundStep; simp [hx']
      rw [hr] at i1 i2 i3 i4 ⊢
      refine ⟨fun ts h => i1 ts (by simp [h]), ?_, ?_, ?_⟩
      · intro ts hts
        rcases List.mem_cons.mp hts with rfl | h
        · left; exact i1 ts (by simp)
        · exact i2 ts h
      · simp only [List.length_cons, List.length_append, List.length_nil] at *; omega
      · intro hlen
        simp only [List.length_cons, List.length_append, List.length_nil] at *
        obtain ⟨j1, j2, j3⟩ := i4 (by omega)
        refine ⟨j1, by simp [j2], ?_⟩
        intro ts hts
        rcases List.mem_cons.mp hts with rfl | h
        · exact hx'
        · exact j3 ts h

theorem assignRound_spec (C : Circ) (pairs : List (String × String)) :
    (∀ ts ∈ pairs, ts ∈ (assignRound C pairs).2 ∨ Linked ts (assignRound C pairs).1) ∧
    (assignRound C pairs).2.length ≤ pairs.length ∧
    ((assignRound C pairs).2.length = pairs.length →
      (assignRound C pairs).1 = C ∧ (assignRound C pairs).2 = pairs ∧ ∀ ts ∈ pairs, handled C ts = false) := by
  obtain ⟨_, h2, h3, h4⟩ := roundFold_spec pairs (C, [])
  unfold assignRound
  refine ⟨h2, by simpa using h3, ?_⟩
  intro h
  have := h4 (by simpa using h)
  simpa using this

theorem assignFix_spec (fuel : Nat) (C : Circ) (pairs : List (String × String)) (hf : pairs.length < fuel) :
    (∀ ts ∈ (assignFix fuel C pairs).2, handled (assignFix fuel C pairs).1 ts = false) ∧
    (∀ ts ∈ pairs, ts ∈ (assignFix fuel C pairs).2 ∨ Linked ts (assignFix fuel C pairs).1) := by
  induction fuel generalizing C pairs with
  | zero => omega
  | succ f ih =>
    obtain ⟨r1, r2, r3⟩ := assignRound_spec C pairs
    unfold assignFix
    by_cases he : pairs.isEmpty = true
    · simp only [he, if_true]
      have : pairs = [] := by simpa using he
      subst this
      simp
    · have he' : pairs.isEmpty = false := by simpa using he
      simp only [he', Bool.false_eq_true, if_false]
      by_cases hst : ((assignRound C pairs).2.length == pairs.length) = true
      · simp only [hst, if_true]
        obtain ⟨e1, e2, e3⟩ := r3 (by simpa using hst)
        rw [e1, e2]
        exact ⟨e3, fun ts h => Or.inl h⟩
      · have hst' : ((assignRound C pairs).2.length == pairs.length) = false := by simpa using hst
        simp only [hst', Bool.false_eq_true, if_false]
        have hlt : (assignRound C pairs).2.length < f := by
          have : (assignRound C pairs).2.length ≠ pairs.length := by simpa using hst
          omega
        obtain ⟨j1, j2⟩ := ih (assignRound C pairs).1 (assignRound C pairs).2 hlt
        refine ⟨j1, ?_⟩
        intro ts hts
        rcases r1 ts hts with h | h
        · exact j2 ts h
        · exact Or.inr (h.mono (sub_assignFix _ _ _))

/-! ## no branch forks before pass 2 -/
structure NB (C : Circ) : Prop where
  nodes : ∀ n ∈ C.nodes, n.branch = false
  lines : ∀ l ∈ C.lines, l.via = none

theorem nb_of_eq {C C' : Circ} (h : NB C) (hn : C'.nodes = C.nodes) (hl : C'.lines = C.lines) : NB C' :=
  ⟨fun n hm => h.nodes n (hn ▸ hm), fun l hm => h.lines l (hl ▸ hm)⟩

theorem nb_addFork {C : Circ} (h : NB C) (n : String) : NB (C.addFork n false) :=
  ⟨fun x hx => by
    simp only [addFork_nodes, List.mem_append, List.mem_singleton] at hx
    rcases hx with hx | rfl
    · exact h.nodes x hx
    · rfl, h.lines⟩

theorem nb_addCell {C : Circ} (h : NB C) (k n : String) : NB (C.addCell k n) :=
  ⟨fun x hx => by
    simp only [addCell_nodes, List.mem_append, List.mem_singleton] at hx
    rcases hx with hx | rfl
    · exact h.nodes x hx
    · rfl, h.lines⟩

theorem nb_addLine {C : Circ} (h : NB C) (d r : Ep) : NB (C.addLine d r none) :=
  ⟨h.nodes, fun l hl => by
    simp only [addLine_lines, List.mem_append, List.mem_singleton] at hl
    rcases hl with hl | rfl
    · exact h.lines l hl
    · rfl⟩

theorem nb_failIf {C : Circ} (h : NB C) (b : Bool) : NB (C.failIf b) := ⟨h.nodes, h.lines⟩
theorem nb_fail {C : Circ} (h : NB C) : NB C.fail := ⟨h.nodes, h.lines⟩
theorem nb_incCC {C : Circ} (h : NB C) : NB C.incCC := ⟨h.nodes, h.lines⟩
theorem nb_pushIo {C : Circ} (h : NB C) (k : Nat) (n : String) : NB (C.pushIo k n) := ⟨h.nodes, h.lines⟩

theorem nb_foldl {α} (step : Circ → α → Circ) (hs : ∀ C x, NB C → NB (step C x)) (l : List α) (C : Circ) (h : NB C) :
    NB (l.foldl step C) := by
  induction l generalizing C with
  | nil => exact h
  | cons x xs ih => exact ih _ (hs C x h)

theorem nb_pass1Pin (tl : TL) (ds : List Decl) (ty inst : String) (C : Circ) (ps : String × SelVal) (h : NB C) :
    NB (pass1Pin tl ds ty inst C ps) := by
  unfold pass1Pin
  split
  · exact nb_fail h
  · split
    · exact nb_fail h
    · exact nb_failIf (nb_addLine (nb_addFork h _) _ _) _
  · exact h

theorem nb_pass1Stmt (tl : TL) (ds : List Decl) (C : Circ) (s : Stmt) (h : NB C) : NB (pass1Stmt tl ds C s) := by
  cases s with
  | inst ty nm pins => exact nb_foldl _ (nb_pass1Pin tl ds ty nm) pins _ (nb_addCell h _ _)
  | decls _ => exact h
  | assign _ _ => exact h
  | other => exact h

theorem nb_ioStep (pn : List String) (C : Circ) (n : String) (h : NB C) : NB (ioStep pn C n) := by
  unfold ioStep
  split
  · exact nb_pushIo h _ _
  · exact h

theorem nb_portName (pn : List String) (k : DKind) (C : Circ) (n : String) (h : NB C) : NB (portName pn k C n) := by
  unfold portName
  split
  · exact nb_addLine (nb_addFork (nb_ioStep _ _ _ (nb_addCell h _ _)) _) _ _
  · exact nb_ioStep _ _ _ (nb_addCell h _ _)

theorem nb_portDecl (pn : List String) (C : Circ) (d : Decl) (h : NB C) : NB (portDecl pn C d) := by
  unfold portDecl
  split
  · exact h
  · exact nb_foldl _ (nb_portName pn d.kind) _ _ h

theorem nb_assignStep (C : Circ) (ts : String × String) (h : NB C) : NB (assignStep C ts) := by
  unfold assignStep
  split
  · exact nb_addLine (nb_addFork (nb_failIf h _) _) _ _
  · split
    · exact nb_addLine (nb_addFork h _) _ _
    · split
      · exact nb_addLine (nb_addFork (nb_incCC (nb_addCell h _ _)) _) _ _
      · exact h

theorem nb_roundFold (pairs : List (String × String)) (acc : Circ × List (String × String)) (h : NB acc.1) :
    NB (pairs.foldl roundStep acc).1 := by
  induction pairs generalizing acc with
  | nil => exact h
  | cons x xs ih =>
    simp only [List.foldl_cons]
    apply ih
    unfold roundStep
    split
    · exact nb_assignStep _ _ h
    · exact h

theorem nb_assignFix (fuel : Nat) (C : Circ) (pairs : List (String × String)) (h : NB C) : NB (assignFix fuel C pairs).1 := by
  induction fuel generalizing C pairs with
  | zero => exact h
  | succ f ih =>
    unfold assignFix
    split
    · exact h
    · split
      · exact nb_roundFold pairs (C, []) h
      · exact ih _ _ (nb_roundFold pairs (C, []) h)

theorem nb_afterPass15 (cfg : Cfg) (tl : TL) (ports : List String) (stmts : List Stmt) : NB (afterPass15 cfg tl ports stmts) := by
  unfold afterPass15 pass15 afterPass1 portPass
  have h0 : NB ({ err := !portsDeclared (sigDecls stmts) ports } : Circ) := by
    constructor <;> intro _ h <;> simp at h
  have h1 := nb_foldl _ (fun C s => nb_pass1Stmt tl (sigDecls stmts) C s) stmts _ h0
  have h2 := nb_foldl _ (fun C d => nb_portDecl (posNames (sigDecls stmts) ports) C d) (sigDecls stmts) _ h1
  split
  · exact nb_assignFix _ _ _ h2
  · exact nb_foldl _ nb_assignStep _ _ h2

/-! ## the simulation between `branchforks=True` and `branchforks=False` -/
def tildeFree (q : String) : Bool := !q.toList.contains '~'

/-- the names pass 2 looks up for a pin naming `s` contain no `~` (constant pins look up nothing of their own) -/
def pinQueriesOK (ds : List Decl) (s : String) : Bool :=
  isConstBit s || (tildeFree s && tildeFree (s ++ "[0]") &&
    (match lookup ds s with
     | some d => d.names.all tildeFree
     | none => true))

def stmtQueriesOK (ds : List Decl) : Stmt → Bool
  | .inst _ _ pins => pins.all fun ps => match ps.2 with
    | .one s => pinQueriesOK ds s
    | .many _ => true
  | _ => true

def outQueriesOK (d : Decl) : Bool := d.kind != .output || d.names.all fun n => tildeFree n && tildeFree (n ++ "[0]")

/-- no name that pass 2 or the output pass looks up contains `~` (the separator of branch-fork names) -/
def noTilde (stmts : List Stmt) : Bool :=
  stmts.all (stmtQueriesOK (sigDecls stmts)) && (sigDecls stmts).all outQueriesOK

structure BR (Ct Cf : Circ) : Prop where
  nodes : Cf.nodes = Ct.nodes.filter (!·.branch)
  lines : Cf.lines = Ct.lines.map LineM.unvia
  io : Cf.io = Ct.io
  cc : Cf.cc = Ct.cc
  tilde : ∀ n ∈ Ct.nodes, n.branch = true → tildeFree n.name = false
  vias : (Ct.nodes.filter (·.branch)).map (·.name) = Ct.lines.filterMap (·.via)

theorem BR.refl_of_nb {C : Circ} (h : NB C) : BR C C := by
  refine ⟨?_, ?_, rfl, rfl, ?_, ?_⟩
  · symm; apply List.filter_eq_self.mpr
    intro n hn; simp [h.nodes n hn]
  · symm
    have : ∀ l ∈ C.lines, LineM.unvia l = l := by
      intro l hl
      have := h.lines l hl
      cases l; simp_all [LineM.unvia]
    rw [List.map_congr_left this]; simp
  · intro n hn hb; rw [h.nodes n hn] at hb; cases hb
  · have h1 : C.nodes.filter (·.branch) = [] := by
      apply List.filter_eq_nil_iff.mpr
      intro n hn; simp [h.nodes n hn]
    have h2 : C.lines.filterMap (·.via) = [] := by
      apply List.filterMap_eq_nil_iff.mpr
      intro l hl; exact h.lines l hl
    rw [h1, h2]; rfl

theorem BR.isFork {Ct Cf : Circ} (h : BR Ct Cf) (q : String) (hq : tildeFree q = true) : Ct.isFork q = Cf.isFork q := by
  rw [Bool.eq_iff_iff]
  unfold Circ.isFork
  rw [List.any_eq_true, List.any_eq_true, h.nodes]
  constructor
  · rintro ⟨x, hx, hp⟩
    refine ⟨x, List.mem_filter.mpr ⟨hx, ?_⟩, hp⟩
    simp only [Bool.and_eq_true, beq_iff_eq] at hp
    by_cases hb : x.branch = true
    · have := h.tilde x hx hb
      rw [hp.2, hq] at this; cases this
    · simp [hb]
  · rintro ⟨x, hx, hp⟩
    exact ⟨x, (List.mem_filter.mp hx).1, hp⟩

theorem BR.isFork_mem {Ct Cf : Circ} (h : BR Ct Cf) (q : String) (hm : (⟨forkKind, q, false⟩ : NodeM) ∈ Cf.nodes) :
    Ct.isFork q = true ∧ Cf.isFork q = true := by
  constructor
  · rw [isFork_iff]; refine ⟨false, ?_⟩
    rw [h.nodes] at hm; exact (List.mem_filter.mp hm).1
  · rw [isFork_iff]; exact ⟨false, hm⟩

theorem br_addFork {Ct Cf : Circ} (h : BR Ct Cf) (n : String) : BR (Ct.addFork n false) (Cf.addFork n false) := by
  refine ⟨?_, h.lines, h.io, h.cc, ?_, ?_⟩
  · simp [h.nodes, List.filter_append]
  · intro x hx hb
    simp only [addFork_nodes, List.mem_append, List.mem_singleton] at hx
    rcases hx with hx | rfl
    · exact h.tilde x hx hb
    · cases hb
  · simp [List.filter_append, h.vias]

theorem br_addCell {Ct Cf : Circ} (h : BR Ct Cf) (k n : String) : BR (Ct.addCell k n) (Cf.addCell k n) := by
  refine ⟨?_, h.lines, h.io, h.cc, ?_, ?_⟩
  · simp [h.nodes, List.filter_append]
  · intro x hx hb
    simp only [addCell_nodes, List.mem_append, List.mem_singleton] at hx
    rcases hx with hx | rfl
    · exact h.tilde x hx hb
    · cases hb
  · simp [List.filter_append, h.vias]

theorem br_addLine {Ct Cf : Circ} (h : BR Ct Cf) (d r : Ep) : BR (Ct.addLine d r none) (Cf.addLine d r none) := by
  refine ⟨h.nodes, ?_, h.io, h.cc, h.tilde, ?_⟩
  · simp [h.lines, LineM.unvia]
  · simp [List.filterMap_append, h.vias]

theorem br_incCC {Ct Cf : Circ} (h : BR Ct Cf) : BR Ct.incCC Cf.incCC :=
  ⟨h.nodes, h.lines, h.io, by simp [h.cc], h.tilde, h.vias⟩

theorem br_of_eq {Ct Cf Ct' Cf' : Circ} (h : BR Ct Cf) (tn : Ct'.nodes = Ct.nodes) (tl : Ct'.lines = Ct.lines) (ti : Ct'.io = Ct.io)
    (tc : Ct'.cc = Ct.cc) (fn : Cf'.nodes = Cf.nodes) (fl : Cf'.lines = Cf.lines) (fi : Cf'.io = Cf.io) (fc : Cf'.cc = Cf.cc) :
    BR Ct' Cf' :=
  ⟨by rw [fn, tn]; exact h.nodes, by rw [fl, tl]; exact h.lines, by rw [fi, ti]; exact h.io, by rw [fc, tc]; exact h.cc,
   by rw [tn]; exact h.tilde, by rw [tn, tl]; exact h.vias⟩

theorem br_fail {Ct Cf : Circ} (h : BR Ct Cf) : BR Ct.fail Cf.fail := br_of_eq h rfl rfl rfl rfl rfl rfl rfl rfl
theorem br_failIf {Ct Cf : Circ} (h : BR Ct Cf) (a b : Bool) : BR (Ct.failIf a) (Cf.failIf b) :=
  br_of_eq h rfl rfl rfl rfl rfl rfl rfl rfl

theorem tilde_branchName (f inst pin : String) : tildeFree (branchName f inst pin) = false := by
  unfold tildeFree branchName
  simp [String.toList_append]

theorem br_connectPin {Ct Cf : Circ} (h : BR Ct Cf) (inst pin : String) (idx : Nat) (f : String) :
    BR (connectPin true inst pin idx Ct f) (connectPin false inst pin idx Cf f) := by
  unfold connectPin
  simp only [if_true, Bool.false_eq_true, if_false]
  refine ⟨?_, ?_, h.io, h.cc, ?_, ?_⟩
  · simp [h.nodes, List.filter_append]
  · simp [h.lines, LineM.unvia]
  · intro x hx hb
    simp only [addLine_nodes, addFork_nodes, List.mem_append, List.mem_singleton] at hx
    rcases hx with hx | rfl
    · exact h.tilde x hx hb
    · exact tilde_branchName _ _ _
  · simp [List.filter_append, List.filterMap_append, h.vias]

theorem br_constPin {Ct Cf : Circ} (h : BR Ct Cf) (s : String) :
    BR (constPin Ct s).1 (constPin Cf s).1 ∧ (constPin Ct s).2 = (constPin Cf s).2 ∧
    (isConstBit s = true → (⟨forkKind, (constPin Cf s).2, false⟩ : NodeM) ∈ (constPin Cf s).1.nodes) ∧
    (isConstBit s = false → (constPin Cf s).2 = s) := by
  unfold constPin
  by_cases hc : isConstBit s = true
  · simp only [hc, if_true]
    rw [h.cc]
    refine ⟨?_, rfl, fun _ => by simp, fun hh => by simp at hh⟩
    exact br_addLine (br_addFork (br_incCC (br_addCell h (constKind s) (constName s Ct.cc))) (constName s Ct.cc))
      (.cell (constName s Ct.cc) 0) (.fork (constName s Ct.cc))
  · simp only [hc]
    exact ⟨h, rfl, fun hh => by simp at hh, fun _ => rfl⟩

theorem declFork_congr {Ct Cf : Circ} (h : BR Ct Cf) (ds : List Decl) (s : String)
    (hq : ∀ d, lookup ds s = some d → d.names.all tildeFree = true) : declFork ds Ct s = declFork ds Cf s := by
  unfold declFork
  cases hl : lookup ds s with
  | none => rfl
  | some d =>
    simp only
    cases hn : d.names with
    | nil => rfl
    | cons x xs =>
      cases xs with
      | nil =>
        have : tildeFree x = true := by
          have := hq d hl; rw [hn] at this; simpa using this
        simp only [h.isFork x this]
      | cons _ _ => rfl

theorem resolveRead_congr {Ct Cf : Circ} (h : BR Ct Cf) (cfgT cfgF : Cfg) (hob : cfgT.onebitDecl = cfgF.onebitDecl)
    (ds : List Decl) (s : String)
    (hs : (⟨forkKind, s, false⟩ : NodeM) ∈ Cf.nodes ∨
      (tildeFree s = true ∧ tildeFree (s ++ "[0]") = true ∧ ∀ d, lookup ds s = some d → d.names.all tildeFree = true)) :
    resolveRead cfgT ds Ct s = resolveRead cfgF ds Cf s := by
  rcases hs with hm | ⟨q1, q2, q3⟩
  · obtain ⟨a, b⟩ := h.isFork_mem s hm
    rw [resolveRead_of_isFork _ _ _ _ a, resolveRead_of_isFork _ _ _ _ b]
  · unfold resolveRead
    rw [h.isFork s q1, h.isFork _ q2, declFork_congr h ds s q3, hob]

theorem br_readerOne {Ct Cf : Circ} (h : BR Ct Cf) (cfgT cfgF : Cfg) (hob : cfgT.onebitDecl = cfgF.onebitDecl)
    (hbt : cfgT.bf = true) (hbf : cfgF.bf = false) (ds : List Decl) (inst pin : String) (idx : Nat) (s : String)
    (hq : pinQueriesOK ds s = true) :
    BR (readerOne cfgT ds inst pin idx Ct s) (readerOne cfgF ds inst pin idx Cf s) := by
  unfold readerOne
  obtain ⟨c1, c2, c3, c4⟩ := br_constPin h s
  rw [hbt, hbf]
  have hs : (⟨forkKind, (constPin Cf s).2, false⟩ : NodeM) ∈ (constPin Cf s).1.nodes ∨
      (tildeFree (constPin Cf s).2 = true ∧ tildeFree ((constPin Cf s).2 ++ "[0]") = true ∧
        ∀ d, lookup ds (constPin Cf s).2 = some d → d.names.all tildeFree = true) := by
    by_cases hc : isConstBit s = true
    · exact Or.inl (c3 hc)
    · have hc' : isConstBit s = false := by simpa using hc
      right
      rw [c4 hc']
      unfold pinQueriesOK at hq
      simp only [hc', Bool.false_or, Bool.and_eq_true] at hq
      refine ⟨hq.1.1, hq.1.2, ?_⟩
      intro d hd
      have := hq.2
      rw [hd] at this
      exact this
  have hr := resolveRead_congr c1 cfgT cfgF hob ds (constPin Cf s).2 hs
  rw [c2, hr]
  have hfk : BR (forkFor cfgT ds (constPin Ct s).1 (constPin Cf s).2) (forkFor cfgF ds (constPin Cf s).1 (constPin Cf s).2) := by
    unfold forkFor
    rw [hr]
    split
    · exact br_addFork c1 _
    · exact c1
  exact br_connectPin hfk inst pin idx _

theorem br_readerPin {Ct Cf : Circ} (h : BR Ct Cf) (cfgT cfgF : Cfg) (hob : cfgT.onebitDecl = cfgF.onebitDecl)
    (hbt : cfgT.bf = true) (hbf : cfgF.bf = false) (tl : TL) (ds : List Decl) (ty inst : String) (ps : String × SelVal)
    (hq : (match ps.2 with | .one s => pinQueriesOK ds s | .many _ => true) = true) :
    BR (readerPin cfgT tl ds ty inst Ct ps) (readerPin cfgF tl ds ty inst Cf ps) := by
  unfold readerPin
  split
  · exact br_fail h
  · exact h
  · split
    · exact br_fail h
    · rename_i s0 hs0
      rw [hs0] at hq
      exact br_readerOne h cfgT cfgF hob hbt hbf ds inst ps.1 _ s0 hq

theorem br_foldl_readerPin {Ct Cf : Circ} (h : BR Ct Cf) (cfgT cfgF : Cfg) (hob : cfgT.onebitDecl = cfgF.onebitDecl)
    (hbt : cfgT.bf = true) (hbf : cfgF.bf = false) (tl : TL) (ds : List Decl) (ty inst : String) (pins : List (String × SelVal))
    (hq : ∀ ps ∈ pins, (match ps.2 with | .one s => pinQueriesOK ds s | .many _ => true) = true) :
    BR (pins.foldl (readerPin cfgT tl ds ty inst) Ct) (pins.foldl (readerPin cfgF tl ds ty inst) Cf) := by
  induction pins generalizing Ct Cf with
  | nil => exact h
  | cons p ps ih =>
    simp only [List.foldl_cons]
    exact ih (br_readerPin h cfgT cfgF hob hbt hbf tl ds ty inst p (hq p List.mem_cons_self))
      (fun x hx => hq x (List.mem_cons_of_mem _ hx))

theorem br_pass2 {Ct Cf : Circ} (h : BR Ct Cf) (cfgT cfgF : Cfg) (hob : cfgT.onebitDecl = cfgF.onebitDecl)
    (hbt : cfgT.bf = true) (hbf : cfgF.bf = false) (tl : TL) (ds : List Decl) (stmts : List Stmt)
    (hq : ∀ s ∈ stmts, stmtQueriesOK ds s = true) :
    BR (stmts.foldl (pass2Stmt cfgT tl ds) Ct) (stmts.foldl (pass2Stmt cfgF tl ds) Cf) := by
  induction stmts generalizing Ct Cf with
  | nil => exact h
  | cons s ss ih =>
    simp only [List.foldl_cons]
    apply ih _ (fun x hx => hq x (List.mem_cons_of_mem _ hx))
    have hs := hq s List.mem_cons_self
    cases s with
    | inst ty nm pins =>
      apply br_foldl_readerPin h cfgT cfgF hob hbt hbf tl ds ty nm pins
      intro ps hps
      unfold stmtQueriesOK at hs
      exact List.all_eq_true.mp hs ps hps
    | decls _ => exact h
    | assign _ _ => exact h
    | other => exact h

theorem br_outName {Ct Cf : Circ} (h : BR Ct Cf) (n : String) (h1 : tildeFree n = true) (h2 : tildeFree (n ++ "[0]") = true) :
    BR (outName Ct n) (outName Cf n) := by
  unfold outName
  rw [h.isFork n h1, h.isFork _ h2]
  split
  · exact br_addLine h _ _
  · split
    · exact br_failIf (br_addLine h _ _) _ _
    · exact h

theorem br_outPass {Ct Cf : Circ} (h : BR Ct Cf) (ds : List Decl) (hq : ∀ d ∈ ds, outQueriesOK d = true) :
    BR (outPass ds Ct) (outPass ds Cf) := by
  unfold outPass
  induction ds generalizing Ct Cf with
  | nil => exact h
  | cons d ds ih =>
    simp only [List.foldl_cons]
    apply ih _ (fun x hx => hq x (List.mem_cons_of_mem _ hx))
    unfold outDecl
    have hd := hq d List.mem_cons_self
    by_cases hk : d.kind = .output
    · simp only [hk, beq_self_eq_true, if_true]
      unfold outQueriesOK at hd
      simp only [hk, bne_self_eq_false, Bool.false_or] at hd
      have hall := List.all_eq_true.mp hd
      generalize d.names = names at hall
      induction names generalizing Ct Cf with
      | nil => exact h
      | cons n ns ihn =>
        simp only [List.foldl_cons]
        have hn := hall n List.mem_cons_self
        simp only [Bool.and_eq_true] at hn
        exact ihn (br_outName h n hn.1 hn.2) (fun x hx => hall x (List.mem_cons_of_mem _ hx))
    · have : (d.kind == DKind.output) = false := by simp [hk]
      simp only [this]
      exact h

end KV.Netlist

namespace KV.Netlist

/-! ## the lines that end in a cell pin -/
def readerCell (l : LineM) : Option (String × Nat) :=
  match l.r with
  | .cell n p => some (n, p)
  | .fork _ => none

/-- reader pins (cell name, pin index) of all lines that end in a cell, in line order -/
def RC (C : Circ) : List (String × Nat) := C.lines.filterMap readerCell

/-- the input-pin connections of one instantiation, in dictionary order -/
def pinReaders (tl : TL) (ty inst : String) (ps : String × SelVal) : List (String × Nat) :=
  match tl ty ps.1 with
  | some (idx, false) => (match ps.2 with
    | .one _ => [(inst, idx)]
    | .many _ => [])
  | _ => []

def stmtReaders (tl : TL) : Stmt → List (String × Nat)
  | .inst ty inst pins => pins.flatMap (pinReaders tl ty inst)
  | _ => []

section rc
variable (C : Circ)
@[simp] theorem rc_addFork (n : String) (b : Bool) : RC (C.addFork n b) = RC C := rfl
@[simp] theorem rc_addCell (k n : String) : RC (C.addCell k n) = RC C := rfl
@[simp] theorem rc_failIf (b : Bool) : RC (C.failIf b) = RC C := rfl
@[simp] theorem rc_fail : RC C.fail = RC C := rfl
@[simp] theorem rc_incCC : RC C.incCC = RC C := rfl
@[simp] theorem rc_pushIo (k : Nat) (n : String) : RC (C.pushIo k n) = RC C := rfl
@[simp] theorem rc_addLine_fork (d : Ep) (f : String) (v : Option String) : RC (C.addLine d (.fork f) v) = RC C := by
  simp [RC, readerCell]
@[simp] theorem rc_addLine_cell (d : Ep) (n : String) (p : Nat) (v : Option String) :
    RC (C.addLine d (.cell n p) v) = RC C ++ [(n, p)] := by
  simp [RC, readerCell]
end rc

theorem rc_foldl_same {α} (step : Circ → α → Circ) (h : ∀ C x, RC (step C x) = RC C) (l : List α) (C : Circ) :
    RC (l.foldl step C) = RC C := by
  induction l generalizing C with
  | nil => rfl
  | cons x xs ih => simp only [List.foldl_cons]; rw [ih, h]

theorem rc_foldl_app {α} (step : Circ → α → Circ) (f : α → List (String × Nat)) (h : ∀ C x, RC (step C x) = RC C ++ f x)
    (l : List α) (C : Circ) : RC (l.foldl step C) = RC C ++ l.flatMap f := by
  induction l generalizing C with
  | nil => simp
  | cons x xs ih => simp only [List.foldl_cons, List.flatMap_cons]; rw [ih, h]; simp

theorem rc_pass1Pin (tl : TL) (ds : List Decl) (ty inst : String) (C : Circ) (ps : String × SelVal) :
    RC (pass1Pin tl ds ty inst C ps) = RC C := by
  unfold pass1Pin
  split
  · simp
  · split <;> simp
  · rfl

theorem rc_pass1Stmt (tl : TL) (ds : List Decl) (C : Circ) (s : Stmt) : RC (pass1Stmt tl ds C s) = RC C := by
  cases s with
  | inst ty nm pins =>
    show RC (pins.foldl (pass1Pin tl ds ty nm) (C.addCell ty nm)) = RC C
    rw [rc_foldl_same _ (rc_pass1Pin tl ds ty nm)]; simp
  | decls _ => rfl
  | assign _ _ => rfl
  | other => rfl

theorem rc_ioStep (pn : List String) (C : Circ) (n : String) : RC (ioStep pn C n) = RC C := by
  unfold ioStep; split <;> simp

theorem rc_portName (pn : List String) (k : DKind) (C : Circ) (n : String) : RC (portName pn k C n) = RC C := by
  unfold portName; split <;> simp [rc_ioStep]

theorem rc_portDecl (pn : List String) (C : Circ) (d : Decl) : RC (portDecl pn C d) = RC C := by
  unfold portDecl
  split
  · rfl
  · exact rc_foldl_same _ (rc_portName pn d.kind) _ _

theorem rc_assignStep (C : Circ) (ts : String × String) : RC (assignStep C ts) = RC C := by
  unfold assignStep
  split
  · simp
  · split
    · simp
    · split <;> simp

theorem rc_roundFold (pairs : List (String × String)) (acc : Circ × List (String × String)) :
    RC (pairs.foldl roundStep acc).1 = RC acc.1 := by
  induction pairs generalizing acc with
  | nil => rfl
  | cons x xs ih =>
    simp only [List.foldl_cons]
    rw [ih]
    unfold roundStep
    split
    · exact rc_assignStep _ _
    · rfl

theorem rc_assignFix (fuel : Nat) (C : Circ) (pairs : List (String × String)) : RC (assignFix fuel C pairs).1 = RC C := by
  induction fuel generalizing C pairs with
  | zero => rfl
  | succ f ih =>
    unfold assignFix
    split
    · rfl
    · split
      · exact rc_roundFold pairs (C, [])
      · rw [ih]; exact rc_roundFold pairs (C, [])

theorem rc_afterPass15 (cfg : Cfg) (tl : TL) (ports : List String) (stmts : List Stmt) : RC (afterPass15 cfg tl ports stmts) = [] := by
  unfold afterPass15 pass15 afterPass1 portPass
  have h2 : RC ((sigDecls stmts).foldl (portDecl (posNames (sigDecls stmts) ports))
      (stmts.foldl (pass1Stmt tl (sigDecls stmts)) { err := !portsDeclared (sigDecls stmts) ports })) = [] := by
    rw [rc_foldl_same _ (rc_portDecl _), rc_foldl_same _ (rc_pass1Stmt tl _)]; rfl
  split
  · rw [rc_assignFix, h2]
  · rw [rc_foldl_same _ rc_assignStep, h2]

theorem rc_constPin (C : Circ) (s : String) : RC (constPin C s).1 = RC C := by
  unfold constPin; split <;> simp

theorem rc_readerPin (cfg : Cfg) (tl : TL) (ds : List Decl) (ty inst : String) (C : Circ) (ps : String × SelVal) :
    RC (readerPin cfg tl ds ty inst C ps) = RC C ++ pinReaders tl ty inst ps := by
  unfold readerPin pinReaders
  cases h : tl ty ps.1 with
  | none => simp
  | some v =>
    obtain ⟨idx, o⟩ := v
    cases o with
    | true => simp
    | false =>
      cases h2 : ps.2 with
      | many l => simp
      | one s =>
        simp only []
        unfold readerOne connectPin forkFor
        split <;> split <;> simp [rc_constPin]

theorem rc_pass2Stmt (cfg : Cfg) (tl : TL) (ds : List Decl) (C : Circ) (s : Stmt) :
    RC (pass2Stmt cfg tl ds C s) = RC C ++ stmtReaders tl s := by
  cases s with
  | inst ty nm pins => exact rc_foldl_app _ _ (rc_readerPin cfg tl ds ty nm) pins C
  | decls _ => simp [pass2Stmt, stmtReaders]
  | assign _ _ => simp [pass2Stmt, stmtReaders]
  | other => simp [pass2Stmt, stmtReaders]

theorem rc_afterPass2 (cfg : Cfg) (tl : TL) (ports : List String) (stmts : List Stmt) :
    RC (afterPass2 cfg tl ports stmts) = stmts.flatMap (stmtReaders tl) := by
  unfold afterPass2
  rw [rc_foldl_app _ _ (rc_pass2Stmt cfg tl _), rc_afterPass15]; simp

/-- what the output pass adds: lines into pin 0 of cells named after output-port bits -/
def OutRC (ds : List Decl) (x : String × Nat) : Prop :=
  x.2 = 0 ∧ ∃ d ∈ ds, d.kind = .output ∧ ∃ n ∈ d.names, x.1 = n ∨ x.1 = n ++ "[0]"

theorem rc_outName (C : Circ) (n : String) : ∃ o, RC (outName C n) = RC C ++ o ∧ ∀ x ∈ o, x.2 = 0 ∧ (x.1 = n ∨ x.1 = n ++ "[0]") := by
  unfold outName
  split
  · exact ⟨[(n, 0)], by simp, by simp⟩
  · split
    · exact ⟨[(n ++ "[0]", 0)], by simp, by simp⟩
    · exact ⟨[], by simp, by simp⟩

theorem rc_foldl_outName (names : List String) (C : Circ) :
    ∃ o, RC (names.foldl outName C) = RC C ++ o ∧ ∀ x ∈ o, x.2 = 0 ∧ ∃ n ∈ names, x.1 = n ∨ x.1 = n ++ "[0]" := by
  induction names generalizing C with
  | nil => exact ⟨[], by simp, by simp⟩
  | cons n ns ih =>
    obtain ⟨o1, h1, p1⟩ := rc_outName C n
    obtain ⟨o2, h2, p2⟩ := ih (outName C n)
    refine ⟨o1 ++ o2, by simp only [List.foldl_cons]; rw [h2, h1]; simp, ?_⟩
    intro x hx
    rcases List.mem_append.mp hx with h | h
    · exact ⟨(p1 x h).1, n, List.mem_cons_self, (p1 x h).2⟩
    · obtain ⟨a, m, hm, b⟩ := p2 x h
      exact ⟨a, m, List.mem_cons_of_mem _ hm, b⟩

theorem rc_outPass (ds : List Decl) (C : Circ) : ∃ o, RC (outPass ds C) = RC C ++ o ∧ ∀ x ∈ o, OutRC ds x := by
  unfold outPass
  suffices h : ∀ (l : List Decl) (C : Circ), (∀ d ∈ l, d ∈ ds) →
      ∃ o, RC (l.foldl outDecl C) = RC C ++ o ∧ ∀ x ∈ o, OutRC ds x from h ds C (fun _ h => h)
  intro l
  induction l with
  | nil => intro C _; exact ⟨[], by simp, by simp⟩
  | cons d l ih =>
    intro C hsub
    have hd : ∃ o, RC (outDecl C d) = RC C ++ o ∧ ∀ x ∈ o, OutRC ds x := by
      unfold outDecl
      by_cases hk : d.kind = .output
      · simp only [hk, beq_self_eq_true, if_true]
        obtain ⟨o, h1, p⟩ := rc_foldl_outName d.names C
        refine ⟨o, h1, fun x hx => ?_⟩
        obtain ⟨a, n, hn, b⟩ := p x hx
        exact ⟨a, d, hsub d List.mem_cons_self, hk, n, hn, b⟩
      · have : (d.kind == DKind.output) = false := by simp [hk]
        simp only [this]
        exact ⟨[], by simp, by simp⟩
    obtain ⟨o1, h1, p1⟩ := hd
    obtain ⟨o2, h2, p2⟩ := ih (outDecl C d) (fun x hx => hsub x (List.mem_cons_of_mem _ hx))
    refine ⟨o1 ++ o2, by simp only [List.foldl_cons]; rw [h2, h1]; simp, ?_⟩
    intro x hx
    rcases List.mem_append.mp hx with h | h
    · exact p1 x h
    · exact p2 x h

/-! ## a small module for the non-vacuity examples of Props/C11.lean -/
def exTL : TL := fun k p =>
  if k == "NAND2_X1" then (if p == "A1" then some (0, false) else if p == "A2" then some (1, false) else if p == "ZN" then some (0, true) else none)
  else if k == "INV_X1" then (if p == "I" then some (0, false) else if p == "ZN" then some (0, true) else none)
  else none

/-- `module m(z, a, e); input [1:0] a; input [0:0] e; output [0:1] z; wire w; wire n;
    NAND2_X1 u1 (.ZN(w), .A2(a[0]), .A1(a[1]));  INV_X1 u2 (.I(e), .ZN(n));  INV_X1 u3 (.I(1'b1), .ZN(k));
    assign z = {w, n}; endmodule` -/
def exStmts : List Stmt := [
  RStmt.decl .input (some (1, some 0)) ["a"], RStmt.decl .input (some (0, some 0)) ["e"],
  RStmt.decl .output (some (0, some 1)) ["z"], RStmt.decl .wire none ["w"], RStmt.decl .wire none ["n"],
  RStmt.inst "NAND2_X1" "u1" [("ZN", some (.name "w")), ("A2", some (.bits "a" 0 none)), ("A1", some (.bits "a" 1 none))],
  RStmt.inst "INV_X1" "u2" [("I", some (.name "e")), ("ZN", some (.name "n"))],
  RStmt.inst "INV_X1" "u3" [("I", some (.const 1 'b' ['1'])), ("ZN", some (.name "k"))],
  RStmt.assign (.name "z") (.concat [.name "w", .name "n"])].map transform

/-- bench: `INPUT(a) INPUT(b) OUTPUT(z) z = NAND(n, a) n = NOT(b)` -/
def exBench : List BStmt := [.intf ["a"], .intf ["b"], .intf ["z"], .gate "z" "NAND" ["n", "a"], .gate "n" "NOT" ["b"]]

end KV.Netlist
