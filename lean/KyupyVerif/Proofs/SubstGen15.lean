import KyupyVerif.Proofs.SubstGen14
/-! Helper lemmas for C10 (`substitute_sem_general`), part 15: the real run of `substituteCore` with an implementation without
designated cell in lockstep with the virtual run (instance kept as an isolated node, ignored pins unconnected). -/
namespace KV.Transform
open KV

theorem phase1_none_eq (h : NNet) (c : Nat) (m : NNet) : phase1 h c m none = (delNode h c, Array.replicate m.net.nodes.size none) := rfl

theorem phase1_outOfRange_map (h : NNet) (c : Nat) (m : NNet) :
    (phase1 h c m (some m.net.nodes.size)).2 = Array.replicate m.net.nodes.size none := by
  simp [phase1, Array.setIfInBounds]

theorem lockstep_none (h : NNet) (c : Nat) (m : NNet) (sh : Shape) (w : WFm h) (mw : WF m) (hc : c < h.net.nodes.size)
    (hio : c ∉ h.net.io) (hs : implShape m = some sh) (hd : sh.des = none)
    (hself : ∀ ll, GhostLine h c m sh ll → (h.net.line ll).driver ≠ c)
    (h5 : NNet) (map : Array (Option Nat)) (dang : List (Option Nat)) (he : substituteCore h c m = some (h5, map, dang)) :
    ∃ (h2v : NNet) (mapB : Array (Option Nat)) (b4 b5 : Net) (ψ : Nat → Nat) (dangB : List (Option Nat)),
      (List.range m.net.nodes.size).foldlM (addImplNode m (h.names.getD c "") (some m.net.nodes.size))
        (phase1 h c m (some m.net.nodes.size)) = some (h2v, mapB) ∧
      connectIns m mapB ((sh.inPorts.zip (padTo (h.net.node c).ins sh.inPorts.length)).map (clrIgn m)) (phase3 m mapB h2v, id) = some (b4, id) ∧
      connectOuts m mapB (sh.outLines.zip (padTo (h.net.node c).outs sh.outLines.length)) (b4, []) = some (b5, dangB) ∧
      Lk (fun x => h.net.nodes.size - 1 ≤ x) (piN h.net.nodes.size c) ψ (GhostLine h c m sh) (GhostLine h c m sh) (fun _ => False) h5.net b5 ∧
      (∀ x, x < h5.net.nodes.size → h5.names.getD x "" = h2v.names.getD (piN h.net.nodes.size c x) "") ∧
      (∀ j, mapB.getD j none = (map.getD j none).map (piN h.net.nodes.size c)) ∧
      (∀ j x, map.getD j none = some x → h.net.nodes.size - 1 ≤ x ∧ x < h5.net.nodes.size) ∧
      b5.nodes.size = h5.net.nodes.size + 1 ∧ h5.names.size = h5.net.nodes.size ∧ (∀ i ∈ h5.net.io, i < h5.net.nodes.size) ∧
      (h.net.node c).ins.length ≤ sh.inPorts.length ∧ (h.net.node c).outs.length ≤ sh.outLines.length := by
  obtain ⟨h2, net4, ren, net5, hil, hol, hfold, hci, hco, e⟩ := substituteCore_inv h c m sh hs h5 map dang he
  rw [hd] at hfold
  -- the pins of the instance
  have hI : ∀ x ∈ (h.net.node c).ins.filterMap id, x < h.net.lines.size ∧ (h.net.line x).reader = c := by
    intro x hx
    obtain ⟨k, hk⟩ := (mem_filterMap_id _ x).mp hx
    exact ⟨(w.fwdIn c hc k x hk).1, (w.fwdIn c hc k x hk).2.1⟩
  have hO : ∀ x ∈ (h.net.node c).outs.filterMap id, x < h.net.lines.size ∧ (h.net.line x).driver = c := by
    intro x hx
    obtain ⟨k, hk⟩ := (mem_filterMap_id _ x).mp hx
    exact ⟨(w.fwdOut c hc k x hk).1, (w.fwdOut c hc k x hk).2.1⟩
  have ndI : ((h.net.node c).ins.filterMap id).Nodup := by
    apply nodup_filterMap_id
    intro k1 k2 x h1 h2
    have e1 := (w.fwdIn c hc k1 x (by simp [List.getD_eq_getElem?_getD, h1])).2.2
    have e2 := (w.fwdIn c hc k2 x (by simp [List.getD_eq_getElem?_getD, h2])).2.2
    rw [← e1, ← e2]
  have ndO : ((h.net.node c).outs.filterMap id).Nodup := by
    apply nodup_filterMap_id
    intro k1 k2 x h1 h2
    have e1 := (w.fwdOut c hc k1 x (by simp [List.getD_eq_getElem?_getD, h1])).2.2
    have e2 := (w.fwdOut c hc k2 x (by simp [List.getD_eq_getElem?_getD, h2])).2.2
    rw [← e1, ← e2]
  have sI : (sh.inPorts.zip (padTo (h.net.node c).ins sh.inPorts.length)).filterMap (·.2) = (h.net.node c).ins.filterMap id := by
    rw [zip_snd_filterMap _ _ (by rw [padTo_length _ _ hil]; exact Nat.le_refl _), padTo_filterMap]
  have sO : (sh.outLines.zip (padTo (h.net.node c).outs sh.outLines.length)).filterMap (·.2) = (h.net.node c).outs.filterMap id := by
    rw [zip_snd_filterMap _ _ (by rw [padTo_length _ _ hol]; exact Nat.le_refl _), padTo_filterMap]
  -- the start of the two loops over the implementation's nodes
  have li : LI h := ⟨w.names, w.io⟩
  have hioc : h.net.io.contains c = false := by simpa using hio
  have liA := (delNode_io h c li hc hioc).2
  obtain ⟨sA1, sA2⟩ := delNode_sizes h c
  obtain ⟨p1, p2, p3, p4⟩ := phase1_rest h c m m.net.nodes.size
  have s0 : LkS h.net.nodes.size c (h.names.getD c "") (fun l => l ∈ (h.net.node c).ins.filterMap id)
      (fun l => l ∈ (h.net.node c).outs.filterMap id) (phase1 h c m none) (phase1 h c m (some m.net.nodes.size)) := by
    refine ⟨lk_init_none h c m m.net.nodes.size w hc hio, ?_, ?_, liA.1, ?_, ?_, ?_, ?_, ?_, ?_, ?_⟩
    · show h.net.nodes.size - 1 ≤ (delNode h c).net.nodes.size
      rw [sA1]; exact Nat.le_refl _
    · show (phase1 h c m (some m.net.nodes.size)).1.net.nodes.size = (delNode h c).net.nodes.size + 1
      rw [p3, sA1]; omega
    · rw [p4, p3]; exact w.names
    · intro x hx
      have hx' : x < h.net.nodes.size - 1 := by rw [← sA1]; exact hx
      show (delNode h c).names.getD x "" = (phase1 h c m (some m.net.nodes.size)).1.names.getD _ ""
      rw [p4, delNode_names_getD h c x li hc hx']
      unfold piN; rw [if_pos hx']
      split <;> rfl
    · rw [p4]
    · show (delNode h c).net.lines.size = (phase1 h c m (some m.net.nodes.size)).1.net.lines.size
      rw [sA2, p1]
    · rw [phase1_outOfRange_map]; rfl
    · intro j
      rw [phase1_outOfRange_map]
      show _ = Option.map _ ((Array.replicate m.net.nodes.size none).getD j none)
      rw [getD_replicate_none]; rfl
    · intro j x hx
      have hx' : (Array.replicate m.net.nodes.size (none : Option Nat)).getD j none = some x := hx
      rw [getD_replicate_none] at hx'
      exact absurd hx' (by simp)
  obtain ⟨⟨h2v, mapB⟩, hfoldB, s2⟩ := lkS_fold hc m m.net.nodes.size (List.range m.net.nodes.size) _ _ (h2, map)
    (fun j hj => Nat.ne_of_lt (List.mem_range.mp hj)) s0 hfold
  have hmap : ∀ j, mapB.getD j none = (map.getD j none).map (piN h.net.nodes.size c) := s2.map
  have hmapLt : ∀ j x, map.getD j none = some x → x < h2.net.nodes.size ∧ h.net.nodes.size - 1 ≤ x :=
    fun j x hx => ⟨(s2.mapOwn j x hx).2, (s2.mapOwn j x hx).1⟩
  -- the loop over the implementation's lines
  obtain ⟨lk3, hL3, hN3, hLB3, hNB3⟩ := lk_phase3 map mapB hmap h2.net.nodes.size _ _ hmapLt m.net.lines.toList h2.net h2v.net s2.lk s2.lsz rfl
    (fun l hl hm => by
      have := (hI l hm).1
      have hB : h.net.lines.size ≤ h2v.net.lines.size := by
        -- the virtual loop over the nodes does not touch the lines
        obtain ⟨kinds, hk⟩ := foldlM_addImplNode_net m _ (some m.net.nodes.size) _ _ _ hfoldB
        have : ∀ (ks : List String) (n : Net), (ks.foldl pushNode n).lines = n.lines := by
          intro ks; induction ks with
          | nil => intro n; rfl
          | cons k ks ih => intro n; rw [List.foldl_cons, ih]; rfl
        show h.net.lines.size ≤ h2v.net.lines.size
        rw [hk, this, p1]; exact Nat.le_refl _
      omega)
  have eA := phase3_eq_foldl m map h2
  have eB := phase3_eq_foldl m mapB h2v
  rw [← eA, ← eB] at lk3 hL3
  rw [← eA] at hN3
  rw [← eB] at hLB3 hNB3
  have hLh : h.net.lines.size ≤ (phase3 m mapB h2v).lines.size := by
    obtain ⟨kinds, hk⟩ := foldlM_addImplNode_net m _ (some m.net.nodes.size) _ _ _ hfoldB
    have : ∀ (ks : List String) (n : Net), (ks.foldl pushNode n).lines = n.lines := by
      intro ks; induction ks with
      | nil => intro n; rfl
      | cons k ks ih => intro n; rw [List.foldl_cons, ih]; rfl
    have h2l : h2v.net.lines.size = h.net.lines.size := by rw [hk, this, p1]
    omega
  -- the lines of the host are still what they were, in the virtual circuit
  have f1 := frame_phase1 h c m m.net.nodes.size ((h.net.node c).ins.filterMap id) ((h.net.node c).outs.filterMap id)
  have f2 := frame_foldlM m _ (some m.net.nodes.size) _ _ _ hfoldB f1.1 f1.2
  have f3 : FrameA h c ((h.net.node c).ins.filterMap id) ((h.net.node c).outs.filterMap id)
      (phase3 m mapB h2v).nodes (phase3 m mapB h2v).lines := frameA_foldl mapB f2.2 _ _ f2.1
  have hghost : ∀ inn ll, (inn, some ll) ∈ sh.inPorts.zip (padTo (h.net.node c).ins sh.inPorts.length) → ignoredPort m inn = true →
      GhostLine h c m sh ll := by
    intro inn ll hm hi
    obtain ⟨k, h1, h2⟩ := (mem_pins_iff hil inn ll).mp hm
    exact ⟨k, inn, h2, h1, hi⟩
  have lk3' := lk3.congrPI (PI' := fun x => False ∨ x ∈ (sh.inPorts.zip (padTo (h.net.node c).ins sh.inPorts.length)).filterMap (·.2))
    (fun x => by rw [sI]; simp)
  obtain ⟨b4, ψ, G, q1, q2, q3, q4, q5, q6, q7, q8, q9⟩ := lk_connectIns m map mapB hmap
    (fun ll => ll ∈ (h.net.node c).ins.filterMap id ∨ ll ∈ (h.net.node c).outs.filterMap id) h2.net.nodes.size _ hmapLt
    _ (phase3 m map h2) (phase3 m mapB h2v) id id (fun _ => False) net4 ren lk3' hN3 hci rfl (by rw [sI]; exact ndI)
    (by
      intro ll ht _
      refine ⟨ll, rfl, ?_, rfl⟩
      rw [hL3]
      rcases ht with ht | ht
      · have := (hI ll ht).1; omega
      · have := (hO ll ht).1; omega)
    (by
      intro ll hll
      rw [sI] at hll
      exact ⟨Or.inl hll, fun x => x, by have := (hI ll hll).1; omega⟩)
    (by
      intro inn ll hm hi
      have hg := hghost inn ll hm hi
      have hll : ll ∈ (h.net.node c).ins.filterMap id := by
        rw [← sI]; exact List.mem_filterMap.mpr ⟨(inn, some ll), hm, rfl⟩
      have hno : ll ∉ (h.net.node c).outs.filterMap id := fun ho => hself ll hg (hO ll ho).2
      refine ⟨hno, fun x hx => ?_⟩
      have hdr : ((phase3 m mapB h2v).line ll).driver = (h.net.line ll).driver := (f3.drv ll (hI ll hll).1 hno).1
      rw [hdr] at hx
      intro hown
      have hlt := (w.back ll (hI ll hll).1).1
      rw [piN_ge x hown] at hx
      omega)
  have hG : ∀ ll, G ll ↔ GhostLine h c m sh ll := by
    intro ll
    rw [q6 ll]
    constructor
    · rintro (hf | ⟨inn, h1, h2⟩)
      · exact absurd hf id
      · exact hghost inn ll h1 h2
    · rintro ⟨k, inn, h1, h2, h3⟩
      exact Or.inr ⟨inn, (mem_pins_iff hil inn ll).mpr ⟨k, h2, h1⟩, h3⟩
  -- the loop over the output pins
  have hzip : sh.outLines.zip ((padTo (h.net.node c).outs sh.outLines.length).map ren) =
      (sh.outLines.zip (padTo (h.net.node c).outs sh.outLines.length)).map fun p => (p.1, ren p.2) := by
    rw [List.zip_map_right]; rfl
  rw [hzip] at hco
  have lk4 := q2.congrPO (PO' := fun x => x ∈ (sh.outLines.zip (padTo (h.net.node c).outs sh.outLines.length)).filterMap (·.2))
    (fun x => by rw [sO])
  obtain ⟨b5, r1, r2, r3, r4, r5, r6⟩ := lk_connectOuts m map mapB hmap h2.net.nodes.size ren q4 ψ G G hmapLt _ net4 b4 [] net5 dang
    lk4 q3 hco (by rw [sO]; exact ndO)
    (by
      intro ll hll
      rw [sO] at hll
      have hng : ¬ G ll := by
        rw [hG]; intro hg; exact hself ll hg (hO ll hll).2
      exact ⟨hng, q5 ll (Or.inr hll) hng⟩)
  have hGG : G = GhostLine h c m sh := funext fun x => propext (hG x)
  have hN5 : h5.net.nodes.size = h2.net.nodes.size := by rw [e]; exact r3
  refine ⟨h2v, mapB, b4, b5, ψ, dang.map (Option.map (piN h.net.nodes.size c)), hfoldB, q1, by simpa using r1, ?_, ?_, hmap, ?_, ?_, ?_, ?_,
    hil, hol⟩
  · rw [e, ← hGG]; exact r2
  · intro x hx
    rw [hN5] at hx
    rw [e]; exact s2.names x hx
  · intro j x hx
    rw [hN5]; exact s2.mapOwn j x hx
  · rw [r6, q8, hNB3, s2.sizeB, hN5]
  · rw [e]; show h2.names.size = net5.nodes.size; rw [r3]; exact s2.nszA
  · intro i hi
    rw [hN5]
    have hio5 : h5.net.io = h2.net.io := by
      rw [e]
      have po : PinsOnly h2.net net5 :=
        (pinsOnly_phase3 m map h2).trans ((pinsOnly_connectIns m map _ _ _ hci).trans (pinsOnly_connectOuts m map _ _ _ hco))
      exact po.2
    rw [hio5] at hi
    have fo := foldlM_addImplNode_obs m _ none _ _ _ hfold liA (by
      intro k x hx
      have hx' : (Array.replicate m.net.nodes.size (none : Option Nat)).getD k none = some x := hx
      rw [getD_replicate_none] at hx'
      exact absurd hx' (by simp))
    exact fo.2.2.1.2 i hi

end KV.Transform
