import KyupyVerif.Proofs.SubstSome2
/-! C10, audit finding 6 (progress of `substitute`), part 3: gap-freeness of the forks outside `node_map` through all phases, and
`substituteCore` succeeds (generic form, instantiated for implementations with and without designated cell). -/
namespace KV.Transform
open KV

/-! ### gap-freeness (`Dn`) through the phases -/
theorem dn_pushNode (net : Net) (kind : String) (h : ∀ j, j < net.nodes.size → Dn net j) :
    ∀ j, j < (pushNode net kind).nodes.size → Dn (pushNode net kind) j := by
  intro j hj hf o ho
  rw [pushNode_node] at hf ho
  split at hf
  · rw [if_pos (by assumption)] at ho; simp at ho
  · rename_i hne
    rw [if_neg hne] at ho
    have : (pushNode net kind).nodes.size = net.nodes.size + 1 := by simp [pushNode]
    exact h j (by omega) hf o ho

theorem dn_pushNodes : ∀ (ks : List String) (net : Net), (∀ j, j < net.nodes.size → Dn net j) →
    ∀ j, j < (ks.foldl pushNode net).nodes.size → Dn (ks.foldl pushNode net) j
  | [], _, h => h
  | k :: ks, net, h => by rw [List.foldl_cons]; exact dn_pushNodes ks _ (dn_pushNode net k h)

theorem dn_addLineNet (net : Net) (d dp r rp j : Nat) (hne : j ≠ d) (h : Dn net j) : Dn (addLineNet net d dp r rp) j := by
  intro hf o ho
  have houts : ((addLineNet net d dp r rp).node j).outs = (net.node j).outs := by
    rw [addLineNet_node]; dsimp only
    rw [ite_ins_outs, if_neg (fun hc => hne hc.1)]
  have hkind : ((addLineNet net d dp r rp).node j).isFork = (net.node j).isFork := by
    rw [addLineNet_node]; dsimp only
    rw [if_neg (fun hc : j = d ∧ d < net.nodes.size => hne hc.1)]
    split <;> rfl
  rw [hkind] at hf; rw [houts] at ho
  exact h hf o ho

theorem dn_addImplLines (map : Array (Option Nat)) : ∀ (lns : List LineD) (net : Net) (j : Nat),
    j ∉ map.toList.filterMap id → Dn net j → Dn (lns.foldl (addImplLineN map) net) j
  | [], _, _, _, h => h
  | ln :: lns, net, j, hj, h => by
    rw [List.foldl_cons]
    apply dn_addImplLines map lns _ j hj
    unfold addImplLineN
    cases hd : map.getD ln.driver none with
    | none => exact h
    | some d =>
      cases hr : map.getD ln.reader none with
      | none => exact h
      | some r => exact dn_addLineNet net d ln.dpin r ln.rpin j (fun e => hj (e ▸ mem_vals_of_getD map _ d hd)) h

theorem outTarget_val (m : NNet) (map : Array (Option Nat)) (l d dp : Nat) (h : outTarget m map l = some (d, dp)) :
    d ∈ map.toList.filterMap id := by
  unfold outTarget at h
  dsimp only at h
  split at h
  · cases hm : map.getD (m.net.line l).reader none with
    | none => rw [hm] at h; simp at h
    | some x => rw [hm] at h; simp at h; rw [← h.1]; exact mem_vals_of_getD map _ x hm
  · cases hm : map.getD (m.net.line l).driver none with
    | none => rw [hm] at h; simp at h
    | some x => rw [hm] at h; simp at h; rw [← h.1]; exact mem_vals_of_getD map _ x hm

theorem dn_connectOuts (m : NNet) (map : Array (Option Nat)) : ∀ (pins : List (Nat × Option Nat)) (net : Net) (dang : List (Option Nat))
    (st' : Net × List (Option Nat)), connectOuts m map pins (net, dang) = some st' →
    st'.1.nodes.size = net.nodes.size ∧ ∀ j, j ∉ map.toList.filterMap id → Dn net j → Dn st'.1 j
  | [], net, dang, st', he => by
    simp only [connectOuts] at he; cases he; exact ⟨rfl, fun _ _ h => h⟩
  | (l, none) :: rest, net, dang, st', he => by
    rw [connectOuts] at he
    exact dn_connectOuts m map rest net _ st' he
  | (l, some ll) :: rest, net, dang, st', he => by
    rw [connectOuts] at he
    split at he
    · exact absurd he (by simp)
    · rename_i d dp ht
      obtain ⟨s, k⟩ := dn_connectOuts m map rest _ _ st' he
      refine ⟨by rw [s]; exact (setDriver_sizes net ll d dp).1, fun j hj h => k j hj ?_⟩
      have hne : j ≠ d := fun e => hj (e ▸ outTarget_val m map l d dp ht)
      intro hf o ho
      rw [setDriver_node, if_neg (fun hc => hne hc.1)] at hf ho
      exact h hf o ho

/-! ### pin-list lengths (`LS`) through the phases -/
theorem ls_pushNodes : ∀ (ks : List String) (net : Net) (j : Nat), j < net.nodes.size → LS net (ks.foldl pushNode net) j
  | [], net, j, _ => LS.refl net j
  | k :: ks, net, j, hj => by
    rw [List.foldl_cons]
    refine LS.trans (LS.of_eq ?_) (ls_pushNodes ks _ j ?_)
    · rw [pushNode_node, if_neg (by omega)]
    · show j < (net.nodes.push _).size
      rw [Array.size_push]; omega

theorem ls_addLineNet (net : Net) (d dp r rp j : Nat) (hd : j ≠ d) (hr : j ≠ r) : LS net (addLineNet net d dp r rp) j := by
  apply LS.of_eq
  rw [addLineNet_node]; dsimp only
  rw [if_neg (fun hc : j = r ∧ r < net.nodes.size => hr hc.1), if_neg (fun hc : j = d ∧ d < net.nodes.size => hd hc.1)]

theorem ls_addImplLines (map : Array (Option Nat)) : ∀ (lns : List LineD) (net : Net) (j : Nat),
    j ∉ map.toList.filterMap id → LS net (lns.foldl (addImplLineN map) net) j
  | [], net, j, _ => LS.refl net j
  | ln :: lns, net, j, hj => by
    rw [List.foldl_cons]
    refine LS.trans ?_ (ls_addImplLines map lns _ j hj)
    unfold addImplLineN
    cases hd : map.getD ln.driver none with
    | none => exact LS.refl _ _
    | some d =>
      cases hr : map.getD ln.reader none with
      | none => exact LS.refl _ _
      | some r =>
        exact ls_addLineNet net d ln.dpin r ln.rpin j (fun e => hj (e ▸ mem_vals_of_getD map _ d hd))
          (fun e => hj (e ▸ mem_vals_of_getD map _ r hr))

theorem ls_connectOuts (m : NNet) (map : Array (Option Nat)) : ∀ (pins : List (Nat × Option Nat)) (net : Net) (dang : List (Option Nat))
    (st' : Net × List (Option Nat)), connectOuts m map pins (net, dang) = some st' →
    ∀ j, j ∉ map.toList.filterMap id → LS net st'.1 j
  | [], net, dang, st', he => by
    simp only [connectOuts] at he; cases he; exact fun j _ => LS.refl net j
  | (l, none) :: rest, net, dang, st', he => by
    rw [connectOuts] at he
    exact ls_connectOuts m map rest net _ st' he
  | (l, some ll) :: rest, net, dang, st', he => by
    rw [connectOuts] at he
    split at he
    · exact absurd he (by simp)
    · rename_i d dp ht
      intro j hj
      refine LS.trans (LS.of_eq ?_) (ls_connectOuts m map rest _ _ st' he j hj)
      have hne : j ≠ d := fun e => hj (e ▸ outTarget_val m map l d dp ht)
      rw [setDriver_node, if_neg (fun hc : j = d ∧ d < net.nodes.size => hne hc.1)]

theorem densifyNode_size (net : Net) (v : Nat) : (densifyNode net v).nodes.size = net.nodes.size := by
  unfold densifyNode; split <;> simp

theorem densifyNode_node (net : Net) (v x : Nat) : (densifyNode net v).node x =
    if x = v ∧ v < net.nodes.size ∧ (net.node v).isFork = true ∧ (net.node v).outs.any (·.isNone) = true then
      { net.node x with outs := ((net.node v).outs.filterMap id).map some } else net.node x := by
  unfold densifyNode
  split
  · rename_i hc
    simp only [Bool.and_eq_true] at hc
    show nodeA (net.nodes.modify v _) x = _
    rw [nodeA_modify]
    show (if x = v ∧ v < net.nodes.size then _ else net.node x) = _
    by_cases e : x = v ∧ v < net.nodes.size
    · rw [if_pos e, if_pos ⟨e.1, e.2, hc.1, hc.2⟩, e.1]; rfl
    · rw [if_neg e, if_neg (fun h => e ⟨h.1, h.2.1⟩)]
  · rename_i hc
    simp only [Bool.and_eq_true, not_and] at hc
    rw [if_neg (fun h => hc h.2.2.1 h.2.2.2)]

theorem dn_densifyNode (net : Net) (v j : Nat) (h : j = v ∨ Dn net j) : Dn (densifyNode net v) j := by
  intro hf o ho
  rw [densifyNode_node] at hf ho
  split at hf
  · rename_i hc
    rw [if_pos hc] at ho
    simp only [List.mem_map] at ho
    obtain ⟨y, _, e⟩ := ho
    rw [← e]; simp
  · rename_i hc
    rw [if_neg hc] at ho
    rcases h with e | h
    · subst e
      by_cases hv : j < net.nodes.size
      · have : (net.node j).outs.any (·.isNone) = false := by
          cases hany : (net.node j).outs.any (·.isNone) with
          | false => rfl
          | true => exact absurd ⟨rfl, hv, hf, hany⟩ hc
        intro eo; subst eo
        have : (net.node j).outs.any (·.isNone) = true := List.any_eq_true.mpr ⟨none, ho, rfl⟩
        simp_all
      · have hdef : net.node j = default := by
          simp [Net.node, Array.getD_eq_getD_getElem?, Array.getElem?_eq_none (by omega : net.nodes.size ≤ j)]
        rw [hdef] at ho
        have : (default : NodeD).outs = [] := rfl
        rw [this] at ho; simp at ho
    · exact h hf o ho

theorem dn_densify : ∀ (vs : List Nat) (net : Net) (j : Nat), (j ∈ vs ∨ Dn net j) → Dn (vs.foldl densifyNode net) j
  | [], _, _, h => by rcases h with h | h; simp at h; exact h
  | v :: vs, net, j, h => by
    rw [List.foldl_cons]
    apply dn_densify vs _ j
    rcases h with h | h
    · rcases List.mem_cons.mp h with e | e
      · exact Or.inr (dn_densifyNode net v j (Or.inl e))
      · exact Or.inl e
    · exact Or.inr (dn_densifyNode net v j (Or.inr h))

theorem size_densify : ∀ (vs : List Nat) (net : Net), (vs.foldl densifyNode net).nodes.size = net.nodes.size
  | [], _ => rfl
  | v :: vs, net => by rw [List.foldl_cons, size_densify vs, densifyNode_size]

/-! ### the node loop: values of `node_map` -/
theorem fold_mapVals (m : NNet) (hn : String) (des : Option Nat) : ∀ (js : List Nat) (st st' : NNet × Array (Option Nat)),
    js.foldlM (addImplNode m hn des) st = some st' →
    st.1.net.nodes.size ≤ st'.1.net.nodes.size ∧
    ∀ j x, st'.2.getD j none = some x → st.2.getD j none = some x ∨ (st.1.net.nodes.size ≤ x ∧ x < st'.1.net.nodes.size)
  | [], st, st', he => by
    simp only [List.foldlM_nil] at he
    cases (Option.some.inj he)
    exact ⟨Nat.le_refl _, fun j x h => Or.inl h⟩
  | j0 :: js, st, st', he => by
    simp only [List.foldlM_cons, Option.bind_eq_bind, Option.bind_eq_some_iff] at he
    obtain ⟨st1, h1, h2⟩ := he
    obtain ⟨s2, d2⟩ := fold_mapVals m hn des js st1 st' h2
    rw [addImplNode_eq] at h1
    cases ha : addedOne m hn des j0 with
    | none =>
      rw [ha] at h1
      cases (Option.some.inj h1)
      exact ⟨s2, d2⟩
    | some kn =>
      rw [ha] at h1
      simp only [Option.map_eq_some_iff] at h1
      obtain ⟨h', hadd, e⟩ := h1
      subst e
      have hsz : h'.net.nodes.size = st.1.net.nodes.size + 1 := by
        rw [(addNode_spec st.1 h' _ _ hadd).1]; simp
      refine ⟨by simp only at s2; omega, fun j x hx => ?_⟩
      rcases d2 j x hx with h3 | h3
      · simp only at h3
        rw [mapGetD_set] at h3
        split at h3
        · simp only [Option.some.injEq] at h3
          right; simp only at s2; omega
        · exact Or.inl h3
      · right; simp only at h3; omega

/-! ### `substituteCore` succeeds: generic form -/
theorem core_some_of (h : NNet) (c : Nat) (m : NNet) (sh : Shape) (hs : implShape m = some sh) (w : WFm h)
    (hc : c < h.net.nodes.size)
    (hil : (h.net.node c).ins.length ≤ sh.inPorts.length) (hol : (h.net.node c).outs.length ≤ sh.outLines.length)
    (hfresh : addFreshB h c m = true) (ht : targetsOKB m = true)
    (Own : Nat → Prop)
    (li : LI (phase1 h c m sh.des).1) (ml : MapLt (phase1 h c m sh.des).2 (phase1 h c m sh.des).1.net.nodes.size)
    (h0 : HostOK Own (fun l => l ∈ (h.net.node c).outs.filterMap id) (phase1 h c m sh.des).1.net)
    (d0 : ∀ j, j < (phase1 h c m sh.des).1.net.nodes.size → Dn (phase1 h c m sh.des).1.net j)
    (hown : ∀ y, (phase1 h c m sh.des).1.net.nodes.size ≤ y → Own y)
    (hmap0 : ∀ j x, (phase1 h c m sh.des).2.getD j none = some x → Own x)
    (hlsz : (phase1 h c m sh.des).1.net.lines.size = h.net.lines.size)
    (hpins : ∀ l0, GhostLine h c m sh l0 → l0 ∉ (h.net.node c).outs.filterMap id ∧
      ((phase1 h c m sh.des).1.net.line l0).driver < (phase1 h c m sh.des).1.net.nodes.size ∧
      ¬ Own ((phase1 h c m sh.des).1.net.line l0).driver) :
    ∃ h5 map dang, substituteCore h c m = some (h5, map, dang) ∧
      (∀ j, j < h5.net.nodes.size → j ∉ map.toList.filterMap id → Dn h5.net j) ∧
      (∀ j, j < (phase1 h c m sh.des).1.net.nodes.size → ¬ Own j → LS (phase1 h c m sh.des).1.net h5.net j) := by
  -- the loop over the implementation's nodes
  have hf : addFreshB h c m = true := hfresh
  unfold addFreshB at hf
  rw [hs] at hf
  simp only [Bool.and_eq_true, decide_eq_true_eq, List.all_eq_true, Bool.not_eq_true'] at hf
  obtain ⟨⟨h2, map⟩, hfold⟩ := fold_some m (h.names.getD c "") sh.des (List.range m.net.nodes.size) (phase1 h c m sh.des) li ml hf.1
    (fun k hk hmem => by
      have := hf.2 k hk
      rw [List.contains_eq_mem, decide_eq_false_iff_not] at this
      exact this hmem)
  obtain ⟨kinds, hkinds⟩ := foldlM_addImplNode_net m _ sh.des _ _ _ hfold
  have hkinds' : h2.net = kinds.foldl pushNode (phase1 h c m sh.des).1.net := hkinds
  have hmapped := fold_mapped h c m sh.des (h2, map) hfold
  obtain ⟨hsz2, hvals⟩ := fold_mapVals m _ sh.des _ _ _ hfold
  have hmapOwn : ∀ j x, map.getD j none = some x → Own x := by
    intro j x hx
    rcases hvals j x hx with h3 | h3
    · exact hmap0 j x h3
    · exact hown x h3.1
  have ho2 : HostOK Own (fun l => l ∈ (h.net.node c).outs.filterMap id) h2.net := by
    rw [hkinds']
    exact hostOK_pushNodes kinds _ h0 hown
  have dn2 : ∀ j, j < h2.net.nodes.size → Dn h2.net j := by rw [hkinds']; exact dn_pushNodes kinds _ d0
  have hl2 : h2.net.lines = (phase1 h c m sh.des).1.net.lines := by rw [hkinds', lines_pushNodes]
  -- the loop over the implementation's lines
  have e3 := phase3_eq_foldl m map h2
  have ho3 : HostOK Own (fun l => l ∈ (h.net.node c).outs.filterMap id) (phase3 m map h2) := by
    rw [e3]; exact hostOK_addImplLines map hmapOwn _ _ ho2
  have hline3 : ∀ l, l < h.net.lines.size → (phase3 m map h2).line l = (phase1 h c m sh.des).1.net.line l ∧
      h.net.lines.size ≤ (phase3 m map h2).lines.size ∧ (phase3 m map h2).nodes.size = h2.net.nodes.size := by
    intro l hl
    have hl' : l < h2.net.lines.size := by rw [hl2, hlsz]; exact hl
    obtain ⟨a1, a2, a3⟩ := line_addImplLines map m.net.lines.toList h2.net l hl'
    rw [e3]
    refine ⟨a1.trans ?_, by rw [hl2, hlsz] at a2; exact a2, a3⟩
    show lineA h2.net.lines l = _
    rw [hl2]; rfl
  have hn3 : (phase3 m map h2).nodes.size = h2.net.nodes.size := phase3_nodes_size m map h2
  have dn3 : ∀ j, j < h2.net.nodes.size → j ∉ map.toList.filterMap id → Dn (phase3 m map h2) j := by
    intro j hj hv; rw [e3]; exact dn_addImplLines map _ _ j hv (dn2 j hj)
  -- the pins of the instance
  have hI : ∀ x ∈ (h.net.node c).ins.filterMap id, x < h.net.lines.size ∧ (h.net.line x).reader = c := by
    intro x hx
    obtain ⟨k, hk⟩ := (mem_filterMap_id _ x).mp hx
    exact ⟨(w.fwdIn c hc k x hk).1, (w.fwdIn c hc k x hk).2.1⟩
  have ndI : ((h.net.node c).ins.filterMap id).Nodup := by
    apply nodup_filterMap_id
    intro k1 k2 x h1 h2
    have e1 := (w.fwdIn c hc k1 x (by simp [List.getD_eq_getElem?_getD, h1])).2.2
    have e2 := (w.fwdIn c hc k2 x (by simp [List.getD_eq_getElem?_getD, h2])).2.2
    rw [← e1, ← e2]
  have sI : (sh.inPorts.zip (padTo (h.net.node c).ins sh.inPorts.length)).filterMap (·.2) = (h.net.node c).ins.filterMap id := by
    rw [zip_snd_filterMap _ _ (by rw [padTo_length _ _ hil]; exact Nat.le_refl _), padTo_filterMap]
  have ci : CI Own m (phase3 m map h2) id (fun l => l ∈ (h.net.node c).outs.filterMap id)
      (sh.inPorts.zip (padTo (h.net.node c).ins sh.inPorts.length)) := by
    refine ⟨rfl, ho3, ?_, fun _ l1 _ l2 _ _ e => Option.some.inj e, by rw [sI]; exact ndI⟩
    intro inn l0 hm
    obtain ⟨k, hk1, hk2⟩ := mem_zip_padTo hm
    have hl0 : l0 ∈ (h.net.node c).ins.filterMap id := (mem_filterMap_id _ l0).mpr ⟨k, hk2⟩
    obtain ⟨a1, a2, a3⟩ := hline3 l0 (hI l0 hl0).1
    refine ⟨l0, rfl, Nat.lt_of_lt_of_le (hI l0 hl0).1 a2, fun hig => ?_⟩
    obtain ⟨g1, g2, g3⟩ := hpins l0 ⟨k, inn, hk2, hk1, hig⟩
    rw [a1, a3]
    exact ⟨g1, Nat.lt_of_lt_of_le g2 hsz2, g3⟩
  obtain ⟨net4, ren, Ex', hci, _, hn4, hd4, hr4, hls4⟩ := connectIns_some Own m map _ (phase3 m map h2) id _
    (fun inn l0 hm hig => inTarget_some m sh map hs ht hmapped inn (List.of_mem_zip hm).1 hig) ci
  -- the loop over the output pins
  obtain ⟨⟨net5, dang⟩, hco⟩ := connectOuts_some m map (sh.outLines.zip ((padTo (h.net.node c).outs sh.outLines.length).map ren)) (net4, [])
    (fun p hp => outTarget_some m sh map hs ht hmapped p.1 (List.of_mem_zip hp).1)
  obtain ⟨hn5, hd5⟩ := dn_connectOuts m map _ _ _ _ hco
  refine ⟨{ h2 with net := net5 }, map, dang,
    substituteCore_of_phases h c m sh hs h2 map net4 net5 ren dang hil hol hfold hci hco, ?_, ?_⟩
  · intro j hj hv
    have hj2 : j < h2.net.nodes.size := by
      have : net5.nodes.size = h2.net.nodes.size := by rw [hn5]; show net4.nodes.size = _; rw [hn4, hn3]
      rw [← this]; exact hj
    exact hd5 j hv (hd4 j (by rw [hn3]; exact hj2) (dn3 j hj2 hv))
  · intro j hj hno
    have hv : j ∉ map.toList.filterMap id := by
      intro hm
      obtain ⟨k, hk⟩ := mem_map_values map j hm
      exact hno (hmapOwn k j hk)
    have l1 : LS (phase1 h c m sh.des).1.net h2.net j := by rw [hkinds']; exact ls_pushNodes kinds _ j hj
    have l2 : LS h2.net (phase3 m map h2) j := by rw [e3]; exact ls_addImplLines map _ _ j hv
    have l4 : LS net4 net5 j := ls_connectOuts m map _ net4 [] (net5, dang) hco j hv
    exact (l1.trans l2).trans ((hls4 j hv).trans l4)

end KV.Transform
