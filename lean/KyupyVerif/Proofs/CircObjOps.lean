import KyupyVerif.Proofs.CircObjBase
/-! C09: preservation of `WFc` by the constructors and removers of `Node` and `Line`. -/
namespace KV.CircObj

@[simp] theorem upd_get {α : Type} (f : Heap α) (i : Nat) (v : α) (j : Nat) :
    (upd f i v).get j = if j = i then v else f.get j := rfl

@[simp] theorem pin_nil (p : Nat) : pin [] p = none := by simp [pin]

/-- position of a node of the circuit -/
theorem WFc.node_at {c : Circ} (wf : WFc c) {i : Nat} (hi : i ∈ c.nodes) :
    ∃ h : (c.nobj i).index < c.nodes.length, c.nodes[(c.nobj i).index] = i := by
  obtain ⟨p, hp, rfl⟩ := List.mem_iff_getElem.1 hi
  have := wf.nidx p hp
  exact ⟨by omega, by simp [this]⟩

theorem WFc.line_at {c : Circ} (wf : WFc c) {l : Nat} (hl : l ∈ c.lines) :
    ∃ h : (c.lobj l).index < c.lines.length, c.lines[(c.lobj l).index] = l := by
  obtain ⟨p, hp, rfl⟩ := List.mem_iff_getElem.1 hl
  have := wf.lidx p hp
  exact ⟨by omega, by simp [this]⟩

/-! ## Node.remove -/
section removeNode
variable {c : Circ} {i : Nat}

theorem removeNode_eq (ha : (c.nobj i).alive = true) : removeNode c i =
    { c with
      nodes := (idxDel c.nodes (c.nobj i).index).1
      forks := if (c.nobj i).kind == FORK then eraseKey c.forks (c.nobj i).name else c.forks
      cells := if (c.nobj i).kind == FORK then c.cells else eraseKey c.cells (c.nobj i).name
      nobj := upd (reindexN c.nobj (idxDel c.nodes (c.nobj i).index).2 (c.nobj i).index) i
        { (reindexN c.nobj (idxDel c.nodes (c.nobj i).index).2 (c.nobj i).index) i with alive := false } } := by
  unfold removeNode; simp only [ha, if_true]

theorem reindexN_get (h : Heap NodeObj) (m : Option Nat) (k j : Nat) :
    ((reindexN h m k).get j).name = (h.get j).name ∧ ((reindexN h m k).get j).kind = (h.get j).kind ∧
    ((reindexN h m k).get j).ins = (h.get j).ins ∧ ((reindexN h m k).get j).outs = (h.get j).outs ∧
    ((reindexN h m k).get j).alive = (h.get j).alive ∧
    ((reindexN h m k).get j).index = if m = some j then k else (h.get j).index := by
  unfold reindexN
  cases m with
  | none => simp
  | some m => by_cases hj : j = m <;> simp [hj] <;> grind

theorem removeNode_nobj (ha : (c.nobj i).alive = true) (j : Nat) :
    ((removeNode c i).nobj j).name = (c.nobj j).name ∧ ((removeNode c i).nobj j).kind = (c.nobj j).kind ∧
    ((removeNode c i).nobj j).ins = (c.nobj j).ins ∧ ((removeNode c i).nobj j).outs = (c.nobj j).outs ∧
    ((removeNode c i).nobj j).index =
      (if (idxDel c.nodes (c.nobj i).index).2 = some j then (c.nobj i).index else (c.nobj j).index) ∧
    (j ≠ i → ((removeNode c i).nobj j).alive = (c.nobj j).alive) := by
  rw [removeNode_eq ha]
  have := reindexN_get c.nobj (idxDel c.nodes (c.nobj i).index).2 (c.nobj i).index j
  by_cases hj : j = i
  · subst hj; simp only [upd_get, if_true]; grind
  · simp only [upd_get, hj, if_false]; grind


theorem removeNode_wf (wf : WFc c) (hi : i ∈ c.nodes)
    (hins : ∀ p, pin (c.nobj i).ins p = none) (houts : ∀ p, pin (c.nobj i).outs p = none)
    (hio : i ∉ c.io) : WFc (removeNode c i) := by
  have ha := (wf.nfresh i hi).2
  obtain ⟨hk, hki⟩ := wf.node_at hi
  have spec := idxDel_spec c.nodes (fun j => (c.nobj j).index) wf.nidx (c.nobj i).index hk
  rw [hki] at spec
  obtain ⟨sp1, sp2, sp3⟩ := spec
  have hn := removeNode_nobj ha
  have hnodes : (removeNode c i).nodes = (idxDel c.nodes (c.nobj i).index).1 := by rw [removeNode_eq ha]
  have hlobj : (removeNode c i).lobj = c.lobj := by rw [removeNode_eq ha]
  have hlines : (removeNode c i).lines = c.lines := by rw [removeNode_eq ha]
  have hmem : ∀ j, j ∈ (removeNode c i).nodes ↔ j ∈ c.nodes ∧ j ≠ i := by rw [hnodes]; exact sp2
  have hcells : (removeNode c i).cells = if (c.nobj i).kind = FORK then c.cells else eraseKey c.cells (c.nobj i).name := by
    rw [removeNode_eq ha]; simp
  have hforks : (removeNode c i).forks = if (c.nobj i).kind = FORK then eraseKey c.forks (c.nobj i).name else c.forks := by
    rw [removeNode_eq ha]; simp
  refine ⟨⟨?_, ?_, ?_, ?_, ?_, ?_, ?_, ?_, ?_, ?_, ?_, ?_, ?_, ?_, ?_⟩, ?_⟩
  · -- nidx
    intro p hp
    have := sp1 p (by rw [← hnodes]; exact hp)
    rw [(hn _).2.2.2.2.1]
    simp only [hnodes]
    exact this
  · rw [hlobj, hlines]; exact wf.lidx
  · intro j hj
    obtain ⟨hj1, hj2⟩ := (hmem j).1 hj
    have := wf.nfresh j hj1
    rw [(hn j).2.2.2.2.2 hj2]
    rw [removeNode_eq ha]; exact this
  · rw [hlobj, hlines]; rw [removeNode_eq ha]; exact wf.lfresh
  · rw [hcells]; split
    · exact wf.ckeys
    · exact keysNodup_eraseKey _ wf.ckeys
  · rw [hforks]; split
    · exact keysNodup_eraseKey _ wf.fkeys
    · exact wf.fkeys
  · -- cellsSound
    intro e he
    have he' : e ∈ c.cells ∧ ((c.nobj i).kind = FORK ∨ e.1 ≠ (c.nobj i).name) := by
      rw [hcells] at he; split at he
      · exact ⟨he, Or.inl ‹_›⟩
      · exact ⟨(mem_eraseKey.1 he).1, Or.inr (mem_eraseKey.1 he).2⟩
    obtain ⟨h1, h2, h3⟩ := wf.cellsSound e he'.1
    rw [(hn _).1, (hn _).2.1, hmem]
    refine ⟨⟨h1, ?_⟩, h2, h3⟩
    intro heq
    rw [heq] at h2 h3
    rcases he'.2 with h | h
    · exact h2 h
    · exact h h3.symm
  · -- forksSound
    intro e he
    have he' : e ∈ c.forks ∧ ((c.nobj i).kind ≠ FORK ∨ e.1 ≠ (c.nobj i).name) := by
      rw [hforks] at he; split at he
      · exact ⟨(mem_eraseKey.1 he).1, Or.inr (mem_eraseKey.1 he).2⟩
      · exact ⟨he, Or.inl ‹_›⟩
    obtain ⟨h1, h2, h3⟩ := wf.forksSound e he'.1
    rw [(hn _).1, (hn _).2.1, hmem]
    refine ⟨⟨h1, ?_⟩, h2, h3⟩
    intro heq
    rw [heq] at h2 h3
    rcases he'.2 with h | h
    · exact h h2
    · exact h h3.symm
  · -- cellsComplete
    intro j hj hk'
    obtain ⟨hj1, hj2⟩ := (hmem j).1 hj
    rw [(hn j).2.1] at hk'
    rw [(hn j).1, hcells]
    have hjc := wf.cellsComplete j hj1 hk'
    split
    · exact hjc
    · rename_i hik
      refine mem_eraseKey.2 ⟨hjc, ?_⟩
      intro heq
      simp only at heq
      have hic := wf.cellsComplete i hi hik
      rw [← heq] at hic
      exact hj2 (keys_unique wf.ckeys hjc hic)
  · -- forksComplete
    intro j hj hk'
    obtain ⟨hj1, hj2⟩ := (hmem j).1 hj
    rw [(hn j).2.1] at hk'
    rw [(hn j).1, hforks]
    have hjc := wf.forksComplete j hj1 hk'
    split
    · rename_i hik
      refine mem_eraseKey.2 ⟨hjc, ?_⟩
      intro heq
      simp only at heq
      have hic := wf.forksComplete i hi hik
      rw [← heq] at hic
      exact hj2 (keys_unique wf.fkeys hjc hic)
    · exact hjc
  · -- ldrv
    intro l hl
    rw [hlines] at hl
    obtain ⟨d, h1, h2, h3⟩ := wf.ldrv l hl
    refine ⟨d, by rw [hlobj]; exact h1, (hmem d).2 ⟨h2, ?_⟩, by rw [hlobj, (hn d).2.2.2.1]; exact h3⟩
    intro heq; rw [heq, houts] at h3; cases h3
  · -- lrdr
    intro l hl
    rw [hlines] at hl
    obtain ⟨d, h1, h2, h3⟩ := wf.lrdr l hl
    refine ⟨d, by rw [hlobj]; exact h1, (hmem d).2 ⟨h2, ?_⟩, by rw [hlobj, (hn d).2.2.1]; exact h3⟩
    intro heq; rw [heq, hins] at h3; cases h3
  · intro j hj p l hp
    obtain ⟨hj1, _⟩ := (hmem j).1 hj
    rw [(hn j).2.2.2.1] at hp
    rw [hlobj, hlines]; exact wf.outsBack j hj1 p l hp
  · intro j hj p l hp
    obtain ⟨hj1, _⟩ := (hmem j).1 hj
    rw [(hn j).2.2.1] at hp
    rw [hlobj, hlines]; exact wf.insBack j hj1 p l hp
  · intro j hj
    have : (removeNode c i).io = c.io := by rw [removeNode_eq ha]
    rw [this] at hj
    exact (hmem j).2 ⟨wf.ioIn j hj, fun h => hio (h ▸ hj)⟩
  · intro j hj hk'
    obtain ⟨hj1, _⟩ := (hmem j).1 hj
    rw [(hn j).2.1] at hk'
    rw [(hn j).2.2.2.1]; exact wf.forkFull j hj1 hk'

end removeNode



section addNode
variable {c : Circ} {name kind : String}

theorem addNode_wf (wf : WFc c) (hfree : nameFree c name kind = true) : WFc (addNode c name kind) := by
  have hne : ∀ j ∈ c.nodes, j ≠ c.nextN := fun j hj => Nat.ne_of_lt (wf.nfresh j hj).1
  have hold : ∀ j ∈ c.nodes, (addNode c name kind).nobj j = c.nobj j := by
    intro j hj; simp [addNode, hne j hj]
  have hnew : (addNode c name kind).nobj c.nextN =
      { name := name, kind := kind, index := c.nodes.length, ins := [], outs := [], alive := true } := by
    simp [addNode]
  have hnodes : (addNode c name kind).nodes = c.nodes ++ [c.nextN] := rfl
  have hmem : ∀ j, j ∈ (addNode c name kind).nodes ↔ j ∈ c.nodes ∨ j = c.nextN := by
    intro j; rw [hnodes]; simp
  have hlobj : (addNode c name kind).lobj = c.lobj := rfl
  have hlines : (addNode c name kind).lines = c.lines := rfl
  have hcells : (addNode c name kind).cells = if kind = FORK then c.cells else c.cells ++ [(name, c.nextN)] := by
    simp [addNode]
  have hforks : (addNode c name kind).forks = if kind = FORK then c.forks ++ [(name, c.nextN)] else c.forks := by
    simp [addNode]
  refine ⟨⟨?_, ?_, ?_, ?_, ?_, ?_, ?_, ?_, ?_, ?_, ?_, ?_, ?_, ?_, ?_⟩, ?_⟩
  · intro p hp
    simp only [hnodes, List.length_append, List.length_singleton] at hp ⊢
    by_cases hpl : p < c.nodes.length
    · rw [List.getElem_append_left hpl, hold _ (List.getElem_mem _)]; exact wf.nidx p hpl
    · have : p = c.nodes.length := by omega
      subst this
      simp [hnew]
  · rw [hlobj, hlines]; exact wf.lidx
  · intro j hj
    rcases (hmem j).1 hj with h | h
    · rw [hold j h]; have := wf.nfresh j h; exact ⟨by simp [addNode]; omega, this.2⟩
    · subst h; rw [hnew]; exact ⟨by simp [addNode], rfl⟩
  · rw [hlobj, hlines]; exact wf.lfresh
  · rw [hcells]; split
    · exact wf.ckeys
    · rename_i hk
      apply keysNodup_append wf.ckeys
      simpa [nameFree, hk] using hfree
  · rw [hforks]; split
    · rename_i hk
      apply keysNodup_append wf.fkeys
      simpa [nameFree, hk] using hfree
    · exact wf.fkeys
  · intro e he
    rw [hcells] at he
    have : e ∈ c.cells ∨ (kind ≠ FORK ∧ e = (name, c.nextN)) := by
      split at he
      · exact Or.inl he
      · rename_i hk; simp at he; rcases he with he | he
        · exact Or.inl he
        · exact Or.inr ⟨hk, he⟩
    rcases this with h | ⟨hk, rfl⟩
    · obtain ⟨h1, h2, h3⟩ := wf.cellsSound e h
      rw [hold _ h1]; exact ⟨(hmem _).2 (Or.inl h1), h2, h3⟩
    · simp only [hnew]; exact ⟨(hmem _).2 (Or.inr rfl), hk, trivial⟩
  · intro e he
    rw [hforks] at he
    have : e ∈ c.forks ∨ (kind = FORK ∧ e = (name, c.nextN)) := by
      split at he
      · rename_i hk; simp at he; rcases he with he | he
        · exact Or.inl he
        · exact Or.inr ⟨hk, he⟩
      · exact Or.inl he
    rcases this with h | ⟨hk, rfl⟩
    · obtain ⟨h1, h2, h3⟩ := wf.forksSound e h
      rw [hold _ h1]; exact ⟨(hmem _).2 (Or.inl h1), h2, h3⟩
    · simp only [hnew]; exact ⟨(hmem _).2 (Or.inr rfl), hk, trivial⟩
  · intro j hj hk
    rcases (hmem j).1 hj with h | h
    · rw [hold j h] at hk ⊢
      have := wf.cellsComplete j h hk
      rw [hcells]; split
      · exact this
      · exact List.mem_append_left _ this
    · subst h; rw [hnew] at hk ⊢
      simp only at hk ⊢
      rw [hcells]; simp [hk]
  · intro j hj hk
    rcases (hmem j).1 hj with h | h
    · rw [hold j h] at hk ⊢
      have := wf.forksComplete j h hk
      rw [hforks]; split
      · exact List.mem_append_left _ this
      · exact this
    · subst h; rw [hnew] at hk ⊢
      simp only at hk ⊢
      rw [hforks]; simp [hk]
  · intro l hl
    obtain ⟨d, h1, h2, h3⟩ := wf.ldrv l hl
    exact ⟨d, h1, (hmem d).2 (Or.inl h2), by rw [hold d h2]; exact h3⟩
  · intro l hl
    obtain ⟨d, h1, h2, h3⟩ := wf.lrdr l hl
    exact ⟨d, h1, (hmem d).2 (Or.inl h2), by rw [hold d h2]; exact h3⟩
  · intro j hj p l hp
    rcases (hmem j).1 hj with h | h
    · rw [hold j h] at hp; exact wf.outsBack j h p l hp
    · subst h; rw [hnew] at hp; simp at hp
  · intro j hj p l hp
    rcases (hmem j).1 hj with h | h
    · rw [hold j h] at hp; exact wf.insBack j h p l hp
    · subst h; rw [hnew] at hp; simp at hp
  · intro j hj
    exact (hmem j).2 (Or.inl (wf.ioIn j hj))
  · intro j hj hk
    rcases (hmem j).1 hj with h | h
    · rw [hold j h] at hk ⊢; exact wf.forkFull j h hk
    · subst h; rw [hnew]; simp

end addNode


theorem growSet_end_full {l : Pins} (h : none ∉ l) (x : Nat) : none ∉ growSet l l.length (some x) := by
  unfold growSet; simp [h]

theorem freeIndex_full {l : Pins} (h : none ∉ l) : freeIndex l = l.length := by
  unfold freeIndex
  rw [List.findIdx_eq_length]
  intro x hx
  cases x with
  | none => exact absurd hx h
  | some _ => rfl

section addLine
variable {c : Circ} {d r : Nat} {dp rp : Option Nat}

/-- the pins chosen by the constructor -/
def dpinOf (c : Circ) (d : Nat) (dp : Option Nat) : Nat := dp.getD (freeIndex (c.nobj d).outs)
def rpinOf (c : Circ) (r : Nat) (rp : Option Nat) : Nat := rp.getD (freeIndex (c.nobj r).ins)

theorem addLine_nobj (c : Circ) (d : Nat) (dp : Option Nat) (r : Nat) (rp : Option Nat) (j : Nat) :
    ((addLine c d dp r rp).nobj j).name = (c.nobj j).name ∧ ((addLine c d dp r rp).nobj j).kind = (c.nobj j).kind ∧
    ((addLine c d dp r rp).nobj j).index = (c.nobj j).index ∧ ((addLine c d dp r rp).nobj j).alive = (c.nobj j).alive ∧
    ((addLine c d dp r rp).nobj j).outs =
      (if j = d then growSet (c.nobj j).outs (dpinOf c d dp) (some c.nextL) else (c.nobj j).outs) ∧
    ((addLine c d dp r rp).nobj j).ins =
      (if j = r then growSet (c.nobj j).ins (rpinOf c r rp) (some c.nextL) else (c.nobj j).ins) := by
  simp only [addLine, dpinOf, rpinOf, upd_get]
  by_cases h1 : j = r <;> by_cases h2 : j = d <;> by_cases h3 : r = d <;> simp_all

theorem addLine_wf0 (wf : WFc0 c) (hd : d ∈ c.nodes) (hr : r ∈ c.nodes)
    (hdp : pin (c.nobj d).outs (dpinOf c d dp) = none) (hrp : pin (c.nobj r).ins (rpinOf c r rp) = none) :
    WFc0 (addLine c d dp r rp) := by
  have hn := addLine_nobj c d dp r rp
  have hne : ∀ x ∈ c.lines, x ≠ c.nextL := fun x hx => Nat.ne_of_lt (wf.lfresh x hx).1
  have hold : ∀ x ∈ c.lines, (addLine c d dp r rp).lobj x = c.lobj x := by
    intro x hx; simp [addLine, hne x hx]
  have hnew : (addLine c d dp r rp).lobj c.nextL =
      { index := c.lines.length, driver := some d, driverPin := dpinOf c d dp, reader := some r,
        readerPin := rpinOf c r rp, alive := true } := by
    simp [addLine, dpinOf, rpinOf]
  have hlines : (addLine c d dp r rp).lines = c.lines ++ [c.nextL] := rfl
  have hnodes : (addLine c d dp r rp).nodes = c.nodes := rfl
  have hmem : ∀ x, x ∈ (addLine c d dp r rp).lines ↔ x ∈ c.lines ∨ x = c.nextL := by
    intro x; rw [hlines]; simp
  have hcells : (addLine c d dp r rp).cells = c.cells := rfl
  have hforks : (addLine c d dp r rp).forks = c.forks := rfl
  refine ⟨?_, ?_, ?_, ?_, ?_, ?_, ?_, ?_, ?_, ?_, ?_, ?_, ?_, ?_, ?_⟩
  · intro p hp; rw [(hn _).2.2.1]; exact wf.nidx p hp
  · intro p hp
    simp only [hlines, List.length_append, List.length_singleton] at hp ⊢
    by_cases hpl : p < c.lines.length
    · rw [List.getElem_append_left hpl, hold _ (List.getElem_mem _)]; exact wf.lidx p hpl
    · have : p = c.lines.length := by omega
      subst this
      simp [hnew]
  · intro j hj; rw [(hn j).2.2.2.1]; exact wf.nfresh j hj
  · intro x hx
    rcases (hmem x).1 hx with h | h
    · rw [hold x h]; have := wf.lfresh x h; exact ⟨by simp [addLine]; omega, this.2⟩
    · subst h; rw [hnew]; exact ⟨by simp [addLine], rfl⟩
  · exact wf.ckeys
  · exact wf.fkeys
  · intro e he; rw [(hn _).1, (hn _).2.1]; exact wf.cellsSound e he
  · intro e he; rw [(hn _).1, (hn _).2.1]; exact wf.forksSound e he
  · intro j hj hk; rw [(hn _).1]; rw [(hn _).2.1] at hk; exact wf.cellsComplete j hj hk
  · intro j hj hk; rw [(hn _).1]; rw [(hn _).2.1] at hk; exact wf.forksComplete j hj hk
  · -- ldrv
    intro x hx
    rcases (hmem x).1 hx with h | h
    · obtain ⟨d0, h1, h2, h3⟩ := wf.ldrv x h
      refine ⟨d0, by rw [hold x h]; exact h1, h2, ?_⟩
      rw [hold x h, (hn d0).2.2.2.2.1]
      split
      · rename_i hd0; subst hd0
        rw [pin_growSet]; split
        · rename_i hp; rw [hp, hdp] at h3; cases h3
        · exact h3
      · exact h3
    · subst h
      refine ⟨d, by rw [hnew], hd, ?_⟩
      rw [hnew, (hn d).2.2.2.2.1]; simp [pin_growSet]
  · -- lrdr
    intro x hx
    rcases (hmem x).1 hx with h | h
    · obtain ⟨r0, h1, h2, h3⟩ := wf.lrdr x h
      refine ⟨r0, by rw [hold x h]; exact h1, h2, ?_⟩
      rw [hold x h, (hn r0).2.2.2.2.2]
      split
      · rename_i hr0; subst hr0
        rw [pin_growSet]; split
        · rename_i hp; rw [hp, hrp] at h3; cases h3
        · exact h3
      · exact h3
    · subst h
      refine ⟨r, by rw [hnew], hr, ?_⟩
      rw [hnew, (hn r).2.2.2.2.2]; simp [pin_growSet]
  · -- outsBack
    intro j hj p x hp
    rw [(hn j).2.2.2.2.1] at hp
    have old : pin (c.nobj j).outs p = some x →
        x ∈ (addLine c d dp r rp).lines ∧ ((addLine c d dp r rp).lobj x).driver = some j ∧
        ((addLine c d dp r rp).lobj x).driverPin = p := by
      intro hp'
      obtain ⟨h1, h2, h3⟩ := wf.outsBack j hj p x hp'
      rw [hold x h1]; exact ⟨(hmem x).2 (Or.inl h1), h2, h3⟩
    split at hp
    · rename_i hjd; subst hjd
      rw [pin_growSet] at hp; split at hp
      · rename_i hpp; subst hpp
        cases hp
        rw [hnew]; exact ⟨(hmem _).2 (Or.inr rfl), rfl, rfl⟩
      · exact old hp
    · exact old hp
  · -- insBack
    intro j hj p x hp
    rw [(hn j).2.2.2.2.2] at hp
    have old : pin (c.nobj j).ins p = some x →
        x ∈ (addLine c d dp r rp).lines ∧ ((addLine c d dp r rp).lobj x).reader = some j ∧
        ((addLine c d dp r rp).lobj x).readerPin = p := by
      intro hp'
      obtain ⟨h1, h2, h3⟩ := wf.insBack j hj p x hp'
      rw [hold x h1]; exact ⟨(hmem x).2 (Or.inl h1), h2, h3⟩
    split at hp
    · rename_i hjd; subst hjd
      rw [pin_growSet] at hp; split at hp
      · rename_i hpp; subst hpp
        cases hp
        rw [hnew]; exact ⟨(hmem _).2 (Or.inr rfl), rfl, rfl⟩
      · exact old hp
    · exact old hp
  · exact wf.ioIn

theorem addLine_wf (wf : WFc c) (hd : d ∈ c.nodes) (hr : r ∈ c.nodes)
    (hdp : pin (c.nobj d).outs (dpinOf c d dp) = none) (hrp : pin (c.nobj r).ins (rpinOf c r rp) = none)
    (hfk : (c.nobj d).kind = FORK → dpinOf c d dp = (c.nobj d).outs.length) :
    WFc (addLine c d dp r rp) := by
  have hn := addLine_nobj c d dp r rp
  refine ⟨addLine_wf0 wf.toWFc0 hd hr hdp hrp, ?_⟩
  · -- forkFull
    intro j hj hk
    rw [(hn j).2.1] at hk
    rw [(hn j).2.2.2.2.1]
    split
    · rename_i hjd; subst hjd
      rw [hfk hk]; exact growSet_end_full (wf.forkFull j hj hk) _
    · exact wf.forkFull j hj hk

end addLine

@[simp] theorem pin_cons_zero (a : Option Nat) (l : Pins) : pin (a :: l) 0 = a := by simp [pin]
@[simp] theorem pin_cons_succ (a : Option Nat) (l : Pins) (p : Nat) : pin (a :: l) (p + 1) = pin l p := by simp [pin]

theorem pin_eraseIdx (l : Pins) (k p : Nat) : pin (l.eraseIdx k) p = if p < k then pin l p else pin l (p + 1) := by
  unfold pin
  simp only [List.getD_eq_getElem?_getD, List.getElem?_eraseIdx]
  split <;> rfl

theorem pin_set_lt {l : Pins} {i : Nat} (h : i < l.length) (v : Option Nat) : growSet l i v = l.set i v := by
  simp [growSet, h]

/-! ## renumbering of fork outputs -/
theorem renumber_fields (h : Heap LineObj) (ps : Pins) (k x : Nat) :
    ((renumber h ps k).get x).index = (h.get x).index ∧ ((renumber h ps k).get x).driver = (h.get x).driver ∧
    ((renumber h ps k).get x).reader = (h.get x).reader ∧ ((renumber h ps k).get x).readerPin = (h.get x).readerPin ∧
    ((renumber h ps k).get x).alive = (h.get x).alive := by
  induction ps generalizing h k with
  | nil => simp [renumber]
  | cons a ps ih =>
    cases a with
    | none => simp only [renumber]; exact ih h (k + 1)
    | some y =>
      simp only [renumber]
      have := ih (upd h y { h.get y with driverPin := k }) (k + 1)
      by_cases hxy : x = y <;> simp_all

theorem renumber_notin (h : Heap LineObj) (ps : Pins) (k x : Nat) (hx : ∀ p, pin ps p ≠ some x) :
    (renumber h ps k).get x = h.get x := by
  induction ps generalizing h k with
  | nil => simp [renumber]
  | cons a ps ih =>
    have hrest : ∀ p, pin ps p ≠ some x := fun p => by simpa using hx (p + 1)
    cases a with
    | none => simp only [renumber]; exact ih h (k + 1) hrest
    | some y =>
      simp only [renumber]
      rw [ih _ (k + 1) hrest]
      have : x ≠ y := fun e => by have := hx 0; simp [e] at this
      simp [this]

theorem renumber_in (h : Heap LineObj) (ps : Pins) (k x p : Nat)
    (hinj : ∀ p q y, pin ps p = some y → pin ps q = some y → p = q) (hp : pin ps p = some x) :
    ((renumber h ps k).get x).driverPin = k + p := by
  induction ps generalizing h k p with
  | nil => simp at hp
  | cons a ps ih =>
    have hinj' : ∀ p q y, pin ps p = some y → pin ps q = some y → p = q := fun p q y h1 h2 => by
      have := hinj (p + 1) (q + 1) y (by simpa using h1) (by simpa using h2); omega
    cases p with
    | zero =>
      simp at hp; subst hp
      simp only [renumber]
      rw [renumber_notin]
      · simp
      · intro q hq
        have := hinj 0 (q + 1) x (by simp) (by simpa using hq); omega
    | succ p =>
      simp at hp
      cases a with
      | none => simp only [renumber]; rw [ih h (k + 1) p hinj' hp]; omega
      | some y => simp only [renumber]; rw [ih _ (k + 1) p hinj' hp]; omega


end KV.CircObj
