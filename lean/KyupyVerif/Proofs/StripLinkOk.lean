import KyupyVerif.Proofs.StripLinkOps
import KyupyVerif.Proofs.WaveStrip
/-! The un-stripped schedule of every well-formed netlist (in every topological order) is a program with fork rows
for the branch ↦ stem list of `SimOps` — certificate `stripOkB` — and the stripped schedule, with operands resolved
through the stems, is `stripOps` of it. -/
namespace KV.Wave
open KV KV.Sig

theorem getD0_mem {l : List Nat} (h : l.length = 4) : l.getD 0 0 ∈ l := by
  match l, h with
  | [a, b, c, d], _ => simp

theorem forkRowB_intro {st : List (Nat × Nat)} {zidx : Nat} {written : List Nat} {op : Op} {s : Nat} {rest : List Op}
    (h : op.code = 0xAAAA ∧ op.ins.drop 1 = [zidx, zidx, zidx] ∧ src st (op.ins.getD 0 0) = s ∧ st.lookup s = none ∧
      (st.lookup (op.ins.getD 0 0) = none ∨ op.ins.getD 0 0 ∈ written) ∧ op.ins.getD 0 0 ≠ op.out ∧
      ∀ p ∈ rest, p.out ≠ s ∧ p.out ≠ op.ins.getD 0 0) : forkRowB st zidx written op s rest = true := by
  simp only [forkRowB, Bool.and_eq_true, Bool.or_eq_true, beq_iff_eq, bne_iff_ne, List.all_eq_true,
    Option.isNone_iff_eq_none, List.contains_iff_mem]
  obtain ⟨h1, h2, h3, h4, h5, h6, h7⟩ := h
  exact ⟨⟨⟨⟨⟨⟨h1, h2⟩, h3⟩, h4⟩, h5⟩, h6⟩, h7⟩

theorem plainRowB_intro {st : List (Nat × Nat)} {written : List Nat} {op : Op}
    (h : ∀ x ∈ op.ins, st.lookup x = none ∨ x ∈ written) : plainRowB st written op = true := by
  simpa only [plainRowB, List.all_eq_true, Bool.or_eq_true, Option.isNone_iff_eq_none, List.contains_iff_mem] using h

theorem stripOkB_cons_intro {st : List (Nat × Nat)} {zidx : Nat} {written : List Nat} {op : Op} {rest : List Op}
    (h1 : op.ins.length = 4) (h2 : op.out ≠ zidx)
    (h3 : ∀ s, st.lookup op.out = some s → forkRowB st zidx written op s rest = true)
    (h4 : st.lookup op.out = none → plainRowB st written op = true)
    (h5 : stripOkB st zidx (op.out :: written) rest = true) : stripOkB st zidx written (op :: rest) = true := by
  simp only [stripOkB, Bool.and_eq_true, beq_iff_eq, bne_iff_ne]
  refine ⟨⟨⟨h1, h2⟩, ?_⟩, h5⟩
  cases hl : st.lookup op.out with
  | none => exact h4 hl
  | some s => exact h3 s hl

/-- `stripOkB` from conditions that speak about the whole program: later rows write neither an operand nor the stem of
    an earlier row; a branch operand is written somewhere in the program (hence, being an operand, before) -/
theorem stripOkB_of_global (st : List (Nat × Nat)) (zidx : Nat) (all : List Op)
    (hpw : all.Pairwise (fun o p => (∀ x ∈ o.ins, p.out ≠ x) ∧ (∀ s, st.lookup o.out = some s → p.out ≠ s)))
    (hloc : ∀ o ∈ all, ∀ x ∈ o.ins, x ≠ o.out)
    (hP : ∀ o ∈ all, o.ins.length = 4 ∧ o.out ≠ zidx ∧
      (∀ s, st.lookup o.out = some s → o.code = 0xAAAA ∧ o.ins.drop 1 = [zidx, zidx, zidx] ∧
        src st (o.ins.getD 0 0) = s ∧ st.lookup s = none) ∧
      (∀ x ∈ o.ins, st.lookup x = none ∨ ∃ q ∈ all, q.out = x)) :
    stripOkB st zidx [] all = true := by
  have key : ∀ (ops pre : List Op), all = pre ++ ops → stripOkB st zidx (pre.map (·.out)).reverse ops = true := by
    intro ops
    induction ops with
    | nil => intro _ _; rfl
    | cons op rest ih =>
      intro pre hsplit
      have hmem : op ∈ all := by rw [hsplit]; simp
      obtain ⟨hlen, hz, hfork, hex⟩ := hP op hmem
      have hpw' : (op :: rest).Pairwise _ := (List.pairwise_append.mp (hsplit ▸ hpw)).2.1
      have hhead := (List.pairwise_cons.mp hpw').1
      -- an operand that is written somewhere is written before
      have hbefore : ∀ x ∈ op.ins, (∃ q ∈ all, q.out = x) → x ∈ (pre.map (·.out)).reverse := by
        intro x hx ⟨q, hq, hqo⟩
        rw [hsplit] at hq
        rcases List.mem_append.mp hq with hq | hq
        · simp only [List.mem_reverse, List.mem_map]; exact ⟨q, hq, hqo⟩
        · rcases List.mem_cons.mp hq with rfl | hq
          · exact absurd hqo.symm (hloc q hmem x hx)
          · exact absurd hqo ((hhead q hq).1 x hx)
      have hwr : ∀ x ∈ op.ins, st.lookup x = none ∨ x ∈ (pre.map (·.out)).reverse := by
        intro x hx
        rcases hex x hx with h | h
        · exact Or.inl h
        · exact Or.inr (hbefore x hx h)
      have h0 := getD0_mem hlen
      apply stripOkB_cons_intro hlen hz
      · intro s hs
        obtain ⟨hc, hd, hsrc, hsn⟩ := hfork s hs
        exact forkRowB_intro ⟨hc, hd, hsrc, hsn, hwr _ h0, hloc op hmem _ h0,
          fun p hp => ⟨(hhead p hp).2 s hs, (hhead p hp).1 _ h0⟩⟩
      · intro _
        exact plainRowB_intro hwr
      · have := ih (pre ++ [op]) (by rw [hsplit]; simp)
        simpa using this
  exact key all [] rfl

end KV.Wave

namespace KV
open KV.Sig KV.Wave

section
variable (tbl : List PrefixRow) {net : Net} {order : List Nat}
  (hwf : net.wfB = true) (ho : orderOKB net order = true) (hf : forksOKB net order = true)
include hwf ho hf

omit hf in
/-- a row that writes a branch is a row of a driven fork, and the stem is the walk from the line the fork reads -/
theorem branch_row_facts {n : Nat} (hn : n ∈ order) {r : OpRow}
    (hr : r ∈ nodeOpsS tbl net net.sNodes net.idx false n) {s : Nat}
    (hs : (stemsOf net true).getD r.out none = some s) :
    drivenFork net n = true ∧ r ∈ forkRows net net.idx n ∧
      ∃ l0, (net.node n).inPin 0 = some l0 ∧ s = stemWalk net net.nodes.size l0 := by
  obtain ⟨_, hlt, _⟩ := orderOK_spec ho
  rcases nodeOps_out tbl net net.sNodes net.idx false n r hr with ht | ⟨pin, hpin⟩
  · rw [stems_none_ge hwf (by rw [ht]; simp [Net.idx])] at hs; cases hs
  · cases hdf : drivenFork net n with
    | false => rw [stems_none_of_out hwf (hlt n hn) hdf hpin] at hs; cases hs
    | true =>
      rw [nodeOps_fork _ _ _ _ _ _ hdf] at hr
      simp only [Bool.false_eq_true, if_false] at hr
      obtain ⟨hfk, l0, hp⟩ := drivenFork_spec hdf
      refine ⟨rfl, hr, l0, hp, ?_⟩
      rw [stems_of_fork hwf (hlt n hn) hfk hp (mem_forkRows hr).1] at hs
      cases hs; rfl

/-- the stem of a driven fork of the order -/
theorem stem_facts {n l0 : Nat} (hn : n ∈ order) (hdf : drivenFork net n = true) (hp : (net.node n).inPin 0 = some l0) :
    order.idxOf (net.line (stemWalk net net.nodes.size l0)).driver < order.idxOf n ∧
    stemWalk net net.nodes.size l0 < net.lines.size ∧
    (stemsOf net true).getD (stemWalk net net.nodes.size l0) none = none ∧
    viaStem (stemsOf net true) l0 = stemWalk net net.nodes.size l0 := by
  obtain ⟨_, hlt, hdrv⟩ := orderOK_spec ho
  have hlen := order_length_le ho
  have hlt0 := hdrv n hn (drivenFork_not_src hdf) 0 l0 (inPin_some hp)
  have hmem0 := mem_of_idxOf_lt hlt0
  have hidx : order.idxOf n ≤ order.length := List.idxOf_le_length
  have hl0 := (wf_in hwf (hlt n hn) (inPin_some hp)).1
  obtain ⟨h1, h2, h3, h4⟩ := stemWalk_spec hwf ho net.nodes.size l0 hmem0 (by omega)
  have hnone : (stemsOf net true).getD (stemWalk net net.nodes.size l0) none = none := by
    cases hs : (stemsOf net true).getD (stemWalk net net.nodes.size l0) none with
    | none => rfl
    | some t =>
      obtain ⟨l', _, hfk, hp', _⟩ := stems_some hwf hs
      have : drivenFork net (net.line (stemWalk net net.nodes.size l0)).driver = true := by simp [drivenFork, hfk, hp']
      rw [h1] at this; cases this
  refine ⟨by omega, h3 hl0, hnone, ?_⟩
  have hsz : net.nodes.size = (net.nodes.size - 1) + 1 := by have := hlt n hn; omega
  cases hg : drivenFork net (net.line l0).driver with
  | true =>
    obtain ⟨hfk, l', hp'⟩ := drivenFork_spec hg
    have hk : ((net.node n).lkind == "__fork__") = true := isFork_lkind (drivenFork_spec hdf).1
    obtain ⟨_, _, _, _, h5, _⟩ := forksOK_spec hf hn hk
    have hout : some l0 ∈ (net.node (net.line l0).driver).outs := by
      have := h5 l0 hp
      rw [List.getD_eq_getElem?_getD] at this
      cases hq : (net.node (net.line l0).driver).outs[(net.line l0).dpin]? with
      | none => rw [hq] at this; cases this
      | some v => rw [hq] at this; simp at this; subst this; exact List.mem_of_getElem? hq
    unfold viaStem
    rw [stems_of_fork hwf (hlt _ hmem0) hfk hp' hout, Option.getD_some]
    have e1 := h4 (net.nodes.size + 1) (by omega)
    rw [stemWalk_succ, hg, if_pos rfl, hp', Option.getD_some] at e1
    exact e1
  | false =>
    have hn0 : (stemsOf net true).getD l0 none = none := by
      cases hs : (stemsOf net true).getD l0 none with
      | none => rfl
      | some t =>
        obtain ⟨l', _, hfk, hp', _⟩ := stems_some hwf hs
        have : drivenFork net (net.line l0).driver = true := by simp [drivenFork, hfk, hp']
        rw [hg] at this; cases this
    unfold viaStem
    rw [hn0, Option.getD_none]
    show l0 = stemWalk net net.nodes.size l0
    rw [hsz, stemWalk_succ, hg]; rfl

omit hf in
/-- a branch that is an operand of a scheduled row is written by a row of the program -/
theorem branch_operand_written {n : Nat} (hn : n ∈ order) {r : OpRow}
    (hr : r ∈ nodeOpsS tbl net net.sNodes net.idx false n) {x : Nat} (hx : x ∈ r.toOp.ins) {t : Nat}
    (hs : (stemsOf net true).getD x none = some t) :
    ∃ q ∈ genOps tbl net order false, q.out = x := by
  obtain ⟨_, hlt, hdrv⟩ := orderOK_spec ho
  obtain ⟨hz, _, hp⟩ := idx_vals net
  rcases nodeOps_ins tbl net net.sNodes net.idx false n r hr x hx with h | ⟨_, p, _, h⟩ | ⟨hns, pin, hpin⟩
  · rw [stems_none_ge hwf (by omega)] at hs; cases hs
  · rw [stems_none_ge hwf (by omega)] at hs; cases hs
  · obtain ⟨l', hfl, hfk, hp', hout, _⟩ := stems_some hwf hs
    have hbefore := hdrv n hn hns pin x hpin
    have hfmem := mem_of_idxOf_lt hbefore
    have hdf : drivenFork net (net.line x).driver = true := by simp [drivenFork, hfk, hp']
    obtain ⟨q, hq, hqo⟩ := forkRows_mem (ix := net.idx) hout
    refine ⟨q, ?_, hqo⟩
    unfold genOps
    simp only [List.mem_flatMap]
    refine ⟨_, hfmem, ?_⟩
    rw [nodeOps_fork _ _ _ _ _ _ hdf]
    exact hq

/-- **the un-stripped schedule of every well-formed netlist carries the certificate `stripOkB`** for the branch ↦ stem
    list of `SimOps` (chained forks included: `stemWalk` ends at the first driver that is not a driven fork) -/
theorem genOps_stripOk :
    stripOkB (stemList net) net.idx.zero [] ((genOps tbl net order false).map OpRow.toOp) = true := by
  obtain ⟨hnd, hlt, hdrv⟩ := orderOK_spec ho
  obtain ⟨hz, htmp, _⟩ := idx_vals net
  have hw := genOps_WOJ tbl net order false hwf ho
  -- rows of nodes `n` ≤ `m` (in the order): a row of `m` does not write the stem of a branch written by a row of `n`
  have hstem : ∀ n ∈ order, ∀ m ∈ order, order.idxOf n ≤ order.idxOf m →
      ∀ a ∈ nodeOpsS tbl net net.sNodes net.idx false n, ∀ b ∈ nodeOpsS tbl net net.sNodes net.idx false m,
      ∀ s, (stemList net).lookup a.toOp.out = some s → b.toOp.out ≠ s := by
    intro n hn m hm hnm a ha b hb s hs
    rw [stemList_lookup] at hs
    obtain ⟨hdf, _, l0, hp, rfl⟩ := branch_row_facts tbl hwf ho hn ha hs
    obtain ⟨h1, h2, _, _⟩ := stem_facts hwf ho hf hn hdf hp
    intro he
    rcases nodeOps_out tbl net net.sNodes net.idx false m b hb with ht | ⟨pin, hpin⟩
    · have : b.out = stemWalk net net.nodes.size l0 := he
      omega
    · have hd := (wf_out hwf (hlt m hm) hpin).2.1
      have : b.out = stemWalk net net.nodes.size l0 := he
      rw [this] at hd
      rw [hd] at h1
      omega
  apply stripOkB_of_global
  · -- pairwise
    apply List.Pairwise.and
    · exact hw.1.imp (fun h => h.2)
    · unfold genOps
      rw [List.pairwise_map, List.pairwise_flatMap]
      constructor
      · intro n hn
        apply List.pairwise_of_forall_mem_list
        intro a ha b hb
        exact hstem n hn n hn (Nat.le_refl _) a ha b hb
      · apply List.Pairwise.imp_of_mem _ (idxOf_pairwise_of_nodup order hnd)
        intro n m hn hm hnm a ha b hb
        exact hstem n hn m hm (Nat.le_of_lt hnm) a ha b hb
  · intro o hom x hx
    exact ((hw.2 o hom) x hx).2
  · intro o hom
    simp only [List.mem_map] at hom
    obtain ⟨r, hr, rfl⟩ := hom
    have hr' := hr
    unfold genOps at hr'
    simp only [List.mem_flatMap] at hr'
    obtain ⟨n, hn, hrn⟩ := hr'
    refine ⟨rfl, ?_, ?_, ?_⟩
    · rcases nodeOps_out tbl net net.sNodes net.idx false n r hrn with ht | ⟨pin, hpin⟩
      · show r.out ≠ _; omega
      · have := (wf_out hwf (hlt n hn) hpin).1
        show r.out ≠ _; omega
    · intro s hs
      rw [stemList_lookup] at hs
      obtain ⟨hdf, hfr, l0, hp, rfl⟩ := branch_row_facts tbl hwf ho hn hrn hs
      obtain ⟨_, _, h3, h4⟩ := stem_facts hwf ho hf hn hdf hp
      obtain ⟨_, hlut, hi0, hi1, hi2, hi3⟩ := mem_forkRows hfr
      obtain ⟨_, p1, p2, p3, _, _⟩ := forksOK_spec hf hn (isFork_lkind (drivenFork_spec hdf).1)
      rw [p1, Option.getD_none] at hi1
      rw [p2, Option.getD_none] at hi2
      rw [p3, Option.getD_none] at hi3
      rw [hp, Option.getD_some] at hi0
      refine ⟨hlut, ?_, ?_, ?_⟩
      · show [r.i1, r.i2, r.i3] = _
        rw [hi1, hi2, hi3]
      · show Wave.src (stemList net) r.i0 = _
        rw [src_stemList, hi0, h4]
      · rw [stemList_lookup]; exact h3
    · intro x hx
      rw [stemList_lookup]
      cases hs : (stemsOf net true).getD x none with
      | none => exact Or.inl rfl
      | some t =>
        right
        obtain ⟨q, hq, hqo⟩ := branch_operand_written tbl hwf ho hn hrn hx hs
        exact ⟨q.toOp, List.mem_map_of_mem hq, hqo⟩

omit hf in
/-- a row of the un-stripped schedule that writes a branch comes from a driven fork of the order: operand 0 is the line
    the fork reads, the output is one of its output lines -/
theorem fork_row_of_branch {op : Op} (hop : op ∈ (genOps tbl net order false).map OpRow.toOp)
    (hb : ((stemList net).lookup op.out).isSome = true) :
    ∃ n ∈ order, drivenFork net n = true ∧ ∃ l0, (net.node n).inPin 0 = some l0 ∧ op.ins.getD 0 0 = l0 ∧
      some op.out ∈ (net.node n).outs := by
  simp only [List.mem_map] at hop
  obtain ⟨r, hr, rfl⟩ := hop
  unfold genOps at hr
  simp only [List.mem_flatMap] at hr
  obtain ⟨n, hn, hrn⟩ := hr
  obtain ⟨s, hs⟩ := Option.isSome_iff_exists.mp hb
  rw [stemList_lookup] at hs
  obtain ⟨hdf, hfr, l0, hp, _⟩ := branch_row_facts tbl hwf ho hn hrn hs
  obtain ⟨hout, _, hi0, _⟩ := mem_forkRows hfr
  rw [hp, Option.getD_some] at hi0
  exact ⟨n, hn, hdf, l0, hp, hi0, hout⟩

/-- **the stripped schedule is `stripOps` of the un-stripped schedule**: value sources of the stripped rows are their
    operands resolved through the stems, delay lines are the operands themselves (the branches) -/
theorem genOps_strip_eq_stripOps :
    (genOps tbl net order true).map (fun r => redirect (stemList net) r.toOp) =
      stripOps (stemList net) ((genOps tbl net order false).map OpRow.toOp) := by
  rw [genOps_strip_filter tbl net order hwf ho hf]
  unfold stripOps
  rw [List.filter_map, List.map_map]
  have : (fun r => !isBranchRow net r) =
      ((fun op : Op => ((stemList net).lookup op.out).isNone) ∘ OpRow.toOp) := by
    funext r
    show (!isBranchRow net r) = (((stemList net).lookup r.out).isNone)
    rw [stemList_lookup]
    unfold isBranchRow
    cases (stemsOf net true).getD r.out none <;> rfl
  rw [this]
  rfl

end
end KV
