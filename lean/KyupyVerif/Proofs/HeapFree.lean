import KyupyVerif.Proofs.HeapAlloc

namespace KV.Heap

theorem noAdj_cons_cons {c d : Chunk} {r : List Chunk} :
    NoAdj (c :: d :: r) ↔ (¬ (c.free = true ∧ d.free = true) ∧ NoAdj (d :: r)) := Iff.rfl

/-- a non-empty list satisfying NoAdj ends in a used chunk; in particular a singleton is used -/
theorem noAdj_single {c : Chunk} : NoAdj [c] ↔ c.free = false := Iff.rfl

/-- replacing the head by a chunk that is not "more free" keeps the invariant -/
theorem noAdj_head_used {c c' : Chunk} {r : List Chunk} (h : NoAdj (c :: r)) (hc : c'.free = false) (hr : r ≠ []) :
    NoAdj (c' :: r) := by
  cases r with
  | nil => exact absurd rfl hr
  | cons d r' => exact ⟨by simp [hc], h.2⟩

/-- when the chunk to free is not the first one, the first chunk of the result has the free flag of the old first chunk -/
theorem freeIn_head_free (loc start : Nat) (d : Chunk) (rest : List Chunk) (e : Chunk) (res : List Chunk)
    (hne : (start == loc) = false) (h : freeIn loc start (d :: rest) = some (e :: res)) : e.free = d.free := by
  unfold freeIn at h
  simp only [hne, Bool.false_eq_true, if_false] at h
  split at h
  · cases hrec : freeIn loc (start + d.size) rest with
    | none => rw [hrec] at h; simp at h
    | some r =>
      rw [hrec] at h
      cases r with
      | nil =>
        simp only at h
        split at h
        · simp at h
        · simp at h; rw [← h.1]
      | cons x xs =>
        simp only at h
        split at h
        · rename_i hm
          simp only [Bool.and_eq_true, decide_eq_true_eq] at hm
          simp at h; rw [← h.1]; simp [hm.1.1]
        · simp at h; rw [← h.1]
  · simp at h

theorem freeIn_noAdj (loc : Nat) : ∀ (start : Nat) (l l' : List Chunk),
    NoAdj l → freeIn loc start l = some l' → NoAdj l' := by
  intro start l
  induction l generalizing start with
  | nil => intro l' _ h; simp [freeIn] at h
  | cons c rest ih =>
    intro l' hinv h
    unfold freeIn at h
    split at h
    · -- this is the chunk to free
      split at h
      · simp at h
      · rename_i hused
        cases rest with
        | nil => simp at h; subst h; trivial
        | cons n rest' =>
          simp only at h
          split at h
          · -- merge with free successor n; n free ⇒ rest' non-empty and its head used
            rename_i hnfree
            simp at h; subst h
            cases rest' with
            | nil => -- n would be a free last chunk: impossible
              have := hinv.2; simp [NoAdj] at this; simp [this] at hnfree
            | cons m rest'' =>
              have h2 := hinv.2
              refine ⟨?_, h2.2⟩
              intro ⟨_, hm⟩; exact h2.1 ⟨hnfree, hm⟩
          · rename_i hnused
            simp at h; subst h
            exact ⟨by intro ⟨_, hn⟩; exact hnused hn, hinv.2⟩
    · split at h
      · -- recurse
        rename_i hne hlt
        cases hrec : freeIn loc (start + c.size) rest with
        | none => rw [hrec] at h; simp at h
        | some res =>
          rw [hrec] at h
          cases rest with
          | nil => simp [freeIn] at hrec
          | cons d rest' =>
            have hres := ih (start + c.size) res hinv.2 hrec
            cases res with
            | nil =>
              simp only at h
              split at h
              · simp at h; subst h; trivial
              · rename_i hcu; simp at h; subst h; show c.free = false; simpa using hcu
            | cons e res' =>
              simp only at h
              split at h
              · -- merge c into e (both free, adjacent)
                rename_i hmerge
                simp at h; subst h
                cases res' with
                | nil => -- e is last and free: contradicts hres
                  simp only [Bool.and_eq_true, decide_eq_true_eq] at hmerge
                  have : e.free = false := hres
                  simp [this] at hmerge
                | cons f res'' =>
                  simp only [Bool.and_eq_true, decide_eq_true_eq] at hmerge
                  refine ⟨?_, hres.2⟩
                  intro ⟨_, hf⟩; exact hres.1 ⟨hmerge.1.2, hf⟩
              · rename_i hnomerge
                simp at h; subst h
                refine ⟨?_, hres⟩
                -- c and e are not both free, unless e is the freed chunk right after c: then merge would have happened
                intro ⟨hcf, hef⟩
                by_cases hadj : (start + c.size == loc) = true
                · simp [hcf, hef, hadj] at hnomerge
                · have hadj' : (start + c.size == loc) = false := by simpa using hadj
                  have := freeIn_head_free loc (start + c.size) d rest' e res' hadj' hrec
                  exact hinv.1 ⟨hcf, this ▸ hef⟩
      · simp at h

end KV.Heap
