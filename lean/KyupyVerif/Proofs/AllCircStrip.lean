import KyupyVerif.Proofs.AllCircMem
/-! The signal-level program of a map record — the op rows with operands resolved through the stems (`MapSound.sigOp`; with
`strip_forks` this is the stripped schedule reading the stems whose memory the branches share) — is well ordered (`WOJ`)
whenever the program facts `ProgOK` hold, hence for the `SimOps` model of EVERY well-formed netlist, topological order and
BOTH `strip_forks` settings (`simops_progOK`). Used to state the callback theorems of C16 for the stripped schedule. -/
namespace KV
open KV.Sig

theorem sigOp_ins_mem {p : MapIn} {o : OpRow} {x : Nat} (h : x ∈ (MapSound.sigOp p o).ins) : x ∈ opSrcs p.stems o := by
  simp only [MapSound.sigOp, OpRow.ins, List.map_cons, List.map_nil] at h
  exact h

theorem findIdx_inj {p : MapIn} (hp : ProgOK p) {i j : Nat} {a b : OpRow} (hi : p.ops[i]? = some a) (hj : p.ops[j]? = some b)
    (ha : a.out ≠ p.ix.tmp) (hab : b.out = a.out) : i = j := by
  have e1 := hp.first i a hi ha
  have e2 := hp.first j b hj (hab ▸ ha)
  rw [hab, e1] at e2
  exact Option.some.inj e2

/-- a row never writes one of its own operands or an operand of an earlier row; operands are never the scratch slot -/
theorem progOK_opnd_facts {p : MapIn} (hp : ProgOK p) {i : Nat} {a : OpRow} (hi : p.ops[i]? = some a) {x : Nat}
    (hx : x ∈ opSrcs p.stems a) :
    x ≠ p.ix.tmp ∧ ∀ (j : Nat) (b : OpRow), i ≤ j → p.ops[j]? = some b → b.out ≠ x := by
  obtain ⟨hz, ht, _, hpp, _, _⟩ := ix_vals p
  rcases hp.opnd i a hi x hx with h | h | ⟨hlt, k', o'', hk', ho'', hout⟩
  · refine ⟨by omega, fun j b _ hj he => ?_⟩
    rcases hp.out_ok b (List.mem_of_getElem? hj) with h' | h' <;> omega
  · have := (ppiSlots_range p h).1
    refine ⟨by omega, fun j b _ hj he => ?_⟩
    rcases hp.out_ok b (List.mem_of_getElem? hj) with h' | h' <;> omega
  · refine ⟨by omega, fun j b hij hj he => ?_⟩
    have hne : o''.out ≠ p.ix.tmp := by omega
    have := findIdx_inj hp ho'' hj hne (he.trans hout.symm)
    omega

theorem sigOps_WOJ (p : MapIn) (hp : ProgOK p) : WOJ (Jt p.net) (p.ops.map (MapSound.sigOp p)) := by
  have hJ : ∀ x, Jt p.net x = false ↔ x ≠ p.ix.tmp := by
    intro x; simp [Jt, MapIn.ix]
  constructor
  · rw [List.pairwise_map, List.pairwise_iff_getElem]
    intro i j hi hj hij
    have hi' : p.ops[i]? = some p.ops[i] := List.getElem?_eq_getElem hi
    have hj' : p.ops[j]? = some p.ops[j] := List.getElem?_eq_getElem hj
    refine ⟨fun hj0 he => ?_, fun x hx => ?_⟩
    · have := findIdx_inj hp hi' hj' ((hJ _).mp hj0) he
      omega
    · exact (progOK_opnd_facts hp hi' (sigOp_ins_mem hx)).2 j _ (Nat.le_of_lt hij) hj'
  · intro o hom x hx
    obtain ⟨r, hr, rfl⟩ := List.mem_map.mp hom
    obtain ⟨i, hi⟩ := List.getElem?_of_mem hr
    have hf := progOK_opnd_facts hp hi (sigOp_ins_mem hx)
    exact ⟨(hJ x).mpr hf.1, fun he => hf.2 i r (Nat.le_refl _) hi he.symm⟩

/-- **every netlist, every order, both `strip_forks` settings**: the schedule of the `SimOps` model with operands resolved
    through the stems is well ordered -/
theorem simops_sig_WOJ (tbl : List PrefixRow) (net : Net) (order : List Nat) (strip : Bool) (hwf : net.wfB = true)
    (ho : orderOKB net order = true) (hf : strip = true → forksOKB net order = true)
    (hr : readsDrivenB tbl net order = true) :
    WOJ (Jt net) ((genOps tbl net order strip).map
      (fun r => (⟨r.lut, r.out, r.ins.map (viaStem (stemsOf net strip))⟩ : Op))) :=
  sigOps_WOJ (simopsMap tbl net order strip (fun _ => 1) 1 false)
    (simops_progOK tbl (simopsMap tbl net order strip (fun _ => 1) 1 false) order hwf ho hf hr rfl rfl)

end KV
