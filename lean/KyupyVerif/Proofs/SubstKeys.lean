import KyupyVerif.Proofs.SubstSome5
/-! C10, audit 2 finding 6, transport lemma (3): every node of the result of `substitute` carries the (kind, name) of a node of the
host, or (kind of the designated cell, name of the instance), or the (kind, name) of an added node (`addedKN`).  Hence the key set of
the result is contained in host keys ∪ {key of the instance} ∪ `addedKeys`. -/
namespace KV.Transform
open KV

theorem mem_kindNames (nn : NNet) (kn : String × String) :
    kn ∈ nn.kindNames ↔ ∃ x, x < nn.net.nodes.size ∧ kn = ((nn.net.node x).kind, nn.names.getD x "") := by
  simp only [NNet.kindNames, List.mem_map, List.mem_range]
  constructor
  · rintro ⟨x, hx, e⟩; exact ⟨x, hx, e.symm⟩
  · rintro ⟨x, hx, e⟩; exact ⟨x, hx, e.symm⟩

theorem substitute_kindNames_mem (h m h' : NNet) (c : Nat) (w : WFm h) (fd : FD h.net) (mw : WF m) (hc : c < h.net.nodes.size)
    (hio : c ∉ h.net.io) (hcf : (h.net.node c).isFork = false) (hok : implGenOKB m = true) (ht : targetsOKB m = true)
    (hns : noSelfIgnB h c m = true) (hfresh : addFreshB h c m = true)
    (har : ∀ sh, implShape m = some sh →
      (h.net.node c).ins.length ≤ sh.inPorts.length ∧ (h.net.node c).outs.length ≤ sh.outLines.length)
    (he : substitute h c m = some h') :
    ∃ sh, implShape m = some sh ∧ ∀ kn ∈ h'.kindNames, kn ∈ h.kindNames ∨
      (∃ dn, sh.des = some dn ∧ kn = ((m.net.node dn).kind, h.names.getD c "")) ∨ kn ∈ addedKN m (h.names.getD c "") sh.des := by
  obtain ⟨sh, hs, k2, k3, k4⟩ := implGenOKB_spec m hok
  have hself := noSelfIgnB_spec h c m sh hs hns
  obtain ⟨hil, hol⟩ := har sh hs
  obtain ⟨h5, map, dang, hcore, hdn, _⟩ := core_some h c m sh hs w fd hc hil hol hfresh ht hself hio
  obtain ⟨wfm5, hmapLt⟩ := core_wfm h m c w mw hc hio hcf sh hs k2 k3 k4 hself h5 map dang hcore
  obtain ⟨dd, wd, _⟩ := densNN_densM (map.toList.filterMap id) h5 wfm5
  have ho : ∀ x ∈ map.toList.filterMap id, x < (densNN h5 (map.toList.filterMap id)).net.nodes.size := by
    intro x hx
    obtain ⟨k, hk⟩ := mem_map_values map x hx
    rw [dd.nsize]
    exact hmapLt k x hk
  have li : LI h := ⟨w.names, w.io⟩
  have hioB : h.net.io.contains c = false := by simpa using hio
  have p1 : LI (phase1 h c m sh.des).1 ∧ MapLt (phase1 h c m sh.des).2 (phase1 h c m sh.des).1.net.nodes.size := by
    cases hd : sh.des with
    | none => have := phase1_none_obs h c m li hc hioB; exact ⟨this.2.2.1, this.2.2.2⟩
    | some dn => have := phase1_some_obs h c m dn li hc; exact ⟨this.2.2.1, this.2.2.2⟩
  have o := (substituteCore_obs h c m sh hs h5 map dang hcore p1.1 p1.2).1
  unfold substitute at he
  rw [hcore] at he
  have he' : removeDangling (dang.length + h5.net.lines.size + 1) (densNN h5 (map.toList.filterMap id)) (map.toList.filterMap id) dang
      = some h' := he
  obtain ⟨_, r, emb, _⟩ := removeDangling_emb _ _ _ _ h' wd ho he'
  refine ⟨sh, hs, ?_⟩
  intro kn hkn
  obtain ⟨x, hx, rfl⟩ := (mem_kindNames h' kn).mp hkn
  have hlt := emb.nodeLt x hx
  rw [dd.nsize] at hlt
  have h5mem : ((h'.net.node x).kind, h'.names.getD x "") ∈ h5.kindNames := by
    rw [mem_kindNames]
    refine ⟨r.node x, hlt, ?_⟩
    rw [emb.kind x hx, emb.name x hx, dd.kind, dd.names]
  rw [o, List.mem_append] at h5mem
  rcases h5mem with h1 | h1
  · cases hd : sh.des with
    | none =>
      rw [hd] at h1
      have := (phase1_none_obs h c m li hc hioB).1
      exact Or.inl (List.mem_of_mem_eraseIdx (this.mem_iff.mp h1))
    | some dn =>
      rw [hd] at h1
      rw [(phase1_some_obs h c m dn li hc).1] at h1
      rcases List.mem_or_eq_of_mem_set h1 with h2 | h2
      · exact Or.inl h2
      · exact Or.inr (Or.inl ⟨dn, rfl, h2⟩)
  · exact Or.inr (Or.inr h1)

end KV.Transform
