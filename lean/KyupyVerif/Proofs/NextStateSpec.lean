import KyupyVerif.Proofs.NetSpec
import KyupyVerif.Proofs.CycleNet
import KyupyVerif.Proofs.AllCirc
/-! C01, audit item: the independent next-state specification `KV.nextStateFrom` (Model/Net.lean) IS the next-state function
`Cycle.nextState` of the simulator model (`s_to_c; c_prop; c_to_s; s_ppo_to_ppi`). -/
namespace KV
open KV.Cycle KV.Sig

/-- 2-valued `c_prop` on a generated program = the specification LUT semantics, signal by signal -/
theorem exec2_eq_spec (ops : List Op) (hk : KnownProg ops) (env : Nat → Bool) (l : Nat) :
    exec semL2n ops env l = exec specL2 ops env l := by
  apply exec_rel_on (fun a b => a = b) semL2n specL2 ops _ env env (fun _ => rfl)
  intro op hop xs ys hxy
  have : xs = ys := by
    clear hop
    induction hxy with
    | nil => rfl
    | cons h _ ih => rw [h, ih]
  rw [this]
  exact semL2n_eq_spec (hk op hop) ys

/-- the rows never write the constant slot -/
theorem genOps_zero_untouched (net : Net) (order : List Nat) (hwf : net.wfB = true) (ho : orderOKB net order = true) :
    ∀ op ∈ (genOps Gen.kindPrefixes net order false).map OpRow.toOp, op.out ≠ net.idx.zero := by
  intro op hop
  obtain ⟨hz, ht, _⟩ := idx_vals net
  rcases genOps_out_line Gen.kindPrefixes net order false hwf ho op hop with h | h <;> omega

/-- **`nextState_is_spec`**: for every well-formed netlist, topological order that schedules every line, memory `env`, assignment
`a` (= `s[0]`): let `e0` be the memory after `s_to_c` and `v` ANY labelling of the lines that the specification's acceptance check
`consistentB` accepts for the assignment `e0` holds in the (P)PI slots (over the documented formulas `prim2`, constant `z` = the
constant slot).  Then the next assignment the simulator model computes (2-valued `c_prop`, `c_to_s`, `s_ppo_to_ppi` with copy) is
the independent specification `nextStateFrom`: ports keep their value, a state element takes `v` of its data line, a state element
with OPEN data pin takes the constant. -/
theorem nextState_is_spec_main (net : Net) (order : List Nat) (hwf : net.wfB = true) (ho : orderOKB net order = true)
    (hfk : forksOKB net order = true) (hall : linesDrivenB Gen.kindPrefixes net order = true)
    (d : Bool) (env : Nat → Bool) (a : List Bool) (v : Array Bool)
    (hc : consistentB net (sToC (tabsOf net false) d a env net.idx.zero) (!·) prim2
            (fun p => sToC (tabsOf net false) d a env (net.idx.ppi + p)) v = true) :
    Cycle.nextState (fun op => semL2n op.code) (sigOps Gen.kindPrefixes net order false) net false mergeCopy d env a =
      nextStateFrom net (sToC (tabsOf net false) d a env net.idx.zero) v a := by
  unfold Cycle.nextState nextRow nextStateFrom
  apply List.ext_getElem?
  intro p
  rw [List.getElem?_mapIdx, List.getElem?_mapIdx]
  cases a[p]? with
  | none => rfl
  | some x =>
    simp only [Option.map_some, Option.some.injEq]
    by_cases hp : net.io.length ≤ p
    · simp only [hp, if_true, mergeCopy]
      rw [capSig_false]
      unfold sNodeAt solOf
      rw [sigOps_false, ← exec_eq_execG]
      cases hl : (net.node (net.sNodes.getD p 0)).inPin 0 with
      | none =>
        simp only
        rw [exec_eq_execG]
        exact execG_inputs _ _ _ _ (genOps_zero_untouched net order hwf ho)
      | some l =>
        simp only
        have hlt : l < net.lines.size := sNode_pin_lt net hwf p l (by unfold sNodeAt; exact hl)
        rw [exec2_eq_spec _ (genOps_known net order false)]
        exact (consistentB_unique net order hwf ho hfk hall specL2 (!·) prim2 semSpec2 _ v hc l hlt).symm
    · rw [if_neg hp, if_neg hp]

end KV

namespace KV
/-- the executable next-state function of the driver (`eval2`) is `nextStateFrom` of the labelling the evaluator `evalAll` returns
(which the driver submits to the acceptance check `consistentB` on every request) -/
theorem nextState_eq_from_main (net : Net) (a : Nat → Bool) (j : Nat) (hj : j < net.sNodes.length) :
    nextState net a j =
      (nextStateFrom net false (evalAll net false (!·) prim2 a) ((List.range net.sNodes.length).map a)).getD j false := by
  unfold nextState nextStateFrom evalCaptures evalCapturesG
  have hg : net.sNodes.getD j 0 = net.sNodes[j] := by simp [List.getD, List.getElem?_eq_getElem hj]
  simp only [List.getD_eq_getElem?_getD, List.getElem?_mapIdx, List.getElem?_map, List.getElem?_range hj, Option.map_some,
    Option.getD_some, Array.getD_eq_getD_getElem?, List.getElem?_toArray, List.getElem?_eq_getElem hj]
  by_cases hp : net.io.length ≤ j
  · simp only [hp, if_true]
    simp only [List.getD_eq_getElem?_getD, List.getElem?_eq_getElem hj, Option.getD_some] at hg ⊢
    cases (net.node net.sNodes[j]).inPin 0 <;> rfl
  · simp only [hp, if_false]
end KV
