import KyupyVerif.Model.DataPath
import KyupyVerif.Proofs.Encode
import KyupyVerif.Proofs.CycleNet
/-! Bridge between the byte layout of `mv_to_bp` / `bp_to_mv` (Model/Encode.lean) and the `BitVec` lanes of the bit-parallel
simulation theorems: lanes of `ofBytes`, `toBytes` round trip, lanes of the planes `mv_to_bp` produces, codes `bp_to_mv`
reads from three planes; closed forms of the byte-level `s_to_c` / `c_to_s` (Model/DataPath.lean). -/
namespace KV.DP
open KV KV.Sig KV.Cycle KV.Enc

/-! ### bytes ↔ bit vectors -/

theorem testBit_ofBitsLE (l : List Bool) (i : Nat) : (ofBitsLE l).testBit i = l.getD i false := by
  induction l generalizing i with
  | nil => simp [ofBitsLE]
  | cons b l ih =>
    cases i with
    | zero =>
      simp only [ofBitsLE, List.getD_cons_zero, Nat.testBit_zero]
      cases b <;> simp <;> omega
    | succ i =>
      simp only [ofBitsLE, List.getD_cons_succ, Nat.testBit_succ, ← ih]
      congr 1
      cases b <;> simp <;> omega

/-- **lane `p` of a plane of bytes** is bit `p % 8` of byte `p / 8` -/
theorem getLsbD_ofBytes (nb : Nat) (bytes : List Nat) (p : Nat) :
    (ofBytes nb bytes).getLsbD p = (decide (p < 8 * nb) && (unpackBytes bytes).getD p false) := by
  simp only [ofBytes, BitVec.getLsbD_ofNat, testBit_ofBitsLE]

theorem getLsbD_ofBytes_byte (nb : Nat) (bytes : List Nat) (p : Nat) :
    (ofBytes nb bytes).getLsbD p = (decide (p < 8 * nb) && (bytes.getD (p / 8) 0 / 2 ^ (p % 8) % 2 == 1)) := by
  rw [getLsbD_ofBytes, getD_unpackBytes]

theorem getD_range_map {β} (n i : Nat) (f : Nat → β) (d : β) (h : i < n) : ((List.range n).map f).getD i d = f i := by
  simp [List.getD_eq_getElem?_getD, List.getElem?_map, List.getElem?_range h]

/-- the bytes of a bit vector unpack to its lanes -/
theorem unpack_toBytes (nb : Nat) (v : BitVec (8 * nb)) (p : Nat) :
    (unpackBytes (toBytes nb v)).getD p false = v.getLsbD p := by
  rw [toBytes, getD_unpack_pack]
  by_cases hp : p < 8 * nb
  · rw [getD_range_map _ _ _ _ hp]; simp [hp]
  · have : v.getLsbD p = false := BitVec.getLsbD_of_ge v p (Nat.not_lt.mp hp)
    simp [hp, this]

@[simp] theorem toBytes_length (nb : Nat) (v : BitVec (8 * nb)) : (toBytes nb v).length = nb := by simp [toBytes]

/-- `ofBytes ∘ toBytes = id` -/
@[simp] theorem ofBytes_toBytes (nb : Nat) (v : BitVec (8 * nb)) : ofBytes nb (toBytes nb v) = v := by
  apply BitVec.eq_of_getLsbD_eq
  intro i hi
  rw [getLsbD_ofBytes, unpack_toBytes]
  simp [hi]

@[simp] theorem ofBytes_nil (nb : Nat) : ofBytes nb [] = 0 := by
  apply BitVec.eq_of_getLsbD_eq
  intro i _
  rw [getLsbD_ofBytes]
  simp [unpackBytes]

/-! ### (1) the planes of `mv_to_bp`, read as bit vectors -/

/-- **bridge, `mv_to_bp`**: plane `b` of the row `mv_to_bp` makes of `P = row.length` values, read as a bit vector of
    `8 * cdiv P 8` lanes, has in lane `p < P` bit `b` of pattern `p`, and 0 in every padding lane -/
theorem plane_mvToBpRow (row : List Nat) (b p : Nat) (hb : b < 3) :
    (plane (cdiv row.length 8) (mvToBpRow (cdiv row.length 8) row) b).getLsbD p
      = (decide (p < row.length) && (row.getD p 0 / 2 ^ b % 2 == 1)) := by
  rw [plane, getLsbD_ofBytes, mvToBpRow_getD _ _ _ hb, getD_unpack_pack, colBit _ _ _ hb]
  have := cdiv8_ge row.length
  by_cases hp : p < row.length
  · have : p < 8 * cdiv row.length 8 := by omega
    simp [hp, this]
  · simp [hp]

/-! ### (1') `bp_to_mv` of three planes, lane by lane -/

theorem getD_bpToMvRow (nb : Nat) (planes : SRow) (p : Nat) (hp : p < 8 * nb) :
    (bpToMvRow nb planes).getD p 0 = ofBitsLE (((planes.map unpackBytes).map (·.getD p false)).take 8) := by
  simp only [bpToMvRow]
  rw [getD_range_map _ _ _ _ hp]

def b2n (b : Bool) : Nat := if b then 1 else 0

/-- **bridge, `bp_to_mv`**: pattern `p` of `bp_to_mv` of a row of three planes is `lane p of plane 0 + 2 * lane p of plane 1 +
    4 * lane p of plane 2` -/
theorem bpToMvRow_lanes (nb : Nat) (x0 x1 x2 : List Nat) (p : Nat) (hp : p < 8 * nb) :
    (bpToMvRow nb [x0, x1, x2]).getD p 0 =
      b2n ((ofBytes nb x0).getLsbD p) + 2 * b2n ((ofBytes nb x1).getLsbD p) + 4 * b2n ((ofBytes nb x2).getLsbD p) := by
  rw [getD_bpToMvRow _ _ _ hp]
  simp only [getLsbD_ofBytes, hp, decide_true, Bool.true_and, List.map_cons, List.map_nil, List.take_succ_cons, List.take_nil,
    ofBitsLE, b2n]
  cases (unpackBytes x0).getD p false <;> cases (unpackBytes x1).getD p false <;> cases (unpackBytes x2).getD p false <;> rfl

theorem bpToMvRow_length (nb : Nat) (planes : SRow) : (bpToMvRow nb planes).length = 8 * nb := by simp [bpToMvRow]

/-! ### codecs -/

/-- what a codec must satisfy for the byte-level steps to be the value-level steps of Model/Cycle.lean seen through `dec` -/
structure Codec.Lawful {α} (C : Codec α) (merge : α → α → α) : Prop where
  dec_enc : ∀ v r, C.dec (C.enc v r) = v
  dec_merge : ∀ a b, C.dec (C.merge a b) = merge (C.dec a) (C.dec b)

theorem getD_map_dec {α} (f : SRow → α) (s : List SRow) (i : Nat) : (s.map f).getD i (f []) = f (s.getD i []) := by
  simp only [List.getD_eq_getElem?_getD, List.getElem?_map]
  cases s[i]? <;> rfl

theorem codec2_lawful (nb : Nat) : (codec2 nb).Lawful mergeCopy :=
  ⟨fun v r => by simp [codec2, plane], fun _ _ => rfl⟩

theorem codec4_lawful (nb : Nat) : (codec4 nb).Lawful mergeCopy :=
  ⟨fun v r => by simp [codec4, plane], fun _ _ => rfl⟩

/-! ### the byte-level steps through `dec` -/

/-- `s_to_c` at byte level = `s_to_c` of Model/Cycle.lean on the decoded rows -/
theorem sToCB_eq {α} (C : Codec α) (T : Tabs) (s0 : List SRow) (env : Nat → α) :
    sToCB C T s0 env = sToC T (C.dec []) (s0.map C.dec) env := by
  unfold sToCB sToC
  congr 1
  funext e px
  rw [getD_map_dec]

theorem cToSB_length {α} (C : Codec α) (T : Tabs) (env : Nat → α) (s1 : List SRow) : (cToSB C T env s1).length = s1.length :=
  foldl_set_length _ _ _ _

/-- `c_to_s` at byte level in closed form: a captured position holds `enc (value of the captured signal) (old row)` -/
theorem cToSB_eq {α} (C : Codec α) (net : Net) (strip : Bool) (env : Nat → α) (s1 : List SRow) :
    cToSB C (tabsOf net strip) env s1 =
      s1.mapIdx fun q r => if isPoppo net q then C.enc (env (capSig net strip q)) r else r := by
  apply List.ext_getElem?
  intro i
  unfold cToSB
  rw [foldl_set_getElem? _ (fun px : Nat × Nat => px.1) (fun px => C.enc (env px.2) (s1.getD px.1 [])) i
    (C.enc (env (capSig net strip i)) (s1.getD i []))
    (fun px hpx hi => by rw [poppo_sig net strip px hpx, hi])]
  rw [poppo_pos, List.getElem?_mapIdx]
  by_cases hp : isPoppo net i = true
  · rw [if_pos (List.mem_append.2 ((isPoppo_iff net i).1 hp))]
    cases h : s1[i]? with
    | none => rfl
    | some r => simp [hp, List.getD_eq_getElem?_getD, h]
  · rw [if_neg (fun hm => hp ((isPoppo_iff net i).2 (List.mem_append.1 hm)))]
    cases h : s1[i]? <;> simp [hp]

/-- decoding commutes with `c_to_s` -/
theorem cToSB_dec {α} (C : Codec α) (merge : α → α → α) (hC : C.Lawful merge) (T : Tabs) (env : Nat → α) (s1 : List SRow) :
    (cToSB C T env s1).map C.dec = cToS T env (s1.map C.dec) := by
  unfold cToSB cToS
  generalize T.poppo = l
  have key : ∀ (x : List SRow), (l.foldl (fun s px => s.set px.1 (C.enc (env px.2) (s1.getD px.1 []))) x).map C.dec =
      l.foldl (fun s px => s.set px.1 (env px.2)) (x.map C.dec) := by
    induction l with
    | nil => intro x; rfl
    | cons px r ih =>
      intro x
      simp only [List.foldl_cons]
      rw [ih, List.map_set, hC.dec_enc]
  exact key s1

/-- decoding commutes with `s_ppo_to_ppi` -/
theorem ppoToPpiB_dec {α} (C : Codec α) (merge : α → α → α) (hC : C.Lawful merge) (T : Tabs) (s0 s1 : List SRow) :
    (ppoToPpiB C T s0 s1).map C.dec = ppoToPpi T merge (C.dec []) (s0.map C.dec) (s1.map C.dec) := by
  unfold ppoToPpiB ppoToPpi
  generalize T.ppio = l
  have key : ∀ (x : List SRow), (l.foldl (fun s p => s.set p (C.merge (s0.getD p []) (s1.getD p []))) x).map C.dec =
      l.foldl (fun s p => s.set p (merge ((s0.map C.dec).getD p (C.dec [])) ((s1.map C.dec).getD p (C.dec [])))) (x.map C.dec) := by
    induction l with
    | nil => intro x; rfl
    | cons p r ih =>
      intro x
      simp only [List.foldl_cons]
      rw [ih, List.map_set, hC.dec_merge, getD_map_dec, getD_map_dec]
  exact key s0

/-- the value-level state a byte-level state denotes -/
def decSt {α} (C : Codec α) (st : StB α) : St α := ⟨st.env, ⟨st.s0.map C.dec, st.s1.map C.dec⟩⟩

/-- **one cycle at byte level is one cycle of Model/Cycle.lean on the decoded state** -/
theorem cycle1B_dec {α} (C : Codec α) (merge : α → α → α) (hC : C.Lawful merge) (sem : Op → List α → α) (ops : List Op)
    (T : Tabs) (st : StB α) :
    decSt C (cycle1B C sem ops T st) = cycle1 sem ops T merge (C.dec []) (decSt C st) := by
  simp only [decSt, cycle1B, cycle1, cToSB_dec C merge hC, ppoToPpiB_dec C merge hC, sToCB_eq]

theorem cycleKB_dec {α} (C : Codec α) (merge : α → α → α) (hC : C.Lawful merge) (sem : Op → List α → α) (ops : List Op)
    (T : Tabs) (k : Nat) (st : StB α) :
    decSt C (cycleKB C sem ops T k st) = cycleK sem ops T merge (C.dec []) k (decSt C st) := by
  induction k generalizing st with
  | zero => rfl
  | succ k ih => simp only [cycleKB, cycleK, ih, cycle1B_dec C merge hC]

/-! ### the array form the driver runs -/

def toStB {α} (C : Codec α) (st : StBA α) : StB α := ⟨envOf (C.dec []) st.env, st.s0, st.s1⟩

theorem sToCBA_size {α} (C : Codec α) (T : Tabs) (s0 : List SRow) (env : Array α) : (sToCBA C T s0 env).size = env.size := by
  unfold sToCBA
  generalize T.pippi = l
  induction l generalizing env with
  | nil => rfl
  | cons px r ih => simp only [List.foldl_cons]; rw [ih]; simp

theorem sToCBA_eq {α} (C : Codec α) (T : Tabs) (s0 : List SRow) (env : Array α) (hp : ∀ px ∈ T.pippi, px.2 < env.size) :
    envOf (C.dec []) (sToCBA C T s0 env) = sToCB C T s0 (envOf (C.dec []) env) := by
  unfold sToCBA sToCB
  generalize T.pippi = l at hp
  induction l generalizing env with
  | nil => rfl
  | cons px r ih =>
    simp only [List.foldl_cons]
    rw [ih _ (fun q hq => by simp; exact hp q (List.mem_cons_of_mem _ hq)),
      envOf_set _ env px.2 _ (hp px List.mem_cons_self)]

theorem cycle1BA_eq {α} (C : Codec α) (sem : Op → List α → α) (ops : List Op) (T : Tabs) (st : StBA α)
    (hb : ∀ op ∈ ops, op.out < st.env.size) (hp : ∀ px ∈ T.pippi, px.2 < st.env.size) :
    toStB C (cycle1BA C sem ops T st) = cycle1B C sem ops T (toStB C st) ∧
    (cycle1BA C sem ops T st).env.size = st.env.size := by
  have he : envOf (C.dec []) (execArrG (C.dec []) sem ops (sToCBA C T st.s0 st.env)) =
      execG sem ops (sToCB C T st.s0 (envOf (C.dec []) st.env)) := by
    funext l
    show (execArrG _ sem ops _).getD l _ = _
    rw [execArrG_eq _ sem ops _ (fun op ho => by rw [sToCBA_size]; exact hb op ho) l]
    have := sToCBA_eq C T st.s0 st.env hp
    unfold envOf at this
    rw [this]; rfl
  constructor
  · have hc : ∀ (arr : Array α) (s1 : List SRow), cToSBA C T arr s1 = cToSB C T (envOf (C.dec []) arr) s1 := fun _ _ => rfl
    unfold toStB cycle1BA cycle1B
    simp only [hc, he]
  · show (execArrG _ sem ops _).size = _
    rw [execArrG_size, sToCBA_size]

/-- **the driver's array form = the model** -/
theorem cycleKBA_eq {α} (C : Codec α) (sem : Op → List α → α) (ops : List Op) (T : Tabs) (n : Nat)
    (hb : ∀ op ∈ ops, op.out < n) (hp : ∀ px ∈ T.pippi, px.2 < n) :
    ∀ (k : Nat) (st : StBA α), st.env.size = n →
      toStB C (cycleKBA C sem ops T k st) = cycleKB C sem ops T k (toStB C st) := by
  intro k
  induction k with
  | zero => intro st _; rfl
  | succ k ih =>
    intro st hn
    obtain ⟨h1, h2⟩ := cycle1BA_eq C sem ops T st (fun op ho => hn ▸ hb op ho) (fun px hpx => hn ▸ hp px hpx)
    show toStB C (cycleKBA C sem ops T k (cycle1BA C sem ops T st)) = _
    rw [ih _ (h2.trans hn), h1]
    rfl

/-! ### lanes: what one lane of the byte-level run is

`LaneView` collects what the proofs need to know about an arity: `ln p` reads lane `p` of a memory value (`β` = the one-lane
value domain: `Bool`, `V2`, `V3`), `ofCode` is the value a pattern entry denotes, `code` the multi-valued code `bp_to_mv` shows
for a captured value, `keep` the weight with which the OLD plane 2 of the `s[1]` row shows through (4 for m = 2, 4, where
`c_to_s` does not write that plane; 0 for m = 8). -/

structure LaneView {α β : Type} (C : Codec α) (nb : Nat) (ln : Nat → α → β) (ofCode : Nat → β) (code : β → Nat) (keep : Nat) :
    Prop where
  dec_row : ∀ (row : List Nat) p, cdiv row.length 8 = nb → ln p (C.dec (mvToBpRow nb row)) = ofCode (if p < row.length then row.getD p 0 else 0)
  dec_nil : ∀ p, ln p (C.dec []) = ofCode 0
  enc_code : ∀ v r p, p < 8 * nb →
    (bpToMvRow nb (C.enc v r)).getD p 0 = code (ln p v) + keep * b2n ((plane nb r 2).getLsbD p)
  enc_len : ∀ v r, (C.enc v r).length = 3

theorem upd_map {α β} (f : α → β) (env : Nat → α) (k : Nat) (v : α) :
    (fun x => f (upd env k v x)) = upd (fun x => f (env x)) k (f v) := by
  funext x; unfold upd; split <;> rfl

theorem getD_map' {α β} (f : α → β) (a : List α) (i : Nat) (d : α) : (a.map f).getD i (f d) = f (a.getD i d) := by
  simp only [List.getD_eq_getElem?_getD, List.getElem?_map]
  cases a[i]? <;> rfl

/-- `s_to_c` commutes with every map of the value domain (reading a lane, in particular) -/
theorem sToC_map {α β} (f : α → β) (T : Tabs) (d : α) (a : List α) (env : Nat → α) :
    (fun x => f (sToC T d a env x)) = sToC T (f d) (a.map f) (fun x => f (env x)) := by
  unfold sToC
  generalize T.pippi = l
  induction l generalizing env with
  | nil => rfl
  | cons px r ih =>
    simp only [List.foldl_cons]
    rw [ih, upd_map, getD_map']

theorem getD_mapIdx_lt {γ δ} (f : Nat → γ → δ) (l : List γ) (i : Nat) (d : δ) (dg : γ) (h : i < l.length) :
    (l.mapIdx f).getD i d = f i (l.getD i dg) := by
  simp [List.getD_eq_getElem?_getD, List.getElem?_mapIdx, List.getElem?_eq_getElem h]

section lanes
variable {α β : Type} (C : Codec α) (nb : Nat) (ln : Nat → α → β) (ofCode : Nat → β) (code : β → Nat) (keep : Nat)
  (semW : Nat → List α → α) (semL : Nat → List β → β)

/-- **(T-A) one lane of the byte-level run, any state, any lane (padding lanes included)**: after `s_to_c; c_prop; c_to_s` on
    the byte-level `s` (any `s[0]`, any `s[1]` left by earlier runs, any memory contents), pattern `p` of `bp_to_mv` of a
    captured row is the code of the ONE-LANE simulation of lane `p` of `s[0]` (lanes of the memory for the constant slot), plus
    what `c_to_s` does not overwrite.  Hypothesis `hl`: the bit-parallel op semantics is lane-wise (C01 `sim2_lanes`, C02
    `sim4_lanes` / `sim8_lanes`). -/
theorem captureB_lane (V : LaneView C nb ln ofCode code keep)
    (hl : ∀ p, p < 8 * nb → ∀ (ops : List Op) (env : Nat → α) (l : Nat),
      ln p (exec semW ops env l) = exec semL ops (fun x => ln p (env x)) l)
    (ops : List Op) (net : Net) (strip : Bool) (env0 : Nat → α) (s0 s1 : List SRow) (q p : Nat)
    (hp : p < 8 * nb) (hq : q < s1.length) (hcap : isPoppo net q = true) :
    (bpToMvRow nb ((captureB C (fun op => semW op.code) ops (tabsOf net strip) env0 s0 s1).getD q [])).getD p 0 =
      code (exec semL ops (sToC (tabsOf net strip) (ofCode 0) (s0.map fun r => ln p (C.dec r)) (fun x => ln p (env0 x)))
        (capSig net strip q)) + keep * b2n ((plane nb (s1.getD q []) 2).getLsbD p) := by
  unfold captureB
  rw [cToSB_eq, getD_mapIdx_lt _ _ _ _ [] hq]
  simp only [hcap, if_true]
  rw [V.enc_code _ _ _ hp, ← exec_eq_execG, hl p hp, sToCB_eq, sToC_map (ln p), V.dec_nil, List.map_map]
  rfl

/-- an uncaptured position keeps its row -/
theorem captureB_skip (ops : List Op) (net : Net) (strip : Bool) (env0 : Nat → α) (s0 s1 : List SRow) (q : Nat)
    (hcap : isPoppo net q = false) :
    (captureB C (fun op => semW op.code) ops (tabsOf net strip) env0 s0 s1).getD q [] = s1.getD q [] := by
  unfold captureB
  rw [cToSB_eq, List.getD_eq_getElem?_getD, List.getElem?_mapIdx]
  cases h : s1[q]? <;> simp [hcap, List.getD_eq_getElem?_getD, h]

theorem captureB_len3 (V : LaneView C nb ln ofCode code keep) (ops : List Op) (net : Net) (strip : Bool) (env0 : Nat → α)
    (s0 s1 : List SRow) (h3 : ∀ r ∈ s1, r.length = 3) :
    ∀ r ∈ captureB C (fun op => semW op.code) ops (tabsOf net strip) env0 s0 s1, r.length = 3 := by
  unfold captureB
  rw [cToSB_eq]
  intro r hr
  rw [List.mem_mapIdx] at hr
  obtain ⟨i, hi, rfl⟩ := hr
  split
  · exact V.enc_len _ _
  · exact h3 _ (List.getElem_mem hi)

end lanes

/-! ### fresh rows -/

theorem bits255 : ∀ i, i < 8 → (255 / 2 ^ i % 2 == 1) = true := by decide

theorem getLsbD_ofBytes_replicate (nb x p : Nat) :
    (ofBytes nb (List.replicate nb x)).getLsbD p = (decide (p < 8 * nb) && (x / 2 ^ (p % 8) % 2 == 1)) := by
  rw [getLsbD_ofBytes_byte]
  by_cases hp : p < 8 * nb
  · have : p / 8 < nb := by omega
    simp [hp, List.getD_eq_getElem?_getD, List.getElem?_replicate, this]
  · simp [hp]

/-- a fresh row shows UNASSIGNED (code 2) in every lane -/
theorem bpToMvRow_fresh (nb p : Nat) (hp : p < 8 * nb) : (bpToMvRow nb (freshRow nb)).getD p 0 = 2 := by
  unfold freshRow
  rw [bpToMvRow_lanes _ _ _ _ _ hp]
  simp only [getLsbD_ofBytes_replicate, hp, decide_true, Bool.true_and, bits255 (p % 8) (by omega)]
  simp [b2n]

theorem plane2_fresh (nb p : Nat) : (plane nb (freshRow nb) 2).getLsbD p = false := by
  simp [plane, freshRow, getLsbD_ofBytes_replicate]

end KV.DP
