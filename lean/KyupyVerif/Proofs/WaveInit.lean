import KyupyVerif.Proofs.WaveParity

namespace KV.Wave

namespace T
def isFin : T → Bool | fin _ => true | _ => false
def isTerm : T → Bool | tmax => true | tovl => true | _ => false

@[simp] theorem lt_tmin (a : T) : lt a tmin = false := by
  cases a <;> simp [lt, rank] <;> omega
theorem tmin_lt_of_ne (a : T) (h : a ≠ tmin) : lt tmin a = true := by
  cases a <;> simp_all [lt, rank]
theorem add_eq_tmin (a : T) (d : Int) : a.add d = tmin ↔ a = tmin := by
  cases a <;> simp [add]
theorem add_isFin (a : T) (d : Int) : (a.add d).isFin = a.isFin := by
  cases a <;> simp [add, isFin]
theorem add_isTerm (a : T) (d : Int) : (a.add d).isTerm = a.isTerm := by
  cases a <;> simp [add, isTerm]
theorem min_eq_tmin_left (b : T) : min tmin b = tmin := by simp [min]
theorem min_eq_tmin_right (a : T) : min a tmin = tmin := by
  unfold min; split
  · rfl
  · rename_i h; cases a <;> simp_all [lt, rank]
theorem min_cases (a b : T) : min a b = a ∨ min a b = b := by
  unfold min; split <;> simp
theorem min_eq_tmin_iff (a b : T) : min a b = tmin ↔ a = tmin ∨ b = tmin := by
  constructor
  · intro h; rcases min_cases a b with e | e <;> rw [e] at h <;> simp [h]
  · rintro (rfl | rfl)
    · exact min_eq_tmin_left _
    · exact min_eq_tmin_right _
end T

/-- remaining entries are well formed: only the head may be `tmin`, everything else is finite -/
def WfRem (l : List T) : Prop := (∀ e ∈ l.tail, e.isFin = true) ∧ (∀ e ∈ l, e = T.tmin ∨ e.isFin = true)

theorem WfRem.tail {l : List T} (h : WfRem l) : WfRem l.tail ∧ ∀ e ∈ l.tail, e.isFin = true := by
  refine ⟨⟨?_, ?_⟩, h.1⟩
  · intro e he; exact h.1 e (List.mem_of_mem_tail he)
  · intro e he; exact Or.inr (h.1 e he)

def pendTmin (s : St) (i : Fin 4) : Bool := (s.r i).head? == some T.tmin
def anyPend (s : St) : Bool := pendTmin s 0 || pendTmin s 1 || pendTmin s 2 || pendTmin s 3

structure Env where
  lut : Nat
  D : Delays
  terms : Fin 4 → T
  zcap : Nat
  hcap : 4 ≤ zcap
  hD : ∀ i p q, 0 ≤ D i p q
  hterm : ∀ i, (terms i).isTerm = true

theorem pend_eq_tmin (E : Env) (s : St) (i : Fin 4) :
    pend E.D E.terms s i = T.tmin ↔ pendTmin s i = true := by
  unfold pend pendTmin
  rw [T.add_eq_tmin]
  cases h : s.r i with
  | nil =>
    have := E.hterm i
    simp [headT]
    intro e; rw [e] at this; simp [T.isTerm] at this
  | cons x xs => simp [headT]

theorem cur_eq_tmin (E : Env) (s : St) : cur E.D E.terms s = T.tmin ↔ anyPend s = true := by
  unfold cur anyPend
  simp only [T.min_eq_tmin_iff, pend_eq_tmin, Bool.or_eq_true]
  constructor
  · rintro ((h | h) | (h | h))
    · exact Or.inl (Or.inl (Or.inl h))
    · exact Or.inl (Or.inl (Or.inr h))
    · exact Or.inl (Or.inr h)
    · exact Or.inr h
  · rintro (((h | h) | h) | h)
    · exact Or.inl (Or.inl h)
    · exact Or.inl (Or.inr h)
    · exact Or.inr (Or.inl h)
    · exact Or.inr (Or.inr h)

theorem pick_pend (E : Env) (s : St) (h : anyPend s = true) : pendTmin s (pick E.D E.terms s) = true := by
  have hc := (cur_eq_tmin E s).mpr h
  unfold pick
  simp only [hc]
  split
  · rename_i h0; exact (pend_eq_tmin E s 0).mp h0
  · split
    · rename_i h1; exact (pend_eq_tmin E s 1).mp h1
    · split
      · rename_i h2; exact (pend_eq_tmin E s 2).mp h2
      · rename_i h0 h1 h2
        unfold anyPend at h
        simp only [Bool.or_eq_true] at h
        rcases h with ((h | h) | h) | h
        · exact absurd ((pend_eq_tmin E s 0).mpr h) h0
        · exact absurd ((pend_eq_tmin E s 1).mpr h) h1
        · exact absurd ((pend_eq_tmin E s 2).mpr h) h2
        · exact h

def expected (s : St) : Fin 4 → Bool := fun i => s.inp i != pendTmin s i

structure InvA (s : St) : Prop where
  wf : ∀ i, WfRem (s.r i)
  z : s.z = [] ∨ s.z = [T.tmin]
  prev : s.prev = T.tmin

theorem widerThan_tmin_tmin (th : Int) (h : 0 ≤ th) : T.widerThan T.tmin T.tmin th = false := by
  simp [T.widerThan]; omega

theorem stepA_z (E : Env) (s : St) (hA : InvA s) (hp : anyPend s = true) :
    ((step E.lut E.D E.terms E.zcap s).z = [] ∨ (step E.lut E.D E.terms E.zcap s).z = [T.tmin]) ∧
    (step E.lut E.D E.terms E.zcap s).prev = T.tmin := by
  have hc := (cur_eq_tmin E s).mpr hp
  have hcap := E.hcap
  have hlt : (0 : Nat) < E.zcap - 1 := by omega
  unfold step
  simp only [hc, T.lt_tmin, hA.prev, widerThan_tmin_tmin _ (E.hD _ _ _), Bool.or_false]
  rcases hA.z with hz | hz <;> simp only [hz]
  · split
    · simp [hlt]
    · simp [hA.prev]
  · split
    · simp [headT]
    · simp [hA.prev]

theorem stepA (E : Env) (s : St) (hA : InvA s) (hp : anyPend s = true) :
    InvA (step E.lut E.D E.terms E.zcap s) ∧ expected (step E.lut E.D E.terms E.zcap s) = expected s := by
  have hz := stepA_z E s hA hp
  have hpk := pick_pend E s hp
  refine ⟨⟨?_, hz.1, hz.2⟩, ?_⟩
  · intro i
    rw [step_r]; unfold upd; split
    · exact (hA.wf _).tail.1
    · exact hA.wf i
  · funext i
    unfold expected pendTmin
    rw [step_inp, step_r]
    unfold upd
    split
    · rename_i hi; subst hi
      -- after consuming the head `tmin`, the new head is finite
      have hwf := (hA.wf (pick E.D E.terms s)).tail.2
      unfold pendTmin at hpk
      have hnew : ((s.r (pick E.D E.terms s)).tail.head? == some T.tmin) = false := by
        cases ht : (s.r (pick E.D E.terms s)).tail with
        | nil => simp
        | cons x xs =>
          have := hwf x (by simp [ht])
          cases x <;> simp_all [T.isFin]
      simp only [hnew, hpk]
      cases s.inp (pick E.D E.terms s) <;> rfl
    · rfl

def bot (z : List T) : Bool := z.getLast? == some T.tmin

structure InvB (s : St) : Prop where
  fin : ∀ i, ∀ e ∈ s.r i, e.isFin = true
  jj : s.prev = headT s.z T.tmin ∨ 2 ≤ s.z.length

theorem pend_fin_or_term (E : Env) (s : St) (hB : InvB s) (i : Fin 4) :
    (pend E.D E.terms s i).isFin = true ∨ (pend E.D E.terms s i).isTerm = true := by
  unfold pend
  cases h : s.r i with
  | nil => right; simp [headT, T.add_isTerm, E.hterm i]
  | cons x xs => left; simp [headT, T.add_isFin]; exact hB.fin i x (by simp [h])

theorem cur_fin (E : Env) (s : St) (hB : InvB s) (hlt : T.lt (cur E.D E.terms s) .tmax = true) :
    ∃ t, cur E.D E.terms s = T.fin t := by
  have key : (cur E.D E.terms s).isFin = true ∨ (cur E.D E.terms s).isTerm = true := by
    unfold cur
    have h0 := pend_fin_or_term E s hB 0
    have h1 := pend_fin_or_term E s hB 1
    have h2 := pend_fin_or_term E s hB 2
    have h3 := pend_fin_or_term E s hB 3
    rcases T.min_cases (T.min (pend E.D E.terms s 0) (pend E.D E.terms s 1)) (T.min (pend E.D E.terms s 2) (pend E.D E.terms s 3)) with e | e <;> rw [e]
    · rcases T.min_cases (pend E.D E.terms s 0) (pend E.D E.terms s 1) with e | e <;> rw [e] <;> assumption
    · rcases T.min_cases (pend E.D E.terms s 2) (pend E.D E.terms s 3) with e | e <;> rw [e] <;> assumption
  cases hc : cur E.D E.terms s with
  | fin t => exact ⟨t, rfl⟩
  | tmin => rw [hc] at key; simp [T.isFin, T.isTerm] at key
  | tmax => rw [hc] at hlt; simp [T.lt, T.rank] at hlt
  | tovl => rw [hc] at hlt; simp [T.lt, T.rank] at hlt

theorem bot_cons_fin (t : Int) (z : List T) : bot (T.fin t :: z) = bot z := by
  unfold bot
  cases z with
  | nil => simp
  | cons x xs => simp [List.getLast?_cons_cons]

theorem bot_tail_of_two (z : List T) (h : 2 ≤ z.length) : bot z.tail = bot z := by
  unfold bot
  match z, h with
  | a :: b :: r, _ => simp [List.getLast?_cons_cons]

theorem widerThan_fin_tmin (t th : Int) : T.widerThan (T.fin t) T.tmin th = true := by
  simp [T.widerThan]

theorem stepB (E : Env) (s : St) (hB : InvB s) (hlt : T.lt (cur E.D E.terms s) .tmax = true) :
    InvB (step E.lut E.D E.terms E.zcap s) ∧ bot (step E.lut E.D E.terms E.zcap s).z = bot s.z := by
  obtain ⟨t, hc⟩ := cur_fin E s hB hlt
  have hcap := E.hcap
  have hfin : ∀ i, ∀ e ∈ upd s.r (pick E.D E.terms s) (s.r (pick E.D E.terms s)).tail i, e.isFin = true := by
    intro i e he
    unfold upd at he
    split at he
    · exact hB.fin _ e (List.mem_of_mem_tail he)
    · exact hB.fin i e he
  unfold step
  simp only [hc]
  split
  · split
    · rename_i hcond
      split
      · -- emit
        rename_i hroom
        refine ⟨⟨hfin, Or.inl (by simp [headT])⟩, ?_⟩
        simp [bot_cons_fin]
      · -- overflow: length ≥ zcap-1 ≥ 3
        rename_i hfull
        have h3 : 3 ≤ s.z.length := by omega
        refine ⟨⟨hfin, Or.inr (by simp [List.length_tail]; omega)⟩, ?_⟩
        simp [bot_tail_of_two s.z (by omega)]
    · -- filter
      rename_i hcond
      simp only [Bool.or_eq_true, not_or, Bool.not_eq_true] at hcond
      obtain ⟨⟨hlen, _⟩, hw⟩ := hcond
      have hne : s.z.length ≠ 0 := by simpa using hlen
      refine ⟨⟨hfin, Or.inl (by simp)⟩, ?_⟩
      rcases Nat.lt_or_ge s.z.length 2 with h1 | h2
      · -- exactly one element; it cannot be tmin, otherwise the pulse would be "wider"
        match hz : s.z with
        | [x] =>
          have hprev : s.prev = x := by
            rcases hB.jj with h | h
            · simpa [hz, headT] using h
            · simp [hz] at h
          have : x ≠ T.tmin := by
            intro e; subst e
            rw [hprev, widerThan_fin_tmin] at hw; exact absurd hw (by simp)
          simp [bot]; exact this
        | [] => simp [hz] at hne
        | a :: b :: r => simp [hz] at h1; omega
      · simp [bot_tail_of_two s.z h2]
  · exact ⟨⟨hfin, hB.jj⟩, rfl⟩

theorem A_to_B (E : Env) (s : St) (m0 : Fin 4 → Bool) (hP : PInv E.lut s) (hA : InvA s)
    (he : expected s = m0) (hp : anyPend s = false) : InvB s ∧ bot s.z = lutBit E.lut m0 := by
  have hnp : ∀ i, pendTmin s i = false := by
    unfold anyPend at hp
    simp only [Bool.or_eq_false_iff] at hp
    intro i
    match i with
    | 0 => exact hp.1.1.1
    | 1 => exact hp.1.1.2
    | 2 => exact hp.1.2
    | 3 => exact hp.2
  have hinp : s.inp = m0 := by
    rw [← he]; funext i; simp [expected, hnp i]
  refine ⟨⟨?_, ?_⟩, ?_⟩
  · intro i e he'
    have hw := hA.wf i
    have hp' := hnp i
    unfold pendTmin at hp'
    cases hr : s.r i with
    | nil => simp [hr] at he'
    | cons x xs =>
      rw [hr] at he' hw hp'
      rcases List.mem_cons.mp he' with rfl | hx
      · rcases hw.2 e (by simp) with h | h
        · subst h; simp at hp'
        · exact h
      · exact hw.1 e (by simpa using hx)
  · left; rcases hA.z with hz | hz <;> simp [hz, headT, hA.prev]
  · obtain ⟨h1, h2⟩ := hP
    rw [← hinp, ← h2, ← h1]
    rcases hA.z with hz | hz <;> simp [hz, bot]

def Q (E : Env) (m0 : Fin 4 → Bool) (s : St) : Prop :=
  PInv E.lut s ∧ ((InvA s ∧ expected s = m0) ∨ (InvB s ∧ bot s.z = lutBit E.lut m0))

theorem step_Q (E : Env) (m0) (s : St) (hq : Q E m0 s) (hlt : T.lt (cur E.D E.terms s) .tmax = true) :
    Q E m0 (step E.lut E.D E.terms E.zcap s) := by
  obtain ⟨hP, h⟩ := hq
  have hP' := step_inv E.lut E.D E.terms E.zcap (by have := E.hcap; omega) s hP
  refine ⟨hP', ?_⟩
  rcases h with ⟨hA, he⟩ | ⟨hB, hb⟩
  · cases hp : anyPend s with
    | true =>
      obtain ⟨hA', he'⟩ := stepA E s hA hp
      exact Or.inl ⟨hA', he'.trans he⟩
    | false =>
      obtain ⟨hB, hb⟩ := A_to_B E s m0 hP hA he hp
      obtain ⟨hB', hb'⟩ := stepB E s hB hlt
      exact Or.inr ⟨hB', hb'.trans hb⟩
  · obtain ⟨hB', hb'⟩ := stepB E s hB hlt
    exact Or.inr ⟨hB', hb'.trans hb⟩

theorem run_Q (E : Env) (m0) (fuel : Nat) (s : St) (hq : Q E m0 s) :
    Q E m0 (run E.lut E.D E.terms E.zcap fuel s) := by
  induction fuel generalizing s with
  | zero => simpa [run]
  | succ n ih =>
    unfold run; split
    · rename_i hlt; exact ih _ (step_Q E m0 s hq hlt)
    · exact hq

/-- at a state where the loop guard is false the bottom of the stack tells the initial value -/
theorem Q_done (E : Env) (m0) (s : St) (hq : Q E m0 s) (hdone : T.lt (cur E.D E.terms s) .tmax = false) :
    bot s.z = lutBit E.lut m0 := by
  obtain ⟨hP, h⟩ := hq
  rcases h with ⟨hA, he⟩ | ⟨_, hb⟩
  · have hp : anyPend s = false := by
      cases hp : anyPend s with
      | false => rfl
      | true =>
        have := (cur_eq_tmin E s).mpr hp
        rw [this] at hdone; simp [T.lt, T.rank] at hdone
    exact (A_to_B E s m0 hP hA he hp).2
  · exact hb

def initMask (ws : Fin 4 → List T) : Fin 4 → Bool := fun i => (ws i).head? == some T.tmin

theorem init_Q (E : Env) (ws : Fin 4 → List T) (hwf : ∀ i, WfRem (ws i)) :
    Q E (initMask ws) (init E.lut ws) := by
  refine ⟨⟨?_, ?_⟩, Or.inl ⟨⟨hwf, ?_, rfl⟩, ?_⟩⟩
  · simp only [init]; cases h : (E.lut % 2 == 1) <;> simp
  · simp only [init, lutBit, idx]; simp
  · simp only [init]; cases h : (E.lut % 2 == 1) <;> simp
  · funext i; simp [expected, init, pendTmin, initMask]

/-- C03 (initial value): the produced waveform starts high iff the LUT of the operands' initial values is 1 -/
theorem run_init (E : Env) (ws : Fin 4 → List T) (hwf : ∀ i, WfRem (ws i)) (fuel : Nat)
    (hdone : T.lt (cur E.D E.terms (run E.lut E.D E.terms E.zcap fuel (init E.lut ws))) .tmax = false) :
    bot (run E.lut E.D E.terms E.zcap fuel (init E.lut ws)).z = lutBit E.lut (initMask ws) :=
  Q_done E _ _ (run_Q E _ fuel _ (init_Q E ws hwf)) hdone

end KV.Wave
