import KyupyVerif.Model.MapCert
import KyupyVerif.Model.Sig
/-! Soundness of the map certificate checker `MapIn.check` (C08, used by C01/C06/C07):
if the checker accepts the REAL tables (`ops`, `level_starts`, `c_locs`, `c_caps`), then executing the op rows on
memory (every operand read from its region, every result written to the region of the output) gives, at every
signal that is still needed, the value of signal-level execution (which does not mention the map at all). -/
namespace KV.MapSound
open KV KV.MapIn

/-- how a value lives in a memory region `[l, l + c)`: reading depends on the region only, writing changes the
region only. (LogicSim: one row per signal; WaveSim: `c` rows holding a waveform.) -/
structure RW (α C : Type) where
  rd : Int → Nat → (Int → C) → α
  wr : Int → Nat → α → (Int → C) → (Int → C)
  wr_frame : ∀ (l : Int) (c : Nat) (v : α) (m : Int → C) (a : Int), ¬ (l ≤ a ∧ a < l + (c : Int)) → wr l c v m a = m a
  rd_dep : ∀ (l : Int) (c : Nat) (m m' : Int → C), (∀ a, l ≤ a → a < l + (c : Int) → m a = m' a) → rd l c m = rd l c m'

variable {α C : Type}

def rdS (p : MapIn) (R : RW α C) (x : Nat) (m : Int → C) : α := R.rd (p.loc x) (p.cap x) m

/-- one op on memory: operands are read through `c_locs/c_caps` of the operand INDEX (a stripped branch aliases
its stem), the result is written to the region of the output index -/
def memStep (p : MapIn) (R : RW α C) (sem : OpRow → List α → α) (m : Int → C) (o : OpRow) : Int → C :=
  R.wr (p.loc o.out) (p.cap o.out) (sem o (o.ins.map fun i => rdS p R i m)) m

/-- one op on signals: operands are the signals the indices denote (`src` = the stem for a stripped branch) -/
def sigStep (p : MapIn) (sem : OpRow → List α → α) (env : Nat → α) (o : OpRow) : Nat → α :=
  fun j => if j = o.out then sem o (o.ins.map fun i => env (p.src i)) else env j

/-! ### what an accepted certificate says -/
structure Good (p : MapIn) : Prop where
  inb : ∀ x ∈ p.tracked, p.capsMin ≤ p.cap x
  trNJ : ∀ x ∈ p.tracked, p.isJunk x = false
  first : ∀ (k : Nat) (o : OpRow), p.ops[k]? = some o → p.isJunk o.out = false →
    p.ops.findIdx? (fun o' => o'.out == o.out) = some k
  opnd : ∀ (k : Nat) (o : OpRow), p.ops[k]? = some o → ∀ i ∈ o.ins, p.src i ∈ p.tracked ∧ p.dfn (p.src i) < p.levelOf k
  alias : ∀ (k : Nat) (o : OpRow), p.ops[k]? = some o → ∀ i ∈ o.ins, p.loc i = p.loc (p.src i) ∧ p.cap i = p.cap (p.src i)
  ppo : ∀ (j s : Nat), (j, s) ∈ p.ppoSrcs → p.loc j = p.loc s ∧ p.cap j = p.cap s ∧ s ∈ p.tracked
  sep : ∀ x ∈ p.tracked, ∀ y ∈ p.tracked,
    x = y ∨ p.overlap x y = false ∨ p.last x < p.dfn y ∨ p.last y < p.dfn x
  junkSep : ∀ x ∈ p.tracked, p.overlap x p.ix.tmp = false ∧ p.overlap x p.ix.tmp2 = false

theorem ite_none {c : Bool} {s : String} {r : Option String} (h : (if c = true then some s else r) = none) :
    c = false ∧ r = none := by
  cases c <;> simp_all

theorem good_of_check (p : MapIn) (h : p.check = none) : Good p := by
  unfold check checkW at h
  dsimp only at h
  obtain ⟨h1, h⟩ := ite_none h
  obtain ⟨h2, h⟩ := ite_none h
  obtain ⟨h3, h⟩ := ite_none h
  obtain ⟨h4, h⟩ := ite_none h
  obtain ⟨h5, h⟩ := ite_none h
  obtain ⟨h6, h⟩ := ite_none h
  obtain ⟨h7, h⟩ := ite_none h
  obtain ⟨h8, _⟩ := ite_none h
  rw [Bool.not_eq_false', List.all_eq_true] at h2 h3 h4 h5 h6 h7
  rw [Bool.or_eq_false_iff] at h8
  obtain ⟨h8, _⟩ := h8
  rw [Bool.not_eq_false', List.all_eq_true] at h8
  rw [Bool.not_eq_false', Bool.and_eq_true, List.all_eq_true] at h1
  refine ⟨?_, ?_, ?_, ?_, ?_, ?_, ?_, ?_⟩
  · intro x hx
    have := h1.1 x hx
    simp only [inBounds, Bool.and_eq_true, decide_eq_true_eq] at this
    exact this.2
  · intro x hx; simpa using h2 x hx
  · intro k o hk hj
    have := h3 (o, k) (List.mem_zipIdx_iff_getElem?.2 hk)
    simpa [hj] using this
  · intro k o hk i hi
    have := h4 (o, k) (List.mem_zipIdx_iff_getElem?.2 hk)
    simp only [List.all_eq_true] at this
    have := this i hi
    simp only [Bool.and_eq_true, decide_eq_true_eq, List.contains_iff_mem] at this
    exact ⟨this.1.1, this.1.2⟩
  · intro k o hk i hi
    have := h5 (o, k) (List.mem_zipIdx_iff_getElem?.2 hk)
    simp only [List.all_eq_true] at this
    have := this i hi
    simpa using this
  · intro j s hjs
    have := h6 (j, s) hjs
    simpa [and_assoc] using this
  · intro x hx y hy
    have := h7 x hx
    rw [List.all_eq_true] at this
    have := this y hy
    simp only [Bool.or_eq_true, decide_eq_true_eq, beq_iff_eq, Bool.not_eq_eq_eq_not, Bool.not_true] at this
    rcases this with ((h | h) | h) | h
    · exact .inl h
    · exact .inr (.inl h)
    · exact .inr (.inr (.inl h))
    · exact .inr (.inr (.inr h))
  · intro x hx
    have := h8 x hx
    simpa using this

/-! ### levels -/
theorem filter_le_mono (l : List Nat) {a b : Nat} (h : a ≤ b) :
    (l.filter (· ≤ a)).length ≤ (l.filter (· ≤ b)).length := by
  induction l with
  | nil => simp
  | cons x xs ih =>
    simp only [List.filter_cons]
    by_cases h1 : x ≤ a <;> by_cases h2 : x ≤ b <;> simp [h1, h2] <;> omega

theorem levelOf_mono (p : MapIn) {a b : Nat} (h : a ≤ b) : p.levelOf a ≤ p.levelOf b := filter_le_mono _ h
theorem levelOf_le (p : MapIn) (k : Nat) : p.levelOf k ≤ p.nLevels := List.length_filter_le _ _

theorem lt_of_levelOf_lt (p : MapIn) {a b : Nat} (h : p.levelOf a < p.levelOf b) : a < b := by
  rcases Nat.lt_or_ge a b with h' | h'
  · exact h'
  · have := levelOf_mono p h'; omega

theorem dfn_le_nLevels (p : MapIn) (x : Nat) : p.dfn x ≤ p.nLevels := by
  unfold dfn; split
  · exact levelOf_le p _
  · exact Nat.zero_le _

theorem dfn_first {p : MapIn} (hg : Good p) {k : Nat} {o : OpRow} (hk : p.ops[k]? = some o)
    (hj : p.isJunk o.out = false) : p.dfn o.out = p.levelOf k := by
  unfold dfn; rw [hg.first k o hk hj]

theorem dfn_le_of_writers (p : MapIn) (x k : Nat)
    (h : ∀ k' o, p.ops[k']? = some o → o.out = x → k' ≤ k) : p.dfn x ≤ p.levelOf k := by
  unfold dfn; split
  · rename_i k'' hk''
    obtain ⟨hlt, hp, _⟩ := List.findIdx?_eq_some_iff_getElem.1 hk''
    have := h k'' p.ops[k''] (List.getElem?_eq_getElem hlt) (by simpa using hp)
    exact levelOf_mono p this
  · exact Nat.zero_le _

theorem foldl_max_ge {β} (g : β → Nat) (l : List β) (a : Nat) :
    a ≤ l.foldl (fun m x => Nat.max m (g x)) a ∧ ∀ x ∈ l, g x ≤ l.foldl (fun m x => Nat.max m (g x)) a := by
  induction l generalizing a with
  | nil => simp
  | cons y ys ih =>
    simp only [List.foldl_cons, List.mem_cons]
    have := ih (Nat.max a (g y))
    refine ⟨Nat.le_trans (Nat.le_max_left _ _) this.1, ?_⟩
    intro x hx
    rcases hx with rfl | hx
    · exact Nat.le_trans (Nat.le_max_right _ _) this.1
    · exact this.2 x hx

theorem last_ge_dfn (p : MapIn) (x : Nat) : p.dfn x ≤ p.last x := by
  unfold last lastW; split
  · have := dfn_le_nLevels p x; omega
  · exact (foldl_max_ge _ _ _).1

theorem last_ge_use (p : MapIn) {k : Nat} {o : OpRow} (hk : p.ops[k]? = some o) {x : Nat}
    (hx : x ∈ o.ins.map p.src) : p.levelOf k ≤ p.last x := by
  unfold last lastW; split
  · have := levelOf_le p k; omega
  · refine (foldl_max_ge (fun ok : OpRow × Nat => p.levelOf ok.2) _ _).2 (o, k) ?_
    rw [List.mem_filter]
    exact ⟨List.mem_zipIdx_iff_getElem?.2 hk, by simpa using hx⟩

theorem last_pinned (p : MapIn) {x : Nat} (h : p.pinned x = true) : p.last x = p.nLevels + 1 := by
  unfold last lastW; simp [h]

/-! ### schedules
The ops may run in ANY order that covers every op and never runs an op of a later level before an op of an earlier
level (`level_starts` promises that the ops of one level are independent): `List.range n` is the program order,
every permutation inside the levels is another schedule. -/
structure Sched (p : MapIn) (sched : List Nat) : Prop where
  valid : ∀ (t k : Nat), sched[t]? = some k → k < p.ops.length
  cover : ∀ (k : Nat), k < p.ops.length → k ∈ sched
  mono : ∀ (t1 t2 k1 k2 : Nat), t1 ≤ t2 → sched[t1]? = some k1 → sched[t2]? = some k2 → p.levelOf k1 ≤ p.levelOf k2

def schedOps (p : MapIn) (sched : List Nat) : List OpRow := sched.filterMap (p.ops[·]?)

theorem sched_range (p : MapIn) : Sched p (List.range p.ops.length) := by
  refine ⟨?_, ?_, ?_⟩
  · intro t k h
    have := List.getElem?_eq_some_iff.1 h
    obtain ⟨h1, h2⟩ := this
    simp at h1 h2; omega
  · intro k hk; simpa using hk
  · intro t1 t2 k1 k2 h h1 h2
    obtain ⟨a1, a2⟩ := List.getElem?_eq_some_iff.1 h1
    obtain ⟨b1, b2⟩ := List.getElem?_eq_some_iff.1 h2
    simp at a2 b2
    exact levelOf_mono p (by omega)

theorem filterMap_congr' {β γ} (f g : β → Option γ) (l : List β) (h : ∀ x ∈ l, f x = g x) :
    l.filterMap f = l.filterMap g := by
  induction l with
  | nil => rfl
  | cons x xs ih =>
    simp only [List.filterMap_cons, h x (List.mem_cons_self)]
    rw [ih (fun y hy => h y (List.mem_cons_of_mem _ hy))]

theorem filterMap_getElem?_range_take {β} (l : List β) (n : Nat) :
    (List.range n).filterMap (l[·]?) = l.take n := by
  induction n with
  | zero => rfl
  | succ n ih =>
    rw [List.range_succ, List.filterMap_append, ih, List.take_succ]
    cases h : l[n]? <;> simp [h]

theorem filterMap_getElem?_range {β} (l : List β) : (List.range l.length).filterMap (l[·]?) = l := by
  rw [filterMap_getElem?_range_take, List.take_length]

theorem schedOps_range (p : MapIn) : schedOps p (List.range p.ops.length) = p.ops :=
  filterMap_getElem?_range p.ops

/-! ### the invariant -/
/-- every writer of `x` has run before position `t` of the schedule -/
def Avail (p : MapIn) (sched : List Nat) (t x : Nat) : Prop :=
  ∀ k' o, p.ops[k']? = some o → o.out = x → ∃ t', t' < t ∧ sched[t']? = some k'
/-- `x` is still needed at position `t`: observed at the end (pinned) or read by an op scheduled at `t' ≥ t` -/
def Live (p : MapIn) (sched : List Nat) (t x : Nat) : Prop :=
  p.pinned x = true ∨ ∃ t' k o, t ≤ t' ∧ sched[t']? = some k ∧ p.ops[k]? = some o ∧ x ∈ o.ins.map p.src
def Inv (p : MapIn) (R : RW α C) (sched : List Nat) (t : Nat) (m : Int → C) (env : Nat → α) : Prop :=
  ∀ x ∈ p.tracked, Avail p sched t x → Live p sched t x → rdS p R x m = env x

theorem rd_frame (R : RW α C) (p : MapIn) (x y : Nat) (h : p.overlap x y = false) (v : α) (m : Int → C) :
    rdS p R x (R.wr (p.loc y) (p.cap y) v m) = rdS p R x m := by
  unfold rdS
  apply R.rd_dep
  intro a h1 h2
  apply R.wr_frame
  intro ⟨h3, h4⟩
  simp only [overlap, Bool.and_eq_false_iff, decide_eq_false_iff_not] at h
  omega

theorem mem_tracked_of_out (p : MapIn) {k : Nat} {o : OpRow} (hk : p.ops[k]? = some o)
    (hj : p.isJunk o.out = false) : o.out ∈ p.tracked := by
  unfold tracked
  simp only [List.mem_append, List.mem_filter, List.mem_map]
  exact .inl (.inl ⟨⟨o, List.mem_of_getElem? hk, rfl⟩, by simp [hj]⟩)

theorem dfn_le_of_writer_levels (p : MapIn) (x L : Nat)
    (h : ∀ k' o, p.ops[k']? = some o → o.out = x → p.levelOf k' ≤ L) : p.dfn x ≤ L := by
  unfold dfn; split
  · rename_i k'' hk''
    obtain ⟨hlt, hp, _⟩ := List.findIdx?_eq_some_iff_getElem.1 hk''
    exact h k'' p.ops[k''] (List.getElem?_eq_getElem hlt) (by simpa using hp)
  · exact Nat.zero_le _

theorem step_inv {p : MapIn} (hg : Good p) (R : RW α C) (sem : OpRow → List α → α)
    (sched : List Nat) (hs : Sched p sched)
    (t k : Nat) (o : OpRow) (ht : sched[t]? = some k) (hk : p.ops[k]? = some o)
    (hfit : ∀ args m, R.rd (p.loc o.out) (p.cap o.out) (R.wr (p.loc o.out) (p.cap o.out) (sem o args) m) = sem o args)
    (m : Int → C) (env : Nat → α) (h : Inv p R sched t m env) :
    Inv p R sched (t + 1) (memStep p R sem m o) (sigStep p sem env o) := by
  intro x hx hav hlive
  have hav' : x ≠ o.out → Avail p sched t x := by
    intro hne k' o' hk' ho'
    obtain ⟨t', ht', hst'⟩ := hav k' o' hk' ho'
    rcases Nat.lt_or_ge t' t with h' | h'
    · exact ⟨t', h', hst'⟩
    · have : t' = t := by omega
      subst this
      rw [ht] at hst'; cases hst'
      rw [hk] at hk'; cases hk'; exact absurd ho'.symm hne
  have hlive' : Live p sched t x := by
    rcases hlive with h' | ⟨t', k', o', hj, hs', ho', hm⟩
    · exact .inl h'
    · exact .inr ⟨t', k', o', by omega, hs', ho', hm⟩
  by_cases hj : p.isJunk o.out = true
  · -- scratch slot: disjoint from every tracked signal
    have hne : x ≠ o.out := by
      intro e; have := hg.trNJ x hx; rw [e, hj] at this; cases this
    have hov : p.overlap x o.out = false := by
      simp only [isJunk, Bool.or_eq_true, beq_iff_eq] at hj
      rcases hj with e | e <;> rw [e]
      · exact (hg.junkSep x hx).1
      · exact (hg.junkSep x hx).2
    simp only [memStep, sigStep, if_neg hne]
    rw [rd_frame R p x o.out hov]
    exact h x hx (hav' hne) hlive'
  · have hj : p.isJunk o.out = false := by simpa using hj
    have hargs : (o.ins.map fun i => rdS p R i m) = o.ins.map fun i => env (p.src i) := by
      apply List.map_congr_left
      intro i hi
      obtain ⟨hal, hac⟩ := hg.alias k o hk i hi
      obtain ⟨htr, hlt⟩ := hg.opnd k o hk i hi
      have e1 : rdS p R i m = rdS p R (p.src i) m := by unfold rdS; rw [hal, hac]
      rw [e1]
      apply h (p.src i) htr
      · intro k' o' hk' ho'
        have hnj : p.isJunk o'.out = false := by rw [ho']; exact hg.trNJ _ htr
        have hd := dfn_first hg hk' hnj
        rw [ho'] at hd
        -- the writer sits in an earlier level, so the schedule has run it already
        have hk'lt : k' < p.ops.length := (List.getElem?_eq_some_iff.1 hk').1
        obtain ⟨t', ht'⟩ := List.mem_iff_getElem?.1 (hs.cover k' hk'lt)
        rcases Nat.lt_or_ge t' t with h' | h'
        · exact ⟨t', h', ht'⟩
        · have := hs.mono t t' k k' h' ht ht'
          omega
      · exact .inr ⟨t, k, o, Nat.le_refl _, ht, hk, List.mem_map.2 ⟨i, hi, rfl⟩⟩
    by_cases hxy : x = o.out
    · subst hxy
      simp only [memStep, sigStep, if_pos]
      rw [hargs]
      exact hfit _ _
    · have hy := mem_tracked_of_out p hk hj
      have hdy := dfn_first hg hk hj
      have hov : p.overlap x o.out = false := by
        rcases hg.sep x hx o.out hy with e | e | e | e
        · exact absurd e hxy
        · exact e
        · -- x is still needed after this op, so its last use is not before the level of this op
          exfalso
          rcases hlive with hp | ⟨t', k', o', hjk, hs', ho', hm⟩
          · rw [last_pinned p hp] at e
            have := levelOf_le p k; omega
          · have h1 := last_ge_use p ho' hm
            have h2 := hs.mono t t' k k' (by omega) ht hs'
            omega
        · exfalso
          have h1 := last_ge_dfn p o.out
          have h2 := dfn_le_of_writer_levels p x (p.levelOf k) (fun k' o' hk' ho' => by
            obtain ⟨t', ht', hst'⟩ := hav k' o' hk' ho'
            exact hs.mono t' t k' k (by omega) hst' ht)
          omega
      simp only [memStep, sigStep, if_neg hxy]
      rw [rd_frame R p x o.out hov]
      exact h x hx (hav' hxy) hlive'

def memRun (p : MapIn) (R : RW α C) (sem : OpRow → List α → α) (ops : List OpRow) (m : Int → C) : Int → C :=
  ops.foldl (memStep p R sem) m
def sigRun (p : MapIn) (sem : OpRow → List α → α) (ops : List OpRow) (env : Nat → α) : Nat → α :=
  ops.foldl (sigStep p sem) env

theorem run_inv {p : MapIn} (hg : Good p) (R : RW α C) (sem : OpRow → List α → α)
    (sched : List Nat) (hs : Sched p sched)
    (hfit : ∀ o ∈ p.ops, ∀ args m,
      R.rd (p.loc o.out) (p.cap o.out) (R.wr (p.loc o.out) (p.cap o.out) (sem o args) m) = sem o args) :
    ∀ (suf pre : List Nat) (m : Int → C) (env : Nat → α), sched = pre ++ suf → Inv p R sched pre.length m env →
      Inv p R sched sched.length (memRun p R sem (schedOps p suf) m) (sigRun p sem (schedOps p suf) env) := by
  intro suf
  induction suf with
  | nil =>
    intro pre m env hp h
    have : sched.length = pre.length := by rw [hp]; simp
    rw [this]; simpa [memRun, sigRun, schedOps] using h
  | cons k suf ih =>
    intro pre m env hp h
    have ht : sched[pre.length]? = some k := by rw [hp]; simp
    have hklt := hs.valid _ _ ht
    have hk : p.ops[k]? = some p.ops[k] := List.getElem?_eq_getElem hklt
    have hstep := step_inv hg R sem sched hs pre.length k p.ops[k] ht hk
      (hfit _ (List.getElem_mem hklt)) m env h
    have := ih (pre ++ [k]) (memStep p R sem m p.ops[k]) (sigStep p sem env p.ops[k]) (by rw [hp]; simp)
      (by simpa using hstep)
    simpa [memRun, sigRun, schedOps, hk] using this

/-- **soundness of the certificate**: if `MapIn.check` accepts, then after running all ops on memory — in program
order or in any other order that respects the level partition — every tracked signal that is observed at the end (the
zero slot, the input slots, every signal captured by an output slot) holds the value signal-level execution in the
same order computes for it, provided memory and signal environment agree initially on the signals no op writes (the
stimulus) and each result fits the region of its output -/
theorem check_sound_sched (p : MapIn) (hc : p.check = none) (R : RW α C) (sem : OpRow → List α → α)
    (sched : List Nat) (hs : Sched p sched)
    (hfit : ∀ o ∈ p.ops, ∀ args m,
      R.rd (p.loc o.out) (p.cap o.out) (R.wr (p.loc o.out) (p.cap o.out) (sem o args) m) = sem o args)
    (m0 : Int → C) (env0 : Nat → α)
    (h0 : ∀ x ∈ p.tracked, (∀ o ∈ p.ops, o.out ≠ x) → rdS p R x m0 = env0 x) :
    (∀ x ∈ p.tracked, p.pinned x = true →
      rdS p R x (memRun p R sem (schedOps p sched) m0) = sigRun p sem (schedOps p sched) env0 x) ∧
    (∀ j s, (j, s) ∈ p.ppoSrcs →
      rdS p R j (memRun p R sem (schedOps p sched) m0) = sigRun p sem (schedOps p sched) env0 s) := by
  have hg := good_of_check p hc
  have hI0 : Inv p R sched ([] : List Nat).length m0 env0 := by
    intro x hx hav _
    apply h0 x hx
    intro o ho e
    obtain ⟨k, hk⟩ := List.mem_iff_getElem?.1 ho
    obtain ⟨t', ht', _⟩ := hav k o hk e
    simp at ht'
  have hI := run_inv hg R sem sched hs hfit sched [] m0 env0 (by simp) hI0
  have hpin : ∀ x ∈ p.tracked, p.pinned x = true →
      rdS p R x (memRun p R sem (schedOps p sched) m0) = sigRun p sem (schedOps p sched) env0 x := by
    intro x hx hp
    apply hI x hx
    · intro k' o hk' _
      obtain ⟨t', ht'⟩ := List.mem_iff_getElem?.1 (hs.cover k' (List.getElem?_eq_some_iff.1 hk').1)
      exact ⟨t', (List.getElem?_eq_some_iff.1 ht').1, ht'⟩
    · exact .inl hp
  refine ⟨hpin, ?_⟩
  intro j s hjs
  obtain ⟨hl, hcp, htr⟩ := hg.ppo j s hjs
  have : rdS p R j (memRun p R sem (schedOps p sched) m0) = rdS p R s (memRun p R sem (schedOps p sched) m0) := by
    unfold rdS; rw [hl, hcp]
  rw [this]
  apply hpin s htr
  have : (p.ppoSrcs.map (·.2)).contains s = true := by
    rw [List.contains_iff_mem]; exact List.mem_map.2 ⟨(j, s), hjs, rfl⟩
  unfold pinned pinnedW
  rw [this]; simp

/-- program order -/
theorem check_sound (p : MapIn) (hc : p.check = none) (R : RW α C) (sem : OpRow → List α → α)
    (hfit : ∀ o ∈ p.ops, ∀ args m,
      R.rd (p.loc o.out) (p.cap o.out) (R.wr (p.loc o.out) (p.cap o.out) (sem o args) m) = sem o args)
    (m0 : Int → C) (env0 : Nat → α)
    (h0 : ∀ x ∈ p.tracked, (∀ o ∈ p.ops, o.out ≠ x) → rdS p R x m0 = env0 x) :
    (∀ x ∈ p.tracked, p.pinned x = true → rdS p R x (memRun p R sem p.ops m0) = sigRun p sem p.ops env0 x) ∧
    (∀ j s, (j, s) ∈ p.ppoSrcs → rdS p R j (memRun p R sem p.ops m0) = sigRun p sem p.ops env0 s) := by
  have := check_sound_sched p hc R sem _ (sched_range p) hfit m0 env0 h0
  rwa [schedOps_range] at this

/-! ### any two schedules compute the same signal values
(signal level, derived from the accepted certificate alone: the scheduled program satisfies the op equations, and
the op equations have one solution) -/
theorem sched_idx_inj {sched : List Nat} (hnd : sched.Nodup) {i j k : Nat}
    (h1 : sched[i]? = some k) (h2 : sched[j]? = some k) : i = j :=
  (List.getElem?_inj (List.getElem?_eq_some_iff.1 h1).1 hnd).1 (h1.trans h2.symm)

/-- a non-scratch signal has one writer -/
theorem writer_unique {p : MapIn} (hg : Good p) {k1 k2 : Nat} {o1 o2 : OpRow} (h1 : p.ops[k1]? = some o1)
    (h2 : p.ops[k2]? = some o2) (hj : p.isJunk o1.out = false) (he : o1.out = o2.out) : k1 = k2 := by
  have a := hg.first k1 o1 h1 hj
  have b := hg.first k2 o2 h2 (he ▸ hj)
  rw [he] at a; rw [a] at b; cases b; rfl

/-- operands are not scratch, not the own output, and their writer sits in an earlier level -/
theorem opnd_facts {p : MapIn} (hg : Good p) {k : Nat} {o : OpRow} (hk : p.ops[k]? = some o) {i : Nat} (hi : i ∈ o.ins) :
    p.isJunk (p.src i) = false ∧ p.src i ≠ o.out ∧
    ∀ k' o', p.ops[k']? = some o' → o'.out = p.src i → p.levelOf k' < p.levelOf k := by
  obtain ⟨htr, hlt⟩ := hg.opnd k o hk i hi
  have hnj := hg.trNJ _ htr
  refine ⟨hnj, ?_, ?_⟩
  · intro e
    have := dfn_first hg hk (e ▸ hnj)
    rw [← e] at this; omega
  · intro k' o' hk' ho'
    have := dfn_first hg hk' (ho' ▸ hnj)
    rw [ho'] at this; omega

/-- the equations of the ops scheduled before position `t` hold in the current environment -/
def InvS (p : MapIn) (sem : OpRow → List α → α) (sched : List Nat) (t : Nat) (E : Nat → α) : Prop :=
  ∀ k o t', p.ops[k]? = some o → p.isJunk o.out = false → t' < t → sched[t']? = some k →
    E o.out = sem o (o.ins.map fun i => E (p.src i))

theorem stepS {p : MapIn} (hg : Good p) (sem : OpRow → List α → α) (sched : List Nat) (hs : Sched p sched)
    (hnd : sched.Nodup) (t k : Nat) (o : OpRow) (ht : sched[t]? = some k) (hk : p.ops[k]? = some o)
    (E : Nat → α) (h : InvS p sem sched t E) : InvS p sem sched (t + 1) (sigStep p sem E o) := by
  intro kq q t' hq hjq ht' hst'
  -- operands of q are not overwritten by o
  have hop : ∀ i ∈ q.ins, p.levelOf kq ≤ p.levelOf k → sigStep p sem E o (p.src i) = E (p.src i) := by
    intro i hi hle
    obtain ⟨_, _, hw⟩ := opnd_facts hg hq hi
    have : p.src i ≠ o.out := by
      intro e
      have := hw k o hk e.symm
      omega
    simp [sigStep, this]
  rcases Nat.lt_or_ge t' t with hlt | hge
  · have hle := hs.mono t' t kq k (by omega) hst' ht
    have hne : q.out ≠ o.out := by
      intro e
      have := writer_unique hg hq hk hjq e
      subst this
      have := sched_idx_inj hnd hst' ht
      omega
    have e1 : sigStep p sem E o q.out = E q.out := by simp [sigStep, hne]
    rw [e1, h kq q t' hq hjq hlt hst']
    congr 1
    apply List.map_congr_left
    intro i hi
    exact (hop i hi hle).symm
  · have : t' = t := by omega
    subst this
    rw [ht] at hst'; cases hst'
    rw [hk] at hq; cases hq
    have e1 : sigStep p sem E o o.out = sem o (o.ins.map fun i => E (p.src i)) := by simp [sigStep]
    rw [e1]
    congr 1
    apply List.map_congr_left
    intro i hi
    exact (hop i hi (Nat.le_refl _)).symm

theorem runS {p : MapIn} (hg : Good p) (sem : OpRow → List α → α) (sched : List Nat) (hs : Sched p sched)
    (hnd : sched.Nodup) :
    ∀ (suf pre : List Nat) (E : Nat → α), sched = pre ++ suf → InvS p sem sched pre.length E →
      InvS p sem sched sched.length (sigRun p sem (schedOps p suf) E) := by
  intro suf
  induction suf with
  | nil =>
    intro pre E hp h
    have : sched.length = pre.length := by rw [hp]; simp
    rw [this]; simpa [sigRun, schedOps] using h
  | cons k suf ih =>
    intro pre E hp h
    have ht : sched[pre.length]? = some k := by rw [hp]; simp
    have hklt := hs.valid _ _ ht
    have hk : p.ops[k]? = some p.ops[k] := List.getElem?_eq_getElem hklt
    have hstep := stepS hg sem sched hs hnd pre.length k p.ops[k] ht hk E h
    have := ih (pre ++ [k]) (sigStep p sem E p.ops[k]) (by rw [hp]; simp) (by simpa using hstep)
    simpa [sigRun, schedOps, hk] using this

theorem sigRun_frame (p : MapIn) (sem : OpRow → List α → α) (ops : List OpRow) (E : Nat → α) (x : Nat)
    (h : ∀ o ∈ ops, o.out ≠ x) : sigRun p sem ops E x = E x := by
  induction ops generalizing E with
  | nil => rfl
  | cons o ops ih =>
    simp only [sigRun, List.foldl_cons]
    have := ih (sigStep p sem E o) (fun q hq => h q (List.mem_cons_of_mem _ hq))
    simp only [sigRun] at this
    rw [this]
    have : x ≠ o.out := fun e => h o List.mem_cons_self e.symm
    simp [sigStep, this]

theorem mem_schedOps {p : MapIn} {sched : List Nat} {o : OpRow} (h : o ∈ schedOps p sched) : o ∈ p.ops := by
  simp only [schedOps, List.mem_filterMap] at h
  obtain ⟨k, _, hk⟩ := h
  exact List.mem_of_getElem? hk

/-- the op equations -/
def Solves (p : MapIn) (sem : OpRow → List α → α) (env val : Nat → α) : Prop :=
  (∀ x, (∀ o ∈ p.ops, o.out ≠ x) → val x = env x) ∧
  (∀ o ∈ p.ops, p.isJunk o.out = false → val o.out = sem o (o.ins.map fun i => val (p.src i)))

theorem sched_solves {p : MapIn} (hg : Good p) (sem : OpRow → List α → α) (sched : List Nat) (hs : Sched p sched)
    (hnd : sched.Nodup) (env : Nat → α) : Solves p sem env (sigRun p sem (schedOps p sched) env) := by
  refine ⟨?_, ?_⟩
  · intro x hx
    exact sigRun_frame p sem _ env x (fun o ho => hx o (mem_schedOps ho))
  · intro o ho hj
    obtain ⟨k, hk⟩ := List.mem_iff_getElem?.1 ho
    obtain ⟨t', ht'⟩ := List.mem_iff_getElem?.1 (hs.cover k (List.getElem?_eq_some_iff.1 hk).1)
    have := runS hg sem sched hs hnd sched [] env (by simp) (by intro _ _ _ _ _ h; simp at h)
    exact this k o t' hk hj (List.getElem?_eq_some_iff.1 ht').1 ht'

/-- the op equations of an accepted program have at most one solution (outside the scratch slots) -/
theorem solves_unique {p : MapIn} (hg : Good p) (sem : OpRow → List α → α) (env v1 v2 : Nat → α)
    (h1 : Solves p sem env v1) (h2 : Solves p sem env v2) : ∀ x, p.isJunk x = false → v1 x = v2 x := by
  have key : ∀ L x, p.isJunk x = false → p.dfn x ≤ L → v1 x = v2 x := by
    intro L
    induction L with
    | zero =>
      intro x hj hd
      by_cases hw : ∃ o, o ∈ p.ops ∧ o.out = x
      · exfalso
        obtain ⟨o, ho, he⟩ := hw
        obtain ⟨k, hk⟩ := List.mem_iff_getElem?.1 ho
        obtain ⟨i, hi⟩ : ∃ i, i ∈ o.ins := ⟨o.i0, by simp [OpRow.ins]⟩
        have := (hg.opnd k o hk i hi).2
        have hd' := dfn_first hg hk (he ▸ hj)
        rw [he] at hd'; omega
      · have hw : ∀ o ∈ p.ops, o.out ≠ x := fun o ho e => hw ⟨o, ho, e⟩
        rw [h1.1 x hw, h2.1 x hw]
    | succ L ih =>
      intro x hj hd
      by_cases hw : ∃ o, o ∈ p.ops ∧ o.out = x
      · obtain ⟨o, ho, he⟩ := hw
        obtain ⟨k, hk⟩ := List.mem_iff_getElem?.1 ho
        have hjo : p.isJunk o.out = false := he ▸ hj
        have hd' := dfn_first hg hk hjo
        rw [← he, h1.2 o ho hjo, h2.2 o ho hjo]
        congr 1
        apply List.map_congr_left
        intro i hi
        obtain ⟨htr, hlt⟩ := hg.opnd k o hk i hi
        apply ih (p.src i) (hg.trNJ _ htr)
        rw [he] at hd'; omega
      · have hw : ∀ o ∈ p.ops, o.out ≠ x := fun o ho e => hw ⟨o, ho, e⟩
        rw [h1.1 x hw, h2.1 x hw]
  intro x hj
  exact key (p.dfn x) x hj (Nat.le_refl _)

/-- **the level partition is a valid parallel schedule, on memory**: with an accepted certificate, any two
duplicate-free schedules that respect the levels leave the same values in every observed memory region -/
theorem check_sound_any_order (p : MapIn) (hc : p.check = none) (R : RW α C) (sem : OpRow → List α → α)
    (s1 s2 : List Nat) (hs1 : Sched p s1) (hs2 : Sched p s2) (hn1 : s1.Nodup) (hn2 : s2.Nodup)
    (hfit : ∀ o ∈ p.ops, ∀ args m,
      R.rd (p.loc o.out) (p.cap o.out) (R.wr (p.loc o.out) (p.cap o.out) (sem o args) m) = sem o args)
    (m0 : Int → C) (env0 : Nat → α)
    (h0 : ∀ x ∈ p.tracked, (∀ o ∈ p.ops, o.out ≠ x) → rdS p R x m0 = env0 x) :
    ∀ j s, (j, s) ∈ p.ppoSrcs →
      rdS p R j (memRun p R sem (schedOps p s1) m0) = rdS p R j (memRun p R sem (schedOps p s2) m0) := by
  have hg := good_of_check p hc
  intro j s hjs
  rw [(check_sound_sched p hc R sem s1 hs1 hfit m0 env0 h0).2 j s hjs,
      (check_sound_sched p hc R sem s2 hs2 hfit m0 env0 h0).2 j s hjs]
  exact solves_unique hg sem env0 _ _ (sched_solves hg sem s1 hs1 hn1 env0) (sched_solves hg sem s2 hs2 hn2 env0) s
    (hg.trNJ s (hg.ppo j s hjs).2.2)

theorem nodupB_nodup : ∀ l : List Nat, Sig.nodupB l = true → l.Nodup
  | [], _ => List.nodup_nil
  | x :: r, h => by
    simp only [Sig.nodupB, Bool.and_eq_true, Bool.not_eq_true', List.contains_eq_mem, decide_eq_false_iff_not] at h
    exact List.nodup_cons.mpr ⟨h.1, nodupB_nodup r h.2⟩

theorem schedOKB_sound (p : MapIn) (sched : List Nat) (h : p.schedOKB sched = true) : Sched p sched ∧ sched.Nodup := by
  simp only [schedOKB, Bool.and_eq_true, List.all_eq_true, decide_eq_true_eq, Bool.or_eq_true,
    Bool.not_eq_true', decide_eq_false_iff_not] at h
  obtain ⟨⟨⟨h1, h2⟩, h3⟩, h4⟩ := h
  refine ⟨⟨?_, ?_, ?_⟩, nodupB_nodup _ h3⟩
  · intro t k ht; exact h1 k (List.mem_of_getElem? ht)
  · intro k hk
    have := h2 k (by simpa using hk)
    simpa using this
  · intro t1 t2 k1 k2 hle a b
    have := h4 (k1, t1) (List.mem_zipIdx_iff_getElem?.2 a) (k2, t2) (List.mem_zipIdx_iff_getElem?.2 b)
    rcases this with h | h
    · exact absurd hle h
    · exact h

/-! ### the reading used by LogicSim: one memory row per signal -/
/-- one row per signal (`c_caps = 1`, any positive capacity: the value sits in the first row); a region of
capacity 0 holds nothing -/
def rowRW (α : Type) [Inhabited α] : RW α α where
  rd l c m := if 0 < c then m l else default
  wr l c v m := fun a => if a = l ∧ 0 < c then v else m a
  wr_frame := by
    intro l c v m a h
    have : ¬ (a = l ∧ 0 < c) := by intro ⟨e, hc⟩; apply h; omega
    simp [this]
  rd_dep := by
    intro l c m m' h
    by_cases hc : 0 < c
    · simp only [hc, if_true]; exact h l (Int.le_refl _) (by omega)
    · simp [hc]

theorem rowRW_fit {α : Type} [Inhabited α] (l : Int) (c : Nat) (hc : 0 < c) (v : α) (m : Int → α) :
    (rowRW α).rd l c ((rowRW α).wr l c v m) = v := by
  simp [rowRW, hc]

/-- the op row as a signal-level op: operands resolved to the signals they denote -/
def sigOp (p : MapIn) (o : OpRow) : Sig.Op := ⟨o.lut, o.out, o.ins.map p.src⟩

theorem sigRun_eq_exec (p : MapIn) (f : Nat → List α → α) (ops : List OpRow) (env : Nat → α) :
    sigRun p (fun o => f o.lut) ops env = Sig.exec f (ops.map (sigOp p)) env := by
  induction ops generalizing env with
  | nil => rfl
  | cons o ops ih =>
    simp only [sigRun, List.foldl_cons, List.map_cons, Sig.exec] at ih ⊢
    have : sigStep p (fun o => f o.lut) env o = Sig.execOp f env (sigOp p o) := by
      funext j
      simp [sigStep, Sig.execOp, Sig.upd, sigOp, List.map_map, Function.comp_def]
    rw [this]; exact ih _

/-- **LogicSim reading**: with an accepted certificate and `c_caps_min > 0`, the memory row of every output slot holds,
after the real op rows have run on memory in program order, the value that signal-level execution of the same rows
(operands resolved to stems) computes for the captured signal -/
theorem check_sound_rows [Inhabited α] (p : MapIn) (hc : p.check = none) (hpos : 0 < p.capsMin)
    (f : Nat → List α → α) (m0 : Int → α) (env0 : Nat → α)
    (h0 : ∀ x ∈ p.tracked, (∀ o ∈ p.ops, o.out ≠ x) → m0 (p.loc x) = env0 x) :
    ∀ j s, (j, s) ∈ p.ppoSrcs →
      memRun p (rowRW α) (fun o => f o.lut) p.ops m0 (p.loc j) = Sig.exec f (p.ops.map (sigOp p)) env0 s := by
  have hg := good_of_check p hc
  have hfit : ∀ o ∈ p.ops, ∀ (args : List α) (m : Int → α),
      (rowRW α).rd (p.loc o.out) (p.cap o.out) ((rowRW α).wr (p.loc o.out) (p.cap o.out) ((fun o => f o.lut) o args) m)
        = (fun o => f o.lut) o args := by
    intro o ho args m
    by_cases hc0 : 0 < p.cap o.out
    · exact rowRW_fit _ _ hc0 _ _
    · -- capacity 0 can only belong to a scratch slot here; then nothing is written and nothing is read back
      exfalso
      obtain ⟨k, hk⟩ := List.mem_iff_getElem?.1 ho
      by_cases hj : p.isJunk o.out = true
      · unfold check checkW at hc
        dsimp only at hc
        obtain ⟨h1, _⟩ := ite_none hc
        rw [Bool.not_eq_false', Bool.and_eq_true] at h1
        have h1 := h1.2
        simp only [List.all_cons, List.all_nil, Bool.and_true, Bool.and_eq_true, inBounds, decide_eq_true_eq] at h1
        simp only [isJunk, Bool.or_eq_true, beq_iff_eq] at hj
        rcases hj with e | e <;> rw [e] at hc0 <;> omega
      · have := hg.inb o.out (mem_tracked_of_out p hk (by simpa using hj))
        omega
  have hrd : ∀ x ∈ p.tracked, ∀ m : Int → α, rdS p (rowRW α) x m = m (p.loc x) := by
    intro x hx m
    have := hg.inb x hx
    simp [rdS, rowRW, show 0 < p.cap x by omega]
  have h := (check_sound p hc (rowRW α) (fun o => f o.lut) hfit m0 env0
    (fun x hx hn => by rw [hrd x hx]; exact h0 x hx hn)).2
  intro j s hjs
  have hj := h j s hjs
  obtain ⟨hl, hcp, htr⟩ := hg.ppo j s hjs
  rw [← sigRun_eq_exec, ← hj]
  have : rdS p (rowRW α) j (memRun p (rowRW α) (fun o => f o.lut) p.ops m0)
       = rdS p (rowRW α) s (memRun p (rowRW α) (fun o => f o.lut) p.ops m0) := by unfold rdS; rw [hl, hcp]
  rw [this, hrd s htr, hl]

end KV.MapSound
