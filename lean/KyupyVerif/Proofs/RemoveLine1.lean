import KyupyVerif.Proofs.Embed
import KyupyVerif.Proofs.SubstStruct3
/-! Helper lemmas for C10 (removal of dangling logic), part 1: `renumberDpins` and `detachDriver` through accessors. -/
namespace KV.Transform
open KV

/-- the entries of a pin list are pairwise different lines -/
def PinNodup (l : List (Option Nat)) : Prop := ∀ k1 k2 x, l.getD k1 none = some x → l.getD k2 none = some x → k1 = k2

theorem pinNodup_tail {o : Option Nat} {l : List (Option Nat)} (h : PinNodup (o :: l)) : PinNodup l := by
  intro k1 k2 x h1 h2
  have := h (k1 + 1) (k2 + 1) x (by simpa using h1) (by simpa using h2)
  omega

theorem lineA_modify_dpin (ls : Array LineD) (x0 y c : Nat) :
    lineA (ls.modify x0 fun ln => { ln with dpin := c }) y =
      if y = x0 ∧ x0 < ls.size then { lineA ls y with dpin := c } else lineA ls y := by
  simp only [lineA, Array.getD_eq_getD_getElem?, Array.getElem?_modify]
  by_cases e : x0 = y
  · subst e
    by_cases hk : x0 < ls.size
    · simp [hk, Array.getElem?_eq_getElem hk]
    · simp [hk, Array.getElem?_eq_none (by omega : ls.size ≤ x0)]
  · have : ¬ y = x0 := fun x => e x.symm
    simp [e, this]

-- `renumberDpins_size` (the line table keeps its size) is in Proofs/Substitute.lean

/-- only `dpin` changes -/
theorem renumberDpins_fields : ∀ (outs : List (Option Nat)) (ls : Array LineD) (k0 y : Nat),
    (lineA (renumberDpins ls outs k0) y).driver = (lineA ls y).driver ∧
    (lineA (renumberDpins ls outs k0) y).reader = (lineA ls y).reader ∧
    (lineA (renumberDpins ls outs k0) y).rpin = (lineA ls y).rpin
  | [], _, _, _ => ⟨rfl, rfl, rfl⟩
  | none :: rest, ls, k0, y => by simp only [renumberDpins]; exact renumberDpins_fields rest ls _ y
  | some x :: rest, ls, k0, y => by
    simp only [renumberDpins]
    have ih := renumberDpins_fields rest (ls.modify x fun ln => { ln with dpin := k0 }) (k0 + 1) y
    rw [lineA_modify_dpin] at ih
    split at ih <;> exact ih

/-- a line that is not in the list keeps its `dpin` -/
theorem renumberDpins_other : ∀ (outs : List (Option Nat)) (ls : Array LineD) (k0 y : Nat),
    (∀ k, outs.getD k none ≠ some y) → lineA (renumberDpins ls outs k0) y = lineA ls y
  | [], _, _, _, _ => rfl
  | none :: rest, ls, k0, y, h => by
    simp only [renumberDpins]
    exact renumberDpins_other rest ls _ y (fun k => by simpa using h (k + 1))
  | some x :: rest, ls, k0, y, h => by
    simp only [renumberDpins]
    rw [renumberDpins_other rest _ _ y (fun k => by simpa using h (k + 1)), lineA_modify_dpin]
    have : ¬ y = x := fun e => h 0 (by simp [e])
    simp [this]

/-- the line at position `k` gets `dpin = k0 + k` -/
theorem renumberDpins_at : ∀ (outs : List (Option Nat)) (ls : Array LineD) (k0 k y : Nat), PinNodup outs →
    outs.getD k none = some y → y < ls.size → (lineA (renumberDpins ls outs k0) y).dpin = k0 + k
  | [], _, _, k, y, _, h, _ => by simp at h
  | none :: rest, ls, k0, k, y, hn, h, hy => by
    simp only [renumberDpins]
    cases k with
    | zero => simp at h
    | succ k =>
      have := renumberDpins_at rest ls (k0 + 1) k y (pinNodup_tail hn) (by simpa using h) hy
      omega
  | some x :: rest, ls, k0, k, y, hn, h, hy => by
    simp only [renumberDpins]
    cases k with
    | zero =>
      have e : x = y := by simpa using h
      subst e
      rw [renumberDpins_other rest _ _ x (fun k hk => by
        have := hn 0 (k + 1) x (by simp) (by simpa using hk); omega), lineA_modify_dpin]
      simp [hy]
    | succ k =>
      have := renumberDpins_at rest (ls.modify x fun ln => { ln with dpin := k0 }) (k0 + 1) k y (pinNodup_tail hn)
        (by simpa using h) (by simpa using hy)
      omega

end KV.Transform
