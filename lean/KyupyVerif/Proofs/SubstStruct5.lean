import KyupyVerif.Proofs.SubstStruct4
/-! Helper lemmas for C10 (`substitute_sem`), structural part 5: the certificate `SubstCert` for the circuit that
`substituteCore` builds when a designated cell exists, it is not a port and no connected input is ignored
(outputs may be unconnected: this is the circuit before dangling logic is removed) — in particular this circuit is well-formed. -/
namespace KV.Transform
open KV

theorem mem_zip_padTo {as : List Nat} {l : List (Option Nat)} {n a ll : Nat} (hm : (a, some ll) ∈ as.zip (padTo l n)) :
    ∃ k, as[k]? = some a ∧ l.getD k none = some ll := by
  obtain ⟨k, hk⟩ := List.mem_iff_getElem?.mp hm
  obtain ⟨h1, h2⟩ := List.getElem?_zip_eq_some.mp hk
  refine ⟨k, h1, ?_⟩
  simp only [padTo] at h2
  by_cases hlt : k < l.length
  · rw [List.getElem?_append_left hlt] at h2
    simp [List.getD_eq_getElem?_getD, h2]
  · rw [List.getElem?_append_right (by omega)] at h2
    simp only [List.getElem?_replicate] at h2
    split at h2
    · exact absurd h2 (by simp)
    · exact absurd h2 (by simp)

/-- the own nodes: the cell and everything behind the host's nodes -/
def ownN (h : NNet) (c : Nat) (x : Nat) : Prop := x = c ∨ h.net.nodes.size ≤ x

/-- the certificate for the phases of `substituteCore`, run with the cell kept as the copy of node `dn` of the implementation
    (the designated cell; or, for an implementation without designated cell, the *virtual* run with `dn` = the number of nodes
    of the implementation: the cell stays in the circuit as an isolated node of kind `""`) -/
theorem substituteCore_certP (h : NNet) (c : Nat) (m : NNet) (sh : Shape) (dn : Nat)
    (hw : WFr h) (mw : WF m) (hc : c < h.net.nodes.size) (hio : c ∉ h.net.io) (hcf : (h.net.node c).isFork = false)
    (hs : implShape m = some sh) (hd : dn < m.net.nodes.size → sh.des = some dn) (hdnf : (m.net.node dn).isFork = false)
    (hdn : dn ∉ m.net.io) (hnd : m.net.io.Nodup) (hps : ∀ p ∈ m.net.io, isSeqKind (m.net.node p).kind = false)
    (hpf : ∀ p ∈ m.net.io, 0 < (m.net.node p).ins.length → 0 < (m.net.node p).outs.length → (m.net.node p).isFork = true)
    (hni : NoIgnored m (sh.inPorts.zip (padTo (h.net.node c).ins sh.inPorts.length)))
    (h5 : NNet) (map : Array (Option Nat)) (dang : List (Option Nat))
    (h2 : NNet) (net4 net5 : Net) (ren : Option Nat → Option Nat)
    (hil : (h.net.node c).ins.length ≤ sh.inPorts.length) (hol : (h.net.node c).outs.length ≤ sh.outLines.length)
    (hfold : (List.range m.net.nodes.size).foldlM (addImplNode m (h.names.getD c "") (some dn)) (phase1 h c m (some dn)) = some (h2, map))
    (hci : connectIns m map (sh.inPorts.zip (padTo (h.net.node c).ins sh.inPorts.length)) (phase3 m map h2, id) = some (net4, ren))
    (hco : connectOuts m map (sh.outLines.zip ((padTo (h.net.node c).outs sh.outLines.length).map ren)) (net4, []) = some (net5, dang))
    (e : h5 = { h2 with net := net5 }) :
    SubstCert h c m sh dn map h5 ∧
    (∀ x, x < h5.net.nodes.size → ownN h c x → noTrail (h5.net.node x).ins = true ∧ noTrail (h5.net.node x).outs = true) := by
  have iv : NodeInv h c m dn (h.names.getD c "") (List.range m.net.nodes.size) (h2, map) := by
    have := nodeInv_foldlM hdn (List.range m.net.nodes.size) [] _ (h2, map) (fun j hj => List.mem_range.mp hj)
      (nodeInv_phase1 h c m dn (h.names.getD c "") hw hc (by rw [hdnf, hcf])) hfold
    simpa using this
  -- frame and wiring (as in `substituteCore_wire`), keeping the facts about the lines
  have f1 := frame_phase1 h c m dn ((h.net.node c).ins.filterMap id) ((h.net.node c).outs.filterMap id)
  have f2 := frame_foldlM m _ (some dn) _ _ _ hfold f1.1 f1.2
  have f3 : FrameA h c ((h.net.node c).ins.filterMap id) ((h.net.node c).outs.filterMap id)
      (phase3 m map h2).nodes (phase3 m map h2).lines := frameA_foldl map f2.2 _ _ f2.1
  have hI : ∀ x ∈ (h.net.node c).ins.filterMap id, x < h.net.lines.size := by
    intro x hx
    obtain ⟨k, hk⟩ := (mem_filterMap_id _ x).mp hx
    exact (hw.fwdIn c hc k x hk).1
  have hO : ∀ x ∈ (h.net.node c).outs.filterMap id, x < h.net.lines.size := by
    intro x hx
    obtain ⟨k, hk⟩ := (mem_filterMap_id _ x).mp hx
    exact (hw.fwdOut c hc k x hk).1
  have ndI : ((h.net.node c).ins.filterMap id).Nodup := by
    apply nodup_filterMap_id
    intro k1 k2 x h1 h2
    have e1 := (hw.fwdIn c hc k1 x (by simp [List.getD_eq_getElem?_getD, h1])).2.2
    have e2 := (hw.fwdIn c hc k2 x (by simp [List.getD_eq_getElem?_getD, h2])).2.2
    rw [← e1, ← e2]
  have ndO : ((h.net.node c).outs.filterMap id).Nodup := by
    apply nodup_filterMap_id
    intro k1 k2 x h1 h2
    have e1 := (hw.fwdOut c hc k1 x (by simp [List.getD_eq_getElem?_getD, h1])).2.2
    have e2 := (hw.fwdOut c hc k2 x (by simp [List.getD_eq_getElem?_getD, h2])).2.2
    rw [← e1, ← e2]
  have sI : (sh.inPorts.zip (padTo (h.net.node c).ins sh.inPorts.length)).filterMap (·.2) = (h.net.node c).ins.filterMap id := by
    rw [zip_snd_filterMap _ _ (by rw [padTo_length _ _ hil]; exact Nat.le_refl _), padTo_filterMap]
  have wi := connectIns_wire (h := h) (c := c) (I := (h.net.node c).ins.filterMap id) (O := (h.net.node c).outs.filterMap id)
    m map f2.2 _ (phase3 m map h2) (net4, ren) hci hni (by rw [sI]; exact ndI)
    (by rw [sI]; intro x hx; exact ⟨Nat.lt_of_lt_of_le (hI x hx) f3.lsize, hx⟩) f3
  have hren : ren = id := wi.1
  subst hren
  have sO : (sh.outLines.zip ((padTo (h.net.node c).outs sh.outLines.length).map id)).filterMap (·.2) =
      (h.net.node c).outs.filterMap id := by
    rw [List.map_id, zip_snd_filterMap _ _ (by rw [padTo_length _ _ hol]; exact Nat.le_refl _), padTo_filterMap]
  have hsz4 : net4.lines.size = (phase3 m map h2).lines.size := wi.2.1
  have wo := connectOuts_wire (h := h) (c := c) (I := (h.net.node c).ins.filterMap id) (O := (h.net.node c).outs.filterMap id)
    m map f2.2 _ (net4, []) (net5, dang) hco (by rw [sO]; exact ndO)
    (by rw [sO]; intro x hx
        exact ⟨by show x < net4.lines.size; rw [hsz4]; exact Nat.lt_of_lt_of_le (hO x hx) f3.lsize, hx⟩) wi.2.2.1
  have hsz5 : net5.lines.size = (phase3 m map h2).lines.size := wo.1.trans hsz4
  have hL3 : (phase3 m map h2).lines.size = h.net.lines.size + (copiedLines m map).length := by
    rw [phase3_lines, iv.lines]; simp
  have hline5 : ∀ l, h5.net.line l = lineA net5.lines l := by subst e; intro l; rfl
  have hnode5 : ∀ x, h5.net.node x = nodeA net5.nodes x := by subst e; intro x; rfl
  -- the copied lines are not touched by the connecting loops
  have hnew : ∀ l, h.net.lines.size ≤ l → l < (phase3 m map h2).lines.size → lineA net5.lines l = lineA (phase3 m map h2).lines l := by
    intro l h1 h2'
    have n1 : l ∉ (sh.outLines.zip ((padTo (h.net.node c).outs sh.outLines.length).map id)).filterMap (·.2) := by
      rw [sO]; intro hx; have := hO l hx; omega
    have n2 : l ∉ (sh.inPorts.zip (padTo (h.net.node c).ins sh.inPorts.length)).filterMap (·.2) := by
      rw [sI]; intro hx; have := hI l hx; omega
    rw [wo.2.2.2.1 l (by show l < net4.lines.size; rw [hsz4]; exact h2') n1, wi.2.2.2.1 l h2' n2]
  have po : PinsOnly h2.net h5.net := by
    subst e
    exact (pinsOnly_phase3 m map h2).trans ((pinsOnly_connectIns m map _ _ _ hci).trans (pinsOnly_connectOuts m map _ _ _ hco))
  have hN5 : h5.net.nodes.size = h2.net.nodes.size := po.1.1
  have hnames5 : h5.names = h2.names := by subst e; rfl
  have hwire := substituteCore_wireP h c m sh hw hc dn hni h5 map dang h2 net4 net5 id hil hol hfold hci hco e
  obtain ⟨fr, hmge, win, wout⟩ := hwire
  have hkind5 : ∀ x, (h5.net.node x).kind = (h2.net.node x).kind := fun x => po.1.2 x
  -- the certificate without well-formedness
  have pre : SubstPre h c m sh dn map h5 := by
    refine
      { hwf := hw, mwf := mw, hc := hc, hio := hio, shape := hs, des := hd, dnNotPort := hdn, ioNodup := hnd,
        portNotSeq := hps, portFork := hpf, insLen := hil, noIgn := ?_,
        nsize := by rw [hN5]; exact iv.nsize, frameNode := fr.node, io' := po.2.trans iv.io, keyFrame := ?_,
        mapM := ?_, mapGe := hmge, mapLt := by rw [hN5]; exact iv.mapLt, mapInj := iv.mapInj, mapDom := ?_,
        mapDn := iv.mapDn, kind' := ?_, lsize := by subst e; exact hsz5.trans hL3,
        drvFrame := ?_, rdrFrame := ?_, inWire := win, outWire := wout, newLine := ?_ }
    · intro k ll inn hk hinn
      have hmem : (inn, some ll) ∈ sh.inPorts.zip (padTo (h.net.node c).ins sh.inPorts.length) :=
        mem_zip_of_getElem? hinn (padTo_getElem? _ _ k ll hk)
      have := hni (inn, some ll) hmem rfl
      simpa using this
    · intro d hd'
      show (h5.names.getD d "", (h5.net.node d).isFork) = (h.names.getD d "", (h.net.node d).isFork)
      rw [hnames5, iv.nameHost d hd']
      by_cases e1 : d = c
      · subst e1
        have : (h5.net.node d).isFork = (m.net.node dn).isFork := by
          have := hkind5 d
          rw [iv.cell] at this
          simp [NodeD.isFork, this]
        rw [this, hdnf, hcf]
      · have : h5.net.node d = h.net.node d := fr.node d hd' e1
        rw [this]
    · intro j x hx
      apply Classical.byContradiction; intro hge
      have : map.getD j none = none := by
        simp only [Array.getD_eq_getD_getElem?]
        rw [Array.getElem?_eq_none (by rw [iv.msize]; omega)]; rfl
      rw [this] at hx; exact absurd hx (by simp)
    · intro j hj
      rw [iv.mapDom j]
      simp only [List.mem_range, hj, true_and]
      unfold addedOne
      dsimp only
      by_cases hjio : j ∈ m.net.io
      · have hc1 : m.net.io.contains j = true := by simpa using hjio
        have hne : j ≠ dn := fun e => hdn (e ▸ hjio)
        simp only [hc1, Bool.not_true, Bool.false_eq_true, if_false, hne, false_and, false_or, hjio, not_true_eq_false]
        by_cases c1 : (m.net.node j).outs.length > 0 && (m.net.node j).ins.length > 0
        · simp only [c1, if_true, Option.isSome_some, true_iff]
          simp only [Bool.and_eq_true, decide_eq_true_eq] at c1
          exact Or.inl ⟨c1.2, c1.1⟩
        · simp only [c1, Bool.false_eq_true, if_false]
          simp only [Bool.and_eq_true, decide_eq_true_eq, not_and] at c1
          by_cases c2 : ((m.net.node j).ins.length == 0 && (m.net.node j).outs.length > 1) = true
          · simp only [c2, if_true, Option.isSome_some, true_iff]
            simp only [Bool.and_eq_true, beq_iff_eq, decide_eq_true_eq] at c2
            exact Or.inr c2
          · simp only [c2, Bool.false_eq_true, if_false, Option.isSome_none, false_iff, not_or]
            simp only [Bool.and_eq_true, beq_iff_eq, decide_eq_true_eq] at c2
            exact ⟨fun hh => c1 hh.2 hh.1, c2⟩
      · have hc1 : m.net.io.contains j = false := by simpa using hjio
        simp only [hc1, Bool.not_false, if_true, hjio, not_false_eq_true, true_or, iff_true]
        by_cases e1 : j = dn
        · exact Or.inl ⟨e1, e1 ▸ hj⟩
        · right
          have : (some dn != some j) = true := by simp [bne, Ne.symm e1]
          simp [this]
    · intro j x hx
      by_cases e1 : j = dn
      · subst e1
        have hjm : j < m.net.nodes.size := by
          apply Classical.byContradiction; intro hge
          have : map.getD j none = none := by
            simp only [Array.getD_eq_getD_getElem?]
            rw [Array.getElem?_eq_none (by rw [iv.msize]; omega)]; rfl
          rw [this] at hx; exact absurd hx (by simp)
        have : x = c := by rw [iv.mapDn hjm] at hx; exact (Option.some.inj hx).symm
        subst this
        rw [hkind5, iv.cell, if_neg hdn]
      · obtain ⟨kn, ha, hk⟩ := iv.kind j x hx e1
        rw [hkind5, hk]
        unfold addedOne at ha
        dsimp only at ha
        by_cases hjio : j ∈ m.net.io
        · have hc1 : m.net.io.contains j = true := by simpa using hjio
          rw [if_pos hjio]
          simp only [hc1, Bool.not_true, Bool.false_eq_true, if_false] at ha
          split at ha
          · cases ha; rfl
          · split at ha
            · cases ha; rfl
            · exact absurd ha (by simp)
        · have hc1 : m.net.io.contains j = false := by simpa using hjio
          rw [if_neg hjio]
          simp only [hc1, Bool.not_false, if_true] at ha
          split at ha
          · cases ha; rfl
          · exact absurd ha (by simp)
    · intro l hl hne
      apply fr.drv l hl
      intro hmem
      obtain ⟨k, hk⟩ := (mem_filterMap_id _ l).mp hmem
      exact hne (hw.fwdOut c hc k l hk).2.1
    · intro l hl hne
      apply fr.rdr l hl
      intro hmem
      obtain ⟨k, hk⟩ := (mem_filterMap_id _ l).mp hmem
      exact hne (hw.fwdIn c hc k l hk).2.1
    · intro t ht
      rw [hline5, hnew _ (by omega) (by rw [hL3]; omega), phase3_lines, iv.lines]
      simp [lineA, Array.getD_eq_getD_getElem?, Array.getElem?_append, ht]
  -- the pin lists of the cell and of the new nodes, through the three loops
  have htR : ∀ l, tRof net5.lines l = ((h5.net.line l).reader, (h5.net.line l).rpin) := by intro l; rw [hline5]; rfl
  have htD : ∀ l, tDof net5.lines l = ((h5.net.line l).driver, (h5.net.line l).dpin) := by intro l; rw [hline5]; rfl
  have hL5 : h5.net.lines.size = (phase3 m map h2).lines.size := by subst e; exact hsz5
  have hUR : ∀ l1 l2, ((h.net.lines.size ≤ l1 ∧ l1 < h5.net.lines.size) ∨ ∃ k, instIn h c k = some l1) →
      ((h.net.lines.size ≤ l2 ∧ l2 < h5.net.lines.size) ∨ ∃ k, instIn h c k = some l2) →
      tRof net5.lines l1 = tRof net5.lines l2 → l1 = l2 := by
    intro l1 l2 h1 h2' e12
    rw [htR, htR] at e12
    exact pre.uniqR l1 l2 h1 h2' (Prod.mk.inj e12).1 (Prod.mk.inj e12).2
  have hUD : ∀ l1 l2, ((h.net.lines.size ≤ l1 ∧ l1 < h5.net.lines.size) ∨ ∃ k, instOut h c k = some l1) →
      ((h.net.lines.size ≤ l2 ∧ l2 < h5.net.lines.size) ∨ ∃ k, instOut h c k = some l2) →
      tDof net5.lines l1 = tDof net5.lines l2 → l1 = l2 := by
    intro l1 l2 h1 h2' e12
    rw [htD, htD] at e12
    exact pre.uniqD l1 l2 h1 h2' (Prod.mk.inj e12).1 (Prod.mk.inj e12).2
  have hh2l : h2.net.lines.size = h.net.lines.size := by rw [iv.lines]
  have op0 : OwnPins (ownN h c) h2.net.nodes (fun l => h.net.lines.size ≤ l ∧ l < h2.net.lines.size)
      (fun l => h.net.lines.size ≤ l ∧ l < h2.net.lines.size) (tRof net5.lines) (tDof net5.lines) := by
    have hempty : ∀ x, ownN h c x → (nodeA h2.net.nodes x).ins = [] ∧ (nodeA h2.net.nodes x).outs = [] := by
      intro x hx
      show (h2.net.node x).ins = [] ∧ (h2.net.node x).outs = []
      rcases hx with hx | hx
      · subst hx; rw [iv.cell]; exact ⟨rfl, rfl⟩
      · exact iv.blank x hx
    refine ⟨?_, ?_, ?_⟩
    · intro x k l hx
      rw [(hempty x hx).1, hh2l]
      constructor
      · intro hh; simp at hh
      · rintro ⟨hh, _⟩; omega
    · intro x k l hx
      rw [(hempty x hx).2, hh2l]
      constructor
      · intro hh; simp at hh
      · rintro ⟨hh, _⟩; omega
    · intro x hx
      rw [(hempty x hx).1, (hempty x hx).2]; exact ⟨rfl, rfl⟩
  have op3 := phase3_own (ownN h c) map net5.lines h.net.lines.size h2.net.nodes.size h5.net.lines.size iv.mapLt
    (fun l1 l2 a1 a2 b1 b2 => hUR l1 l2 (Or.inl ⟨a1, b1⟩) (Or.inl ⟨a2, b2⟩))
    (fun l1 l2 a1 a2 b1 b2 => hUD l1 l2 (Or.inl ⟨a1, b1⟩) (Or.inl ⟨a2, b2⟩))
    m.net.lines.toList (h2.net.nodes, h2.net.lines) ((phase3 m map h2).nodes, (phase3 m map h2).lines) rfl rfl
    (by rw [hh2l]; exact Nat.le_refl _) (by rw [hL5]; exact Nat.le_refl _)
    (fun l a b => hnew l (by rw [← hh2l]; exact a) b) op0
  have hmemI : ∀ x, x ∈ (sh.inPorts.zip (padTo (h.net.node c).ins sh.inPorts.length)).filterMap (·.2) ↔ ∃ k, instIn h c k = some x := by
    intro x; rw [sI]; exact mem_filterMap_id _ x
  have hmemO : ∀ x, x ∈ (sh.outLines.zip ((padTo (h.net.node c).outs sh.outLines.length).map id)).filterMap (·.2) ↔
      ∃ k, instOut h c k = some x := by
    intro x; rw [sO]; exact mem_filterMap_id _ x
  have op4 := connectIns_own (ownN h c) m map (tRof net5.lines) (tDof net5.lines) h2.net.nodes.size _ (phase3 m map h2) (net4, id)
    (fun l => h.net.lines.size ≤ l ∧ l < (phase3 m map h2).lines.size) (fun l => h.net.lines.size ≤ l ∧ l < (phase3 m map h2).lines.size)
    hci hni op3.2
    (by
      intro inn ll r rp hmem htg
      obtain ⟨k, hk1, hk2⟩ := mem_zip_padTo hmem
      obtain ⟨inn', r', rp', hinn', htg', e1, e2⟩ := pre.inWire k ll hk2
      have : inn' = inn := by rw [hk1] at hinn'; exact (Option.some.inj hinn').symm
      subst this
      rw [htg] at htg'
      obtain ⟨er, ep⟩ := Prod.mk.inj (Option.some.inj htg')
      obtain ⟨k', hk'⟩ := inTarget_map htg
      exact ⟨by rw [htR, e1, e2, er, ep], iv.mapLt k' r hk'⟩)
    (by
      intro l1 l2 h1 h2' e12
      apply hUR l1 l2 _ _ e12
      · rcases h1 with h1 | h1
        · exact Or.inl ⟨h1.1, by rw [hL5]; exact h1.2⟩
        · exact Or.inr ((hmemI l1).mp h1)
      · rcases h2' with h1 | h1
        · exact Or.inl ⟨h1.1, by rw [hL5]; exact h1.2⟩
        · exact Or.inr ((hmemI l2).mp h1))
    (by rw [sI]; exact ndI)
    (by intro ll hll hc'; rw [sI] at hll; have := hI ll hll; omega)
    op3.1
  have op5 := connectOuts_own (ownN h c) m map (tRof net5.lines) (tDof net5.lines) h2.net.nodes.size _ (net4, []) (net5, dang)
    (fun x => (h.net.lines.size ≤ x ∧ x < (phase3 m map h2).lines.size) ∨
      x ∈ (sh.inPorts.zip (padTo (h.net.node c).ins sh.inPorts.length)).filterMap (·.2))
    (fun l => h.net.lines.size ≤ l ∧ l < (phase3 m map h2).lines.size)
    hco op4.2
    (by
      intro il ll d dp hmem htg
      rw [List.map_id] at hmem
      obtain ⟨k, hk1, hk2⟩ := mem_zip_padTo hmem
      obtain ⟨il', d', dp', hil', htg', e1, e2⟩ := pre.outWire k ll hk2
      have : il' = il := by rw [hk1] at hil'; exact (Option.some.inj hil').symm
      subst this
      rw [htg] at htg'
      obtain ⟨er, ep⟩ := Prod.mk.inj (Option.some.inj htg')
      obtain ⟨k', hk'⟩ := outTarget_map htg
      exact ⟨by rw [htD, e1, e2, er, ep], iv.mapLt k' d hk'⟩)
    (by
      intro l1 l2 h1 h2' e12
      apply hUD l1 l2 _ _ e12
      · rcases h1 with h1 | h1
        · exact Or.inl ⟨h1.1, by rw [hL5]; exact h1.2⟩
        · exact Or.inr ((hmemO l1).mp h1)
      · rcases h2' with h1 | h1
        · exact Or.inl ⟨h1.1, by rw [hL5]; exact h1.2⟩
        · exact Or.inr ((hmemO l2).mp h1))
    (by rw [sO]; exact ndO)
    (by intro ll hll hc'; rw [sO] at hll; have := hO ll hll; omega)
    op4.1
  have opF : OwnPins (ownN h c) net5.nodes
      (fun l => (h.net.lines.size ≤ l ∧ l < h5.net.lines.size) ∨ ∃ k, instIn h c k = some l)
      (fun l => (h.net.lines.size ≤ l ∧ l < h5.net.lines.size) ∨ ∃ k, instOut h c k = some l)
      (tRof net5.lines) (tDof net5.lines) :=
    op5.1.congr (fun l => by rw [hmemI l, hL5]) (fun l => by rw [hmemO l, hL5])
  -- the lines written to own pins end at own nodes
  have hsplit : ∀ l, h.net.lines.size ≤ l → l < h5.net.lines.size →
      ∃ t, ∃ _ : t < (copiedLines m map).length, l = h.net.lines.size + t := by
    intro l hl1 hl2
    rw [pre.lsize] at hl2
    exact ⟨l - h.net.lines.size, by omega, by omega⟩
  have hwrittenR : ∀ l x, l < h5.net.lines.size →
      ((h.net.lines.size ≤ l ∧ l < h5.net.lines.size) ∨ ∃ k, instIn h c k = some l) →
      (h5.net.line l).reader = x → ownN h c x → x < h5.net.nodes.size →
      (h5.net.line l).reader < h5.net.nodes.size ∧
      (h5.net.node (h5.net.line l).reader).ins.getD (h5.net.line l).rpin none = some l := by
    intro l x _ hW hx hown hlt
    refine ⟨by rw [hx]; exact hlt, ?_⟩
    rw [hnode5, hx]
    exact (opF.ins x _ l hown).mpr ⟨hW, by rw [htR, hx]⟩
  -- reader side: every line ends at a node; the copied lines and the host lines that point back in the host point back
  have hrdrLt : ∀ l, l < h5.net.lines.size → (h5.net.line l).reader < h5.net.nodes.size := by
    intro l hl
    by_cases hlt : l < h.net.lines.size
    · by_cases hin : ∃ k, instIn h c k = some l
      · obtain ⟨k, hin⟩ := hin
        obtain ⟨inn, r, rp, _, htg, e1, _⟩ := pre.inWire _ l hin
        obtain ⟨k', hk'⟩ := inTarget_map htg
        exact (hwrittenR l r hl (Or.inr ⟨_, hin⟩) e1 (pre.mapGe k' r hk') (pre.mapLt k' r hk')).1
      · have hni' : l ∉ (h.net.node c).ins.filterMap id := fun hm => hin ((mem_filterMap_id _ l).mp hm)
        have hr : (h5.net.line l).reader = (h.net.line l).reader := (fr.rdr l hlt hni').1
        rw [hr]
        exact Nat.lt_of_lt_of_le (hw.back l hlt).2.1 pre.nsize
    · obtain ⟨t, ht, e'⟩ := hsplit l (by omega) hl
      obtain ⟨_, xd, xr, _, h2r, hline⟩ := pre.new_fields t ht
      exact (hwrittenR l xr hl (Or.inl ⟨by omega, hl⟩) (by rw [e', hline]) (pre.mapGe _ xr h2r) (pre.mapLt _ xr h2r)).1
  have hbackR : ∀ l, l < h5.net.lines.size → (h.net.lines.size ≤ l ∨ PtsBack h l) → PtsBack h5 l := by
    intro l hl hpb
    show (h5.net.node (h5.net.line l).reader).ins.getD (h5.net.line l).rpin none = some l
    by_cases hlt : l < h.net.lines.size
    · have hpb : (h.net.node (h.net.line l).reader).ins.getD (h.net.line l).rpin none = some l := by
        rcases hpb with hpb | hpb
        · omega
        · exact hpb
      by_cases hrc : (h.net.line l).reader = c
      · have hin : instIn h c (h.net.line l).rpin = some l := by
          rw [hrc] at hpb; exact hpb
        obtain ⟨inn, r, rp, _, htg, e1, _⟩ := pre.inWire _ l hin
        obtain ⟨k', hk'⟩ := inTarget_map htg
        exact (hwrittenR l r hl (Or.inr ⟨_, hin⟩) e1 (pre.mapGe k' r hk') (pre.mapLt k' r hk')).2
      · obtain ⟨f1, f2⟩ := pre.rdrFrame l hlt hrc
        have b2 := (hw.back l hlt).2.1
        rw [f1, f2, pre.frameNode _ b2 hrc]
        exact hpb
    · obtain ⟨t, ht, e'⟩ := hsplit l (by omega) hl
      obtain ⟨_, xd, xr, _, h2r, hline⟩ := pre.new_fields t ht
      exact (hwrittenR l xr hl (Or.inl ⟨by omega, hl⟩) (by rw [e', hline]) (pre.mapGe _ xr h2r) (pre.mapLt _ xr h2r)).2
  have hbackD : ∀ l, l < h5.net.lines.size → (h5.net.line l).driver < h5.net.nodes.size ∧
      (h5.net.node (h5.net.line l).driver).outs.getD (h5.net.line l).dpin none = some l := by
    intro l hl
    have hwritten : ∀ x, ((h.net.lines.size ≤ l ∧ l < h5.net.lines.size) ∨ ∃ k, instOut h c k = some l) →
        (h5.net.line l).driver = x → ownN h c x → x < h5.net.nodes.size →
        (h5.net.line l).driver < h5.net.nodes.size ∧
        (h5.net.node (h5.net.line l).driver).outs.getD (h5.net.line l).dpin none = some l := by
      intro x hW hx hown hlt
      refine ⟨by rw [hx]; exact hlt, ?_⟩
      rw [hnode5, hx]
      exact (opF.outs x _ l hown).mpr ⟨hW, by rw [htD, hx]⟩
    by_cases hlt : l < h.net.lines.size
    · by_cases hrc : (h.net.line l).driver = c
      · have hout : instOut h c (h.net.line l).dpin = some l := by
          have := (hw.back l hlt).2.2
          rw [hrc] at this; exact this
        obtain ⟨il, d, dp, _, htg, e1, _⟩ := pre.outWire _ l hout
        obtain ⟨k', hk'⟩ := outTarget_map htg
        exact hwritten d (Or.inr ⟨_, hout⟩) e1 (pre.mapGe k' d hk') (pre.mapLt k' d hk')
      · obtain ⟨f1, f2⟩ := pre.drvFrame l hlt hrc
        obtain ⟨b1, _, b3⟩ := hw.back l hlt
        rw [f1, f2, pre.frameNode _ b1 hrc]
        exact ⟨Nat.lt_of_lt_of_le b1 pre.nsize, b3⟩
    · obtain ⟨t, ht, e'⟩ := hsplit l (by omega) hl
      obtain ⟨_, xd, xr, h2d, _, hline⟩ := pre.new_fields t ht
      exact hwritten xd (Or.inl ⟨by omega, hl⟩) (by rw [e', hline]) (pre.mapGe _ xd h2d) (pre.mapLt _ xd h2d)
  have hownOr : ∀ x, x < h5.net.nodes.size → ownN h c x ∨ (x < h.net.nodes.size ∧ x ≠ c) := by
    intro x _
    by_cases h1 : x = c
    · exact Or.inl (Or.inl h1)
    · by_cases h2' : x < h.net.nodes.size
      · exact Or.inr ⟨h2', h1⟩
      · exact Or.inl (Or.inr (by omega))
  have wf5 : WFr h5 := by
    refine ⟨by rw [hnames5, hN5]; exact iv.names, ?_, ?_, ?_, ?_, ?_⟩
    · rw [keys_eq, (obs_of_pinsOnly h2 h5 po hnames5).1, ← keys_eq]; exact iv.nodup
    · intro i hi
      rw [pre.io'] at hi
      exact Nat.lt_of_lt_of_le (hw.io i hi) pre.nsize
    · intro l hl
      exact ⟨(hbackD l hl).1, hrdrLt l hl, (hbackD l hl).2⟩
    · intro x hx k l hp
      rcases hownOr x hx with hown | ⟨h1, h2'⟩
      · rw [hnode5] at hp
        obtain ⟨hW, ht⟩ := (opF.ins x k l hown).mp hp
        rw [htR] at ht
        obtain ⟨e1, e2⟩ := Prod.mk.inj ht
        refine ⟨?_, e1, e2⟩
        rcases hW with hW | ⟨k0, hk0⟩
        · exact hW.2
        · have := (hw.fwdIn c hc k0 l hk0).1
          rw [pre.lsize]; omega
      · rw [pre.frameNode x h1 h2'] at hp
        obtain ⟨a1, a2, a3⟩ := hw.fwdIn x h1 k l hp
        obtain ⟨f1, f2⟩ := pre.rdrFrame l a1 (by rw [a2]; exact h2')
        exact ⟨by rw [pre.lsize]; omega, f1.trans a2, f2.trans a3⟩
    · intro x hx k l hp
      rcases hownOr x hx with hown | ⟨h1, h2'⟩
      · rw [hnode5] at hp
        obtain ⟨hW, ht⟩ := (opF.outs x k l hown).mp hp
        rw [htD] at ht
        obtain ⟨e1, e2⟩ := Prod.mk.inj ht
        refine ⟨?_, e1, e2⟩
        rcases hW with hW | ⟨k0, hk0⟩
        · exact hW.2
        · have := (hw.fwdOut c hc k0 l hk0).1
          rw [pre.lsize]; omega
      · rw [pre.frameNode x h1 h2'] at hp
        obtain ⟨a1, a2, a3⟩ := hw.fwdOut x h1 k l hp
        obtain ⟨f1, f2⟩ := pre.drvFrame l a1 (by rw [a2]; exact h2')
        exact ⟨by rw [pre.lsize]; omega, f1.trans a2, f2.trans a3⟩
  refine ⟨⟨pre, wf5, hbackR, ?_⟩, ?_⟩
  · intro x k l hown hp hlt
    rw [hnode5] at hp
    rcases ((opF.ins x k l hown).mp hp).1 with hW | hW
    · omega
    · exact hW
  · intro x _ hown
    rw [hnode5]; exact opF.trail x hown

theorem substituteCore_certR (h : NNet) (c : Nat) (m : NNet) (sh : Shape) (dn : Nat)
    (hw : WFr h) (mw : WF m) (hc : c < h.net.nodes.size) (hio : c ∉ h.net.io) (hcf : (h.net.node c).isFork = false)
    (hs : implShape m = some sh) (hd : sh.des = some dn)
    (hdn : dn ∉ m.net.io) (hnd : m.net.io.Nodup) (hps : ∀ p ∈ m.net.io, isSeqKind (m.net.node p).kind = false)
    (hpf : ∀ p ∈ m.net.io, 0 < (m.net.node p).ins.length → 0 < (m.net.node p).outs.length → (m.net.node p).isFork = true)
    (hni : NoIgnored m (sh.inPorts.zip (padTo (h.net.node c).ins sh.inPorts.length)))
    (h5 : NNet) (map : Array (Option Nat)) (dang : List (Option Nat)) (he : substituteCore h c m = some (h5, map, dang)) :
    SubstCert h c m sh dn map h5 ∧
    (∀ x, x < h5.net.nodes.size → ownN h c x → noTrail (h5.net.node x).ins = true ∧ noTrail (h5.net.node x).outs = true) := by
  obtain ⟨h2, net4, ren, net5, hil, hol, hfold, hci, hco, e⟩ := substituteCore_inv h c m sh hs h5 map dang he
  obtain ⟨_, hdnf⟩ := implShape_des m mw sh dn hs hd
  rw [hd] at hfold
  exact substituteCore_certP h c m sh dn hw mw hc hio hcf hs (fun _ => hd) (hdnf hdn) hdn hnd hps hpf hni h5 map dang h2 net4 net5 ren
    hil hol hfold hci hco e

/-- the circuit `substituteCore` builds from a well-formed host is well-formed -/
theorem substituteCore_cert (h : NNet) (c : Nat) (m : NNet) (sh : Shape) (dn : Nat)
    (hw : WF h) (mw : WF m) (hc : c < h.net.nodes.size) (hio : c ∉ h.net.io) (hcf : (h.net.node c).isFork = false)
    (hs : implShape m = some sh) (hd : sh.des = some dn)
    (hdn : dn ∉ m.net.io) (hnd : m.net.io.Nodup) (hps : ∀ p ∈ m.net.io, isSeqKind (m.net.node p).kind = false)
    (hpf : ∀ p ∈ m.net.io, 0 < (m.net.node p).ins.length → 0 < (m.net.node p).outs.length → (m.net.node p).isFork = true)
    (hni : NoIgnored m (sh.inPorts.zip (padTo (h.net.node c).ins sh.inPorts.length)))
    (h5 : NNet) (map : Array (Option Nat)) (dang : List (Option Nat)) (he : substituteCore h c m = some (h5, map, dang)) :
    SubstCert h c m sh dn map h5 ∧ WF h5 := by
  obtain ⟨ct, htr⟩ := substituteCore_certR h c m sh dn hw.toWFr mw hc hio hcf hs hd hdn hnd hps hpf hni h5 map dang he
  refine ⟨ct, ct.wf'.names, ct.wf'.nodup, ct.wf'.io, fun l hl => ?_, ct.wf'.fwdIn, ct.wf'.fwdOut, fun x hx => ?_⟩
  · obtain ⟨b1, b2, b3⟩ := ct.wf'.back l hl
    refine ⟨b1, b2, b3, ct.backR l hl ?_⟩
    by_cases hlt : l < h.net.lines.size
    · exact Or.inr (hw.ptsBack l hlt)
    · exact Or.inl (by omega)
  · by_cases hown : ownN h c x
    · exact htr x hx hown
    · have h1 : x < h.net.nodes.size := by
        apply Classical.byContradiction; intro hn
        exact hown (Or.inr (by omega))
      have h2 : x ≠ c := fun e => hown (Or.inl e)
      rw [ct.frameNode x h1 h2]; exact hw.trail x h1

end KV.Transform
