import KyupyVerif.Proofs.AllCircMem
/-! Concrete netlists for the non-vacuity examples of the `…_all_circuits` theorems (C02, C05, C16): the two-input AND with
an inverter of `C01.demoNet` / `C08.demoNet`, and the netlist with a two-branch fork and a chained fork of `C06.forkNet`
(copies, so that the property files need not import each other). All domain hypotheses hold (kernel-evaluated). -/
namespace KV.Demo
open KV KV.Sig

/-- input cells, forks, `AND2`, `INV1`, output cell (`C01.demoNet`) -/
def demoNet : Net :=
  { nodes := #[⟨"input", [], [some 0]⟩, ⟨"__fork__", [some 0], [some 2]⟩, ⟨"input", [], [some 1]⟩, ⟨"__fork__", [some 1], [some 3]⟩,
               ⟨"AND2", [some 2, some 3], [some 4]⟩, ⟨"INV1", [some 4], [some 5]⟩, ⟨"output", [some 5], []⟩],
    lines := #[⟨0, 0, 1, 0⟩, ⟨2, 0, 3, 0⟩, ⟨1, 0, 4, 0⟩, ⟨3, 0, 4, 1⟩, ⟨4, 0, 5, 0⟩, ⟨5, 0, 6, 0⟩],
    io := [0, 2, 6] }
def demoOrder : List Nat := [0, 2, 1, 3, 4, 5, 6]

theorem demo_hyps : demoNet.wfB = true ∧ orderOKB demoNet demoOrder = true ∧ forksOKB demoNet demoOrder = true ∧
    readsDrivenB Gen.kindPrefixes demoNet demoOrder = true := by decide +kernel

/-- its program: zero slot 6, scratch 7, input slots 9 and 10, output slot 14 -/
theorem demo_ops : genOps Gen.kindPrefixes demoNet demoOrder false =
    [⟨43690, 0, 9, 6, 6, 6⟩, ⟨43690, 1, 10, 6, 6, 6⟩, ⟨43690, 2, 0, 6, 6, 6⟩, ⟨43690, 3, 1, 6, 6, 6⟩,
     ⟨34952, 4, 2, 3, 6, 6⟩, ⟨21845, 5, 4, 6, 6, 6⟩] ∧ demoNet.idx.ppo = 12 ∧
    demoNet.sNodes.zipIdx = [(0, 0), (2, 1), (6, 2)] := by decide +kernel

/-- `a` (node 0) drives line 0, fork 1 has branches 1 and 2; branch 2 is read by the chained fork 2 with branch 3; `b` (node 3)
    drives line 4, fork 4 has branch 5; `6 = AND2(1, 5)`, `7 = OR2(3, 6)`, fork 7 with branch 8 feeds the output (`C06.forkNet`) -/
def forkNet : Net :=
  { nodes := #[⟨"input", [], [some 0]⟩, ⟨"__fork__", [some 0], [some 1, some 2]⟩, ⟨"__fork__", [some 2], [some 3]⟩,
               ⟨"input", [], [some 4]⟩, ⟨"__fork__", [some 4], [some 5]⟩, ⟨"AND2", [some 1, some 5], [some 6]⟩,
               ⟨"OR2", [some 3, some 6], [some 7]⟩, ⟨"__fork__", [some 7], [some 8]⟩, ⟨"output", [some 8], []⟩],
    lines := #[⟨0, 0, 1, 0⟩, ⟨1, 0, 5, 0⟩, ⟨1, 1, 2, 0⟩, ⟨2, 0, 6, 0⟩, ⟨3, 0, 4, 0⟩, ⟨4, 0, 5, 1⟩, ⟨5, 0, 6, 1⟩,
               ⟨6, 0, 7, 0⟩, ⟨7, 0, 8, 0⟩],
    io := [0, 3, 8] }
def forkOrder : List Nat := [0, 3, 1, 4, 2, 5, 6, 7, 8]

theorem fork_hyps : forkNet.wfB = true ∧ orderOKB forkNet forkOrder = true ∧ forksOKB forkNet forkOrder = true ∧
    readsDrivenB Gen.kindPrefixes forkNet forkOrder = true := by decide +kernel

/-- its two schedules (zero slot 9, scratch 10, input slots 12 and 13, output slot 17): the stripped one has no fork rows -/
theorem fork_ops : genOps Gen.kindPrefixes forkNet forkOrder false =
    [⟨0xAAAA, 0, 12, 9, 9, 9⟩, ⟨0xAAAA, 4, 13, 9, 9, 9⟩, ⟨0xAAAA, 1, 0, 9, 9, 9⟩, ⟨0xAAAA, 2, 0, 9, 9, 9⟩,
     ⟨0xAAAA, 5, 4, 9, 9, 9⟩, ⟨0xAAAA, 3, 2, 9, 9, 9⟩, ⟨0x8888, 6, 1, 5, 9, 9⟩, ⟨0xEEEE, 7, 3, 6, 9, 9⟩,
     ⟨0xAAAA, 8, 7, 9, 9, 9⟩] ∧
    genOps Gen.kindPrefixes forkNet forkOrder true =
    [⟨0xAAAA, 0, 12, 9, 9, 9⟩, ⟨0xAAAA, 4, 13, 9, 9, 9⟩, ⟨0x8888, 6, 1, 5, 9, 9⟩, ⟨0xEEEE, 7, 3, 6, 9, 9⟩] ∧
    forkNet.idx.ppo = 15 ∧ forkNet.sNodes.zipIdx = [(0, 0), (3, 1), (8, 2)] := by decide +kernel

end KV.Demo
