import KyupyVerif.Proofs.BenchSem
import KyupyVerif.Proofs.CircOuts
/-! The forks of the bench circuit: pairwise different names (`bench_forks_nodup`), every fork is a port or a signal of a gate
statement (`bench_fork_names`), `forks[name]` of a fork node is the node itself (`nodeIdx_fork_unique`). -/
namespace KV.Netlist
open KV

def forkNames (C : Circ) : List String := (C.nodes.filter fun x => x.kind == forkKind).map (·.name)

theorem isFork_eq_contains (C : Circ) (n : String) : C.isFork n = (forkNames C).contains n := by
  unfold Circ.isFork forkNames
  rw [Bool.eq_iff_iff]
  simp only [List.any_eq_true, Bool.and_eq_true, beq_iff_eq, List.contains_eq_mem, decide_eq_true_eq, List.mem_map, List.mem_filter]
  constructor
  · rintro ⟨x, hx, hk, hn⟩; exact ⟨x, ⟨hx, hk⟩, hn⟩
  · rintro ⟨x, ⟨hx, hk⟩, hn⟩; exact ⟨x, hx, hk, hn⟩

theorem forkNames_getOrAddFork (C : Circ) (n : String) :
    forkNames (getOrAddFork C n) = if C.isFork n then forkNames C else forkNames C ++ [n] := by
  unfold getOrAddFork
  split
  · rfl
  · simp [forkNames, Circ.addFork, List.filter_append]

theorem forkNames_addCell (C : Circ) (k n : String) (hk : k ≠ forkKind) : forkNames (C.addCell k n) = forkNames C := by
  have : (k == forkKind) = false := by simp [hk]
  simp [forkNames, Circ.addCell, List.filter_append, this]

/-- invariant of the construction: fork names pairwise different, all among the names `S` seen so far -/
def FInv (S : List String) (C : Circ) : Prop := (forkNames C).Nodup ∧ ∀ x ∈ forkNames C, x ∈ S

theorem finv_getOrAddFork (S : List String) (C : Circ) (n : String) (h : FInv S C) (hn : n ∈ S) : FInv S (getOrAddFork C n) := by
  rw [FInv, forkNames_getOrAddFork]
  by_cases hf : C.isFork n = true
  · simp only [hf, if_true]; exact h
  · simp only [hf, Bool.false_eq_true, if_false]
    refine ⟨?_, ?_⟩
    · rw [List.nodup_append]
      refine ⟨h.1, by simp, ?_⟩
      intro a ha b hb hab
      simp only [List.mem_singleton] at hb
      subst hb; subst hab
      apply hf
      rw [isFork_eq_contains]
      simpa using ha
    · intro x hx
      rcases List.mem_append.mp hx with hx | hx
      · exact h.2 x hx
      · simp only [List.mem_singleton] at hx; subst hx; exact hn

theorem finv_foldl_getOrAddFork (S : List String) (l : List String) (C : Circ) (h : FInv S C) (hl : ∀ n ∈ l, n ∈ S) :
    FInv S (l.foldl getOrAddFork C) := by
  induction l generalizing C with
  | nil => exact h
  | cons x xs ih =>
    exact ih _ (finv_getOrAddFork S C x h (hl x List.mem_cons_self)) (fun n hn => hl n (List.mem_cons_of_mem _ hn))

theorem finv_mono {S S' : List String} {C : Circ} (h : FInv S C) (hs : ∀ x ∈ S, x ∈ S') : FInv S' C :=
  ⟨h.1, fun x hx => hs x (h.2 x hx)⟩

theorem finv_of_nodes {S : List String} {C C' : Circ} (h : FInv S C) (hn : C'.nodes = C.nodes) : FInv S C' := by
  unfold FInv forkNames at *
  rw [hn]; exact h

theorem finv_benchStmt (S : List String) (C : Circ) (s : BStmt) (h : FInv S C) (hs : ∀ x ∈ portsOf s ++ sigsOf s, x ∈ S)
    (hk : ∀ g, gateOf s = some g → g.kind ≠ forkKind) : FInv S (benchStmt C s) := by
  cases s with
  | intf ns =>
    have := finv_foldl_getOrAddFork S ns C h (fun n hn => hs n (by simp [portsOf, hn]))
    exact finv_of_nodes this rfl
  | gate n k d =>
    have hk' : k ≠ forkKind := hk ⟨n, k, d⟩ rfl
    have h1 := finv_foldl_getOrAddFork S d C h (fun x hx => hs x (by simp [sigsOf, hx]))
    have h2 : FInv S ((d.foldl getOrAddFork C).addCell k n) := by
      unfold FInv
      rw [forkNames_addCell _ _ _ hk']
      exact h1
    have h3 := finv_getOrAddFork S _ n h2 (hs n (by simp [sigsOf]))
    exact finv_of_nodes h3 rfl

theorem finv_foldl_bench : ∀ (stmts pre : List BStmt) (C : Circ), FInv (benchPorts (pre ++ stmts) ++ benchSigs (pre ++ stmts)) C →
    ((benchGates stmts).all fun g => g.kind != forkKind) = true →
    FInv (benchPorts (pre ++ stmts) ++ benchSigs (pre ++ stmts)) (stmts.foldl benchStmt C)
  | [], _, _, h, _ => h
  | s :: r, pre, C, h, hk => by
    simp only [List.foldl_cons]
    have e : pre ++ s :: r = (pre ++ [s]) ++ r := by simp
    have hkr : ((benchGates r).all fun g => g.kind != forkKind) = true := by
      rw [List.all_eq_true] at hk ⊢
      intro g hg
      apply hk g
      unfold benchGates at hg ⊢
      rw [List.filterMap_cons]
      split
      · exact hg
      · exact List.mem_cons_of_mem _ hg
    have hstep : FInv (benchPorts (pre ++ s :: r) ++ benchSigs (pre ++ s :: r)) (benchStmt C s) := by
      apply finv_benchStmt _ C s h
      · intro x hx
        unfold benchPorts benchSigs
        simp only [List.flatMap_append, List.flatMap_cons, List.mem_append] at hx ⊢
        rcases hx with hx | hx
        · exact Or.inl (Or.inr (Or.inl hx))
        · exact Or.inr (Or.inr (Or.inl hx))
      · intro g hg
        have := List.all_eq_true.mp hk g (by unfold benchGates; simp [List.filterMap_cons, hg])
        simpa using this
    rw [e] at hstep ⊢
    exact finv_foldl_bench r (pre ++ [s]) _ hstep hkr

theorem finv_bench (stmts : List BStmt) (hk : ((benchGates stmts).all fun g => g.kind != forkKind) = true) :
    FInv (benchPorts stmts ++ benchSigs stmts) (bench stmts) := by
  have := finv_foldl_bench stmts [] {} ⟨by simp [forkNames], by simp [forkNames]⟩ hk
  simpa [bench] using this

/-- with pairwise different fork names, `forks[name]` of a fork node is the node itself -/
theorem nodeIdx_fork_unique (C : Circ) (hnd : (forkNames C).Nodup) (i : Nat) (x : NodeM) (hi : C.nodes[i]? = some x)
    (hx : x.kind = forkKind) : C.nodeIdx (.fork x.name) = i := by
  have hlt : i < C.nodes.length := (List.getElem?_eq_some_iff.mp hi).1
  have hxi : C.nodes[i] = x := (List.getElem?_eq_some_iff.mp hi).2
  unfold Circ.nodeIdx
  rw [List.findIdx_eq hlt]
  refine ⟨by simp [hxi, hx], ?_⟩
  intro j hji
  have hjl : j < C.nodes.length := by omega
  cases hq : (C.nodes[j].kind == forkKind && C.nodes[j].name == x.name) with
  | false => rfl
  | true =>
    exfalso
    simp only [Bool.and_eq_true, beq_iff_eq] at hq
    have := nodup_filter_map_index (fun y : NodeM => y.kind == forkKind) (·.name) C.nodes hnd j i C.nodes[j] x
      (List.getElem?_eq_getElem hjl) hi (by simp [hq.1]) (by simp [hx]) hq.2
    omega

end KV.Netlist
