import KyupyVerif.Proofs.RemoveLine5
import KyupyVerif.Proofs.SubstituteWire2
/-! Helper lemmas for C10 (removal of dangling logic), part 6: one step of `remove_dangling_nodes` — the lines at the input
pins of a node without connected outputs are removed one after the other (the pending references being renamed by the
deletions), then the node itself — keeps the circuit well-formed and embeds the result into the circuit before. -/
namespace KV.Transform
open KV

theorem EmbX.strengthen {a b : NNet} {r : Ren} {X : Nat → Prop} (h : EmbX a b r X) (hX : ∀ j, j < b.net.nodes.size → ¬ X j) :
    Emb a b r :=
  { h with pins := fun j hj _ k => h.pins j hj (hX j hj) k }

/-- state of the loop `for l in lines: l.remove()` for the node `x`: `cur` = circuit, `rem` = lines still to remove (as
    indices of the circuit `nn` at the start), `ren` = renaming of the pending references, `r` = index maps so far -/
structure RLInv (nn : NNet) (x : Nat) (cur : Net) (rem : List Nat) (ren : Option Nat → Option Nat) (r : Ren) : Prop where
  wfm : WFm { nn with net := cur }
  emb : EmbX nn { nn with net := cur } r (fun j => j = x)
  xlt : x < cur.nodes.size
  xio : x ∉ cur.io
  pend : ∀ l0 ∈ rem, ∃ l', ren (some l0) = some l' ∧ l' < cur.lines.size ∧ r.line l' = l0 ∧ (cur.line l').reader = x
  nodup : rem.Nodup
  xins : ∀ k l', (cur.node x).ins.getD k none = some l' → r.line l' ∈ rem
  xouts : ∀ k, (cur.node x).outs.getD k none = none
  rnode : ∀ j, r.node j = j
  lsurj : ∀ l, l < nn.net.lines.size → (nn.net.line l).reader ≠ x → ∃ l', l' < cur.lines.size ∧ r.line l' = l
  remx : ∀ l0 ∈ rem, (nn.net.line l0).reader = x

theorem removeLines_inv (nn : NNet) (x : Nat) : ∀ (rem : List Nat) (cur : Net) (ren : Option Nat → Option Nat) (r : Ren)
    (net' : Net), RLInv nn x cur rem ren r → removeLines ren rem cur = some net' →
    ∃ ren' r', RLInv nn x net' [] ren' r'
  | [], cur, ren, r, net', iv, he => by
    simp only [removeLines] at he
    cases he
    exact ⟨ren, r, iv⟩
  | l0 :: rest, cur, ren, r, net', iv, he => by
    obtain ⟨l', hren, hl', hrl, hrd⟩ := iv.pend l0 List.mem_cons_self
    have hnd := List.nodup_cons.mp iv.nodup
    unfold removeLines at he
    rw [hren] at he
    dsimp only at he
    split at he
    · exact absurd he (by simp)
    · rename_i cur' hrm
      have sp := removeLine_spec { nn with net := cur } iv.wfm l' hl' cur' hrm
      have hL : cur.lines.size - 1 + 1 = cur.lines.size := by omega
      have w' : WFm { nn with net := cur' } := rl_wfm iv.wfm hl' sp
      have e' := rl_emb iv.wfm hl' sp
      obtain ⟨bd, br, bo, bi⟩ := iv.wfm.back l' hl'
      have hrd' : ({ nn with net := cur } : NNet).net.line l' = cur.line l' := rfl
      have hxd : (cur.line l').driver ≠ x := by
        intro e0
        have : (cur.node x).outs.getD (cur.line l').dpin none = some l' := by rw [← e0]; exact bo
        rw [iv.xouts] at this; exact absurd this (by simp)
      refine removeLines_inv nn x rest cur' _ (r.comp (lineRen cur.lines.size l')) net' ?_ he
      refine ⟨w', ?_, by rw [sp.nsize]; exact iv.xlt, by rw [sp.io]; exact iv.xio, ?_, hnd.2, ?_, ?_, fun j => iv.rnode j, ?_,
        fun l1 hl1 => iv.remx l1 (List.mem_cons_of_mem _ hl1)⟩
      · refine (iv.emb.trans e').weaken ?_
        intro j _ hj
        rcases hj with hj | hj
        · rw [hj]; exact hrd
        · exact hj
      · intro l1 hl1
        obtain ⟨l1', hren1, hl1', hrl1, hrd1⟩ := iv.pend l1 (List.mem_cons_of_mem _ hl1)
        have hne : l1' ≠ l' := by
          intro e0; subst e0
          rw [hrl] at hrl1
          exact hnd.1 (hrl1 ▸ hl1)
        obtain ⟨m1, m2⟩ := mv_facts hl' hl1' hne
        refine ⟨mvN cur.lines.size l' l1', ?_, by rw [sp.lsize]; exact m1, ?_, ?_⟩
        · show mvLine cur.lines.size l' (ren (some l1)) = _
          rw [hren1]
          simp only [mvLine, mvN, beq_iff_eq, Option.some.injEq]
          split <;> rfl
        · show r.line (nmN cur.lines.size l' (mvN cur.lines.size l' l1')) = l1
          rw [m2]; exact hrl1
        · rw [(sp.line _ m1).2.1, m2]; exact hrd1
      · intro k l'' hp
        have hp' := hp
        rw [sp.inPin] at hp'
        split at hp'
        · exact absurd hp' (by simp)
        · rename_i hcond
          obtain ⟨y0, hy0, e0⟩ := mvL_eq_some hp'
          rw [hL] at e0
          obtain ⟨a1, a2, a3⟩ := iv.wfm.fwdIn x iv.xlt k y0 hy0
          have hne : y0 ≠ l' := by
            intro e1; subst e1
            exact hcond ⟨hrd.symm, a3.symm⟩
          obtain ⟨m1, m2⟩ := mv_facts hl' a1 hne
          have hmem := iv.xins k y0 hy0
          show r.line (nmN cur.lines.size l' l'') ∈ rest
          rw [e0, m2]
          rcases List.mem_cons.mp hmem with e1 | e1
          · exact absurd (iv.emb.lineInj y0 l' a1 hl' (e1.trans hrl.symm)) hne
          · exact e1
      · intro k
        rw [sp.outPin]
        have : ¬ x = (({ nn with net := cur } : NNet).net.line l').driver := fun e0 => hxd e0.symm
        rw [if_neg this]
        show mvL _ _ ((cur.node x).outs.getD k none) = none
        rw [iv.xouts]; rfl
      · intro l hl hne
        obtain ⟨l1, hl1, e1⟩ := iv.lsurj l hl hne
        have hne1 : l1 ≠ l' := by
          intro e0; subst e0
          rw [hrl] at e1
          exact hne (e1 ▸ (iv.remx l0 List.mem_cons_self))
        obtain ⟨m1, m2⟩ := mv_facts hl' hl1 hne1
        exact ⟨mvN cur.lines.size l' l1, by rw [sp.lsize]; exact m1, by
          show r.line (nmN cur.lines.size l' (mvN cur.lines.size l' l1)) = l
          rw [m2]; exact e1⟩

/-- **one node removed**: a node that is no port and has no connected output, with the lines at its input pins -/
theorem removeRoot_emb (nn : NNet) (w : WFm nn) (x : Nat) (hx : x < nn.net.nodes.size) (hio : x ∉ nn.net.io)
    (houts : ∀ k, (nn.net.node x).outs.getD k none = none) (net' : Net)
    (he : removeLines id ((nn.net.node x).ins.filterMap id) nn.net = some net') :
    WFm (delNode { nn with net := net' } x) ∧ ∃ r, Emb nn (delNode { nn with net := net' } x) r ∧
      (∀ j, j < nn.net.nodes.size → j ≠ x → ∃ j', j' < (delNode { nn with net := net' } x).net.nodes.size ∧ r.node j' = j) ∧
      (∀ l, l < nn.net.lines.size → (nn.net.line l).reader ≠ x →
        ∃ l', l' < (delNode { nn with net := net' } x).net.lines.size ∧ r.line l' = l) ∧
      (∀ j', r.node j' = nmN nn.net.nodes.size x j') := by
  have iv0 : RLInv nn x nn.net ((nn.net.node x).ins.filterMap id) id Ren.id := by
    refine ⟨w, (Emb.refl nn w.io (fun l hl => (w.back l hl).1)).weaken (fun _ _ h => absurd h id), hx, hio, ?_, ?_, ?_, houts,
      fun _ => rfl, fun l hl _ => ⟨l, hl, rfl⟩, fun l0 hl0 => by
        obtain ⟨k, hk⟩ := (mem_filterMap_id _ l0).mp hl0
        exact (w.fwdIn x hx k l0 hk).2.1⟩
    · intro l0 hl0
      obtain ⟨k, hk⟩ := (mem_filterMap_id _ l0).mp hl0
      obtain ⟨a1, a2, _⟩ := w.fwdIn x hx k l0 hk
      exact ⟨l0, rfl, a1, rfl, a2⟩
    · apply nodup_filterMap_id
      intro k1 k2 y h1 h2
      have e1 := (w.fwdIn x hx k1 y (by simp [List.getD_eq_getElem?_getD, h1])).2.2
      have e2 := (w.fwdIn x hx k2 y (by simp [List.getD_eq_getElem?_getD, h2])).2.2
      rw [← e1, ← e2]
    · intro k l' hp
      exact (mem_filterMap_id _ l').mpr ⟨k, hp⟩
  obtain ⟨ren', r', iv⟩ := removeLines_inv nn x _ nn.net id Ren.id net' iv0 he
  -- no line is attached to `x` any more
  have hd : ∀ l, l < net'.lines.size → (net'.line l).driver ≠ x ∧ (net'.line l).reader ≠ x := by
    intro l hl
    obtain ⟨_, _, bo, bi⟩ := iv.wfm.back l hl
    constructor
    · intro e0
      have : (net'.node x).outs.getD (net'.line l).dpin none = some l := by rw [← e0]; exact bo
      rw [iv.xouts] at this; exact absurd this (by simp)
    · intro e0
      have : (net'.node x).ins.getD (net'.line l).rpin none = some l := by rw [← e0]; exact bi
      have := iv.xins _ _ this
      simp at this
  have w2 := dn_wfm iv.wfm iv.xlt iv.xio hd
  have e2 := dn_emb iv.wfm iv.xlt iv.xio hd
  have hs := (delNode_sizes { nn with net := net' } x).1
  have hsz : net'.nodes.size = nn.net.nodes.size := by
    have := iv.emb.nodeLt
    exact (pinsOnly_removeLines _ _ _ _ he).1.1
  refine ⟨w2, _, (iv.emb.trans e2).strengthen ?_, ?_, fun l hl hne => by
    obtain ⟨l1, hl1, e1⟩ := iv.lsurj l hl hne
    exact ⟨l1, by rw [(delNode_sizes { nn with net := net' } x).2]; exact hl1, e1⟩, fun j' => by
    show r'.node (nmN net'.nodes.size x j') = _
    rw [iv.rnode, hsz]⟩
  · intro j hj hc
    rw [hs] at hj
    rcases hc with hc | hc
    · exact hc
    · exact (nm_facts iv.xlt hj).2.1 hc
  · intro j hj hne
    have hj' : j < net'.nodes.size := by rw [hsz]; exact hj
    obtain ⟨m1, m2⟩ := mv_facts iv.xlt hj' hne
    refine ⟨mvN net'.nodes.size x j, by rw [hs]; exact m1, ?_⟩
    show r'.node (nmN net'.nodes.size x (mvN net'.nodes.size x j)) = j
    rw [m2, iv.rnode]

end KV.Transform
