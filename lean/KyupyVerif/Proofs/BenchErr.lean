import KyupyVerif.Proofs.BenchLines
import KyupyVerif.Proofs.VerilogCirc
/-! `benchOKB` is exactly "the model does not set `err`" (the real `bench.parse` raises exactly when the model sets `err`:
correspondence): `bench_err`. -/
namespace KV.Netlist
open KV

theorem err_getOrAddFork (C : Circ) (n : String) : (getOrAddFork C n).err = C.err := by
  unfold getOrAddFork
  split
  · rfl
  · rename_i h
    simp [Circ.addFork, h]

theorem err_foldl_getOrAddFork (l : List String) (C : Circ) : (l.foldl getOrAddFork C).err = C.err := by
  induction l generalizing C with
  | nil => rfl
  | cons x xs ih => simp only [List.foldl_cons]; rw [ih, err_getOrAddFork]

theorem isCell_getOrAddFork (C : Circ) (n x : String) : (getOrAddFork C n).isCell x = C.isCell x := by
  unfold getOrAddFork
  split
  · rfl
  · simp [Circ.isCell, Circ.addFork, List.any_append]

theorem isCell_foldl_getOrAddFork (l : List String) (C : Circ) (x : String) : (l.foldl getOrAddFork C).isCell x = C.isCell x := by
  induction l generalizing C with
  | nil => rfl
  | cons y ys ih => simp only [List.foldl_cons]; rw [ih, isCell_getOrAddFork]

theorem err_benchStmt_gate (C : Circ) (n k : String) (d : List String) :
    (benchStmt C (.gate n k d)).err = (C.err || C.isCell n || k == forkKind) := by
  show (getOrAddFork ((d.foldl getOrAddFork C).addCell k n) n).err = _
  rw [err_getOrAddFork]
  show ((d.foldl getOrAddFork C).err || (d.foldl getOrAddFork C).isCell n || k == forkKind) = _
  rw [err_foldl_getOrAddFork, isCell_foldl_getOrAddFork]

theorem err_benchStmt_intf (C : Circ) (ns : List String) : (benchStmt C (.intf ns)).err = C.err := by
  show (ns.foldl getOrAddFork C).err = _
  exact err_foldl_getOrAddFork ns C

theorem isCell_benchStmt_intf (C : Circ) (ns : List String) (x : String) : (benchStmt C (.intf ns)).isCell x = C.isCell x := by
  show (ns.foldl getOrAddFork C).isCell x = _
  exact isCell_foldl_getOrAddFork ns C x

theorem isCell_benchStmt_gate (C : Circ) (n k : String) (d : List String) (hk : k ≠ forkKind) (x : String) :
    (benchStmt C (.gate n k d)).isCell x = (C.isCell x || x == n) := by
  show (getOrAddFork ((d.foldl getOrAddFork C).addCell k n) n).isCell x = _
  rw [isCell_getOrAddFork]
  have : (k != forkKind) = true := by simp [hk]
  unfold Circ.isCell Circ.addCell
  simp only [List.any_append, List.any_cons, List.any_nil, Bool.or_false, this, Bool.true_and]
  have h2 := isCell_foldl_getOrAddFork d C x
  unfold Circ.isCell at h2
  rw [h2]
  congr 1
  exact Bool.beq_comm

/-- gate statements accepted one after the other: fresh name, kind not `__fork__` -/
def okAcc (seen : List String) : List BStmt → Bool
  | [] => true
  | .intf _ :: r => okAcc seen r
  | .gate n k _ :: r => !seen.contains n && k != forkKind && okAcc (seen ++ [n]) r

theorem err_foldl_true (stmts : List BStmt) (C : Circ) (h : C.err = true) : (stmts.foldl benchStmt C).err = true := by
  induction stmts generalizing C with
  | nil => exact h
  | cons s r ih =>
    apply ih
    cases s with
    | intf ns => rw [err_benchStmt_intf]; exact h
    | gate n k d => rw [err_benchStmt_gate, h]; rfl

theorem err_foldl_bench (stmts : List BStmt) (seen : List String) (C : Circ) (hc : C.err = false) (hs : ∀ x, C.isCell x = seen.contains x) :
    (stmts.foldl benchStmt C).err = !okAcc seen stmts := by
  induction stmts generalizing seen C with
  | nil => simp [okAcc, hc]
  | cons s r ih =>
    cases s with
    | intf ns =>
      simp only [List.foldl_cons, okAcc]
      exact ih seen _ (by rw [err_benchStmt_intf]; exact hc) (fun x => by rw [isCell_benchStmt_intf]; exact hs x)
    | gate n k d =>
      simp only [List.foldl_cons, okAcc]
      have he := err_benchStmt_gate C n k d
      rw [hc, hs n, Bool.false_or] at he
      have hbne : (k != forkKind) = !(k == forkKind) := rfl
      rw [hbne]
      cases h1 : seen.contains n with
      | true =>
        rw [h1] at he
        rw [err_foldl_true r _ (by rw [he]; rfl)]
        rfl
      | false =>
        cases h2 : (k == forkKind) with
        | true =>
          rw [h1, h2] at he
          rw [err_foldl_true r _ (by rw [he]; rfl)]
          rfl
        | false =>
          rw [h1, h2] at he
          have hk : k ≠ forkKind := by simpa using h2
          rw [ih (seen ++ [n]) _ he (fun x => by
            rw [isCell_benchStmt_gate C n k d hk, hs x, contains_append_single])]
          rfl

theorem all_split (G : List BGate) (seen : List String) (n : String) :
    (G.all fun g => !(seen ++ [n]).contains g.name && g.kind != forkKind) =
      ((G.all fun g => !seen.contains g.name && g.kind != forkKind) && !(G.map (·.name)).contains n) := by
  induction G with
  | nil => rfl
  | cons g r ih =>
    rw [List.all_cons, ih, List.all_cons, List.map_cons, List.contains_cons, contains_append_single,
      Bool.beq_comm (a := n) (b := g.name)]
    generalize seen.contains g.name = a
    generalize (g.name == n) = b
    generalize (g.kind != forkKind) = c
    generalize (r.all fun g => !seen.contains g.name && g.kind != forkKind) = e
    generalize (r.map (·.name)).contains n = f
    cases a <;> cases b <;> cases c <;> cases e <;> cases f <;> rfl

theorem okAcc_eq (stmts : List BStmt) (seen : List String) :
    okAcc seen stmts = (((benchGates stmts).all fun g => !seen.contains g.name && g.kind != forkKind) && nodupS ((benchGates stmts).map (·.name))) := by
  induction stmts generalizing seen with
  | nil => rfl
  | cons s r ih =>
    cases s with
    | intf ns =>
      simp only [okAcc, benchGates, List.filterMap_cons, gateOf]
      exact ih seen
    | gate n k d =>
      simp only [okAcc, benchGates, List.filterMap_cons, gateOf, List.all_cons, List.map_cons, nodupS]
      rw [ih (seen ++ [n])]
      unfold benchGates
      rw [all_split]
      generalize seen.contains n = a
      generalize (k != forkKind) = c
      generalize ((r.filterMap gateOf).all fun g => !seen.contains g.name && g.kind != forkKind) = e
      generalize ((r.filterMap gateOf).map (·.name)).contains n = f
      generalize nodupS ((r.filterMap gateOf).map (·.name)) = g
      cases a <;> cases c <;> cases e <;> cases f <;> cases g <;> rfl

/-- the model sets `err` exactly when `benchOKB` fails -/
theorem bench_err (stmts : List BStmt) : (bench stmts).err = !benchOKB stmts := by
  unfold bench
  rw [err_foldl_bench stmts [] {} rfl (fun x => rfl), okAcc_eq]
  unfold benchOKB
  rw [Bool.and_comm]
  rfl

end KV.Netlist
