import KyupyVerif.Proofs.SubstGen5
/-! Helper lemmas for C10 (`substitute_sem_general`), part 6: `phase3` (the loop `for l in impl.lines: Line(...)`) as a fold over
`Net`, in lockstep; the loop over the implementation's nodes on the level of `Net`; the converse of `substituteCore_inv`. -/
namespace KV.Transform
open KV

theorem net_eq_of {a b : Net} (h1 : a.nodes = b.nodes) (h2 : a.lines = b.lines) (h3 : a.io = b.io) : a = b := by
  cases a; cases b; simp_all

/-- `addImplLine` on the level of `Net` -/
def addImplLineN (map : Array (Option Nat)) (net : Net) (ln : LineD) : Net :=
  match map.getD ln.driver none, map.getD ln.reader none with
  | some d, some r => addLineNet net d ln.dpin r ln.rpin
  | _, _ => net

theorem addImplLineN_io (map : Array (Option Nat)) (net : Net) (ln : LineD) : (addImplLineN map net ln).io = net.io := by
  unfold addImplLineN
  cases map.getD ln.driver none <;> cases map.getD ln.reader none <;> rfl

theorem addImplLine_eq_N (map : Array (Option Nat)) (net : Net) (ln : LineD) :
    addImplLine map (net.nodes, net.lines) ln = ((addImplLineN map net ln).nodes, (addImplLineN map net ln).lines) := by
  unfold addImplLine addImplLineN
  cases map.getD ln.driver none <;> cases map.getD ln.reader none <;> rfl

theorem foldl_addImplLine_N (map : Array (Option Nat)) : ∀ (lns : List LineD) (net : Net),
    ({ net with nodes := (lns.foldl (addImplLine map) (net.nodes, net.lines)).1,
                lines := (lns.foldl (addImplLine map) (net.nodes, net.lines)).2 } : Net) = lns.foldl (addImplLineN map) net
  | [], net => rfl
  | ln :: lns, net => by
    simp only [List.foldl_cons]
    rw [addImplLine_eq_N, ← foldl_addImplLine_N map lns (addImplLineN map net ln)]
    exact net_eq_of rfl rfl (addImplLineN_io map net ln).symm

theorem phase3_eq_foldl (m : NNet) (map : Array (Option Nat)) (h2 : NNet) :
    phase3 m map h2 = m.net.lines.toList.foldl (addImplLineN map) h2.net := foldl_addImplLine_N map _ h2.net

section loops
variable {Own : Nat → Prop} {π : Nat → Nat} (mapA mapB : Array (Option Nat))
variable (hmap : ∀ j, mapB.getD j none = (mapA.getD j none).map π)
include hmap

/-- the loop `for l in impl.lines: Line(...)` in lockstep (no line has been removed yet: the line map is the identity) -/
theorem lk_phase3 (N : Nat) (PI PO : Nat → Prop) (hmapLt : ∀ j x, mapA.getD j none = some x → x < N ∧ Own x) :
    ∀ (lns : List LineD) (a b : Net), Lk Own π id (fun _ => False) PI PO a b → a.lines.size = b.lines.size → a.nodes.size = N →
    (∀ l, b.lines.size ≤ l → ¬ PI l) →
    Lk Own π id (fun _ => False) PI PO (lns.foldl (addImplLineN mapA) a) (lns.foldl (addImplLineN mapB) b) ∧
    (lns.foldl (addImplLineN mapA) a).lines.size = (lns.foldl (addImplLineN mapB) b).lines.size ∧
    (lns.foldl (addImplLineN mapA) a).nodes.size = N ∧ b.lines.size ≤ (lns.foldl (addImplLineN mapB) b).lines.size ∧
    (lns.foldl (addImplLineN mapB) b).nodes.size = b.nodes.size
  | [], a, b, lk, hL, hN, _ => ⟨lk, hL, hN, Nat.le_refl _, rfl⟩
  | ln :: lns, a, b, lk, hL, hN, hPI => by
    simp only [List.foldl_cons]
    have key : Lk Own π id (fun _ => False) PI PO (addImplLineN mapA a ln) (addImplLineN mapB b ln) ∧
        (addImplLineN mapA a ln).lines.size = (addImplLineN mapB b ln).lines.size ∧ (addImplLineN mapA a ln).nodes.size = N ∧
        b.lines.size ≤ (addImplLineN mapB b ln).lines.size ∧ (addImplLineN mapB b ln).nodes.size = b.nodes.size := by
      unfold addImplLineN
      rw [hmap, hmap]
      cases hd : mapA.getD ln.driver none with
      | none => exact ⟨lk, hL, hN, Nat.le_refl _, rfl⟩
      | some d =>
        cases hr : mapA.getD ln.reader none with
        | none => exact ⟨lk, hL, hN, Nat.le_refl _, rfl⟩
        | some r =>
          obtain ⟨d1, d2⟩ := hmapLt _ d hd
          obtain ⟨r1, r2⟩ := hmapLt _ r hr
          simp only [Option.map_some]
          refine ⟨lk.stepAddLine d ln.dpin r ln.rpin (by rw [hN]; exact d1) (by rw [hN]; exact r1) d2 r2 hL (fun x => x)
            (hPI _ (Nat.le_refl _)), ?_, ?_, ?_, ?_⟩
          · rw [(addLineNet_sizes a _ _ _ _).2.1, (addLineNet_sizes b _ _ _ _).2.1, hL]
          · rw [(addLineNet_sizes a _ _ _ _).1]; exact hN
          · rw [(addLineNet_sizes b _ _ _ _).2.1]; omega
          · exact (addLineNet_sizes b _ _ _ _).1
    obtain ⟨k1, k2, k3, k4, k5⟩ := key
    obtain ⟨q1, q2, q3, q4, q5⟩ := lk_phase3 N PI PO hmapLt lns _ _ k1 k2 k3 (fun l hl => hPI l (by omega))
    exact ⟨q1, q2, q3, by omega, q5.trans k5⟩

end loops

/-- the loop over the implementation's nodes only appends nodes -/
theorem foldlM_addImplNode_net (m : NNet) (hn : String) (des : Option Nat) :
    ∀ (js : List Nat) (st st' : NNet × Array (Option Nat)), js.foldlM (addImplNode m hn des) st = some st' →
    ∃ kinds : List String, st'.1.net = kinds.foldl pushNode st.1.net
  | [], st, st', h => by
    simp only [List.foldlM_nil] at h
    cases (Option.some.inj h)
    exact ⟨[], rfl⟩
  | j :: js, st, st', h => by
    simp only [List.foldlM_cons, Option.bind_eq_bind, Option.bind_eq_some_iff] at h
    obtain ⟨s1, h1, h2⟩ := h
    obtain ⟨kinds, hk⟩ := foldlM_addImplNode_net m hn des js s1 st' h2
    rw [addImplNode_eq] at h1
    cases ha : addedOne m hn des j with
    | none =>
      rw [ha] at h1
      cases (Option.some.inj h1)
      exact ⟨kinds, hk⟩
    | some kn =>
      rw [ha] at h1
      simp only [Option.map_eq_some_iff] at h1
      obtain ⟨h', hadd, e⟩ := h1
      subst e
      obtain ⟨e1, e2, e3, _, _⟩ := addNode_spec st.1 h' kn.2 kn.1 hadd
      refine ⟨kn.1 :: kinds, ?_⟩
      rw [hk, List.foldl_cons]
      congr 1
      exact net_eq_of e1 e2 e3

/-- the same state in both runs: appending nodes keeps the relation -/
theorem lk_same_pushNodes {Own : Nat → Prop} {ψ : Nat → Nat} {G PI PO : Nat → Prop} :
    ∀ (kinds : List String) (n : Net), Lk Own id ψ G PI PO n n → Lk Own id ψ G PI PO (kinds.foldl pushNode n) (kinds.foldl pushNode n)
  | [], _, lk => lk
  | k :: kinds, n, lk => by
    simp only [List.foldl_cons]
    exact lk_same_pushNodes kinds _ (lk.stepAddNode k rfl)

/-- the converse of `substituteCore_inv` -/
theorem substituteCore_of_phases (h : NNet) (c : Nat) (m : NNet) (sh : Shape) (hs : implShape m = some sh)
    (h2 : NNet) (map : Array (Option Nat)) (net4 net5 : Net) (ren : Option Nat → Option Nat) (dang : List (Option Nat))
    (hil : (h.net.node c).ins.length ≤ sh.inPorts.length) (hol : (h.net.node c).outs.length ≤ sh.outLines.length)
    (hfold : (List.range m.net.nodes.size).foldlM (addImplNode m (h.names.getD c "") sh.des) (phase1 h c m sh.des) = some (h2, map))
    (hci : connectIns m map (sh.inPorts.zip (padTo (h.net.node c).ins sh.inPorts.length)) (phase3 m map h2, id) = some (net4, ren))
    (hco : connectOuts m map (sh.outLines.zip ((padTo (h.net.node c).outs sh.outLines.length).map ren)) (net4, []) = some (net5, dang)) :
    substituteCore h c m = some ({ h2 with net := net5 }, map, dang) := by
  unfold substituteCore
  rw [hs]
  dsimp only
  have : ((h.net.node c).ins.length > sh.inPorts.length || (h.net.node c).outs.length > sh.outLines.length) = false := by
    simp only [Bool.or_eq_false_iff, decide_eq_false_iff_not]
    exact ⟨by omega, by omega⟩
  rw [this]
  simp only [Bool.false_eq_true, if_false, hfold, hci, hco]

end KV.Transform
