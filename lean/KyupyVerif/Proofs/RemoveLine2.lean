import KyupyVerif.Proofs.RemoveLine1
/-! Helper lemmas for C10 (removal of dangling logic), part 2: well-formedness without the "no trailing `None`" clause
(`WFm`: `Line.remove` leaves a trailing `None` in the pin list of a cell), `detachDriver` and `removeLine true` through
accessors. -/
namespace KV.Transform
open KV

/-- `WF` without the clause on trailing `None`s -/
structure WFm (nn : NNet) : Prop where
  names : nn.names.size = nn.net.nodes.size
  nodup : nn.keys.Nodup
  io : ∀ i ∈ nn.net.io, i < nn.net.nodes.size
  back : ∀ l, l < nn.net.lines.size →
    (nn.net.line l).driver < nn.net.nodes.size ∧ (nn.net.line l).reader < nn.net.nodes.size ∧
    (nn.net.node (nn.net.line l).driver).outs.getD (nn.net.line l).dpin none = some l ∧
    (nn.net.node (nn.net.line l).reader).ins.getD (nn.net.line l).rpin none = some l
  fwdIn : ∀ i, i < nn.net.nodes.size → ∀ p l, (nn.net.node i).ins.getD p none = some l →
    l < nn.net.lines.size ∧ (nn.net.line l).reader = i ∧ (nn.net.line l).rpin = p
  fwdOut : ∀ i, i < nn.net.nodes.size → ∀ p l, (nn.net.node i).outs.getD p none = some l →
    l < nn.net.lines.size ∧ (nn.net.line l).driver = i ∧ (nn.net.line l).dpin = p

theorem WF.toWFm {nn : NNet} (w : WF nn) : WFm nn := ⟨w.names, w.nodup, w.io, w.back, w.fwdIn, w.fwdOut⟩

theorem WFm.outs_nodup {nn : NNet} (w : WFm nn) (i : Nat) (hi : i < nn.net.nodes.size) : PinNodup (nn.net.node i).outs := by
  intro k1 k2 x h1 h2
  rw [← (w.fwdOut i hi k1 x h1).2.2, ← (w.fwdOut i hi k2 x h2).2.2]

/-- what `detachDriver` returns: `O` = the new `outs` of the driver -/
theorem detachDriver_spec (net net1 : Net) (l : Nat) (he : detachDriver net l = some net1) :
    ∃ O, net1.io = net.io ∧ net1.nodes = net.nodes.modify (net.line l).driver (fun n => { n with outs := O }) ∧
    (((net.node (net.line l).driver).isFork = true ∧
      O = (growSet (net.node (net.line l).driver).outs (net.line l).dpin none).eraseIdx (net.line l).dpin ∧
      O.any (·.isNone) = false ∧ net1.lines = renumberDpins net.lines O 0) ∨
    ((net.node (net.line l).driver).isFork = false ∧
      O = growSet (net.node (net.line l).driver).outs (net.line l).dpin none ∧ net1.lines = net.lines)) := by
  unfold detachDriver at he
  dsimp only at he
  split at he
  · rename_i hf
    split at he
    · exact absurd he (by simp)
    · rename_i hany
      cases he
      exact ⟨_, rfl, rfl, Or.inl ⟨hf, rfl, Bool.eq_false_iff.mpr hany, rfl⟩⟩
  · rename_i hf
    cases he
    exact ⟨_, rfl, rfl, Or.inr ⟨by simpa using hf, rfl, rfl⟩⟩

theorem getD_eraseIdx (l : List (Option Nat)) (i k : Nat) :
    (l.eraseIdx i).getD k none = l.getD (if k < i then k else k + 1) none := by
  simp only [List.getD_eq_getElem?_getD, List.getElem?_eraseIdx]
  split <;> rfl

theorem nodeA_eq_node (net : Net) (x : Nat) : nodeA net.nodes x = net.node x := rfl
theorem lineA_eq_line (net : Net) (x : Nat) : lineA net.lines x = net.line x := rfl

end KV.Transform

namespace KV.Transform
open KV

/-! ### `delLine` through accessors -/
theorem delLine_node (net : Net) (l x : Nat) : (delLine net l).node x =
    { net.node x with ins := (net.node x).ins.map (fun o => if o == some (net.lines.size - 1) then some l else o),
                      outs := (net.node x).outs.map (fun o => if o == some (net.lines.size - 1) then some l else o) } := by
  simp only [delLine, Net.node, Array.getD_eq_getD_getElem?, Array.getElem?_map]
  cases h : net.nodes[x]? with
  | none => simp; rfl
  | some n => simp

theorem delLine_sizes (net : Net) (l : Nat) : (delLine net l).nodes.size = net.nodes.size ∧
    (delLine net l).lines.size = net.lines.size - 1 ∧ (delLine net l).io = net.io := by
  simp [delLine]

theorem delLine_line (net : Net) (l l' : Nat) (hl : l < net.lines.size) (hl' : l' < net.lines.size - 1) :
    (delLine net l).line l' = net.line (nmN net.lines.size l l') := by
  apply line_of_getElem?
  simp only [delLine, Array.getElem?_pop, Array.getElem?_setIfInBounds, Array.size_setIfInBounds, hl', if_true]
  have hl2 : l' < net.lines.size := by omega
  by_cases e : l = l'
  · subst e; simp [hl2, nmN]
  · have : ¬ l' = l := fun c => e c.symm
    simp [e, this, nmN, line_getElem? net l' hl2]

theorem node_modify (net : Net) (ns : Array NodeD) (hns : net.nodes = ns) (k : Nat) (f : NodeD → NodeD) (x : Nat) :
    ({ net with nodes := ns.modify k f } : Net).node x = if x = k ∧ k < ns.size then f (net.node x) else net.node x := by
  subst hns
  exact nodeA_modify net.nodes k x f

end KV.Transform
