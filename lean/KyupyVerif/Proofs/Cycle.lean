import KyupyVerif.Proofs.CycleBase
import KyupyVerif.Proofs.Solve
import KyupyVerif.Proofs.GenOpsWO
/-! `LogicSim.cycle(k)` (model `cycleK`, Model/Cycle.lean) in closed form: one cycle stores the labelling computed by the op
program at the captured signals (`captureRow`) and the next assignment (`nextRow`); k cycles iterate the next-state
function; the memory left behind by earlier cycles is irrelevant. -/
namespace KV.Cycle
open KV KV.Sig

theorem io_le_sNodes (net : Net) : net.io.length ≤ net.sNodes.length := by
  simp only [Net.sNodes, List.length_append]; omega

theorem mem_ppioS (net : Net) (i : Nat) : i ∈ ppioS net ↔ net.io.length ≤ i ∧ i < net.sNodes.length := by
  have := io_le_sNodes net
  simp only [ppioS, List.mem_range'_1]; omega

theorem mem_ppiUsedS (net : Net) (i : Nat) :
    i ∈ ppiUsedS net ↔ (net.io.length ≤ i ∧ i < net.sNodes.length) ∧ 0 < (sNodeAt net i).outs.length := by
  unfold ppiUsedS
  rw [List.mem_filter, mem_ppioS]
  simp

theorem mem_poS (net : Net) (i : Nat) : i ∈ poS net ↔ i < net.io.length ∧ ((sNodeAt net i).inPin 0).isSome = true := by
  simp [poS]

theorem mem_piS (net : Net) (i : Nat) : i ∈ piS net ↔ i < net.io.length ∧ 0 < (sNodeAt net i).outs.length := by
  simp [piS]

theorem isPoppo_iff (net : Net) (i : Nat) : isPoppo net i = true ↔ i ∈ poS net ∨ i ∈ ppioS net := by
  rw [mem_poS, mem_ppioS]
  unfold isPoppo
  split
  · rename_i h; constructor
    · intro hh; exact Or.inl ⟨h, hh⟩
    · rintro (⟨_, hh⟩ | ⟨hh, _⟩)
      · exact hh
      · omega
  · rename_i h; simp only [decide_eq_true_eq]; constructor
    · intro hh; exact Or.inr ⟨by omega, hh⟩
    · rintro (⟨hh, _⟩ | ⟨_, hh⟩)
      · omega
      · exact hh

theorem poppo_pos (net : Net) (strip : Bool) :
    (tabsOf net strip).poppo.map (·.1) = poS net ++ ppioS net := by
  simp [tabsOf, List.map_map, Function.comp_def]

theorem poppo_sig (net : Net) (strip : Bool) (px : Nat × Nat) (h : px ∈ (tabsOf net strip).poppo) :
    px.2 = capSig net strip px.1 := by
  simp only [tabsOf, List.mem_map] at h
  obtain ⟨p, _, rfl⟩ := h
  rfl

theorem pippi_sig (net : Net) (strip : Bool) (px : Nat × Nat) (h : px ∈ (tabsOf net strip).pippi) :
    px.2 = net.idx.ppi + px.1 := by
  simp only [tabsOf, List.mem_map] at h
  obtain ⟨p, _, rfl⟩ := h
  rfl

/-- `c_to_s` in closed form -/
theorem cToS_eq {α} (net : Net) (strip : Bool) (env : Nat → α) (s1 : List α) :
    cToS (tabsOf net strip) env s1 = captureRow net strip env s1 := by
  apply List.ext_getElem?
  intro i
  unfold cToS captureRow
  rw [foldl_set_getElem? _ (fun px : Nat × Nat => px.1) (fun px => env px.2) i (env (capSig net strip i))
    (fun px hpx hi => by rw [poppo_sig net strip px hpx, hi])]
  rw [poppo_pos, List.getElem?_mapIdx]
  by_cases hp : isPoppo net i = true
  · rw [if_pos (List.mem_append.2 ((isPoppo_iff net i).1 hp))]
    simp [hp]
  · rw [if_neg (fun hm => hp ((isPoppo_iff net i).2 (List.mem_append.1 hm)))]
    simp [hp]

theorem cToS_length {α} (T : Tabs) (env : Nat → α) (s1 : List α) : (cToS T env s1).length = s1.length :=
  foldl_set_length _ _ _ _

theorem ppoToPpi_length {α} (T : Tabs) (merge : α → α → α) (d : α) (s0 s1 : List α) :
    (ppoToPpi T merge d s0 s1).length = s0.length :=
  foldl_set_length _ _ _ _

theorem ppoToPpi_getElem? {α} (T : Tabs) (merge : α → α → α) (d : α) (s0 s1 : List α) (i : Nat) :
    (ppoToPpi T merge d s0 s1)[i]? =
      if i ∈ T.ppio then (s0[i]?).map (fun _ => merge (s0.getD i d) (s1.getD i d)) else s0[i]? := by
  unfold ppoToPpi
  rw [foldl_set_getElem? _ (fun p : Nat => p) (fun p => merge (s0.getD p d) (s1.getD p d)) i
    (merge (s0.getD i d) (s1.getD i d)) (fun p _ hp => by rw [hp])]
  simp

/-- `s_ppo_to_ppi` after `c_to_s` in closed form -/
theorem ppoToPpi_capture {α} (net : Net) (strip : Bool) (merge : α → α → α) (d : α) (sol : Nat → α) (s0 s1 : List α)
    (h0 : s0.length = net.sNodes.length) (h1 : s1.length = net.sNodes.length) :
    ppoToPpi (tabsOf net strip) merge d s0 (captureRow net strip sol s1) = nextRow net strip merge sol s0 := by
  apply List.ext_getElem?
  intro i
  rw [ppoToPpi_getElem?]
  unfold nextRow
  rw [List.getElem?_mapIdx]
  have hpp : (tabsOf net strip).ppio = ppioS net := rfl
  rw [hpp]
  by_cases hi : i < s0.length
  · have hs : s0[i]? = some s0[i] := List.getElem?_eq_getElem hi
    have hg : s0.getD i d = s0[i] := by rw [List.getD_eq_getElem?_getD, hs]; rfl
    rw [hs, hg]
    by_cases hio : net.io.length ≤ i
    · have hc : (captureRow net strip sol s1)[i]?.getD d = sol (capSig net strip i) := by
        have hi1 : i < s1.length := by omega
        unfold captureRow
        rw [List.getElem?_mapIdx, List.getElem?_eq_getElem hi1]
        have : isPoppo net i = true := (isPoppo_iff net i).2 (Or.inr ((mem_ppioS net i).2 ⟨hio, by omega⟩))
        simp [this]
      rw [if_pos ((mem_ppioS net i).2 ⟨hio, by omega⟩)]
      simp [hio, hc]
    · rw [if_neg (fun h => hio ((mem_ppioS net i).1 h).1)]
      simp [hio]
  · have hs : s0[i]? = none := by simp; omega
    simp [hs]

/-! ### one cycle -/

/-- the labelling one cycle computes from the assignment `a` when the memory holds `env` beforehand -/
def solOf {α} (sem : Op → List α → α) (ops : List Op) (T : Tabs) (d : α) (env : Nat → α) (a : List α) : Nat → α :=
  execG sem ops (sToC T d a env)

/-- one cycle on the `s` array alone, memory contents `env` as a parameter -/
def stepS {α} (sem : Op → List α → α) (ops : List Op) (net : Net) (strip : Bool) (merge : α → α → α) (d : α)
    (env : Nat → α) (s : S α) : S α :=
  ⟨nextRow net strip merge (solOf sem ops (tabsOf net strip) d env s.s0) s.s0,
   captureRow net strip (solOf sem ops (tabsOf net strip) d env s.s0) s.s1⟩

/-- the next-state function: assignment ↦ next assignment -/
def nextState {α} (sem : Op → List α → α) (ops : List Op) (net : Net) (strip : Bool) (merge : α → α → α) (d : α)
    (env : Nat → α) (a : List α) : List α :=
  nextRow net strip merge (solOf sem ops (tabsOf net strip) d env a) a

theorem cycle1_s {α} (sem : Op → List α → α) (ops : List Op) (net : Net) (strip : Bool) (merge : α → α → α) (d : α)
    (st : St α) (h0 : st.s.s0.length = net.sNodes.length) (h1 : st.s.s1.length = net.sNodes.length) :
    (cycle1 sem ops (tabsOf net strip) merge d st).s = stepS sem ops net strip merge d st.env st.s := by
  unfold cycle1 stepS solOf
  simp only
  rw [cToS_eq, ppoToPpi_capture net strip merge d _ _ _ h0 h1]

theorem cycle1_env {α} (sem : Op → List α → α) (ops : List Op) (T : Tabs) (merge : α → α → α) (d : α) (st : St α) :
    (cycle1 sem ops T merge d st).env = solOf sem ops T d st.env st.s.s0 := rfl

theorem nextRow_length {α} (net : Net) (strip : Bool) (merge : α → α → α) (sol : Nat → α) (a : List α) :
    (nextRow net strip merge sol a).length = a.length := by simp [nextRow]
theorem captureRow_length {α} (net : Net) (strip : Bool) (sol : Nat → α) (a : List α) :
    (captureRow net strip sol a).length = a.length := by simp [captureRow]

theorem nextRow_congr {α} (net : Net) (strip : Bool) (merge : α → α → α) (sol sol' : Nat → α) (a : List α)
    (h : ∀ p, sol (capSig net strip p) = sol' (capSig net strip p)) :
    nextRow net strip merge sol a = nextRow net strip merge sol' a := by
  unfold nextRow
  have : (fun p v => if net.io.length ≤ p then merge v (sol (capSig net strip p)) else v) =
         (fun p v => if net.io.length ≤ p then merge v (sol' (capSig net strip p)) else v) := by
    funext p v; rw [h p]
  rw [this]

theorem captureRow_congr {α} (net : Net) (strip : Bool) (sol sol' : Nat → α) (a : List α)
    (h : ∀ p, sol (capSig net strip p) = sol' (capSig net strip p)) :
    captureRow net strip sol a = captureRow net strip sol' a := by
  unfold captureRow
  have : (fun p v => if isPoppo net p = true then sol (capSig net strip p) else v) =
         (fun p v => if isPoppo net p = true then sol' (capSig net strip p) else v) := by
    funext p v; rw [h p]
  rw [this]

/-! ### what the memory held before is irrelevant -/

/-- `s_to_c` pointwise -/
theorem sToC_apply {α} (net : Net) (strip : Bool) (d : α) (a : List α) (env : Nat → α) (x : Nat) :
    sToC (tabsOf net strip) d a env x =
      if x ∈ (tabsOf net strip).pippi.map (·.2) then a.getD (x - net.idx.ppi) d else env x := by
  unfold sToC
  exact foldl_upd_apply _ (fun px : Nat × Nat => px.2) (fun px => a.getD px.1 d) x (a.getD (x - net.idx.ppi) d)
    (fun px hpx hx => by
      have := pippi_sig net strip px hpx
      have : x - net.idx.ppi = px.1 := by omega
      rw [this]) env

/-- a program whose operands are never written at or after their use computes, off the scratch slot, a result that
    depends only on the signals no op writes -/
theorem execG_congr_inputs {α} (J : Nat → Bool) (sem : Op → List α → α) (ops : List Op) (hw : WOJ J ops)
    (e e' : Nat → α) (h : ∀ x, J x = false → (∀ o ∈ ops, o.out ≠ x) → e x = e' x) :
    ∀ x, J x = false → execG sem ops e x = execG sem ops e' x := by
  intro x hx
  have hs : SolvesJ J sem ops e' (execG sem ops e) :=
    ⟨fun y hj hy => by rw [execG_frame sem ops e y hy]; exact h y hj hy, execG_solvesJ J sem ops hw e⟩
  exact solution_uniqueJ J sem ops hw e' _ hs x hx

/-- two memories agree on everything `s_to_c` does not set and no op writes -/
def Agree (ops : List Op) (T : Tabs) {α} (e e' : Nat → α) : Prop :=
  ∀ x, (∀ o ∈ ops, o.out ≠ x) → x ∉ T.pippi.map (·.2) → e x = e' x

theorem Agree.refl {α} (ops : List Op) (T : Tabs) (e : Nat → α) : Agree ops T e e := fun _ _ _ => rfl

theorem agree_after {α} (sem : Op → List α → α) (ops : List Op) (net : Net) (strip : Bool) (d : α) (a : List α)
    (e e' : Nat → α) (h : Agree ops (tabsOf net strip) e e') :
    Agree ops (tabsOf net strip) (solOf sem ops (tabsOf net strip) d e a) e' := by
  intro x hx hp
  unfold solOf
  rw [execG_frame sem ops _ x hx, sToC_apply, if_neg hp]
  exact h x hx hp

theorem solOf_agree {α} (J : Nat → Bool) (sem : Op → List α → α) (ops : List Op) (hw : WOJ J ops)
    (net : Net) (strip : Bool) (d : α) (a : List α) (e e' : Nat → α) (h : Agree ops (tabsOf net strip) e e') :
    ∀ x, J x = false → solOf sem ops (tabsOf net strip) d e a x = solOf sem ops (tabsOf net strip) d e' a x := by
  apply execG_congr_inputs J sem ops hw
  intro x _ hx
  rw [sToC_apply, sToC_apply]
  split
  · rfl
  · rename_i hp; exact h x hx hp

theorem stepS_agree {α} (J : Nat → Bool) (sem : Op → List α → α) (ops : List Op) (hw : WOJ J ops)
    (net : Net) (strip : Bool) (hJ : ∀ p, J (capSig net strip p) = false) (merge : α → α → α) (d : α) (s : S α)
    (e e' : Nat → α) (h : Agree ops (tabsOf net strip) e e') :
    stepS sem ops net strip merge d e s = stepS sem ops net strip merge d e' s := by
  unfold stepS
  have := fun p => solOf_agree J sem ops hw net strip d s.s0 e e' h (capSig net strip p) (hJ p)
  rw [nextRow_congr net strip merge _ _ s.s0 this, captureRow_congr net strip _ _ s.s1 this]

/-! ### k cycles -/

theorem iter_succ' {β} (f : β → β) (k : Nat) (a : β) : iter f (k + 1) a = f (iter f k a) := by
  induction k generalizing a with
  | zero => rfl
  | succ k ih => show iter f (k + 1) (f a) = _; rw [ih]; rfl

/-- **`cycle(k)` iterates the one-cycle map on `s`**; whatever the memory held before the call (beyond the constant slot and
    other never-written signals) plays no role -/
theorem cycleK_s {α} (J : Nat → Bool) (sem : Op → List α → α) (ops : List Op) (hw : WOJ J ops)
    (net : Net) (strip : Bool) (hJ : ∀ p, J (capSig net strip p) = false) (merge : α → α → α) (d : α) (env0 : Nat → α) :
    ∀ (k : Nat) (st : St α), st.s.s0.length = net.sNodes.length → st.s.s1.length = net.sNodes.length →
      Agree ops (tabsOf net strip) st.env env0 →
      (cycleK sem ops (tabsOf net strip) merge d k st).s = iter (stepS sem ops net strip merge d env0) k st.s := by
  intro k
  induction k with
  | zero => intro st _ _ _; rfl
  | succ k ih =>
    intro st h0 h1 ha
    show (cycleK sem ops (tabsOf net strip) merge d k (cycle1 sem ops (tabsOf net strip) merge d st)).s = _
    have hs := cycle1_s sem ops net strip merge d st h0 h1
    rw [ih (cycle1 sem ops (tabsOf net strip) merge d st)
      (by rw [hs]; simp [stepS, nextRow_length, h0]) (by rw [hs]; simp [stepS, captureRow_length, h1])
      (by rw [cycle1_env]; exact agree_after sem ops net strip d _ _ _ ha)]
    rw [hs, stepS_agree J sem ops hw net strip hJ merge d st.s _ _ ha]
    rfl

theorem iter_stepS_s0 {α} (sem : Op → List α → α) (ops : List Op) (net : Net) (strip : Bool) (merge : α → α → α) (d : α)
    (env : Nat → α) (k : Nat) (s : S α) :
    (iter (stepS sem ops net strip merge d env) k s).s0 = iter (nextState sem ops net strip merge d env) k s.s0 := by
  induction k generalizing s with
  | zero => rfl
  | succ k ih => show (iter _ k (stepS sem ops net strip merge d env s)).s0 = _; rw [ih]; rfl

theorem nextRow_port {α} (net : Net) (strip : Bool) (merge : α → α → α) (sol : Nat → α) (a : List α) (p : Nat)
    (hp : p < net.io.length) : (nextRow net strip merge sol a)[p]? = a[p]? := by
  unfold nextRow
  rw [List.getElem?_mapIdx]
  have : ¬ net.io.length ≤ p := by omega
  simp [this]

/-- primary-input rows stay as assigned through any number of cycles -/
theorem iter_nextState_port {α} (sem : Op → List α → α) (ops : List Op) (net : Net) (strip : Bool) (merge : α → α → α) (d : α)
    (env : Nat → α) (k : Nat) (a : List α) (p : Nat) (hp : p < net.io.length) :
    (iter (nextState sem ops net strip merge d env) k a)[p]? = a[p]? := by
  induction k generalizing a with
  | zero => rfl
  | succ k ih =>
    show (iter _ k (nextState sem ops net strip merge d env a))[p]? = _
    rw [ih]; exact nextRow_port net strip merge _ a p hp

end KV.Cycle
