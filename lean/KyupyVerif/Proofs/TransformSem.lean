import KyupyVerif.Proofs.TransformElim
/-! Helper lemmas for C10 (`elim_sem`), part 1: the result of one splice of `eliminate_1to1_forks`, described through
its accessors (`node`, `line`, `inPin`, `outPin`, `io`, `names`) instead of array operations. -/
namespace KV.Transform
open KV
variable {skip : Bool}

/-- the circuit before the final `n.remove()` of a splice -/
def spliceMid (nn : NNet) (i a b : Nat) : NNet :=
  let R := (nn.net.line b).reader
  let P := (nn.net.line b).rpin
  let nodes := nn.net.nodes.modify i fun n => { n with outs := [] }
  let nodes := nodes.modify R fun n => { n with ins := growSet n.ins P none }
  let net := delLine { nn.net with nodes := nodes } b
  let a' := if a == nn.net.lines.size - 1 then b else a
  let lines := net.lines.modify a' fun ln => { ln with reader := R, rpin := P }
  let nodes := net.nodes.modify R fun n => { n with ins := growSet n.ins P (some a') }
  { nn with net := { net with nodes := nodes, lines := lines } }

def splice (nn : NNet) (i a b : Nat) : NNet := delNode (spliceMid nn i a b) i

theorem elimOne_splice (nn : NNet) (i a b : Nat) (hio : nn.net.io.contains i = false)
    (hlen : (nn.net.node i).outs.length = 1) (hin : (nn.net.node i).ins.head? = some (some a))
    (hout : (nn.net.node i).outs.head? = some (some b)) (hab : a ≠ b) :
    elimOne skip nn i = some (splice nn i a b) := by
  unfold elimOne
  simp only [hio, hlen, hin, hout]
  simp [hab, splice, spliceMid]

/-- the same case analysis for `elimOneM`: either nothing happens, or a splice with its renaming -/
theorem elimOneM_cases (nn nn' : NNet) (r : Ren) (i : Nat) (h : elimOneM skip nn i = some (nn', r)) :
    (nn' = nn ∧ r = Ren.id) ∨
    ∃ a b, nn.net.io.contains i = false ∧ (nn.net.node i).outs.length = 1 ∧ (nn.net.node i).ins.head? = some (some a) ∧
      (nn.net.node i).outs.head? = some (some b) ∧ a ≠ b ∧ nn' = splice nn i a b ∧ r = stepRen nn i b := by
  unfold elimOneM at h
  dsimp only at h
  split at h
  · left; cases h; exact ⟨rfl, rfl⟩
  · rename_i hio
    split at h
    · left; cases h; exact ⟨rfl, rfl⟩
    · rename_i hlen
      split at h
      · rename_i a b hin hout
        split at h
        · exact absurd h (by simp)
        · rename_i hab
          right
          have hio' : nn.net.io.contains i = false := by simpa using hio
          have hlen' : (nn.net.node i).outs.length = 1 := by simpa using hlen
          have hab' : a ≠ b := by simpa using hab
          rw [elimOne_splice nn i a b hio' hlen' hin hout hab'] at h
          simp only [Option.map_some, Option.some.injEq, Prod.mk.injEq] at h
          exact ⟨a, b, hio', hlen', hin, hout, hab', h.1.symm, h.2.symm⟩
      · exact absurd h (by simp)
      · left
        cases skip
        · exact absurd h (by simp)
        · simp only [if_true, Option.some.injEq, Prod.mk.injEq] at h
          exact ⟨h.1.symm, h.2.symm⟩

theorem elimOneM_fst (nn : NNet) (i : Nat) : (elimOneM skip nn i).map (·.1) = elimOne skip nn i := by
  unfold elimOneM elimOne
  dsimp only
  split
  · rfl
  · split
    · rfl
    · split
      · split
        · rfl
        · rename_i hab
          simp [Option.map_map, Function.comp_def]
          simpa using hab
      · rfl
      · cases skip <;> rfl
end KV.Transform

namespace KV.Transform
open KV

/-- the renaming of line references by `del c.lines[b]` -/
def mvL (last b : Nat) (o : Option Nat) : Option Nat := if o == some last then some b else o

theorem node_of_getElem? (net : Net) (j : Nat) (n : NodeD) (h : net.nodes[j]? = some n) : net.node j = n := by
  simp [Net.node, Array.getD_eq_getD_getElem?, h]
theorem line_of_getElem? (net : Net) (j : Nat) (n : LineD) (h : net.lines[j]? = some n) : net.line j = n := by
  simp [Net.line, Array.getD_eq_getD_getElem?, h]
theorem line_getElem? (net : Net) (i : Nat) (h : i < net.lines.size) : net.lines[i]? = some (net.line i) := by
  simp [Net.line, Array.getD_eq_getD_getElem?, Array.getElem?_eq_getElem h]

theorem getD_map_mvL (l : List (Option Nat)) (last b k : Nat) :
    (l.map (fun o => if o == some last then some b else o)).getD k none = mvL last b (l.getD k none) := by
  simp only [List.getD_eq_getElem?_getD, List.getElem?_map, mvL]
  cases l[k]? <;> simp

section mid
variable (nn : NNet) (i a b : Nat)

theorem spliceMid_sizes : (spliceMid nn i a b).net.nodes.size = nn.net.nodes.size ∧
    (spliceMid nn i a b).net.lines.size = nn.net.lines.size - 1 ∧
    (spliceMid nn i a b).names = nn.names ∧ (spliceMid nn i a b).net.io = nn.net.io := by
  simp [spliceMid, delLine]

/-- node `d` of the circuit before `n.remove()` -/
theorem spliceMid_node (d : Nat) (hd : d < nn.net.nodes.size) :
    (spliceMid nn i a b).net.node d =
      { kind := (nn.net.node d).kind
        ins := if d = (nn.net.line b).reader then
            growSet ((growSet (nn.net.node d).ins (nn.net.line b).rpin none).map
              (fun o => if o == some (nn.net.lines.size - 1) then some b else o)) (nn.net.line b).rpin
              (some (if a == nn.net.lines.size - 1 then b else a))
          else (nn.net.node d).ins.map (fun o => if o == some (nn.net.lines.size - 1) then some b else o)
        outs := if d = i then [] else (nn.net.node d).outs.map (fun o => if o == some (nn.net.lines.size - 1) then some b else o) } := by
  apply node_of_getElem?
  simp only [spliceMid, delLine, Array.getElem?_modify, Array.getElem?_map, node_getElem? nn.net d hd]
  by_cases e1 : (nn.net.line b).reader = d <;> by_cases e2 : i = d
  · subst e2; simp [e1]
  · have : ¬ d = i := fun c => e2 c.symm
    simp [e1, e2, this]
  · have : ¬ d = (nn.net.line b).reader := fun c => e1 c.symm
    subst e2; simp [e1, this]
  · have h1 : ¬ d = (nn.net.line b).reader := fun c => e1 c.symm
    have h2 : ¬ d = i := fun c => e2 c.symm
    simp [e1, e2, h1, h2]

theorem spliceMid_kind (d : Nat) (hd : d < nn.net.nodes.size) :
    ((spliceMid nn i a b).net.node d).kind = (nn.net.node d).kind := by
  rw [spliceMid_node nn i a b d hd]

theorem spliceMid_inPin (d k : Nat) (hd : d < nn.net.nodes.size) :
    ((spliceMid nn i a b).net.node d).ins.getD k none =
      if d = (nn.net.line b).reader ∧ k = (nn.net.line b).rpin then some (if a == nn.net.lines.size - 1 then b else a)
      else mvL (nn.net.lines.size - 1) b ((nn.net.node d).ins.getD k none) := by
  rw [spliceMid_node nn i a b d hd]
  dsimp only
  by_cases e1 : d = (nn.net.line b).reader
  · simp only [e1, if_true, true_and]
    rw [getD_growSet]
    by_cases e2 : k = (nn.net.line b).rpin
    · simp [e2]
    · simp only [e2, if_false]
      rw [getD_map_mvL, getD_growSet]
      simp [e2]
  · simp only [e1, if_false, false_and]
    rw [getD_map_mvL]

theorem spliceMid_outPin (d k : Nat) (hd : d < nn.net.nodes.size) :
    ((spliceMid nn i a b).net.node d).outs.getD k none =
      if d = i then none else mvL (nn.net.lines.size - 1) b ((nn.net.node d).outs.getD k none) := by
  rw [spliceMid_node nn i a b d hd]
  dsimp only
  by_cases e1 : d = i
  · simp [e1]
  · simp only [e1, if_false]
    rw [getD_map_mvL]

theorem spliceMid_insLen (d : Nat) (hd : d < nn.net.nodes.size)
    (hP : d = (nn.net.line b).reader → (nn.net.line b).rpin < (nn.net.node d).ins.length) :
    ((spliceMid nn i a b).net.node d).ins.length = (nn.net.node d).ins.length := by
  rw [spliceMid_node nn i a b d hd]
  dsimp only
  by_cases e1 : d = (nn.net.line b).reader
  · have := hP e1
    simp only [e1, if_true]
    rw [length_growSet, List.length_map, length_growSet]
    rw [← e1]; simp [this]
  · simp [e1]

/-- line `l'` of the circuit before `n.remove()` -/
theorem spliceMid_line (l' : Nat) (hl : l' < nn.net.lines.size - 1) :
    (spliceMid nn i a b).net.line l' =
      if l' = (if a == nn.net.lines.size - 1 then b else a) then
        { nn.net.line (if l' = b then nn.net.lines.size - 1 else l') with
          reader := (nn.net.line b).reader, rpin := (nn.net.line b).rpin }
      else nn.net.line (if l' = b then nn.net.lines.size - 1 else l') := by
  apply line_of_getElem?
  have hl2 : l' < nn.net.lines.size := by omega
  have hbase : ((nn.net.lines.setIfInBounds b (nn.net.line (nn.net.lines.size - 1))).pop)[l']? =
      some (nn.net.line (if l' = b then nn.net.lines.size - 1 else l')) := by
    rw [Array.getElem?_pop, Array.getElem?_setIfInBounds]
    simp only [Array.size_setIfInBounds, hl, if_true]
    by_cases e : b = l'
    · subst e; simp [hl2]
    · have : ¬ l' = b := fun c => e c.symm
      simp [e, this, line_getElem? nn.net l' hl2]
  have hline : ∀ (X : Array NodeD) k, ({ nodes := X, lines := nn.net.lines, io := nn.net.io } : Net).line k = nn.net.line k :=
    fun _ _ => rfl
  simp only [spliceMid, delLine, Array.getElem?_modify, hline, hbase]
  simp only [beq_iff_eq]
  by_cases e : (if a = nn.net.lines.size - 1 then b else a) = l'
  · have e' : l' = (if a = nn.net.lines.size - 1 then b else a) := e.symm
    simp only [if_pos e, if_pos e', Option.map_some]
  · have e' : ¬ l' = (if a = nn.net.lines.size - 1 then b else a) := fun c => e c.symm
    simp only [if_neg e, if_neg e']
end mid

/-! ### `delNode` through accessors -/
theorem delNode_sizes (nn : NNet) (i : Nat) : (delNode nn i).net.nodes.size = nn.net.nodes.size - 1 ∧
    (delNode nn i).net.lines.size = nn.net.lines.size := by
  simp [delNode]

theorem delNode_node (nn : NNet) (i j : Nat) (hi : i < nn.net.nodes.size) (hj : j < nn.net.nodes.size - 1) :
    (delNode nn i).net.node j = nn.net.node (if j = i then nn.net.nodes.size - 1 else j) := by
  apply node_of_getElem?
  simp only [delNode, Array.getElem?_pop, Array.getElem?_setIfInBounds, Array.size_setIfInBounds, hj, if_true, hi]
  by_cases e : i = j
  · subst e; simp
  · have : ¬ j = i := fun c => e c.symm
    simp [e, this, node_getElem? nn.net j (by omega)]

theorem delNode_line (nn : NNet) (i l : Nat) (hl : l < nn.net.lines.size) :
    (delNode nn i).net.line l =
      { nn.net.line l with
        driver := if (nn.net.line l).driver == nn.net.nodes.size - 1 then i else (nn.net.line l).driver
        reader := if (nn.net.line l).reader == nn.net.nodes.size - 1 then i else (nn.net.line l).reader } := by
  apply line_of_getElem?
  simp [delNode, Array.getElem?_map, line_getElem? nn.net l hl]

theorem delNode_ioEq (nn : NNet) (i : Nat) :
    (delNode nn i).net.io = nn.net.io.map fun j => if j == nn.net.nodes.size - 1 then i else j := rfl

end KV.Transform
