import KyupyVerif.Proofs.FormatEquiv2
/-! Both canonical renderings of a CLOSED netlist description BUILD (C11, section `FormatEquiv` of Props/C11Library.lean):
`closedNlB nl` (decidable, about the description only) implies `benchOKB (benchOf nl)` and — without branch forks (`cfg.bf = false`,
the default of `verilog.parse`) — `verilogOKB cfg primTL nl.portNames (verilogOf nl)`, the fragment hypothesis of
`verilog_parsed_sem` / `verilog_end_to_end`. -/
namespace KV.Netlist
open KV

/-- **the closed common fragment**: `commonNlB`, no kind is the literal `__fork__`, every operand is a gate name or an input port,
no gate name / input port looks like a constant bit (`1'b…`) -/
def closedNlB (nl : Nl) : Bool :=
  commonNlB nl &&
  (nl.gates.all fun g => g.kind != forkKind && g.drv.all fun d => (nl.gateNames ++ nl.pis).contains d) &&
  ((nl.gateNames ++ nl.pis).all fun n => !isConstBit n)

structure ClosedNl (nl : Nl) : Prop where
  kinds : ∀ g ∈ nl.gates, g.kind ≠ forkKind
  ops : ∀ g ∈ nl.gates, ∀ d ∈ g.drv, d ∈ nl.gateNames ++ nl.pis
  ncb : ∀ n ∈ nl.gateNames ++ nl.pis, isConstBit n = false

theorem closedNl_of (nl : Nl) (h : closedNlB nl = true) : commonNlB nl = true ∧ ClosedNl nl := by
  simp only [closedNlB, Bool.and_eq_true, List.all_eq_true, Bool.not_eq_true', List.contains_eq_mem, decide_eq_true_eq, bne_iff_ne,
    ne_eq] at h
  exact ⟨h.1.1, fun g hg => (h.1.2 g hg).1, fun g hg d hd => (h.1.2 g hg).2 d hd, h.2⟩

theorem fe_nodupS_of : ∀ l : List String, l.Nodup → nodupS l = true
  | [], _ => rfl
  | x :: r, h => by
    rw [List.nodup_cons] at h
    simp only [nodupS, Bool.and_eq_true, Bool.not_eq_true', List.contains_eq_mem, decide_eq_false_iff_not]
    exact ⟨h.1, fe_nodupS_of r h.2⟩

theorem fe_nodupE_of : ∀ l : List Ep, l.Nodup → nodupE l = true
  | [], _ => rfl
  | x :: r, h => by
    rw [List.nodup_cons] at h
    simp only [nodupE, Bool.and_eq_true, Bool.not_eq_true', List.contains_eq_mem, decide_eq_false_iff_not]
    exact ⟨h.1, fe_nodupE_of r h.2⟩

/-! ## the input connections of a rendered instance -/

def primInConn : List String → List (String × Nat × String)
  | [] => []
  | [d0] => [("i0", 0, d0)]
  | [d0, d1] => [("i0", 0, d0), ("i1", 1, d1)]
  | [d0, d1, d2] => [("i0", 0, d0), ("i1", 1, d1), ("i2", 2, d2)]
  | d0 :: d1 :: d2 :: d3 :: _ => [("i0", 0, d0), ("i1", 1, d1), ("i2", 2, d2), ("i3", 3, d3)]

theorem inConn_nlInst (g : NlGate) : inConn primTL (nlInst g) = primInConn g.drv := by
  rw [nlInst]
  match g.drv with
  | [] => rfl
  | [_] => rfl
  | [_, _] => rfl
  | [_, _, _] => rfl
  | _ :: _ :: _ :: _ :: _ => rfl

theorem mem_primInConn (drv : List String) (c : String × Nat × String) (h : c ∈ primInConn drv) : c.2.2 ∈ drv := by
  match drv, h with
  | [], h => cases h
  | [d0], h =>
    simp only [primInConn, List.mem_cons, List.not_mem_nil, or_false] at h
    subst h; simp
  | [d0, d1], h =>
    simp only [primInConn, List.mem_cons, List.not_mem_nil, or_false] at h
    rcases h with rfl | rfl <;> simp
  | [d0, d1, d2], h =>
    simp only [primInConn, List.mem_cons, List.not_mem_nil, or_false] at h
    rcases h with rfl | rfl | rfl <;> simp
  | d0 :: d1 :: d2 :: d3 :: _, h =>
    simp only [primInConn, List.mem_cons, List.not_mem_nil, or_false] at h
    rcases h with rfl | rfl | rfl | rfl <;> simp

theorem primInConn_idx_nodup (drv : List String) : ((primInConn drv).map (·.2.1)).Nodup := by
  match drv with
  | [] => exact List.nodup_nil
  | [_] => simp [primInConn]
  | [_, _] => simp [primInConn]
  | [_, _, _] => simp [primInConn]
  | _ :: _ :: _ :: _ :: _ => simp [primInConn]

/-! ## `walk` without state dependence -/

theorem walk_eq_flatMap {σ α β} (next : σ → α → σ) (f : σ → α → List β) (g : α → List β) (l : List α)
    (h : ∀ st, ∀ x ∈ l, f st x = g x) (st : σ) : walk next f st l = l.flatMap g := by
  induction l generalizing st with
  | nil => rfl
  | cons x r ih =>
    rw [walk, h st x List.mem_cons_self, ih (fun st y hy => h st y (List.mem_cons_of_mem _ hy)), List.flatMap_cons]

theorem connWalk_eq {β} (tl : TL) (f : Nat → VInst × (String × Nat × String) → List β)
    (g : VInst × (String × Nat × String) → List β) (insts : List VInst)
    (h : ∀ k, ∀ i ∈ insts, ∀ c ∈ inConn tl i, f k (i, c) = g (i, c)) (k0 : Nat) :
    connWalk tl f k0 insts = insts.flatMap fun i => (inConn tl i).flatMap fun c => g (i, c) :=
  walk_eq_flatMap _ _ (fun i => (inConn tl i).flatMap fun c => g (i, c)) insts
    (fun k i hi => walk_eq_flatMap _ _ (fun c => g (i, c)) (inConn tl i) (fun k' c hc => h k' i hi c hc) k) k0

theorem assignPairs_verilogOf (ds : List Decl) (nl : Nl) : assignPairs ds (verilogOf nl) = [] := by
  rw [assignPairs, verilogOf, List.flatMap_cons, pairsOf_insts]
  rfl

/-! ## the reader end points of the flat line list -/

/-- the reader pins of the instances in pass-2 order -/
def Nl.pinEps (nl : Nl) : List Ep := nl.gates.flatMap fun g => (primInConn g.drv).map fun c => Ep.cell g.inst c.2.1

theorem fe_flatMap_congr {α β} (l : List α) (f g : α → List β) (h : ∀ x ∈ l, f x = g x) : l.flatMap f = l.flatMap g := by
  induction l with
  | nil => rfl
  | cons x r ih => rw [List.flatMap_cons, List.flatMap_cons, h x List.mem_cons_self, ih (fun y hy => h y (List.mem_cons_of_mem _ hy))]

theorem connWalk_verilogOf {β} (nl : Nl) (f : Nat → VInst × (String × Nat × String) → List β)
    (g : VInst × (String × Nat × String) → List β)
    (h : ∀ k, ∀ x ∈ nl.gates, ∀ c ∈ primInConn x.drv, f k (nlInst x, c) = g (nlInst x, c)) (k0 : Nat) :
    connWalk primTL f k0 (nl.gates.map nlInst) = nl.gates.flatMap fun x => (primInConn x.drv).flatMap fun c => g (nlInst x, c) := by
  rw [connWalk_eq primTL f g _ (by
    intro k i hi c hc
    obtain ⟨x, hx, rfl⟩ := List.mem_map.mp hi
    rw [inConn_nlInst] at hc
    exact h k x hx c hc) k0, List.flatMap_map]
  apply fe_flatMap_congr
  intro x _
  rw [inConn_nlInst]

theorem outLines_readers (ds : List Decl) (hds : ∀ s, outSig ds s = (s, false)) (l : List NlGate) :
    (((l.map nlInst).flatMap fun i => (outConn primTL ds i).map fun o => (⟨.cell i.name o.1, .fork o.2, o.2⟩ : VLine)).map (·.r)) =
      (l.map (·.name)).map Ep.fork := by
  induction l with
  | nil => rfl
  | cons g r ih =>
    rw [List.map_cons, List.flatMap_cons, List.map_append, ih, outConn_nlInst, hds]
    rfl

theorem vFlat_readers (cfg : Cfg) (hbf : cfg.bf = false) (nl : Nl)
    (hnc : ∀ g ∈ nl.gates, ∀ d ∈ g.drv, isConstLit d = false) :
    (vFlat cfg primTL (nl.ports.map nlDecl) (verilogOf nl)).map (·.r) =
      nl.gateNames.map Ep.fork ++ nl.pis.map Ep.fork ++ nl.pinEps ++ nl.pos.map (fun n => Ep.cell n 0) := by
  rw [vFlat, assignPairs_verilogOf, vInsts_verilogOf, inputNames_nlDecl, outputNames_nlDecl, hbf]
  rw [connWalk_verilogOf nl (connLines false)
    (fun ic => [(⟨.fork ic.2.2.2, .cell ic.1.name ic.2.2.1, ic.2.2.2⟩ : VLine)]) (by
      intro k x hx c hc
      have := hnc x hx c.2.2 (mem_primInConn x.drv c hc)
      simp only [connLines, this, Bool.false_eq_true, if_false, List.nil_append, srcFork])]
  simp only [walk, List.append_nil, List.map_append]
  rw [outLines_readers _ (outSig_nlDecl nl.ports)]
  have hB : ∀ l : List String, (l.map fun n => (⟨.cell n 0, .fork n, n⟩ : VLine)).map (·.r) = l.map Ep.fork := by
    intro l; rw [List.map_map]; rfl
  have hE : ∀ l : List String, (l.map fun n => (⟨.fork n, .cell n 0, n⟩ : VLine)).map (·.r) = l.map (fun n => Ep.cell n 0) := by
    intro l; rw [List.map_map]; rfl
  have hD : ∀ l : List NlGate, (l.flatMap fun x => (primInConn x.drv).flatMap fun c =>
      [(⟨.fork c.2.2, .cell (nlInst x).name c.2.1, c.2.2⟩ : VLine)]).map (·.r) =
      l.flatMap fun g => (primInConn g.drv).map fun c => Ep.cell g.inst c.2.1 := by
    intro l
    induction l with
    | nil => rfl
    | cons x r ih =>
      rw [List.flatMap_cons, List.flatMap_cons, List.map_append, ih]
      congr 1
      generalize primInConn x.drv = cs
      induction cs with
      | nil => rfl
      | cons c r2 ih2 => rw [List.flatMap_cons, List.map_append, ih2]; rfl
  rw [hB, hE, hD]
  rfl

end KV.Netlist
