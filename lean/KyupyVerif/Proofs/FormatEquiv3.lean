import KyupyVerif.Proofs.FormatEquiv2
/-! Both canonical renderings of a CLOSED netlist description BUILD (C11, section `FormatEquiv` of Props/C11Library.lean):
`closedNlB nl` (decidable, about the description only) implies `benchOKB (benchOf nl)` and — without branch forks (`cfg.bf = false`,
the default of `verilog.parse`) — `verilogOKB cfg primTL nl.portNames (verilogOf nl)`, the fragment hypothesis of
`verilog_parsed_sem` / `verilog_end_to_end`. -/
namespace KV.Netlist
open KV

/-- **the closed common fragment**: `commonNlB`, no kind is the literal `__fork__`, every operand is a gate name or an input port,
no gate name / input port looks like a constant bit (`1'b…`) -/
def closedNlB (nl : Nl) : Bool :=
  commonNlB nl &&
  (nl.gates.all fun g => g.kind != forkKind && g.drv.all fun d => (nl.gateNames ++ nl.pis).contains d) &&
  ((nl.gateNames ++ nl.pis).all fun n => !isConstBit n)

structure ClosedNl (nl : Nl) : Prop where
  kinds : ∀ g ∈ nl.gates, g.kind ≠ forkKind
  ops : ∀ g ∈ nl.gates, ∀ d ∈ g.drv, d ∈ nl.gateNames ++ nl.pis
  ncb : ∀ n ∈ nl.gateNames ++ nl.pis, isConstBit n = false

theorem closedNl_of (nl : Nl) (h : closedNlB nl = true) : commonNlB nl = true ∧ ClosedNl nl := by
  simp only [closedNlB, Bool.and_eq_true, List.all_eq_true, Bool.not_eq_true', List.contains_eq_mem, decide_eq_true_eq, bne_iff_ne,
    ne_eq] at h
  exact ⟨h.1.1, fun g hg => (h.1.2 g hg).1, fun g hg d hd => (h.1.2 g hg).2 d hd, h.2⟩

theorem fe_nodupS_of : ∀ l : List String, l.Nodup → nodupS l = true
  | [], _ => rfl
  | x :: r, h => by
    rw [List.nodup_cons] at h
    simp only [nodupS, Bool.and_eq_true, Bool.not_eq_true', List.contains_eq_mem, decide_eq_false_iff_not]
    exact ⟨h.1, fe_nodupS_of r h.2⟩

theorem fe_nodupE_of : ∀ l : List Ep, l.Nodup → nodupE l = true
  | [], _ => rfl
  | x :: r, h => by
    rw [List.nodup_cons] at h
    simp only [nodupE, Bool.and_eq_true, Bool.not_eq_true', List.contains_eq_mem, decide_eq_false_iff_not]
    exact ⟨h.1, fe_nodupE_of r h.2⟩

/-! ## the input connections of a rendered instance -/

def primInConn : List String → List (String × Nat × String)
  | [] => []
  | [d0] => [("i0", 0, d0)]
  | [d0, d1] => [("i0", 0, d0), ("i1", 1, d1)]
  | [d0, d1, d2] => [("i0", 0, d0), ("i1", 1, d1), ("i2", 2, d2)]
  | d0 :: d1 :: d2 :: d3 :: _ => [("i0", 0, d0), ("i1", 1, d1), ("i2", 2, d2), ("i3", 3, d3)]

theorem inConn_nlInst (g : NlGate) : inConn primTL (nlInst g) = primInConn g.drv := by
  rw [nlInst]
  match g.drv with
  | [] => rfl
  | [_] => rfl
  | [_, _] => rfl
  | [_, _, _] => rfl
  | _ :: _ :: _ :: _ :: _ => rfl

theorem mem_primInConn (drv : List String) (c : String × Nat × String) (h : c ∈ primInConn drv) : c.2.2 ∈ drv := by
  match drv, h with
  | [], h => cases h
  | [d0], h =>
    simp only [primInConn, List.mem_cons, List.not_mem_nil, or_false] at h
    subst h; simp
  | [d0, d1], h =>
    simp only [primInConn, List.mem_cons, List.not_mem_nil, or_false] at h
    rcases h with rfl | rfl <;> simp
  | [d0, d1, d2], h =>
    simp only [primInConn, List.mem_cons, List.not_mem_nil, or_false] at h
    rcases h with rfl | rfl | rfl <;> simp
  | d0 :: d1 :: d2 :: d3 :: _, h =>
    simp only [primInConn, List.mem_cons, List.not_mem_nil, or_false] at h
    rcases h with rfl | rfl | rfl | rfl <;> simp

theorem primInConn_idx_nodup (drv : List String) : ((primInConn drv).map (·.2.1)).Nodup := by
  match drv with
  | [] => exact List.nodup_nil
  | [_] => simp [primInConn]
  | [_, _] => simp [primInConn]
  | [_, _, _] => simp [primInConn]
  | _ :: _ :: _ :: _ :: _ => simp [primInConn]

/-! ## `walk` without state dependence -/

theorem walk_eq_flatMap {σ α β} (next : σ → α → σ) (f : σ → α → List β) (g : α → List β) (l : List α)
    (h : ∀ st, ∀ x ∈ l, f st x = g x) (st : σ) : walk next f st l = l.flatMap g := by
  induction l generalizing st with
  | nil => rfl
  | cons x r ih =>
    rw [walk, h st x List.mem_cons_self, ih (fun st y hy => h st y (List.mem_cons_of_mem _ hy)), List.flatMap_cons]

theorem connWalk_eq {β} (tl : TL) (f : Nat → VInst × (String × Nat × String) → List β)
    (g : VInst × (String × Nat × String) → List β) (insts : List VInst)
    (h : ∀ k, ∀ i ∈ insts, ∀ c ∈ inConn tl i, f k (i, c) = g (i, c)) (k0 : Nat) :
    connWalk tl f k0 insts = insts.flatMap fun i => (inConn tl i).flatMap fun c => g (i, c) :=
  walk_eq_flatMap _ _ (fun i => (inConn tl i).flatMap fun c => g (i, c)) insts
    (fun k i hi => walk_eq_flatMap _ _ (fun c => g (i, c)) (inConn tl i) (fun k' c hc => h k' i hi c hc) k) k0

theorem assignPairs_verilogOf (ds : List Decl) (nl : Nl) : assignPairs ds (verilogOf nl) = [] := by
  rw [assignPairs, verilogOf, List.flatMap_append, pairsOf_insts, pairsOf_ports]
  rfl

/-! ## the reader end points of the flat line list -/

/-- the reader pins of the instances in pass-2 order -/
def Nl.pinEps (nl : Nl) : List Ep := nl.gates.flatMap fun g => (primInConn g.drv).map fun c => Ep.cell g.inst c.2.1

theorem fe_flatMap_congr {α β} (l : List α) (f g : α → List β) (h : ∀ x ∈ l, f x = g x) : l.flatMap f = l.flatMap g := by
  induction l with
  | nil => rfl
  | cons x r ih => rw [List.flatMap_cons, List.flatMap_cons, h x List.mem_cons_self, ih (fun y hy => h y (List.mem_cons_of_mem _ hy))]

theorem connWalk_verilogOf {β} (nl : Nl) (f : Nat → VInst × (String × Nat × String) → List β)
    (g : VInst × (String × Nat × String) → List β)
    (h : ∀ k, ∀ x ∈ nl.gates, ∀ c ∈ primInConn x.drv, f k (nlInst x, c) = g (nlInst x, c)) (k0 : Nat) :
    connWalk primTL f k0 (nl.gates.map nlInst) = nl.gates.flatMap fun x => (primInConn x.drv).flatMap fun c => g (nlInst x, c) := by
  rw [connWalk_eq primTL f g _ (by
    intro k i hi c hc
    obtain ⟨x, hx, rfl⟩ := List.mem_map.mp hi
    rw [inConn_nlInst] at hc
    exact h k x hx c hc) k0, List.flatMap_map]
  apply fe_flatMap_congr
  intro x _
  rw [inConn_nlInst]

theorem outLines_readers (ds : List Decl) (hds : ∀ s, outSig ds s = (s, false)) (l : List NlGate) :
    (((l.map nlInst).flatMap fun i => (outConn primTL ds i).map fun o => (⟨.cell i.name o.1, .fork o.2, o.2⟩ : VLine)).map (·.r)) =
      (l.map (·.name)).map Ep.fork := by
  induction l with
  | nil => rfl
  | cons g r ih =>
    rw [List.map_cons, List.flatMap_cons, List.map_append, ih, outConn_nlInst, hds]
    rfl

theorem vFlat_readers (cfg : Cfg) (hbf : cfg.bf = false) (nl : Nl)
    (hnc : ∀ g ∈ nl.gates, ∀ d ∈ g.drv, isConstLit d = false) :
    (vFlat cfg primTL (nl.ports.map nlDecl) (verilogOf nl)).map (·.r) =
      nl.gateNames.map Ep.fork ++ nl.pis.map Ep.fork ++ nl.pinEps ++ nl.pos.map (fun n => Ep.cell n 0) := by
  rw [vFlat, assignPairs_verilogOf, vInsts_verilogOf, inputNames_nlDecl, outputNames_nlDecl, hbf]
  rw [connWalk_verilogOf nl (connLines false)
    (fun ic => [(⟨.fork ic.2.2.2, .cell ic.1.name ic.2.2.1, ic.2.2.2⟩ : VLine)]) (by
      intro k x hx c hc
      have := hnc x hx c.2.2 (mem_primInConn x.drv c hc)
      simp only [connLines, this, Bool.false_eq_true, if_false, List.nil_append, srcFork])]
  simp only [walk, List.append_nil, List.map_append]
  rw [outLines_readers _ (outSig_nlDecl nl.ports)]
  have hB : ∀ l : List String, (l.map fun n => (⟨.cell n 0, .fork n, n⟩ : VLine)).map (·.r) = l.map Ep.fork := by
    intro l; rw [List.map_map]; rfl
  have hE : ∀ l : List String, (l.map fun n => (⟨.fork n, .cell n 0, n⟩ : VLine)).map (·.r) = l.map (fun n => Ep.cell n 0) := by
    intro l; rw [List.map_map]; rfl
  have hD : ∀ l : List NlGate, (l.flatMap fun x => (primInConn x.drv).flatMap fun c =>
      [(⟨.fork c.2.2, .cell (nlInst x).name c.2.1, c.2.2⟩ : VLine)]).map (·.r) =
      l.flatMap fun g => (primInConn g.drv).map fun c => Ep.cell g.inst c.2.1 := by
    intro l
    induction l with
    | nil => rfl
    | cons x r ih =>
      rw [List.flatMap_cons, List.flatMap_cons, List.map_append, ih]
      congr 1
      generalize primInConn x.drv = cs
      induction cs with
      | nil => rfl
      | cons c r2 ih2 => rw [List.flatMap_cons, List.map_append, ih2]; rfl
  rw [hB, hE, hD]
  rfl

/-! ## the reader end points are pairwise different -/

theorem fe_nodup_map {α β} (f : α → β) (hf : ∀ x y, f x = f y → x = y) : ∀ l : List α, l.Nodup → (l.map f).Nodup
  | [], _ => List.nodup_nil
  | x :: r, h => by
    rw [List.nodup_cons] at h
    rw [List.map_cons, List.nodup_cons]
    refine ⟨fun hm => ?_, fe_nodup_map f hf r h.2⟩
    obtain ⟨y, hy, e⟩ := List.mem_map.mp hm
    exact h.1 (hf y x e ▸ hy)

theorem pis_nodup (nl : Nl) (h : nl.portNames.Nodup) : nl.pis.Nodup :=
  List.Pairwise.sublist (List.Sublist.map _ List.filter_sublist) h

theorem pos_nodup (nl : Nl) (h : nl.portNames.Nodup) : nl.pos.Nodup :=
  List.Pairwise.sublist (List.Sublist.map _ List.filter_sublist) h

theorem mem_pinEps (l : List NlGate) (e : Ep)
    (h : e ∈ l.flatMap fun g => (primInConn g.drv).map fun c => Ep.cell g.inst c.2.1) : ∃ x ∈ l, ∃ k, e = Ep.cell x.inst k := by
  obtain ⟨x, hx, he⟩ := List.mem_flatMap.mp h
  obtain ⟨c, _, rfl⟩ := List.mem_map.mp he
  exact ⟨x, hx, c.2.1, rfl⟩

theorem pinEps_nodup (l : List NlGate) (h : (l.map (·.inst)).Nodup) :
    (l.flatMap fun g => (primInConn g.drv).map fun c => Ep.cell g.inst c.2.1).Nodup := by
  induction l with
  | nil => exact List.nodup_nil
  | cons g r ih =>
    rw [List.map_cons, List.nodup_cons] at h
    rw [List.flatMap_cons, List.nodup_append]
    refine ⟨?_, ih h.2, ?_⟩
    · have := fe_nodup_map (fun k => Ep.cell g.inst k) (fun x y e => (Ep.cell.inj e).2) _ (primInConn_idx_nodup g.drv)
      rw [List.map_map] at this
      exact this
    · intro a ha b hb e
      obtain ⟨c, _, rfl⟩ := List.mem_map.mp ha
      obtain ⟨x, hx, k, rfl⟩ := mem_pinEps r b hb
      exact h.1 ((Ep.cell.inj e).1 ▸ List.mem_map_of_mem (f := (·.inst)) hx)

theorem readers_nodup (nl : Nl) (hc : CommonNl nl) :
    (nl.gateNames.map Ep.fork ++ nl.pis.map Ep.fork ++ nl.pinEps ++ nl.pos.map (fun n => Ep.cell n 0)).Nodup := by
  have hfork : ∀ x y : String, Ep.fork x = Ep.fork y → x = y := fun _ _ e => Ep.fork.inj e
  have hcell : ∀ x y : String, Ep.cell x 0 = Ep.cell y 0 → x = y := fun _ _ e => (Ep.cell.inj e).1
  have h1 : (nl.gateNames.map Ep.fork ++ nl.pis.map Ep.fork).Nodup := by
    rw [← List.map_append]
    apply fe_nodup_map Ep.fork hfork
    rw [List.nodup_append]
    exact ⟨hc.gnames, pis_nodup nl hc.ports, fun a ha b hb e => hc.pis b hb (e ▸ ha)⟩
  have h2 : (nl.gateNames.map Ep.fork ++ nl.pis.map Ep.fork ++ nl.pinEps).Nodup := by
    rw [List.nodup_append]
    refine ⟨h1, pinEps_nodup nl.gates hc.inames, ?_⟩
    intro a ha b hb e
    obtain ⟨x, _, k, rfl⟩ := mem_pinEps nl.gates b hb
    rw [← List.map_append] at ha
    obtain ⟨n, _, rfl⟩ := List.mem_map.mp ha
    cases e
  rw [List.nodup_append]
  refine ⟨h2, fe_nodup_map _ hcell _ (pos_nodup nl hc.ports), ?_⟩
  intro a ha b hb e
  obtain ⟨n, hn, rfl⟩ := List.mem_map.mp hb
  rcases List.mem_append.mp ha with ha | ha
  · rw [← List.map_append] at ha
    obtain ⟨m, _, rfl⟩ := List.mem_map.mp ha
    cases e
  · obtain ⟨x, hx, k, rfl⟩ := mem_pinEps nl.gates a ha
    exact hc.idisj x hx ((Ep.cell.inj e).1 ▸ (mem_portNames nl n).mpr (Or.inr hn))

/-! ## the clauses of `verilogOKB` -/

theorem fe_nodupN_of : ∀ l : List Nat, l.Nodup → nodupN l = true
  | [], _ => rfl
  | x :: r, h => by
    rw [List.nodup_cons] at h
    simp only [nodupN, Bool.and_eq_true, Bool.not_eq_true', List.contains_eq_mem, decide_eq_false_iff_not]
    exact ⟨h.1, fe_nodupN_of r h.2⟩

theorem portBitNames_nlDecl (ports : List (Bool × String)) : portBitNames (ports.map nlDecl) = ports.map (·.2) := by
  rw [portBitNames]
  induction ports with
  | nil => rfl
  | cons p r ih =>
    have hk : ((nlDecl p).kind != DKind.wire) = true := by
      simp only [nlDecl]; cases p.1 <;> decide
    rw [List.map_cons, List.filter_cons, hk, if_pos rfl, List.flatMap_cons, ih]
    rfl

theorem ports_declared (ports : List (Bool × String)) :
    ((ports.map (·.2)).all fun p => match lookup (ports.map nlDecl) p with | some d => d.kind != .wire | none => false) = true := by
  rw [List.all_eq_true]
  intro p hp
  obtain ⟨d, hd⟩ := lookup_nlDecl_mem ports p hp
  rw [hd]
  rw [lookup] at hd
  obtain ⟨q, _, rfl⟩ := List.mem_map.mp (List.mem_of_find?_eq_some hd)
  simp only [nlDecl]
  cases q.1 <;> decide

theorem pinOK_o (ds : List Decl) (D : List String) (ty s : String) :
    pinOK primTL ds D ty ("o", .one s) = !(outSig ds s).2 := rfl

theorem pinOK_i (ds : List Decl) (D : List String) (ty d : String) (hcb : isConstBit d = false) (hD : d ∈ D) :
    pinOK primTL ds D ty ("i0", .one d) = true ∧ pinOK primTL ds D ty ("i1", .one d) = true ∧
    pinOK primTL ds D ty ("i2", .one d) = true ∧ pinOK primTL ds D ty ("i3", .one d) = true := by
  have h : (isConstLit d || (!isConstBit d && D.contains d)) = true := by simp [hcb, hD]
  exact ⟨h, h, h, h⟩

theorem primInPins_all (P : String × SelVal → Bool) (drv : List String)
    (h : ∀ d ∈ drv, P ("i0", .one d) = true ∧ P ("i1", .one d) = true ∧ P ("i2", .one d) = true ∧ P ("i3", .one d) = true) :
    (primInPins drv).all P = true := by
  match drv, h with
  | [], _ => rfl
  | [d0], h => simp [primInPins, (h d0 (by simp)).1]
  | [d0, d1], h => simp [primInPins, (h d0 (by simp)).1, (h d1 (by simp)).2.1]
  | [d0, d1, d2], h => simp [primInPins, (h d0 (by simp)).1, (h d1 (by simp)).2.1, (h d2 (by simp)).2.2.1]
  | d0 :: d1 :: d2 :: d3 :: _, h =>
    simp [primInPins, (h d0 (by simp)).1, (h d1 (by simp)).2.1, (h d2 (by simp)).2.2.1, (h d3 (by simp)).2.2.2]

theorem constNames_verilogOf (ds : List Decl) (nl : Nl) (hnc : ∀ g ∈ nl.gates, ∀ d ∈ g.drv, isConstLit d = false) :
    constNames primTL ds (verilogOf nl) = [] := by
  rw [constNames, assignPairs_verilogOf, vInsts_verilogOf]
  rw [connWalk_verilogOf nl _ (fun _ => []) (by
    intro k x hx c hc
    have := hnc x hx c.2.2 (mem_primInConn x.drv c hc)
    simp only [this, Bool.false_eq_true, if_false])]
  simp only [walk, List.nil_append]
  induction nl.gates with
  | nil => rfl
  | cons x r ih =>
    rw [List.flatMap_cons, ih, List.append_nil]
    generalize primInConn x.drv = cs
    induction cs with
    | nil => rfl
    | cons c r2 ih2 => rw [List.flatMap_cons, ih2]; rfl

/-- the Verilog rendering of a closed description is inside the fragment of `verilog_parsed_sem` as soon as the reader end points
of its flat line list are pairwise different -/
theorem verilogOK_verilogOf_of_readers (cfg : Cfg) (nl : Nl) (hc : CommonNl nl) (hcl : ClosedNl nl)
    (h7 : nodupE ((vFlat cfg primTL (nl.ports.map nlDecl) (verilogOf nl)).map (·.r)) = true) :
    verilogOKB cfg primTL nl.portNames (verilogOf nl) = true := by
  have hsd := sigDecls_verilogOf nl hc.ports
  have hD : drivenSigs primTL (nl.ports.map nlDecl) (verilogOf nl) = nl.gateNames ++ nl.pis := by
    rw [← hsd]; exact drivenSigs_verilogOf nl hc.ports
  simp only [verilogOKB, Bool.and_eq_true, hsd, hD]
  refine ⟨⟨⟨⟨⟨⟨⟨⟨⟨⟨?_, ?_⟩, ?_⟩, ?_⟩, ?_⟩, ?_⟩, ?_⟩, ?_⟩, ?_⟩, ?_⟩, ?_⟩
  · rw [assignPairs_verilogOf]; rfl
  · exact ports_declared nl.ports
  · rw [Nl.portNames, posNames_nlDecl]; exact fe_nodupS_of _ hc.ports
  · rw [Nl.portNames, posNames_nlDecl, portBitNames_nlDecl, List.all_eq_true]
    intro n hn
    simpa using hn
  · rw [vInsts_verilogOf, List.all_eq_true]
    intro i hi
    obtain ⟨g, hg, rfl⟩ := List.mem_map.mp hi
    show ((("o", SelVal.one g.name) :: primInPins g.drv).all _) = true
    rw [List.all_cons, pinOK_o, outSig_nlDecl, Bool.and_eq_true]
    refine ⟨rfl, primInPins_all _ _ (fun d hd => ?_)⟩
    exact pinOK_i _ _ _ d (hcl.ncb d (hcl.ops g hg d hd)) (hcl.ops g hg d hd)
  · rw [vInsts_verilogOf, portBitNames_nlDecl, constNames_verilogOf _ nl hc.nc, List.append_nil, List.map_map]
    apply fe_nodupS_of
    show (nl.instNames ++ nl.portNames).Nodup
    rw [List.nodup_append]
    refine ⟨hc.inames, hc.ports, fun a ha b hb e => ?_⟩
    obtain ⟨g, hg, rfl⟩ := List.mem_map.mp ha
    exact hc.idisj g hg (e ▸ hb)
  · exact h7
  · rw [vInsts_verilogOf, List.all_eq_true]
    intro i hi
    obtain ⟨g, hg, rfl⟩ := List.mem_map.mp hi
    simpa [nlInst, instOfGate] using hcl.kinds g hg
  · rw [vInsts_verilogOf, List.all_eq_true]
    intro i hi
    obtain ⟨g, hg, rfl⟩ := List.mem_map.mp hi
    rw [inConn_nlInst]
    exact fe_nodupN_of _ (primInConn_idx_nodup g.drv)
  · rw [outputNames_nlDecl, List.all_eq_true]
    intro n hn
    have : n ∈ nl.gateNames := hc.pos n hn
    simp [this]
  · rw [List.all_eq_true]
    intro n hn
    simp [hcl.ncb n hn]

/-- **the Verilog rendering of a closed description is inside the fragment of `verilog_parsed_sem`** (no branch forks) -/
theorem verilogOK_verilogOf (cfg : Cfg) (hbf : cfg.bf = false) (nl : Nl) (hc : CommonNl nl) (hcl : ClosedNl nl) :
    verilogOKB cfg primTL nl.portNames (verilogOf nl) = true :=
  verilogOK_verilogOf_of_readers cfg nl hc hcl (by
    rw [vFlat_readers cfg hbf nl hc.nc]
    exact fe_nodupE_of _ (readers_nodup nl hc))

theorem benchArity_benchOf (nl : Nl) (hc : CommonNl nl) : benchArityB (benchOf nl) = true := by
  rw [benchArityB, benchGates_benchOf, List.all_eq_true]
  intro b hb
  obtain ⟨g, hg, rfl⟩ := List.mem_map.mp hb
  simp [nlBGate, hc.len g hg]

end KV.Netlist
