import KyupyVerif.Proofs.RemoveLine3
/-! Helper lemmas for C10 (removal of dangling logic), part 4: `Line.remove()` keeps the circuit well-formed (`WFm`) and
embeds the result into the circuit before (`EmbX`, the reader of the removed line being exempt). -/
namespace KV.Transform
open KV

/-- renaming of a `del c.lines[l]` in a circuit with `size` lines: new index ↦ old index -/
def lineRen (size l : Nat) : Ren := ⟨fun x => nmN size l x, fun j => j⟩
/-- renaming of a `del c.nodes[i]` -/
def nodeRen (size i : Nat) : Ren := ⟨fun l => l, fun j => nmN size i j⟩

theorem mvL_eq_some {last b : Nat} {o : Option Nat} {x : Nat} (h : mvL last b o = some x) :
    ∃ y, o = some y ∧ x = mvN (last + 1) b y := by
  cases o with
  | none => simp [mvL] at h
  | some y => rw [mvL_some] at h; exact ⟨y, rfl, (Option.some.inj h).symm⟩

theorem keys_congr (a b : NNet) (hn : b.names = a.names) (hs : b.net.nodes.size = a.net.nodes.size)
    (hk : ∀ x, (b.net.node x).kind = (a.net.node x).kind) : b.keys = a.keys := by
  simp only [NNet.keys, hs]
  apply List.map_congr_left
  intro i _
  simp only [NNet.key, hn, NodeD.isFork, hk]

section step
variable {nn : NNet} (w : WFm nn) {l : Nat} (hl : l < nn.net.lines.size) {net' : Net} (sp : RLSpec nn l net')
include w hl sp

theorem rl_wfm : WFm { nn with net := net' } := by
  have hL : nn.net.lines.size - 1 + 1 = nn.net.lines.size := by omega
  obtain ⟨bd, br, bo, bi⟩ := w.back l hl
  refine ⟨by show nn.names.size = net'.nodes.size; rw [sp.nsize]; exact w.names, ?_, ?_, ?_, ?_, ?_⟩
  · rw [keys_congr nn { nn with net := net' } rfl sp.nsize sp.kind]; exact w.nodup
  · intro i hi
    show i < net'.nodes.size
    rw [sp.nsize]; exact w.io i (by rw [← sp.io]; exact hi)
  · intro l' hl'
    have hl'' : l' < nn.net.lines.size - 1 := by rw [← sp.lsize]; exact hl'
    obtain ⟨hy, hyl, hmv⟩ := nm_facts hl hl''
    obtain ⟨f1, f2, f3, f4⟩ := sp.line l' hl''
    obtain ⟨yd, yr, yo, yi⟩ := w.back _ hy
    show (net'.line l').driver < net'.nodes.size ∧ (net'.line l').reader < net'.nodes.size ∧
      (net'.node (net'.line l').driver).outs.getD (net'.line l').dpin none = some l' ∧
      (net'.node (net'.line l').reader).ins.getD (net'.line l').rpin none = some l'
    rw [sp.nsize, f1, f2, f3, f4]
    refine ⟨yd, yr, ?_, ?_⟩
    · rw [sp.outPin]
      by_cases e1 : (nn.net.line (nmN nn.net.lines.size l l')).driver = (nn.net.line l).driver
      · have hpne : (nn.net.line (nmN nn.net.lines.size l l')).dpin ≠ (nn.net.line l).dpin := by
          intro ep
          rw [e1, ep, bo] at yo
          exact hyl (Option.some.inj yo).symm
        rw [e1] at yo
        simp only [e1, if_true, true_and]
        by_cases hF : (nn.net.node (nn.net.line l).driver).isFork = true
        · simp only [hF, if_true, true_and]
          by_cases hlt : (nn.net.line l).dpin < (nn.net.line (nmN nn.net.lines.size l l')).dpin
          · simp only [hlt, if_true]
            have h1 : ¬ (nn.net.line (nmN nn.net.lines.size l l')).dpin - 1 < (nn.net.line l).dpin := by omega
            have h2 : (nn.net.line (nmN nn.net.lines.size l l')).dpin - 1 + 1 = (nn.net.line (nmN nn.net.lines.size l l')).dpin := by omega
            rw [if_neg h1, h2, yo, mvL_some, hL, hmv]
          · simp only [hlt, if_false]
            have h1 : (nn.net.line (nmN nn.net.lines.size l l')).dpin < (nn.net.line l).dpin := by omega
            rw [if_pos h1, yo, mvL_some, hL, hmv]
        · simp only [hF, Bool.false_eq_true, if_false, false_and]
          rw [if_neg hpne, yo, mvL_some, hL, hmv]
      · simp only [e1, false_and, if_false]
        rw [yo, mvL_some, hL, hmv]
    · rw [sp.inPin]
      have : ¬ ((nn.net.line (nmN nn.net.lines.size l l')).reader = (nn.net.line l).reader ∧
          (nn.net.line (nmN nn.net.lines.size l l')).rpin = (nn.net.line l).rpin) := by
        intro hc
        rw [hc.1, hc.2, bi] at yi
        exact hyl (Option.some.inj yi).symm
      rw [if_neg this, yi, mvL_some, hL, hmv]
  · intro x hx k l'' hp
    have hx' : x < nn.net.nodes.size := by rw [← sp.nsize]; exact hx
    have hp' : (net'.node x).ins.getD k none = some l'' := hp
    rw [sp.inPin] at hp'
    split at hp'
    · exact absurd hp' (by simp)
    · rename_i hcond
      obtain ⟨y0, hy0, e⟩ := mvL_eq_some hp'
      rw [hL] at e
      obtain ⟨a1, a2, a3⟩ := w.fwdIn x hx' k y0 hy0
      have hne : y0 ≠ l := by
        intro e0; subst e0; exact hcond ⟨a2.symm, a3.symm⟩
      obtain ⟨m1, m2⟩ := mv_facts hl a1 hne
      subst e
      obtain ⟨f1, f2, f3, f4⟩ := sp.line _ m1
      show _ < net'.lines.size ∧ (net'.line _).reader = x ∧ (net'.line _).rpin = k
      rw [sp.lsize, f2, f3, m2]
      exact ⟨m1, a2, a3⟩
  · intro x hx k l'' hp
    have hx' : x < nn.net.nodes.size := by rw [← sp.nsize]; exact hx
    have hp' : (net'.node x).outs.getD k none = some l'' := hp
    rw [sp.outPin] at hp'
    -- the original line and its original pin
    have key : ∃ y0 k0, (nn.net.node x).outs.getD k0 none = some y0 ∧ l'' = mvN nn.net.lines.size l y0 ∧ y0 ≠ l ∧
        k = (if x = (nn.net.line l).driver ∧ (nn.net.node (nn.net.line l).driver).isFork = true ∧ (nn.net.line l).dpin < k0
          then k0 - 1 else k0) := by
      by_cases e1 : x = (nn.net.line l).driver
      · rw [if_pos e1] at hp'
        by_cases hF : (nn.net.node x).isFork = true
        · rw [if_pos hF] at hp'
          obtain ⟨y0, hy0, e⟩ := mvL_eq_some hp'
          rw [hL] at e
          refine ⟨y0, _, hy0, e, ?_, ?_⟩
          · intro e0; subst e0
            have := (w.fwdOut x hx' _ _ hy0).2.2
            split at this <;> omega
          · rw [← e1, hF]
            split <;> simp [e1] <;> omega
        · rw [if_neg hF] at hp'
          split at hp'
          · exact absurd hp' (by simp)
          · rename_i hk
            obtain ⟨y0, hy0, e⟩ := mvL_eq_some hp'
            rw [hL] at e
            refine ⟨y0, k, hy0, e, ?_, ?_⟩
            · intro e0; subst e0
              exact hk (w.fwdOut x hx' _ _ hy0).2.2.symm
            · rw [← e1]; simp [hF]
      · rw [if_neg e1] at hp'
        obtain ⟨y0, hy0, e⟩ := mvL_eq_some hp'
        rw [hL] at e
        refine ⟨y0, k, hy0, e, ?_, by simp [e1]⟩
        intro e0; subst e0
        exact e1 (w.fwdOut x hx' _ _ hy0).2.1.symm
    obtain ⟨y0, k0, hy0, e, hne, hk⟩ := key
    obtain ⟨a1, a2, a3⟩ := w.fwdOut x hx' k0 y0 hy0
    obtain ⟨m1, m2⟩ := mv_facts hl a1 hne
    subst e
    obtain ⟨f1, f2, f3, f4⟩ := sp.line _ m1
    show _ < net'.lines.size ∧ (net'.line _).driver = x ∧ (net'.line _).dpin = k
    rw [sp.lsize, f1, f4, m2, a2, a3, hk]
    refine ⟨m1, rfl, ?_⟩
    by_cases e1 : x = (nn.net.line l).driver <;> simp [e1]

/-- the circuit after `l.remove()` embeds into the circuit before; the reader of `l` has lost a pin -/
theorem rl_emb : EmbX nn { nn with net := net' } (lineRen nn.net.lines.size l) (fun j => j = (nn.net.line l).reader) := by
  have hL : nn.net.lines.size - 1 + 1 = nn.net.lines.size := by omega
  refine ⟨?_, ?_, fun _ _ _ _ e => e, ?_, fun j _ => sp.kind j, fun _ _ => rfl, ?_, ?_, ?_, ?_⟩
  · intro j hj; show j < nn.net.nodes.size; rw [← sp.nsize]; exact hj
  · intro l' hl'
    exact (nm_facts hl (by rw [← sp.lsize]; exact hl')).1
  · intro l1 l2 h1 h2 e
    have a1 := (nm_facts hl (by rw [← sp.lsize]; exact h1)).2.2
    have a2 := (nm_facts hl (by rw [← sp.lsize]; exact h2)).2.2
    have e' : nmN nn.net.lines.size l l1 = nmN nn.net.lines.size l l2 := e
    rw [← a1, ← a2, e']
  · show net'.io.map (fun j => j) = nn.net.io
    rw [sp.io]; simp
  · intro j hj
    show j < net'.nodes.size
    rw [sp.nsize]; exact w.io j (by rw [← sp.io]; exact hj)
  · intro j hj hX k
    have hj' : j < nn.net.nodes.size := by rw [← sp.nsize]; exact hj
    show ((net'.node j).ins.getD k none).map (nmN nn.net.lines.size l) = (nn.net.node j).ins.getD k none
    rw [sp.inPin]
    have : ¬ (j = (nn.net.line l).reader ∧ k = (nn.net.line l).rpin) := fun hc => hX hc.1
    rw [if_neg this]
    cases hp : (nn.net.node j).ins.getD k none with
    | none => rfl
    | some y0 =>
      obtain ⟨a1, a2, _⟩ := w.fwdIn j hj' k y0 hp
      have hne : y0 ≠ l := by intro e0; subst e0; exact hX a2.symm
      rw [mvL_some, hL]
      simp only [Option.map_some]
      rw [(mv_facts hl a1 hne).2]
  · intro l' hl'
    have hl'' : l' < nn.net.lines.size - 1 := by rw [← sp.lsize]; exact hl'
    obtain ⟨f1, _, _, f4⟩ := sp.line l' hl''
    obtain ⟨hy, _, _⟩ := nm_facts hl hl''
    refine ⟨?_, f1.symm, ?_⟩
    · show (net'.line l').driver < net'.nodes.size
      rw [f1, sp.nsize]; exact (w.back _ hy).1
    · show (nn.net.line (nmN nn.net.lines.size l l')).dpin = (net'.line l').dpin ∨ (net'.node (net'.line l').driver).isFork = true
      rw [f4]
      split
      · rename_i hc
        right
        have := sp.kind (net'.line l').driver
        rw [(isDff_of_kind this).2.2, f1, hc.1]; exact hc.2.1
      · exact Or.inl rfl

end step
end KV.Transform
