import KyupyVerif.Proofs.WaveTerm

namespace KV.Wave

namespace T
def lt' : T → T → Bool
  | tmin, tmin => false | tmin, _ => true
  | fin _, tmin => false | fin a, fin b => decide (a < b) | fin _, _ => true
  | tmax, tovl => true | tmax, _ => false
  | tovl, _ => false
theorem lt_eq (a b : T) : lt a b = lt' a b := by
  cases a <;> cases b <;> first | rfl | simp [lt, lt', rank]

def le (a b : T) : Prop := lt b a = false

theorem lt_irrefl (a : T) : lt a a = false := by rw [lt_eq]; cases a <;> simp [lt']
theorem le_refl (a : T) : le a a := lt_irrefl a
theorem lt_of_le_of_lt {a b c : T} (h1 : le a b) (h2 : lt b c = true) : lt a c = true := by
  simp only [le, lt_eq] at *; cases a <;> cases b <;> cases c <;> simp [lt'] at * <;> omega
theorem lt_of_lt_of_le {a b c : T} (h1 : lt a b = true) (h2 : le b c) : lt a c = true := by
  simp only [le, lt_eq] at *; cases a <;> cases b <;> cases c <;> simp [lt'] at * <;> omega
theorem le_trans {a b c : T} (h1 : le a b) (h2 : le b c) : le a c := by
  simp only [le, lt_eq] at *; cases a <;> cases b <;> cases c <;> simp [lt'] at * <;> omega
theorem le_of_lt {a b : T} (h : lt a b = true) : le a b := by
  simp only [le, lt_eq] at *; cases a <;> cases b <;> simp [lt'] at * <;> omega
theorem tmin_le (a : T) : le tmin a := by simp [le]
theorem add_lt_add {a b : T} (d : Int) (h : lt a b = true) : lt (a.add d) (b.add d) = true := by
  simp only [lt_eq] at *; cases a <;> cases b <;> simp [lt', add] at * <;> omega
theorem add_le_add {a b : T} (d : Int) (h : le a b) : le (a.add d) (b.add d) := by
  simp only [le, lt_eq] at *; cases a <;> cases b <;> simp [lt', add] at * <;> omega
theorem min_le_left (a b : T) : le (min a b) a := by
  unfold min; split
  · rename_i h; exact le_of_lt h
  · exact le_refl a
theorem min_le_right (a b : T) : le (min a b) b := by
  unfold min; split
  · exact le_refl b
  · rename_i h; simpa [le] using h
theorem lt_of_widerThan {c p : T} {th : Int} (hth : 0 ≤ th) (h : widerThan c p th = true) : lt p c = true := by
  simp only [lt_eq]; cases c <;> cases p <;> simp [widerThan, lt'] at * <;> omega
theorem term_le {a b : T} (ha : a.isFin = true ∨ a = tmin) (hb : b.isTerm = true) : lt a b = true := by
  simp only [lt_eq]; cases a <;> cases b <;> simp_all [lt', isFin, isTerm]
end T

/-- strictly increasing in time order (oldest first) -/
def Incr (l : List T) : Prop := List.Pairwise (fun a b => T.lt a b = true) l
/-- the output stack is newest first, so it must be strictly decreasing -/
def Desc (l : List T) : Prop := List.Pairwise (fun a b => T.lt b a = true) l

structure PolInd (E : Env) (d : Fin 4 → Int) : Prop where
  eq : ∀ (i : Fin 4) p q, E.D i p q = d i

structure InvM (E : Env) (d : Fin 4 → Int) (s : St) : Prop where
  desc : Desc s.z
  top : ∀ x, s.z.head? = some x → T.le x s.prev
  incr : ∀ i, Incr (s.r i)
  wf : ∀ i, ∀ e ∈ s.r i, e = T.tmin ∨ e.isFin = true
  fut : ∀ i, ∀ e ∈ s.r i, T.le s.prev (e.add (d i))

theorem pend_ge_cur (D terms) (s : St) (i : Fin 4) : T.le (cur D terms s) (pend D terms s i) := by
  unfold cur
  match i with
  | 0 => exact T.le_trans (T.min_le_left _ _) (T.min_le_left _ _)
  | 1 => exact T.le_trans (T.min_le_left _ _) (T.min_le_right _ _)
  | 2 => exact T.le_trans (T.min_le_right _ _) (T.min_le_left _ _)
  | 3 => exact T.le_trans (T.min_le_right _ _) (T.min_le_right _ _)

theorem T.lt_trans {a b c : T} (h1 : T.lt a b = true) (h2 : T.lt b c = true) : T.lt a c = true :=
  T.lt_of_lt_of_le h1 (T.le_of_lt h2)

/-- in a strictly decreasing stack every element is ≤ the top -/
theorem desc_le_top {x : T} {z : List T} (h : Desc (x :: z)) : ∀ y ∈ (x :: z), T.le y x := by
  intro y hy
  rcases List.mem_cons.mp hy with rfl | hy
  · exact T.le_refl _
  · exact T.le_of_lt ((List.pairwise_cons.mp h).1 y hy)

theorem desc_tail {z : List T} (h : Desc z) : Desc z.tail := by
  cases z with
  | nil => exact h
  | cons x xs => exact (List.pairwise_cons.mp h).2

theorem incr_tail {l : List T} (h : Incr l) : Incr l.tail := by
  cases l with
  | nil => exact h
  | cons x xs => exact (List.pairwise_cons.mp h).2

/-- all entries of an increasing list are ≥ its head, after adding the same delay -/
theorem head_add_le (l : List T) (term : T) (d : Int) (h : Incr l) : ∀ e ∈ l, T.le ((headT l term).add d) (e.add d) := by
  intro e he
  cases l with
  | nil => simp at he
  | cons x xs =>
    simp only [headT]
    rcases List.mem_cons.mp he with rfl | he
    · exact T.le_refl _
    · exact T.le_of_lt (T.add_lt_add d ((List.pairwise_cons.mp h).1 e he))

theorem stepM (E : Env) (d) (hpol : PolInd E d) (s : St) (hM : InvM E d s)
    (hlt : T.lt (cur E.D E.terms s) .tmax = true) : InvM E d (step E.lut E.D E.terms E.zcap s) := by
  have hne := pick_nonempty E s hlt
  have hpk := pend_pick E.D E.terms s
  -- name the picked operand's remaining list
  obtain ⟨x, xs, hr⟩ : ∃ x xs, s.r (pick E.D E.terms s) = x :: xs := by
    cases h : s.r (pick E.D E.terms s) with
    | nil => exact absurd h hne
    | cons x xs => exact ⟨x, xs, rfl⟩
  have hc : cur E.D E.terms s = x.add (d (pick E.D E.terms s)) := by
    rw [← hpk]; unfold pend; rw [hr, hpol.eq]; simp [headT]
  have hincr_pick := hM.incr (pick E.D E.terms s)
  rw [hr] at hincr_pick
  -- (F1) every entry that remains after this step is ≥ cur
  have hF1 : ∀ j, ∀ e ∈ upd s.r (pick E.D E.terms s) (s.r (pick E.D E.terms s)).tail j,
      T.le (cur E.D E.terms s) (e.add (d j)) := by
    intro j e he
    unfold upd at he
    split at he
    · rename_i hj; subst hj
      rw [hr] at he; simp only [List.tail_cons] at he
      rw [hc]
      exact T.le_of_lt (T.add_lt_add _ ((List.pairwise_cons.mp hincr_pick).1 e he))
    · have h1 := pend_ge_cur E.D E.terms s j
      have h2 := head_add_le (s.r j) (E.terms j) (d j) (hM.incr j) e he
      unfold pend at h1; rw [hpol.eq] at h1
      exact T.le_trans h1 h2
  -- the next edge on the same operand is never earlier than the current one
  have hnext : ∀ q p, T.lt ((headT (s.r (pick E.D E.terms s)).tail (E.terms (pick E.D E.terms s))).add
      (E.D (pick E.D E.terms s) p q)) (cur E.D E.terms s) = false := by
    intro q p
    rw [hpol.eq, hr]; simp only [List.tail_cons]
    cases xs with
    | nil =>
      simp only [headT]
      have hx := hM.wf (pick E.D E.terms s) x (by rw [hr]; simp)
      have : T.lt (cur E.D E.terms s) ((E.terms (pick E.D E.terms s)).add (d (pick E.D E.terms s))) = true := by
        apply T.term_le
        · rw [hc]; rcases hx with rfl | hx
          · right; rfl
          · left; rw [T.add_isFin]; exact hx
        · rw [T.add_isTerm]; exact E.hterm _
      exact T.le_of_lt this
    | cons y ys =>
      simp only [headT]; rw [hc]
      exact T.le_of_lt (T.add_lt_add _ ((List.pairwise_cons.mp hincr_pick).1 y (by simp)))
  have hincr' : ∀ j, Incr (upd s.r (pick E.D E.terms s) (s.r (pick E.D E.terms s)).tail j) := by
    intro j; unfold upd; split
    · exact incr_tail (hM.incr _)
    · exact hM.incr j
  have hwf' : ∀ j, ∀ e ∈ upd s.r (pick E.D E.terms s) (s.r (pick E.D E.terms s)).tail j, e = T.tmin ∨ e.isFin = true := by
    intro j e he; unfold upd at he; split at he
    · exact hM.wf _ e (List.mem_of_mem_tail he)
    · exact hM.wf j e he
  have hsub : ∀ j, ∀ e ∈ upd s.r (pick E.D E.terms s) (s.r (pick E.D E.terms s)).tail j, e ∈ s.r j := by
    intro j e he; unfold upd at he; split at he
    · rename_i hj; subst hj; exact List.mem_of_mem_tail he
    · exact he
  unfold step
  simp only [hnext, Bool.or_false]
  split
  · split
    · rename_i hdiff hcond
      split
      · -- emit
        refine ⟨?_, ?_, hincr', hwf', hF1⟩
        · -- Desc (c :: z)
          apply List.pairwise_cons.mpr
          refine ⟨?_, hM.desc⟩
          intro y hy
          cases hz : s.z with
          | nil => rw [hz] at hy; simp at hy
          | cons t ts =>
            have hlen : (s.z.length == 0) = false := by simp [hz]
            simp only [hlen, Bool.false_or] at hcond
            have hpc := T.lt_of_widerThan (E.hD _ _ _) hcond
            have htop := hM.top t (by simp [hz])
            have hyt := desc_le_top (hz ▸ hM.desc) y (hz ▸ hy)
            exact T.lt_of_le_of_lt (T.le_trans hyt htop) hpc
        · intro y hy; simp at hy; subst hy; exact T.le_refl _
      · -- overflow: prev' = old top, z' = tail
        refine ⟨desc_tail hM.desc, ?_, hincr', hwf', ?_⟩
        · intro y hy
          cases hz : s.z with
          | nil => rw [hz] at hy; simp at hy
          | cons t ts =>
            rw [hz] at hy; simp only [List.tail_cons] at hy
            simp only [headT]
            cases ts with
            | nil => simp at hy
            | cons u us =>
              simp at hy; subst hy
              exact T.le_of_lt ((List.pairwise_cons.mp (hz ▸ hM.desc)).1 u (by simp))
        · intro j e he
          cases hz : s.z with
          | nil => simp only [headT]; exact T.tmin_le _
          | cons t ts =>
            simp only [headT]
            exact T.le_trans (hM.top t (by simp [hz])) (hM.fut j e (hsub j e he))
    · -- filter: prev' = new top
      refine ⟨desc_tail hM.desc, ?_, hincr', hwf', ?_⟩
      · intro y hy
        cases hz : s.z.tail with
        | nil => rw [hz] at hy; simp at hy
        | cons t ts => rw [hz] at hy; simp at hy; subst hy; simp [headT]; exact T.le_refl _
      · intro j e he
        cases hz : s.z.tail with
        | nil => simp only [headT]; exact T.tmin_le _
        | cons t ts =>
          simp only [headT]
          -- t is an element of the old stack, hence ≤ old top ≤ prev ≤ future
          cases hz0 : s.z with
          | nil => rw [hz0] at hz; simp at hz
          | cons a as =>
            have hta : t ∈ (a :: as) := by rw [hz0] at hz; simp at hz; rw [hz]; simp
            have h1 := desc_le_top (hz0 ▸ hM.desc) t hta
            exact T.le_trans (T.le_trans h1 (hM.top a (by simp [hz0]))) (hM.fut j e (hsub j e he))
  · exact ⟨hM.desc, hM.top, hincr', hwf', fun j e he => hM.fut j e (hsub j e he)⟩

theorem run_M (E : Env) (d) (hpol : PolInd E d) (fuel : Nat) (s : St) (hM : InvM E d s) :
    InvM E d (run E.lut E.D E.terms E.zcap fuel s) := by
  induction fuel generalizing s with
  | zero => simpa [run]
  | succ n ih =>
    unfold run; split
    · rename_i hlt; exact ih _ (stepM E d hpol s hM hlt)
    · exact hM

/-- C04 (gate level): with polarity-independent non-negative delays and strictly increasing operand
waveforms, the produced waveform is strictly increasing -/
theorem mono_polind (E : Env) (d) (hpol : PolInd E d) (ws : Fin 4 → List T)
    (hwf : ∀ i, WfRem (ws i)) (hinc : ∀ i, Incr (ws i)) :
    Desc (run E.lut E.D E.terms E.zcap (totalLen ws) (init E.lut ws)).z := by
  apply (run_M E d hpol _ _ _).desc
  refine ⟨?_, ?_, hinc, fun i e he => (hwf i).2 e he, fun i e _ => T.tmin_le _⟩
  · simp only [init]; cases (E.lut % 2 == 1) <;> simp [Desc]
  · intro x hx; simp only [init] at hx ⊢
    cases h : (E.lut % 2 == 1) <;> simp [h] at hx
    subst hx; exact T.le_refl _

end KV.Wave
