import KyupyVerif.Proofs.SubstGen9
/-! Helper lemmas for C10 (`substitute_sem_general`), part 10: the virtual host `hostClr` and the host have the same meaning —
the virtual host is well-formed without the reader-side back pointer (`WFr`), its stale lines are the lines at the ignored
pins, its labellings that are consistent outside the cell are those of the host, and the relational meaning of the cell
(`ImplMatches`) is the same up to the value assigned to an ignored input port (which no equation looks at). -/
namespace KV.Transform
open KV

section clr
variable (h : NNet) (c : Nat) (m : NNet) (sh : Shape) (w : WFm h) (hc : c < h.net.nodes.size)
variable (hil : (h.net.node c).ins.length ≤ sh.inPorts.length)

theorem instIn_hostClr (k : Nat) (hc : c < h.net.nodes.size) (hil : (h.net.node c).ins.length ≤ sh.inPorts.length) :
    instIn (hostClr h c m sh) c k =
    match sh.inPorts[k]? with
    | some inn => if ignoredPort m inn then none else instIn h c k
    | none => none := by
  simp only [instIn]
  rw [hostClr_node]
  simp only [hc, and_self, if_true]
  exact clrIns_getD m sh _ hil k

theorem instOut_hostClr (k : Nat) : instOut (hostClr h c m sh) c k = instOut h c k := by
  simp only [instOut]
  rw [hostClr_node]
  split <;> rfl

theorem hostClr_kind (x : Nat) : ((hostClr h c m sh).net.node x).kind = (h.net.node x).kind := by
  rw [hostClr_node]; split <;> rfl

theorem hostClr_outs (x : Nat) : ((hostClr h c m sh).net.node x).outs = (h.net.node x).outs := by
  rw [hostClr_node]; split <;> rfl

theorem hostClr_node_ne (x : Nat) (hne : x ≠ c) : (hostClr h c m sh).net.node x = h.net.node x := by
  rw [hostClr_node]; simp [hne]

theorem hostClr_sizes : (hostClr h c m sh).net.nodes.size = h.net.nodes.size ∧
    (hostClr h c m sh).net.lines.size = h.net.lines.size ∧ (hostClr h c m sh).net.io = h.net.io ∧
    (hostClr h c m sh).names = h.names := by
  simp [hostClr]

include w hc hil in
/-- the virtual host is well-formed, except that the lines at the ignored pins are stale on the reader side -/
theorem hostClr_wfr : WFr (hostClr h c m sh) := by
  obtain ⟨s1, s2, s3, s4⟩ := hostClr_sizes h c m sh
  refine ⟨by rw [s4, s1]; exact w.names, ?_, by rw [s3, s1]; exact w.io, ?_, ?_, ?_⟩
  · rw [keys_congr h (hostClr h c m sh) s4 s1 (hostClr_kind h c m sh)]; exact w.nodup
  · intro l hl
    rw [s2] at hl
    obtain ⟨b1, b2, b3, _⟩ := w.back l hl
    rw [s1, hostClr_line, hostClr_outs]
    exact ⟨b1, b2, b3⟩
  · intro x hx k l hp
    rw [s1] at hx
    rw [s2, hostClr_line]
    by_cases e : x = c
    · subst e
      have hp' : instIn (hostClr h x m sh) x k = some l := hp
      rw [instIn_hostClr h x m sh k hc hil] at hp'
      split at hp'
      · split at hp'
        · exact absurd hp' (by simp)
        · exact w.fwdIn x hx k l hp'
      · exact absurd hp' (by simp)
    · rw [hostClr_node_ne h c m sh x e] at hp
      exact w.fwdIn x hx k l hp
  · intro x hx k l hp
    rw [s1] at hx
    rw [s2, hostClr_line]
    rw [hostClr_outs] at hp
    exact w.fwdOut x hx k l hp

include w hc hil in
/-- a line of the host that is not at an ignored pin points back in the virtual host -/
theorem hostClr_ptsBack (l : Nat) (hl : l < h.net.lines.size) (hng : ¬ GhostLine h c m sh l) : PtsBack (hostClr h c m sh) l := by
  obtain ⟨_, b2, _, b4⟩ := w.back l hl
  show ((hostClr h c m sh).net.node (h.net.line l).reader).ins.getD (h.net.line l).rpin none = some l
  by_cases e : (h.net.line l).reader = c
  · rw [e] at b4 ⊢
    have h1 : instIn (hostClr h c m sh) c (h.net.line l).rpin = some l := by
      rw [instIn_hostClr h c m sh _ hc hil]
      have hk : (h.net.line l).rpin < sh.inPorts.length := Nat.lt_of_lt_of_le (getD_some_lt b4) hil
      rw [List.getElem?_eq_getElem hk]
      dsimp only
      split
      · rename_i hig
        exact absurd ⟨_, _, b4, List.getElem?_eq_getElem hk, hig⟩ hng
      · exact b4
    exact h1
  · rw [hostClr_node_ne h c m sh _ e]; exact b4

include w hc hil in
/-- a line at a pin of the virtual host is not at an ignored pin of the host -/
theorem hostClr_pin_notGhost (x k l : Nat) (hx : x < h.net.nodes.size)
    (hp : ((hostClr h c m sh).net.node x).ins.getD k none = some l) : ¬ GhostLine h c m sh l := by
  rintro ⟨k0, inn, h1, h2, h3⟩
  obtain ⟨_, a2, a3⟩ := w.fwdIn c hc k0 l h1
  by_cases e : x = c
  · subst e
    have hp' : instIn (hostClr h x m sh) x k = some l := hp
    rw [instIn_hostClr h x m sh k hc hil] at hp'
    split at hp'
    · rename_i inn' hinn'
      split at hp'
      · exact absurd hp' (by simp)
      · rename_i hni
        have := (w.fwdIn x hx k l hp').2.2
        have hk : k = k0 := by rw [← this, ← a3]
        subst hk
        rw [h2] at hinn'
        cases hinn'
        exact hni h3
    · exact absurd hp' (by simp)
  · rw [hostClr_node_ne h c m sh x e] at hp
    exact e ((w.fwdIn x hx k l hp).2.1.symm.trans a2)

/-- the state elements and ports are the same nodes -/
theorem hostClr_spN (j : Nat) : spN (hostClr h c m sh).net j = spN h.net j := by
  simp only [spN, List.contains_iff_mem]
  have hm : j ∈ (hostClr h c m sh).net.sNodes ↔ j ∈ h.net.sNodes := by
    rw [mem_sNodes, mem_sNodes, (hostClr_sizes h c m sh).2.2.1, (hostClr_sizes h c m sh).1]
    have hk := isDff_of_kind (hostClr_kind h c m sh j)
    rw [hk.1, hk.2.1]
  by_cases h1 : j ∈ h.net.sNodes
  · simp [h1, hm.mpr h1]
  · have : ¬ j ∈ (hostClr h c m sh).net.sNodes := fun x => h1 (hm.mp x)
    simp [h1, this]

/-- outside the cell the virtual host and the host have the same equations -/
theorem consOff_hostClr {α : Type _} (S : Nat → Prop) (z : α) (neg : α → α) (prim : String → α → α → α → α → α) (an v : Nat → α) :
    ConsOff (hostClr h c m sh) (fun d => S d ∨ d = c) z neg prim an v ↔ ConsOff h (fun d => S d ∨ d = c) z neg prim an v := by
  have key : ∀ l, (h.net.line l).driver ≠ c →
      lineEq (hostClr h c m sh).net (spN (hostClr h c m sh).net) z neg prim an v l = lineEq h.net (spN h.net) z neg prim an v l := by
    intro l hne
    have : spN (hostClr h c m sh).net = spN h.net := funext (hostClr_spN h c m sh)
    rw [this]
    exact lineEq_frame h.net (hostClr h c m sh).net _ z neg prim an v l rfl rfl (hostClr_node_ne h c m sh _ hne)
  constructor
  · intro hc' l hl hnS
    rw [← key l (fun e => hnS (Or.inr e))]
    exact hc' l hl hnS
  · intro hc' l hl hnS
    rw [hostClr_line] at hnS
    rw [key l (fun e => hnS (Or.inr e))]
    exact hc' l hl hnS

end clr
end KV.Transform

namespace KV.Transform
open KV

/-- a consistent labelling stays consistent when the assignment changes only at nodes that drive no line -/
theorem consN_congr_an {α : Type _} (nn : NNet) (z : α) (neg : α → α) (prim : String → α → α → α → α → α) (an1 an2 vm : Nat → α)
    (h : ∀ l, l < nn.net.lines.size → an1 (nn.net.line l).driver = an2 (nn.net.line l).driver)
    (hc : ConsN nn z neg prim an1 vm) : ConsN nn z neg prim an2 vm := by
  intro l hl
  rw [hc l hl]
  apply lineEq_congr nn.net nn.net
  · rfl
  · rfl
  · simp only [spN]
    split
    · simp only [Option.map_some]; rw [h l hl]
    · rfl
  · intro k; rfl

/-- the relational meaning of the cell in two hosts that show the same instance to the implementation: same absent lines,
    same output lines, same value at every input port that has a reader -/
theorem implMatches_transfer {α : Type _} (H1 H2 : NNet) (c : Nat) (m : NNet) (sh : Shape) (mw : WF m) (z : α) (neg : α → α)
    (prim : String → α → α → α → α → α) (anm vm v : Nat → α)
    (hdead : deadLine H1 c m sh = deadLine H2 c m sh) (hout : ∀ k, instOut H1 c k = instOut H2 c k)
    (hport : ∀ p ∈ m.net.io, 0 < (m.net.node p).outs.length → portVal H1 c sh z v p = portVal H2 c sh z v p)
    (hM : ImplMatches H1 c m sh z neg prim anm vm v) :
    ImplMatches H2 c m sh z neg prim (fun p => if p ∈ m.net.io then portVal H2 c sh z v p else anm p) vm v := by
  obtain ⟨h1, h2, h3⟩ := hM
  refine ⟨?_, fun p hp => by simp [hp], fun k il ll hk hll => h3 k il ll hk (by rw [hout]; exact hll)⟩
  rw [← hdead]
  apply consN_congr_an _ z neg prim anm _ vm _ h1
  intro l hl
  rw [cutIns_lsize] at hl
  rw [cutIns_line]
  by_cases hio : (m.net.line l).driver ∈ m.net.io
  · simp only [hio, if_true]
    rw [h2 _ hio]
    apply hport _ hio
    exact Nat.lt_of_le_of_lt (Nat.zero_le _) (getD_some_lt (mw.back l hl).2.2.1)
  · simp [hio]

section clr2
variable (h : NNet) (c : Nat) (m : NNet) (sh : Shape) (hc : c < h.net.nodes.size)
variable (hil : (h.net.node c).ins.length ≤ sh.inPorts.length) (hs : implShape m = some sh)
include hc hil hs

theorem portVal_hostClr {α : Type _} (z : α) (v : Nat → α) (p : Nat) (hpos : 0 < (m.net.node p).outs.length) :
    portVal (hostClr h c m sh) c sh z v p = portVal h c sh z v p := by
  simp only [portVal]
  rw [instIn_hostClr h c m sh _ hc hil]
  cases hp : sh.inPorts[sh.inPorts.idxOf p]? with
  | none =>
    have hlen : sh.inPorts.length ≤ sh.inPorts.idxOf p := by
      rw [List.getElem?_eq_none_iff] at hp; exact hp
    have : instIn h c (sh.inPorts.idxOf p) = none := by
      simp only [instIn, List.getD_eq_getElem?_getD]
      rw [List.getElem?_eq_none (by omega)]; rfl
    rw [this]
  | some inn =>
    have hmem : inn ∈ sh.inPorts := List.mem_of_getElem? hp
    have : inn = p := by
      have hlt : sh.inPorts.idxOf p < sh.inPorts.length := (List.getElem?_eq_some_iff.mp hp).1
      have := List.getElem_idxOf hlt
      rw [List.getElem?_eq_getElem hlt] at hp
      rw [← Option.some.inj hp, this]
    subst this
    have : ignoredPort m inn = false := by
      simp only [ignoredPort, beq_eq_false_iff_ne, ne_eq]; omega
    simp [this]

theorem deadLine_hostClr : deadLine (hostClr h c m sh) c m sh = deadLine h c m sh := by
  funext l
  simp only [deadLine]
  by_cases h1 : (m.net.io.contains (m.net.line l).driver && (m.net.node (m.net.line l).driver).ins.length == 0 &&
      (m.net.node (m.net.line l).driver).outs.length == 1) = true
  · simp only [h1, Bool.true_and]
    simp only [Bool.and_eq_true, beq_iff_eq] at h1
    obtain ⟨⟨a1, a2⟩, a3⟩ := h1
    have hin : (m.net.line l).driver ∈ sh.inPorts := (mem_inPorts hs _).mpr ⟨by simpa using a1, a2⟩
    rw [instIn_hostClr h c m sh _ hc hil, getElem?_idxOf_mem hin]
    have : ignoredPort m (m.net.line l).driver = false := by
      simp only [ignoredPort, beq_eq_false_iff_ne, ne_eq]; omega
    simp [this]
  · have : (m.net.io.contains (m.net.line l).driver && (m.net.node (m.net.line l).driver).ins.length == 0 &&
        (m.net.node (m.net.line l).driver).outs.length == 1) = false := by simpa using h1
    simp only [this, Bool.false_and]

/-- the meaning of the cell in the virtual host gives its meaning in the host … -/
theorem implMatches_of_hostClr {α : Type _} (mw : WF m) (z : α) (neg : α → α) (prim : String → α → α → α → α → α)
    (anm vm v : Nat → α) (hM : ImplMatches (hostClr h c m sh) c m sh z neg prim anm vm v) :
    ImplMatches h c m sh z neg prim (fun p => if p ∈ m.net.io then portVal h c sh z v p else anm p) vm v :=
  implMatches_transfer (hostClr h c m sh) h c m sh mw z neg prim anm vm v (deadLine_hostClr h c m sh hc hil hs)
    (instOut_hostClr h c m sh) (fun p _ hpos => portVal_hostClr h c m sh hc hil hs z v p hpos) hM

/-- … and conversely -/
theorem implMatches_to_hostClr {α : Type _} (mw : WF m) (z : α) (neg : α → α) (prim : String → α → α → α → α → α)
    (anm vm v : Nat → α) (hM : ImplMatches h c m sh z neg prim anm vm v) :
    ImplMatches (hostClr h c m sh) c m sh z neg prim
      (fun p => if p ∈ m.net.io then portVal (hostClr h c m sh) c sh z v p else anm p) vm v :=
  implMatches_transfer h (hostClr h c m sh) c m sh mw z neg prim anm vm v (deadLine_hostClr h c m sh hc hil hs).symm
    (fun k => (instOut_hostClr h c m sh k).symm) (fun p _ hpos => (portVal_hostClr h c m sh hc hil hs z v p hpos).symm) hM

end clr2
end KV.Transform
