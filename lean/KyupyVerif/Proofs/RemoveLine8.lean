import KyupyVerif.Proofs.RemoveLine7
/-! Helper lemmas for C10 (removal of dangling logic), part 8: every consistent labelling of the circuit after
`remove_dangling_nodes` extends to a consistent labelling of the circuit before (`Ext`): a removed node has no connected
output when it is removed, so the lines removed with it are driven by nodes whose inputs are still there — their values
are what their drivers compute; no acyclicity assumption is needed (removed logic cannot contain a cycle). -/
namespace KV.Transform
open KV

/-- `ConsOff` looks at the assignment only at nodes and at the labelling only at lines of the circuit -/
theorem consOff_congr_vals {α : Type _} {nn : NNet} (w : WFm nn) (S : Nat → Prop) (z : α) (neg : α → α)
    (prim : String → α → α → α → α → α) (an1 an2 v1 v2 : Nat → α) (ha : ∀ j, j < nn.net.nodes.size → an1 j = an2 j)
    (hv : ∀ l, l < nn.net.lines.size → v1 l = v2 l) (hc : ConsOff nn S z neg prim an1 v1) : ConsOff nn S z neg prim an2 v2 := by
  intro l hl hnS
  rw [← hv l hl, hc l hl hnS]
  symm
  apply lineEq_congr
  · rfl
  · rfl
  · simp only [spN]
    split
    · simp only [Option.map_some]; rw [ha _ (w.back l hl).1]
    · rfl
  · intro k
    cases ho : (nn.net.node (nn.net.line l).driver).inPin k with
    | none => rfl
    | some x =>
      simp only [Option.map_some]
      rw [hv x (w.fwdIn _ (w.back l hl).1 k x ho).1]

/-- every labelling of `nn'` consistent outside `S` extends to a labelling of `nn` consistent outside `S` -/
def Ext {α : Type _} (z : α) (neg : α → α) (prim : String → α → α → α → α → α) (nn nn' : NNet) (r : Ren) : Prop :=
  ∀ (S : Nat → Prop) (an' v' : Nat → α), ConsOff nn' (fun j' => S (r.node j')) z neg prim an' v' →
    ∃ an v, ConsOff nn S z neg prim an v ∧ (∀ l', l' < nn'.net.lines.size → v (r.line l') = v' l') ∧
      (∀ j', j' < nn'.net.nodes.size → an (r.node j') = an' j')

theorem Ext.refl {α : Type _} (z : α) (neg : α → α) (prim : String → α → α → α → α → α) (nn : NNet) : Ext z neg prim nn nn Ren.id :=
  fun _ an' v' hc => ⟨an', v', hc, fun _ _ => rfl, fun _ _ => rfl⟩

theorem Ext.trans {α : Type _} {z : α} {neg : α → α} {prim : String → α → α → α → α → α} {a b c : NNet} {r1 r2 : Ren}
    (e2 : Emb b c r2) (h1 : Ext z neg prim a b r1) (h2 : Ext z neg prim b c r2) : Ext z neg prim a c (r1.comp r2) := by
  intro S an' v' hc
  obtain ⟨anb, vb, cb, eb1, eb2⟩ := h2 (fun j => S (r1.node j)) an' v' hc
  obtain ⟨ana, va, ca, ea1, ea2⟩ := h1 S anb vb cb
  refine ⟨ana, va, ca, fun l' hl' => ?_, fun j' hj' => ?_⟩
  · show va (r1.line (r2.line l')) = v' l'
    rw [ea1 _ (e2.lineLt l' hl'), eb1 l' hl']
  · show ana (r1.node (r2.node j')) = an' j'
    rw [ea2 _ (e2.nodeLt j' hj'), eb2 j' hj']

theorem find?_inv (n : Nat) (f : Nat → Nat) (hinj : ∀ a b, a < n → b < n → f a = f b → a = b) (a : Nat) (ha : a < n) :
    (List.range n).find? (fun b => f b == f a) = some a := by
  cases hf : (List.range n).find? (fun b => f b == f a) with
  | none =>
    rw [List.find?_eq_none] at hf
    have := hf a (List.mem_range.mpr ha)
    simp at this
  | some b =>
    have h1 := List.find?_some hf
    have h2 := List.mem_range.mp (List.mem_of_find?_eq_some hf)
    simp only [beq_iff_eq] at h1
    rw [hinj b a h2 ha h1]

theorem find?_none_of (n : Nat) (f : Nat → Nat) (y : Nat) (h : ¬ ∃ b, b < n ∧ f b = y) :
    (List.range n).find? (fun b => f b == y) = none := by
  rw [List.find?_eq_none]
  intro b hb
  simp only [beq_iff_eq]
  intro e
  exact h ⟨b, List.mem_range.mp hb, e⟩

/-- extension over one removed node -/
theorem ext_of_emb {α : Type _} (z : α) (neg : α → α) (prim : String → α → α → α → α → α) (nn nn' : NNet) (r : Ren)
    (w : WFm nn) (w' : WFm nn') (e : Emb nn nn' r) (x : Nat)
    (houts : ∀ l, l < nn.net.lines.size → (nn.net.line l).driver ≠ x)
    (lsurj : ∀ l, l < nn.net.lines.size → (nn.net.line l).reader ≠ x → ∃ l', l' < nn'.net.lines.size ∧ r.line l' = l) :
    Ext z neg prim nn nn' r := by
  intro S an' v' hc
  let invL : Nat → Option Nat := fun l => (List.range nn'.net.lines.size).find? (fun l' => r.line l' == l)
  let invN : Nat → Option Nat := fun j => (List.range nn'.net.nodes.size).find? (fun j' => r.node j' == j)
  let an : Nat → α := fun j => match invN j with | some j' => an' j' | none => z
  let vb : Nat → α := fun l => match invL l with | some l' => v' l' | none => z
  let v : Nat → α := fun l => match invL l with
    | some l' => v' l'
    | none => lineEq nn.net (spN nn.net) z neg prim an vb l
  have hinvL : ∀ l', l' < nn'.net.lines.size → invL (r.line l') = some l' :=
    fun l' hl' => find?_inv _ r.line e.lineInj l' hl'
  have hinvN : ∀ j', j' < nn'.net.nodes.size → invN (r.node j') = some j' :=
    fun j' hj' => find?_inv _ r.node e.nodeInj j' hj'
  have hv : ∀ l', l' < nn'.net.lines.size → v (r.line l') = v' l' := by
    intro l' hl'; show (match invL (r.line l') with | some l' => v' l' | none => _) = _; rw [hinvL l' hl']
  have hvb : ∀ l', l' < nn'.net.lines.size → vb (r.line l') = v' l' := by
    intro l' hl'; show (match invL (r.line l') with | some l' => v' l' | none => _) = _; rw [hinvL l' hl']
  have ha : ∀ j', j' < nn'.net.nodes.size → an (r.node j') = an' j' := by
    intro j' hj'; show (match invN (r.node j') with | some j' => an' j' | none => _) = _; rw [hinvN j' hj']
  refine ⟨an, v, ?_, hv, ha⟩
  apply e.extend S z neg prim an v
  · exact consOff_congr_vals w' _ z neg prim an' _ v' _ (fun j hj => (ha j hj).symm) (fun l hl => (hv l hl).symm) hc
  · intro l hl hni _
    have hnone : invL l = none := find?_none_of _ r.line l hni
    have hvl : v l = lineEq nn.net (spN nn.net) z neg prim an vb l := by
      show (match invL l with | some l' => v' l' | none => _) = _; rw [hnone]
    rw [hvl]
    apply lineEq_congr
    · rfl
    · rfl
    · rfl
    · intro k
      cases ho : (nn.net.node (nn.net.line l).driver).inPin k with
      | none => rfl
      | some l0 =>
        simp only [Option.map_some]
        obtain ⟨a1, a2, _⟩ := w.fwdIn _ (w.back l hl).1 k l0 ho
        obtain ⟨l0', hl0', e0⟩ := lsurj l0 a1 (by rw [a2]; exact houts l hl)
        rw [← e0, hv l0' hl0', hvb l0' hl0']

end KV.Transform
