import KyupyVerif.Proofs.WaveIOArrays
/-! CPU vs GPU-kernel code path of the capture (`wave_capture_cpu` over the slice `c[c_loc:c_loc+c_len]` vs the index loop of
`wave_capture_gpu`), `sd = 0`: the two scans agree on every region, and both return the capture record of the waveform the
region encodes (`Wave.captureWv ∘ readWave`, the model of C13). -/
namespace KV.WaveIO
open KV.Wave KV.Grid

theorem scan_done (time : T) (cells : List T) (s : ScanSt) (h : s.done = true) :
    cells.foldl (scanStep time) s = s := by
  induction cells with
  | nil => rfl
  | cons t r ih =>
    simp only [List.foldl_cons]
    have : scanStep time s t = s := by unfold scanStep; simp [h]
    rw [this, ih]

/-- the scan loop computes the fold of `capStep` over the entries before the first terminator cell, and the overflow flag
    of that cell -/
theorem scan_spec (time : T) (cells : List T) (st : CapSt) :
    (cells.foldl (scanStep time) ⟨st, false, false⟩).st = (readWave cells).ents.foldl (capStep time) st ∧
    (cells.foldl (scanStep time) ⟨st, false, false⟩).ovl = ((readWave cells).term == T.tovl) := by
  induction cells generalizing st with
  | nil => exact ⟨rfl, rfl⟩
  | cons t r ih =>
    simp only [List.foldl_cons]
    by_cases he : isEnd t = true
    · have hs : scanStep time ⟨st, false, false⟩ t = ⟨st, t == T.tovl, true⟩ := by
        unfold scanStep; simp [he]
      rw [hs, scan_done time r _ rfl, readWave_end t r he]
      exact ⟨rfl, rfl⟩
    · have he' : isEnd t = false := by simpa using he
      have hs : scanStep time ⟨st, false, false⟩ t = ⟨capStep time st t, false, false⟩ := by
        unfold scanStep; simp [he']
      rw [hs, readWave_cons t r he']
      exact ih (capStep time st t)

theorem rdCells_head (c : Col) (loc : Int) (len : Nat) (h : 0 < len) : (rdCells c loc len).head? = some (c loc) := by
  obtain ⟨n, rfl⟩ : ∃ n, len = n + 1 := ⟨len - 1, by omega⟩
  unfold rdCells
  rw [List.range_succ_eq_map]
  simp

/-- **capture, one work item**: the slice scan of the CPU path and the index loop of the kernel return the same record for
    every memory, region (`c_len ≥ 1`) and capture time -/
theorem capture_paths (c : Col) (loc : Int) (len : Nat) (hlen : 0 < len) (time : T) :
    gpuCapture c loc len time = cpuCapture c loc len time := by
  unfold gpuCapture cpuCapture
  have h1 : (List.range len).foldl (fun s (tidx : Nat) => scanStep time s (c (loc + (tidx : Int)))) scanInit =
      (rdCells c loc len).foldl (scanStep time) scanInit := by
    unfold rdCells
    rw [List.foldl_map]
  rw [h1]
  show _ = capOf ((rdCells c loc len).head? == some T.tmin) _
  rw [rdCells_head c loc len hlen]
  congr 1

theorem head_readWave (cells : List T) : ((readWave cells).ents.head? == some T.tmin) = (cells.head? == some T.tmin) := by
  cases cells with
  | nil => rfl
  | cons t r =>
    by_cases he : isEnd t = true
    · rw [readWave_end t r he]
      cases t <;> simp_all [isEnd]
    · have he' : isEnd t = false := by simpa using he
      rw [readWave_cons t r he']
      rfl

/-- both scans return the capture record of the waveform the region encodes — the capture model of C13 (`captureWv`, of
    which `C13.capture_faithful` says what it means) applied to the waveform read back by `readWave` -/
theorem cpuCapture_eq_captureWv (c : Col) (loc : Int) (len : Nat) (time : T) :
    cpuCapture c loc len time = captureWv (readWave (rdCells c loc len)) time := by
  show capOf ((rdCells c loc len).head? == some T.tmin) ((rdCells c loc len).foldl (scanStep time) scanInit) = _
  unfold captureWv capOf
  obtain ⟨h1, h2⟩ := scan_spec time (rdCells c loc len) { eat := T.tmax, lst := T.tmin, final := false, val := false }
  simp only [scanInit] at *
  rw [h1, h2, head_readWave]

/-! ### which rows are captured -/
theorem foldl_updN_const {α} (g : Nat → α) (R : List Nat) (r0 : Nat → Option α) (y : Nat) :
    R.foldl (fun r z => updN r z (some (g z))) r0 y = if y ∈ R then some (g y) else r0 y := by
  induction R generalizing r0 with
  | nil => simp
  | cons z R ih =>
    simp only [List.foldl_cons]
    rw [ih]
    by_cases hy : y ∈ R
    · simp [hy]
    · by_cases hz : y = z
      · subst hz; simp [hy, updN]
      · simp [hy, hz, updN]

theorem cpuCToS_spec (tb : Tab) (time : T) (c : Col) (res : Nat → Option Cap) (y : Nat) :
    cpuCToS tb time c res y =
      if y ∈ cpuCaptureRows tb then some (cpuCapture c (tb.ppoLoc y) (tb.ppoCap y) time) else res y := by
  unfold cpuCToS
  exact foldl_updN_const (fun y => cpuCapture c (tb.ppoLoc y) (tb.ppoCap y) time) _ res y

theorem mem_cpuCaptureRows (tb : Tab) (y : Nat) :
    y ∈ cpuCaptureRows tb ↔ (y < tb.nIo ∧ 0 ≤ tb.ppoLoc y) ∨ (tb.nIo ≤ y ∧ y < tb.sLen) := by
  unfold cpuCaptureRows
  simp only [List.mem_append, List.mem_filter, List.mem_range, decide_eq_true_eq, List.mem_range'_1]
  constructor
  · rintro (h | h)
    · exact Or.inl h
    · exact Or.inr ⟨h.1, by omega⟩
  · rintro (h | h)
    · exact Or.inl h
    · exact Or.inr ⟨h.1, by omega⟩

/-- the kernel launch of `wave_capture_gpu`, no hypotheses: row `y` of lane `x` is captured iff `x < sims`, `y < s_len`
    and its (P)PO slot has memory -/
theorem gpuCToS_spec (tb : Tab) (time : T) (sims bx by_ : Nat) (hbx : 0 < bx) (hby : 0 < by_) (c : Nat → Col)
    (res : Nat → Nat → Option Cap) (x y : Nat) :
    gpuCToS tb time sims bx by_ c res x y =
      if x < sims ∧ y < tb.sLen ∧ 0 ≤ tb.ppoLoc y then some (gpuCapture (c x) (tb.ppoLoc y) (tb.ppoCap y) time) else res x y := by
  have hrun : gpuCToS tb time sims bx by_ c res =
      runLanes (fun x y r => if 0 ≤ tb.ppoLoc y then updN r y (some (gpuCapture (c x) (tb.ppoLoc y) (tb.ppoCap y) time)) else r)
        (kernelThreads sims tb.sLen bx by_) res := by
    unfold gpuCToS runLanes kernelThreads
    rw [← launch_guarded (fun p res => onLane res p.1 (fun r =>
      if 0 ≤ tb.ppoLoc p.2 then updN r p.2 (some (gpuCapture (c p.1) (tb.ppoLoc p.2) (tb.ppoCap p.2) time)) else r))]
    congr 1
    funext res p
    unfold gpuCaptureThread
    by_cases h1 : p.1 < sims <;> by_cases h2 : p.2 < tb.sLen
    · have g1 : ¬ p.2 ≥ tb.sLen := by omega
      have g2 : ¬ p.1 ≥ sims := by omega
      simp only [h1, h2, g1, g2, and_self, if_true, if_false]
      by_cases h3 : tb.ppoLoc p.2 < 0
      · have : ¬ 0 ≤ tb.ppoLoc p.2 := by omega
        simp only [h3, if_true, this, if_false]
        funext j; unfold onLane; simp
      · have : 0 ≤ tb.ppoLoc p.2 := by omega
        simp only [h3, if_false, this, if_true]
    · have g1 : p.2 ≥ tb.sLen := by omega
      simp only [h1, h2, g1, and_false, if_true, if_false]
    · have g2 : p.1 ≥ sims := by omega
      have g1 : ¬ p.2 ≥ tb.sLen := by omega
      simp only [h1, h2, g1, g2, false_and, if_true, if_false]
      split <;> rfl
    · have g1 : p.2 ≥ tb.sLen := by omega
      simp only [h1, h2, g1, false_and, if_true, if_false]
  rw [hrun, runLanes_kernel _ _ _ _ _ hbx hby]
  by_cases hx : x < sims
  · rw [if_pos hx]
    have := foldl_rows_pointwise (fun y => 0 ≤ tb.ppoLoc y)
      (fun y (_ : Option Cap) => some (gpuCapture (c x) (tb.ppoLoc y) (tb.ppoCap y) time)) tb.sLen (res x)
    rw [this]
    simp only [hx, true_and]
  · rw [if_neg hx]
    have : ¬ (x < sims ∧ y < tb.sLen ∧ 0 ≤ tb.ppoLoc y) := fun h => hx h.1
    rw [if_neg this]

end KV.WaveIO
