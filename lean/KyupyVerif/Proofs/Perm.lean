
namespace KV.Perm

/-! probe: footprint threads commute; any permutation of a level gives the same memory -/
abbrev Mem (C : Type) := Nat → C

/-- a thread: reads addresses `rd`, writes addresses `wr`; `f` depends only on `rd` and changes only `wr` -/
structure Th (C : Type) where
  rd : Nat → Prop
  wr : Nat → Prop
  f : Mem C → Mem C
  frame : ∀ m a, ¬ wr a → f m a = m a
  dep : ∀ m m', (∀ a, rd a → m a = m' a) → ∀ a, wr a → f m a = f m' a

def indep {C} (s t : Th C) : Prop := ∀ a, s.wr a → ¬ t.rd a ∧ ¬ t.wr a

theorem th_comm {C} (s t : Th C) (h1 : indep s t) (h2 : indep t s) (m : Mem C) :
    t.f (s.f m) = s.f (t.f m) := by
  funext a
  by_cases hs : s.wr a
  · have ht : ¬ t.wr a := (h1 a hs).2
    rw [t.frame _ a ht]
    apply s.dep _ _ _ a hs
    intro b hb
    have : ¬ t.wr b := fun hw => (h2 b hw).1 hb
    exact (t.frame m b this).symm
  · rw [s.frame _ a hs]
    by_cases ht : t.wr a
    · apply t.dep _ _ _ a ht
      intro b hb
      have : ¬ s.wr b := fun hw => (h1 b hw).1 hb
      exact s.frame m b this
    · rw [t.frame _ a ht, t.frame _ a ht, s.frame _ a hs]

def runL {C} (l : List (Th C)) (m : Mem C) : Mem C := l.foldl (fun m t => t.f m) m

theorem runL_perm {C} (l l' : List (Th C)) (hp : l.Perm l')
    (hind : ∀ s ∈ l, ∀ t ∈ l, s ≠ t → indep s t) (hnd : l.Nodup) (m : Mem C) :
    runL l m = runL l' m := by
  induction hp generalizing m with
  | nil => rfl
  | cons x _ ih =>
    simp only [runL, List.foldl_cons]
    apply ih
    · intro s hs t ht hne; exact hind s (List.mem_cons_of_mem _ hs) t (List.mem_cons_of_mem _ ht) hne
    · exact (List.nodup_cons.mp hnd).2
  | swap x y l =>
    simp only [runL, List.foldl_cons]
    have hne : y ≠ x := by
      intro h; subst h; simp at hnd
    have := th_comm y x (hind y (by simp) x (by simp) hne) (hind x (by simp) y (by simp) (Ne.symm hne)) m
    rw [this]
  | trans h1 h2 ih1 ih2 =>
    rw [ih1 hind hnd]
    apply ih2
    · intro s hs t ht hne; exact hind s (h1.mem_iff.mpr hs) t (h1.mem_iff.mpr ht) hne
    · exact h1.nodup_iff.mp hnd

end KV.Perm
