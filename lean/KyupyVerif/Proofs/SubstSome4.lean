import KyupyVerif.Proofs.SubstSome3
/-! C10, audit finding 6 (progress of `substitute`), part 4: `substituteCore` succeeds for implementations with and without
designated cell; the circuit it builds is well-formed up to trailing `None`s (from the lockstep certificates); **`substitute`
returns a circuit** (`substitute_some`). -/
namespace KV.Transform
open KV

theorem ghost_facts (h : NNet) (c : Nat) (m : NNet) (sh : Shape) (w : WFm h) (hc : c < h.net.nodes.size)
    (hself : ∀ ll, GhostLine h c m sh ll → (h.net.line ll).driver ≠ c) (l0 : Nat) (hg : GhostLine h c m sh l0) :
    l0 < h.net.lines.size ∧ l0 ∉ (h.net.node c).outs.filterMap id ∧ (h.net.line l0).driver < h.net.nodes.size ∧
      (h.net.line l0).driver ≠ c := by
  have hg' := hg
  obtain ⟨k, inn, h1, _, _⟩ := hg'
  have hl := (w.fwdIn c hc k l0 h1).1
  refine ⟨hl, ?_, (w.back l0 hl).1, hself l0 hg⟩
  intro hm
  obtain ⟨k', hk'⟩ := (mem_filterMap_id _ l0).mp hm
  exact hself l0 hg (w.fwdOut c hc k' l0 hk').2.1

theorem core_some_des (h : NNet) (c : Nat) (m : NNet) (sh : Shape) (hs : implShape m = some sh) (w : WFm h) (fd : FD h.net)
    (hc : c < h.net.nodes.size) (hil : (h.net.node c).ins.length ≤ sh.inPorts.length) (hol : (h.net.node c).outs.length ≤ sh.outLines.length)
    (hfresh : addFreshB h c m = true) (ht : targetsOKB m = true)
    (hself : ∀ ll, GhostLine h c m sh ll → (h.net.line ll).driver ≠ c) (dn : Nat) (hd : sh.des = some dn) :
    ∃ h5 map dang, substituteCore h c m = some (h5, map, dang) ∧
      (∀ j, j < h5.net.nodes.size → j ∉ map.toList.filterMap id → Dn h5.net j) ∧
      (∀ j, j < (phase1 h c m sh.des).1.net.nodes.size → ¬ ownN h c j → LS (phase1 h c m sh.des).1.net h5.net j) := by
  have li : LI h := ⟨w.names, w.io⟩
  have p1 := phase1_some_obs h c m dn li hc
  obtain ⟨e1, e2, e3, _⟩ := phase1_rest h c m dn
  have hnode := phase1_node h c m dn hc
  have hline : ∀ l, (phase1 h c m (some dn)).1.net.line l = h.net.line l := by
    intro l; show lineA (phase1 h c m (some dn)).1.net.lines l = _; rw [e1]; rfl
  have lk := lk_init h c m dn w hc
  apply core_some_of h c m sh hs w hc hil hol hfresh ht (ownN h c)
  · rw [hd]; exact p1.2.2.1
  · rw [hd]; exact p1.2.2.2
  · rw [hd]
    intro d hdl hno
    refine ⟨lk.host d hdl hno, ?_⟩
    have hne : d ≠ c := fun e => hno (Or.inl e)
    rw [hnode, if_neg hne]
    exact fd d (by rw [e3] at hdl; exact hdl)
  · rw [hd]
    intro j hj hf o ho
    rw [hnode] at hf ho
    split at hf
    · rw [if_pos (by assumption)] at ho; simp at ho
    · rw [if_neg (by assumption)] at ho
      exact fd j (by rw [e3] at hj; exact hj) hf o ho
  · rw [hd, e3]; exact fun y hy => Or.inr hy
  · rw [hd]; exact (frame_phase1 h c m dn [] []).2
  · rw [hd, e1]
  · rw [hd]
    intro l0 hg
    obtain ⟨g1, g2, g3, g4⟩ := ghost_facts h c m sh w hc hself l0 hg
    rw [hline, e3]
    refine ⟨g2, g3, ?_⟩
    rintro (e | e)
    · exact g4 e
    · omega

theorem core_some_nodes (h : NNet) (c : Nat) (m : NNet) (sh : Shape) (hs : implShape m = some sh) (w : WFm h) (fd : FD h.net)
    (hc : c < h.net.nodes.size) (hil : (h.net.node c).ins.length ≤ sh.inPorts.length) (hol : (h.net.node c).outs.length ≤ sh.outLines.length)
    (hfresh : addFreshB h c m = true) (ht : targetsOKB m = true)
    (hself : ∀ ll, GhostLine h c m sh ll → (h.net.line ll).driver ≠ c) (hio : c ∉ h.net.io) (hd : sh.des = none) :
    ∃ h5 map dang, substituteCore h c m = some (h5, map, dang) ∧
      (∀ j, j < h5.net.nodes.size → j ∉ map.toList.filterMap id → Dn h5.net j) ∧
      (∀ j, j < (phase1 h c m sh.des).1.net.nodes.size → ¬ (h.net.nodes.size - 1 ≤ j) → LS (phase1 h c m sh.des).1.net h5.net j) := by
  have li : LI h := ⟨w.names, w.io⟩
  have hioc : h.net.io.contains c = false := by simpa using hio
  obtain ⟨sA1, sA2⟩ := delNode_sizes h c
  have lk := lk_init_none h c m m.net.nodes.size w hc hio
  have fdD := FD_delNode h c hc fd
  apply core_some_of h c m sh hs w hc hil hol hfresh ht (fun x => h.net.nodes.size - 1 ≤ x)
  · rw [hd]; exact (phase1_none_obs h c m li hc hioc).2.2.1
  · rw [hd]; exact (phase1_none_obs h c m li hc hioc).2.2.2
  · rw [hd]
    intro d hdl hno
    exact ⟨lk.host d hdl hno, fdD d hdl⟩
  · rw [hd]; exact fun j hj => fdD j hj
  · rw [hd]
    intro y hy
    have : (phase1 h c m none).1.net.nodes.size = h.net.nodes.size - 1 := sA1
    omega
  · rw [hd]
    intro j x hx
    have hx' : (Array.replicate m.net.nodes.size (none : Option Nat)).getD j none = some x := hx
    rw [getD_replicate_none] at hx'
    exact absurd hx' (by simp)
  · rw [hd]; exact sA2
  · rw [hd]
    intro l0 hg
    obtain ⟨g1, g2, g3, g4⟩ := ghost_facts h c m sh w hc hself l0 hg
    have hl : (phase1 h c m none).1.net.line l0 = (delNode h c).net.line l0 := rfl
    have hn : (phase1 h c m none).1.net.nodes.size = h.net.nodes.size - 1 := sA1
    rw [hl, hn, delNode_line h c l0 g1]
    refine ⟨g2, ?_, ?_⟩
    · dsimp only; split
      · rename_i e; simp only [beq_iff_eq] at e; omega
      · rename_i e; simp only [beq_iff_eq] at e; omega
    · dsimp only; split
      · rename_i e; simp only [beq_iff_eq] at e; omega
      · rename_i e; simp only [beq_iff_eq] at e; omega

/-- **`substituteCore` succeeds** -/
theorem core_some (h : NNet) (c : Nat) (m : NNet) (sh : Shape) (hs : implShape m = some sh) (w : WFm h) (fd : FD h.net)
    (hc : c < h.net.nodes.size) (hil : (h.net.node c).ins.length ≤ sh.inPorts.length) (hol : (h.net.node c).outs.length ≤ sh.outLines.length)
    (hfresh : addFreshB h c m = true) (ht : targetsOKB m = true)
    (hself : ∀ ll, GhostLine h c m sh ll → (h.net.line ll).driver ≠ c) (hio : c ∉ h.net.io) :
    ∃ h5 map dang, substituteCore h c m = some (h5, map, dang) ∧
      (∀ j, j < h5.net.nodes.size → j ∉ map.toList.filterMap id → Dn h5.net j) ∧
      (∀ j, j < (phase1 h c m sh.des).1.net.nodes.size → (sh.des.isSome = true → j ≠ c) →
        LS (phase1 h c m sh.des).1.net h5.net j) := by
  cases hd : sh.des with
  | none =>
    obtain ⟨h5, map, dang, hcore, hdn, hls⟩ := core_some_nodes h c m sh hs w fd hc hil hol hfresh ht hself hio hd
    refine ⟨h5, map, dang, hcore, hdn, fun j hj _ => ?_⟩
    rw [hd] at hls
    refine hls j hj ?_
    have : (phase1 h c m none).1.net.nodes.size = h.net.nodes.size - 1 := (delNode_sizes h c).1
    omega
  | some dn =>
    obtain ⟨h5, map, dang, hcore, hdn, hls⟩ := core_some_des h c m sh hs w fd hc hil hol hfresh ht hself dn hd
    refine ⟨h5, map, dang, hcore, hdn, fun j hj hne => ?_⟩
    rw [hd] at hls
    refine hls j hj ?_
    have : (phase1 h c m (some dn)).1.net.nodes.size = h.net.nodes.size := (phase1_rest h c m dn).2.2.1
    rintro (e | e)
    · exact hne rfl e
    · omega


/-- the circuit `substituteCore` builds is well-formed up to trailing `None`s and `node_map` points into it (from the certificates
    of `substitute_sem_general`) -/
theorem core_wfm (h m : NNet) (c : Nat) (w : WFm h) (mw : WF m) (hc : c < h.net.nodes.size) (hio : c ∉ h.net.io)
    (hcf : (h.net.node c).isFork = false) (sh : Shape) (hs : implShape m = some sh)
    (k2 : m.net.io.Nodup) (k3 : ∀ p ∈ m.net.io, isSeqKind (m.net.node p).kind = false)
    (k4 : ∀ p ∈ m.net.io, 0 < (m.net.node p).ins.length → 0 < (m.net.node p).outs.length → (m.net.node p).isFork = true)
    (hself : ∀ ll, GhostLine h c m sh ll → (h.net.line ll).driver ≠ c)
    (h5 : NNet) (map : Array (Option Nat)) (dang : List (Option Nat)) (hcore : substituteCore h c m = some (h5, map, dang)) :
    WFm h5 ∧ ∀ j x, map.getD j none = some x → x < h5.net.nodes.size := by
  cases hd : sh.des with
  | some dn =>
    obtain ⟨V, ψ, hcoreV, hnm, lk, hmapLt, hVN⟩ := lockstep_some h c m sh dn w hc hs hd hself h5 map dang hcore
    have k1 := implShape_des_notPort m mw sh dn hs hd k3
    obtain ⟨_, _, _, _, hil, _, _, _, _, _⟩ := substituteCore_inv h c m sh hs h5 map dang hcore
    obtain ⟨s1, s2, s3, s4⟩ := hostClr_sizes h c m sh
    have hcl : (hostClr h c m sh).net.node c = { h.net.node c with ins := clrIns m sh (h.net.node c).ins } := by
      rw [hostClr_node]; simp [hc]
    have hni : NoIgnored m (sh.inPorts.zip (padTo ((hostClr h c m sh).net.node c).ins sh.inPorts.length)) := by
      rw [hcl]
      show NoIgnored m (sh.inPorts.zip (padTo (clrIns m sh (h.net.node c).ins) sh.inPorts.length))
      rw [zip_clrIns m sh _ hil]
      exact noIgnored_clr m _
    obtain ⟨ct, _⟩ := substituteCore_certR (hostClr h c m sh) c m sh dn (hostClr_wfr h c m sh w hc hil) mw (by rw [s1]; exact hc)
      (by rw [s3]; exact hio) (by rw [isFork_of_kind_eq (hostClr_kind h c m sh c)]; exact hcf) hs hd k1 k2 k3 k4 hni V map dang hcoreV
    have sv := substV_of_cert false (!·) (fun _ _ _ _ _ => false) h c m sh dn map V w mw hc hil hs ct
    have li : LI h := ⟨w.names, w.io⟩
    have p1 := phase1_some_obs h c m dn li hc
    have ob := substituteCore_obs h c m sh hs h5 map dang hcore (by rw [hd]; exact p1.2.2.1) (by rw [hd]; exact p1.2.2.2)
    have hio5 : ∀ i ∈ h5.net.io, i < h5.net.nodes.size := ob.2.2.1.2
    have hnames : ∀ x, x < h5.net.nodes.size → h5.names.getD x "" = V.names.getD (id x) "" := fun x _ => by rw [hnm]; rfl
    exact ⟨lk.wfm hnames hio5 ct.wf' sv.ptsBack ob.2.2.1.1, fun j x hx => (hmapLt j x hx).1⟩
  | none =>
    obtain ⟨h2v, mapB, b4, b5, ψ, dangB, hfoldB, hciB, hcoB, lk, hnm, hmap, hmapOwn, hsz, hnsz, hio5, hil, hol⟩ :=
      lockstep_none h c m sh w mw hc hio hs hd hself h5 map dang hcore
    obtain ⟨s1, s2, s3, s4⟩ := hostClr_sizes h c m sh
    have hcl : (hostClr h c m sh).net.node c = { h.net.node c with ins := clrIns m sh (h.net.node c).ins } := by
      rw [hostClr_node]; simp [hc]
    have hni : NoIgnored m (sh.inPorts.zip (padTo ((hostClr h c m sh).net.node c).ins sh.inPorts.length)) := by
      rw [hcl]
      show NoIgnored m (sh.inPorts.zip (padTo (clrIns m sh (h.net.node c).ins) sh.inPorts.length))
      rw [zip_clrIns m sh _ hil]
      exact noIgnored_clr m _
    have hdnode : m.net.node m.net.nodes.size = default := by
      simp only [Net.node, Array.getD_eq_getD_getElem?]
      rw [Array.getElem?_eq_none (Nat.le_refl _)]; rfl
    obtain ⟨ct, _⟩ := substituteCore_certP (hostClr h c m sh) c m sh m.net.nodes.size (hostClr_wfr h c m sh w hc hil) mw
      (by rw [s1]; exact hc) (by rw [s3]; exact hio) (by rw [isFork_of_kind_eq (hostClr_kind h c m sh c)]; exact hcf) hs
      (fun hlt => absurd hlt (Nat.lt_irrefl _)) (by rw [hdnode]; exact default_not_fork)
      (fun hm => absurd (mw.io _ hm) (Nat.lt_irrefl _)) k2 k3 k4 hni
      { h2v with net := b5 } mapB dangB h2v b4 b5 id
      (by rw [hcl]; exact Nat.le_of_eq (clrIns_length m sh _ hil)) (by rw [hcl]; exact hol)
      (by rw [phase1_hostClr]; exact hfoldB)
      (by
        rw [hcl]
        show connectIns m mapB (sh.inPorts.zip (padTo (clrIns m sh (h.net.node c).ins) sh.inPorts.length)) _ = _
        rw [zip_clrIns m sh _ hil]; exact hciB)
      (by
        rw [hcl]
        show connectOuts m mapB (sh.outLines.zip ((padTo (h.net.node c).outs sh.outLines.length).map id)) _ = _
        rw [List.map_id]; exact hcoB)
      rfl
    have sv := substV_of_cert false (!·) (fun _ _ _ _ _ => false) h c m sh m.net.nodes.size mapB { h2v with net := b5 } w mw hc hil hs ct
    have hnames : ∀ x, x < h5.net.nodes.size →
        h5.names.getD x "" = ({ h2v with net := b5 } : NNet).names.getD (piN h.net.nodes.size c x) "" := hnm
    exact ⟨lk.wfm hnames hio5 ct.wf' sv.ptsBack hnsz, fun j x hx => (hmapOwn j x hx).2⟩

/-- **`substitute` returns a circuit.**  Host well-formed up to trailing `None`s with gap-free forks, implementation well-formed
    with `implGenOKB` and `targetsOKB`, cell neither port nor fork with no more pins than the implementation has ports (the two
    `assert`s), fresh names (`addFreshB`), no ignored pin driven by the cell itself (`noSelfIgnB`) -/
theorem substitute_some (h m : NNet) (c : Nat) (w : WFm h) (fd : FD h.net) (mw : WF m) (hc : c < h.net.nodes.size)
    (hio : c ∉ h.net.io) (hcf : (h.net.node c).isFork = false) (hok : implGenOKB m = true) (ht : targetsOKB m = true)
    (hns : noSelfIgnB h c m = true) (hfresh : addFreshB h c m = true)
    (har : ∀ sh, implShape m = some sh →
      (h.net.node c).ins.length ≤ sh.inPorts.length ∧ (h.net.node c).outs.length ≤ sh.outLines.length) :
    ∃ h', substitute h c m = some h' := by
  obtain ⟨sh, hs, k2, k3, k4⟩ := implGenOKB_spec m hok
  have hself := noSelfIgnB_spec h c m sh hs hns
  obtain ⟨hil, hol⟩ := har sh hs
  obtain ⟨h5, map, dang, hcore, hdn, _⟩ := core_some h c m sh hs w fd hc hil hol hfresh ht hself hio
  obtain ⟨wfm5, hmapLt⟩ := core_wfm h m c w mw hc hio hcf sh hs k2 k3 k4 hself h5 map dang hcore
  obtain ⟨dd, wd, _⟩ := densNN_densM (map.toList.filterMap id) h5 wfm5
  have ho : ∀ x ∈ map.toList.filterMap id, x < (densNN h5 (map.toList.filterMap id)).net.nodes.size := by
    intro x hx
    obtain ⟨k, hk⟩ := mem_map_values map x hx
    rw [dd.nsize]
    exact hmapLt k x hk
  have fdd : FD (densNN h5 (map.toList.filterMap id)).net := by
    intro j hj
    have hj5 : j < h5.net.nodes.size := by rw [dd.nsize] at hj; exact hj
    show Dn ((map.toList.filterMap id).foldl densifyNode h5.net) j
    apply dn_densify
    by_cases hv : j ∈ map.toList.filterMap id
    · exact Or.inl hv
    · exact Or.inr (hdn j hj5 hv)
  have hlen : dang.length + (densNN h5 (map.toList.filterMap id)).net.lines.size < dang.length + h5.net.lines.size + 1 := by
    rw [dd.lsize]; omega
  obtain ⟨h', hrd⟩ := removeDangling_some _ _ (map.toList.filterMap id) dang wd fdd ho hlen
  refine ⟨h', ?_⟩
  unfold substitute
  rw [hcore]
  exact hrd

end KV.Transform
