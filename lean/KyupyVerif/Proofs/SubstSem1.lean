import KyupyVerif.Model.SubstSem
import KyupyVerif.Proofs.Substitute4
import KyupyVerif.Proofs.TransformSem6
import KyupyVerif.Proofs.WFr
/-! Helper lemmas for C10 (`substitute_sem`), part 1: the vocabulary of the semantic statement (`ConsHole`, `ImplMatches`),
accessors of `cutIns`, what `implShape` returns, and the structural certificate `SubstCert` from which the semantic
statement is derived (SubstSem2/3); the certificate itself is proved from the model in SubstStruct*. -/
namespace KV.Transform
open KV

/-! ### `cutIns` through accessors -/
section cut
variable (nn : NNet) (dead : Nat → Bool)

theorem cutIns_node (j : Nat) : (cutIns nn dead).net.node j =
    { nn.net.node j with ins := (nn.net.node j).ins.map fun o => o.bind fun l => if dead l then none else some l } := by
  simp only [cutIns, Net.node, Array.getD_eq_getD_getElem?, Array.getElem?_map]
  cases h : nn.net.nodes[j]? with
  | none => simp; rfl
  | some n => simp

theorem cutIns_kind (j : Nat) : ((cutIns nn dead).net.node j).kind = (nn.net.node j).kind := by
  rw [cutIns_node]

theorem cutIns_inPin (j k : Nat) : ((cutIns nn dead).net.node j).inPin k =
    ((nn.net.node j).inPin k).bind fun l => if dead l then none else some l := by
  rw [cutIns_node]
  simp only [NodeD.inPin, List.getD_eq_getElem?_getD, List.getElem?_map]
  cases (nn.net.node j).ins[k]? <;> simp

theorem cutIns_line (l : Nat) : (cutIns nn dead).net.line l = nn.net.line l := rfl
theorem cutIns_io : (cutIns nn dead).net.io = nn.net.io := rfl
theorem cutIns_size : (cutIns nn dead).net.nodes.size = nn.net.nodes.size := by simp [cutIns]
theorem cutIns_lsize : (cutIns nn dead).net.lines.size = nn.net.lines.size := rfl

theorem cutIns_mem_sNodes (j : Nat) : j ∈ (cutIns nn dead).net.sNodes ↔ j ∈ nn.net.sNodes := by
  rw [mem_sNodes, mem_sNodes, cutIns_io, cutIns_size]
  have hk := isDff_of_kind (cutIns_kind nn dead j)
  rw [hk.1, hk.2.1]

theorem cutIns_spN (j : Nat) : spN (cutIns nn dead).net j = spN nn.net j := by
  simp only [spN, List.contains_iff_mem]
  by_cases h : j ∈ nn.net.sNodes
  · simp [h, (cutIns_mem_sNodes nn dead j).mpr h]
  · have : ¬ j ∈ (cutIns nn dead).net.sNodes := fun x => h ((cutIns_mem_sNodes nn dead j).mp x)
    simp [h, this]
end cut

/-! ### the semantic vocabulary -/
/-- the labelling satisfies the equation of every line that is not driven by a node in `S` (the "holes": nodes whose
    meaning is given from outside) -/
def ConsOff {α} (nn : NNet) (S : Nat → Prop) (z : α) (neg : α → α) (prim : String → α → α → α → α → α) (an : Nat → α)
    (v : Nat → α) : Prop :=
  ∀ l, l < nn.net.lines.size → ¬ S (nn.net.line l).driver → v l = lineEq nn.net (spN nn.net) z neg prim an v l

/-- the host labelling satisfies the equation of every line that is not driven by the cell `c` -/
def ConsHole {α} (h : NNet) (c : Nat) (z : α) (neg : α → α) (prim : String → α → α → α → α → α) (an : Nat → α) (v : Nat → α) : Prop :=
  ∀ l, l < h.net.lines.size → (h.net.line l).driver ≠ c → v l = lineEq h.net (spN h.net) z neg prim an v l

theorem consOff_false {α} (nn : NNet) (z : α) (neg : α → α) (prim : String → α → α → α → α → α) (an v : Nat → α) :
    ConsOff nn (fun _ => False) z neg prim an v ↔ ConsN nn z neg prim an v :=
  ⟨fun h l hl => h l hl (fun x => x), fun h l hl _ => h l hl⟩

theorem consOff_single {α} (nn : NNet) (c : Nat) (z : α) (neg : α → α) (prim : String → α → α → α → α → α) (an v : Nat → α) :
    ConsOff nn (fun d => d = c) z neg prim an v ↔ ConsHole nn c z neg prim an v := Iff.rfl

/-- `(anm, vm)` is a consistent labelling of the implementation (with the lines of unconnected instance inputs absent)
    whose ports carry the values of the instance's lines in the host labelling `v`: the **relational meaning of the cell** -/
def ImplMatches {α} (h : NNet) (c : Nat) (m : NNet) (sh : Shape) (z : α) (neg : α → α) (prim : String → α → α → α → α → α)
    (anm vm : Nat → α) (v : Nat → α) : Prop :=
  ConsN (cutIns m (deadLine h c m sh)) z neg prim anm vm ∧
  (∀ p ∈ m.net.io, anm p = portVal h c sh z v p) ∧
  (∀ k il ll, sh.outLines[k]? = some il → instOut h c k = some ll → vm il = v ll)

/-! ### what `implShape` returns -/
theorem implShape_spec (m : NNet) (sh : Shape) (hs : implShape m = some sh) :
    sh.inPorts = m.net.io.filter (fun p => (m.net.node p).ins.length == 0) ∧
    sh.outPorts = m.net.io.filter (fun p => (m.net.node p).ins.length != 0) ∧
    sh.outPorts.map (fun p => (m.net.node p).inPin 0) = sh.outLines.map some := by
  unfold implShape at hs
  dsimp only at hs
  split at hs
  · exact absurd hs (by simp)
  · rename_i hany
    split at hs
    · exact absurd hs (by simp)
    · cases hs
      refine ⟨rfl, rfl, ?_⟩
      dsimp only
      generalize (List.filter (fun p => (m.net.node p).ins.length != 0) m.net.io).map (fun p => (m.net.node p).inPin 0) = X at hany
      induction X with
      | nil => rfl
      | cons a X ih =>
        cases a with
        | none => simp at hany
        | some x =>
          simp only [List.any_cons, Option.isNone_some, Bool.false_or] at hany
          simp only [List.filterMap_cons, id, List.map_cons]
          rw [← ih hany]

end KV.Transform
